/-
Edit distance, alignments, and the Sellers column (C09, C10).  Core Lean only.

* `ed w p s`      – the textbook recursion (Wagner–Fischer) for the edit distance of pattern `p` and string `s`;
                    insertion and deletion cost 1, putting pattern symbol `a` over text symbol `b` costs `w a b`
                    (`unitW eqv a b = 0` if the symbols are equivalent, else 1: Levenshtein distance, Myers with or
                    without ambiguity/wildcard tables; an arbitrary table: Ukkonen with a cost function).
* `wcost w p s ops` – cost of an explicit alignment (operation list consuming exactly `p` and `s`);
                    `ed_le_wcost`, `ed_attained`: `ed` is the minimum over all alignments.
* `acost eqv p s ops` – the same for labelled operations Match/Subst/Ins/Del as returned by the Myers traceback:
                    Match only over equivalent symbols (cost 0), Subst only over non-equivalent symbols (cost 1).
* `fe w q u`      – "free end": minimum over all prefixes `u'` of `u` of `ed w q u'` (`fe_le`, `fe_attained`).
* `lastRow w p t` – the Sellers column algorithm run over the text, last row only: entry `j` is `D[j]`, the value
                    approximate matchers report for end position `j` (inclusive).  The columns are kept for the
                    reversed pattern, so that the recursion of `fe` (which peels symbols at the front) applies.
* `col_spec`      – `D[j]` is the minimum over all start positions `s ≤ j+1` of `ed w p t[s..j+1]`.
-/
namespace RbV.EditDist

/-! ## edit distance -/

/-- weighted edit distance (insertion/deletion 1, pattern symbol `a` over text symbol `b`: `w a b`) -/
def ed (w : Nat → Nat → Nat) : List Nat → List Nat → Nat
  | [], [] => 0
  | _ :: p, [] => 1 + ed w p []
  | [], _ :: s => 1 + ed w [] s
  | a :: p, b :: s => min (w a b + ed w p s) (min (1 + ed w p (b :: s)) (1 + ed w (a :: p) s))
termination_by p s => p.length + s.length

/-- unit cost under a symbol equivalence (`eqv patternSymbol textSymbol`) -/
def unitW (eqv : Nat → Nat → Bool) (a b : Nat) : Nat := if eqv a b then 0 else 1

/-- plain symbol equality -/
def eqSym (a b : Nat) : Bool := a == b

theorem ed_nil_right (w : Nat → Nat → Nat) (p : List Nat) : ed w p [] = p.length := by
  induction p with
  | nil => simp [ed]
  | cons a p ih => simp [ed, ih]; omega

theorem ed_nil_left (w : Nat → Nat → Nat) (s : List Nat) : ed w [] s = s.length := by
  induction s with
  | nil => simp [ed]
  | cons a s ih => simp [ed, ih]; omega

/-! ## alignments with weights -/

inductive WOp | diag | ins | del
deriving DecidableEq, Repr

/-- cost of an operation list aligning exactly `p` with `s`; `none` = not an alignment of `p` and `s`.
`diag` puts a pattern symbol over a text symbol, `ins` consumes a pattern symbol only, `del` a text symbol only. -/
def wcost (w : Nat → Nat → Nat) : List Nat → List Nat → List WOp → Option Nat
  | [], [], [] => some 0
  | a :: p, b :: s, .diag :: r => (wcost w p s r).map (· + w a b)
  | _ :: p, s, .ins :: r => (wcost w p s r).map (· + 1)
  | p, _ :: s, .del :: r => (wcost w p s r).map (· + 1)
  | _, _, _ => none

theorem ed_le_wcost (w : Nat → Nat → Nat) : ∀ (ops : List WOp) (p s : List Nat) (v : Nat),
    wcost w p s ops = some v → ed w p s ≤ v := by
  intro ops
  induction ops with
  | nil =>
    intro p s v h
    cases p <;> cases s <;> simp [wcost] at h
    subst h; simp [ed]
  | cons o r ih =>
    intro p s v h
    cases o with
    | diag =>
      cases p with
      | nil => cases s <;> simp [wcost] at h
      | cons a p =>
        cases s with
        | nil => simp [wcost] at h
        | cons b s =>
          simp only [wcost] at h
          cases h' : wcost w p s r with
          | none => simp [h'] at h
          | some u =>
            simp [h'] at h
            have := ih p s u h'
            rw [ed]; omega
    | ins =>
      cases p with
      | nil => cases s <;> simp [wcost] at h
      | cons a p =>
        simp only [wcost] at h
        cases h' : wcost w p s r with
        | none => simp [h'] at h
        | some u =>
          simp [h'] at h
          have := ih p s u h'
          cases s with
          | nil => rw [ed]; omega
          | cons b s => rw [ed]; omega
    | del =>
      cases s with
      | nil => cases p <;> simp [wcost] at h
      | cons b s =>
        cases p with
        | nil =>
          simp only [wcost] at h
          cases h' : wcost w [] s r with
          | none => simp [h'] at h
          | some u =>
            simp [h'] at h
            have := ih [] s u h'
            rw [ed]; omega
        | cons a p =>
          simp only [wcost] at h
          cases h' : wcost w (a :: p) s r with
          | none => simp [h'] at h
          | some u =>
            simp [h'] at h
            have := ih (a :: p) s u h'
            rw [ed]; omega

theorem ed_attained (w : Nat → Nat → Nat) : ∀ (p s : List Nat),
    ∃ ops, wcost w p s ops = some (ed w p s) := by
  intro p s
  fun_induction ed w p s with
  | case1 => exact ⟨[], by simp [wcost]⟩
  | case2 a p ih =>
    obtain ⟨r, hr⟩ := ih
    exact ⟨.ins :: r, by simp [wcost, hr]; omega⟩
  | case3 b s ih =>
    obtain ⟨r, hr⟩ := ih
    exact ⟨.del :: r, by simp [wcost, hr]; omega⟩
  | case4 a p b s ih1 ih2 ih3 =>
    obtain ⟨r1, h1⟩ := ih1
    obtain ⟨r2, h2⟩ := ih2
    obtain ⟨r3, h3⟩ := ih3
    by_cases hm : w a b + ed w p s ≤ min (1 + ed w p (b :: s)) (1 + ed w (a :: p) s)
    · exact ⟨.diag :: r1, by simp [wcost, h1]; omega⟩
    · by_cases hi : 1 + ed w p (b :: s) ≤ 1 + ed w (a :: p) s
      · exact ⟨.ins :: r2, by simp [wcost, h2]; omega⟩
      · exact ⟨.del :: r3, by simp [wcost, h3]; omega⟩

/-! ### reversal -/

theorem wcost_append (w : Nat → Nat → Nat) : ∀ (o1 : List WOp) (p1 s1 : List Nat) (v1 : Nat)
    (o2 : List WOp) (p2 s2 : List Nat) (v2 : Nat),
    wcost w p1 s1 o1 = some v1 → wcost w p2 s2 o2 = some v2 →
    wcost w (p1 ++ p2) (s1 ++ s2) (o1 ++ o2) = some (v2 + v1) := by
  intro o1
  induction o1 with
  | nil =>
    intro p1 s1 v1 o2 p2 s2 v2 h1 h2
    cases p1 <;> cases s1 <;> simp [wcost] at h1
    subst h1; simpa using h2
  | cons o r ih =>
    intro p1 s1 v1 o2 p2 s2 v2 h1 h2
    cases o with
    | diag =>
      cases p1 with
      | nil => cases s1 <;> simp [wcost] at h1
      | cons a p =>
        cases s1 with
        | nil => simp [wcost] at h1
        | cons b s =>
          simp only [wcost] at h1
          cases h' : wcost w p s r with
          | none => simp [h'] at h1
          | some u =>
            simp [h'] at h1
            have := ih p s u o2 p2 s2 v2 h' h2
            simp only [List.cons_append, wcost, this, Option.map_some]
            congr 1; omega
    | ins =>
      cases p1 with
      | nil => cases s1 <;> simp [wcost] at h1
      | cons a p =>
        simp only [wcost] at h1
        cases h' : wcost w p s1 r with
        | none => simp [h'] at h1
        | some u =>
          simp [h'] at h1
          have := ih p s1 u o2 p2 s2 v2 h' h2
          simp only [List.cons_append, wcost, this, Option.map_some]
          congr 1; omega
    | del =>
      cases s1 with
      | nil => cases p1 <;> simp [wcost] at h1
      | cons b s =>
        cases p1 with
        | nil =>
          simp only [wcost] at h1
          cases h' : wcost w [] s r with
          | none => simp [h'] at h1
          | some u =>
            simp [h'] at h1
            have := ih [] s u o2 p2 s2 v2 h' h2
            cases p2 with
            | nil =>
              simp only [List.nil_append] at this
              simp only [List.cons_append, List.nil_append, wcost, this, Option.map_some]
              congr 1; omega
            | cons c p2 =>
              simp only [List.nil_append] at this
              simp only [List.cons_append, List.nil_append, wcost, this, Option.map_some]
              congr 1; omega
        | cons a p =>
          simp only [wcost] at h1
          cases h' : wcost w (a :: p) s r with
          | none => simp [h'] at h1
          | some u =>
            simp [h'] at h1
            have := ih (a :: p) s u o2 p2 s2 v2 h' h2
            simp only [List.cons_append] at this
            simp only [List.cons_append, wcost, this, Option.map_some]
            congr 1; omega

theorem wcost_reverse (w : Nat → Nat → Nat) : ∀ (ops : List WOp) (p s : List Nat) (v : Nat),
    wcost w p s ops = some v → wcost w p.reverse s.reverse ops.reverse = some v := by
  intro ops
  induction ops with
  | nil =>
    intro p s v h
    cases p <;> cases s <;> simp [wcost] at h
    subst h; simp [wcost]
  | cons o r ih =>
    intro p s v h
    cases o with
    | diag =>
      cases p with
      | nil => cases s <;> simp [wcost] at h
      | cons a p =>
        cases s with
        | nil => simp [wcost] at h
        | cons b s =>
          simp only [wcost] at h
          cases h' : wcost w p s r with
          | none => simp [h'] at h
          | some u =>
            simp [h'] at h
            have h1 := ih p s u h'
            have h2 : wcost w [a] [b] [.diag] = some (w a b) := by simp [wcost]
            have := wcost_append w _ _ _ _ _ _ _ _ h1 h2
            simp only [List.reverse_cons]
            rw [this]; congr 1; omega
    | ins =>
      cases p with
      | nil => cases s <;> simp [wcost] at h
      | cons a p =>
        simp only [wcost] at h
        cases h' : wcost w p s r with
        | none => simp [h'] at h
        | some u =>
          simp [h'] at h
          have h1 := ih p s u h'
          have h2 : wcost w [a] [] [.ins] = some 1 := by simp [wcost]
          have := wcost_append w _ _ _ _ _ _ _ _ h1 h2
          simp only [List.reverse_cons]
          simp only [List.append_nil] at this
          rw [this]; congr 1; omega
    | del =>
      cases s with
      | nil => cases p <;> simp [wcost] at h
      | cons b s =>
        have hd : wcost w p (b :: s) (.del :: r) = (wcost w p s r).map (· + 1) := by
          cases p <;> simp [wcost]
        rw [hd] at h
        cases h' : wcost w p s r with
        | none => simp [h'] at h
        | some u =>
          simp [h'] at h
          have h1 := ih p s u h'
          have h2 : wcost w [] [b] [.del] = some 1 := by simp [wcost]
          have := wcost_append w _ _ _ _ _ _ _ _ h1 h2
          simp only [List.reverse_cons]
          simp only [List.append_nil] at this
          rw [this]; congr 1; omega

theorem ed_reverse_le (w : Nat → Nat → Nat) (p s : List Nat) :
    ed w p.reverse s.reverse ≤ ed w p s := by
  obtain ⟨ops, h⟩ := ed_attained w p s
  exact ed_le_wcost w _ _ _ _ (wcost_reverse w ops p s _ h)

/-- the edit distance of the reversed strings is the same -/
theorem ed_reverse (w : Nat → Nat → Nat) (p s : List Nat) :
    ed w p.reverse s.reverse = ed w p s := by
  apply Nat.le_antisymm (ed_reverse_le w p s)
  have := ed_reverse_le w p.reverse s.reverse
  simpa using this

/-! ## labelled alignments (Myers traceback) -/

inductive Op | mat | sub | ins | del
deriving DecidableEq, Repr

def Op.toW : Op → WOp
  | .mat => .diag
  | .sub => .diag
  | .ins => .ins
  | .del => .del

/-- number of non-match operations of a labelled operation list that aligns exactly `p` with `s`, where `mat` is
allowed only over equivalent symbols and `sub` only over non-equivalent ones; `none` = not such an alignment.
`ins` consumes a pattern symbol (rust-bio: `Ins` = symbol of x = pattern without partner), `del` a text symbol. -/
def acost (eqv : Nat → Nat → Bool) : List Nat → List Nat → List Op → Option Nat
  | [], [], [] => some 0
  | a :: p, b :: s, .mat :: r => if eqv a b then acost eqv p s r else none
  | a :: p, b :: s, .sub :: r => if eqv a b then none else (acost eqv p s r).map (· + 1)
  | _ :: p, s, .ins :: r => (acost eqv p s r).map (· + 1)
  | p, _ :: s, .del :: r => (acost eqv p s r).map (· + 1)
  | _, _, _ => none

theorem acost_wcost (eqv : Nat → Nat → Bool) : ∀ (ops : List Op) (p s : List Nat) (v : Nat),
    acost eqv p s ops = some v → wcost (unitW eqv) p s (ops.map Op.toW) = some v := by
  intro ops
  induction ops with
  | nil =>
    intro p s v h
    cases p <;> cases s <;> simp [acost] at h
    subst h; simp [wcost]
  | cons o r ih =>
    intro p s v h
    cases o with
    | mat =>
      cases p with
      | nil => cases s <;> simp [acost] at h
      | cons a p =>
        cases s with
        | nil => simp [acost] at h
        | cons b s =>
          simp only [acost] at h
          split at h
          · rename_i he
            have := ih p s v h
            simp [Op.toW, wcost, this, unitW, he]
          · simp at h
    | sub =>
      cases p with
      | nil => cases s <;> simp [acost] at h
      | cons a p =>
        cases s with
        | nil => simp [acost] at h
        | cons b s =>
          simp only [acost] at h
          split at h
          · simp at h
          · rename_i he
            cases h' : acost eqv p s r with
            | none => simp [h'] at h
            | some u =>
              simp [h'] at h
              have := ih p s u h'
              simp [Op.toW, wcost, this, unitW, he, h]
    | ins =>
      cases p with
      | nil => cases s <;> simp [acost] at h
      | cons a p =>
        simp only [acost] at h
        cases h' : acost eqv p s r with
        | none => simp [h'] at h
        | some u =>
          simp [h'] at h
          have := ih p s u h'
          simp [Op.toW, wcost, this, h]
    | del =>
      cases s with
      | nil => cases p <;> simp [acost] at h
      | cons b s =>
        have hd : acost eqv p (b :: s) (.del :: r) = (acost eqv p s r).map (· + 1) := by
          cases p <;> simp [acost]
        rw [hd] at h
        cases h' : acost eqv p s r with
        | none => simp [h'] at h
        | some u =>
          simp [h'] at h
          have := ih p s u h'
          cases p <;> simp [Op.toW, wcost, this, h]

/-- a labelled alignment bounds the edit distance from above -/
theorem ed_le_acost (eqv : Nat → Nat → Bool) (ops : List Op) (p s : List Nat) (v : Nat)
    (h : acost eqv p s ops = some v) : ed (unitW eqv) p s ≤ v :=
  ed_le_wcost _ _ _ _ _ (acost_wcost eqv ops p s v h)

/-! ## free end -/

/-- minimum over all prefixes `u'` of `u` of `ed w q u'` (recursion: the three DP moves; stopping is free once the
pattern is consumed) -/
def fe (w : Nat → Nat → Nat) : List Nat → List Nat → Nat
  | [], _ => 0
  | _ :: q, [] => 1 + fe w q []
  | a :: q, b :: u => min (w a b + fe w q u) (min (1 + fe w q (b :: u)) (1 + fe w (a :: q) u))
termination_by q u => q.length + u.length

theorem fe_nil_right (w : Nat → Nat → Nat) (q : List Nat) : fe w q [] = q.length := by
  induction q with
  | nil => simp [fe]
  | cons a q ih => simp [fe, ih]; omega

theorem fe_le (w : Nat → Nat → Nat) (q u : List Nat) : ∀ k, fe w q u ≤ ed w q (u.take k) := by
  fun_induction fe w q u with
  | case1 u => intro k; simp
  | case2 a q ih =>
    intro k
    have := ih 0
    simp only [List.take_nil] at this ⊢
    rw [ed]; omega
  | case3 a q b u ih1 ih2 ih3 =>
    intro k
    cases k with
    | zero =>
      have := ih2 0
      simp only [List.take_zero] at this ⊢
      rw [ed]; omega
    | succ k =>
      have h1 := ih1 k
      have h2 := ih2 (k + 1)
      have h3 := ih3 k
      simp only [List.take_succ_cons] at h2 ⊢
      rw [ed]; omega

theorem fe_attained (w : Nat → Nat → Nat) (q u : List Nat) :
    ∃ k, k ≤ u.length ∧ fe w q u = ed w q (u.take k) := by
  fun_induction fe w q u with
  | case1 u => exact ⟨0, by simp, by simp [ed]⟩
  | case2 a q ih => exact ⟨0, by simp, by simp [ed_nil_right, fe_nil_right]; omega⟩
  | case3 a q b u ih1 ih2 ih3 =>
    obtain ⟨k1, hk1, h1⟩ := ih1
    obtain ⟨k2, hk2, h2⟩ := ih2
    obtain ⟨k3, hk3, h3⟩ := ih3
    have l1 := fe_le w q u
    have l2 := fe_le w q (b :: u)
    have l3 := fe_le w (a :: q) u
    by_cases hm : w a b + fe w q u ≤ min (1 + fe w q (b :: u)) (1 + fe w (a :: q) u)
    · refine ⟨k1 + 1, by simp; omega, ?_⟩
      have e2 := l2 (k1 + 1)
      have e3 := l3 k1
      simp only [List.take_succ_cons] at e2 ⊢
      rw [ed]; omega
    · by_cases hi : 1 + fe w q (b :: u) ≤ 1 + fe w (a :: q) u
      · cases k2 with
        | zero =>
          refine ⟨0, by simp, ?_⟩
          simp only [List.take_zero] at h2 ⊢
          rw [ed]; omega
        | succ k2 =>
          refine ⟨k2 + 1, hk2, ?_⟩
          have e1 := l1 k2
          have e3 := l3 k2
          simp only [List.take_succ_cons] at h2 ⊢
          rw [ed]; omega
      · refine ⟨k3 + 1, by simp; omega, ?_⟩
        have e1 := l1 k3
        have e2 := l2 (k3 + 1)
        simp only [List.take_succ_cons] at e2 ⊢
        rw [ed]; omega

/-! ## the Sellers column -/

/-- `[fe w q[a..] u | a = 0 .. |q|]` -/
def specCol (w : Nat → Nat → Nat) : List Nat → List Nat → List Nat
  | [], _ => [0]
  | a :: q, u => fe w (a :: q) u :: specCol w q u

/-- column for the empty text: `[|q|, |q|-1, …, 0]` -/
def initCol : List Nat → List Nat
  | [] => [0]
  | _ :: q => (q.length + 1) :: initCol q

/-- one column step: the text symbol `b` is put in front of the (reversed) text read so far -/
def nextCol (w : Nat → Nat → Nat) (b : Nat) : List Nat → List Nat → List Nat
  | [], _ => [0]
  | a :: q, old =>
    let rest := nextCol w b q old.tail
    min (w a b + old.tail.headD 0) (min (1 + rest.headD 0) (1 + old.headD 0)) :: rest

theorem specCol_headD (w : Nat → Nat → Nat) (q u : List Nat) : (specCol w q u).headD 0 = fe w q u := by
  cases q <;> simp [specCol, fe]

theorem initCol_eq (w : Nat → Nat → Nat) (q : List Nat) : initCol q = specCol w q [] := by
  induction q with
  | nil => simp [initCol, specCol]
  | cons a q ih => simp [initCol, specCol, ih, fe_nil_right]

theorem nextCol_spec (w : Nat → Nat → Nat) (b : Nat) (q u : List Nat) :
    nextCol w b q (specCol w q u) = specCol w q (b :: u) := by
  induction q with
  | nil => simp [nextCol, specCol]
  | cons a q ih =>
    simp only [nextCol, specCol, List.tail_cons, List.headD_cons, ih, specCol_headD]
    rw [fe]

/-- run the column over the text, emitting the entry of the full pattern after every symbol -/
def scanCols (w : Nat → Nat → Nat) (q : List Nat) : List Nat → List Nat → List Nat
  | _, [] => []
  | col, c :: t =>
    let col' := nextCol w c q col
    col'.headD 0 :: scanCols w q col' t

/-- `D[0], …, D[n-1]`: last row of the Sellers matrix of pattern `p` against text `t` -/
def lastRow (w : Nat → Nat → Nat) (p t : List Nat) : List Nat :=
  scanCols w p.reverse (initCol p.reverse) t

theorem scanCols_length (w : Nat → Nat → Nat) (q : List Nat) : ∀ (t col : List Nat),
    (scanCols w q col t).length = t.length := by
  intro t
  induction t with
  | nil => intro col; simp [scanCols]
  | cons c t ih => intro col; simp [scanCols, ih]

theorem scanCols_spec (w : Nat → Nat → Nat) (q : List Nat) : ∀ (t u : List Nat) (j : Nat), j < t.length →
    (scanCols w q (specCol w q u) t)[j]? = some (fe w q ((t.take (j + 1)).reverse ++ u)) := by
  intro t
  induction t with
  | nil => intro u j h; simp at h
  | cons c t ih =>
    intro u j h
    simp only [scanCols, nextCol_spec]
    cases j with
    | zero => rw [specCol_headD]; simp
    | succ j =>
      have := ih (c :: u) j (by simpa using h)
      simp only [List.getElem?_cons_succ, this, List.take_succ_cons, List.reverse_cons,
        List.append_assoc, List.singleton_append]

theorem lastRow_length (w : Nat → Nat → Nat) (p t : List Nat) : (lastRow w p t).length = t.length :=
  scanCols_length w _ t _

theorem lastRow_fe (w : Nat → Nat → Nat) (p t : List Nat) (j : Nat) (h : j < t.length) :
    (lastRow w p t)[j]? = some (fe w p.reverse (t.take (j + 1)).reverse) := by
  unfold lastRow
  rw [initCol_eq w, scanCols_spec w _ t [] j h]
  simp

/-- reversing a prefix of the reversed string gives a suffix of the string -/
theorem reverse_take_reverse (x : List Nat) (k : Nat) (_hk : k ≤ x.length) :
    (x.reverse.take k).reverse = x.drop (x.length - k) := by
  rw [List.take_reverse, List.reverse_reverse]

/-- **Sellers**: `D[j]` is a lower bound for the distance of the pattern to every substring ending at `j` … -/
theorem col_le (w : Nat → Nat → Nat) (p t : List Nat) (j d : Nat)
    (hd : (lastRow w p t)[j]? = some d) (s : Nat) (hs : s ≤ j + 1) :
    d ≤ ed w p ((t.take (j + 1)).drop s) := by
  have hj : j < t.length := by
    have := lastRow_length w p t
    have := (List.getElem?_eq_some_iff.mp hd).1
    omega
  rw [lastRow_fe w p t j hj] at hd
  injection hd with hd
  subst hd
  have hlen : (t.take (j + 1)).length = j + 1 := by simp; omega
  have := fe_le w p.reverse (t.take (j + 1)).reverse (j + 1 - s)
  rw [← ed_reverse w p.reverse, List.reverse_reverse,
    reverse_take_reverse _ _ (by omega), hlen] at this
  have e : j + 1 - (j + 1 - s) = s := by omega
  rw [e] at this
  exact this

/-- … and is attained by one of them. -/
theorem col_attained (w : Nat → Nat → Nat) (p t : List Nat) (j d : Nat)
    (hd : (lastRow w p t)[j]? = some d) :
    ∃ s, s ≤ j + 1 ∧ d = ed w p ((t.take (j + 1)).drop s) := by
  have hj : j < t.length := by
    have := lastRow_length w p t
    have := (List.getElem?_eq_some_iff.mp hd).1
    omega
  rw [lastRow_fe w p t j hj] at hd
  injection hd with hd
  subst hd
  have hlen : (t.take (j + 1)).length = j + 1 := by simp; omega
  obtain ⟨k, hk, h⟩ := fe_attained w p.reverse (t.take (j + 1)).reverse
  simp only [List.length_reverse, hlen] at hk
  refine ⟨j + 1 - k, by omega, ?_⟩
  rw [h, ← ed_reverse w p.reverse, List.reverse_reverse,
    reverse_take_reverse _ _ (by omega), hlen]

/-- `d` is the minimum edit distance between `p` and any substring of `t` that ends at position `j` (inclusive) -/
def IsMinEdAt (w : Nat → Nat → Nat) (p t : List Nat) (j d : Nat) : Prop :=
  (∀ s, s ≤ j + 1 → d ≤ ed w p ((t.take (j + 1)).drop s)) ∧
  (∃ s, s ≤ j + 1 ∧ d = ed w p ((t.take (j + 1)).drop s))

/-! ## observables built from the column -/

/-- expected output of `find_all_end(text, k)`: all `(j, D[j])` with `D[j] ≤ k`, in text order -/
def hitsFrom (k : Nat) : Nat → List Nat → List (Nat × Nat)
  | _, [] => []
  | j, d :: r => if d ≤ k then (j, d) :: hitsFrom k (j + 1) r else hitsFrom k (j + 1) r

def hits (w : Nat → Nat → Nat) (p t : List Nat) (k : Nat) : List (Nat × Nat) :=
  hitsFrom k 0 (lastRow w p t)

/-- first position of the minimum, and the minimum (`none` for the empty list) -/
def firstMin : Nat → List Nat → Option (Nat × Nat)
  | _, [] => none
  | j, d :: r =>
    match firstMin (j + 1) r with
    | none => some (j, d)
    | some (j', d') => if d ≤ d' then some (j, d) else some (j', d')

theorem mem_hitsFrom (k : Nat) : ∀ (l : List Nat) (off j d : Nat),
    (j, d) ∈ hitsFrom k off l ↔ off ≤ j ∧ l[j - off]? = some d ∧ d ≤ k := by
  intro l
  induction l with
  | nil => intro off j d; simp [hitsFrom]
  | cons x r ih =>
    intro off j d
    simp only [hitsFrom]
    by_cases hx : x ≤ k
    · simp only [hx, if_true, List.mem_cons, Prod.mk.injEq, ih]
      constructor
      · rintro (⟨rfl, rfl⟩ | ⟨h1, h2, h3⟩)
        · simp [hx]
        · refine ⟨by omega, ?_, h3⟩
          have : j - off = (j - (off + 1)) + 1 := by omega
          rw [this]; simpa using h2
      · rintro ⟨h1, h2, h3⟩
        by_cases hj : j = off
        · subst hj; simp at h2; left; exact ⟨rfl, h2.symm⟩
        · right
          refine ⟨by omega, ?_, h3⟩
          have : j - off = (j - (off + 1)) + 1 := by omega
          rw [this] at h2; simpa using h2
    · simp only [hx, if_false, ih]
      constructor
      · rintro ⟨h1, h2, h3⟩
        refine ⟨by omega, ?_, h3⟩
        have : j - off = (j - (off + 1)) + 1 := by omega
        rw [this]; simpa using h2
      · rintro ⟨h1, h2, h3⟩
        by_cases hj : j = off
        · subst hj; simp at h2; omega
        · refine ⟨by omega, ?_, h3⟩
          have : j - off = (j - (off + 1)) + 1 := by omega
          rw [this] at h2; simpa using h2

theorem hitsFrom_sorted (k : Nat) : ∀ (l : List Nat) (off : Nat),
    (hitsFrom k off l).Pairwise (fun a b => a.1 < b.1) := by
  intro l
  induction l with
  | nil => intro off; simp [hitsFrom]
  | cons x r ih =>
    intro off
    simp only [hitsFrom]
    split
    · rw [List.pairwise_cons]
      refine ⟨?_, ih _⟩
      intro ⟨j, d⟩ hmem
      have := (mem_hitsFrom k r (off + 1) j d).mp hmem
      simp; omega
    · exact ih _

theorem firstMin_spec : ∀ (l : List Nat) (off j d : Nat), firstMin off l = some (j, d) →
    off ≤ j ∧ l[j - off]? = some d ∧ (∀ (i x : Nat), l[i]? = some x → d ≤ x) ∧
    (∀ (i x : Nat), l[i]? = some x → i < j - off → d < x) := by
  intro l
  induction l with
  | nil => intro off j d h; simp [firstMin] at h
  | cons y r ih =>
    intro off j d h
    simp only [firstMin] at h
    cases hr : firstMin (off + 1) r with
    | none =>
      simp [hr] at h
      obtain ⟨rfl, rfl⟩ := h
      have hnil : r = [] := by
        cases r with
        | nil => rfl
        | cons z r' =>
          simp only [firstMin] at hr
          split at hr
          · simp at hr
          · split at hr <;> simp at hr
      subst hnil
      refine ⟨Nat.le_refl _, by simp, ?_, ?_⟩
      · intro i x hi
        cases i with
        | zero => simp at hi; omega
        | succ i => simp at hi
      · intro i x _ hlt; omega
    | some jd =>
      obtain ⟨j', d'⟩ := jd
      have ih' := ih (off + 1) j' d' hr
      simp only [hr] at h
      split at h
      · rename_i hle
        simp at h
        obtain ⟨rfl, rfl⟩ := h
        refine ⟨Nat.le_refl _, by simp, ?_, ?_⟩
        · intro i x hi
          cases i with
          | zero => simp at hi; omega
          | succ i =>
            simp at hi
            have := ih'.2.2.1 i x hi
            omega
        · intro i x _ hlt; omega
      · rename_i hnle
        simp at h
        obtain ⟨rfl, rfl⟩ := h
        obtain ⟨h1, h2, h3, h4⟩ := ih'
        have e : j' - off = (j' - (off + 1)) + 1 := by omega
        refine ⟨by omega, ?_, ?_, ?_⟩
        · rw [e]; simpa using h2
        · intro i x hi
          cases i with
          | zero => simp at hi; omega
          | succ i => simp at hi; exact h3 i x hi
        · intro i x hi hlt
          cases i with
          | zero => simp at hi; omega
          | succ i =>
            simp at hi
            exact h4 i x hi (by omega)

/-! ## efficient evaluation of `ed` itself (both ends fixed): the same column with a paid bottom cell -/

/-- `[ed w q[a..] u | a = 0 .. |q|]` -/
def specColG (w : Nat → Nat → Nat) : List Nat → List Nat → List Nat
  | [], u => [ed w [] u]
  | a :: q, u => ed w (a :: q) u :: specColG w q u

def nextColG (w : Nat → Nat → Nat) (b : Nat) : List Nat → List Nat → List Nat
  | [], old => [1 + old.headD 0]
  | a :: q, old =>
    let rest := nextColG w b q old.tail
    min (w a b + old.tail.headD 0) (min (1 + rest.headD 0) (1 + old.headD 0)) :: rest

/-- dynamic-programming evaluation of `ed w p s` (columns over the suffixes of `s`) -/
def edFast (w : Nat → Nat → Nat) (p s : List Nat) : Nat :=
  (s.foldr (fun b col => nextColG w b p col) (initCol p)).headD 0

theorem specColG_headD (w : Nat → Nat → Nat) (q u : List Nat) : (specColG w q u).headD 0 = ed w q u := by
  cases q <;> simp [specColG]

theorem initCol_eqG (w : Nat → Nat → Nat) (q : List Nat) : initCol q = specColG w q [] := by
  induction q with
  | nil => simp [initCol, specColG, ed]
  | cons a q ih => simp [initCol, specColG, ih, ed_nil_right]

theorem nextColG_spec (w : Nat → Nat → Nat) (b : Nat) (q u : List Nat) :
    nextColG w b q (specColG w q u) = specColG w q (b :: u) := by
  induction q with
  | nil => simp [nextColG, specColG, ed]
  | cons a q ih =>
    simp only [nextColG, specColG, List.tail_cons, List.headD_cons, ih, specColG_headD]
    rw [ed]

theorem foldr_nextColG (w : Nat → Nat → Nat) (p s : List Nat) :
    s.foldr (fun b col => nextColG w b p col) (initCol p) = specColG w p s := by
  induction s with
  | nil => simp [initCol_eqG w]
  | cons b s ih => simp only [List.foldr_cons, ih, nextColG_spec]

theorem edFast_eq (w : Nat → Nat → Nat) (p s : List Nat) : edFast w p s = ed w p s := by
  unfold edFast
  rw [foldr_nextColG, specColG_headD]

/-! ## Hamming distance -/

/-- number of positions at which the strings differ; `none` when the lengths differ -/
def hamming : List Nat → List Nat → Option Nat
  | [], [] => some 0
  | a :: x, b :: y => (hamming x y).map (· + (if a = b then 0 else 1))
  | _, _ => none

end RbV.EditDist
