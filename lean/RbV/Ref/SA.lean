import RbV.Spec.SufOrder
import RbV.Spec.Occ
/-
Acceptance function for suffix arrays and references for LCP / shortest unique substrings (C03).

* `checkSorted ks sa`  permutation test + all *adjacent* pairs increasing in suffix order  (→ `SuffixSorted`)
* `checkSA t sa`       sentinel order := order in which the sentinel positions appear in `sa`; `sa[0] = n-1`;
                       `checkSorted` under the induced key text                              (→ `IsSA`)
* `cpl a b`            length of the longest common prefix, `lcpRef t sa`
* `susRef t p`         1 + the longest prefix the suffix at `p` shares with any other suffix
-/
namespace RbV

/-- `r` holds for every adjacent pair -/
def adjAll (r : Nat → Nat → Bool) : List Nat → Bool
  | a :: b :: l => r a b && adjAll r (b :: l)
  | _ => true

theorem adjAll_pairwise (r : Nat → Nat → Bool)
    (htr : ∀ a b c, r a b = true → r b c = true → r a c = true) :
    ∀ l, adjAll r l = true → l.Pairwise (fun a b => r a b = true)
  | [] => by simp
  | [a] => by simp
  | a :: b :: l => by
    intro h
    simp only [adjAll, Bool.and_eq_true] at h
    have ih := adjAll_pairwise r htr (b :: l) h.2
    rw [List.pairwise_cons]
    refine ⟨?_, ih⟩
    intro x hx
    rw [List.mem_cons] at hx
    rcases hx with rfl | hx
    · exact h.1
    · rw [List.pairwise_cons] at ih
      exact htr a b x h.1 (ih.1 x hx)

theorem pairwise_adjAll (r : Nat → Nat → Bool) :
    ∀ l, l.Pairwise (fun a b => r a b = true) → adjAll r l = true
  | [] => by simp [adjAll]
  | [a] => by simp [adjAll]
  | a :: b :: l => by
    intro h
    rw [List.pairwise_cons] at h
    simp only [adjAll, Bool.and_eq_true]
    exact ⟨h.1 b (by simp), pairwise_adjAll r (b :: l) h.2⟩

def sufLtB (ks : List Nat) (i j : Nat) : Bool := lexLtB (ks.drop i) (ks.drop j)

theorem sufLtB_iff (ks : List Nat) (i j : Nat) : sufLtB ks i j = true ↔ sufLt ks i j :=
  lexLtB_iff _ _

/-- permutation test and adjacent pairs increasing -/
def checkSorted (ks sa : List Nat) : Bool :=
  sa.isPerm (List.range ks.length) && adjAll (sufLtB ks) sa

theorem checkSorted_iff (ks sa : List Nat) : checkSorted ks sa = true ↔ SuffixSorted ks sa := by
  unfold checkSorted SuffixSorted
  rw [Bool.and_eq_true, List.isPerm_iff]
  constructor
  · rintro ⟨hp, ha⟩
    refine ⟨hp, ?_⟩
    have := adjAll_pairwise (sufLtB ks)
      (fun a b c h1 h2 => (sufLtB_iff ks a c).mpr (sufLt_trans ((sufLtB_iff ks a b).mp h1) ((sufLtB_iff ks b c).mp h2)))
      sa ha
    exact this.imp (fun h => (sufLtB_iff ks _ _).mp h)
  · rintro ⟨hp, hs⟩
    refine ⟨hp, pairwise_adjAll _ _ ?_⟩
    exact hs.imp (fun h => (sufLtB_iff ks _ _).mpr h)

/-! ### the sentinel order induced by the array itself -/

/-- sentinel positions in the order in which they appear in `sa` -/
def sentPositions (t sa : List Nat) : List Nat := sa.filter (fun p => decide (IsSentPos t p))

/-- key text under the order induced by `sa` -/
def inducedKeys (t sa : List Nat) : List Nat :=
  let sp := sentPositions t sa
  keyText t sp.length (fun p => sp.idxOf p)

def checkSA (t sa : List Nat) : Bool :=
  sa.head? == some (t.length - 1) && !t.isEmpty && checkSorted (inducedKeys t sa) sa

theorem isSentPos_last (t : List Nat) (h : t ≠ []) : IsSentPos t (t.length - 1) := by
  unfold IsSentPos sentinelOf
  rw [List.getLastD_eq_getLast?, List.getLast?_eq_getElem?]
  have : t.length - 1 < t.length := by
    cases t with
    | nil => exact absurd rfl h
    | cons a l => simp
  simp [List.getElem?_eq_getElem this]

theorem induced_sentinelOrder (t sa : List Nat) (hp : sa.Perm (List.range t.length))
    (hh : sa.head? = some (t.length - 1)) (ht : t ≠ []) :
    SentinelOrder t (sentPositions t sa).length (fun p => (sentPositions t sa).idxOf p) := by
  have hmem : ∀ p, IsSentPos t p → p ∈ sentPositions t sa := by
    intro p hsp
    unfold sentPositions
    rw [List.mem_filter]
    refine ⟨?_, by simpa using hsp⟩
    rw [hp.mem_iff, List.mem_range]
    unfold IsSentPos at hsp
    have := List.getElem?_eq_some_iff.mp hsp
    exact this.1
  have hinj : ∀ p q, IsSentPos t p → IsSentPos t q →
      (sentPositions t sa).idxOf p = (sentPositions t sa).idxOf q → p = q := by
    intro p q h1 h2 he
    have l1 := List.idxOf_lt_length_iff.mpr (hmem p h1)
    have l2 := List.idxOf_lt_length_iff.mpr (hmem q h2)
    have e1 := List.getElem_idxOf l1
    have e2 := List.getElem_idxOf l2
    rw [← e1, ← e2]
    congr 1
  have hlast := isSentPos_last t ht
  refine ⟨fun p h => List.idxOf_lt_length_iff.mpr (hmem p h), hinj, ?_⟩
  intro q hq hne
  -- the last position is the head of `sa`, hence of the filtered list: rank 0
  have h0 : (sentPositions t sa).idxOf (t.length - 1) = 0 := by
    cases sa with
    | nil => simp at hh
    | cons a l =>
      simp only [List.head?_cons, Option.some.injEq] at hh
      subst hh
      unfold sentPositions
      rw [List.filter_cons]
      simp [hlast]
  rw [h0]
  apply Nat.pos_of_ne_zero
  intro hz
  exact hne (hinj q _ hq hlast (by rw [hz, h0]))

theorem checkSA_isSA (t sa : List Nat) (h : checkSA t sa = true) : IsSA t sa := by
  unfold checkSA at h
  simp only [Bool.and_eq_true, beq_iff_eq, Bool.not_eq_true', List.isEmpty_eq_false_iff] at h
  obtain ⟨⟨hh, hne⟩, hs⟩ := h
  have hs' := (checkSorted_iff _ _).mp hs
  refine ⟨_, _, ?_, hs'⟩
  apply induced_sentinelOrder t sa _ hh hne
  have := hs'.1
  unfold inducedKeys at this
  simpa [length_keyText] using this

/-! ### longest common prefix -/

/-- length of the longest common prefix -/
def cpl : List Nat → List Nat → Nat
  | a :: as, b :: bs => if a = b then cpl as bs + 1 else 0
  | _, _ => 0

theorem cpl_le_left (a b : List Nat) : cpl a b ≤ a.length := by
  induction a generalizing b with
  | nil => simp [cpl]
  | cons x xs ih =>
    cases b with
    | nil => simp [cpl]
    | cons y ys =>
      simp only [cpl]; split
      · have := ih ys; simp; omega
      · simp

theorem cpl_comm (a b : List Nat) : cpl a b = cpl b a := by
  induction a generalizing b with
  | nil => cases b <;> simp [cpl]
  | cons x xs ih =>
    cases b with
    | nil => simp [cpl]
    | cons y ys =>
      simp only [cpl]
      by_cases h : x = y
      · subst h; simp [ih ys]
      · have h' : ¬ y = x := fun e => h e.symm
        simp [h, h']

theorem cpl_le_right (a b : List Nat) : cpl a b ≤ b.length := by
  rw [cpl_comm]; exact cpl_le_left b a

/-- the first `cpl a b` symbols agree … -/
theorem cpl_take (a b : List Nat) : a.take (cpl a b) = b.take (cpl a b) := by
  induction a generalizing b with
  | nil => simp [cpl]
  | cons x xs ih =>
    cases b with
    | nil => simp [cpl]
    | cons y ys =>
      simp only [cpl]; split
      · rename_i h; subst h; simp [ih ys]
      · simp

/-- … and no longer common prefix exists -/
theorem cpl_max (a b : List Nat) (l : Nat) (hl : l ≤ a.length) (hl' : l ≤ b.length)
    (h : a.take l = b.take l) : l ≤ cpl a b := by
  induction a generalizing b l with
  | nil => simp at hl; omega
  | cons x xs ih =>
    cases b with
    | nil => simp at hl'; omega
    | cons y ys =>
      cases l with
      | zero => omega
      | succ l =>
        simp only [List.take_succ_cons, List.cons.injEq] at h
        simp only [cpl, h.1, if_true]
        have := ih ys l (by simpa using hl) (by simpa using hl') h.2
        omega

/-- LCP array: −1, then the common-prefix length of each pair of adjacent suffixes, then −1 -/
def lcpRef (t sa : List Nat) : List Int :=
  (-1 : Int) :: ((List.range (sa.length - 1)).map
      (fun r => (cpl (t.drop (sa.getD r 0)) (t.drop (sa.getD (r + 1) 0)) : Int))) ++ [(-1 : Int)]

/-! ### shortest unique substrings -/

/-- longest prefix the suffix at `p` shares with a suffix at one of the positions `qs` other than `p` -/
def maxShare (t : List Nat) (p : Nat) : List Nat → Nat
  | [] => 0
  | q :: qs => if q = p then maxShare t p qs else max (cpl (t.drop p) (t.drop q)) (maxShare t p qs)

/-- length of the shortest substring starting at `p` that occurs only there; `none` if every substring
starting at `p` occurs elsewhere too -/
def susRef (t : List Nat) (p : Nat) : Option Nat :=
  let l := maxShare t p (List.range t.length) + 1
  if p + l ≤ t.length then some l else none

theorem maxShare_ge (t : List Nat) (p q : Nat) (qs : List Nat) (hq : q ∈ qs) (hne : q ≠ p) :
    cpl (t.drop p) (t.drop q) ≤ maxShare t p qs := by
  induction qs with
  | nil => simp at hq
  | cons x xs ih =>
    simp only [maxShare]
    rw [List.mem_cons] at hq
    split
    · rename_i hx
      rcases hq with rfl | hq
      · exact absurd hx hne
      · exact ih hq
    · rcases hq with rfl | hq
      · omega
      · have := ih hq; omega

theorem maxShare_attained (t : List Nat) (p : Nat) (qs : List Nat) (h : 0 < maxShare t p qs) :
    ∃ q ∈ qs, q ≠ p ∧ cpl (t.drop p) (t.drop q) = maxShare t p qs := by
  induction qs with
  | nil => simp [maxShare] at h
  | cons x xs ih =>
    simp only [maxShare] at h ⊢
    split
    · rename_i hx
      simp only [hx, if_true] at h
      obtain ⟨q, hq, hne, he⟩ := ih h
      exact ⟨q, by simp [hq], hne, he⟩
    · rename_i hx
      simp only [hx, if_false] at h
      by_cases hc : maxShare t p xs ≤ cpl (t.drop p) (t.drop x)
      · exact ⟨x, by simp, hx, by omega⟩
      · have hpos : 0 < maxShare t p xs := by omega
        obtain ⟨q, hq, hne, he⟩ := ih hpos
        exact ⟨q, by simp [hq], hne, by omega⟩

/-- occurrence at `q` of the length-`l` substring starting at `p`, in terms of common prefixes -/
theorem occursAt_slice_iff (t : List Nat) (p q l : Nat) (hp : p + l ≤ t.length) :
    OccursAt ((t.drop p).take l) t q ↔ (q + l ≤ t.length ∧ l ≤ cpl (t.drop p) (t.drop q)) := by
  unfold OccursAt
  have hlen : ((t.drop p).take l).length = l := by simp; omega
  rw [hlen]
  constructor
  · rintro ⟨h1, h2⟩
    refine ⟨h1, cpl_max _ _ l (by simp; omega) (by simp; omega) h2.symm⟩
  · rintro ⟨h1, h2⟩
    refine ⟨h1, ?_⟩
    have := cpl_take (t.drop p) (t.drop q)
    have e : ∀ (x : List Nat), x.take l = (x.take (cpl (t.drop p) (t.drop q))).take l := by
      intro x; rw [List.take_take]; congr 1; omega
    rw [e (t.drop q), e (t.drop p), this]


theorem susRef_some (t : List Nat) (p l : Nat) (h : susRef t p = some l) :
    1 ≤ l ∧ p + l ≤ t.length ∧
    (∀ q, OccursAt ((t.drop p).take l) t q → q = p) ∧
    (∀ l', 1 ≤ l' → l' < l → ∃ q, q ≠ p ∧ OccursAt ((t.drop p).take l') t q) := by
  unfold susRef at h
  simp only at h
  split at h
  · rename_i hle
    simp only [Option.some.injEq] at h
    subst h
    refine ⟨by omega, hle, ?_, ?_⟩
    · intro q hq
      rw [occursAt_slice_iff t p q _ hle] at hq
      apply Classical.byContradiction
      intro hne
      have hq' : q ∈ List.range t.length := by rw [List.mem_range]; omega
      have := maxShare_ge t p q _ hq' hne
      omega
    · intro l' h1 h2
      have hpos : 0 < maxShare t p (List.range t.length) := by omega
      obtain ⟨q, hq, hne, he⟩ := maxShare_attained t p _ hpos
      refine ⟨q, hne, ?_⟩
      rw [occursAt_slice_iff t p q l' (by omega)]
      have := cpl_le_right (t.drop p) (t.drop q)
      rw [List.length_drop] at this
      rw [List.mem_range] at hq
      omega
  · simp at h

theorem susRef_none (t : List Nat) (p : Nat) (h : susRef t p = none) :
    ∀ l, 1 ≤ l → p + l ≤ t.length → ∃ q, q ≠ p ∧ OccursAt ((t.drop p).take l) t q := by
  unfold susRef at h
  simp only at h
  split at h
  · simp at h
  · rename_i hgt
    intro l h1 h2
    have hpos : 0 < maxShare t p (List.range t.length) := by omega
    obtain ⟨q, hq, hne, he⟩ := maxShare_attained t p _ hpos
    refine ⟨q, hne, ?_⟩
    rw [occursAt_slice_iff t p q l h2]
    have := cpl_le_right (t.drop p) (t.drop q)
    rw [List.length_drop] at this
    rw [List.mem_range] at hq
    omega

theorem length_lcpRef (t sa : List Nat) (h : sa ≠ []) : (lcpRef t sa).length = sa.length + 1 := by
  have : 0 < sa.length := List.length_pos_iff.mpr h
  simp [lcpRef]; omega

theorem lcpRef_inner (t sa : List Nat) (r : Nat) (h : r + 1 < sa.length) :
    (lcpRef t sa)[r + 1]? = some (cpl (t.drop (sa.getD r 0)) (t.drop (sa.getD (r + 1) 0)) : Int) := by
  unfold lcpRef
  rw [List.cons_append, List.getElem?_cons_succ, List.getElem?_append_left (by simp; omega)]
  rw [List.getElem?_map, List.getElem?_range (by omega)]
  rfl

theorem lcpRef_ends (t sa : List Nat) : (lcpRef t sa)[0]? = some (-1) ∧ (lcpRef t sa).getLast? = some (-1) := by
  refine ⟨by simp [lcpRef], ?_⟩
  unfold lcpRef
  rw [List.getLast?_append]
  simp

end RbV
