/-!
# Linear-gap global alignment (Needleman–Wunsch): specification, recursive optimum, row table

Used by C16 (partial-order alignment on a linear graph).  Self-contained, core Lean only.

* `x` is the reference (the sequence the graph was built from), `y` the query.
* An alignment is a list of operations; `mat` consumes one symbol of each sequence (POA has a single
  `Match` operation for equal *and* unequal symbols — the substitution score decides), `del` consumes a
  reference symbol only, `ins` a query symbol only.
* `score sc x y ops = some v` : `ops` consumes exactly `x` and `y` and its score is `v`
  (substitution score `sc.w a b` for a `mat`, `sc.gap` for every gapped symbol — linear gaps).
* `nwBest sc x y` : the optimum, by structural recursion on both sequences.
* `nw_upper`, `nw_attained` : `nwBest` is the maximum of `score` over *all* valid operation lists.
* `nwFast` : the usual row-by-row table, proved equal to `nwBest` (`nwFast_eq`); the driver runs this one.
-/
namespace RbV.NW

inductive Op | mat | ins | del
deriving DecidableEq, Repr

structure Sc where
  /-- substitution score: reference symbol, query symbol -/
  w : Nat → Nat → Int
  /-- per-symbol gap score -/
  gap : Int

/-- score of an operation list aligning exactly `x` (reference) with `y` (query); `none` = not a valid
global alignment of the two sequences -/
def score (sc : Sc) : List Nat → List Nat → List Op → Option Int
  | [], [], [] => some 0
  | a :: x, b :: y, .mat :: r => (score sc x y r).map (· + sc.w a b)
  | x, _ :: y, .ins :: r => (score sc x y r).map (· + sc.gap)
  | _ :: x, y, .del :: r => (score sc x y r).map (· + sc.gap)
  | _, _, _ => none

/-- the optimum over all global alignments (textbook recursion on the two suffixes) -/
def nwBest (sc : Sc) : List Nat → List Nat → Int
  | [], [] => 0
  | _ :: x, [] => sc.gap + nwBest sc x []
  | [], _ :: y => sc.gap + nwBest sc [] y
  | a :: x, b :: y =>
      max (sc.w a b + nwBest sc x y) (max (sc.gap + nwBest sc (a :: x) y) (sc.gap + nwBest sc x (b :: y)))
termination_by x y => x.length + y.length

/-- every valid operation list scores at most `nwBest` -/
theorem nw_upper (sc : Sc) : ∀ (ops : List Op) (x y : List Nat) (v : Int),
    score sc x y ops = some v → v ≤ nwBest sc x y := by
  intro ops
  induction ops with
  | nil =>
    intro x y v h
    cases x <;> cases y <;> simp [score] at h
    subst h; simp [nwBest]
  | cons o r ih =>
    intro x y v h
    cases o with
    | mat =>
      cases x with
      | nil => simp [score] at h
      | cons a x =>
        cases y with
        | nil => simp [score] at h
        | cons b y =>
          simp only [score] at h
          cases h' : score sc x y r with
          | none => simp [h'] at h
          | some u =>
            simp [h'] at h
            have := ih x y u h'
            rw [nwBest]; omega
    | ins =>
      cases y with
      | nil => cases x <;> simp [score] at h
      | cons b y =>
        cases x with
        | nil =>
          simp only [score] at h
          cases h' : score sc [] y r with
          | none => simp [h'] at h
          | some u =>
            simp [h'] at h
            have := ih [] y u h'
            rw [nwBest]; omega
        | cons a x =>
          simp only [score] at h
          cases h' : score sc (a :: x) y r with
          | none => simp [h'] at h
          | some u =>
            simp [h'] at h
            have := ih (a :: x) y u h'
            rw [nwBest]; omega
    | del =>
      cases x with
      | nil => cases y <;> simp [score] at h
      | cons a x =>
        simp only [score] at h
        cases h' : score sc x y r with
        | none => simp [h'] at h
        | some u =>
          simp [h'] at h
          have := ih x y u h'
          cases y with
          | nil => rw [nwBest]; omega
          | cons b y => rw [nwBest]; omega

/-- … and some valid operation list attains it -/
theorem nw_attained (sc : Sc) : ∀ (x y : List Nat), ∃ ops, score sc x y ops = some (nwBest sc x y) := by
  intro x y
  fun_induction nwBest sc x y with
  | case1 => exact ⟨[], by simp [score]⟩
  | case2 a x ih =>
    obtain ⟨r, hr⟩ := ih
    exact ⟨.del :: r, by simp [score, hr]; omega⟩
  | case3 b y ih =>
    obtain ⟨r, hr⟩ := ih
    exact ⟨.ins :: r, by simp [score, hr]; omega⟩
  | case4 a x b y ih1 ih2 ih3 =>
    obtain ⟨r1, h1⟩ := ih1
    obtain ⟨r2, h2⟩ := ih2
    obtain ⟨r3, h3⟩ := ih3
    by_cases hm : sc.w a b + nwBest sc x y ≥ max (sc.gap + nwBest sc (a :: x) y) (sc.gap + nwBest sc x (b :: y))
    · exact ⟨.mat :: r1, by simp [score, h1]; omega⟩
    · by_cases hi : sc.gap + nwBest sc (a :: x) y ≥ sc.gap + nwBest sc x (b :: y)
      · exact ⟨.ins :: r2, by simp [score, h2]; omega⟩
      · exact ⟨.del :: r3, by simp [score, h3]; omega⟩

/-! ## Row table

For a fixed query suffix `y`, `specRow sc x y` lists `nwBest sc x' y` for every suffix `x'` of the reference
`x`, longest first (the last entry is the empty suffix).  `rowNil` is the row of the empty query suffix,
`nextRow` computes the row of `b :: y` from the row of `y` — one cell per reference suffix, right to left,
each cell from its diagonal, vertical and horizontal neighbour exactly as in the textbook table. -/

/-- all suffixes' optima against a fixed query suffix -/
def specRow (sc : Sc) : List Nat → List Nat → List Int
  | [], y => [nwBest sc [] y]
  | a :: x, y => nwBest sc (a :: x) y :: specRow sc x y

/-- row for the empty query suffix: `k·gap` for the suffix of length `k` -/
def rowNil (sc : Sc) : List Nat → List Int
  | [] => [0]
  | _ :: x => match rowNil sc x with
    | [] => []          -- unreachable: a row is never empty
    | h :: t => (sc.gap + h) :: h :: t

/-- row of `b :: y` from the row `prev` of `y` (both indexed by the suffixes of `x`) -/
def nextRow (sc : Sc) (b : Nat) : List Nat → List Int → List Int
  | [], prev => match prev with
    | [] => []
    | p :: _ => [sc.gap + p]
  | a :: x, prev => match prev with
    | pa :: px =>                     -- pa = best (a::x) y ; px = row of x for y
      match nextRow sc b x px, px with
      | c :: ct, d :: _ =>          -- c = best x (b::y) ; d = best x y
        max (sc.w a b + d) (max (sc.gap + pa) (sc.gap + c)) :: c :: ct
      | _, _ => []
    | [] => []

def table (sc : Sc) (x : List Nat) : List Nat → List Int
  | [] => rowNil sc x
  | b :: y => nextRow sc b x (table sc x y)

/-- the score the driver compares with: first cell of the table (whole `x` against whole `y`) -/
def nwFast (sc : Sc) (x y : List Nat) : Int := (table sc x y).headD 0

theorem specRow_ne_nil (sc : Sc) (x y : List Nat) : specRow sc x y ≠ [] := by
  cases x <;> simp [specRow]

theorem specRow_head (sc : Sc) (x y : List Nat) : (specRow sc x y).headD 0 = nwBest sc x y := by
  cases x <;> simp [specRow]

theorem rowNil_eq (sc : Sc) (x : List Nat) : rowNil sc x = specRow sc x [] := by
  induction x with
  | nil => simp [rowNil, specRow, nwBest]
  | cons a x ih =>
    simp only [rowNil, ih]
    cases x with
    | nil => simp [specRow, nwBest]
    | cons a' x' => simp [specRow, nwBest]

theorem specRow_cons_form (sc : Sc) (x y : List Nat) :
    specRow sc x y = nwBest sc x y :: (specRow sc x y).tail := by
  cases x <;> simp [specRow]

theorem nextRow_eq (sc : Sc) (b : Nat) (y : List Nat) (x : List Nat) :
    nextRow sc b x (specRow sc x y) = specRow sc x (b :: y) := by
  induction x with
  | nil => simp [nextRow, specRow, nwBest]
  | cons a x ih =>
    simp only [specRow, nextRow, ih]
    rw [specRow_cons_form sc x (b :: y), specRow_cons_form sc x y]
    simp only []
    have h : nwBest sc (a :: x) (b :: y) =
        max (sc.w a b + nwBest sc x y) (max (sc.gap + nwBest sc (a :: x) y) (sc.gap + nwBest sc x (b :: y))) := by
      rw [nwBest]
    rw [h]

theorem table_eq (sc : Sc) (x y : List Nat) : table sc x y = specRow sc x y := by
  induction y with
  | nil => simp [table, rowNil_eq]
  | cons b y ih => simp [table, ih, nextRow_eq]

/-- the row table computes the recursive optimum -/
theorem nwFast_eq (sc : Sc) (x y : List Nat) : nwFast sc x y = nwBest sc x y := by
  unfold nwFast; rw [table_eq, specRow_head]

end RbV.NW
