import RbV.Spec.FMD
import RbV.Ref.BS
/-!
# Reference and acceptance functions of C06

`allSmemsRef T p` enumerates the supermaximal exact matches straight from the definition (all pairs (b, len));
`checkSmems`, `checkAllSmems`, `checkBi` decide `SmemsProp`, `AllSmemsProp`, `BiIntervalOf`.
-/
namespace RbV

/-! ### set equality of two lists, any type with lawful `==` -/

def sameSetG {α : Type} [BEq α] (a b : List α) : Bool :=
  a.all (fun x => b.contains x) && b.all (fun x => a.contains x)

theorem sameSetG_iff {α : Type} [BEq α] [LawfulBEq α] (a b : List α) :
    sameSetG a b = true ↔ ∀ x, x ∈ a ↔ x ∈ b := by
  simp only [sameSetG, Bool.and_eq_true, List.all_eq_true, List.contains_iff_mem]
  constructor
  · rintro ⟨h1, h2⟩ i; exact ⟨h1 i, h2 i⟩
  · intro h; exact ⟨fun i hi => (h i).mp hi, fun i hi => (h i).mpr hi⟩

/-! ### supermaximal matches by brute force -/

def smemB (T p : List Nat) (b len : Nat) : Bool :=
  decide (0 < len) && decide (b + len ≤ p.length) && occursB (sub p b len) T &&
  (b == 0 || !occursB (sub p (b - 1) (len + 1)) T) &&
  (b + len == p.length || !occursB (sub p b (len + 1)) T)

theorem smemB_iff (T p : List Nat) (b len : Nat) : smemB T p b len = true ↔ Smem T p b len := by
  simp only [smemB, Smem, Bool.and_eq_true, Bool.or_eq_true, decide_eq_true_eq, beq_iff_eq,
    Bool.not_eq_true', occursB_iff, occursB_false_iff, and_assoc]

/-- all (b, len) with `Smem T p b len`, ordered by b then len -/
def allSmemsRef (T p : List Nat) : List (Nat × Nat) :=
  (List.range p.length).flatMap (fun b =>
    ((List.range (p.length + 1)).filter (fun len => smemB T p b len)).map (fun len => (b, len)))

theorem mem_allSmemsRef (T p : List Nat) (b len : Nat) :
    (b, len) ∈ allSmemsRef T p ↔ Smem T p b len := by
  simp only [allSmemsRef, List.mem_flatMap, List.mem_range, List.mem_map, List.mem_filter, Prod.mk.injEq]
  constructor
  · rintro ⟨b', _, len', ⟨_, h⟩, rfl, rfl⟩
    exact (smemB_iff T p _ _).mp h
  · intro h
    have h' := h
    obtain ⟨h1, h2, _⟩ := h'
    exact ⟨b, by omega, len, ⟨by omega, (smemB_iff T p b len).mpr h⟩, rfl, rfl⟩

/-- the matches covering pattern position `i` with length at least `l` -/
def smemsRef (T p : List Nat) (i l : Nat) : List (Nat × Nat) :=
  (allSmemsRef T p).filter (fun x => decide (x.1 ≤ i) && decide (i < x.1 + x.2) && decide (l ≤ x.2))

theorem mem_smemsRef (T p : List Nat) (i l b len : Nat) :
    (b, len) ∈ smemsRef T p i l ↔ (Smem T p b len ∧ b ≤ i ∧ i < b + len ∧ l ≤ len) := by
  simp only [smemsRef, List.mem_filter, mem_allSmemsRef, Bool.and_eq_true, decide_eq_true_eq, and_assoc]

/-- the matches with length at least `l` -/
def allSmemsMin (T p : List Nat) (l : Nat) : List (Nat × Nat) :=
  (allSmemsRef T p).filter (fun x => decide (l ≤ x.2))

theorem mem_allSmemsMin (T p : List Nat) (l b len : Nat) :
    (b, len) ∈ allSmemsMin T p l ↔ (Smem T p b len ∧ l ≤ len) := by
  simp only [allSmemsMin, List.mem_filter, mem_allSmemsRef, decide_eq_true_eq]

/-! ### acceptance functions -/

def smemIntervalsOkB (T sa p : List Nat) (o : SmemObs) : Bool :=
  mapsToB sa o.flo o.fhi (sub p o.b o.len) T && mapsToB sa o.rlo o.rhi (revcomp (sub p o.b o.len)) T

theorem smemIntervalsOkB_iff (T sa p : List Nat) (o : SmemObs) :
    smemIntervalsOkB T sa p o = true ↔ SmemIntervalsOk T sa p o := by
  simp only [smemIntervalsOkB, SmemIntervalsOk, Bool.and_eq_true, mapsToB_iff]

def keys (res : List SmemObs) : List (Nat × Nat) := res.map (fun o => (o.b, o.len))

theorem mem_keys (res : List SmemObs) (b len : Nat) :
    (b, len) ∈ keys res ↔ ∃ o ∈ res, o.b = b ∧ o.len = len := by
  simp only [keys, List.mem_map, Prod.mk.injEq]

/-- the reported pairs against an expected list of pairs, plus the intervals of every reported match -/
def checkAgainst (T sa p : List Nat) (expected : List (Nat × Nat)) (res : List SmemObs) : Bool :=
  sameSetG (keys res) expected && res.all (smemIntervalsOkB T sa p)

def checkSmems (T sa p : List Nat) (i l : Nat) (res : List SmemObs) : Bool :=
  checkAgainst T sa p (smemsRef T p i l) res

def checkAllSmems (T sa p : List Nat) (l : Nat) (res : List SmemObs) : Bool :=
  checkAgainst T sa p (allSmemsMin T p l) res

theorem checkAgainst_iff (T sa p : List Nat) (expected : List (Nat × Nat)) (res : List SmemObs) :
    checkAgainst T sa p expected res = true ↔
      ((∀ b len, (∃ o ∈ res, o.b = b ∧ o.len = len) ↔ (b, len) ∈ expected) ∧
       ∀ o ∈ res, SmemIntervalsOk T sa p o) := by
  simp only [checkAgainst, Bool.and_eq_true, sameSetG_iff, List.all_eq_true, smemIntervalsOkB_iff]
  constructor
  · rintro ⟨h1, h2⟩
    exact ⟨fun b len => by rw [← mem_keys]; exact h1 (b, len), h2⟩
  · rintro ⟨h1, h2⟩
    refine ⟨fun x => ?_, h2⟩
    obtain ⟨b, len⟩ := x
    rw [mem_keys]; exact h1 b len

/-! ### bi-interval of a string -/

def checkBi (T sa w : List Nat) (o : BiObs) : Bool :=
  let n := (occurrences w T).length
  decide (o.flo ≤ o.fhi) && decide (o.rlo ≤ o.rhi) && o.fhi - o.flo == n && o.rhi - o.rlo == n &&
  (n == 0 || (mapsToB sa o.flo o.fhi w T && mapsToB sa o.rlo o.rhi (revcomp w) T))

theorem occurs_iff_length_pos (w T : List Nat) : Occurs w T ↔ (occurrences w T).length ≠ 0 := by
  rw [← occursB_iff, occursB]
  cases occurrences w T <;> simp

end RbV
