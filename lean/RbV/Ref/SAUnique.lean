import RbV.Ref.SA
/-
Uniqueness of the sorted suffix permutation (C03): under a fixed key text there is exactly one array that is a
permutation of all positions in increasing suffix order.  Hence `suffix_array_int` is *determined* by the property,
and so is `suffix_array` once the order of the sentinel occurrences is fixed.
-/
namespace RbV

theorem sorted_perm_unique (R : Nat → Nat → Prop) (hasym : ∀ a b, R a b → ¬ R b a) :
    ∀ (l₁ l₂ : List Nat), l₁.Perm l₂ → l₁.Pairwise R → l₂.Pairwise R → l₁ = l₂
  | [], l₂, hp, _, _ => by
    have := hp.length_eq
    cases l₂ with
    | nil => rfl
    | cons b l => simp at this
  | a :: l₁, [], hp, _, _ => by have := hp.length_eq; simp at this
  | a :: l₁, b :: l₂, hp, h₁, h₂ => by
    rw [List.pairwise_cons] at h₁ h₂
    have hab : a = b := by
      apply Classical.byContradiction
      intro hne
      have ha : a ∈ b :: l₂ := hp.mem_iff.mp (by simp)
      have hb : b ∈ a :: l₁ := hp.mem_iff.mpr (by simp)
      rw [List.mem_cons] at ha hb
      have ha' : a ∈ l₂ := ha.resolve_left hne
      have hb' : b ∈ l₁ := hb.resolve_left (fun h => hne h.symm)
      exact hasym a b (h₁.1 b hb') (h₂.1 a ha')
    subst hab
    congr 1
    exact sorted_perm_unique R hasym l₁ l₂ (List.Perm.cons_inv hp) h₁.2 h₂.2

theorem suffixSorted_unique (ks sa sa' : List Nat) (h : SuffixSorted ks sa) (h' : SuffixSorted ks sa') :
    sa = sa' :=
  sorted_perm_unique (sufLt ks) (fun _ _ hab hba => lexLt_asymm hab hba) sa sa'
    (h.1.trans h'.1.symm) h.2 h'.2

end RbV
