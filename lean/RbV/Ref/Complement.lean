import RbV.Gen.Complement
/-!
# Complement tables (C20)

`RbV.Gen.Complement.dna/rna` are the 256-entry tables dumped from the running Rust code
(`bio::alphabets::{dna,rna}::complement`).  This file gives the model of `complement`/`revcomp` on top of a
table and the table facts (checked by `decide` over all 256 entries) lifted to statements for *all* symbols
and *all* sequences.
-/
namespace RbV.Compl

/-- `complement(b)`: table look-up; bytes are `< 256`, outside the table nothing changes -/
def comp (tbl : List Nat) (b : Nat) : Nat := tbl.getD b b

/-- `revcomp(text)`: reverse, then complement every symbol -/
def revcomp (tbl : List Nat) (s : List Nat) : List Nat := s.reverse.map (comp tbl)

def isUpper (b : Nat) : Bool := decide (65 ≤ b) && decide (b ≤ 90)
def isLower (b : Nat) : Bool := decide (97 ≤ b) && decide (b ≤ 122)

/-- upper- and lower-case ASCII codes of the letters of `s` -/
def bothCases (upper : List Nat) : List Nat := upper ++ upper.map (· + 32)

/-- IUPAC nucleotide codes of DNA: ACGT RYSWKM BDHV N (both cases) -/
def dnaCodes : List Nat := bothCases [65, 67, 71, 84, 82, 89, 83, 87, 75, 77, 66, 68, 72, 86, 78]
/-- IUPAC nucleotide codes of RNA: ACGU RYSWKM BDHV N (both cases) -/
def rnaCodes : List Nat := bothCases [65, 67, 71, 85, 82, 89, 83, 87, 75, 77, 66, 68, 72, 86, 78]

/-! ## Boolean table checks (one `decide` each in `Thm/C20.lean`) -/

def tblInvolutive (tbl : List Nat) : Bool :=
  (List.range 256).all fun b => comp tbl (comp tbl b) == b

def tblInRange (tbl : List Nat) : Bool :=
  tbl.length == 256 && tbl.all (fun v => decide (v < 256))

def tblCase (tbl : List Nat) : Bool :=
  (List.range 256).all fun b =>
    (!isUpper b || (isUpper (comp tbl b) && comp tbl (b + 32) == comp tbl b + 32)) &&
    (!isLower b || isLower (comp tbl b))

def tblIdOutside (tbl codes : List Nat) : Bool :=
  (List.range 256).all fun b => codes.contains b || comp tbl b == b

/-! ## Lifting -/

theorem all_range {p : Nat → Bool} {n : Nat} (h : (List.range n).all p = true) {b : Nat} (hb : b < n) :
    p b = true :=
  List.all_eq_true.mp h b (List.mem_range.mpr hb)

theorem comp_of_ge {tbl : List Nat} (hl : tbl.length = 256) {b : Nat} (hb : 256 ≤ b) : comp tbl b = b := by
  unfold comp
  rw [List.getD_eq_getElem?_getD, List.getElem?_eq_none (by omega)]
  rfl

theorem comp_lt {tbl : List Nat} (hr : tblInRange tbl = true) {b : Nat} (hb : b < 256) : comp tbl b < 256 := by
  unfold tblInRange at hr
  simp only [Bool.and_eq_true, beq_iff_eq, List.all_eq_true, decide_eq_true_eq] at hr
  unfold comp
  have hb' : b < tbl.length := by omega
  rw [List.getD_eq_getElem?_getD, List.getElem?_eq_getElem hb']
  exact hr.2 _ (List.getElem_mem hb')

/-- involution for every natural number (bytes and beyond) -/
theorem comp_comp {tbl : List Nat} (hr : tblInRange tbl = true) (hi : tblInvolutive tbl = true) (b : Nat) :
    comp tbl (comp tbl b) = b := by
  have hl : tbl.length = 256 := by
    unfold tblInRange at hr
    simp only [Bool.and_eq_true, beq_iff_eq] at hr
    exact hr.1
  by_cases hb : b < 256
  · have := all_range hi hb
    simpa using this
  · have h1 : comp tbl b = b := comp_of_ge hl (by omega)
    rw [h1, h1]

theorem revcomp_revcomp {tbl : List Nat} (hr : tblInRange tbl = true) (hi : tblInvolutive tbl = true)
    (s : List Nat) : revcomp tbl (revcomp tbl s) = s := by
  unfold revcomp
  rw [← List.map_reverse, List.reverse_reverse, List.map_map]
  have : (comp tbl ∘ comp tbl) = id := by
    funext b
    exact comp_comp hr hi b
  rw [this, List.map_id]

theorem revcomp_length (tbl s : List Nat) : (revcomp tbl s).length = s.length := by
  simp [revcomp]

end RbV.Compl
