import RbV.Spec.Align
/-
Reference optimum for affine-gap alignment with clipped ends (C01, C02).

* `best sc st x y`   — recursive optimum over all operation lists aligning exactly `x` with `y`
                       (`best_upper`, `best_attained`: it is the maximum of `score`).
* `rows sc x y`      — the efficient table: one row per suffix of `y`, one triple
                       `(best .none, best .ins, best .del)` per suffix of `x`  (`rows_eq_spec`, i.e. `table_eq_best`).
* `opt sc cl x y`    — maximum over all sub-range pairs of `best` + clip penalties, evaluated with
                       one table per pair of prefixes (O(m²n²) cell updates) (`opt_optimal`).
-/
namespace RbV.Align

def best (sc : Sc) : St → List Nat → List Nat → Int
  | _, [], [] => 0
  | st, _ :: x, [] => gapI sc st + best sc .ins x []
  | st, [], _ :: y => gapD sc st + best sc .del [] y
  | st, a :: x, b :: y =>
      max (sc.w a b + best sc .none x y)
        (max (gapI sc st + best sc .ins x (b :: y)) (gapD sc st + best sc .del (a :: x) y))
termination_by _ x y => x.length + y.length

theorem best_upper (sc : Sc) : ∀ (ops : List Op) (st : St) (x y : List Nat) (v : Int),
    score sc st x y ops = some v → v ≤ best sc st x y := by
  intro ops
  induction ops with
  | nil =>
    intro st x y v h
    cases x <;> cases y <;> simp [score] at h
    subst h; simp [best]
  | cons o r ih =>
    intro st x y v h
    cases o with
    | mat =>
      cases x with
      | nil => simp [score] at h
      | cons a x =>
        cases y with
        | nil => simp [score] at h
        | cons b y =>
          simp only [score] at h
          split at h
          · cases h' : score sc .none x y r with
            | none => simp [h'] at h
            | some u =>
              simp [h'] at h
              have := ih .none x y u h'
              rw [best]; omega
          · simp at h
    | sub =>
      cases x with
      | nil => simp [score] at h
      | cons a x =>
        cases y with
        | nil => simp [score] at h
        | cons b y =>
          simp only [score] at h
          split at h
          · cases h' : score sc .none x y r with
            | none => simp [h'] at h
            | some u =>
              simp [h'] at h
              have := ih .none x y u h'
              rw [best]; omega
          · simp at h
    | ins =>
      cases x with
      | nil => cases y <;> simp [score] at h
      | cons a x =>
        simp only [score] at h
        cases h' : score sc .ins x y r with
        | none => simp [h'] at h
        | some u =>
          simp [h'] at h
          have := ih .ins x y u h'
          cases y with
          | nil => rw [best]; omega
          | cons b y => rw [best]; omega
    | del =>
      cases y with
      | nil => cases x <;> simp [score] at h
      | cons b y =>
        cases x with
        | nil =>
          simp only [score] at h
          cases h' : score sc .del [] y r with
          | none => simp [h'] at h
          | some u =>
            simp [h'] at h
            have := ih .del [] y u h'
            rw [best]; omega
        | cons a x =>
          simp only [score] at h
          cases h' : score sc .del (a :: x) y r with
          | none => simp [h'] at h
          | some u =>
            simp [h'] at h
            have := ih .del (a :: x) y u h'
            rw [best]; omega

theorem best_attained (sc : Sc) : ∀ (st : St) (x y : List Nat),
    ∃ ops, score sc st x y ops = some (best sc st x y) := by
  intro st x y
  fun_induction best sc st x y with
  | case1 st => exact ⟨[], by simp [score]⟩
  | case2 st a x ih =>
    obtain ⟨r, hr⟩ := ih
    exact ⟨.ins :: r, by simp [score, hr]; omega⟩
  | case3 st b y ih =>
    obtain ⟨r, hr⟩ := ih
    exact ⟨.del :: r, by simp [score, hr]; omega⟩
  | case4 st a x b y ih1 ih2 ih3 =>
    obtain ⟨r1, h1⟩ := ih1
    obtain ⟨r2, h2⟩ := ih2
    obtain ⟨r3, h3⟩ := ih3
    by_cases hm : sc.w a b + best sc .none x y ≥ max (gapI sc st + best sc .ins x (b :: y)) (gapD sc st + best sc .del (a :: x) y)
    · by_cases hab : a = b
      · exact ⟨.mat :: r1, by simp [score, hab, h1] at *; omega⟩
      · exact ⟨.sub :: r1, by simp [score, hab, h1] at *; omega⟩
    · by_cases hi : gapI sc st + best sc .ins x (b :: y) ≥ gapD sc st + best sc .del (a :: x) y
      · exact ⟨.ins :: r2, by simp [score, h2] at *; omega⟩
      · exact ⟨.del :: r3, by simp [score, h3] at *; omega⟩

/-! ### The table -/

/-- `(best .none, best .ins, best .del)` -/
abbrev T := Int × Int × Int

def tri (sc : Sc) (x y : List Nat) : T := (best sc .none x y, best sc .ins x y, best sc .del x y)

def hd (r : List T) : T := r.headD (0, 0, 0)

/-- what the table has to contain: the triple of every suffix of `x` (longest first) against `y` -/
def specRow (sc : Sc) : List Nat → List Nat → List T
  | [], y => [tri sc [] y]
  | a :: x, y => tri sc (a :: x) y :: specRow sc x y

/-- … and one such row for every suffix of `y` (longest first) -/
def specRows (sc : Sc) (x : List Nat) : List Nat → List (List T)
  | [] => [specRow sc x []]
  | b :: y => specRow sc x (b :: y) :: specRows sc x y

/-- row for `y = []` -/
def rowNil (sc : Sc) : List Nat → List T
  | [] => [(0, 0, 0)]
  | _ :: x =>
    let r := rowNil sc x
    let i := (hd r).2.1
    (sc.go + sc.ge + i, sc.ge + i, sc.go + sc.ge + i) :: r

/-- row for `b :: y` from the row `p` for `y` -/
def nextRow (sc : Sc) (b : Nat) : List Nat → List T → List T
  | [], p =>
    let d := (hd p).2.2
    [(sc.go + sc.ge + d, sc.go + sc.ge + d, sc.ge + d)]
  | a :: x, p =>
    let r := nextRow sc b x p.tail
    let n1 := (hd p.tail).1       -- best .none x y
    let i2 := (hd r).2.1          -- best .ins x (b :: y)
    let d3 := (hd p).2.2          -- best .del (a :: x) y
    let m := sc.w a b + n1
    (max m (max (sc.go + sc.ge + i2) (sc.go + sc.ge + d3)),
     max m (max (sc.ge + i2) (sc.go + sc.ge + d3)),
     max m (max (sc.go + sc.ge + i2) (sc.ge + d3))) :: r

def rows (sc : Sc) (x : List Nat) : List Nat → List (List T)
  | [] => [rowNil sc x]
  | b :: y =>
    let rs := rows sc x y
    nextRow sc b x (rs.headD []) :: rs

theorem hd_specRow (sc : Sc) (x y : List Nat) : hd (specRow sc x y) = tri sc x y := by
  cases x <;> simp [specRow, hd]

theorem tail_specRow_cons (sc : Sc) (a : Nat) (x y : List Nat) :
    (specRow sc (a :: x) y).tail = specRow sc x y := by
  simp [specRow]

theorem rowNil_eq (sc : Sc) (x : List Nat) : rowNil sc x = specRow sc x [] := by
  induction x with
  | nil => simp [rowNil, specRow, tri, best]
  | cons a x ih =>
    simp only [rowNil, specRow, ih, hd_specRow]
    simp [tri, best, gapI]

theorem nextRow_eq (sc : Sc) (b : Nat) (x y : List Nat) :
    nextRow sc b x (specRow sc x y) = specRow sc x (b :: y) := by
  induction x with
  | nil =>
    simp [nextRow, specRow, hd, tri, best, gapD]
  | cons a x ih =>
    simp only [nextRow, tail_specRow_cons, ih, hd_specRow]
    simp only [specRow]
    congr 1
    simp only [tri]
    rw [best.eq_4, best.eq_4, best.eq_4]
    simp [gapI, gapD]

theorem headD_specRows (sc : Sc) (x y : List Nat) : (specRows sc x y).headD [] = specRow sc x y := by
  cases y <;> simp [specRows]

/-- `table_eq_best`: the efficient table contains exactly the values of `best` -/
theorem rows_eq_spec (sc : Sc) (x y : List Nat) : rows sc x y = specRows sc x y := by
  induction y with
  | nil => simp [rows, specRows, rowNil_eq]
  | cons b y ih => simp only [rows, specRows, ih, headD_specRows, nextRow_eq]

/-! ### Candidates: every sub-range pair -/

/-- `pen k + (best .none of the k-th suffix)` for all entries of a row, `i` = index of the first entry -/
def rowCands (pen : Nat → Int) : Nat → List T → List Int
  | _, [] => []
  | i, t :: r => (pen i + t.1) :: rowCands pen (i + 1) r

def tabCands (pen : Nat → Nat → Int) : Nat → List (List T) → List Int
  | _, [] => []
  | j, r :: rs => rowCands (pen j) 0 r ++ tabCands pen (j + 1) rs

theorem mem_rowCands_spec (sc : Sc) (pen : Nat → Int) (y : List Nat) : ∀ (x : List Nat) (i : Nat) (v : Int),
    v ∈ rowCands pen i (specRow sc x y) ↔
      ∃ k, k ≤ x.length ∧ v = pen (i + k) + best sc .none (x.drop k) y := by
  intro x
  induction x with
  | nil =>
    intro i v
    simp only [specRow, rowCands, tri, List.mem_singleton, List.length_nil, List.drop_nil]
    constructor
    · intro h; exact ⟨0, by omega, by simpa using h⟩
    · rintro ⟨k, hk, h⟩
      have : k = 0 := by omega
      subst this; simpa using h
  | cons a x ih =>
    intro i v
    simp only [specRow, rowCands, tri, List.mem_cons, ih, List.length_cons]
    constructor
    · rintro (h | ⟨k, hk, h⟩)
      · exact ⟨0, by omega, by simpa using h⟩
      · refine ⟨k + 1, by omega, ?_⟩
        rw [h]; simp only [List.drop_succ_cons]
        have : i + 1 + k = i + (k + 1) := by omega
        rw [this]
    · rintro ⟨k, hk, h⟩
      cases k with
      | zero => left; simpa using h
      | succ k =>
        right
        refine ⟨k, by omega, ?_⟩
        rw [h]; simp only [List.drop_succ_cons]
        have : i + 1 + k = i + (k + 1) := by omega
        rw [this]

theorem mem_tabCands_spec (sc : Sc) (pen : Nat → Nat → Int) (x : List Nat) :
    ∀ (y : List Nat) (j : Nat) (v : Int),
    v ∈ tabCands pen j (specRows sc x y) ↔
      ∃ l k, l ≤ y.length ∧ k ≤ x.length ∧ v = pen (j + l) k + best sc .none (x.drop k) (y.drop l) := by
  intro y
  induction y with
  | nil =>
    intro j v
    simp only [specRows, tabCands, List.append_nil, mem_rowCands_spec, List.length_nil, List.drop_nil]
    constructor
    · rintro ⟨k, hk, h⟩; exact ⟨0, k, by omega, hk, by simpa using h⟩
    · rintro ⟨l, k, hl, hk, h⟩
      have : l = 0 := by omega
      subst this; exact ⟨k, hk, by simpa using h⟩
  | cons b y ih =>
    intro j v
    simp only [specRows, tabCands, List.mem_append, mem_rowCands_spec, ih, List.length_cons]
    constructor
    · rintro (⟨k, hk, h⟩ | ⟨l, k, hl, hk, h⟩)
      · exact ⟨0, k, by omega, hk, by simpa using h⟩
      · refine ⟨l + 1, k, by omega, hk, ?_⟩
        rw [h]; simp only [List.drop_succ_cons]
        have : j + 1 + l = j + (l + 1) := by omega
        rw [this]
    · rintro ⟨l, k, hl, hk, h⟩
      cases l with
      | zero => left; exact ⟨k, hk, by simpa using h⟩
      | succ l =>
        right
        refine ⟨l, k, by omega, hk, ?_⟩
        rw [h]; simp only [List.drop_succ_cons]
        have : j + 1 + l = j + (l + 1) := by omega
        rw [this]

/-- all candidates with sub-ranges ending at `xe`, `ye` -/
def candsAt (sc : Sc) (cl : Clip) (x y : List Nat) (xe ye : Nat) : List Int :=
  tabCands (fun ys xs => clipPen cl x.length y.length xs xe ys ye) 0 (rows sc (x.take xe) (y.take ye))

def cands (sc : Sc) (cl : Clip) (x y : List Nat) : List Int :=
  (List.range (x.length + 1)).flatMap fun xe =>
    (List.range (y.length + 1)).flatMap fun ye => candsAt sc cl x y xe ye

/-- maximum of `d` and the list -/
def maxL (d : Int) : List Int → Int
  | [] => d
  | a :: l => max a (maxL d l)

theorem le_maxL (d : Int) (l : List Int) : d ≤ maxL d l ∧ ∀ v ∈ l, v ≤ maxL d l := by
  induction l with
  | nil => simp [maxL]
  | cons a l ih =>
    obtain ⟨h1, h2⟩ := ih
    refine ⟨by simp only [maxL]; omega, ?_⟩
    intro v hv
    simp only [List.mem_cons] at hv
    simp only [maxL]
    rcases hv with rfl | hv
    · omega
    · have := h2 v hv; omega

theorem maxL_mem (d : Int) (l : List Int) : maxL d l = d ∨ maxL d l ∈ l := by
  induction l with
  | nil => simp [maxL]
  | cons a l ih =>
    simp only [maxL, List.mem_cons]
    by_cases h : maxL d l ≤ a
    · right; left; omega
    · have : max a (maxL d l) = maxL d l := by omega
      rw [this]
      rcases ih with ih | ih
      · left; exact ih
      · right; right; exact ih

/-- the optimum of the documented model, computed -/
def opt (sc : Sc) (cl : Clip) (x y : List Nat) : Int :=
  maxL (clipPen cl x.length y.length 0 0 0 0) (cands sc cl x y)

theorem mem_cands (sc : Sc) (cl : Clip) (x y : List Nat) (v : Int) :
    v ∈ cands sc cl x y ↔
      ∃ xs xe ys ye, xs ≤ xe ∧ xe ≤ x.length ∧ ys ≤ ye ∧ ye ≤ y.length ∧
        v = clipPen cl x.length y.length xs xe ys ye + best sc .none (slice x xs xe) (slice y ys ye) := by
  simp only [cands, candsAt, List.mem_flatMap, List.mem_range, rows_eq_spec, mem_tabCands_spec,
    List.length_take, Nat.zero_add, slice]
  constructor
  · rintro ⟨xe, hxe, ye, hye, l, k, hl, hk, h⟩
    exact ⟨k, xe, l, ye, by omega, by omega, by omega, by omega, h⟩
  · rintro ⟨xs, xe, ys, ye, h1, h2, h3, h4, h⟩
    exact ⟨xe, by omega, ye, by omega, ys, xs, by omega, by omega, h⟩

theorem slice_zero_zero (x : List Nat) : slice x 0 0 = [] := by simp [slice]

/-- `opt` is the optimum: attained by an alignment, exceeded by none — for all sequences, scoring
functions, gap and clip penalties -/
theorem opt_optimal (sc : Sc) (cl : Clip) (x y : List Nat) : Optimal sc cl x y (opt sc cl x y) := by
  constructor
  · -- attained
    have key : ∃ xs xe ys ye, xs ≤ xe ∧ xe ≤ x.length ∧ ys ≤ ye ∧ ye ≤ y.length ∧
        opt sc cl x y = clipPen cl x.length y.length xs xe ys ye +
          best sc .none (slice x xs xe) (slice y ys ye) := by
      rcases maxL_mem (clipPen cl x.length y.length 0 0 0 0) (cands sc cl x y) with h | h
      · refine ⟨0, 0, 0, 0, by omega, by omega, by omega, by omega, ?_⟩
        simp only [opt, h, slice_zero_zero, best]; omega
      · exact (mem_cands sc cl x y _).mp h
    obtain ⟨xs, xe, ys, ye, h1, h2, h3, h4, h⟩ := key
    obtain ⟨ops, hops⟩ := best_attained sc .none (slice x xs xe) (slice y ys ye)
    refine ⟨⟨xs, xe, ys, ye, ops⟩, ⟨h1, h2, h3, h4, ?_⟩, ⟨_, hops, ?_⟩⟩
    · exact (valid_iff_score sc .none _ _ _).mpr ⟨_, hops⟩
    · simp only; omega
  · -- upper bound
    rintro a v ⟨h1, h2, h3, h4, _⟩ ⟨c, hc, hv⟩
    have hb := best_upper sc a.ops .none _ _ c hc
    have hm : clipPen cl x.length y.length a.xs a.xe a.ys a.ye +
        best sc .none (slice x a.xs a.xe) (slice y a.ys a.ye) ∈ cands sc cl x y :=
      (mem_cands sc cl x y _).mpr ⟨a.xs, a.xe, a.ys, a.ye, h1, h2, h3, h4, rfl⟩
    have := (le_maxL (clipPen cl x.length y.length 0 0 0 0) (cands sc cl x y)).2 _ hm
    simp only [opt]; omega

/-! ### Acceptance -/

/-- Boolean acceptance of a reported alignment: real alignment of the reported sub-ranges, clip
representation rule, recomputed score = reported score, reported score = optimum -/
def accept (sc : Sc) (cl : Clip) (filtered : Bool) (x y : List Nat) (o : Out) : Bool :=
  decide (IsAln x y o.toAln) && decide (ClipRule filtered x y o) &&
  (match score sc .none (slice x o.xs o.xe) (slice y o.ys o.ye) (coreOps o.ops) with
   | some c => c + clipPen cl x.length y.length o.xs o.xe o.ys o.ye == o.score
   | none => false) &&
  (o.score == opt sc cl x y)

/-- the part of `accept` that does not need the optimum (used for C02's soundness clause) -/
def acceptValid (sc : Sc) (cl : Clip) (filtered : Bool) (x y : List Nat) (o : Out) : Bool :=
  decide (IsAln x y o.toAln) && decide (ClipRule filtered x y o) &&
  (match score sc .none (slice x o.xs o.xe) (slice y o.ys o.ye) (coreOps o.ops) with
   | some c => c + clipPen cl x.length y.length o.xs o.xe o.ys o.ye == o.score
   | none => false)

theorem scoreMatch_iff (sc : Sc) (cl : Clip) (x y : List Nat) (o : Out) :
    (match score sc .none (slice x o.xs o.xe) (slice y o.ys o.ye) (coreOps o.ops) with
     | some c => c + clipPen cl x.length y.length o.xs o.xe o.ys o.ye == o.score
     | none => false) = true ↔ AlnScore sc cl x y o.toAln o.score := by
  simp only [AlnScore, Out.toAln]
  cases h : score sc .none (slice x o.xs o.xe) (slice y o.ys o.ye) (coreOps o.ops) with
  | none => simp
  | some c =>
    simp only [beq_iff_eq, Option.some.injEq]
    constructor
    · intro h'; exact ⟨c, rfl, h'.symm⟩
    · rintro ⟨c', rfl, h'⟩; exact h'.symm

theorem acceptValid_iff (sc : Sc) (cl : Clip) (f : Bool) (x y : List Nat) (o : Out) :
    acceptValid sc cl f x y o = true ↔
      (IsAln x y o.toAln ∧ ClipRule f x y o ∧ AlnScore sc cl x y o.toAln o.score) := by
  simp only [acceptValid, Bool.and_eq_true, decide_eq_true_eq, scoreMatch_iff, and_assoc]

theorem accept_iff (sc : Sc) (cl : Clip) (f : Bool) (x y : List Nat) (o : Out) :
    accept sc cl f x y o = true ↔
      (IsAln x y o.toAln ∧ ClipRule f x y o ∧ AlnScore sc cl x y o.toAln o.score ∧
        Optimal sc cl x y o.score) := by
  have hv := acceptValid_iff sc cl f x y o
  have : accept sc cl f x y o = (acceptValid sc cl f x y o && (o.score == opt sc cl x y)) := rfl
  rw [this, Bool.and_eq_true, hv, beq_iff_eq]
  constructor
  · rintro ⟨⟨h1, h2, h3⟩, h4⟩
    exact ⟨h1, h2, h3, h4 ▸ opt_optimal sc cl x y⟩
  · rintro ⟨h1, h2, h3, h4⟩
    exact ⟨⟨h1, h2, h3⟩, Optimal_unique h4 (opt_optimal sc cl x y)⟩

/-- a valid alignment never scores above the optimum (C02 soundness: corollary of validity) -/
theorem valid_le_opt (sc : Sc) (cl : Clip) (x y : List Nat) (a : Aln) (v : Int)
    (ha : IsAln x y a) (hs : AlnScore sc cl x y a v) : v ≤ opt sc cl x y :=
  (opt_optimal sc cl x y).2 a v ha hs

end RbV.Align
