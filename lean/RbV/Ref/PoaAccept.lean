import RbV.Ref.NW
/-!
# Acceptance of a POA operation list as a global alignment against a linear graph

On a graph built from one sequence node `i` is position `i` of that sequence.  `toMoves` reads the
operation list of `poa::Alignment` as a list of Needleman–Wunsch moves: `Match` consumes the next node and
the next query symbol (and must name that node), `Del` the next node, `Ins` the next query symbol; clip
operations are no part of a global alignment.  `acceptGlobal` then demands that the moves consume exactly
reference and query, that their recomputed score is the reported one and that the reported score is the
optimum (evaluated with the row table `nwFast`).
-/
namespace RbV.Poa
open RbV.NW

inductive POp
  | m (pq : Option (Nat × Nat))
  | d (pq : Option (Nat × Nat))
  | i (p : Option Nat)
  | x (r : Nat)
  | y (a b : Nat)
deriving Repr, DecidableEq

/-- `i` = number of reference nodes consumed so far -/
def toMoves : Nat → List POp → Option (List Op)
  | _, [] => some []
  | i, .m none :: r => if i = 0 then (toMoves (i + 1) r).map (Op.mat :: ·) else none
  | i, .m (some (_, q)) :: r => if q = i then (toMoves (i + 1) r).map (Op.mat :: ·) else none
  | i, .d _ :: r => (toMoves (i + 1) r).map (Op.del :: ·)
  | i, .i _ :: r => (toMoves i r).map (Op.ins :: ·)
  | _, .x _ :: _ => none
  | _, .y _ _ :: _ => none

def acceptGlobal (sc : Sc) (x y : List Nat) (pops : List POp) (reported : Int) : Bool :=
  match toMoves 0 pops with
  | none => false
  | some ops => score sc x y ops == some reported && reported == nwFast sc x y

end RbV.Poa
