import RbV.Spec.PoaGraph
/-!
# Verified checkers for the graph clauses of C16

* `isAcyclic n es`   — Kahn elimination; `isAcyclic_iff : WellFormed n es → (isAcyclic n es = true ↔ Acyclic es)`
* `spelledB`         — is a word spelled by a walk; `spelledB_iff`
* `extendsB`         — labels kept, no edge lost or lighter; `extendsB_iff`
-/
namespace RbV.Poa

/-! ## Acyclicity by elimination of sources -/

/-- `v` has an incoming edge from a node of `rem` -/
def hasIn (es : Edges) (rem : List Nat) (v : Nat) : Bool :=
  es.any fun e => e.2 == v && rem.contains e.1

/-- Kahn: repeatedly remove a node without incoming edge from the remaining nodes; `true` iff all nodes
can be removed.  `fuel` ≥ number of remaining nodes. -/
def kahn (es : Edges) : Nat → List Nat → Bool
  | _, [] => true
  | 0, _ :: _ => false
  | f + 1, a :: r =>
    match (a :: r).find? (fun v => !hasIn es (a :: r) v) with
    | none => false
    | some v => kahn es f ((a :: r).filter (· != v))

def wellFormedB (n : Nat) (es : Edges) : Bool := es.all fun e => e.1 < n && e.2 < n

def isAcyclic (n : Nat) (es : Edges) : Bool := kahn es n (List.range n)

/-- reachability by walks all of whose nodes lie in `rem` -/
inductive ReachIn (es : Edges) (rem : List Nat) : Nat → Nat → Prop
  | step {u v : Nat} : u ∈ rem → v ∈ rem → (u, v) ∈ es → ReachIn es rem u v
  | cons {u w v : Nat} : u ∈ rem → (u, w) ∈ es → ReachIn es rem w v → ReachIn es rem u v

theorem ReachIn.trans {es : Edges} {rem : List Nat} {a b c : Nat}
    (h1 : ReachIn es rem a b) (h2 : ReachIn es rem b c) : ReachIn es rem a c := by
  induction h1 with
  | step ha _ he => exact ReachIn.cons ha he h2
  | cons ha he _ ih => exact ReachIn.cons ha he (ih h2)

theorem ReachIn.mono {es : Edges} {r1 r2 : List Nat} (hs : ∀ x ∈ r1, x ∈ r2) {a b : Nat}
    (h : ReachIn es r1 a b) : ReachIn es r2 a b := by
  induction h with
  | step ha hb he => exact ReachIn.step (hs _ ha) (hs _ hb) he
  | cons ha he _ ih => exact ReachIn.cons (hs _ ha) he ih

theorem ReachIn.fst_mem {es : Edges} {rem : List Nat} {a b : Nat} (h : ReachIn es rem a b) : a ∈ rem := by
  cases h with
  | step ha _ _ => exact ha
  | cons ha _ _ => exact ha

theorem ReachIn.snd_mem {es : Edges} {rem : List Nat} {a b : Nat} (h : ReachIn es rem a b) : b ∈ rem := by
  induction h with
  | step _ hb _ => exact hb
  | cons _ _ _ ih => exact ih

theorem hasIn_true_iff (es : Edges) (rem : List Nat) (v : Nat) :
    hasIn es rem v = true ↔ ∃ u, u ∈ rem ∧ (u, v) ∈ es := by
  unfold hasIn
  rw [List.any_eq_true]
  constructor
  · rintro ⟨⟨a, b⟩, he, hc⟩
    simp at hc
    obtain ⟨hb, ha⟩ := hc
    subst hb
    exact ⟨a, ha, he⟩
  · rintro ⟨u, hu, he⟩
    exact ⟨(u, v), he, by simp [hu]⟩

/-- the last node of a walk inside `rem` has a predecessor in `rem` -/
theorem ReachIn.hasIn_last {es : Edges} {rem : List Nat} {a b : Nat} (h : ReachIn es rem a b) :
    hasIn es rem b = true := by
  induction h with
  | step ha _ he => exact (hasIn_true_iff _ _ _).mpr ⟨_, ha, he⟩
  | cons _ _ _ ih => exact ih

/-- a walk inside `rem` avoids `v` altogether, or enters `v`, or starts at `v` -/
theorem ReachIn.split {es : Edges} {rem : List Nat} (v : Nat) {a b : Nat} (h : ReachIn es rem a b) :
    ReachIn es (rem.filter (· != v)) a b ∨ hasIn es rem v = true ∨ a = v := by
  induction h with
  | @step u w hu hw he =>
    by_cases h1 : u = v
    · exact Or.inr (Or.inr h1)
    · by_cases h2 : w = v
      · subst h2; exact Or.inr (Or.inl ((hasIn_true_iff _ _ _).mpr ⟨u, hu, he⟩))
      · exact Or.inl (ReachIn.step (by simp [hu, h1]) (by simp [hw, h2]) he)
  | @cons u w x hu he _ ih =>
    rcases ih with ih | ih | ih
    · by_cases h1 : u = v
      · exact Or.inr (Or.inr h1)
      · exact Or.inl (ReachIn.cons (by simp [hu, h1]) he ih)
    · exact Or.inr (Or.inl ih)
    · subst ih; exact Or.inr (Or.inl ((hasIn_true_iff _ _ _).mpr ⟨u, hu, he⟩))

theorem kahn_sound (es : Edges) : ∀ (f : Nat) (rem : List Nat), kahn es f rem = true →
    ∀ w, ¬ ReachIn es rem w w := by
  intro f
  induction f with
  | zero =>
    intro rem h w hw
    cases rem with
    | nil => exact absurd hw.fst_mem (by simp)
    | cons a r => simp [kahn] at h
  | succ f ih =>
    intro rem h w hw
    cases rem with
    | nil => exact absurd hw.fst_mem (by simp)
    | cons a r =>
      simp only [kahn] at h
      split at h
      · exact absurd h (by simp)
      · rename_i v hv
        have hsrc : hasIn es (a :: r) v = false := by
          have := List.find?_some hv
          simpa using this
        have ih' := ih _ h
        by_cases hwv : w = v
        · subst hwv
          have := hw.hasIn_last
          rw [hsrc] at this
          exact absurd this (by simp)
        · rcases hw.split v with h1 | h1 | h1
          · exact ih' w h1
          · rw [hsrc] at h1; exact absurd h1 (by simp)
          · exact hwv h1

/-- a finite non-empty set of nodes of an acyclic graph has a minimal element -/
theorem exists_minimal (es : Edges) (rem : List Nat) (hac : ∀ w, ¬ ReachIn es rem w w) :
    ∀ L : List Nat, L ≠ [] → ∃ m ∈ L, ∀ u ∈ L, ¬ ReachIn es rem u m := by
  intro L
  induction L with
  | nil => intro h; exact absurd rfl h
  | cons a L ih =>
    intro _
    cases L with
    | nil =>
      refine ⟨a, by simp, ?_⟩
      intro u hu
      simp at hu
      subst hu
      exact hac u
    | cons b L =>
      obtain ⟨m, hm, hmin⟩ := ih (by simp)
      by_cases ham : ReachIn es rem a m
      · refine ⟨a, by simp, ?_⟩
        intro u hu
        rcases List.mem_cons.mp hu with h | h
        · subst h; exact hac u
        · intro hua
          exact hmin u h (hua.trans ham)
      · refine ⟨m, List.mem_cons_of_mem _ hm, ?_⟩
        intro u hu
        rcases List.mem_cons.mp hu with h | h
        · subst h; exact ham
        · exact hmin u h

theorem exists_source (es : Edges) (rem : List Nat) (hne : rem ≠ []) (hac : ∀ w, ¬ ReachIn es rem w w) :
    ∃ v ∈ rem, hasIn es rem v = false := by
  obtain ⟨m, hm, hmin⟩ := exists_minimal es rem hac rem hne
  refine ⟨m, hm, ?_⟩
  cases hh : hasIn es rem m with
  | false => rfl
  | true =>
    obtain ⟨u, hu, he⟩ := (hasIn_true_iff _ _ _).mp hh
    exact absurd (ReachIn.step hu hm he) (hmin u hu)

theorem kahn_complete (es : Edges) : ∀ (f : Nat) (rem : List Nat), rem.length ≤ f →
    (∀ w, ¬ ReachIn es rem w w) → kahn es f rem = true := by
  intro f
  induction f with
  | zero =>
    intro rem hl _
    cases rem with
    | nil => simp [kahn]
    | cons a r => simp at hl
  | succ f ih =>
    intro rem hl hac
    cases rem with
    | nil => simp [kahn]
    | cons a r =>
      simp only [kahn]
      split
      · rename_i hnone
        obtain ⟨v, hv, hsrc⟩ := exists_source es (a :: r) (by simp) hac
        have := List.find?_eq_none.mp hnone v hv
        simp [hsrc] at this
      · rename_i v hv
        have hmem : v ∈ a :: r := List.mem_of_find?_eq_some hv
        apply ih
        · have : ((a :: r).filter (· != v)).length < (a :: r).length := by
            apply List.length_filter_lt_length_iff_exists.mpr
            exact ⟨v, hmem, by simp⟩
          simp at this hl
          omega
        · intro w hw
          exact hac w (hw.mono (fun x hx => (List.mem_filter.mp hx).1))

theorem reachIn_of_reach {n : Nat} {es : Edges} (wf : WellFormed n es) {a b : Nat} (h : Reach es a b) :
    ReachIn es (List.range n) a b := by
  induction h with
  | step he =>
    have := wf _ he
    exact ReachIn.step (List.mem_range.mpr this.1) (List.mem_range.mpr this.2) he
  | cons he _ ih =>
    have := wf _ he
    exact ReachIn.cons (List.mem_range.mpr this.1) he ih

theorem reach_of_reachIn {es : Edges} {rem : List Nat} {a b : Nat} (h : ReachIn es rem a b) : Reach es a b := by
  induction h with
  | step _ _ he => exact Reach.step he
  | cons _ he _ ih => exact Reach.cons he ih

theorem wellFormedB_iff (n : Nat) (es : Edges) : wellFormedB n es = true ↔ WellFormed n es := by
  simp [wellFormedB, WellFormed]

/-- Kahn elimination decides acyclicity -/
theorem isAcyclic_iff (n : Nat) (es : Edges) (wf : WellFormed n es) : isAcyclic n es = true ↔ Acyclic es := by
  unfold isAcyclic
  constructor
  · intro h v hv
    exact kahn_sound es n _ h v (reachIn_of_reach wf hv)
  · intro h
    apply kahn_complete es n _ (by simp)
    intro w hw
    exact h w (reach_of_reachIn hw)

/-! ## A word spelled by a walk -/

def labelOf (labels : List Nat) (v : Nat) : Nat := labels.getD v 0

/-- nodes from which a walk spelling `word` starts -/
def starts (labels : List Nat) (es : Edges) : List Nat → List Nat
  | [] => []
  | [c] => (List.range labels.length).filter fun v => labelOf labels v == c
  | c :: d :: w =>
    let next := starts labels es (d :: w)      -- evaluated once, not once per candidate node
    (List.range labels.length).filter fun v =>
      labelOf labels v == c && es.any (fun e => e.1 == v && next.contains e.2)

def spelledB (labels : List Nat) (es : Edges) (word : List Nat) : Bool :=
  word.isEmpty || !(starts labels es word).isEmpty

theorem mem_starts (labels : List Nat) (es : Edges) : ∀ (word : List Nat) (v : Nat), word ≠ [] →
    (v ∈ starts labels es word ↔
      ∃ p : List Nat, p.head? = some v ∧ IsWalk es p ∧ (∀ u ∈ p, u < labels.length) ∧
        p.map (labelOf labels) = word) := by
  intro word
  induction word with
  | nil => intro v h; exact absurd rfl h
  | cons c w ih =>
    intro v _
    cases w with
    | nil =>
      simp only [starts, List.mem_filter, List.mem_range, beq_iff_eq]
      constructor
      · rintro ⟨hv, hl⟩
        exact ⟨[v], rfl, trivial, by simp [hv], by simp [hl]⟩
      · rintro ⟨p, hh, _, hval, hmap⟩
        cases p with
        | nil => simp at hh
        | cons a p =>
          simp at hh; subst hh
          simp at hmap
          exact ⟨hval a (by simp), hmap.1⟩
    | cons d w =>
      simp only [starts, List.mem_filter, List.mem_range, Bool.and_eq_true, beq_iff_eq, List.any_eq_true,
        List.contains_iff_mem]
      constructor
      · rintro ⟨hv, hl, ⟨a, b⟩, he, ha, hb⟩
        simp at ha; subst ha
        obtain ⟨q, hqh, hqw, hqv, hqm⟩ := (ih b (by simp)).mp hb
        cases q with
        | nil => simp at hqh
        | cons b' q =>
          simp at hqh; subst hqh
          refine ⟨a :: b' :: q, rfl, ⟨he, hqw⟩, ?_, ?_⟩
          · intro u hu
            rcases List.mem_cons.mp hu with h | h
            · subst h; exact hv
            · exact hqv u h
          · simp [hl]; simpa using hqm
      · rintro ⟨p, hh, hw, hval, hmap⟩
        cases p with
        | nil => simp at hh
        | cons a p =>
          simp at hh; subst hh
          cases p with
          | nil => simp at hmap
          | cons b p =>
            simp only [List.map_cons, List.cons.injEq] at hmap
            refine ⟨hval a (by simp), hmap.1, (a, b), hw.1, by simp, ?_⟩
            apply (ih b (by simp)).mpr
            exact ⟨b :: p, rfl, hw.2, fun u hu => hval u (List.mem_cons_of_mem _ hu), by simp [hmap.2]⟩

/-- `spelledB` decides whether the word is spelled by a walk of the graph -/
theorem spelledB_iff (labels : List Nat) (es : Edges) (word : List Nat) :
    spelledB labels es word = true ↔ Spelled labels es word := by
  unfold spelledB Spelled
  cases word with
  | nil =>
    simp only [List.isEmpty_nil, Bool.true_or, true_iff]
    exact ⟨[], trivial, by simp, rfl⟩
  | cons c w =>
    simp only [List.isEmpty_cons, Bool.false_or, Bool.not_eq_eq_eq_not, Bool.not_true,
      List.isEmpty_eq_false_iff_exists_mem]
    constructor
    · rintro ⟨v, hv⟩
      obtain ⟨p, _, hw, hval, hmap⟩ := (mem_starts labels es (c :: w) v (by simp)).mp hv
      exact ⟨p, hw, hval, hmap⟩
    · rintro ⟨p, hw, hval, hmap⟩
      cases p with
      | nil => simp at hmap
      | cons a p =>
        exact ⟨a, (mem_starts labels es (c :: w) a (by simp)).mpr ⟨a :: p, rfl, hw, hval, hmap⟩⟩

/-! ## Monotone growth of the graph -/

def extendsB (oldL : List Nat) (oldE : List (Nat × Nat × Int)) (newL : List Nat) (newE : List (Nat × Nat × Int)) : Bool :=
  newL.take oldL.length == oldL &&
  ((plain oldE).all fun e => (plain newE).contains e) &&
  ((plain oldE).all fun e => decide (weight oldE e.1 e.2 ≤ weight newE e.1 e.2))

theorem extendsB_iff (oldL : List Nat) (oldE : List (Nat × Nat × Int)) (newL : List Nat) (newE : List (Nat × Nat × Int)) :
    extendsB oldL oldE newL newE = true ↔ Extends oldL oldE newL newE := by
  simp [extendsB, Extends, and_assoc]

end RbV.Poa
