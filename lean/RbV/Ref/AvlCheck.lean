import RbV.Model.Avl
/-!
# The invariants of the augmented AVL tree, declaratively, and the executable checkers the driver applies
# to the tree rebuilt from the hook dump (`IntervalTree::verif_dump`)

* `Inv t` — the full (strict) invariant: in-order starts non-decreasing, every `max` field is the maximum end of
  its subtree, every `height` field is the true height, every node is height-balanced.
* `SearchInv t` — what the pruned search really relies on: every `max` field is an *upper bound* of the ends in its
  subtree and nothing in a right subtree starts before its parent. `Inv → SearchInv`.
* `WeakInv t` — `SearchInv` + balanced by **true** heights (what the property text demands: answers exact, tree
  height-balanced), regardless of what the `height` fields say.

`checkAVL` decides `Inv`, `checkWeak` decides `WeakInv`; both are proved sound below.
Core Lean only.
-/
namespace RbV.Avl
open RbV.Ivl

def realHeight : Tree → Nat
  | .nil => 0
  | .node l _ _ _ r => 1 + max (realHeight l) (realHeight r)

/-- `m` is the largest end among `es` -/
def IsMaxEnd (es : List Entry) (m : Int) : Prop := (∀ e ∈ es, e.hi ≤ m) ∧ ∃ e ∈ es, e.hi = m

/-- in-order starts are non-decreasing -/
def Sorted (t : Tree) : Prop := (toList t).Pairwise (fun a b => a.lo ≤ b.lo)

/-- every `max` field is the maximum end in its subtree -/
def MaxOk : Tree → Prop
  | .nil => True
  | .node l e mx h r => MaxOk l ∧ MaxOk r ∧ IsMaxEnd (toList (.node l e mx h r)) mx

/-- every `height` field is the true height -/
def HeightOk : Tree → Prop
  | .nil => True
  | .node l e mx h r => HeightOk l ∧ HeightOk r ∧ h = realHeight (.node l e mx h r)

/-- AVL balance on true heights -/
def Balanced : Tree → Prop
  | .nil => True
  | .node l _ _ _ r =>
    Balanced l ∧ Balanced r ∧ realHeight l ≤ realHeight r + 1 ∧ realHeight r ≤ realHeight l + 1

structure Inv (t : Tree) : Prop where
  sorted : Sorted t
  maxOk : MaxOk t
  heightOk : HeightOk t
  balanced : Balanced t

/-- what the pruned DFS needs -/
def SearchInv : Tree → Prop
  | .nil => True
  | .node l e mx _ r =>
    SearchInv l ∧ SearchInv r ∧ (∀ a ∈ toList l ++ e :: toList r, a.hi ≤ mx) ∧ (∀ b ∈ toList r, e.lo ≤ b.lo)

structure WeakInv (t : Tree) : Prop where
  search : SearchInv t
  balanced : Balanced t

/-! ## field-level (recursive, local) forms used by the checker and by the insertion proofs -/

/-- every node's fields are what `update_height; update_max` would compute from its children -/
def Fields : Tree → Prop
  | .nil => True
  | .node l e mx h r => Fields l ∧ Fields r ∧ mx = updMax l e r ∧ h = updHeight l r

/-- AVL balance stated on the stored `height` fields -/
def BalF : Tree → Prop
  | .nil => True
  | .node l _ _ _ r => BalF l ∧ BalF r ∧ ht l ≤ ht r + 1 ∧ ht r ≤ ht l + 1

theorem ht_eq_realHeight : ∀ t, Fields t → ht t = realHeight t
  | .nil, _ => rfl
  | .node l e mx h r, hf => by
    obtain ⟨hl, hr, _, hh⟩ := hf
    have e1 := ht_eq_realHeight l hl
    have e2 := ht_eq_realHeight r hr
    show h = 1 + max (realHeight l) (realHeight r)
    rw [hh, updHeight, e1, e2]

theorem fields_heightOk : ∀ t, Fields t → HeightOk t
  | .nil, _ => trivial
  | .node l e mx h r, hf => by
    have hfull := ht_eq_realHeight _ hf
    obtain ⟨hl, hr, _, hh⟩ := hf
    exact ⟨fields_heightOk l hl, fields_heightOk r hr, by simpa [ht] using hfull⟩

theorem fields_balF_balanced : ∀ t, Fields t → BalF t → Balanced t
  | .nil, _, _ => trivial
  | .node l e mx h r, hf, hb => by
    obtain ⟨hl, hr, _, _⟩ := hf
    obtain ⟨bl, br, h1, h2⟩ := hb
    rw [ht_eq_realHeight l hl, ht_eq_realHeight r hr] at h1 h2
    exact ⟨fields_balF_balanced l hl bl, fields_balF_balanced r hr br, h1, h2⟩

/-- the `max` field of a non-empty tree with correct fields is the maximum end of the subtree -/
theorem fields_isMaxEnd : ∀ l e mx h r, Fields (.node l e mx h r) → IsMaxEnd (toList (.node l e mx h r)) mx
  | l, e, mx, h, r, hf => by
    obtain ⟨hl, hr, hm, _⟩ := hf
    have il : ∀ ll le lm lh lr, l = .node ll le lm lh lr → IsMaxEnd (toList l) lm := by
      intro ll le lm lh lr hEq; subst hEq; exact fields_isMaxEnd ll le lm lh lr hl
    have ir : ∀ rl re rm rh rr, r = .node rl re rm rh rr → IsMaxEnd (toList r) rm := by
      intro rl re rm rh rr hEq; subst hEq; exact fields_isMaxEnd rl re rm rh rr hr
    subst hm
    unfold IsMaxEnd
    simp only [toList, List.mem_append, List.mem_cons]
    cases l with
    | nil =>
      cases r with
      | nil => simp [updMax, toList]
      | node rl re rm rh rr =>
        obtain ⟨r1, r2, r3, r4⟩ := ir rl re rm rh rr rfl
        simp only [updMax]
        constructor
        · intro a ha
          rcases ha with ha | ha | ha
          · simp [toList] at ha
          · subst ha; split <;> omega
          · have := r1 a ha; split <;> omega
        · by_cases hc : e.hi < rm
          · exact ⟨r2, Or.inr (Or.inr r3), by simp [hc, r4]⟩
          · exact ⟨e, Or.inr (Or.inl rfl), by simp [hc]⟩
    | node ll le lm lh lr =>
      obtain ⟨l1, l2, l3, l4⟩ := il ll le lm lh lr rfl
      cases r with
      | nil =>
        simp only [updMax]
        constructor
        · intro a ha
          rcases ha with ha | ha | ha
          · have := l1 a ha; split <;> omega
          · subst ha; split <;> omega
          · simp [toList] at ha
        · by_cases hc : e.hi < lm
          · exact ⟨l2, Or.inl l3, by simp [hc, l4]⟩
          · exact ⟨e, Or.inr (Or.inl rfl), by simp [hc]⟩
      | node rl re rm rh rr =>
        obtain ⟨r1, r2, r3, r4⟩ := ir rl re rm rh rr rfl
        simp only [updMax]
        constructor
        · intro a ha
          rcases ha with ha | ha | ha
          · have := l1 a ha; split <;> split <;> omega
          · subst ha; split <;> split <;> omega
          · have := r1 a ha; split <;> split <;> omega
        · by_cases hc : e.hi < lm
          · by_cases hd : lm < rm
            · exact ⟨r2, Or.inr (Or.inr r3), by simp [hc, hd, r4]⟩
            · exact ⟨l2, Or.inl l3, by simp [hc, hd, l4]⟩
          · by_cases hd : e.hi < rm
            · exact ⟨r2, Or.inr (Or.inr r3), by simp [hc, hd, r4]⟩
            · exact ⟨e, Or.inr (Or.inl rfl), by simp [hc, hd]⟩
termination_by l e mx h r => size (.node l e mx h r)
decreasing_by all_goals (subst_vars; simp only [size]; omega)

theorem fields_maxOk : ∀ t, Fields t → MaxOk t
  | .nil, _ => trivial
  | .node l e mx h r, hf =>
    ⟨fields_maxOk l hf.1, fields_maxOk r hf.2.1, fields_isMaxEnd l e mx h r hf⟩

/-- recursive form of `Sorted` -/
def Ordered : Tree → Prop
  | .nil => True
  | .node l e _ _ r => Ordered l ∧ Ordered r ∧ (∀ a ∈ toList l, a.lo ≤ e.lo) ∧ (∀ b ∈ toList r, e.lo ≤ b.lo)

theorem ordered_of_sorted : ∀ t, Sorted t → Ordered t
  | .nil, _ => trivial
  | .node l e mx h r, hs => by
    unfold Sorted at hs
    simp only [toList] at hs
    rw [List.pairwise_append] at hs
    obtain ⟨h1, h2, h3⟩ := hs
    rw [List.pairwise_cons] at h2
    exact ⟨ordered_of_sorted l h1, ordered_of_sorted r h2.2, fun a ha => h3 a ha e (by simp), h2.1⟩

theorem sorted_of_ordered : ∀ t, Ordered t → Sorted t
  | .nil, _ => by simp [Sorted, toList]
  | .node l e mx h r, ho => by
    obtain ⟨ol, or', h1, h2⟩ := ho
    unfold Sorted
    simp only [toList]
    rw [List.pairwise_append, List.pairwise_cons]
    refine ⟨sorted_of_ordered l ol, ⟨h2, sorted_of_ordered r or'⟩, ?_⟩
    intro a ha b hb
    simp only [List.mem_cons] at hb
    rcases hb with hb | hb
    · subst hb; exact h1 a ha
    · have := h1 a ha; have := h2 b hb; omega

theorem inv_of_fields (t : Tree) (hs : Sorted t) (hf : Fields t) (hb : BalF t) : Inv t :=
  ⟨hs, fields_maxOk t hf, fields_heightOk t hf, fields_balF_balanced t hf hb⟩

/-- the strict invariant implies what the search needs -/
theorem searchInv_of_inv_aux : ∀ t, Ordered t → MaxOk t → SearchInv t
  | .nil, _, _ => trivial
  | .node l e mx h r, ho, hm => by
    obtain ⟨ol, or', _, h2⟩ := ho
    obtain ⟨ml, mr, hmax⟩ := hm
    refine ⟨searchInv_of_inv_aux l ol ml, searchInv_of_inv_aux r or' mr, ?_, h2⟩
    intro a ha
    exact hmax.1 a (by simpa [toList] using ha)

theorem Inv.searchInv {t : Tree} (h : Inv t) : SearchInv t :=
  searchInv_of_inv_aux t (ordered_of_sorted t h.sorted) h.maxOk

theorem Inv.weak {t : Tree} (h : Inv t) : WeakInv t := ⟨h.searchInv, h.balanced⟩

/-! ## the executable checkers -/

/-- adjacent starts in order -/
def sortedB : List Entry → Bool
  | a :: b :: rest => decide (a.lo ≤ b.lo) && sortedB (b :: rest)
  | _ => true

theorem sortedB_sound : ∀ l, sortedB l = true → l.Pairwise (fun a b => a.lo ≤ b.lo)
  | [], _ => List.Pairwise.nil
  | [a], _ => by simp
  | a :: b :: rest, h => by
    simp only [sortedB, Bool.and_eq_true, decide_eq_true_eq] at h
    have ih := sortedB_sound (b :: rest) h.2
    rw [List.pairwise_cons]
    refine ⟨?_, ih⟩
    intro c hc
    rw [List.pairwise_cons] at ih
    simp only [List.mem_cons] at hc
    rcases hc with hc | hc
    · subst hc; exact h.1
    · have := ih.1 c hc; omega

/-- per node: fields as `update_height`/`update_max` compute them, and balance -/
def checkNodes : Tree → Bool
  | .nil => true
  | .node l e mx h r =>
    checkNodes l && checkNodes r && decide (mx = updMax l e r) && decide (h = updHeight l r)
      && decide (ht l ≤ ht r + 1) && decide (ht r ≤ ht l + 1)

theorem checkNodes_sound : ∀ t, checkNodes t = true → Fields t ∧ BalF t
  | .nil, _ => ⟨trivial, trivial⟩
  | .node l e mx h r, hc => by
    simp only [checkNodes, Bool.and_eq_true, decide_eq_true_eq] at hc
    obtain ⟨⟨⟨⟨⟨cl, cr⟩, hm⟩, hh⟩, b1⟩, b2⟩ := hc
    have ⟨fl, bl⟩ := checkNodes_sound l cl
    have ⟨fr, br⟩ := checkNodes_sound r cr
    exact ⟨⟨fl, fr, hm, hh⟩, ⟨bl, br, b1, b2⟩⟩

/-- the strict check applied to every dump: `n` nodes and `Inv` -/
def checkAVL (t : Tree) (n : Nat) : Bool := decide (size t = n) && sortedB (toList t) && checkNodes t

theorem checkAVL_sound (t : Tree) (n : Nat) (h : checkAVL t n = true) : size t = n ∧ Inv t := by
  simp only [checkAVL, Bool.and_eq_true, decide_eq_true_eq] at h
  obtain ⟨⟨hn, hs⟩, hc⟩ := h
  have ⟨hf, hb⟩ := checkNodes_sound t hc
  exact ⟨hn, inv_of_fields t (sortedB_sound _ hs) hf hb⟩

/-- balance by true heights -/
def balancedB : Tree → Bool
  | .nil => true
  | .node l _ _ _ r =>
    balancedB l && balancedB r && decide (realHeight l ≤ realHeight r + 1) && decide (realHeight r ≤ realHeight l + 1)

theorem balancedB_sound : ∀ t, balancedB t = true → Balanced t
  | .nil, _ => trivial
  | .node l e mx h r, hc => by
    simp only [balancedB, Bool.and_eq_true, decide_eq_true_eq] at hc
    obtain ⟨⟨⟨cl, cr⟩, b1⟩, b2⟩ := hc
    exact ⟨balancedB_sound l cl, balancedB_sound r cr, b1, b2⟩

def searchInvB : Tree → Bool
  | .nil => true
  | .node l e mx _ r =>
    searchInvB l && searchInvB r && (toList l ++ e :: toList r).all (fun a => decide (a.hi ≤ mx))
      && (toList r).all (fun b => decide (e.lo ≤ b.lo))

theorem searchInvB_sound : ∀ t, searchInvB t = true → SearchInv t
  | .nil, _ => trivial
  | .node l e mx h r, hc => by
    simp only [searchInvB, Bool.and_eq_true, List.all_eq_true, decide_eq_true_eq] at hc
    obtain ⟨⟨⟨cl, cr⟩, b1⟩, b2⟩ := hc
    exact ⟨searchInvB_sound l cl, searchInvB_sound r cr, b1, b2⟩

/-- the weak check: what the property text demands of the shape -/
def checkWeak (t : Tree) (n : Nat) : Bool := decide (size t = n) && searchInvB t && balancedB t

theorem checkWeak_sound (t : Tree) (n : Nat) (h : checkWeak t n = true) : size t = n ∧ WeakInv t := by
  simp only [checkWeak, Bool.and_eq_true, decide_eq_true_eq] at h
  obtain ⟨⟨hn, hs⟩, hb⟩ := h
  exact ⟨hn, searchInvB_sound t hs, balancedB_sound t hb⟩

/-- a balanced tree of height `h` has at least `fib`-many nodes: `minNodes h ≤ size t`; so the height of a tree
with `n` nodes is O(log n) (`minNodes` grows like φ^h) -/
def minNodes : Nat → Nat
  | 0 => 0
  | 1 => 1
  | h + 2 => minNodes (h + 1) + minNodes h + 1

theorem minNodes_mono_succ : ∀ h, minNodes h ≤ minNodes (h + 1)
  | 0 => by simp [minNodes]
  | h + 1 => by simp only [minNodes]; omega

theorem minNodes_mono {a b : Nat} (h : a ≤ b) : minNodes a ≤ minNodes b := by
  induction h with
  | refl => exact Nat.le_refl _
  | step _ ih => exact Nat.le_trans ih (minNodes_mono_succ _)

theorem balanced_size_ge : ∀ t, Balanced t → minNodes (realHeight t) ≤ size t
  | .nil, _ => by simp [minNodes, realHeight]
  | .node l e mx h r, hb => by
    obtain ⟨bl, br, h1, h2⟩ := hb
    have il := balanced_size_ge l bl
    have ir := balanced_size_ge r br
    simp only [realHeight, size]
    by_cases hc : realHeight l ≤ realHeight r
    · have hmax : max (realHeight l) (realHeight r) = realHeight r := by omega
      rw [hmax]
      by_cases hz : realHeight r = 0
      · rw [hz]; simp only [minNodes]; omega
      · obtain ⟨k, hk⟩ : ∃ k, realHeight r = k + 1 := ⟨realHeight r - 1, by omega⟩
        rw [hk, Nat.add_comm 1 (k + 1)]
        simp only [minNodes]
        have : minNodes k ≤ minNodes (realHeight l) := minNodes_mono (by omega)
        rw [hk] at ir
        omega
    · have hmax : max (realHeight l) (realHeight r) = realHeight l := by omega
      rw [hmax]
      obtain ⟨k, hk⟩ : ∃ k, realHeight l = k + 1 := ⟨realHeight l - 1, by omega⟩
      rw [hk, Nat.add_comm 1 (k + 1)]
      simp only [minNodes]
      have : minNodes k ≤ minNodes (realHeight r) := minNodes_mono (by omega)
      rw [hk] at il
      omega

end RbV.Avl
