import RbV.Spec.FMIndex
/-!
# Acceptance function of C05 and its lemmas

`checkBS t sa p res` decides `BSProp t sa p res` (theorem `checkBS_iff`, stated in `RbV/Thm/C05.lean`).
-/
namespace RbV

/-! ### occurs -/

def occursB (p t : List Nat) : Bool := !(occurrences p t).isEmpty

theorem occursB_iff (p t : List Nat) : occursB p t = true ↔ Occurs p t := by
  unfold occursB Occurs
  constructor
  · intro h
    cases hl : occurrences p t with
    | nil => simp [hl] at h
    | cons a l => exact ⟨a, (mem_occurrences p t a).mp (by simp [hl])⟩
  · rintro ⟨i, hi⟩
    have := (mem_occurrences p t i).mpr hi
    cases hl : occurrences p t with
    | nil => simp [hl] at this
    | cons a l => simp

theorem occursB_false_iff (p t : List Nat) : occursB p t = false ↔ ¬ Occurs p t := by
  rw [← occursB_iff]; simp

theorem occurs_nil (t : List Nat) : Occurs [] t := ⟨0, by simp [OccursAt]⟩

/-- dropping the first symbol of an occurring string gives an occurring string -/
theorem occurs_tail (a : Nat) (q t : List Nat) : Occurs (a :: q) t → Occurs q t := by
  rintro ⟨i, h1, h2⟩
  refine ⟨i + 1, ?_, ?_⟩
  · simp only [List.length_cons] at h1; omega
  · have h3 : (List.drop i t).take (q.length + 1) = a :: q := by simpa using h2
    rw [← List.drop_drop]
    cases hd : List.drop i t with
    | nil => rw [hd] at h3; simp at h3
    | cons b r =>
      rw [hd] at h3
      simp only [List.take_succ_cons, List.cons.injEq] at h3
      simpa using h3.2

theorem occurs_drop (p t : List Nat) (k : Nat) : Occurs p t → Occurs (p.drop k) t := by
  induction k generalizing p with
  | zero => simp
  | succ k ih =>
    intro h
    cases p with
    | nil => simpa using h
    | cons a q => simpa using ih q (occurs_tail a q t h)

/-- a prefix of an occurring string occurs -/
theorem occurs_take (p t : List Nat) (k : Nat) : Occurs p t → Occurs (p.take k) t := by
  rintro ⟨i, h1, h2⟩
  refine ⟨i, ?_, ?_⟩
  · simp only [List.length_take]; omega
  · conv => rhs; rw [← h2]
    simp [List.take_take]

/-- shorter suffixes of an occurring suffix occur (monotonicity) -/
theorem occurs_suffix_mono (p t : List Nat) (l l' : Nat) (h : l ≤ l') :
    Occurs (suffix p l') t → Occurs (suffix p l) t := by
  intro ho
  unfold suffix at *
  have : p.drop (p.length - l) = (p.drop (p.length - l')).drop ((p.length - l) - (p.length - l')) := by
    rw [List.drop_drop]; congr 1; omega
  rw [this]
  exact occurs_drop _ _ _ ho

theorem suffix_zero (p : List Nat) : suffix p 0 = [] := by simp [suffix]

theorem suffix_length (p : List Nat) : suffix p p.length = p := by simp [suffix]

/-! ### set equality of two lists -/

def sameSet (a b : List Nat) : Bool := a.all (fun x => b.contains x) && b.all (fun x => a.contains x)

theorem sameSet_iff (a b : List Nat) : sameSet a b = true ↔ ∀ i, i ∈ a ↔ i ∈ b := by
  simp only [sameSet, Bool.and_eq_true, List.all_eq_true, List.contains_iff_mem]
  constructor
  · rintro ⟨h1, h2⟩ i; exact ⟨h1 i, h2 i⟩
  · intro h; exact ⟨fun i hi => (h i).mp hi, fun i hi => (h i).mpr hi⟩

/-! ### interval ↦ occurrences -/

def mapsToB (sa : List Nat) (lo hi : Nat) (p t : List Nat) : Bool :=
  decide (lo ≤ hi) && decide (hi ≤ sa.length) && sameSet (ivMap sa lo hi) (occurrences p t)

theorem mapsToB_iff (sa : List Nat) (lo hi : Nat) (p t : List Nat) :
    mapsToB sa lo hi p t = true ↔ MapsTo sa lo hi p t := by
  simp only [mapsToB, MapsTo, Bool.and_eq_true, decide_eq_true_eq, sameSet_iff, mem_occurrences, and_assoc]

/-! ### longest occurring suffix -/

/-- the largest `l ≤ n` such that the suffix of length `l` of `p` occurs in `t` (0 if none does) -/
def longestSuf (p t : List Nat) : Nat → Nat
  | 0 => 0
  | l + 1 => if occursB (suffix p (l + 1)) t then l + 1 else longestSuf p t l

theorem longestSuf_le (p t : List Nat) (n : Nat) : longestSuf p t n ≤ n := by
  induction n with
  | zero => simp [longestSuf]
  | succ n ih => simp only [longestSuf]; split <;> omega

theorem longestSuf_occurs (p t : List Nat) (n : Nat) : Occurs (suffix p (longestSuf p t n)) t := by
  induction n with
  | zero => simp only [longestSuf, suffix_zero]; exact occurs_nil t
  | succ n ih =>
    simp only [longestSuf]
    split
    · rename_i h; exact (occursB_iff _ _).mp h
    · exact ih

theorem longestSuf_max (p t : List Nat) (n l' : Nat) :
    longestSuf p t n < l' → l' ≤ n → ¬ Occurs (suffix p l') t := by
  induction n with
  | zero => intro h1 h2; omega
  | succ n ih =>
    simp only [longestSuf]
    split
    · intro h1 h2; omega
    · rename_i h
      intro h1 h2
      by_cases hl : l' = n + 1
      · subst hl; rw [← occursB_iff]; exact h
      · exact ih h1 (by omega)

theorem longestSuf_spec (p t : List Nat) : IsLongestSuf p t (longestSuf p t p.length) :=
  ⟨longestSuf_le p t _, longestSuf_occurs p t _, fun l' h1 h2 => longestSuf_max p t _ l' h1 h2⟩

/-- the longest occurring suffix length is unique -/
theorem isLongestSuf_unique (p t : List Nat) (l₁ l₂ : Nat) :
    IsLongestSuf p t l₁ → IsLongestSuf p t l₂ → l₁ = l₂ := by
  rintro ⟨a1, a2, a3⟩ ⟨b1, b2, b3⟩
  by_cases h : l₁ < l₂
  · exact absurd b2 (a3 l₂ h b1)
  · by_cases h' : l₂ < l₁
    · exact absurd a2 (b3 l₁ h' a1)
    · omega

theorem isLongestSuf_iff (p t : List Nat) (l : Nat) :
    IsLongestSuf p t l ↔ longestSuf p t p.length = l :=
  ⟨fun h => isLongestSuf_unique p t _ _ (longestSuf_spec p t) h, fun h => h ▸ longestSuf_spec p t⟩

/-- the whole pattern occurs iff the longest occurring suffix is the pattern itself -/
theorem longestSuf_full_iff (p t : List Nat) : longestSuf p t p.length = p.length ↔ Occurs p t := by
  constructor
  · intro h
    have := longestSuf_occurs p t p.length
    rw [h, suffix_length] at this; exact this
  · intro h
    have hle := longestSuf_le p t p.length
    by_cases hlt : longestSuf p t p.length < p.length
    · have := longestSuf_max p t p.length p.length hlt (Nat.le_refl _)
      rw [suffix_length] at this; exact absurd h this
    · omega

/-- no non-empty suffix occurs iff the last symbol does not occur -/
theorem longestSuf_zero_iff (p t : List Nat) (hp : p ≠ []) :
    longestSuf p t p.length = 0 ↔ ¬ Occurs (suffix p 1) t := by
  have hlen : 1 ≤ p.length := by
    cases p with
    | nil => exact absurd rfl hp
    | cons a q => simp
  constructor
  · intro h
    exact longestSuf_max p t p.length 1 (by omega) hlen
  · intro h
    by_cases h0 : longestSuf p t p.length = 0
    · exact h0
    · exfalso
      apply h
      exact occurs_suffix_mono p t 1 _ (by omega) (longestSuf_occurs p t p.length)

/-! ### rows of an interval -/

theorem row_of_mem_ivMap (sa : List Nat) (lo hi i : Nat) (h : i ∈ ivMap sa lo hi) :
    ∃ r, lo ≤ r ∧ r < hi ∧ sa.getD r 0 = i := by
  unfold ivMap at h
  obtain ⟨n, hn, he⟩ := List.mem_iff_getElem.mp h
  simp only [List.length_take, List.length_drop] at hn
  refine ⟨lo + n, by omega, by omega, ?_⟩
  simp only [List.getElem_take, List.getElem_drop] at he
  have hlt : lo + n < sa.length := by omega
  simp [List.getD_eq_getElem?_getD, List.getElem?_eq_getElem hlt, he]

theorem mem_ivMap_of_row (sa : List Nat) (lo hi r : Nat) (h1 : lo ≤ r) (h2 : r < hi) (h3 : r < sa.length) :
    sa.getD r 0 ∈ ivMap sa lo hi := by
  unfold ivMap
  apply List.mem_iff_getElem.mpr
  refine ⟨r - lo, by simp only [List.length_take, List.length_drop]; omega, ?_⟩
  simp only [List.getElem_take, List.getElem_drop]
  have : lo + (r - lo) = r := by omega
  simp [List.getD_eq_getElem?_getD, List.getElem?_eq_getElem h3, this]

/-! ### the acceptance function -/

def checkBS (t sa p : List Nat) : BSRes → Bool
  | .complete lo hi => longestSuf p t p.length == p.length && mapsToB sa lo hi p t
  | .part lo hi l =>
      let m := longestSuf p t p.length
      decide (0 < m) && decide (m < p.length) && l == m && mapsToB sa lo hi (suffix p l) t
  | .absent => longestSuf p t p.length == 0

end RbV
