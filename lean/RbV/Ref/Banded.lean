import RbV.Ref.Gotoh
import RbV.Gen.Limits
/-
Acceptance function for the banded aligner (C02).

A banded result is either the documented *sentinel* (budget guard) or a real alignment whose recomputed
score equals the reported one.  The sentinel is only acceptable when the matrix itself exceeds the cell
budget (the band is a subset of the matrix), and it is the only acceptable answer when the band is the
whole matrix (`full`) and the matrix exceeds the budget.  `exact` = the caller demands the unbanded
optimum (band = whole matrix and the case is small enough to evaluate `opt`).
-/
namespace RbV.Align

/-- `MAX_CELLS` of `banded.rs`: the cell budget.  Not a copy: `RbV/Gen/Limits.lean` is regenerated from the source text
on every `./check C02` (tools/gen_tables.py).  The documentation of `banded::Aligner` names the budget symbolically
("… less than MAX_CELLS …"), so the acceptance function *follows* the constant of the tree under test; the number the
doc comment adds in parentheses is compared with the constant by the driver's `docbudget` case. -/
def maxCells : Nat := RbV.Gen.Limits.maxCells

/-- the documented empty alignment: score `MIN_SCORE`, no operations, all coordinates and lengths 0 -/
def isSentinel (o : Out) : Bool :=
  o.score == minScore && o.xs == 0 && o.xe == 0 && o.ys == 0 && o.ye == 0 && o.xlen == 0 && o.ylen == 0 &&
  o.ops.isEmpty

def overBudget (x y : List Nat) : Bool := decide ((x.length + 1) * (y.length + 1) > maxCells)

def acceptBanded (sc : Sc) (cl : Clip) (filtered : Bool) (x y : List Nat) (full exact : Bool) (o : Out) : Bool :=
  if isSentinel o then overBudget x y
  else !(full && overBudget x y) && acceptValid sc cl filtered x y o && (!exact || o.score == opt sc cl x y)

/-- soundness: an accepted non-sentinel result is a real alignment achieving its reported score, and that
score does not exceed the unbanded optimum — the last clause needs no evaluation of the optimum -/
theorem acceptBanded_sound (sc : Sc) (cl : Clip) (f : Bool) (x y : List Nat) (full exact : Bool) (o : Out)
    (h : acceptBanded sc cl f x y full exact o = true) :
    (isSentinel o = true ∧ overBudget x y = true) ∨
    (isSentinel o = false ∧ ¬ (full = true ∧ overBudget x y = true) ∧
      IsAln x y o.toAln ∧ ClipRule f x y o ∧ AlnScore sc cl x y o.toAln o.score ∧
      ∀ s, Optimal sc cl x y s → o.score ≤ s) := by
  unfold acceptBanded at h
  by_cases hs : isSentinel o = true
  · left; simp only [hs, if_true] at h; exact ⟨hs, h⟩
  · right
    have hs' : isSentinel o = false := by simpa using hs
    simp only [hs', Bool.false_eq_true, if_false, Bool.and_eq_true, Bool.not_eq_true', Bool.and_eq_false_iff] at h
    obtain ⟨⟨h1, h2⟩, _⟩ := h
    obtain ⟨ha, hc, hsc⟩ := (acceptValid_iff sc cl f x y o).mp h2
    refine ⟨hs', ?_, ha, hc, hsc, ?_⟩
    · rintro ⟨hf, ho⟩; rcases h1 with h1 | h1 <;> simp_all
    · intro s hopt; exact hopt.2 _ _ ha hsc

/-- exactness: with `exact` demanded, acceptance is equivalent to the full C01 statement -/
theorem acceptBanded_exact_iff (sc : Sc) (cl : Clip) (f : Bool) (x y : List Nat) (full : Bool) (o : Out) :
    acceptBanded sc cl f x y full true o = true ↔
      ((isSentinel o = true ∧ overBudget x y = true) ∨
       (isSentinel o = false ∧ ¬ (full = true ∧ overBudget x y = true) ∧
        IsAln x y o.toAln ∧ ClipRule f x y o ∧ AlnScore sc cl x y o.toAln o.score ∧
        Optimal sc cl x y o.score)) := by
  unfold acceptBanded
  by_cases hs : isSentinel o = true
  · simp [hs]
  · have hs' : isSentinel o = false := by simpa using hs
    have hacc := accept_iff sc cl f x y o
    have hdef : accept sc cl f x y o = (acceptValid sc cl f x y o && (o.score == opt sc cl x y)) := rfl
    simp only [hs', Bool.false_eq_true, if_false, false_and, false_or, true_and, Bool.not_true, Bool.false_or]
    rw [Bool.and_assoc, ← hdef, Bool.and_eq_true, hacc]
    constructor
    · rintro ⟨h1, h2⟩
      refine ⟨?_, h2⟩
      rintro ⟨hf, ho⟩; simp [hf, ho] at h1
    · rintro ⟨h1, h2⟩
      refine ⟨?_, h2⟩
      cases full <;> cases hob : overBudget x y <;> simp_all

/-- number of k-mer matches between x and y (pairs (i, j) with x[i..i+k] = y[j..j+k]) -/
def prefEq : Nat → List Nat → List Nat → Bool
  | 0, _, _ => true
  | k + 1, a :: x, b :: y => a == b && prefEq k x y
  | _, _, _ => false

def countRow (k : Nat) (x : List Nat) : List Nat → Nat
  | [] => if prefEq k x [] then 1 else 0
  | b :: y => (if prefEq k x (b :: y) then 1 else 0) + countRow k x y

def kmerMatchCount (k : Nat) : List Nat → List Nat → Nat
  | [], y => countRow k [] y
  | a :: x, y => countRow k (a :: x) y + kmerMatchCount k x y

end RbV.Align
