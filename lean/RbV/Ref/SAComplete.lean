import RbV.Ref.SA
/-
Completeness of `checkSA` (C03 [B]):  `IsSA t sa → t ≠ [] → checkSA t sa = true`.

If *any* sentinel order makes `sa` sorted, then the order read off `sa` itself (the order in which the sentinel
positions appear in `sa`) is order-isomorphic to it on the sentinel positions, the two key texts compare all pairs
of positions in the same way, and therefore `sa` is sorted under the induced order as well.
-/
namespace RbV

/-- two key texts that compare every pair of positions in the same way give the same suffix order -/
theorem lexLt_drop_congr (ks ks' : List Nat) (hlen : ks.length = ks'.length)
    (hiso : ∀ p q, p < ks.length → q < ks.length → (ks.getD p 0 < ks.getD q 0 ↔ ks'.getD p 0 < ks'.getD q 0))
    (d i j : Nat) (hd : ks.length - i = d) :
    lexLt (ks.drop i) (ks.drop j) ↔ lexLt (ks'.drop i) (ks'.drop j) := by
  induction d generalizing i j with
  | zero =>
    have h1 : ks.drop i = [] := List.drop_eq_nil_of_le (by omega)
    have h2 : ks'.drop i = [] := List.drop_eq_nil_of_le (by omega)
    rw [h1, h2]
    by_cases hj : j < ks.length
    · have hj' : j < ks'.length := by omega
      rw [List.drop_eq_getElem_cons hj, List.drop_eq_getElem_cons hj']; simp [lexLt]
    · rw [List.drop_eq_nil_of_le (by omega), List.drop_eq_nil_of_le (by omega)]
  | succ d ih =>
    have hi : i < ks.length := by omega
    by_cases hj : j < ks.length
    · have hi' : i < ks'.length := by omega
      have hj' : j < ks'.length := by omega
      rw [List.drop_eq_getElem_cons hi, List.drop_eq_getElem_cons hj,
        List.drop_eq_getElem_cons hi', List.drop_eq_getElem_cons hj']
      simp only [lexLt]
      have e1 := hiso i j hi hj
      have e2 := hiso j i hj hi
      simp only [List.getD_eq_getElem?_getD, List.getElem?_eq_getElem hi, List.getElem?_eq_getElem hj,
        List.getElem?_eq_getElem hi', List.getElem?_eq_getElem hj', Option.getD_some] at e1 e2
      have ih' := ih (i + 1) (j + 1) (by omega)
      constructor
      · rintro (h | ⟨h, h'⟩)
        · left; exact e1.mp h
        · right; exact ⟨by omega, ih'.mp h'⟩
      · rintro (h | ⟨h, h'⟩)
        · left; exact e1.mpr h
        · right; exact ⟨by omega, ih'.mpr h'⟩
    · rw [List.drop_eq_nil_of_le (Nat.le_of_not_lt hj), List.drop_eq_nil_of_le (by omega : ks'.length ≤ j)]
      cases ks.drop i <;> cases ks'.drop i <;> simp [lexLt]

theorem getD_keyText (t : List Nat) (B : Nat) (rk : Nat → Nat) (p : Nat) (h : p < t.length) :
    (keyText t B rk).getD p 0 = keyAt t B rk p := by
  unfold keyText
  rw [List.getD_eq_getElem?_getD, List.getElem?_map, List.getElem?_range h]
  rfl

/-- comparison of two keys, by cases on which of the positions hold the sentinel -/
theorem keyAt_lt_iff (t : List Nat) (B : Nat) (rk : Nat → Nat) (ho : SentinelOrder t B rk) (p q : Nat) :
    keyAt t B rk p < keyAt t B rk q ↔
      ((IsSentPos t p ∧ IsSentPos t q ∧ rk p < rk q) ∨ (IsSentPos t p ∧ ¬ IsSentPos t q) ∨
       (¬ IsSentPos t p ∧ ¬ IsSentPos t q ∧ t.getD p 0 < t.getD q 0)) := by
  unfold keyAt
  by_cases hp : IsSentPos t p <;> by_cases hq : IsSentPos t q
  · simp [hp, hq]
  · have := ho.bound p hp
    simp [hp, hq]; omega
  · have := ho.bound q hq
    simp [hp, hq]; omega
  · simp [hp, hq]

/-- in a list that is increasing for `rk`, comparing indices is comparing ranks -/
theorem idxOf_lt_iff_of_pairwise (sp : List Nat) (rk : Nat → Nat)
    (hpw : sp.Pairwise (fun a b => rk a < rk b)) (p q : Nat) (hp : p ∈ sp) (hq : q ∈ sp) :
    sp.idxOf p < sp.idxOf q ↔ rk p < rk q := by
  have lp := List.idxOf_lt_length_iff.mpr hp
  have lq := List.idxOf_lt_length_iff.mpr hq
  have ep := List.getElem_idxOf lp
  have eq := List.getElem_idxOf lq
  have key := List.pairwise_iff_getElem.mp hpw
  constructor
  · intro h
    have := key _ _ lp lq h
    rwa [ep, eq] at this
  · intro h
    rcases Nat.lt_trichotomy (sp.idxOf p) (sp.idxOf q) with h1 | h1 | h1
    · exact h1
    · have : p = q := by rw [← ep, ← eq]; congr 1
      subst this; omega
    · have := key _ _ lq lp h1
      rw [ep, eq] at this; omega

theorem head_of_sorted (t sa : List Nat) (B : Nat) (rk : Nat → Nat) (ho : SentinelOrder t B rk)
    (hs : SuffixSorted (keyText t B rk) sa) (hne : t ≠ []) : sa.head? = some (t.length - 1) := by
  obtain ⟨hp, hpw⟩ := hs
  rw [length_keyText] at hp
  have hn : 0 < t.length := List.length_pos_iff.mpr hne
  have hlastmem : t.length - 1 ∈ sa := by rw [hp.mem_iff, List.mem_range]; omega
  cases sa with
  | nil => simp at hlastmem
  | cons a rest =>
    simp only [List.head?_cons, Option.some.injEq]
    apply Classical.byContradiction
    intro hne'
    have hmem : t.length - 1 ∈ rest := by
      rw [List.mem_cons] at hlastmem
      rcases hlastmem with h | h
      · exact absurd h.symm hne'
      · exact h
    rw [List.pairwise_cons] at hpw
    have hlt := hpw.1 _ hmem
    have ha : a < t.length := by
      have : a ∈ List.range t.length := hp.mem_iff.mp (by simp)
      exact List.mem_range.mp this
    unfold sufLt at hlt
    have hl1 : a < (keyText t B rk).length := by rw [length_keyText]; exact ha
    have hl2 : t.length - 1 < (keyText t B rk).length := by rw [length_keyText]; omega
    rw [List.drop_eq_getElem_cons hl1, List.drop_eq_getElem_cons hl2] at hlt
    have hnil : (keyText t B rk).drop (t.length - 1 + 1) = [] :=
      List.drop_eq_nil_of_le (by rw [length_keyText]; omega)
    rw [hnil] at hlt
    simp only [lexLt, and_false, or_false] at hlt
    have k1 : (keyText t B rk)[a] = keyAt t B rk a := by
      have := getD_keyText t B rk a ha
      rwa [List.getD_eq_getElem?_getD, List.getElem?_eq_getElem hl1, Option.getD_some] at this
    have k2 : (keyText t B rk)[t.length - 1] = keyAt t B rk (t.length - 1) := by
      have := getD_keyText t B rk (t.length - 1) (by omega)
      rwa [List.getD_eq_getElem?_getD, List.getElem?_eq_getElem hl2, Option.getD_some] at this
    rw [k1, k2, keyAt_lt_iff t B rk ho] at hlt
    have hsl := isSentPos_last t hne
    rcases hlt with ⟨h1, _, h3⟩ | ⟨_, h2⟩ | ⟨_, h2, _⟩
    · have := ho.last a h1 hne'
      omega
    · exact h2 hsl
    · exact h2 hsl

theorem checkSA_complete_aux (t sa : List Nat) (hne : t ≠ []) (h : IsSA t sa) : checkSA t sa = true := by
  obtain ⟨B, rk, ho, hs⟩ := h
  have hhead := head_of_sorted t sa B rk ho hs hne
  obtain ⟨hp, hpw⟩ := hs
  rw [length_keyText] at hp
  unfold checkSA
  simp only [Bool.and_eq_true, beq_iff_eq, Bool.not_eq_true', List.isEmpty_eq_false_iff]
  refine ⟨⟨hhead, hne⟩, ?_⟩
  rw [checkSorted_iff]
  have hio := induced_sentinelOrder t sa hp hhead hne
  -- the sentinel positions, in the order of `sa`, are increasing for `rk`
  have hsub : (sentPositions t sa).Sublist sa := List.filter_sublist
  have hsp_sent : ∀ p ∈ sentPositions t sa, IsSentPos t p := by
    intro p hp'
    have := (List.mem_filter.mp hp').2
    simpa using this
  have hsp_mem : ∀ p, IsSentPos t p → p ∈ sentPositions t sa := by
    intro p hsp
    unfold sentPositions
    rw [List.mem_filter]
    refine ⟨?_, by simpa using hsp⟩
    rw [hp.mem_iff, List.mem_range]
    exact (List.getElem?_eq_some_iff.mp hsp).1
  have hlt_n : ∀ p, IsSentPos t p → p < t.length := fun p hsp => (List.getElem?_eq_some_iff.mp hsp).1
  have hrk : (sentPositions t sa).Pairwise (fun a b => rk a < rk b) := by
    have h1 := List.Pairwise.sublist hsub hpw
    -- strengthen with membership information
    have h2 : (sentPositions t sa).Pairwise (fun a b => a ≠ b) :=
      List.Pairwise.sublist hsub ((hp.nodup_iff).mpr List.nodup_range)
    have h3 := h1.and h2
    refine List.Pairwise.imp_of_mem ?_ h3
    intro a b ha hb ⟨hab, hneab⟩
    have sa_ := hsp_sent a ha
    have sb_ := hsp_sent b hb
    unfold sufLt at hab
    have la : a < (keyText t B rk).length := by rw [length_keyText]; exact hlt_n a sa_
    have lb : b < (keyText t B rk).length := by rw [length_keyText]; exact hlt_n b sb_
    rw [List.drop_eq_getElem_cons la, List.drop_eq_getElem_cons lb] at hab
    have ka : (keyText t B rk)[a] = rk a := by
      have := getD_keyText t B rk a (hlt_n a sa_)
      rw [List.getD_eq_getElem?_getD, List.getElem?_eq_getElem la, Option.getD_some] at this
      rw [this]; simp [keyAt, sa_]
    have kb : (keyText t B rk)[b] = rk b := by
      have := getD_keyText t B rk b (hlt_n b sb_)
      rw [List.getD_eq_getElem?_getD, List.getElem?_eq_getElem lb, Option.getD_some] at this
      rw [this]; simp [keyAt, sb_]
    rw [ka, kb] at hab
    simp only [lexLt] at hab
    rcases hab with h | ⟨h, _⟩
    · exact h
    · exact absurd (ho.inj a b sa_ sb_ h) hneab
  refine ⟨by unfold inducedKeys; simpa [length_keyText] using hp, ?_⟩
  -- same comparisons under both key texts
  have hiso : ∀ p q, p < (keyText t B rk).length → q < (keyText t B rk).length →
      ((keyText t B rk).getD p 0 < (keyText t B rk).getD q 0 ↔
        (inducedKeys t sa).getD p 0 < (inducedKeys t sa).getD q 0) := by
    intro p q hp' hq'
    rw [length_keyText] at hp' hq'
    unfold inducedKeys
    simp only
    rw [getD_keyText t B rk p hp', getD_keyText t B rk q hq', getD_keyText t _ _ p hp', getD_keyText t _ _ q hq',
      keyAt_lt_iff t B rk ho, keyAt_lt_iff t _ _ hio]
    by_cases hsp : IsSentPos t p <;> by_cases hsq : IsSentPos t q
    · have := idxOf_lt_iff_of_pairwise _ rk hrk p q (hsp_mem p hsp) (hsp_mem q hsq)
      simp [hsp, hsq, this]
    · simp [hsp, hsq]
    · simp [hsp, hsq]
    · simp [hsp, hsq]
  refine hpw.imp ?_
  intro a b hab
  unfold sufLt at hab ⊢
  exact (lexLt_drop_congr (keyText t B rk) (inducedKeys t sa)
    (by unfold inducedKeys; simp [length_keyText]) hiso _ a b rfl).mp hab

end RbV
