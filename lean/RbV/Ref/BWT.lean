/-
Specification-level references for C04 (BWT, less, Occ).

* `bwtRef t sa`     row r ↦ the symbol that cyclically precedes position `sa[r]`
* `lessRef bwt c`   number of symbols strictly smaller than `c`
* `occRef bwt r c`  number of occurrences of `c` in `bwt[0..=r]`
* `occCol bwt c`    the whole column `r ↦ occRef bwt r c` by one running count (what the driver evaluates)
-/
namespace RbV

def bwtRef (t sa : List Nat) : List Nat :=
  sa.map (fun p => t.getD ((p + t.length - 1) % t.length) 0)

def lessRef (bwt : List Nat) (c : Nat) : Nat := bwt.countP (fun x => decide (x < c))

/-- number of c in bwt[0..=r] -/
def occRef (bwt : List Nat) (r c : Nat) : Nat := (bwt.take (r + 1)).count c

/-- running count: entry r = number of `c` among the first r+1 symbols (started with `acc` already seen) -/
def occColGo (c : Nat) : List Nat → Nat → List Nat
  | [], _ => []
  | x :: xs, acc =>
    let acc' := if x = c then acc + 1 else acc
    acc' :: occColGo c xs acc'

def occCol (bwt : List Nat) (c : Nat) : List Nat := occColGo c bwt 0

theorem occColGo_getElem? (c : Nat) (xs : List Nat) (acc r : Nat) :
    (occColGo c xs acc)[r]? = if r < xs.length then some (acc + (xs.take (r + 1)).count c) else none := by
  induction xs generalizing acc r with
  | nil => simp [occColGo]
  | cons x xs ih =>
    simp only [occColGo]
    cases r with
    | zero =>
      by_cases h : x = c <;> simp [h]
    | succ r =>
      rw [List.getElem?_cons_succ, ih]
      by_cases h : x = c
      · simp [h]
        split
        · simp; omega
        · rfl
      · simp [h]

/-- the column evaluated by the driver is the specification, row by row -/
theorem occCol_getElem? (bwt : List Nat) (c r : Nat) (h : r < bwt.length) :
    (occCol bwt c)[r]? = some (occRef bwt r c) := by
  simp [occCol, occColGo_getElem?, h, occRef]

theorem length_occColGo (c : Nat) (xs : List Nat) (acc : Nat) : (occColGo c xs acc).length = xs.length := by
  induction xs generalizing acc with
  | nil => simp [occColGo]
  | cons x xs ih => simp [occColGo, ih]

theorem length_occCol (bwt : List Nat) (c : Nat) : (occCol bwt c).length = bwt.length :=
  length_occColGo c bwt 0

end RbV
