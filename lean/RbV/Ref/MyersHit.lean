import RbV.Ref.EditDist
/-!
Acceptance function for one reported Myers hit with traceback (C10).  Core Lean only.

`checkHit eqv p t k ⟨start, stop, dist, ops⟩` (stop exclusive): `ops` is a labelled alignment of the whole pattern
with `t[start..stop]` (Match only over equivalent symbols, Subst only over non-equivalent ones) with exactly `dist`
non-match operations, `dist` is the Sellers column value at end position `stop-1`, and `dist ≤ k`.
-/
namespace RbV.EditDist

structure Hit where
  start : Nat
  stop : Nat
  dist : Nat
  ops : List Op
deriving Repr

/-- the acceptance test against a given column (the driver computes the column once per search) -/
def checkHitRow (row : List Nat) (eqv : Nat → Nat → Bool) (p t : List Nat) (k : Nat) (h : Hit) : Bool :=
  decide (h.start ≤ h.stop) && decide (1 ≤ h.stop) && decide (h.stop ≤ t.length) &&
  (acost eqv p ((t.take h.stop).drop h.start) h.ops == some h.dist) &&
  (row[h.stop - 1]? == some h.dist) && decide (h.dist ≤ k)

def checkHit (eqv : Nat → Nat → Bool) (p t : List Nat) (k : Nat) (h : Hit) : Bool :=
  checkHitRow (lastRow (unitW eqv) p t) eqv p t k h

/-- what the property demands of a hit -/
def HitOK (eqv : Nat → Nat → Bool) (p t : List Nat) (k : Nat) (h : Hit) : Prop :=
  h.start ≤ h.stop ∧ 1 ≤ h.stop ∧ h.stop ≤ t.length ∧
  acost eqv p ((t.take h.stop).drop h.start) h.ops = some h.dist ∧
  IsMinEdAt (unitW eqv) p t (h.stop - 1) h.dist ∧ h.dist ≤ k

theorem isMinEdAt_unique' (w : Nat → Nat → Nat) (p t : List Nat) (j d d' : Nat)
    (h : IsMinEdAt w p t j d) (h' : IsMinEdAt w p t j d') : d = d' := by
  obtain ⟨s, hs, e⟩ := h.2
  obtain ⟨s', hs', e'⟩ := h'.2
  have a := h.1 s' hs'
  have b := h'.1 s hs
  omega

theorem checkHit_iff_HitOK (eqv : Nat → Nat → Bool) (p t : List Nat) (k : Nat) (h : Hit) :
    checkHit eqv p t k h = true ↔ HitOK eqv p t k h := by
  unfold checkHit checkHitRow HitOK
  simp only [Bool.and_eq_true, decide_eq_true_eq, beq_iff_eq]
  constructor
  · rintro ⟨⟨⟨⟨⟨h1, h2⟩, h3⟩, h4⟩, h5⟩, h6⟩
    exact ⟨h1, h2, h3, h4, ⟨fun s hs => col_le _ p t _ _ h5 s hs, col_attained _ p t _ _ h5⟩, h6⟩
  · rintro ⟨h1, h2, h3, h4, h5, h6⟩
    refine ⟨⟨⟨⟨⟨h1, h2⟩, h3⟩, h4⟩, ?_⟩, h6⟩
    have hlt : h.stop - 1 < (lastRow (unitW eqv) p t).length := by rw [lastRow_length]; omega
    have hget : (lastRow (unitW eqv) p t)[h.stop - 1]? = some ((lastRow (unitW eqv) p t)[h.stop - 1]) :=
      List.getElem?_eq_getElem hlt
    have hmin : IsMinEdAt (unitW eqv) p t (h.stop - 1) ((lastRow (unitW eqv) p t)[h.stop - 1]) :=
      ⟨fun s hs => col_le _ p t _ _ hget s hs, col_attained _ p t _ _ hget⟩
    rw [isMinEdAt_unique' _ p t _ _ _ hmin h5] at hget
    exact hget

/-- an accepted hit identifies a substring whose edit distance to the pattern is the reported distance -/
theorem hitOK_ed (eqv : Nat → Nat → Bool) (p t : List Nat) (k : Nat) (h : Hit) (ok : HitOK eqv p t k h) :
    ed (unitW eqv) p ((t.take h.stop).drop h.start) = h.dist := by
  obtain ⟨h1, h2, _, h4, h5, _⟩ := ok
  apply Nat.le_antisymm
  · exact ed_le_acost eqv h.ops p _ h.dist h4
  · have := h5.1 h.start (by omega)
    have e : h.stop - 1 + 1 = h.stop := by omega
    rw [e] at this
    exact this

end RbV.EditDist
