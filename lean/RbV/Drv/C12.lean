import RbV.Basic.Codec
import RbV.Model.IndexedFasta
/-! Driver for property C12: indexed FASTA random access.

`c12 h <file hex> <fai hex> cuts:<n,…> sched:<s,…> <op>;<op>;… => <run>|<run>|…`   (see `harness/src/c12.rs`)

For every run (= the history executed on a fresh reader over `file.take n`) and every operation the driver decides
the observation against the **specification**:

* the `.fai` text is parsed here; the record sequences are obtained with the FASTA parser model of C11
  (`parseFasta`), and `wfCheck` confirms that file, index entry and sequence are in the relation `WellFormed`
  (otherwise the *case* is broken: `bad-op`);
* a valid request (known record, `start ≤ stop ≤ len`) whose last base lies inside the (possibly truncated) file
  must yield exactly `seq[start..stop]` (`read`, drained `read_iter`; the first `k` bytes for a partly consumed
  iterator); by `RbV.Thm.C12.read_correct` this is also what the mirror model yields for every chunk schedule;
* a valid request whose span is cut by the truncation must yield an error (`read`), or an error item after a
  correct prefix (`read_iter`) — never short or shifted data;
* unknown names / record numbers, `stop > len`, `start > stop`, reading before any fetch: an error.

The mirror model is run on the same history with the same chunk schedule; where its observation differs from the
real one in something the property does not fix (error class, length of the prefix before an error) the case is
tagged `drift`. -/
namespace RbV.Drv.C12
open RbV.Codec RbV.Fastx RbV.IdxFa

def splitBytes (sep : Nat) : Bytes → List Bytes
  | [] => [[]]
  | b :: r =>
    match splitBytes sep r with
    | [] => [[]]   -- unreachable
    | l :: ls => if b = sep then [] :: l :: ls else (b :: l) :: ls

def natOfDigits (l : Bytes) : Option Nat :=
  if l.isEmpty then none else
  l.foldl (fun acc b => match acc with
    | none => none
    | some n => if 48 ≤ b ∧ b ≤ 57 then some (n * 10 + (b - 48)) else none) (some 0)

/-- the `.fai` text: `name TAB len TAB offset TAB line_bases TAB line_bytes` per line (LF or CRLF) -/
def parseFai (fai : Bytes) : Option (List (Bytes × Idx)) :=
  let lines := (splitBytes 10 fai).map (fun l => if l.getLast? = some 13 then l.dropLast else l)
  (lines.filter (fun l => !l.isEmpty)).mapM fun l =>
    match splitBytes 9 l with
    | [nm, a, b, c, d] => do
      let len ← natOfDigits a; let off ← natOfDigits b; let lb ← natOfDigits c; let lB ← natOfDigits d
      pure (nm, { len := len, off := off, lb := lb, lB := lB })
    | _ => none

inductive RdMode | r | i | p (k : Nat)

def parseRd (s : String) : Option RdMode :=
  if s = "r" then some .r else if s = "i" then some .i
  else if s.startsWith "p" then (s.drop 1).toString.toNat?.map .p else none

inductive Op
  | fn (name : Bytes) (start stop : Nat) (rd : RdMode)
  | fr (rid start stop : Nat) (rd : RdMode)
  | fa (name : Bytes) (rd : RdMode)
  | far (rid : Nat) (rd : RdMode)
  | rd (rd : RdMode)

def parseOp (s : String) : Option Op :=
  match s.splitOn ":" with
  | ["fn", n, a, b, m] => do pure (.fn (← parseHex n) (← a.toNat?) (← b.toNat?) (← parseRd m))
  | ["fr", r, a, b, m] => do pure (.fr (← r.toNat?) (← a.toNat?) (← b.toNat?) (← parseRd m))
  | ["fa", n, m] => do pure (.fa (← parseHex n) (← parseRd m))
  | ["far", r, m] => do pure (.far (← r.toNat?) (← parseRd m))
  | ["rd", m] => do pure (.rd (← parseRd m))
  | _ => none

def Op.mode : Op → RdMode
  | .fn _ _ _ m | .fr _ _ _ m | .fa _ m | .far _ m | .rd m => m

def errName : Err → String
  | .eof => "eof" | .oob => "oob" | .interval => "interval" | .nofetch => "nofetch" | .name => "name"
  | .rid => "rid" | .assert => "assert" | .fuel => "fuel"

/-- the model's observation text for one read in the given mode -/
def modelObs (file : Bytes) (sched : Nat → Nat) (f : Option Fetched) : RdMode → String
  | .r => match read file sched f with
    | .ok b => "ok:" ++ toHex b
    | .error e => "err:" ++ errName e
  | .i => match readIt file sched f with
    | .error e => "err:" ++ errName e ++ ":-"
    | .ok (b, none) => "ok:" ++ toHex b
    | .ok (b, some e) => "err:" ++ errName e ++ ":" ++ toHex b
  | .p k => match readIt file sched f with
    | .error e => "err:" ++ errName e ++ ":-"
    | .ok (b, none) => "ok:" ++ toHex (b.take k)
    | .ok (b, some e) => if k ≤ b.length then "ok:" ++ toHex (b.take k) else "err:" ++ errName e ++ ":" ++ toHex b

/-- observation `ok:<hex>` → bytes; `err:<class>[:<hex>]` → class and prefix -/
inductive Obs | ok (b : Bytes) | err (cls : String) (pre : Option Bytes) | bad

def parseObs (s : String) : Obs :=
  match s.splitOn ":" with
  | ["ok", h] => match parseHex h with | some b => .ok b | none => .bad
  | ["err", c] => .err c none
  | ["err", c, h] => match parseHex h with | some b => .err c (some b) | none => .bad
  | _ => .bad

structure Ctx where
  file : Bytes          -- the (possibly truncated) file of this run
  sched : Nat → Nat
  index : List (Bytes × Idx)
  seqs : List Bytes     -- sequence of every record, from the FASTA parser model
  truncated : Bool      -- this run reads a proper prefix of the file

/-- decide one operation; returns (reason it is rejected | none, drift?, new fetch state (model), tags) -/
def decideOp (c : Ctx) (st : Option Fetched) (everFetched : Bool) (op : Op) (obs : String) :
    Option String × Bool × Option Fetched × Bool × List String :=
  -- fetch phase on the model
  let fr : Except Err Fetched := match op with
    | .fn n a b _ => fetch c.index n a b
    | .fr r a b _ => fetchByRid c.index r a b
    | .fa n _ => fetchAll c.index n
    | .far r _ => fetchAllByRid c.index r
    | .rd _ => match st with | some f => .ok f | none => .error .nofetch
  match fr with
  | .error e =>
    -- unknown name / record number / nothing fetched: an error must be reported
    match parseObs obs with
    | .err cls _ => (none, cls ≠ errName e, st, everFetched, ["e-" ++ errName e])
    | .ok _ => (some ("error-expected-" ++ errName e), false, st, everFetched, [])
    | .bad => (some ("unparsable-observation"), false, st, everFetched, [])
  | .ok f =>
    let isRd : Bool := match op with | .rd _ => true | _ => false
    let mobs := modelObs c.file c.sched (some f) op.mode
    let drift := mobs ≠ obs
    let rid? := c.index.findIdx? (fun e => e.2 == f.idx)
    let seq : Bytes := match rid? with | some r => c.seqs.getD r [] | none => []
    if f.stop > f.idx.len ∨ f.start > f.stop then
      match parseObs obs with
      | .err _ _ => (none, drift, some f, true, [if f.stop > f.idx.len then "e-oob" else "e-interval"])
      | .ok _ => (some "invalid-interval-not-refused", false, some f, true, [])
      | .bad => (some "unparsable-observation", false, some f, true, [])
    else
      let want : Bytes := (seq.drop f.start).take (f.stop - f.start)
      let inside := f.start = f.stop ∨ pos f.idx (f.stop - 1) < c.file.length
      let tags := (if f.start < f.stop ∧ f.start / f.idx.lb ≠ (f.stop - 1) / f.idx.lb then ["multiline"] else [])
        ++ (if f.start = f.stop then ["empty"] else [])
        ++ (if f.stop = f.idx.len ∧ f.start < f.stop then ["to-end"] else [])
        ++ (if ¬ inside then ["cut-inside"] else [])
        ++ (match op.mode with | .r => ["read"] | .i => ["iter"] | .p _ => ["iter-partial"])
        ++ (if f.start < f.stop ∧ pos f.idx (f.stop - 1) - pos f.idx f.start ≥ 8192 then ["span>=8KiB"] else [])
        ++ (if isRd then ["reread"] else [])
      let res : Option String :=
        match parseObs obs, op.mode with
        | .bad, _ => some "unparsable-observation"
        | .ok b, .r =>
          if inside then (if b = want then none else some ("wrong-data expected-" ++ toHex want))
          else some "truncated-span-returned-data"
        | .ok b, .i =>
          if inside then (if b = want then none else some ("wrong-data expected-" ++ toHex want))
          else some "truncated-span-returned-data"
        | .ok b, .p k =>
          if b = want.take k ∧ (inside ∨ k ≤ want.length) then
            (if inside ∨ k = 0 ∨ pos f.idx (f.start + k - 1) < c.file.length then none
             else some "truncated-span-returned-data")
          else some ("wrong-data expected-" ++ toHex (want.take k))
        | .err cls pre, m =>
          if cls = "endless" then some "iterator-does-not-end" else
          if inside then
            -- "a file shorter than the index promises yields an error": on a truncated file an error is acceptable
            -- even when the requested span itself is still present (weakest reading); on the intact file it is not
            if c.truncated then none else some "error-on-valid-request"
          else
            match pre, m with
            | _, .r => none
            | some p, _ =>
              if p.length < want.length ∧ p = want.take p.length then none
              else some "error-after-wrong-prefix"
            | none, _ => none
      -- a re-read without a new fetch is not fixed by the property: only the mirror model speaks (drift)
      if isRd ∧ everFetched then
        match res with
        | some _ => (none, true, some f, true, tags)
        | none => (none, drift, some f, true, tags)
      else (res, drift, some f, true, tags)

def runOps (c : Ctx) (ops : List Op) (obs : List String) : Option String × Bool × List String :=
  let rec go (st : Option Fetched) (ever : Bool) (j : Nat) (drift : Bool) (tags : List String) :
      List Op → List String → Option String × Bool × List String
    | [], _ => (none, drift, tags)
    | _ :: _, [] => (some "missing-observation", drift, tags)
    | op :: ops, o :: os =>
      let (rej, d, st', ever', t) := decideOp c st ever op o
      match rej with
      | some r => (some (r ++ " op" ++ toString j), drift || d, tags)
      | none => go st' ever' (j + 1) (drift || d) (t.foldl (fun acc x => if acc.contains x then acc else x :: acc) tags) ops os
  go none false 0 false [] ops obs

def verdict (toks : List String) (out : String) : String :=
  match toks with
  | ["h", fh, ih, cs, ss, os] =>
    match parseHex fh, parseHex ih, field cs, field ss with
    | some file, some fai, some ("cuts", cl), some ("sched", sl) =>
      match parseNatList cl, parseNatList sl, parseFai fai, (os.splitOn ";").mapM parseOp with
      | some cuts, some sched, some index, some ops =>
        if sched.isEmpty ∨ sched.any (· = 0) ∨ cuts.isEmpty then "bad-op sched-or-cuts" else
        if out.startsWith "PANIC" ∨ out.startsWith "HANG" ∨ out.startsWith "CRASH" then "reject " ++ out else
        -- the case must be in the domain of the property: parse the records, check the index against them
        let items := parseFasta file
        let seqs := items.filterMap (fun it => match it with | .ok r => some r.seq | .err => none)
        let ids := items.filterMap (fun it => match it with | .ok r => some r.id | .err => none)
        if items.length ≠ index.length ∨ seqs.length ≠ index.length ∨ ids ≠ index.map (·.1) then
          "bad-op fasta-and-fai-disagree"
        else if !(List.zip index seqs).all (fun e => wfCheck file e.1.2 e.2) then "bad-op not-wellformed"
        else
          let schedF : Nat → Nat := fun k => min (sched.getD (k % sched.length) 1) 8192
          let runs := out.splitOn "|"
          if runs.length ≠ cuts.length then "reject run-count" else
          let rec goRuns (i : Nat) (drift : Bool) (tags : List String) :
              List Nat → List String → String
            | [], _ | _, [] =>
              let nt := tags.contains "multiline"
              "ok" ++ (if nt then " nt" else "") ++ (if drift then " drift" else "")
                ++ (if file.contains 13 then " crlf" else " lf")
                ++ (if cuts.any (· < file.length) then " trunc" else "")
                ++ (if file.length > 8192 then " big" else "")
                ++ (if sched.all (· = 1) then " sched1" else "")
                ++ String.join (tags.reverse.map (" " ++ ·))
            | n :: ns, r :: rs =>
              if n > file.length then "bad-op cut-beyond-file" else
              let c : Ctx := ⟨file.take n, schedF, index, seqs, decide (n < file.length)⟩
              let obs := r.splitOn ";"
              if obs.length ≠ ops.length then "reject run" ++ toString i ++ "-observation-count" else
              match runOps c ops obs with
              | (some rej, _, _) => "reject " ++ rej ++ " run" ++ toString i ++ " cut" ++ toString n
              | (none, d, t) => goRuns (i + 1) (drift || d)
                  (t.foldl (fun acc x => if acc.contains x then acc else x :: acc) tags) ns rs
          goRuns 0 false [] cuts runs
      | _, _, _, _ => "bad-op parse"
    | _, _, _, _ => "bad-op parse"
  | _ => "bad-op arity"

end RbV.Drv.C12
