import RbV.Basic.Codec
import RbV.Basic.FloatParse
import RbV.Model.Hmm
/-! Driver for property C14: HMM decoding and likelihoods.

`c14 <kind> d:<d> init:<k,…> trans:<row;row;…> emit:<row;row;…> end:<k,…|x> obs:<o,…>
     => vit:<s,…>:<ln p> fwd:<ln p> bwd:<ln p>`

`kind` = `plain` (`discrete_emission::Model`) | `optnone` (`discrete_emission_opt_end::Model`, `end = None`) |
`optend` (… with the end vector given).  All probabilities are `k/d`; the harness hands `k as f64 / d as f64` to
`with_float`.  The driver evaluates the exact models of `RbV/Model/Hmm.lean` (numerators over the common
denominator `d^(2T)` resp. `d^(2T+1)` with an end vector) and compares:

* forward / backward: `exp(ln p)` within relative 1e-3 of the exact likelihood (proved = Σ over all paths);
  exact likelihood 0 ⇒ the observation must be `-inf`;
* Viterbi: the returned path must have the right length and states `< S`; its exact joint weight must equal
  the exact maximum (`viterbiE`, proved = max over all paths) or be within 1e-9 relative of it; the reported
  value must be within 1e-9 relative of the exact joint weight of the returned path (`-inf` iff that is 0);
* likelihood ≥ Viterbi probability (with the 1e-3 slack of the fast exponential);
* NaN, +inf, a panic or a hang are violations.

The code mirror `viterbi` (matrices without end term, end term on the last column iff the model declares an
end vector, traceback with the last maximum winning) is evaluated as well: its value must equal the oracle's
(theorem `viterbi_code_value_eq_max`; a mismatch is a driver defect, `bad-op`); a returned path that differs from
the mirror's path is the tag `drift` (a tie resolved differently in f64), never a violation.  Any deviation on a
model with an end vector is a plain violation (`viterbi-path-not-optimal`, `viterbi-value`, …) — the former
special classification of the repaired defect C14-viterbi-ignores-end is gone.  Tag `endflip`: the end term
changes the arg-max (the path the algorithm returns *without* the end term is not optimal with it) — the
regression guard for that defect; `endflip-prefix` when the two paths differ before the last state as well. -/
namespace RbV.Drv.C14
open RbV.Codec RbV.FloatParse RbV.Hmm

structure Case where
  kind : String
  d : Nat
  S : Nat
  M : Nat
  init : List Nat
  trans : List (List Nat)
  emit : List (List Nat)
  fin : Option (List Nat)
  obs : List Nat

def fieldVal (tok key : String) : Option String :=
  match field tok with
  | some (k, v) => if k = key then some v else none
  | none => none

def parseRows (s : String) : Option (List (List Nat)) := parseListNE parseNatList s ';'

def parseCase (toks : List String) : Option Case :=
  match toks with
  | [kind, td, ti, tt, te, tf, to] => do
    let d ← (fieldVal td "d") >>= parseNat
    let init ← (fieldVal ti "init") >>= parseNatList
    let trans ← (fieldVal tt "trans") >>= parseRows
    let emit ← (fieldVal te "emit") >>= parseRows
    let fs ← fieldVal tf "end"
    let fin ← if fs = "x" then some none else (parseNatList fs).map some
    let obs ← (fieldVal to "obs") >>= parseNatList
    let S := init.length
    let M := (emit.headD []).length
    if d = 0 || S = 0 || M = 0 || obs.isEmpty then none
    else if trans.length ≠ S || trans.any (·.length ≠ S) then none
    else if emit.length ≠ S || emit.any (·.length ≠ M) then none
    else if obs.any (· ≥ M) then none
    else if (init ++ trans.flatten ++ emit.flatten).any (· > d) then none
    else if !(kind = "plain" || kind = "optnone" || kind = "optend") then none
    else if (kind = "optend") != fin.isSome then none
    else match fin with
      | some f => if f.length ≠ S || f.any (· > d) then none else some ⟨kind, d, S, M, init, trans, emit, fin, obs⟩
      | none => some ⟨kind, d, S, M, init, trans, emit, fin, obs⟩
  | _ => none

def Case.model (c : Case) : Hmm :=
  { S := c.S
    init := fun s => c.init.getD s 0
    trans := fun a b => (c.trans.getD a []).getD b 0
    emit := fun s o => (c.emit.getD s []).getD o 0
    fin := match c.fin with
      | some f => fun s => f.getD s 0
      | none => fun _ => 1
    hasEnd := c.fin.isSome }

/-- natural logarithm of a positive natural number of any size (numbers beyond the `f64` range are scaled by a power of
two first; 64 leading bits are more than the 53 a float keeps) -/
def lnNat (n : Nat) : Float :=
  let k := n.log2
  if k < 1000 then Float.log (Float.ofNat n)
  else Float.log (Float.ofNat (n >>> (k - 64))) + Float.ofNat (k - 64) * Float.log 2.0

/-- value of a numerator over `d^e` as a float; long observation sequences make both numbers exceed the `f64` range
(`10^700`), then the quotient is formed in log space -/
def ratio (num d e : Nat) : Float :=
  let den := d ^ e
  if num.log2 < 1000 && den.log2 < 1000 then Float.ofNat num / Float.ofNat den
  else if num = 0 then 0.0
  else Float.exp (lnNat num - lnNat den)

/-- does the reported log value `ln` stand for the exact weight `num / d^e` (relative tolerance `tol`)? -/
def valueOk (ln : Float) (num d e : Nat) (tol : Float) : Bool :=
  if num = 0 then isNegInf ln else
  let le := lnNat num - lnNat (d ^ e)
  -- weights near or below the smallest normal `f64` (long sequences): `exp` loses the relative precision the tolerance
  -- speaks about, so the same relative tolerance is applied as an absolute one in log space
  if le < -600.0 then (ln - le).abs ≤ tol + 1e-9
  else relClose (Float.exp ln) (ratio num d e) tol

/-- is the exact weight `w` maximal (`= vmax`) up to 1e-9 relative? -/
def nearMax (w vmax : Nat) : Bool :=
  -- both numbers scaled by the same power of two when they exceed the `f64` range (otherwise `inf ≤ inf` would accept anything)
  let sh := if vmax.log2 < 1000 then 0 else vmax.log2 - 64
  w = vmax || (w ≤ vmax && Float.ofNat ((vmax - w) >>> sh) ≤ 1e-9 * Float.ofNat (vmax >>> sh))

def parseObs (out : String) : Option (List Nat × Float × Float × Float) :=
  match out.splitOn " " with
  | [v, f, b] =>
    match v.splitOn ":", f.splitOn ":", b.splitOn ":" with
    | ["vit", p, lv], ["fwd", lf], ["bwd", lb] => do
      let p ← parseNatList p
      let lv ← parseFloat lv
      let lf ← parseFloat lf
      let lb ← parseFloat lb
      pure (p, lv, lf, lb)
    | _, _, _ => none
  | _ => none

def verdict (toks : List String) (out : String) : String :=
  match parseCase toks with
  | none => "bad-op parse"
  | some c =>
    if out.startsWith "PANIC" || out.startsWith "HANG" || out.startsWith "CRASH" then
      "reject " ++ (out.replace " " "_") else
    match parseObs out with
    | none => "bad-op output"
    | some (path, lv, lf, lb) =>
      let m := c.model
      let T := c.obs.length
      let e := if c.fin.isSome then 2 * T + 1 else 2 * T
      let lik := forward m c.obs
      -- self-checks of the driver's models (theorems forward_eq_backward, backwardLit_eq): never expected to fire
      if backward m c.obs ≠ lik || backwardLit m c.obs ≠ lik then "bad-op model-inconsistent" else
      let vE := viterbiE m c.obs
      if lv.isNaN || lf.isNaN || lb.isNaN then "reject nan" else
      if isPosInf lv || isPosInf lf || isPosInf lb then "reject plus-inf" else
      if !valueOk lf lik c.d e 1e-3 then
        s!"reject forward-value exact={fshow (ratio lik c.d e)} got={fshow (Float.exp lf)}" else
      if !valueOk lb lik c.d e 1e-3 then
        s!"reject backward-value exact={fshow (ratio lik c.d e)} got={fshow (Float.exp lb)}" else
      if path.length ≠ T || path.any (· ≥ c.S) then "reject viterbi-path-shape" else
      let jp := joint m c.obs path
      let pathOpt := nearMax jp vE.2
      let valOk := valueOk lv jp c.d e 1e-9
      let vm := viterbi m c.obs
      -- self-check (theorem viterbi_code_value_eq_max): never expected to fire
      if vm.2 ≠ vE.2 then "bad-op model-inconsistent-viterbi" else
      if !pathOpt then
        s!"reject viterbi-path-not-optimal joint={fshow (ratio jp c.d e)} max={fshow (ratio vE.2 c.d e)} reported={fshow (Float.exp lv)}" else
      if !valOk then
        s!"reject viterbi-value joint-of-path={fshow (ratio jp c.d e)} reported={fshow (Float.exp lv)}" else
      if !(Float.exp lv ≤ Float.exp lf * (1.0 + 2e-3)) then
        s!"reject likelihood-below-viterbi vit={fshow (Float.exp lv)} fwd={fshow (Float.exp lf)}" else
      let nt := T ≥ 2 && c.S ≥ 2 && lik > 0
      let tags := (if nt then " nt" else "") ++ " " ++ c.kind ++ s!" S{c.S} T{if T ≥ 3 then "3+" else toString T}"
        ++ (if lik = 0 then " impossible" else "")
        ++ (if path ≠ vm.1 then " drift" else "")
        ++ (if jp ≠ vE.2 then " near-tie" else "")
        ++ (if c.d = 1 then " zero-one" else "")
        ++ (if T ≥ 50 then " long" else "")
        ++ (if T ≥ 50 && (c.trans.zipIdx.all fun (r, i) => r.zipIdx.all fun (k, j) => i = j || k * 5 ≤ c.d)
              then " farapart" else "")
        ++ (if c.fin.isSome then
              -- what the algorithm returns when the end term is left out (the repaired defect)
              let p0 := (viterbi m.noEnd c.obs).1
              if joint m c.obs p0 < vE.2 then
                (if p0.dropLast ≠ vm.1.dropLast then " endflip endflip-prefix" else " endflip")
              else ""
            else "")
      "ok" ++ tags

end RbV.Drv.C14
