import RbV.Basic.Codec
import RbV.Ref.Smem
import RbV.Model.FMDExt
import RbV.Model.Smems
import RbV.Model.LFSortedCheck
import RbV.Ref.SA
/-! Driver for property C06: FMD-index.

`c06 smems <s1>/<s2>/… k:<rate> l:<l> <pattern> => <sa> <smems(p,0,l)>/…/<smems(p,|p|-1,l)> <all_smems(p,l)>`
`c06 ext <s1>/<s2>/… k:<rate> <chain>/… => <sa> <chain>/…`        (see `harness/src/c06.rs` for the grammar)

The text is rebuilt here from the sequences with the spec's own `revcomp` (`fmdText`), so the run also ties the
construction `s $ revcomp(s) $` to the specification.  Verdicts come from `checkSmems`, `checkAllSmems`, `checkBi`
(theorems `RbV.Thm.C06.checkSmems_iff`, `checkAllSmems_iff`, `checkBi_iff`). -/
namespace RbV.Drv.C06
open RbV.Codec RbV

def parseSmem (s : String) : Option SmemObs :=
  match (s.splitOn ":").mapM parseNat with
  | some [b, len, flo, fhi, rlo, rhi] => some ⟨b, len, flo, fhi, rlo, rhi⟩
  | _ => none

def parseBi (s : String) : Option BiObs :=
  match (s.splitOn ":").mapM parseNat with
  | some [flo, fhi, rlo, rhi] => some ⟨flo, fhi, rlo, rhi⟩
  | _ => none

def parseSmemList (s : String) : Option (List SmemObs) := parseList parseSmem s ';'

def showPairs (l : List (Nat × Nat)) : String :=
  if l.isEmpty then "-" else ";".intercalate (l.map fun (b, n) => toString b ++ ":" ++ toString n)

def tagIf (b : Bool) (s : String) : String := if b then " " ++ s else ""

def isDna (c : Nat) : Bool := [65, 67, 71, 84, 78, 97, 99, 103, 116, 110].contains c

/-- first position `i` whose result is not accepted -/
def firstBadI (T sa p : List Nat) (l : Nat) (all : List (Nat × Nat)) : List (List SmemObs) → Nat → Option String
  | r :: rs, i =>
    let exp := all.filter (fun x => decide (x.1 ≤ i) && decide (i < x.1 + x.2) && decide (l ≤ x.2))
    if checkAgainst T sa p exp r then firstBadI T sa p l all rs (i + 1)
    else some ("smems-i=" ++ toString i ++ (if sameSetG (keys r) exp then ":interval" else ":set expected:" ++ showPairs exp))
  | [], _ => none

/-! ### the mirror model of Li's sweep (`RbV/Model/Smems.lean`) next to the implementation

`less` / `occ` are tabulated once per line (prefix counts of the BWT of the printed array for the eleven symbols of
the loop's order string, prefix sums of the symbol histogram), so that a sweep costs array look-ups only.  The
tables hold the values of `LF.lessRef` / `LF.occRef`. -/

def prefixCounts (bwt : Array Nat) (b : Nat) : Array Nat := Id.run do
  let mut out := Array.mkEmpty (bwt.size + 1)
  let mut c := 0
  out := out.push 0
  for x in bwt do
    if x = b then c := c + 1
    out := out.push c
  return out

def occTable (bwt : Array Nat) : Array (Nat × Array Nat) :=
  (FMDModel.order.map (fun b => (b, prefixCounts bwt b))).toArray

/-- `occ(r, b)` = number of `b` in `bwt[0..=r]` -/
def occFast (tab : Array (Nat × Array Nat)) (n : Nat) (r b : Nat) : Nat :=
  match tab.find? (fun e => e.1 == b) with
  | some e => e.2.getD (min (r + 1) n) 0
  | none => 0

/-- `less(a)` for `a ≤ 256`: prefix sums of the histogram -/
def lessTable (bwt : Array Nat) : Array Nat := Id.run do
  let mut hist := Array.replicate 257 0
  for x in bwt do
    if x < 257 then hist := hist.modify x (· + 1)
  let mut out := Array.mkEmpty 258
  let mut c := 0
  for h in hist do
    out := out.push c
    c := c + h
  return out.push c

def lessFast (tab : Array Nat) (n : Nat) (a : Nat) : Nat := if a < tab.size then tab.getD a 0 else n

/-- table of `SmemModel.cnt T p b e` for `b < e ≤ |p|` (entry `b·(|p|+1)+e`), built by refining the occurrence
positions of `p[b..e)` symbol by symbol -/
def cntTable (T p : Array Nat) : Array Nat := Id.run do
  let m := p.size
  let mut tab := Array.replicate ((m + 1) * (m + 1)) 0
  for b in [0:m] do
    let mut pos : Array Nat := Array.range T.size
    for e in [b + 1:m + 1] do
      pos := pos.filter (fun q => T.getD (q + (e - 1 - b)) 1000 == p.getD (e - 1) 0)
      tab := tab.setIfInBounds (b * (m + 1) + e) pos.size
  return tab

/-- does the mirror model of `smems` / `all_smems`, run on `less` / `occ` of the printed array, return exactly the
implementation's lists (same matches, same bi-intervals, same order), and does the string-level model return the
same (position, length) pairs? -/
def sweepAgrees (T sa p : List Nat) (l : Nat) (perI : List (List SmemObs)) (all : List SmemObs) : Bool :=
  let bwt := (LF.bwtOf T sa).toArray
  let ot := occTable bwt
  let lt := lessTable bwt
  let ops := SmemModel.biOps (lessFast lt bwt.size) (occFast ot bwt.size)
  let ct := cntTable T.toArray p.toArray
  let sops := SmemModel.strOps (fun b e => ct.getD (b * (p.length + 1) + e) 0)
  let pl (hs : List (SmemModel.Hit (Nat × Nat))) : List (Nat × Nat) := hs.map (fun h => (h.pos, h.len))
  let okI := (List.range p.length).zip perI |>.all (fun (i, r) =>
    (SmemModel.smems ops p i l).map SmemModel.hitObs == r && pl (SmemModel.smems sops p i l) == keys r)
  okI && (SmemModel.allSmems ops p l).map SmemModel.hitObs == all && pl (SmemModel.allSmems sops p l) == keys all

def smemsVerdict (seqs : List (List Nat)) (k l : Nat) (p : List Nat) (out : String) : String :=
  let T := fmdText seqs
  match out.splitOn " " with
  | [sas, per, alls] =>
    match parseNatList sas, parseListNE parseSmemList per '/', parseSmemList alls with
    | some sa, some perI, some all =>
      if sa.length ≠ T.length then "reject suffix-array-length" else
      if perI.length ≠ p.length then "reject arity" else
      let ref := allSmemsRef T p
      -- `smemsRef T p i l` is by definition this filter of `allSmemsRef T p`; computed once per line
      match firstBadI T sa p l ref perI 0 with
      | some r => "reject " ++ r
      | none =>
        if !checkAllSmems T sa p l all then
          "reject all_smems" ++ (if sameSetG (keys all) (allSmemsMin T p l) then ":interval"
            else ":set expected:" ++ showPairs (allSmemsMin T p l))
        else
          let refl := ref.filter (fun x => decide (l ≤ x.2))
          let covered := (List.range p.length).all (fun i => ref.any (fun x => decide (x.1 ≤ i) && decide (i < x.1 + x.2)))
          "ok" ++ tagIf (refl.length ≥ 2 || refl.any (fun x => x.2 ≥ 2)) "nt"
            ++ tagIf (refl.length ≥ 2) "several" ++ tagIf refl.isEmpty "none" ++ tagIf (!covered) "gap"
            ++ tagIf (ref.length > refl.length) "l-filters" ++ tagIf (all.length > refl.length) "dup-in-all"
            ++ tagIf (refl.any (fun x => x.2 = p.length)) "whole"
            ++ tagIf (p.any (fun c => c = 78 || c = 110)) "N" ++ tagIf (p.any (· ≥ 97)) "lower"
            ++ tagIf (seqs.length ≥ 2) "multi" ++ tagIf (k > 64) "k>64" ++ tagIf (k ≤ 64) "k<=64"
            ++ tagIf (perI.any (fun r => r.any (fun o => o.fhi - o.flo ≥ 2))) "multi-occ"
            ++ (if sweepAgrees T sa p l perI all then " smems-model=impl" else " drift-smems")
            -- some `pattern[i]` does not occur: `smems` extends the empty `init_interval_with(pattern[i])`
            ++ tagIf (p.any (fun c => !T.contains c)) "dead-start"
            -- the decidable hypotheses of `smems_bi_model_correct` / `…_of_checkSA` on this case
            ++ (if LF.sortedAllB T sa then " lf-sorted" else " not-lf-sorted")
            ++ (if checkSA T sa then " c03-accepts-sa" else " c03-rejects-sa")
    | _, _, _ => "bad-op output"
  | _ => "bad-op output-arity"

structure Chain where
  emptyStart : Bool
  firstForward : Bool
  w : List Nat
  j : Nat
  dirs : List Char

def parseChain (s : String) : Option Chain :=
  match s.splitOn ":" with
  | [m, w, j, d] => do
      let w ← parseHex w
      let j ← parseNat j
      let ds := if d = "-" then [] else d.toList
      if m = "e" then
        match ds with
        | d0 :: rest => pure ⟨true, d0 = 'f', w, j, rest⟩
        | [] => none
      else if m = "w" then pure ⟨false, false, w, j, ds⟩ else none
  | _ => none

/-- the strings a chain builds: w[j..j+1], then one per direction letter -/
def chainStrings (w : List Nat) : Nat → Nat → List Char → List (List Nat)
  | lo, hi, [] => [sub w lo (hi - lo)]
  | lo, hi, c :: cs =>
    sub w lo (hi - lo) :: (if c = 'f' then chainStrings w lo (hi + 1) cs else chainStrings w (lo - 1) hi cs)

/-- check the reported steps against the strings; the chain must stop exactly after the first empty bi-interval -/
def checkChain (T sa : List Nat) : List (List Nat) → List BiObs → Option String
  | [], [] => none
  | [], _ :: _ => some "too-many-steps"
  | _ :: _, [] => some "too-few-steps"
  | w :: ws, o :: os =>
    if !checkBi T sa w o then some ("bi-interval-of:" ++ toHex w ++ ":occ=" ++ showNatList (occurrences w T)) else
    if o.fhi = o.flo then (if os.isEmpty then none else some "steps-after-empty") else checkChain T sa ws os

/-- the bi-intervals the mirror model produces for a chain (stops after the first empty one, like the harness) -/
def modelChain (less : Nat → Nat) (occ : Nat → Nat → Nat) (n : Nat) (c : Chain) : List BiObs :=
  let toObs (iv : FMDModel.Bi) : BiObs := ⟨iv.lower, iv.lower + iv.size, iv.lowerRev, iv.lowerRev + iv.size⟩
  let start : FMDModel.Bi :=
    if c.emptyStart then
      (if c.firstForward then FMDModel.forwardExt less occ (FMDModel.initInterval n) (c.w.getD c.j 0)
       else FMDModel.backwardExt less occ (FMDModel.initInterval n) (c.w.getD c.j 0))
    else FMDModel.initIntervalWith less (c.w.getD c.j 0)
  let rec go (iv : FMDModel.Bi) (lo hi : Nat) : List Char → List BiObs
    | [] => [toObs iv]
    | d :: ds =>
      if iv.size = 0 then [toObs iv] else
      if d = 'f' then toObs iv :: go (FMDModel.forwardExt less occ iv (c.w.getD hi 0)) lo (hi + 1) ds
      else toObs iv :: go (FMDModel.backwardExt less occ iv (c.w.getD (lo - 1) 0)) (lo - 1) hi ds
  go start c.j (c.j + 1) c.dirs

def firstBadChain (T sa : List Nat) : List Chain → List (List BiObs) → Nat → Option String
  | c :: cs, r :: rs, n =>
    match checkChain T sa (chainStrings c.w c.j (c.j + 1) c.dirs) r with
    | some e => some ("chain#" ++ toString n ++ ":" ++ e)
    | none => firstBadChain T sa cs rs (n + 1)
  | _, _, _ => none

def extVerdict (seqs : List (List Nat)) (k : Nat) (chains : List Chain) (out : String) : String :=
  let T := fmdText seqs
  match out.splitOn " " with
  | [sas, rs] =>
    match parseNatList sas, parseListNE (fun s => parseListNE parseBi s ';') rs '/' with
    | some sa, some res =>
      if sa.length ≠ T.length then "reject suffix-array-length" else
      if res.length ≠ chains.length then "reject arity" else
      match firstBadChain T sa chains res 0 with
      | some r => "reject " ++ r
      | none =>
        let steps := res.foldl (fun a r => a + r.length) 0
        let bwt := LF.bwtOf T sa
        let agrees := (chains.zip res).all (fun (c, r) => modelChain (LF.lessRef bwt) (LF.occRef bwt) sa.length c == r)
        "ok" ++ (if agrees then " model=impl" else " drift")
          ++ (if LF.sortedAllB T sa then " lf-sorted" else " not-lf-sorted") ++ tagIf (res.any (fun r => r.length ≥ 3)) "nt"
          ++ tagIf (chains.any (·.emptyStart)) "from-empty"
          ++ tagIf (res.any (fun r => r.any (fun o => o.fhi = o.flo))) "reaches-empty"
          ++ tagIf (res.any (fun r => r.any (fun o => o.fhi - o.flo ≥ 2))) "multi-occ"
          ++ tagIf (chains.any (fun c => c.dirs.contains 'f' && c.dirs.contains 'b')) "both-dirs"
          ++ tagIf (chains.any (fun c => c.w.any (· ≥ 97))) "lower"
          ++ tagIf (chains.any (fun c => c.w.any (fun x => x = 78 || x = 110))) "N"
          ++ tagIf (k > 64) "k>64" ++ tagIf (steps ≥ 20) "steps>=20"
    | _, _ => "bad-op output"
  | _ => "bad-op output-arity"

def wellFormedChain (c : Chain) : Bool :=
  !c.w.isEmpty && c.j < c.w.length && c.w.all isDna &&
  (c.dirs.filter (· = 'f')).length = c.w.length - 1 - c.j && (c.dirs.filter (· = 'b')).length = c.j &&
  c.dirs.all (fun d => d = 'f' || d = 'b')

def verdict (toks : List String) (out : String) : String :=
  let failed := out.startsWith "PANIC" || out.startsWith "HANG" || out.startsWith "CRASH"
  match toks with
  | ["smems", ss, k, l, ph] =>
    match parseListNE parseHex ss '/', field k, field l, parseHex ph with
    | some seqs, some ("k", kv), some ("l", lv), some p =>
      match parseNat kv, parseNat lv with
      | some kN, some lN =>
        if lN = 0 || p.isEmpty || !p.all isDna || !seqs.all (·.all isDna) then "bad-op precondition" else
        if failed then "reject " ++ out else smemsVerdict seqs kN lN p out
      | _, _ => "bad-op numbers"
    | _, _, _, _ => "bad-op parse"
  | ["ext", ss, k, cs] =>
    match parseListNE parseHex ss '/', field k, parseListNE parseChain cs '/' with
    | some seqs, some ("k", kv), some chains =>
      match parseNat kv with
      | some kN =>
        if !chains.all wellFormedChain || !seqs.all (·.all isDna) then "bad-op precondition" else
        if failed then "reject " ++ out else extVerdict seqs kN chains out
      | none => "bad-op numbers"
    | _, _, _ => "bad-op parse"
  | _ => "bad-op arity"

end RbV.Drv.C06
