import RbV.Basic.Codec
import RbV.Ref.NW
import RbV.Ref.PoaCheck
import RbV.Ref.PoaAccept
import RbV.Model.Poa
import RbV.Model.PoaBanded
import RbV.Model.PoaCustom
import RbV.Model.PoaI32
/-! Driver for property C16 (partial-order alignment).

`c16 <gap>:<xp>:<xs>:<yp>:<ys> <alphabet> <table> <reference> <step>/… => g:<labels>:<edges> c:<cons> | [b:<sc>] s:<sc> o:<ops> [g:… c:…] | …`
(see `harness/src/c16.rs` for the format).

Clauses decided here, all with the proved functions of `RbV/Ref`:
* score clause — while the graph is the one built from the reference alone (no addition yet, or still the
  chain `0→1→…` with the reference's labels): a `global` alignment must be accepted by `acceptGlobal`
  (operations = valid global alignment, recomputed score = reported score = `nwFast` = optimum); a
  `global_banded` run with bandwidth ≥ both lengths (clip penalties at their default) must report the same score;
* graph clauses — after every `add_to_graph`, whatever the alignment mode: well-formed, `isAcyclic`,
  `extendsB` (labels kept, no edge lost or lighter), node growth ≤ |query|, consensus non-empty and `spelledB`;
* identity clause — only for histories that consist of global re-additions of the reference under a scheme
  whose unique optimum is the identity alignment (one match score M > 0, every mismatch < M, gap < 0):
  labels and consensus stay equal to the reference.
Nothing is asserted about scores or operations of `semiglobal`/`local`/`custom`/narrow bands.

The mirror model `RbV/Model/Poa.lean` is evaluated alongside: `global` DP + traceback on the current graph,
`add_alignment` on the observed operations (every mode), `consensus` on every dump, `chainScore`
(proved equal to the optimum) on the linear graph, and `bandedScore` (`RbV/Model/PoaBanded.lean`, any
bandwidth, configured clip penalties) against every score `global_banded` reports.  Differences are tags `drift-*`, never violations. -/
namespace RbV.Drv.C16
open RbV.Codec RbV.NW RbV.Poa

def minScore : Int := RbV.Gen.Limits.minScorePoa

structure Step where
  mode : String
  query : List Nat
  bw : Nat
  add : Bool

structure Dump where
  labels : List Nat
  wes : List (Nat × Nat × Int)

def parseStep (s : String) : Option Step :=
  match s.splitOn ":" with
  | [m, q, b, a] => do
    let q ← parseHex q
    let b ← parseNat b
    if !(["g", "b", "s", "l", "c"].contains m) then none
    let add ← if a = "a" then some true else if a = "n" then some false else none
    pure { mode := m, query := q, bw := b, add := add }
  | _ => none

def parseEdge (s : String) : Option (Nat × Nat × Int) :=
  match s.splitOn "." with
  | [u, v, w] => do
    let u ← parseNat u
    let v ← parseNat v
    let w ← parseInt w
    pure (u, v, w)
  | _ => none

def parseDump (s : String) : Option Dump :=
  match s.splitOn ":" with
  | [l, e] => do
    let l ← parseHex l
    let e ← parseList parseEdge e
    pure { labels := l, wes := e }
  | _ => none

def parseOp (s : String) : Option POp :=
  match s.toList with
  | [] => none
  | c :: rest =>
    let r := String.ofList rest
    let nums : Option (List Nat) := if r = "" then some [] else (r.splitOn ".").mapM parseNat
    match c, nums with
    | 'M', some [] => some (.m none)
    | 'M', some [p, q] => some (.m (some (p, q)))
    | 'D', some [] => some (.d none)
    | 'D', some [p, q] => some (.d (some (p, q)))
    | 'I', some [] => some (.i none)
    | 'I', some [p] => some (.i (some p))
    | 'X', some [r] => some (.x r)
    | 'Y', some [a, b] => some (.y a b)
    | _, _ => none

structure Grp where
  b : Option String := none
  s : Option String := none
  o : Option String := none
  g : Option String := none
  c : Option String := none

def parseGrp (s : String) : Option Grp :=
  ((s.splitOn " ").filter (· ≠ "")).foldlM (init := ({} : Grp)) fun g tok =>
    match field tok with
    | some ("b", v) => some { g with b := some v }
    | some ("s", v) => some { g with s := some v }
    | some ("o", v) => some { g with o := some v }
    | some ("g", v) => some { g with g := some v }
    | some ("c", v) => some { g with c := some v }
    | _ => none

def mkSc (alpha : List Nat) (table : List Int) (gap : Int) : Sc :=
  { w := fun a b => table.getD (alpha.idxOf a * alpha.length + alpha.idxOf b) 0, gap := gap }

/-- one match score M > 0 on the diagonal, everything else below M, gap < 0: the identity alignment of a
sequence with itself is then the unique optimum -/
def uniqueOpt (k : Nat) (table : List Int) (gap : Int) : Bool :=
  let m := table.getD 0 0
  decide (m > 0) && decide (gap < 0) &&
  (List.range (k * k)).all fun i =>
    let t := table.getD i 0
    if i / k = i % k then t == m else decide (t < m)

def isChain (d : Dump) : Bool :=
  plain d.wes == (List.range (d.labels.length - 1)).map fun i => (i, i + 1)

def hasGapOrClip (ops : List POp) : Bool :=
  ops.any fun o => match o with | .m _ => false | _ => true

def hasClip (ops : List POp) : Bool :=
  ops.any fun o => match o with | .x _ => true | .y _ _ => true | _ => false

structure St where
  cur : Dump
  noAdds : Bool := true
  onlyIdentity : Bool := true     -- every addition so far: global, query = reference
  stopped : Bool := false
  fails : List String := []
  soft : List String := []        -- the recorded edgeless-consensus defect, reported last
  tags : List String := []
  nt : Bool := false
  bad : Option String := none

def St.fail (st : St) (m : String) : St := { st with fails := st.fails ++ [m] }
def St.tag (st : St) (t : String) : St := if st.tags.contains t then st else { st with tags := st.tags ++ [t] }

/-- consensus clause on graph `d` -/
def checkCons (st : St) (d : Dump) (c : String) (at_ : String) : St :=
  let mc := match Model.consensus d.labels d.wes with | none => "PANIC" | some w => toHex w
  let st := if mc ≠ c then st.tag "drift-consensus" else st
  if c = "PANIC" then
    if d.wes.isEmpty then { st with soft := st.soft ++ ["consensus-panic-on-graph-without-edges step=" ++ at_] }
    else st.fail ("consensus-panic step=" ++ at_)
  else match parseHex c with
    | none => { st with bad := some "consensus" }
    | some w =>
      if w.isEmpty then st.fail ("consensus-empty step=" ++ at_)
      else if !spelledB d.labels (plain d.wes) w then st.fail ("consensus-not-a-path step=" ++ at_)
      else st

def fullBand (st : Step) (m : Nat) : Bool := st.bw ≥ m && st.bw ≥ st.query.length

/-- tag of a full band: exactly at the boundary `bandwidth = max(#nodes, |query|)` of the clause, one above, wider -/
def bandTag (st : Step) (m : Nat) : String :=
  let mx := max m st.query.length
  if st.bw = mx then "band=max-len" else if st.bw = mx + 1 then "band=max-len+1" else "band>max-len+1"

def stepCheck (sc : Sc) (xp xs yp ys : Int) (clipsDefault uniq : Bool) (ref : List Nat) (st : St) (idx : Nat) (sp : Step) (g : Grp) : St :=
  if st.stopped || st.bad.isSome then st else
  let at_ := toString idx
  let st := st.tag ("mode-" ++ sp.mode)
  let linear := st.noAdds || (isChain st.cur && st.cur.labels == ref)
  let m := st.cur.labels.length
  match g.s with
  | none => { st with bad := some "no-score" }
  | some "PANIC" =>
    let promised := sp.mode = "g" || (sp.mode = "b" && fullBand sp m && clipsDefault)
    let st := { st with stopped := true }
    if promised then st.fail ("panic-in-alignment step=" ++ at_) else st.tag "panic-unpromised-mode"
  | some sstr =>
  match parseInt sstr, g.o.bind (parseList parseOp) with
  | some s, some ops =>
    -- score clause
    let st :=
      if linear && sp.mode = "g" then
        let x := st.cur.labels
        let nw := nwFast sc x sp.query
        let st := st.tag "lin-global"
        let st := if Model.chainScore sc x sp.query ≠ s then st.tag "drift-chain-score" else st
        let st := if x.length ≥ 2 && sp.query.length ≥ 2 && hasGapOrClip ops then { st with nt := true } else st
        let st := if hasGapOrClip ops then st.tag "lin-gapped" else st
        let st :=
          if s ≠ nw then st.fail ("score step=" ++ at_ ++ " optimum=" ++ toString nw ++ " reported=" ++ toString s)
          else if acceptGlobal sc x sp.query ops s then st
          else match toMoves 0 ops with
            | none => st.fail ("operations-not-a-global-alignment step=" ++ at_)
            | some mv => st.fail ("operations-score step=" ++ at_ ++ " recomputed=" ++
                (match score sc x sp.query mv with | some v => toString v | none => "invalid") ++ " reported=" ++ toString s)
        match g.b with
        | none => st
        | some "PANIC" => if fullBand sp m && clipsDefault then st.fail ("panic-in-banded step=" ++ at_) else st
        | some bs =>
          match parseInt bs with
          | none => { st with bad := some "banded-score" }
          | some b =>
            if fullBand sp m then
              if clipsDefault then
                let st := (st.tag "lin-banded-full").tag (bandTag sp m)
                if b ≠ s then st.fail ("banded-score step=" ++ at_ ++ " banded=" ++ toString b ++ " global=" ++ toString s) else st
              else if b ≠ s then st.tag "banded-with-clip-penalties-differs" else st
            else st
      else if linear && sp.mode = "b" && fullBand sp m && clipsDefault then
        let nw := nwFast sc st.cur.labels sp.query
        let st := (st.tag "lin-banded-full").tag (bandTag sp m)
        if s ≠ nw then st.fail ("banded-score step=" ++ at_ ++ " optimum=" ++ toString nw ++ " reported=" ++ toString s) else st
      else st
    let st :=
      if sp.mode = "g" then
        let (ms, mops) := Model.globalAlign sc st.cur.labels st.cur.wes sp.query
        let st := if ms ≠ s then st.tag "drift-global-score" else st
        let st := if mops ≠ ops then st.tag "drift-global-ops" else st
        -- the extra banded run of a `g` step against the model of `global_banded`
        match g.b.bind parseInt with
        | some b =>
          let st := if Model.bandedScore sc xp yp st.cur.labels st.cur.wes sp.query sp.bw ≠ b then st.tag "drift-banded-score"
            else st.tag "banded-model"
          -- `model_banded_full_band_equals_global`: bandwidth ≥ |query| suffices, on any DAG (cross-check on the real code)
          if clipsDefault && sp.bw ≥ sp.query.length then
            if b ≠ s then st.tag "band-covers-query-differs" else st.tag "band-covers-query-equal"
          else st
        | none => st
      else if sp.mode = "b" then
        let st := if Model.bandedScore sc xp yp st.cur.labels st.cur.wes sp.query sp.bw ≠ s then st.tag "drift-banded-score"
          else st.tag "banded-model"
        -- checked-`i32` mirror of `global_banded` (`poa_banded_i32_no_overflow`)
        let st := match Model.bandedScoreC sc xp yp st.cur.labels st.cur.wes sp.query sp.bw with
          | some b' => if b' = s then st.tag "i32-banded=impl" else st.tag "drift-i32-banded"
          | none => st.tag "drift-i32-overflow"
        let st := if Model.poaEnvB sc xp xs yp ys st.cur.labels sp.query then st.tag "poa-env" else st.tag "outside-poa-env"
        let st := if (Model.bandedTable sc xp yp st.cur.labels st.cur.wes sp.query sp.bw).ops st.cur.labels.length ≠ ops
          then st.tag "drift-banded-ops" else st
        if clipsDefault && sp.bw ≥ sp.query.length then
          if (Model.globalAlign sc st.cur.labels st.cur.wes sp.query).1 ≠ s then st.tag "band-covers-query-differs"
          else st.tag "band-covers-query-equal"
        else st
      else st
    -- the faithful model of `Poa::custom` (clip cells included), every mode that runs it
    let st :=
      if sp.mode = "b" then st else
      let clips : Int × Int × Int × Int :=
        if sp.mode = "g" then (minScore, minScore, minScore, minScore)
        else if sp.mode = "s" then (minScore, minScore, 0, 0)
        else if sp.mode = "l" then (0, 0, 0, 0)
        else (xp, xs, yp, ys)
      let (cs, cops) := Model.customAlign sc clips.1 clips.2.1 clips.2.2.1 clips.2.2.2 st.cur.labels st.cur.wes sp.query
      let st := if cs ≠ s then st.tag "drift-custom-score" else st.tag "custom-model"
      -- the checked-`i32` mirror (`Model/PoaI32.lean`, theorem `poa_i32_no_overflow`) against the implementation, and
      -- whether the step lies in the envelope `PoaEnv` of the theorem
      let st := match Model.customAlignC sc clips.1 clips.2.1 clips.2.2.1 clips.2.2.2 st.cur.labels st.cur.wes sp.query with
        | some (cs', cops') => if cs' = s && cops' == ops then st.tag "i32-custom=impl" else st.tag "drift-i32-custom"
        | none => st.tag "drift-i32-overflow"
      let st := if Model.poaEnvB sc clips.1 clips.2.1 clips.2.2.1 clips.2.2.2 st.cur.labels sp.query then st.tag "poa-env"
        else st.tag "outside-poa-env"
      -- how much of the envelope of the tie, (m + 2n + 1)·B < −MIN_SCORE, the step uses
      let pb := Model.poaBound sc st.cur.labels sp.query
      let used := ((st.cur.labels.length : Int) + 2 * sp.query.length + 1) * pb
      let st := if pb > 1000 then st.tag "bigscores" else st
      let st := if 2 * used ≥ -minScore then st.tag "env-upper-half" else st
      if cops ≠ ops then st.tag "drift-custom-ops" else st
    let st := if hasClip ops then st.tag "clip-ops" else st
    let st := if sp.mode = "b" && !fullBand sp m then st.tag "narrow-band" else st
    -- graph clauses
    if !sp.add then
      if g.g.isSome then { st with bad := some "unexpected-graph" } else st
    else
    match g.g, g.c with
    | some "PANIC", _ =>
      let st := { st with stopped := true }
      -- junk operation lists of narrow bands / clipping modes are outside what the property promises
      if sp.mode = "g" || (sp.mode = "b" && fullBand sp m && clipsDefault) then st.fail ("panic-in-add_to_graph step=" ++ at_)
      else st.tag "panic-unpromised-mode"
    | some gs, some cs =>
      match parseDump gs with
      | none => { st with bad := some "graph" }
      | some d =>
        let old := st.cur
        let n := d.labels.length
        let es := plain d.wes
        let st := st.tag "add"
        let mg := Model.addAlignment { labels := old.labels, es := old.wes } ops sp.query
        let st := if mg.labels ≠ d.labels || mg.es ≠ d.wes then st.tag "drift-add" else st
        let st := if Model.acyclicCert { labels := old.labels, es := old.wes } ops then st.tag "acyclic-cert"
          else st.tag "acyclic-cert-missing"
        let st := if n > old.labels.length then { (st.tag "grow") with nt := true } else st
        let st := if !isChain d then st.tag "branched" else st
        let st := if !wellFormedB n es then st.fail ("edge-endpoint-out-of-range step=" ++ at_)
          else if !isAcyclic n es then st.fail ("cycle step=" ++ at_) else st
        let st := if !extendsB old.labels old.wes d.labels d.wes then st.fail ("label-or-edge-lost step=" ++ at_) else st
        let st := if n > old.labels.length + sp.query.length then st.fail ("node-growth step=" ++ at_) else st
        let st := checkCons st d cs at_
        let ident := st.onlyIdentity && sp.mode = "g" && sp.query == ref
        let st := { st with onlyIdentity := ident, noAdds := false, cur := d }
        if ident && uniq then
          let st := st.tag "identity"
          let st := if d.labels ≠ ref then st.fail ("identity-readdition-changed-nodes step=" ++ at_) else st
          if cs ≠ "PANIC" && parseHex cs ≠ some ref then st.fail ("identity-readdition-consensus step=" ++ at_) else st
        else st
    | _, _ => { st with bad := some "no-graph-after-add" }
  | _, _ => { st with bad := some "score-or-ops" }

def verdict (toks : List String) (out : String) : String :=
  match toks with
  | [scs, alphas, tables, refs, stepss] =>
    match parseList parseInt scs ':', parseHex alphas, parseIntList tables, parseHex refs,
          parseList parseStep stepss '/' with
    | some [gap, xp, xs, yp, ys], some alpha, some table, some ref, some steps =>
      if out.startsWith "HANG" || out.startsWith "CRASH" || out.startsWith "PANIC" then "reject " ++ out else
      let k := alpha.length
      if table.length ≠ k * k || ref.isEmpty || steps.isEmpty then "bad-op input" else
      let sc := mkSc alpha table gap
      let clipsDefault := xp == minScore && xs == minScore && yp == minScore && ys == minScore
      let uniq := uniqueOpt k table gap
      match (out.splitOn " | ").mapM parseGrp with
      | none => "bad-op output-fields"
      | some [] => "bad-op output-empty"
      | some (g0 :: gs) =>
        match g0.g.bind parseDump, g0.c with
        | some d0, some c0 =>
          let st : St := { cur := d0 }
          let st := if d0.labels ≠ ref then st.fail "initial-labels" else st
          let st := if !isChain d0 then st.tag "initial-graph-not-a-chain" else st
          let st := checkCons st d0 c0 "init"
          let st := if ref.length = 1 then st.tag "ref1" else st
          let st := if gap == 0 then st.tag "gap0" else st
          let st := if uniq then st.tag "uniq-scheme" else st
          let st := if !clipsDefault then st.tag "clip-penalties" else st
          if gs.length > steps.length then "bad-op more-groups-than-steps" else
          let st := ((steps.zip gs).zipIdx).foldl (fun st ((sp, g), i) => stepCheck sc xp xs yp ys clipsDefault uniq ref st i sp g) st
          match st.bad with
          | some b => "bad-op " ++ b
          | none =>
            if gs.length < steps.length && !st.stopped then "bad-op fewer-groups-than-steps" else
            match st.fails ++ st.soft with
            | f :: _ =>
              if f.startsWith "score " then "diff " ++ f else "reject " ++ f
            | [] => "ok" ++ (if st.nt then " nt" else "") ++ String.join (st.tags.map (" " ++ ·))
        | _, _ => "bad-op initial-graph"
    | _, _, _, _, _ => "bad-op parse"
  | _ => "bad-op arity"

end RbV.Drv.C16
