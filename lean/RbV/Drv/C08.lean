import RbV.Basic.Codec
import RbV.Spec.Occ
import RbV.Model.ShiftAnd
import RbV.Model.Horspool
import RbV.Model.Kmp
import RbV.Model.Bndm
import RbV.Model.Bom
/-! Driver for property C08: exact matchers.

`c08 <matcher> <pattern hex> <t1>/<t2>/… => <l1>/<l2>/…`   one matcher object applied to the texts in turn.
Expected: every `lᵢ` = `occurrences p tᵢ`.  For the two bit-parallel matchers a pattern longer than 64
must be refused (the observation is `PANIC …`).
For `bom` the harness appends `|<table>` (the transition table of the real `BOM`, states `;`-separated, entries
`symbol:target` ascending); it is compared with the table built by the Lean model of `BOM::new`
(tags `bom-table-same` / `drift-bom-table`; the property does not fix the table, so a difference is no violation). -/
namespace RbV.Drv.C08
open RbV.Codec

def bitParallel (m : String) : Bool := m = "shiftand" || m = "bndm"

def knownMatcher (m : String) : Bool := m ∈ ["shiftand", "bndm", "bom", "horspool", "kmp"]

/-- the model's table in the harness' rendering -/
def showBomTable (T : Bom.Table) : String :=
  ";".intercalate (T.map fun l =>
    if l.isEmpty then "-" else
      ",".intercalate ((l.mergeSort (fun x y => x.1 ≤ y.1)).map fun e => toString e.1 ++ ":" ++ toString e.2))

def verdict (toks : List String) (out0 : String) : String :=
  -- `bom` observations carry the real oracle table after a `|`
  let parts := if out0.startsWith "PANIC" || out0.startsWith "HANG" then [out0] else splitOnChar out0 '|'
  let out := parts.headD out0
  let realTable : Option String := (parts.drop 1).head?
  match toks with
  | [m, ph, ts] =>
    if !knownMatcher m then "bad-op matcher" else
    match parseHex ph, parseListNE parseHex ts '/' with
    | some p, some texts =>
      if p.isEmpty then "bad-op empty-pattern" else
      if bitParallel m && p.length > 64 then
        if out.startsWith "PANIC" then "ok refused" else "reject pattern-longer-than-64-not-refused"
      else
      match parseListNE parseNatList out '/' with
      | some outs =>
        if outs.length ≠ texts.length then "reject arity" else
        let exp := texts.map (occurrences p)
        -- mirror models are run as well (equal to the oracle by theorem; a difference would be a driver defect)
        let mirrorOk := if m = "shiftand" then texts.map (ShiftAnd.findAll p) == exp
          else if m = "horspool" then texts.map (Horspool.findAll p) == exp
          else if m = "kmp" then texts.map (Kmp.findAll p) == exp
          else if m = "bndm" then texts.map (Bndm.findAll p) == exp.map some
          else if m = "bom" then texts.map (Bom.findAll p) == exp && texts.map (Bom.findAllS p) == exp.map some
          else true
        if !mirrorOk then "bad-op mirror-model-disagrees-with-oracle" else
        if exp = outs then
          let nt := p.length ≥ 2 && exp.any (fun l => !l.isEmpty)
          let tags := (if nt then " nt" else "") ++ (if p.length = 64 then " m64" else "")
            ++ (if p.length ≥ 32 then " m>=32" else "") ++ (if texts.length > 1 then " reuse" else "")
            ++ (if exp.any (fun l => l.length ≥ 2) then " multi" else "")
            ++ " mirror"
            ++ (if m = "bom" then
                  (if Bom.completeB (Bom.build p) p && Bom.monotoneB (Bom.build p) p.reverse
                      && Bom.buildS p == some (Bom.build p)
                   then " bom-table-ok" else " bom-table-cond-FAILED")
                  ++ (match realTable with
                      | some rt => if rt = showBomTable (Bom.build p) then " bom-table-same" else " drift-bom-table"
                      | none => "")
                else "")
          "ok" ++ tags
        else "diff " ++ "/".intercalate (exp.map showNatList)
      | none => if out.startsWith "PANIC" || out.startsWith "HANG" then "reject " ++ out else "bad-op output"
    | _, _ => "bad-op parse"
  | _ => "bad-op arity"

end RbV.Drv.C08
