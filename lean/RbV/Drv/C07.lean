import RbV.Basic.Codec
import RbV.Spec.Interval
import RbV.Model.Avl
import RbV.Ref.AvlCheck
import RbV.Model.Iit
/-! Driver for property C07: interval trees and the annotation map.

`c07 <kind> <op>/<op>/… => <segment>/<segment>/…`     (format: see `harness/src/c07.rs`)

Verdict, per observing operation, in history order:
* `find`, `findmut`, `findinto`: the reported entries must be, **as a multiset**, the stored entries that overlap
  the query (`Ivl.expected`, compared with `Ivl.sameMultiset`); on an array-backed tree that is not indexed the
  expected observation is the refusal (`PANIC:…`).
* `dump` (AVL only): the tree rebuilt from the hook dump must have as many nodes as there were insertions and
  pass `checkAVL` (strict invariant). If only the strict check fails but `checkWeak` passes (answers still exact,
  tree balanced by true heights) that is reported as tag `avl-internal-drift`, not as a violation.
* the mirror models (`Avl.insert/find`, `Iit.index/find`) are run alongside; a difference in shape or in result
  *order* is a tag (`drift-shape`, `drift-order`), never a violation.
-/
namespace RbV.Drv.C07
open RbV.Codec RbV.Ivl RbV.Avl

inductive Op where
  | ins (r : Nat) (e : Entry)
  | find (r : Nat) (q : Query)
  | findmut (q : Query) (delta : Int)
  | findinto (q : Query)
  | index
  | dump

def isAmap (kind : String) : Bool := kind == "amap" || kind == "amaploc"
def isArr (kind : String) : Bool := kind == "arr" || kind == "arrfi"

def parseOp (kind : String) (s : String) : Option Op :=
  match s.splitOn ":" with
  | name :: args =>
    match args.mapM String.toInt? with
    | none => none
    | some v =>
      match name, v with
      | "ins", [s, e, d] => if !isAmap kind && s < e then some (.ins 0 ⟨s, e, d⟩) else none
      | "ins", [r, s, e, d] => if isAmap kind && s < e && 0 ≤ r then some (.ins r.toNat ⟨s, e, d⟩) else none
      | "find", [s, e] => if !isAmap kind && s < e then some (.find 0 ⟨s, e⟩) else none
      | "find", [r, s, e] => if isAmap kind && s < e && 0 ≤ r then some (.find r.toNat ⟨s, e⟩) else none
      | "findmut", [s, e, d] => if kind == "avl" && s < e then some (.findmut ⟨s, e⟩ d) else none
      | "findinto", [s, e] => if isArr kind && s < e then some (.findinto ⟨s, e⟩) else none
      | "index", [] => if isArr kind then some .index else none
      | "dump", [] => if kind == "avl" then some .dump else none
      | _, _ => none
  | [] => none

def parseEntry (s : String) : Option Entry :=
  match (s.splitOn ":").mapM String.toInt? with
  | some [a, b, c] => some ⟨a, b, c⟩
  | _ => none

def parseEntries (s : String) : Option (List Entry) := parseList parseEntry s

structure DNode where
  depth : Nat
  lo : Int
  hi : Int
  mx : Int
  h : Int
  hasL : Bool
  hasR : Bool

def parseDNode (s : String) : Option DNode :=
  match (s.splitOn ":").mapM String.toInt? with
  | some [d, a, b, m, h, c] =>
    if 0 ≤ d && 0 ≤ c && c ≤ 3 then some ⟨d.toNat, a, b, m, h, c.toNat % 2 == 1, c.toNat / 2 == 1⟩ else none
  | _ => none

/-- rebuild the tree from the pre-order dump (payload data is not part of the dump: 0) -/
def rebuild : Nat → Nat → List DNode → Option (Tree × List DNode)
  | 0, _, _ => none
  | _ + 1, _, [] => none
  | fuel + 1, d, n :: rest =>
    if n.depth ≠ d then none else
    match (if n.hasL then rebuild fuel (d + 1) rest else some (.nil, rest)) with
    | none => none
    | some (l, rest1) =>
      match (if n.hasR then rebuild fuel (d + 1) rest1 else some (.nil, rest1)) with
      | none => none
      | some (r, rest2) => some (.node l ⟨n.lo, n.hi, 0⟩ n.mx n.h.toNat r, rest2)

def showEntry (e : Entry) : String := s!"{e.lo}:{e.hi}:{e.data}"

def showEntries (l : List Entry) : String :=
  if l.isEmpty then "-" else
    let s := sortEntries l
    ",".intercalate ((s.take 24).map showEntry) ++ (if s.length > 24 then s!",…({s.length})" else "")

/-- which branch of `repair` the insertion takes at each node of the search path (tags only) -/
def repairCase : Tree → Option String
  | .nil => none
  | .node l _ _ _ r =>
    let lh := ht l
    let rh := ht r
    if lh ≤ rh + 1 ∧ rh ≤ lh + 1 then none
    else if rh > lh then
      match r with
      | .node rl _ _ _ rr => if ht rl > ht rr then some "rot-RL" else some "rot-L"
      | .nil => some "rot-impossible"
    else
      match l with
      | .node ll _ _ _ lr => if ht lr > ht ll then some "rot-LR" else some "rot-R"
      | .nil => some "rot-impossible"

def rotTags : Tree → Entry → List String
  | .nil, _ => []
  | .node l x mx h r, e =>
    if e.lo ≤ x.lo then rotTags l e ++ (repairCase (.node (Avl.insert l e) x mx h r)).toList
    else rotTags r e ++ (repairCase (.node l x mx h (Avl.insert r e))).toList

structure St where
  stored : List (Nat × Entry) := []
  avl : Tree := .nil
  amap : AMap := []
  iit : Iit.State := {}
  indexed : Bool := false
  everIndexed : Bool := false
  tags : List String := []
  nt : Bool := false

def St.tag (s : St) (t : String) : St := if s.tags.contains t then s else { s with tags := t :: s.tags }

def St.tagIf (s : St) (c : Bool) (t : String) : St := if c then s.tag t else s

def storedOf (s : St) (r : Nat) : List Entry := (s.stored.filter (fun p => p.1 == r)).map (·.2)

def isPow2 (n : Nat) : Bool := n > 0 && (n &&& (n - 1)) == 0

/-- one query: compare the observed multiset with the expected one; `modelAns` is the mirror model's answer in
the model's order (tag only) -/
def judgeQuery (s : St) (i : Nat) (opName : String) (r : Nat) (q : Query) (seg : String)
    (modelAns : Option (List Entry)) : Except String St :=
  match parseEntries seg with
  | none =>
    if seg.startsWith "PANIC" then .error s!"reject {opName} op#{i} {opName}:{q.lo}:{q.hi} panicked: {seg}"
    else .error s!"bad-op op#{i} unparsable result segment"
  | some got =>
    let stored := storedOf s r
    let exp := expected stored q
    if sameMultiset got exp then
      let s := if !exp.isEmpty && stored.length ≥ 2 then { s with nt := true } else s
      let s := s.tagIf (exp.length ≥ 2) "multi"
      let s := s.tagIf (stored.any (fun e => e.hi == q.lo || e.lo == q.hi)) "touching"
      let s := s.tagIf (!exp.isEmpty && exp.length == stored.length && stored.length ≥ 3) "all"
      let s := s.tagIf (exp.isEmpty && !stored.isEmpty) "none"
      let s := match modelAns with
        | some m => if m == got then s.tag "order-eq" else s.tag "drift-order"
        | none => s
      .ok s
    else .error s!"diff {opName} op#{i} {opName}:{q.lo}:{q.hi} expected {showEntries exp}"

def judgeDump (s : St) (i : Nat) (seg : String) : Except String St :=
  match parseList parseDNode seg with
  | none =>
    if seg.startsWith "PANIC" then .error s!"reject dump op#{i} panicked" else .error s!"bad-op op#{i} unparsable dump"
  | some nodes =>
    let tree? : Option Tree :=
      if nodes.isEmpty then some .nil else
      match rebuild (nodes.length + 1) 0 nodes with
      | some (t, []) => some t
      | _ => none
    match tree? with
    | none => .error s!"bad-op op#{i} dump is not a pre-order walk"
    | some t =>
      let n := s.stored.length
      let modelDump := (Avl.dump s.avl 0).map fun (d, a, b, m, h, l, r) => (d, a, b, m, (h : Int), l, r)
      let obsDump := nodes.map fun x => (x.depth, x.lo, x.hi, x.mx, x.h, x.hasL, x.hasR)
      let s := if modelDump == obsDump then s.tag "shape-eq" else s.tag "drift-shape"
      let s := s.tagIf (n ≥ 32) "n>=32"
      let s := s.tagIf (n ≥ 100) "n>=100"
      if nodes.all (fun x => x.h ≥ 0) && checkAVL t n then .ok (s.tag "avl-strict")
      else if checkWeak t n then .ok (s.tag "avl-internal-drift")
      else
        let why :=
          if size t ≠ n then s!"node-count {size t} after {n} insertions"
          else if !balancedB t then "not height-balanced"
          else "max/order invariant broken (a query can miss an entry)"
        .error s!"reject dump op#{i}: {why}"

def step (kind : String) (s : St) (i : Nat) (op : Op) (segs : List String) : Except String (St × List String) :=
  let needSeg (k : String → Except String St) : Except String (St × List String) :=
    match segs with
    | [] => .error s!"bad-op op#{i} missing result segment"
    | seg :: rest => (k seg).map (fun s => (s, rest))
  match op with
  | .ins r e =>
    let s := s.tagIf (s.stored.any (fun p => p.1 == r && p.2 == e)) "dup"
    let s := s.tagIf (s.stored.any (fun p => p.1 == r && p.2.lo == e.lo && p.2 != e)) "eqstart"
    let s :=
      if kind == "avl" then
        let s := (rotTags s.avl e).foldl St.tag s
        { s with avl := Avl.insert s.avl e }
      else if isAmap kind then { s with amap := s.amap.insertAt r e }
      else
        let s := s.tagIf s.everIndexed "insert-after-index"
        { s with iit := s.iit.insert e, indexed := false }
    .ok ({ s with stored := s.stored ++ [(r, e)] }, segs)
  | .index =>
    let n := s.stored.length
    let s := s.tagIf (s.everIndexed && !s.indexed) "reindex"
    let s := s.tagIf s.indexed "index-noop"
    let s := s.tagIf (isPow2 n) "n=2^k"
    let s := s.tagIf (isPow2 (n + 1)) "n=2^k-1"
    let s := s.tagIf (n ≥ 16 && !isPow2 n && !isPow2 (n + 1)) "n-ragged"
    let s := s.tagIf (n ≥ 16) "lvl>=4"
    let s := s.tagIf (n ≥ 100) "n>=100"
    .ok ({ s with iit := s.iit.index, indexed := true, everIndexed := true }, segs)
  | .dump => needSeg (judgeDump s i)
  | .find r q =>
    needSeg fun seg =>
      if isArr kind then
        if !s.indexed then
          if seg.startsWith "PANIC" then
            .ok ((s.tag "refused").tagIf (!(seg.splitOn "not-been-indexed").tail.isEmpty) "refused-msg")
          else .error s!"reject not-refused op#{i}: query on an un-indexed tree was not refused"
        else judgeQuery s i "find" r q seg (s.iit.find q)
      else if isAmap kind then
        let s := s.tagIf (!(s.stored.any (fun p => p.1 == r))) "absent-id"
        let s := s.tagIf ((s.stored.map (·.1)).eraseDups.length ≥ 2) "multi-ref"
        judgeQuery s i "find" r q seg (some (s.amap.find r q))
      else judgeQuery s i "find" r q seg (some (Avl.find s.avl q))
  | .findinto q =>
    needSeg fun seg =>
      if !s.indexed then
        if seg.startsWith "PANIC" then .ok (s.tag "refused")
        else .error s!"reject not-refused op#{i}: query on an un-indexed tree was not refused"
      else (judgeQuery s i "findinto" 0 q seg (s.iit.find q)).map (·.tag "find_into")
  | .findmut q delta =>
    needSeg fun seg =>
      match judgeQuery s i "findmut" 0 q seg (some (Avl.find s.avl q)) with
      | .error e => .error e
      | .ok s =>
        let s := s.tagIf ((expected (storedOf s 0) q).length ≥ 1) "mutated"
        .ok { s with
          stored := s.stored.map (fun p => (p.1, if Overlaps q p.2 then { p.2 with data := p.2.data + delta } else p.2))
          avl := bumpTree q delta s.avl }

def run (kind : String) : St → Nat → List Op → List String → Except String St
  | s, _, [], [] => .ok s
  | _, _, [], _ :: _ => .error "bad-op more result segments than observing operations"
  | s, i, op :: ops, segs =>
    match step kind s i op segs with
    | .error e => .error e
    | .ok (s, segs) => run kind s (i + 1) ops segs

def verdict (toks : List String) (out : String) : String :=
  match toks with
  | [kind, opsStr] =>
    if !(["avl", "arr", "arrfi", "amap", "amaploc"].contains kind) then "bad-op kind" else
    match parseList (parseOp kind) opsStr '/' with
    | none => "bad-op op"
    | some ops =>
      if out.startsWith "PANIC " || out == "PANIC" || out.startsWith "HANG" || out.startsWith "CRASH" then
        "reject whole history failed: " ++ out
      else
      let segs := if out == "none" then [] else out.splitOn "/"
      -- `arrfi`: the leading run of insertions goes through `from_iter`, which also indexes
      let (s0, ops') : St × List Op :=
        if kind == "arrfi" then
          let lead := ops.takeWhile (fun o => match o with | .ins .. => true | _ => false)
          let rest := ops.drop lead.length
          let st : St := lead.foldl (fun s o => match o with
            | .ins r e => { s with stored := s.stored ++ [(r, e)], iit := s.iit.insert e }
            | _ => s) {}
          ({ st with iit := st.iit.index, indexed := true, everIndexed := true, tags := ["from_iter"] }, rest)
        else ({}, ops)
      match run kind s0 (ops.length - ops'.length) ops' segs with
      | .error e => e
      | .ok s =>
        "ok" ++ (if s.nt then " nt" else "") ++ " " ++ kind
          ++ String.join (s.tags.reverse.map (fun t => " " ++ t))
  | _ => "bad-op arity"

end RbV.Drv.C07
