import RbV.Basic.Codec
import RbV.Basic.FloatParse
import RbV.Gen.Scales
/-! Driver for property C15: log-space probability arithmetic (line formats: see `harness/src/c15.rs`).

Every operation is recomputed in **linear space** with core `Float` (IEEE binary64, libm `exp`/`log`) from the
parsed operands and compared with the linear image of the reported result:

* arithmetic (`add`, `sum`, `cumsum`, `sub`, `1m`): `|exp r − Σ ± exp xᵢ| ≤ 0.5 % · exp(max operand)`.
  The comparison is done after scaling by the largest operand (`exp (r − M)` against `Σ ± exp (xᵢ − M)`,
  tolerance 0.005), which is the same inequality in exact arithmetic but does not become vacuous when
  `exp M` underflows; an observation that only passes the literal f64 inequality is accepted as well
  (tag `literal-only`) — the weakest reading of the property text.
  All operands `ln 0` ⇒ the result must be `ln 0` (`-inf`) exactly.  NaN or `+inf` is always a violation.
* integration helpers: the same with the weighted density values as operands; tolerance 0.5 % of the exact
  quadrature sum (≥ the largest operand, so weaker than the text — the text does not say what the largest
  operand of a quadrature is).
* conversions: chains through `fastexp` (LogProb → Prob) within 0.5 % relative, all others within 1e-9 relative
  (of the linear value, or of the log / PHRED value — whichever is weaker).
* `checked`: accepted iff `0 ≤ v ≤ 1`.
* `consts`: both scale factors within 1e-12 relative of ∓10/ln 10 resp. its inverse, product within 1e-12 of 1.
* `fexp`: `fastexp` itself within 0.5 % (measured relative error reported as a tag bucket).

`LogProb → Prob` of values ≤ -500 gives exactly 0 (documented cut-off `MIN_VAL` of `fastexp`): reported as
`reject fastexp-cutoff` (known finding C15-fastexp-cutoff) when the operand's own value is representable. -/
namespace RbV.Drv.C15
open RbV.Codec RbV.FloatParse

/-! The literals of the source the driver needs are **not copied**: `RbV/Gen/Scales.lean` is extracted from
`src/stats/probs/mod.rs` and `src/utils/fastexp.rs` on every run (tools/gen_tables.py, DESIGN §8). -/
/-- `MIN_VAL` of fastexp.rs (−500) -/
def minValF : Float := Gen.Scales.minVal.toFloat
/-- switch point of `ln_1m_exp` (−0.693) -/
def switchF : Float := Gen.Scales.ln1mExpSwitch.toFloat
/-- `LOG_TO_PHRED_FACTOR`, `PHRED_TO_LOG_FACTOR`: the `f64` the source literals denote -/
def logToPhredF : Float := Gen.Scales.logToPhred.toFloat
def phredToLogF : Float := Gen.Scales.phredToLog.toFloat

def tolFast : Float := 0.005
def tolExact : Float := 1e-9

def maxOf (l : List Float) : Float := l.foldl fmax negInf

/-- `exp (x - M)` with `exp (-inf - M) = 0` also for `M = -inf` guarded by the caller -/
def sexp (x M : Float) : Float := if isNegInf x then 0.0 else Float.exp (x - M)

/-- result of comparing the reported log value `r` with `Σ exp pos − Σ exp neg`.
`relToSum`: tolerance relative to the exact value instead of the largest operand. -/
def checkLin (pos neg : List Float) (r : Float) (relToSum : Bool := false) : String :=
  if r.isNaN then "reject nan" else
  if isPosInf r then "reject plus-inf" else
  let M := maxOf (pos ++ neg)
  if isNegInf M then (if isNegInf r then "ok" else s!"reject zero-operands-nonzero-result got={fshow r}") else
  let expect := (pos.map (sexp · M)).foldl (· + ·) 0.0 - (neg.map (sexp · M)).foldl (· + ·) 0.0
  let got := sexp r M
  let tol := if relToSum then tolFast * expect.abs else tolFast
  if (got - expect).abs ≤ tol then "ok" else
  -- literal f64 reading
  let lexp := (pos.map Float.exp).foldl (· + ·) 0.0 - (neg.map Float.exp).foldl (· + ·) 0.0
  let ltol := if relToSum then tolFast * lexp.abs else tolFast * Float.exp M
  if (Float.exp r - lexp).abs ≤ ltol then "ok literal-only" else
  s!"reject value scaled-expected={fshow expect} scaled-got={fshow got} largest-operand-ln={fshow M}"

def isOk (v : String) : Bool := v = "ok" || v.startsWith "ok "

/-! ### densities (same formulas as the harness) -/

inductive Dens
  | const (c : Float) | poly (c0 c1 c2 : Float) | gauss (mu s : Float) | expd (l : Float) | box (lo hi c : Float)

def parseDens (s : String) : Option Dens :=
  match s.splitOn ":" with
  | ["const", c] => do pure (.const (← parseFloat c))
  | ["poly", a, b, c] => do pure (.poly (← parseFloat a) (← parseFloat b) (← parseFloat c))
  | ["gauss", m, s] => do pure (.gauss (← parseFloat m) (← parseFloat s))
  | ["expd", l] => do pure (.expd (← parseFloat l))
  | ["box", lo, hi, c] => do pure (.box (← parseFloat lo) (← parseFloat hi) (← parseFloat c))
  | _ => none

def pi : Float := 3.14159265358979323846

def Dens.ln (d : Dens) (x : Float) : Float :=
  match d with
  | .const c => c
  | .poly c0 c1 c2 => Float.log (c0 + c1 * x + c2 * x * x)
  | .gauss mu s => let z := (x - mu) / s; -0.5 * z * z - Float.log (s * Float.sqrt (2.0 * pi))
  | .expd l => Float.log l - l * x
  | .box lo hi c => if x ≥ lo && x ≤ hi then c else negInf

/-- quadrature: terms `ln f(xᵢ) + ln wᵢ`, and the common factor as a log -/
def quadTerms (d : Dens) (a b : Float) (n : Nat) (simpson : Bool) : List Float × Float :=
  let step := (b - a) / Float.ofNat (n - 1)
  let terms := (List.range n).map fun i =>
    let x := if i = n - 1 then b else a + step * Float.ofNat i
    let w : Float := if i = 0 || i = n - 1 then 1.0 else if simpson then (if i % 2 = 1 then 4.0 else 2.0) else 2.0
    d.ln x + Float.log w
  let fac := if simpson then Float.log (b - a) - Float.log (Float.ofNat (n - 1)) - Float.log 3.0
             else Float.log (b - a) - Float.log (2.0 * Float.ofNat (n - 1))
  (terms, fac)

def gridTerms (d : Dens) (g : List Float) : List Float :=
  (g.zip (g.drop 1)).flatMap fun (x0, x1) =>
    let lw := Float.log (x1 - x0) - Float.log 2.0
    [d.ln x0 + lw, d.ln x1 + lw]

/-! ### conversions -/

def ln10 : Float := Float.log 10.0

/-- one exact conversion step in `Float` -/
def convStep (src dst : Char) (v : Float) : Option Float :=
  match src, dst with
  | 'p', 'l' => some (Float.log v)
  | 'l', 'p' => some (Float.exp v)
  | 'p', 'q' => some (-10.0 * Float.log10 v)
  | 'q', 'p' => some (Float.exp (-(v / 10.0) * ln10))
  | 'l', 'q' => some (v * (-10.0 / ln10))
  | 'q', 'l' => some (v * (-(ln10 / 10.0)))
  | _, _ => none

def convRef : List Char → Float → Option Float
  | a :: b :: rest, v => (convStep a b v).bind (convRef (b :: rest))
  | _, v => some v

/-- does the chain go through the fast exponential (a step LogProb → Prob)? -/
def usesFast : List Char → Bool
  | 'l' :: 'p' :: _ => true
  | _ :: rest => usesFast rest
  | [] => false

/-- the value that reaches the (first) `l → p` step -/
def fastOperand : List Char → Float → Option Float
  | 'l' :: 'p' :: _, v => some v
  | a :: b :: rest, v => (convStep a b v).bind (fastOperand (b :: rest))
  | _, _ => none

/-- closeness of two values on the scale `k` (`p`: linear; `l`, `q`: log scales — compared as such or through
their linear image, whichever is weaker) -/
def closeOn (k : Char) (got exp tol : Float) : Bool :=
  if got.isNaN then false else
  if exp.isInf || got.isInf then got == exp else
  if (got - exp).abs ≤ tol * exp.abs then true else
  match k with
  | 'l' => (Float.exp got - Float.exp exp).abs ≤ tol * Float.exp exp
  | 'q' => (Float.exp (-(got / 10.0) * ln10) - Float.exp (-(exp / 10.0) * ln10)).abs ≤ tol * Float.exp (-(exp / 10.0) * ln10)
  | _ => false

def errBucket (rel : Float) : String :=
  if rel ≤ 1e-12 then "err<=1e-12" else if rel ≤ 1e-6 then "err<=1e-6" else if rel ≤ 1e-5 then "err<=1e-5"
  else if rel ≤ 1e-4 then "err<=1e-4" else "err<=5e-3"

/-! ### tags -/

def finite (x : Float) : Bool := !x.isInf && !x.isNaN

def pairTags (a b : Float) : String :=
  let lo := if a < b then a else b
  let hi := if a < b then b else a
  (if isNegInf a || isNegInf b then " ln0" else "")
  ++ (if finite a && finite b then
        (if a == b then " equal" else "")
        ++ (if hi - lo > 690.0 then " 300-orders-apart" else "")
        ++ (if hi - lo ≥ -minValF then " beyond-cutoff" else if hi - lo > -minValF - 1.0 then " near-cutoff" else "")
        ++ (if (hi - lo + switchF).abs < 1e-3 then " near-switch" else "")
        ++ (if hi < -708.0 then " underflow-range" else "")
      else "")

def verdict (toks : List String) (out : String) : String :=
  if out.startsWith "PANIC" || out.startsWith "HANG" || out.startsWith "CRASH" then "reject " ++ out.replace " " "_" else
  match toks with
  | ["consts"] =>
    match out.splitOn " " with
    | [a, b] =>
      match parseFloat a, parseFloat b with
      | some l2q, some q2l =>
        let e1 := -10.0 / ln10
        let e2 := -(ln10 / 10.0)
        if !relClose l2q e1 1e-12 then s!"reject log-to-phred-factor got={fshow l2q}" else
        if !relClose q2l e2 1e-12 then s!"reject phred-to-log-factor got={fshow q2l}" else
        if !((l2q * q2l - 1.0).abs ≤ 1e-12) then "reject factors-not-inverse" else
        "ok nt consts" ++ (if l2q == logToPhredF && q2l == phredToLogF then " literals-as-in-theorem" else " literals-drift")
      | _, _ => "bad-op output"
    | _ => "bad-op output"
  | ["checked", v] =>
    match parseFloat v with
    | none => "bad-op parse"
    | some x =>
      let should := x ≥ 0.0 && x ≤ 1.0
      if out = "err" then (if should then "reject valid-probability-refused" else "ok nt checked refused")
      else match out.splitOn ":" with
        | ["ok", w] =>
          match parseFloat w with
          | some y => if !should then "reject invalid-probability-accepted" else if y == x then "ok nt checked accepted" else "reject checked-changed-value"
          | none => "bad-op output"
        | _ => "bad-op output"
  | ["fexp", v] =>
    match parseFloat v, parseFloat out with
    | some x, some r =>
      if r.isNaN then "reject nan" else
      let e := Float.exp x
      if e == 0.0 then (if r == 0.0 then "ok fexp underflow" else s!"reject fexp-value got={fshow r}") else
      -- documented cut-off `MIN_VAL` of fastexp itself: not an operation the property lists; tallied only
      if x ≤ minValF && r == 0.0 then "ok fexp cutoff" else
      let rel := (r - e).abs / e
      if rel ≤ tolFast then "ok nt fexp " ++ errBucket rel else s!"reject fexp-value exact={fshow e} got={fshow r}"
    | _, _ => "bad-op parse"
  | ["add", a, b] =>
    match parseFloat a, parseFloat b, parseFloat out with
    | some x, some y, some r =>
      let v := checkLin [x, y] [] r
      if isOk v then v ++ (if finite x && finite y then " nt" else "") ++ " add" ++ pairTags x y else v
    | _, _, _ => "bad-op parse"
  | ["sub", a, b] =>
    match parseFloat a, parseFloat b, parseFloat out with
    | some x, some y, some r =>
      if x < y then "bad-op a<b" else
      let v := checkLin [x] [y] r
      if isOk v then v ++ (if finite x && finite y then " nt" else "") ++ " sub" ++ pairTags x y else v
    | _, _, _ => "bad-op parse"
  | ["1m", a] =>
    match parseFloat a, parseFloat out with
    | some x, some r =>
      let v := checkLin [0.0] [x] r
      if isOk v then v ++ (if finite x && x < 0.0 then " nt" else "") ++ " 1m"
        ++ (if x < switchF then " fast-branch" else " exact-branch") ++ pairTags 0.0 x else v
    | _, _ => "bad-op parse"
  | ["sum", l] =>
    match parseFloatList l, parseFloat out with
    | some xs, some r =>
      let v := checkLin xs [] r
      let nf := (xs.filter finite).length
      if isOk v then v ++ (if nf ≥ 2 then " nt" else "") ++ " sum" ++ (if xs.isEmpty then " empty" else "")
        ++ (if xs.any isNegInf then " ln0" else "") ++ (if xs.length ≥ 20 then " long" else "")
        ++ (if (xs.filter (· == maxOf xs)).length ≥ 2 && nf ≥ 2 then " several-maxima" else "") else v
    | _, _ => "bad-op parse"
  | ["cumsum", l] =>
    match parseFloatList l, parseFloatList out with
    | some xs, some rs =>
      if xs.length ≠ rs.length then "reject cumsum-length" else
      let rec go (k : Nat) (fuel : Nat) : String :=
        match fuel with
        | 0 => "ok"
        | fuel + 1 =>
          if k > xs.length then "ok" else
          let v := checkLin (xs.take k) [] (rs.getD (k - 1) nan)
          if isOk v then go (k + 1) fuel else v ++ s!" at-prefix={k}"
      let v := go 1 xs.length
      if isOk v then v ++ (if (xs.filter finite).length ≥ 2 then " nt" else "") ++ " cumsum"
        ++ (if xs.isEmpty then " empty" else "") ++ (if xs.any isNegInf then " ln0" else "") else v
    | _, _ => "bad-op parse"
  | [op, ds, a, b, n] =>
    if op ≠ "trap" && op ≠ "simp" then "bad-op unknown" else
    match parseDens ds, parseFloat a, parseFloat b, parseNat n, parseFloat out with
    | some d, some a, some b, some n, some r =>
      if n < 2 || !(a < b) then "bad-op interval" else
      let (terms, fac) := quadTerms d a b n (op = "simp")
      let v := checkLin terms [] (r - fac) true
      if isOk v then v ++ (if (terms.filter finite).length ≥ 2 then " nt" else "") ++ " " ++ op ++ s!" n{n}"
        ++ (if terms.any isNegInf then " ln0" else "")
        ++ (if maxOf terms - (terms.filter finite).foldl (fun m x => if x < m then x else m) 0.0 > 690.0 then " 300-orders-apart" else "")
      else v
    | _, _, _, _, _ => "bad-op parse"
  | ["grid", ds, g] =>
    match parseDens ds, parseFloatList g, parseFloat out with
    | some d, some g, some r =>
      let terms := gridTerms d g
      let v := checkLin terms [] r true
      if isOk v then v ++ (if (terms.filter finite).length ≥ 2 then " nt" else "") ++ s!" grid"
        ++ (if g.length < 3 then " short-grid" else "") ++ (if terms.any isNegInf then " ln0" else "") else v
    | _, _, _ => "bad-op parse"
  | ["conv", chain, v] =>
    match parseFloat v, parseFloat out with
    | some x, some r =>
      let cs := chain.toList
      match convRef cs x, cs.getLast? with
      | some e, some k =>
        if r.isNaN then "reject nan" else
        let fast := usesFast cs
        let tol := if fast then tolFast else tolExact
        if closeOn k r e tol then
          "ok" ++ (if finite x && x != 0.0 then " nt" else "") ++ " conv-" ++ chain ++ (if fast then " fast" else " exact")
        else
          -- the documented cut-off of fastexp: LogProb ≤ -500 → Prob 0
          match fastOperand cs x with
          | some lx =>
            if fast && lx ≤ minValF && finite lx && Float.exp lx > 0.0 &&
               (match k with | 'p' => r == 0.0 | 'l' => isNegInf r | _ => isPosInf r) then
              s!"reject fastexp-cutoff conv-{chain} operand-ln={fshow lx}"
            else s!"reject conversion expected={fshow e} got={fshow r}"
          | none => s!"reject conversion expected={fshow e} got={fshow r}"
      | _, _ => "bad-op chain"
    | _, _ => "bad-op parse"
  | _ => "bad-op unknown"

end RbV.Drv.C15
