import RbV.Basic.Codec
import RbV.Basic.FloatParse
import RbV.Gen.Scales
/-! Driver for property C15: log-space probability arithmetic (line formats: see `harness/src/c15.rs`).

Every operation is recomputed in **linear space** with core `Float` (IEEE binary64, libm `exp`/`log`) from the
parsed operands and compared with the linear image of the reported result:

* arithmetic (`add`, `sum`, `cumsum`, `sub`, `1m`): `|exp r − Σ ± exp xᵢ| ≤ 0.5 % · exp(max operand)`.
  The comparison is done after scaling by the largest operand (`exp (r − M)` against `Σ ± exp (xᵢ − M)`,
  tolerance 0.005), which is the same inequality in exact arithmetic but does not become vacuous when
  `exp M` underflows; an observation that only passes the literal f64 inequality is accepted as well
  (tag `literal-only`) — the weakest reading of the property text.
  All operands `ln 0` ⇒ the result must be `ln 0` (`-inf`) exactly.  NaN or `+inf` is always a violation.
* integration helpers: the same with the weighted density values as operands; tolerance 0.5 % of the exact
  quadrature sum (≥ the largest operand, so weaker than the text — the text does not say what the largest
  operand of a quadrature is).
* conversions: chains through `fastexp` (LogProb → Prob) within 0.5 % relative, all others within 1e-9 relative
  (of the linear value, or of the log / PHRED value — whichever is weaker).
* `checked`: accepted iff `0 ≤ v ≤ 1`.
* `consts`: both scale factors within 1e-12 relative of ∓10/ln 10 resp. its inverse, product within 1e-12 of 1.
* `fexp`: `fastexp` itself within 0.5 % (measured relative error reported as a tag bucket).

`LogProb → Prob` of values ≤ -500 gives exactly 0 (documented cut-off `MIN_VAL` of `fastexp`): reported as
`reject fastexp-cutoff` (known finding C15-fastexp-cutoff) when the operand's own value is representable. -/
namespace RbV.Drv.C15
open RbV.Codec RbV.FloatParse

/-! The literals of the source the driver needs are **not copied**: `RbV/Gen/Scales.lean` is extracted from
`src/stats/probs/mod.rs` and `src/utils/fastexp.rs` on every run (tools/gen_tables.py, DESIGN §8). -/
/-- `MIN_VAL` of fastexp.rs (−500) -/
def minValF : Float := Gen.Scales.minVal.toFloat
/-- switch point of `ln_1m_exp` (−0.693) -/
def switchF : Float := Gen.Scales.ln1mExpSwitch.toFloat
/-- `LOG_TO_PHRED_FACTOR`, `PHRED_TO_LOG_FACTOR`: the `f64` the source literals denote -/
def logToPhredF : Float := Gen.Scales.logToPhred.toFloat
def phredToLogF : Float := Gen.Scales.phredToLog.toFloat

def tolFast : Float := 0.005
def tolExact : Float := 1e-9

def maxOf (l : List Float) : Float := l.foldl fmax negInf

/-- `exp (x - M)` with `exp (-inf - M) = 0` also for `M = -inf` guarded by the caller -/
def sexp (x M : Float) : Float := if isNegInf x then 0.0 else Float.exp (x - M)

/-- result of comparing the reported log value `r` with `Σ exp pos − Σ exp neg`.
`relToSum`: tolerance relative to the exact value instead of the largest operand. -/
def checkLin (pos neg : List Float) (r : Float) (relToSum : Bool := false) : String :=
  if r.isNaN then "reject nan" else
  if isPosInf r then "reject plus-inf" else
  let M := maxOf (pos ++ neg)
  if isNegInf M then (if isNegInf r then "ok" else s!"reject zero-operands-nonzero-result got={fshow r}") else
  let expect := (pos.map (sexp · M)).foldl (· + ·) 0.0 - (neg.map (sexp · M)).foldl (· + ·) 0.0
  let got := sexp r M
  let tol := if relToSum then tolFast * expect.abs else tolFast
  if (got - expect).abs ≤ tol then "ok" else
  -- literal f64 reading
  let lexp := (pos.map Float.exp).foldl (· + ·) 0.0 - (neg.map Float.exp).foldl (· + ·) 0.0
  let ltol := if relToSum then tolFast * lexp.abs else tolFast * Float.exp M
  if (Float.exp r - lexp).abs ≤ ltol then "ok literal-only" else
  s!"reject value scaled-expected={fshow expect} scaled-got={fshow got} largest-operand-ln={fshow M}"

def isOk (v : String) : Bool := v = "ok" || v.startsWith "ok "

/-! ### densities (same formulas as the harness) -/

inductive Dens
  | const (c : Float) | poly (c0 c1 c2 : Float) | gauss (mu s : Float) | expd (l : Float) | box (lo hi c : Float)

def parseDens (s : String) : Option Dens :=
  match s.splitOn ":" with
  | ["const", c] => do pure (.const (← parseFloat c))
  | ["poly", a, b, c] => do pure (.poly (← parseFloat a) (← parseFloat b) (← parseFloat c))
  | ["gauss", m, s] => do pure (.gauss (← parseFloat m) (← parseFloat s))
  | ["expd", l] => do pure (.expd (← parseFloat l))
  | ["box", lo, hi, c] => do pure (.box (← parseFloat lo) (← parseFloat hi) (← parseFloat c))
  | _ => none

def pi : Float := 3.14159265358979323846

def Dens.ln (d : Dens) (x : Float) : Float :=
  match d with
  | .const c => c
  | .poly c0 c1 c2 => Float.log (c0 + c1 * x + c2 * x * x)
  | .gauss mu s => let z := (x - mu) / s; -0.5 * z * z - Float.log (s * Float.sqrt (2.0 * pi))
  | .expd l => Float.log l - l * x
  | .box lo hi c => if x ≥ lo && x ≤ hi then c else negInf

/-- quadrature: terms `ln f(xᵢ) + ln wᵢ`, and the common factor as a log -/
def quadTerms (d : Dens) (a b : Float) (n : Nat) (simpson : Bool) : List Float × Float :=
  let step := (b - a) / Float.ofNat (n - 1)
  let terms := (List.range n).map fun i =>
    let x := if i = n - 1 then b else a + step * Float.ofNat i
    let w : Float := if i = 0 || i = n - 1 then 1.0 else if simpson then (if i % 2 = 1 then 4.0 else 2.0) else 2.0
    d.ln x + Float.log w
  let fac := if simpson then Float.log (b - a) - Float.log (Float.ofNat (n - 1)) - Float.log 3.0
             else Float.log (b - a) - Float.log (2.0 * Float.ofNat (n - 1))
  (terms, fac)

def gridTerms (d : Dens) (g : List Float) : List Float :=
  (g.zip (g.drop 1)).flatMap fun (x0, x1) =>
    let lw := Float.log (x1 - x0) - Float.log 2.0
    [d.ln x0 + lw, d.ln x1 + lw]

/-! ### conversions -/

def ln10 : Float := Float.log 10.0

/-- one exact conversion step in `Float` -/
def convStep (src dst : Char) (v : Float) : Option Float :=
  match src, dst with
  | 'p', 'l' => some (Float.log v)
  | 'l', 'p' => some (Float.exp v)
  | 'p', 'q' => some (-10.0 * Float.log10 v)
  | 'q', 'p' => some (Float.exp (-(v / 10.0) * ln10))
  | 'l', 'q' => some (v * (-10.0 / ln10))
  | 'q', 'l' => some (v * (-(ln10 / 10.0)))
  | _, _ => none

def convRef : List Char → Float → Option Float
  | a :: b :: rest, v => (convStep a b v).bind (convRef (b :: rest))
  | _, v => some v

/-- does the chain go through the fast exponential (a step LogProb → Prob)? -/
def usesFast : List Char → Bool
  | 'l' :: 'p' :: _ => true
  | _ :: rest => usesFast rest
  | [] => false

/-- the value that reaches the (first) `l → p` step -/
def fastOperand : List Char → Float → Option Float
  | 'l' :: 'p' :: _, v => some v
  | a :: b :: rest, v => (convStep a b v).bind (fastOperand (b :: rest))
  | _, _ => none

/-- closeness of two values on the scale `k` (`p`: linear; `l`, `q`: log scales — compared as such or through
their linear image, whichever is weaker) -/
def closeOn (k : Char) (got exp tol : Float) : Bool :=
  if got.isNaN then false else
  if exp.isInf || got.isInf then got == exp else
  if (got - exp).abs ≤ tol * exp.abs then true else
  match k with
  | 'l' => (Float.exp got - Float.exp exp).abs ≤ tol * Float.exp exp
  | 'q' => (Float.exp (-(got / 10.0) * ln10) - Float.exp (-(exp / 10.0) * ln10)).abs ≤ tol * Float.exp (-(exp / 10.0) * ln10)
  | _ => false

def errBucket (rel : Float) : String :=
  if rel ≤ 1e-12 then "err<=1e-12" else if rel ≤ 1e-6 then "err<=1e-6" else if rel ≤ 1e-5 then "err<=1e-5"
  else if rel ≤ 1e-4 then "err<=1e-4" else "err<=5e-3"

/-! ### tags -/

def finite (x : Float) : Bool := !x.isInf && !x.isNaN

def pairTags (a b : Float) : String :=
  let lo := if a < b then a else b
  let hi := if a < b then b else a
  (if isNegInf a || isNegInf b then " ln0" else "")
  ++ (if finite a && finite b then
        (if a == b then " equal" else "")
        ++ (if hi - lo > 690.0 then " 300-orders-apart" else "")
        ++ (if hi - lo ≥ -minValF then " beyond-cutoff" else if hi - lo > -minValF - 1.0 then " near-cutoff" else "")
        ++ (if (hi - lo + switchF).abs < 1e-3 then " near-switch" else "")
        ++ (if hi < -708.0 then " underflow-range" else "")
      else "")


/-! ### long accumulations (`lsum`, `lcumsum`, `lchain`; seed C15-6)

The operands come as a run-length list (`x` or `x*k`).  The exact reference is accumulated in **one pass** (the
per-prefix recomputation of `cumsum` above is quadratic): running maximum `M`, `S = Σ exp (xᵢ − M)` (rescaled when the
maximum moves) and the literal f64 running sum `L = Σ exp xᵢ`; the implementation's sampled partial results are
compared at their positions with the same two readings as in `checkLin`. -/

def parseRle (s : String) : Option (List (Float × Nat)) :=
  (s.splitOn ",").mapM fun it =>
    match it.splitOn "*" with
    | [x] => do pure ((← parseFloat x), 1)
    | [x, k] => do let k ← parseNat k; if k = 0 then none else pure ((← parseFloat x), k)
    | _ => none

structure Acc where
  M : Float
  S : Float
  L : Float
  idx : Nat
  outs : List Float
  last : Float
  lit : Bool
  soft : Option String
  err : Option String

/-- compare one reported (log) value with the reference state.  `relToSum`: tolerance 0.5 % of the exact sum
(chains of additions: the accumulator is itself an operand) instead of 0.5 % of the largest list entry.
For `relToSum = false` a value that misses the largest-operand bound in both readings but is within 0.5 % of the
exact sum is reported separately (`soft …`): the error of the real code grows with the *sum* (δ · Σ, theorem
`ln_cumsum_exp_error`), which exceeds 0.5 % of the largest entry once thousands of entries of similar size are
summed — known finding C15-long-list-bound. -/
def checkAt (M S L r : Float) (relToSum : Bool) : String :=
  if r.isNaN then "reject nan" else
  if isPosInf r then "reject plus-inf" else
  if isNegInf M then (if isNegInf r then "ok" else s!"reject zero-operands-nonzero-result got={fshow r}") else
  let got := sexp r M
  let tol := if relToSum then tolFast * S else tolFast
  if (got - S).abs ≤ tol then "ok" else
  let ltol := if relToSum then tolFast * L else tolFast * Float.exp M
  if (Float.exp r - L).abs ≤ ltol then "ok literal-only" else
  if !relToSum && (got - S).abs ≤ tolFast * S then
    s!"soft scaled-expected={fshow S} scaled-got={fshow got} largest-operand-ln={fshow M}" else
  s!"reject value scaled-expected={fshow S} scaled-got={fshow got} largest-operand-ln={fshow M}"

def Acc.feed (st : Acc) (x : Float) (stride n : Nat) (relToSum : Bool) : Acc :=
  let st : Acc :=
    if isNegInf x then { st with idx := st.idx + 1 }
    else if isNegInf st.M || x > st.M then
      { st with M := x, S := (if isNegInf st.M then 0.0 else st.S * Float.exp (st.M - x)) + 1.0,
                L := st.L + Float.exp x, idx := st.idx + 1 }
    else { st with S := st.S + Float.exp (x - st.M), L := st.L + Float.exp x, idx := st.idx + 1 }
  if st.idx % stride = 0 || st.idx = n then
    match st.outs with
    | [] => { st with err := some "reject output-length" }
    | r :: rest =>
      let v := checkAt st.M st.S st.L r relToSum
      if isOk v then { st with outs := rest, last := r, lit := st.lit || v != "ok" }
      else if v.startsWith "soft " then
        { st with outs := rest, last := r, soft := st.soft.orElse fun _ => some (v ++ s!" at-prefix={st.idx}") }
      else { st with err := some (v ++ s!" at-prefix={st.idx}") }
  else st

def Acc.run (x : Float) (stride n : Nat) (relToSum : Bool) : Nat → Acc → Acc
  | 0, st => st
  | k + 1, st => if st.err.isSome then st else Acc.run x stride n relToSum k (st.feed x stride n relToSum)

def accumulate (runs : List (Float × Nat)) (outs : List Float) (stride : Nat) (relToSum : Bool) : Acc :=
  let n := runs.foldl (fun a r => a + r.2) 0
  let st := runs.foldl (fun st r => Acc.run r.1 stride n relToSum r.2 st)
    { M := negInf, S := 0.0, L := 0.0, idx := 0, outs := outs, last := nan, lit := false, soft := none, err := none }
  if st.err.isNone && !st.outs.isEmpty then { st with err := some "reject output-length" } else st

/-- coverage tags of a long list: length, order of magnitude between the largest and the smallest finite entry,
position of the largest entry, mass of everything but the maxima relative to the largest entry -/
def longTags (runs : List (Float × Nat)) (st : Acc) : String :=
  let n := runs.foldl (fun a r => a + r.2) 0
  let fin := (runs.map (·.1)).filter finite
  let lo := fin.foldl (fun m x => if x < m then x else m) st.M
  let dec := ((st.M - lo) / ln10).floor.toUInt64.toNat
  let nmax := (runs.filter (·.1 == st.M)).foldl (fun a r => a + r.2) 0
  let tail := st.S - Float.ofNat nmax
  (if n ≥ 100000 then " n>=1e5" else if n ≥ 10000 then " n>=1e4" else if n ≥ 1000 then " n>=1e3" else " n<1e3")
  ++ s!" span-1e{dec}"
  ++ (match runs with | (x, _) :: _ => if x == st.M then " peak-first" else " peak-later" | [] => "")
  ++ (if tail ≥ 0.05 then " tail-mass>=5%" else if tail ≥ 0.01 then " tail-mass>=1%" else " tail-mass<1%")
  ++ (if runs.any (fun r => isNegInf r.1) then " ln0" else "")
  ++ (if st.lit then " literal-only" else "")

/-- verdict text of the known finding: within 0.5 % of the exact sum, beyond 0.5 % of the largest operand -/
def softVerdict (op : String) (v : String) : String :=
  "reject beyond-largest-operand-bound-within-sum-bound " ++ op ++ " " ++ (v.drop 5).toString

def longNt (runs : List (Float × Nat)) : Bool := (runs.filter (fun r => finite r.1)).foldl (fun a r => a + r.2) 0 ≥ 2

def crossBucket (d : Float) : String :=
  if d ≤ 1e-6 then "cross<=1e-6" else if d ≤ 1e-4 then "cross<=1e-4" else if d ≤ 1e-3 then "cross<=1e-3" else "cross<=1e-2"

def verdict (toks : List String) (out : String) : String :=
  if out.startsWith "PANIC" || out.startsWith "HANG" || out.startsWith "CRASH" then "reject " ++ out.replace " " "_" else
  match toks with
  | ["consts"] =>
    match out.splitOn " " with
    | [a, b] =>
      match parseFloat a, parseFloat b with
      | some l2q, some q2l =>
        let e1 := -10.0 / ln10
        let e2 := -(ln10 / 10.0)
        if !relClose l2q e1 1e-12 then s!"reject log-to-phred-factor got={fshow l2q}" else
        if !relClose q2l e2 1e-12 then s!"reject phred-to-log-factor got={fshow q2l}" else
        if !((l2q * q2l - 1.0).abs ≤ 1e-12) then "reject factors-not-inverse" else
        "ok nt consts" ++ (if l2q == logToPhredF && q2l == phredToLogF then " literals-as-in-theorem" else " literals-drift")
      | _, _ => "bad-op output"
    | _ => "bad-op output"
  | ["checked", v] =>
    match parseFloat v with
    | none => "bad-op parse"
    | some x =>
      let should := x ≥ 0.0 && x ≤ 1.0
      if out = "err" then (if should then "reject valid-probability-refused" else "ok nt checked refused")
      else match out.splitOn ":" with
        | ["ok", w] =>
          match parseFloat w with
          | some y => if !should then "reject invalid-probability-accepted" else if y == x then "ok nt checked accepted" else "reject checked-changed-value"
          | none => "bad-op output"
        | _ => "bad-op output"
  | ["fexp", v] =>
    match parseFloat v, parseFloat out with
    | some x, some r =>
      if r.isNaN then "reject nan" else
      let e := Float.exp x
      if e == 0.0 then (if r == 0.0 then "ok fexp underflow" else s!"reject fexp-value got={fshow r}") else
      -- documented cut-off `MIN_VAL` of fastexp itself: not an operation the property lists; tallied only
      if x ≤ minValF && r == 0.0 then "ok fexp cutoff" else
      let rel := (r - e).abs / e
      if rel ≤ tolFast then "ok nt fexp " ++ errBucket rel else s!"reject fexp-value exact={fshow e} got={fshow r}"
    | _, _ => "bad-op parse"
  | ["add", a, b] =>
    match parseFloat a, parseFloat b, parseFloat out with
    | some x, some y, some r =>
      let v := checkLin [x, y] [] r
      if isOk v then v ++ (if finite x && finite y then " nt" else "") ++ " add" ++ pairTags x y else v
    | _, _, _ => "bad-op parse"
  | ["sub", a, b] =>
    match parseFloat a, parseFloat b, parseFloat out with
    | some x, some y, some r =>
      if x < y then "bad-op a<b" else
      let v := checkLin [x] [y] r
      if isOk v then v ++ (if finite x && finite y then " nt" else "") ++ " sub" ++ pairTags x y else v
    | _, _, _ => "bad-op parse"
  | ["1m", a] =>
    match parseFloat a, parseFloat out with
    | some x, some r =>
      let v := checkLin [0.0] [x] r
      if isOk v then v ++ (if finite x && x < 0.0 then " nt" else "") ++ " 1m"
        ++ (if x < switchF then " fast-branch" else " exact-branch") ++ pairTags 0.0 x else v
    | _, _ => "bad-op parse"
  | ["sum", l] =>
    match parseFloatList l, parseFloat out with
    | some xs, some r =>
      let v := checkLin xs [] r
      let nf := (xs.filter finite).length
      if isOk v then v ++ (if nf ≥ 2 then " nt" else "") ++ " sum" ++ (if xs.isEmpty then " empty" else "")
        ++ (if xs.any isNegInf then " ln0" else "") ++ (if xs.length ≥ 20 then " long" else "")
        ++ (if (xs.filter (· == maxOf xs)).length ≥ 2 && nf ≥ 2 then " several-maxima" else "") else v
    | _, _ => "bad-op parse"
  | ["cumsum", l] =>
    match parseFloatList l, parseFloatList out with
    | some xs, some rs =>
      if xs.length ≠ rs.length then "reject cumsum-length" else
      let rec go (k : Nat) (fuel : Nat) : String :=
        match fuel with
        | 0 => "ok"
        | fuel + 1 =>
          if k > xs.length then "ok" else
          let v := checkLin (xs.take k) [] (rs.getD (k - 1) nan)
          if isOk v then go (k + 1) fuel else v ++ s!" at-prefix={k}"
      let v := go 1 xs.length
      if isOk v then v ++ (if (xs.filter finite).length ≥ 2 then " nt" else "") ++ " cumsum"
        ++ (if xs.isEmpty then " empty" else "") ++ (if xs.any isNegInf then " ln0" else "") else v
    | _, _ => "bad-op parse"
  | [op, ds, a, b, n] =>
    if op ≠ "trap" && op ≠ "simp" then "bad-op unknown" else
    match parseDens ds, parseFloat a, parseFloat b, parseNat n, parseFloat out with
    | some d, some a, some b, some n, some r =>
      if n < 2 || !(a < b) then "bad-op interval" else
      let (terms, fac) := quadTerms d a b n (op = "simp")
      let v := checkLin terms [] (r - fac) true
      if isOk v then v ++ (if (terms.filter finite).length ≥ 2 then " nt" else "") ++ " " ++ op ++ s!" n{n}"
        ++ (if terms.any isNegInf then " ln0" else "")
        ++ (if maxOf terms - (terms.filter finite).foldl (fun m x => if x < m then x else m) 0.0 > 690.0 then " 300-orders-apart" else "")
      else v
    | _, _, _, _, _ => "bad-op parse"
  | ["grid", ds, g] =>
    match parseDens ds, parseFloatList g, parseFloat out with
    | some d, some g, some r =>
      let terms := gridTerms d g
      let v := checkLin terms [] r true
      if isOk v then v ++ (if (terms.filter finite).length ≥ 2 then " nt" else "") ++ s!" grid"
        ++ (if g.length < 3 then " short-grid" else "") ++ (if terms.any isNegInf then " ln0" else "") else v
    | _, _, _ => "bad-op parse"
  | ["conv", chain, v] =>
    match parseFloat v, parseFloat out with
    | some x, some r =>
      let cs := chain.toList
      match convRef cs x, cs.getLast? with
      | some e, some k =>
        if r.isNaN then "reject nan" else
        let fast := usesFast cs
        let tol := if fast then tolFast else tolExact
        if closeOn k r e tol then
          "ok" ++ (if finite x && x != 0.0 then " nt" else "") ++ " conv-" ++ chain ++ (if fast then " fast" else " exact")
        else
          -- the documented cut-off of fastexp: LogProb ≤ -500 → Prob 0
          match fastOperand cs x with
          | some lx =>
            if fast && lx ≤ minValF && finite lx && Float.exp lx > 0.0 &&
               (match k with | 'p' => r == 0.0 | 'l' => isNegInf r | _ => isPosInf r) then
              s!"reject fastexp-cutoff conv-{chain} operand-ln={fshow lx}"
            else s!"reject conversion expected={fshow e} got={fshow r}"
          | none => s!"reject conversion expected={fshow e} got={fshow r}"
      | _, _ => "bad-op chain"
    | _, _ => "bad-op parse"
  | ["lsum", l] =>
    match parseRle l, parseFloat out with
    | some runs, some r =>
      let n := runs.foldl (fun a r => a + r.2) 0
      let st := accumulate runs [r] n false
      match st.err, st.soft with
      | some e, _ => e
      | none, some v => softVerdict "lsum" v
      | none, none => "ok" ++ (if longNt runs then " nt" else "") ++ " lsum" ++ longTags runs st
    | _, _ => "bad-op parse"
  | ["lcumsum", stride, l] =>
    match parseNat stride, parseRle l, out.splitOn " " with
    | some stride, some runs, [ps, total] =>
      match parseFloatList ps, parseFloat total with
      | some outs, some tot =>
        if stride = 0 then "bad-op stride" else
        let st := accumulate runs outs stride false
        match st.err with
        | some e => e
        | none =>
          -- the n-ary sum of the same list: against the reference, and against the last cumulative value
          -- (both are within 0.5 % of the largest operand of the same exact number, hence within 1 % of each other)
          let v := checkAt st.M st.S st.L tot false
          if v.startsWith "reject" then v ++ " ln_sum_exp-of-the-list" else
          let d := if isNegInf st.M then 0.0 else (sexp st.last st.M - sexp tot st.M).abs
          let tolX := if st.soft.isSome || v.startsWith "soft" then 2.0 * tolFast * st.S else 2.0 * tolFast
          if !(d ≤ tolX) then s!"reject cumsum-last-vs-sum last={fshow st.last} sum={fshow tot}" else
          if v.startsWith "soft" then softVerdict "lsum-of-lcumsum" v else
          if let some sv := st.soft then softVerdict "lcumsum" sv else
          "ok" ++ (if longNt runs then " nt" else "") ++ " lcumsum " ++ crossBucket d ++ longTags runs st
      | _, _ => "bad-op output"
    | _, _, _ => "bad-op parse"
  | ["lchain", order, stride, l] =>
    match parseNat stride, parseRle l, parseFloatList out with
    | some stride, some runs, some outs =>
      if stride = 0 || !(order = "l" || order = "r" || order = "a") then "bad-op stride/order" else
      let st := accumulate runs outs stride true
      match st.err with
      | some e => e
      | none => "ok" ++ (if longNt runs then " nt" else "") ++ " lchain-" ++ order ++ longTags runs st
    | _, _, _ => "bad-op parse"
  | _ => "bad-op unknown"

end RbV.Drv.C15
