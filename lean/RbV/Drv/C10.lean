import RbV.Basic.Codec
import RbV.Ref.MyersHit
import RbV.Drv.C09
import RbV.Model.MyersTraceback
import RbV.Model.MyersTracebackLong
/-! Driver for property C10: Myers traceback and API agreement.

`c10 <ws> <wl> <new|bld> <pattern> <amb> <wild> <search>/… => <obs>/…`
   search = `E:<k>:<script>:<text>` (eager API) | `L:<k>:<seed>:<text>` (lazy API)
   obs    = `H=<start:end:dist:ops,…>;X=<…>;stop=<0|1>;q=<n>;u=<n>;api:same|api:differs:<what>`

Per search: every hit in `H` must pass `EditDist.checkHit` (proved ⇔ `HitOK`: valid labelled alignment of the whole
pattern with t[start..end], #non-match = dist = the minimum edit distance over all substrings ending at end-1, ≤ k);
the (end-1, dist) of `H` must be exactly the expected `find_all_end` list (a prefix when the iterator was dropped);
every traceback in `X` (visited non-hit ends, single-word version) must pass the same test without the bound k;
the harness-side API comparison must say `api:same`. -/
namespace RbV.Drv.C10
open RbV.Codec RbV.EditDist RbV.Drv.C09

def parseOps (s : String) : Option (List Op) :=
  s.toList.mapM fun c =>
    if c = 'M' then some Op.mat else if c = 'S' then some Op.sub
    else if c = 'I' then some Op.ins else if c = 'D' then some Op.del else none

def parseHit (s : String) : Option Hit :=
  match s.splitOn ":" with
  | [a, b, c, o] =>
    match parseNat a, parseNat b, parseNat c, parseOps o with
    | some st, some en, some d, some ops => some ⟨st, en, d, ops⟩
    | _, _, _, _ => none
  | _ => none

def parseHits (s : String) : Option (List Hit) := parseList parseHit s

structure Obs where
  hits : List Hit
  extra : List Hit
  stop : Bool
  queries : Nat
  unvisited : Nat
  api : String

/-- `key=value` -/
def kvEq (tok : String) : Option (String × String) :=
  match tok.splitOn "=" with
  | k :: rest@(_ :: _) => some (k, "=".intercalate rest)
  | _ => none

def parseObs (s : String) : Option Obs :=
  match s.splitOn ";" with
  | [h, x, st, q, u, api] =>
    match kvEq h, kvEq x, kvEq st, kvEq q, kvEq u with
    | some ("H", hs), some ("X", xs), some ("stop", sv), some ("q", qs), some ("u", us) =>
      match parseHits hs, parseHits xs, parseNat qs, parseNat us with
      | some hl, some xl, some qn, some un => some ⟨hl, xl, sv = "1", qn, un, api⟩
      | _, _, _, _ => none
    | _, _, _, _, _ => none
  | _ => none

/-- verdict of one search: `none` = fine (with tags), `some reason` = violation -/
def checkSearch (ws wl : Nat) (eqv : Nat → Nat → Bool) (p : List Nat) (search obs : String) : Except String (Option String × String) :=
  match search.splitOn ":" with
  | [kind, ks, _script, th] =>
    match parseNat ks, parseHex th with
    | some k, some t =>
      if !(kind = "E" || kind = "L") then .error "search-kind" else
      match parseObs obs with
      | none => .ok (some ("unparseable-observation " ++ obs), "")
      | some o =>
        let row := lastRow (unitW eqv) p t
        let exp := hitsFrom k 0 row
        let got := o.hits.map fun h => (h.stop - 1, h.dist)
        let m := p.length
        if o.api ≠ "api:same" then .ok (some ("api-disagree " ++ o.api), "") else
        match o.hits.find? (fun h => !checkHitRow row eqv p t k h) with
        | some h => .ok (some ("bad-hit " ++ toString h.start ++ ":" ++ toString h.stop ++ ":" ++ toString h.dist), "")
        | none =>
        match o.extra.find? (fun h => !checkHitRow row eqv p t h.dist h) with
        | some h => .ok (some ("bad-traceback-at-visited-end " ++ toString h.start ++ ":" ++ toString h.stop ++ ":" ++ toString h.dist), "")
        | none =>
        if (if o.stop then got ≠ exp.take got.length else got ≠ exp) then
          .ok (some ("hits-differ-from-expected " ++ showPairs exp), "")
        else
          -- the matrix-level model of the traceback rule (Subst > Ins > Del > Match) predicts start and path; it is
          -- proved to yield accepted hits (`traceback_rule_sound`), so a difference is a different (valid) tie-break
          -- or a drift of the model, never a violation
          let mat := RbV.Model.MyersTraceback.matrix (unitW eqv) p t
          let same := (o.hits ++ o.extra).all fun h =>
            let r := RbV.Model.MyersTraceback.walkF (RbV.Model.MyersTraceback.Dm mat) (m + h.stop) m h.stop
            r.1 == h.start && r.2.reverse == h.ops
          -- the stored-state model of the single-word version (`tracebackStore`, proved to return the rule's
          -- prediction for hits: `traceback_model_sound`, and for every searched end with the lazy store:
          -- `traceback_model_sound_lazy`): the ring of `find_all` (m + min(k,m) + 2 slots, stale contents) for the hits,
          -- the store of `find_all_lazy` (n + 2 slots) for the hits and the non-hit ends of a lazy search
          let stateSame : Option Bool :=
            if ws = 0 || (o.hits ++ o.extra).isEmpty then none else
            let old := fun (n : Nat) => (List.range n).map fun i =>
              (⟨BitVec.ofNat ws (0x5a5a5a5a5a5a5a5a + i), BitVec.ofNat ws (0x3333333333333333 * i), 7 * i % 256⟩ :
                RbV.Model.MyersSimple.St ws)
            let agrees := fun (N : Nat) (hs : List Hit) =>
              let res := RbV.Model.MyersTraceback.scanStore ws eqv p 255 N (old N) t
                (fun c => hs.any fun h => h.stop == c)
              hs.all fun h => res.any fun r => r.1 == h.stop && r.2.1 == h.start && r.2.2.1 == h.dist && r.2.2.2 == h.ops
            let nE := m + min k m + 2
            let nL := t.length + 2
            some (agrees nE o.hits && (kind = "E" || agrees nL (o.hits ++ o.extra)))
          -- the mirror model of the block-based handler (`Model/MyersTracebackLong.lean`: band-limited columns of the C09
          -- model, sentinel block, stale slots, block switching; `scanStoreL` reports `tracebackStoreL` at every wanted
          -- end — `scanL_is_model` — which is proved to return the rule's prediction for every hit:
          -- `traceback_long_model_sound`, lazy store: `traceback_long_model_sound_lazy`)
          let blockSame : Option Bool :=
            if wl = 0 || o.hits.isEmpty then none else
            let nb := (m + wl - 1) / wl
            let old := fun (n : Nat) => (List.range (n * nb)).map fun i =>
              (⟨BitVec.ofNat wl (0x5a5a5a5a5a5a5a5a + i), BitVec.ofNat wl (0x3333333333333333 * i), 7 * i % 256⟩ :
                RbV.Model.MyersSimple.St wl)
            let agrees := fun (N : Nat) (hs : List Hit) =>
              let res := RbV.Model.MyersTracebackLong.scanStoreL wl eqv p k N (old N) t
                (fun c => hs.any fun h => h.stop == c)
              hs.all fun h => res.any fun r => r.1 == h.stop && r.2.1 == h.start && r.2.2.1 == h.dist && r.2.2.2 == h.ops
            some (agrees (m + min k m + 2) o.hits && (kind = "E" || agrees (t.length + 2) o.hits))
          let indel := o.hits.any fun h => h.ops.any (fun x => x = Op.ins || x = Op.del)
          let tags := (if kind = "E" then " eager" else " lazy")
            ++ (if o.hits.any (fun h => h.dist > 0) then " nt" else "")
            ++ (if indel then " indel" else "")
            ++ (if o.hits.any (fun h => h.start = 0) then " start0" else "")
            ++ (if o.hits.any (fun h => h.start = h.stop) then " emptysub" else "")
            ++ (if k ≥ m then " k>=m" else "")
            ++ (if kind = "E" && t.length > m + min k m + 2 && !o.hits.isEmpty then " wrap" else "")
            ++ (if kind = "E" && t.length > 2 * (m + min k m + 2) && !o.hits.isEmpty then " wrap2" else "")
            ++ (if o.stop then " stop" else "")
            ++ (if !o.extra.isEmpty then " nonhit-trace" else "")
            ++ (if o.unvisited > 0 then " unvisited-probed" else "")
            ++ (if o.hits.isEmpty then " nohit" else "")
            ++ (if (o.hits ++ o.extra).isEmpty then "" else if same then " tb-model-same" else " tb-drift")
            ++ (match stateSame with
                | none => ""
                | some true => " tb-state-model-same"
                | some false => " tb-state-drift")
            ++ (match blockSame with
                | none => ""
                | some true => " tb-block-model-same"
                | some false => " tb-block-drift")
          .ok (none, tags)
    | _, _ => .error "search-parse"
  | _ => .error "search-arity"

def verdict (toks : List String) (out : String) : String :=
  match toks with
  | [wss, wls, mode, ph, ambs, wilds, ss] =>
    match parseNat wss, parseNat wls, parseHex ph, parseAmb ambs, parseHex wilds with
    | some ws, some wl, some p, some amb, some wild =>
      if !((0 :: wordSizes).contains ws) || !((0 :: wordSizes).contains wl) || (ws = 0 && wl = 0)
          || !(mode = "new" || mode = "bld") || p.isEmpty || (ws ≠ 0 && p.length > ws) then
        "bad-op c10-parameters" else
      if out.startsWith "PANIC" || out.startsWith "HANG" || out.startsWith "CRASH" then "reject " ++ out else
      let eqv := mkEqv amb wild
      let searches := ss.splitOn "/"
      let obs := out.splitOn "/"
      if searches.length ≠ obs.length then "reject arity" else
      let rec go (l : List (String × String)) (i : Nat) (tags : String) : String :=
        match l with
        | [] =>
          let w := if wl ≠ 0 then wl else ws
          "ok" ++ dedupTags (tags
            ++ (if ws ≠ 0 && wl ≠ 0 then " both" else if ws ≠ 0 then " single" else " block")
            ++ (if wl ≠ 0 && p.length > wl then " blocks>1" else "")
            ++ (if wl ≠ 0 && p.length > 2 * wl then " blocks>2" else "")
            ++ (if p.length = w then " m=w" else "")
            ++ (if !amb.isEmpty || !wild.isEmpty then " tables" else "")
            ++ (if searches.length > 1 then " reuse" else ""))
        | (s, o) :: r =>
          match checkSearch ws wl eqv p s o with
          | .error e => "bad-op " ++ e
          | .ok (some why, _) => "reject search#" ++ toString i ++ " " ++ why
          | .ok (none, tg) => go r (i + 1) (tags ++ tg)
      go (searches.zip obs) 0 ""
    | _, _, _, _, _ => "bad-op c10-parse"
  | _ => "bad-op c10-arity"

end RbV.Drv.C10
