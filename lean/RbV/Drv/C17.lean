import RbV.Basic.Codec
/-! Driver for property C17 (line protocol → verdict). -/
namespace RbV.Drv.C17
open RbV.Codec

def verdict (_toks : List String) (_out : String) : String := "bad-op unimplemented"

end RbV.Drv.C17
