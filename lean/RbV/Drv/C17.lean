import RbV.Basic.Codec
import RbV.Spec.RankSelect
import RbV.Model.RankSelect
import RbV.Model.Wavelet
import RbV.Gen.Dna2Int
/-! Driver for property C17 (rank/select and wavelet matrix equal naive counting).

```
c17 rs k:<k> n:<n> f:<0|1> <hex> r:<all|list> s:<all|list> => r1:<…> r0:<…> s1:<…> s0:<…> g:<hex>
c17 wm <hex text> => <ranks of A>;<C>;<G>;<T>;<N>;<$>
c17 tab dna2int => <128 entries>
```
The `DNA2INT` table is not copied: `Gen.Dna2Int.table` is extracted from the source text on every run (DESIGN §8);
the printed table must equal it (tag `gen=src`) and pass the proved checker `tableOk`; `drift` = it differs from the
pinned copy `dna2intLit` (still injective: not a violation).
Expected values come from `rankRef` / `selectRef` / `occ` (evaluated through the one-pass tables
`prefixCounts` / `positions`, proved equal to them).  The mirror models (`RbV.Model.RankSelect`,
`RbV.Model.Wavelet`) are evaluated on every query as well; they are proved equal to the references
(`RbV/Thm/C17.lean`), so a disagreement is a defect of this machinery (`bad-op`), never a verdict on rust-bio. -/
namespace RbV.Drv.C17
open RbV.Codec RbV.Spec.RankSelect

def kvOf (tok key : String) : Option String :=
  match tok.splitOn ":" with
  | [k, v] => if k = key then some v else none
  | _ => none

/-- little-endian bits of the bytes, first `n` -/
def bitsOf (bytes : List Nat) (n : Nat) : List Bool :=
  (bytes.flatMap (fun b => (List.range 8).map (fun i => b.testBit i))).take n

def optStr : Option Nat → String
  | some v => toString v
  | none => "N"

def parseOptNat (s : String) : Option (Option Nat) :=
  if s = "N" then some none else s.toNat?.map some

def firstDiff : List (Option Nat) → List (Option Nat) → Nat → Option Nat
  | [], [], _ => none
  | a :: as, b :: bs, k => if a = b then firstDiff as bs (k + 1) else some k
  | _, _, k => some k

def cmpField (name : String) (idx : List Nat) (exp : List (Option Nat)) (tok : String) : Option String :=
  match (kvOf tok name).bind (fun s => parseList parseOptNat s) with
  | none => some s!"bad-op output-{name}"
  | some got =>
    match firstDiff exp got 0 with
    | none => none
    | some k => some s!"diff rs-{name} q:{idx.getD k 0} exp:{optStr (exp.getD k none)} got:{match got[k]? with | some g => optStr g | none => "<missing>"}"

def verdictRs (kT nT fT hx rT sT out : String) : String :=
  match (kvOf kT "k").bind String.toNat?, (kvOf nT "n").bind String.toNat?, (kvOf fT "f").bind String.toNat?,
        parseHex hx, kvOf rT "r", kvOf sT "s" with
  | some k, some n, some _, some bytes, some rl, some sl =>
    if k = 0 ∨ n = 0 ∨ bytes.length ≠ (n + 7) / 8 then "bad-op shape" else
    let bits := bitsOf bytes n
    match (if rl = "all" then some (List.range (n + 1)) else parseNatList rl),
          (if sl = "all" then some (List.range (n + 2)) else parseNatList sl) with
    | some ris, some sjs =>
      let pc1 := (prefixCounts true bits 0).toArray
      let pc0 := (prefixCounts false bits 0).toArray
      let ps1 := (positions true bits 0).toArray
      let ps0 := (positions false bits 0).toArray
      let er1 := ris.map (fun i => pc1[i]?)
      let er0 := ris.map (fun i => pc0[i]?)
      let es1 := sjs.map (fun j => if j = 0 then none else ps1[j - 1]?)
      let es0 := sjs.map (fun j => if j = 0 then none else ps0[j - 1]?)
      -- mirror model of superblocks / rank_1 / rank_0 / select_x, blocks read from an array
      let blocks := (Model.RankSelect.chunks bits).toArray
      let gb := fun b => blocks.getD b []
      let rs := Model.RankSelect.build bits k gb
      let mr1 := ris.map (fun i => Model.RankSelect.rank1 n rs.s gb rs.sbs1 i)
      let mr0 := ris.map (fun i => Model.RankSelect.rank0 n rs.s gb rs.sbs1 i)
      let ms1 := sjs.map (fun j => Model.RankSelect.selectX n rs.s gb rs.sbs1 true j)
      let ms0 := sjs.map (fun j => Model.RankSelect.selectX n rs.s gb rs.sbs0 false j)
      if mr1 ≠ er1 ∨ mr0 ≠ er0 ∨ ms1 ≠ es1 ∨ ms0 ≠ es0 then "bad-op model-and-spec-disagree" else
      if out.startsWith "PANIC" || out.startsWith "HANG" || out.startsWith "CRASH" then "reject rs-" ++ out else
      match out.splitOn " " with
      | [a, b, c, d, g] =>
        match cmpField "r1" ris er1 a with
        | some v => v
        | none =>
        match cmpField "r0" ris er0 b with
        | some v => v
        | none =>
        match cmpField "s1" sjs es1 c with
        | some v => v
        | none =>
        match cmpField "s0" sjs es0 d with
        | some v => v
        | none =>
          if kvOf g "g" ≠ some (toHex bytes) then "diff rs-get exp:" ++ toHex bytes else
          let ones := ps1.size
          let s := 32 * k
          "ok" ++ (if n ≥ 9 then " nt" else "") ++ s!" rs k{k}"
            ++ (if n > s then " multi-sb" else "") ++ (if n % s = 0 then " n=m*s" else "")
            ++ (if n % 8 = 0 then " n%8=0" else " padded")
            ++ (if ones = 0 then " all0" else "") ++ (if ones = n then " all1" else "")
            ++ (if n > 300 then " long" else "")
      | _ => "bad-op output"
    | _, _ => "bad-op queries"
  | _, _, _, _, _, _ => "bad-op parse"

def verdictWm (hx out : String) : String :=
  match parseHex hx with
  | some text =>
    if text.isEmpty then "bad-op empty" else
    if out.startsWith "PANIC" || out.startsWith "HANG" || out.startsWith "CRASH" then "reject wm-" ++ out else
    match parseListNE parseNatList out ';' with
    | some rows =>
      let exp := dnaSyms.map (fun c => (prefixCounts true (text.map (· == c)) 0))
      -- mirror model of the three-level wavelet matrix over the code table extracted from the source on this run
      -- (`RbV/Gen/Dna2Int.lean`, tools/gen_tables.py); `dna2int_generated_ok` (Thm/C17) is re-proved over it
      let code := fun v => Gen.Dna2Int.table.getD v 0
      let levels := Model.Wavelet.build code text
      let pcs := (levels.map (fun lv => ((prefixCounts false lv.bits 0).toArray, (prefixCounts true lv.bits 0).toArray))).toArray
      let rk := fun (level : Nat) (b : Bool) (i : Nat) =>
        match pcs[level]? with
        | some (p0, p1) => if b then p1[i]? else p0[i]?
        | none => none
      let mod := dnaSyms.map (fun c => (List.range text.length).map (fun p => Model.Wavelet.rank code rk levels c p))
      -- `wavelet_rank_correct_generated`: model = spec whenever the extracted table passes `tableOk`; a table that fails
      -- it is the code's defect (reported below through the ranks and by the `tab` case), not one of this machinery
      if tableOk Gen.Dna2Int.table && mod ≠ exp then "bad-op model-and-spec-disagree" else
      if rows = exp then
        let distinct := (dnaSyms.filter (fun c => text.contains c)).length
        "ok" ++ (if text.length ≥ 2 ∧ distinct ≥ 2 then " nt" else "") ++ s!" wm syms{distinct}"
          ++ (if text.length ≥ 33 then " len>=33" else "")
      else
        let bad := (List.range 6).filter (fun r => rows[r]? ≠ exp[r]?)
        s!"diff wm sym:{dnaSyms.getD (bad.headD 0) 0} exp:{showNatList (exp.getD (bad.headD 0) [])}"
    | none => "bad-op output"
  | none => "bad-op parse"

def verdictTab (out : String) : String :=
  match parseNatList out with
  | some t =>
    if !tableOk t then "reject dna2int-not-injective-on-ACGTN$" else
    -- cross-check of the two extraction paths: the table the harness read out of the source it was compiled from
    -- (`include_str!`) against the table tools/gen_tables.py wrote into `Gen/Dna2Int.lean` from the same tree before
    -- this driver was built.  A difference is a defect of the machinery (stale generated file, extractor bug).
    if t ≠ Gen.Dna2Int.table then "bad-op generated-table-differs-from-compiled-source" else
    "ok tab gen=src" ++ (if t = dna2intLit then "" else " drift")
  | none =>
    -- the harness could not find a `DNA2INT` array literal in the compiled source text (the table was restructured): the
    -- cross-check of the extraction is unavailable, the ranks themselves are still decided against `occ` (DESIGN §15)
    if out.startsWith "BADCASE" then "ok tab gen=unavailable" else "bad-op output"

def verdict (toks : List String) (out : String) : String :=
  match toks with
  | ["rs", k, n, f, hx, r, s] => verdictRs k n f hx r s out
  | ["wm", hx] => verdictWm hx out
  | ["tab", "dna2int"] => verdictTab out
  | _ => "bad-op arity"

end RbV.Drv.C17
