import RbV.Basic.Codec
import RbV.Spec.Occ
import RbV.Spec.QGram
import RbV.Spec.KChain
import RbV.Model.QGramIter
import RbV.Model.QGramMatches
import RbV.Model.QGramIndex
import RbV.Model.QGramExact
import RbV.Model.LcskFwd
import RbV.Model.Lcskpp
import RbV.Model.Sdpkpp
import RbV.Model.KmerHash
import RbV.Model.Expand
/-! Driver for property C19 (line protocol → verdict).

```
c19 codes  <alpha hex> <q> <text hex> <gram/gram/…|->              => w=<width> f=<codes> r=<codes> x=<codes of the extra q-grams>
c19 idx    <alpha hex> <q> <max_count|max> <text hex> <query;query;…>
                                                               => ok <res;res;…>   |   BUILDPANIC <class>
           query  g:<gram hex> | m:<min_count>:<pattern hex> | e:<pattern hex>
           res    positions | ps:pe:ts:te:count,… | ps:pe:ts:te,… | P!<panic class>
c19 kmer   <k> <x hex> <y hex> <match_score> <gap_open> <gap_extend>
                                                               => m=<pairs> h1=<pairs> h2=<pairs> score=<n> path=<idx> sdp=<idx> uni=<idx>
c19 lcs    <k> <x:y,x:y,…>                                     => score=<n> path=<idx> dp=<scores> dpf=<score:ptr+1,…>
c19 sdp    <k> <match_score> <gap_open> <gap_extend> <x:y,…>   => sdp=<idx> uni=<idx>
c19 expand <k> <allowed_mismatches> <x hex> <y hex> <x:y,…>    => exp=<pairs> score=<n> path=<idx>
```
(gap_open / gap_extend are given as magnitudes; the harness negates them.) -/
namespace RbV.Drv.C19
open RbV RbV.Codec RbV.QGram RbV.KChain

def leLex : List Nat → List Nat → Bool
  | [], _ => true
  | _ :: _, [] => false
  | a :: l, b :: r => a < b || (a == b && leLex l r)

def sortRecs (l : List (List Nat)) : List (List Nat) := l.mergeSort (fun a b => leLex a b)

def parseRec (n : Nat) (s : String) : Option (List Nat) :=
  match parseList parseNat s ':' with
  | some l => if l.length = n then some l else none
  | none => none

def parseRecs (n : Nat) (s : String) : Option (List (List Nat)) := parseList (parseRec n) s ','

def showRecs (l : List (List Nat)) : String :=
  if l.isEmpty then "-" else ",".intercalate (l.map fun r => ":".intercalate (r.map toString))

def parsePairs (s : String) : Option (List M) :=
  (parseRecs 2 s).map (·.map fun r => (r.getD 0 0, r.getD 1 0))

def showPairs (l : List M) : String := showRecs (l.map fun p => [p.1, p.2])

/-- value of `name=` among space separated output fields -/
def outField (out : String) (name : String) : Option String :=
  (out.splitOn " ").findSome? fun f =>
    match f.splitOn "=" with
    | [k, v] => if k = name then some v else none
    | _ => none

def isPow2 (n : Nat) : Bool := n > 0 && 2 ^ (Nat.log2 n) == n

def strictLex (ms : List M) : Bool :=
  match ms with
  | [] => true
  | a :: r => (r.zip (a :: r)).all fun (b, a) => a.1 < b.1 || (a.1 == b.1 && a.2 < b.2)

def inAlpha (A : List Nat) (s : List Nat) : Bool := s.all (A.contains ·)

/-! ### codes -/

/-- first pair of positions at which "equal codes ⇔ equal q-grams" fails -/
def codeClash (words : List (List Nat)) (cs : List Nat) : Option String :=
  let ps := words.zip cs
  ps.findSome? fun (w1, c1) => ps.findSome? fun (w2, c2) =>
    if w1 == w2 && c1 != c2 then some s!"code-not-a-function-of-the-qgram {toHex w1}:{c1}/{c2}"
    else if w1 != w2 && c1 == c2 then some s!"code-collision {toHex w1}/{toHex w2}:{c1}"
    else none

def verdictCodes (ah qs th xs out : String) : String :=
  match parseHex ah, parseNat qs, parseHex th, parseList parseHex xs '/' with
  | some alpha, some q, some text, some extras =>
    let A := alphaSet alpha
    let b := bitsFor A.length
    if A.isEmpty || q = 0 || !inAlpha A text || !(extras.all fun g => g.length == q && inAlpha A g) then "bad-op codes-domain" else
    if b * q > 64 then
      if out.startsWith "PANIC" then "ok refused" else "ok out-of-domain"
    else
    match (outField out "w").bind parseNat, (outField out "f").bind parseNatList, (outField out "r").bind parseNatList,
          (outField out "x").bind parseNatList with
    | some w, some f, some r, some x =>
      let exp := fwdCodes A q text
      -- the mirror models of the two iterators are proved equal to the reference (Thm.C19.qgrams_model_refines,
      -- rev_qgrams_mirror); they are run as well so that a disagreement could only be a driver defect
      if qgramsModel A q text ≠ exp || revQgramsModel A q text ≠ exp.reverse then "bad-op model-vs-reference" else
      let ws := windows q text
      -- what the property fixes: one code per window, equal codes exactly for equal q-grams, reverse iteration mirrors
      if f.length ≠ ws.length then s!"reject codes-count expected {ws.length}" else
      if x.length ≠ extras.length then "bad-op codes-extra-arity" else
      match codeClash (ws ++ extras) (f ++ x) with
      | some why => "reject " ++ why
      | none =>
      if r ≠ f.reverse then "reject rev-not-mirror-of-forward" else
      -- what it does not fix (the documented encoding, `get_width`): reported as drift only
      "ok" ++ (if exp.length ≥ 2 && A.length ≥ 2 then " nt" else "") ++ " codes"
        ++ (if f ≠ exp || x ≠ extras.map (fun g => code b (g.map (rank A))) then " drift-encoding" else "")
        ++ (if w ≠ b then " drift-width" else "")
        ++ (if !isPow2 A.length then " np2" else "") ++ (if b * q = 64 then " full-word" else "")
        ++ (if b * q > 32 then " wide" else "") ++ (if exp.isEmpty then " short-text" else "")
    | _, _, _, _ => if out.startsWith "PANIC" || out.startsWith "HANG" || out.startsWith "CRASH" then "reject " ++ out else "bad-op codes-output"
  | _, _, _, _ => "bad-op codes-parse"

/-! ### index -/

inductive Query where
  | g (gram : List Nat)
  | m (minc : Nat) (pat : List Nat)
  | e (pat : List Nat)

def parseQuery (s : String) : Option Query :=
  match s.splitOn ":" with
  | ["g", h] => (parseHex h).map Query.g
  | ["m", c, h] => do let c ← parseNat c; let p ← parseHex h; pure (Query.m c p)
  | ["e", h] => (parseHex h).map Query.e
  | _ => none

def Query.pat : Query → List Nat
  | .g p => p | .m _ p => p | .e p => p

/-- outcome of one query: `none` = as expected; `some (known, text)` -/
def checkQuery (A : List Nat) (q mc : Nat) (text : List Nat) (qu : Query) (res : String) :
    Option (Bool × String) × List String :=
  let b := bitsFor A.length
  let cap := A.length ^ q
  let patCodes := fwdCodes A q qu.pat
  let oobQ := patCodes.any (· ≥ cap)
  let panicked := res.startsWith "P!"
  let classify (negdiag : Bool) : Option (Bool × String) :=
    if res.startsWith "P!index-out-of-bounds" && oobQ then some (true, "oob-nonpow2 query " ++ res)
    else if res.startsWith "P!attempt-to-subtract-with-overflow" && negdiag then some (true, "negdiag-underflow matches " ++ res)
    else some (false, "unexpected-panic " ++ res)
  match qu with
  | .g gram =>
    let exp := qgramPositions mc gram text
    -- mirror model of the index construction (Thm.C19.index_model_refines), run for small tables
    let size := 2 ^ (b * q)
    if size ≤ 1024 && qgramMatchesModel (buildIndex size mc (fwdCodes A q text)) (code b (gram.map (rank A))) ≠ exp then
      (some (false, "BADOP index-model-vs-reference"), []) else
    if panicked then (classify false, []) else
    match parseNatList res with
    | some l => if l = exp then (none, (if exp.isEmpty then [] else ["g-hit"]) ++
                  (if (occurrences gram text).length > mc then ["masked"] else [])) else (some (false, "g " ++ showNatList exp), [])
    | none => (some (false, "unparsable " ++ res), [])
  | .m minc pat =>
    let H := hits mc q pat text
    let negdiag := H.any fun h => h.1 > h.2
    let exp := sortRecs ((matchesRef mc q minc pat text).map fun r => [r.1, r.2.1, r.2.2.1, r.2.2.2.1, r.2.2.2.2])
    -- mirror model of the Rust loop, proved to report the same records (Thm.C19.matches_model_refines)
    let mdl := sortRecs ((matchesModel mc q minc pat text).map fun r => [r.1, r.2.1, r.2.2.1, r.2.2.2.1, r.2.2.2.2])
    if mdl ≠ exp then (some (false, "BADOP model-vs-reference"), []) else
    if panicked then (classify negdiag, []) else
    match parseRecs 5 res with
    | some l => if sortRecs l = exp then (none, (if exp.isEmpty then [] else ["m-hit"]) ++ (if negdiag then ["negdiag-ok"] else [])
                    ++ (if exp.length ≥ 2 then ["m-multi-diag"] else []) ++ (if exp.any (fun r => r.getD 4 0 ≥ 2) then ["m-count>=2"] else [])
                    ++ (if (matchesRef mc q 0 pat text).length > exp.length then ["m-filtered"] else []))
                else if sortRecs l = sortRecs ((matchesRef (2 ^ 64 - 1) q minc pat text).map fun r => [r.1, r.2.1, r.2.2.1, r.2.2.2.1, r.2.2.2.2])
                  then (none, ["unmasked-reading"])   -- the property does not say how `matches` treats masked q-grams
                else (some (false, "m " ++ showRecs exp), [])
    | none => (some (false, "unparsable " ++ res), [])
  | .e pat =>
    let raw := exactMatchesRef mc q pat text
    let exp := sortRecs (raw.map fun r => [r.1, r.2.1, r.2.2.1, r.2.2.2])
    -- mirror model of the Rust loop, proved to report the same records (Thm.C19.exact_matches_model_refines)
    if sortRecs ((exactMatchesModel mc q pat text).map fun r => [r.1, r.2.1, r.2.2.1, r.2.2.2]) ≠ exp then
      (some (false, "BADOP exact-model-vs-reference"), []) else
    if panicked then (classify false, []) else
    match parseRecs 4 res with
    | some l => if sortRecs l = exp then (none, (if exp.isEmpty then [] else ["e-hit"])
                    ++ (if exp.any (fun r => r.getD 1 0 - r.getD 0 0 > q) then ["e-long"] else [])
                    ++ (if exp.length ≥ 2 then ["e-multi"] else [])
                    ++ (if (exp.map fun r => (r.getD 2 0 : Int) - (r.getD 0 0 : Int)).eraseDups.length < exp.length then ["e-split-diag"] else [])
                    ++ (if exp.any (fun r => r.getD 0 0 > r.getD 2 0) then ["e-negdiag"] else []))
                else if sortRecs l = sortRecs ((exactMatchesRef (2 ^ 64 - 1) q pat text).map fun r => [r.1, r.2.1, r.2.2.1, r.2.2.2])
                  then (none, ["unmasked-reading"])   -- nor how `exact_matches` does
                else (some (false, "e " ++ showRecs exp), [])
    | none => (some (false, "unparsable " ++ res), [])

def verdictIdx (ah qs mcs th qus out : String) : String :=
  match parseHex ah, parseNat qs, (if mcs = "max" then some (2 ^ 64 - 1) else parseNat mcs), parseHex th,
        parseListNE parseQuery qus ';' with
  | some alpha, some q, some mc, some text, some queries =>
    let A := alphaSet alpha
    let b := bitsFor A.length
    if A.isEmpty || q = 0 || b * q > 64 || !inAlpha A text || !(queries.all fun qu => inAlpha A qu.pat) then "bad-op idx-domain" else
    if queries.any (fun qu => match qu with | .g gram => gram.length ≠ q | _ => false) then "bad-op gram-length" else
    let cap := A.length ^ q
    let oobText := (fwdCodes A q text).any (· ≥ cap)
    if out.startsWith "BUILDPANIC " then
      if (out.drop 11).toString.startsWith "index-out-of-bounds" && oobText then "reject oob-nonpow2 build " ++ out
      else "reject build-panic " ++ out
    else if !out.startsWith "ok " then
      (if out.startsWith "PANIC" || out.startsWith "HANG" || out.startsWith "CRASH" then "reject " ++ out else "bad-op idx-output")
    else
    let ress := ((out.drop 3).toString.splitOn ";")
    if ress.length ≠ queries.length then "bad-op idx-arity" else
    let outcomes := (queries.zip ress).map fun (qu, r) => checkQuery A q mc text qu r
    let bad := outcomes.filterMap (·.1)
    match bad.find? (fun x => !x.1) with
    | some (_, msg) => if msg.startsWith "BADOP" then "bad-op " ++ msg else "diff " ++ msg
    | none =>
      match bad.head? with
      | some (_, msg) => "reject " ++ msg
      | none =>
        let tags := (outcomes.flatMap (·.2)).eraseDups
        let nt := text.length ≥ q && tags.any (fun t => t = "g-hit" || t = "m-hit" || t = "e-hit")
        "ok" ++ (if nt then " nt" else "") ++ " idx" ++ (if !isPow2 A.length then " np2" else "")
          ++ (if oobText then " np2-high-code" else "") ++ (if mcs ≠ "max" then " maxcount" else "")
          ++ String.join (tags.map (" " ++ ·))
  | _, _, _, _, _ => "bad-op idx-parse"

/-! ### sparse -/

def chainVerdict (what : String) (ms : List M) (k : Nat) (path : List Nat) : Option String :=
  if !path.all (· < ms.length) then some (what ++ "-index-out-of-range")
  else if !validChain ms k path then some (what ++ "-chain-invalid")
  else none

def optOf (ms : List M) (k : Nat) : Option Nat :=
  let d := lcskDP ms k
  if ms.length ≤ 12 && enumOpt ms k ≠ d then none else some d

def lcsCheck (ms : List M) (k : Nat) (out : String) : Option String × List String :=
  match (outField out "score").bind parseNat, (outField out "path").bind parseNatList with
  | some sc, some path =>
    match chainVerdict "lcskpp" ms k path with
    | some r => (some ("reject " ++ r), [])
    | none =>
      match optOf ms k with
      | none => (some "bad-op oracle-dp-vs-enum", [])
      | some opt =>
        let mdl : Option Model.Lcskpp.Res := match Model.Lcskpp.lcskpp ms k with | .ok r => some r | .error _ => none
        -- proved: on a strictly sorted list the model answers, with the optimum (a failure is a driver/model defect)
        if (match mdl with | some r => r.score ≠ opt || !validChain ms k r.path || score k (pathMatches ms r.path) ≠ opt | none => true)
          then (some "bad-op lcskpp-model-vs-oracle", []) else
        let cs := score k (pathMatches ms path)
        if cs ≠ opt then (some s!"reject lcskpp-chain-not-optimal chain-score={cs} optimum={opt}", [])
        else if sc ≠ opt then (some s!"diff score {opt}", [])
        else (none, (if path.length ≥ 2 then ["chain>=2"] else []) ++
              -- internal state: the `dp_vector` scores against the recurrence they implement (Thm.C19.dp_cell_is_best_chain_ending);
              -- not fixed by the property, so a difference is only a drift tag
              (match (outField out "dp").bind parseNatList with
               | some dp => if dp = dpScores ms k then ["dp-cells-agree"] else ["drift-dp-cells"]
               | none => ["dp-not-reported"]) ++
              -- the mirror model of the whole routine (event sort, Fenwick sweep, traceback), proved optimal
              -- (Thm.C19.lcskpp_model_optimal); which optimal chain / which dp cells is not fixed by the property ⇒ drift tags
              (match mdl with
               | some r =>
                 (if r.path = path && r.score = sc then ["model-path-score-agree"] else
                    (if r.path ≠ path then ["drift-model-path"] else []) ++ (if r.score ≠ sc then ["drift-model-score"] else [])) ++
                 (match (outField out "dpf").bind parsePairs with
                  | some dpf => if dpf = r.dp.map (fun c => (c.1, (c.2 + 1).toNat)) then ["model-dp-vector-agrees"] else ["drift-model-dp-vector"]
                  | none => ["dpf-not-reported"])
               | none => []) ++
              (if (pathMatches ms path).zip ((pathMatches ms path).drop 1) |>.any (fun (a, b) => cont a b && !nonov k a b) then ["has-cont"] else []) ++
              (if (pathMatches ms path).zip ((pathMatches ms path).drop 1) |>.any (fun (a, b) => nonov k a b) then ["has-jump"] else []) ++
              (if ms.length ≤ 12 then ["enum-checked"] else []))
  | _, _ => (some "bad-op lcs-output", [])

def panicOr (out : String) (v : String) : String :=
  if out.startsWith "PANIC" || out.startsWith "HANG" || out.startsWith "CRASH" then "reject " ++ out else v

def verdictLcs (ks mss out : String) : String :=
  match parseNat ks, parsePairs mss with
  | some k, some ms =>
    if k = 0 || !strictLex ms then "bad-op lcs-domain" else
    match lcsCheck ms k out with
    | (some v, _) => panicOr out v
    | (none, tags) => "ok" ++ (if ms.length ≥ 2 && tags.contains "chain>=2" then " nt" else "") ++ " lcs" ++ String.join (tags.map (" " ++ ·))
  | _, _ => "bad-op lcs-parse"

def sdpCheck (ms : List M) (k : Nat) (par : Option (Nat × Nat × Nat)) (out : String) : Option String × List String :=
  match (outField out "sdp").bind parseNatList, (outField out "uni").bind parseNatList with
  | some p1, some p2 =>
    match chainVerdict "sdpkpp" ms k p1 with
    | some r => (some ("reject " ++ r), [])
    | none =>
      match chainVerdict "union" ms k p2 with
      | some r => (some ("reject " ++ r), [])
      | none =>
        -- mirror models of sdpkpp / the union (Thm.C19.sdpkpp_model_valid): proved to answer with a valid chain on every
        -- strictly sorted list; which chain / which score the implementation returns is not fixed by the property ⇒ drift tags
        let mdlTags : Option (List String) := match par with
          | none => some []
          | some (msc, go, ge) =>
            match Model.Sdpkpp.sdpkpp ms k msc go ge, Model.Sdpkpp.unionPath ms k msc go ge with
            | .ok r, .ok u =>
              if !validChain ms k r.path || (!ms.isEmpty && r.path.isEmpty) then none else
              some ((if r.path = p1 then ["sdp-model-path-agrees"] else ["drift-sdp-model-path"]) ++
                (if u = p2 then ["union-model-agrees"] else ["drift-union-model"]) ++
                (match (outField out "sdpscore").bind parseNat with
                 | some sc => if sc = r.score then [] else ["drift-sdp-model-score"]
                 | none => []) ++
                (match (outField out "sdpf").bind parsePairs with
                 | some dpf => if dpf = r.dp.map (fun c => (c.1, (c.2 + 1).toNat)) then ["sdp-model-dp-vector-agrees"] else ["drift-sdp-model-dp-vector"]
                 | none => []))
            | _, _ => none
        match mdlTags with
        | none => (some "bad-op sdpkpp-model", [])
        | some mt => (none, (if p1.length ≥ 2 then ["sdp-chain>=2"] else []) ++ (if p2 ≠ p1 then ["union-differs"] else []) ++ mt)
  | _, _ => (some "bad-op sdp-output", [])

def parsePar (a b c : String) : Option (Nat × Nat × Nat) :=
  match parseNat a, parseNat b, parseNat c with
  | some x, some y, some z => some (x, y, z)
  | _, _, _ => none

def verdictSdp (ks a b c mss out : String) : String :=
  match parseNat ks, parsePairs mss with
  | some k, some ms =>
    if k = 0 || !strictLex ms then "bad-op sdp-domain" else
    match sdpCheck ms k (parsePar a b c) out with
    | (some v, _) => panicOr out v
    | (none, tags) => "ok" ++ (if tags.contains "sdp-chain>=2" then " nt" else "") ++ " sdp" ++ String.join (tags.map (" " ++ ·))
  | _, _ => "bad-op sdp-parse"

def verdictKmer (ks xh yh a b c out : String) : String :=
  match parseNat ks, parseHex xh, parseHex yh with
  | some k, some x, some y =>
    if k = 0 then "bad-op kmer-domain" else
    let exp := kmerMatches x y k
    -- mirror models of the hash-map based matchers, proved equal to the reference (Thm.C19.find_kmer_matches_model_refines)
    if Model.KmerHash.findKmerMatches x y k ≠ exp || Model.KmerHash.seq1Hashed (Model.KmerHash.hashKmers x k) y k ≠ exp
        || Model.KmerHash.seq2Hashed x (Model.KmerHash.hashKmers y k) k ≠ exp then "bad-op kmer-model-vs-reference" else
    match (outField out "m").bind parsePairs, (outField out "h1").bind parsePairs, (outField out "h2").bind parsePairs with
    | some m, some h1, some h2 =>
      if m ≠ exp then "diff m " ++ showPairs exp else
      if h1 ≠ exp then "diff h1 " ++ showPairs exp else
      if h2 ≠ exp then "diff h2 " ++ showPairs exp else
      match lcsCheck exp k out with
      | (some v, _) => v
      | (none, t1) =>
        match sdpCheck exp k (parsePar a b c) out with
        | (some v, _) => v
        | (none, t2) =>
          "ok" ++ (if exp.length ≥ 2 then " nt" else "") ++ " kmer" ++ (if exp.isEmpty then " no-match" else "")
            ++ (if x.length < y.length then " x-shorter" else " y-shorter-or-equal") ++ String.join ((t1 ++ t2).map (" " ++ ·))
    | _, _, _ => panicOr out "bad-op kmer-output"
  | _, _, _ => "bad-op kmer-parse"

def hamming (a b : List Nat) : Nat := ((a.zip b).filter fun (x, y) => x ≠ y).length

def verdictExpand (ks mms xh yh mss out : String) : String :=
  match parseNat ks, parseNat mms, parseHex xh, parseHex yh, parsePairs mss with
  | some k, some mm, some x, some y, some ms =>
    if k = 0 || !strictLex ms || !(ms.all fun m => m.1 + k ≤ x.length && m.2 + k ≤ y.length) then "bad-op expand-domain" else
    match (outField out "exp").bind parsePairs with
    | some ex =>
      -- demanded: the expansion is a match list the chaining routines accept (strictly sorted), and the chain over it is
      -- valid (and, for lcskpp, optimal).  Not fixed by the property, reported as drift tags: the expansion keeps the seeds,
      -- stays in range, respects the mismatch budget (each side may spend it once ⇒ ≤ 2·allowed per k-mer for exact seeds).
      if !strictLex ex then "reject expand-not-strictly-sorted" else
      let exact := ms.all fun m => window k x m.1 == window k y m.2
      let inRange := ex.all fun m => m.1 + k ≤ x.length && m.2 + k ≤ y.length
      -- mirror model of the expansion (Thm.C19.expand_model_sorted: strictly sorted, keeps the seeds); which positions the
      -- implementation adds is not fixed by the property ⇒ drift tag
      let mdl := Model.Expand.expandKmerMatches x y k ms mm
      if (match mdl with | .ok r => !strictLex r || !(ms.all (r.contains ·)) | .error _ => true) then "bad-op expand-model" else
      match lcsCheck ex k out with
      | (some v, _) => v
      | (none, t1) => "ok" ++ (if ex.length > ms.length then " nt grew" else "") ++ " expand" ++ (if mm = 0 then " mm0" else "")
          ++ (match mdl with | .ok r => if r = ex then " expand-model-agrees" else " drift-expand-model" | .error _ => "")
          ++ (if exact then " exact-seeds" else "")
          ++ (if !(ms.all (ex.contains ·)) then " drift-lost-a-seed" else "")
          ++ (if !inRange then " drift-out-of-range" else "")
          ++ (if exact && inRange && !(ex.all fun m => hamming (window k x m.1) (window k y m.2) ≤ 2 * mm) then " drift-mismatch-budget" else "")
          ++ String.join (t1.map (" " ++ ·))
    | none => panicOr out "bad-op expand-output"
  | _, _, _, _, _ => "bad-op expand-parse"

def verdict (toks : List String) (out : String) : String :=
  match toks with
  | ["codes", a, q, t, xs] => verdictCodes a q t xs out
  | ["idx", a, q, mc, t, qs] => verdictIdx a q mc t qs out
  | ["kmer", k, x, y, a, b, c] => verdictKmer k x y a b c out
  | ["lcs", k, ms] => verdictLcs k ms out
  | ["sdp", k, a, b, c, ms] => verdictSdp k a b c ms out
  | ["expand", k, mm, x, y, ms] => verdictExpand k mm x y ms out
  | _ => "bad-op arity"

end RbV.Drv.C19
