import RbV.Basic.Codec
import RbV.Model.Tsv
/-! Driver for property C13: BED and GFF/GTF round trip, comments, malformed lines.

```
c13 bed <recs> <comments> <fault>                    => w:<hex> r:<results> c:<hex>=<results> rw:x f:<…>
c13 gff <dialect> <recs> <comments> <fault> <style>  => w:<hex> r:<results> c:<hex>=<results> rw:<hex|x> f:<…> m:<…>
```
(see `harness/src/c13.rs` for the syntax).  Checks, all against the model reader `Tsv.readBed` / `Tsv.readGff`
(csv automaton incl. quoting, so every byte string has a defined reading):

* **writer** — the model reader applied to the bytes `w` of the real writer gives the original records
  (attributes as key ↦ value lists), whatever bytes the text columns contain.  A record whose first column starts
  with `#` and needs no quotes (`Tsv.hashStart`) is a comment line in the BED/GFF line format, so a file with such a
  record is **outside the domain**: verdict `ok hash-start-outside-domain` provided nothing panicked or hung and
  every record before the first such record round-trips exactly; nothing is demanded of that record and of what
  follows it.  (A first column that starts with `#` but is quoted by the writer is inside the domain.);
* **reader** — the real reader on `w` (`r`) gives what the model reader gives on `w`; the real reader on `w` with
  comment and blank lines inserted at record boundaries (`c`) gives what the model reader gives on those bytes
  (tag `comments-vanish` when that equals the reading of `w`, which is the rule); (GFF) writing those records again
  (`rw`) reads back to the same records, which also pins the raw score/strand strings that the accessors only show
  in parsed form;
* **faults** — for the corrupted / truncated bytes the model reader fixes, line by line, `ok record` / `err` /
  unspecified; a line that must be an error has to be `err`, lines before the first damaged line have to be
  unchanged, later lines may be `ok` with the right content or `err` (a non-flexible reader may reject them).
-/
namespace RbV.Drv.C13
open RbV.Codec RbV.Tsv

def failed (out : String) : Bool :=
  out.startsWith "PANIC" || out.startsWith "HANG" || out.startsWith "CRASH"

/-! ### rendering of model records in the harness' observation syntax -/

def strandView (s : List Nat) : String := if s = [43] then "f" else if s = [45] then "r" else "n"

def optHex : Option (List Nat) → String
  | none => "N"
  | some v => toHex v

def showBed (r : BedRec) : String :=
  ";".intercalate ([toHex r.chrom, toString r.start, toString r.stop] ++ r.aux.map toHex)
    ++ "~" ++ optHex r.aux[0]? ++ "~" ++ optHex r.aux[1]?
    ++ "~" ++ (match r.aux[2]? with | some s => strandView s | none => "n")

def ltBytes : List Nat → List Nat → Bool
  | [], [] => false
  | [], _ :: _ => true
  | _ :: _, [] => false
  | a :: x, b :: y => if a < b then true else if b < a then false else ltBytes x y

def insertSorted (kv : List Nat × List (List Nat)) : List (List Nat × List (List Nat)) → List (List Nat × List (List Nat))
  | [] => [kv]
  | h :: t => if ltBytes kv.1 h.1 then kv :: h :: t else h :: insertSorted kv t

/-- key ↦ values, keys sorted (the canonical form the harness prints) -/
def canon (pairs : List (List Nat × List Nat)) : List (List Nat × List (List Nat)) :=
  (group pairs).foldl (fun acc kv => insertSorted kv acc) []

def showAttrs (g : List (List Nat × List (List Nat))) : String :=
  if g.isEmpty then "-" else
  ",".intercalate (g.map fun kv => ":".intercalate (toHex kv.1 :: kv.2.map toHex))

/-- `Record::score()`: `.` → None, a number → Some, anything else → None; `none` = not determined -/
def scoreView (s : List Nat) : Option String :=
  if s = [46] then some "N" else
  match readU64 s with
  | .ok n => some (toString n)
  | .err => some "N"
  | .unspec => none

def showGff (r : GffRead) : Option String :=
  match scoreView r.score with
  | none => none
  | some sc =>
    some (";".intercalate [toHex r.seqname, toHex r.source, toHex r.ftype, toString r.start, toString r.stop, sc,
      strandView r.strand, (match r.phase with | none => "n" | some p => toString p), showAttrs (canon r.pairs)])

/-- everything of a GFF record but the attributes (for lines whose attribute column is not of the written form) -/
def dropAttrs (s : String) : String :=
  ";".intercalate ((s.splitOn ";").take 8)

/-! ### input parsing -/

def parseBedRec (s : String) : Option BedRec :=
  match s.splitOn ";" with
  | c :: a :: b :: aux => do
    let c ← parseHex c
    let a ← parseNat a
    let b ← parseNat b
    let aux ← aux.mapM parseHex
    pure ⟨c, a, b, aux⟩
  | _ => none

def parseAttr (s : String) : Option (List (List Nat × List Nat)) :=
  match s.splitOn ":" with
  | k :: vs@(_ :: _) => do
    let k ← parseHex k
    let vs ← vs.mapM parseHex
    pure (vs.map fun v => (k, v))
  | _ => none

def parsePhase (s : String) : Option (Option Nat) :=
  if s = "n" then some none else
  match parseNat s with
  | some p => if p < 3 then some (some p) else none
  | none => none

def parseGffRec (s : String) : Option GffRead :=
  match s.splitOn ";" with
  | [a, b, c, st, en, sc, sd, ph, at'] => do
    let a ← parseHex a
    let b ← parseHex b
    let c ← parseHex c
    let st ← parseNat st
    let en ← parseNat en
    let sc ← parseHex sc
    let sd ← parseHex sd
    let ph ← parsePhase ph
    let at' ← parseList parseAttr at'
    pure ⟨a, b, c, st, en, sc, sd, ph, at'.flatten⟩
  | _ => none

def parseDialect (s : String) : Option Dialect :=
  if s = "gff3" then some gff3 else if s = "gff2" || s = "gtf2" then some gff2 else none

def results (s : String) : List String := if s = "-" then [] else s.splitOn "|"

/-! ### comparison of model outcomes with the real reader's results -/

/-- `some s`: must be `ok=s`; for GFF the second component says whether the attribute column is of the written
form (only then the attributes are compared) -/
structure Exp where
  res : Res String
  attrsCanon : Bool := true
  /-- from this record on nothing is determined (see `laxFlags`) -/
  openTail : Bool := false

def okMatches (e : Exp) (s r : String) : Bool :=
  if e.attrsCanon then r = "ok=" ++ s else r.startsWith "ok=" && dropAttrs r = "ok=" ++ dropAttrs s

/-- first reason for which the real results are not acceptable, if any -/
def matchResults : List Exp → List String → Bool → Bool → Option String
  | [], [], _, _ => none
  | [], _ :: _, _, _ => some "more-records-than-lines"
  | e :: _, [], _, prevErr => if prevErr || e.openTail then none else some "fewer-records-than-lines"
  | e :: es, r :: rs, seenBad, _ =>
    if e.openTail then none else
    if !(r = "err" || r.startsWith "ok=") then some "unparsable-result" else
    match e.res with
    | .ok s =>
      if okMatches e s r then matchResults es rs seenBad false
      else if seenBad && r = "err" then matchResults es rs seenBad true
      else if seenBad then some "record-after-damage-changed"
      else if r = "err" then some "good-line-rejected"
      else some "record-differs"
    | .err why =>
      if r = "err" then matchResults es rs true true else some ("fault-not-error:" ++ why)
    | .unspec => matchResults es rs true (r = "err")

def bedExp (bytes : List Nat) : List Exp :=
  (readBed bytes).map fun
    | .ok r => { res := .ok (showBed r) }
    | .err w => { res := .err w }
    | .unspec => { res := .unspec }

/-- the attribute column is exactly what a writer produces from the matches found in it -/
def attrTiled (d : Dialect) (s : List Nat) : Bool :=
  let ms := scan d (s.length + 1) s
  let again := join d.term (ms.map (renderSeg d))
  s = again || s = again ++ [d.term]

def gffExp (d : Dialect) (bytes : List Nat) : List Exp :=
  let rs := rows bytes
  (readGff d bytes).zip rs |>.map fun (res, row) =>
    match res with
    | .ok r =>
      match showGff r with
      | some s => { res := .ok s, attrsCanon := attrTiled d (row.getD 8 []) }
      | none => { res := .unspec }
    | .err w => { res := .err w }
    | .unspec => { res := .unspec }

/-! ### what the property leaves open in the csv layer

The model reader follows `csv-core` on every byte string.  For bytes that are not the canonical form of any record
the property does not say how they are to be read, so the comparison with the real reader is relaxed there:

* level 1 (that record is `unspec`): a `"` inside an unquoted field; a byte other than `"`, TAB, LF after the closing
  quote of a quoted field;
* level 2 (that record and everything after it is open): a CR outside quotes and comments (the property knows
  LF-terminated lines only); the input ends inside a quoted field (truncation).

None of this occurs in the bytes a correct writer produces (there the comparison is strict). -/

def laxOf (s : Csv) (c : Nat) : Nat :=
  match s.st with
  | .inField => if c = QUOTE then 1 else if c = CR then 2 else 0
  | .quoteInQuoted => if c = QUOTE || c = TAB || c = LF then 0 else if c = CR then 2 else 1
  | .startField => if c = CR then 2 else 0
  | .startRecord => if c = CR then 2 else 0
  | _ => 0

/-- one level per record of `run s bytes`, and the level pending at the end of the input -/
def laxRun : Csv → Nat → List Nat → List Nat × Nat
  | s, cur, [] =>
    match s.st with
    | .startRecord | .inComment => ([], cur)
    | .inQuoted => ([2], 0)
    | _ => ([cur], 0)
  | s, cur, c :: r =>
    let cur' := max cur (laxOf s c)
    match (step s c).2 with
    | some _ => let (l, p) := laxRun (step s c).1 0 r; (cur' :: l, p)
    | none => laxRun (step s c).1 cur' r

def laxFlags (bytes : List Nat) : List Nat × Nat := laxRun Csv.start 0 (bytes ++ [LF])

/-- relax the expectations of a byte string by the levels of its records -/
def relax (es : List Exp) (bytes : List Nat) : List Exp :=
  let (fl, pending) := laxFlags bytes
  let rec go : List Exp → List Nat → List Exp
    | [], _ => if pending ≥ 2 then [{ res := .unspec, openTail := true }] else []
    | e :: es, f :: fs =>
      if f ≥ 2 then [{ res := .unspec, openTail := true }]
      else if f = 1 then { e with res := .unspec } :: go es fs
      else e :: go es fs
    | e :: es, [] => e :: go es []
  go es fl

def isLax (bytes : List Nat) : Bool :=
  let (fl, pending) := laxFlags bytes
  fl.any (· ≥ 1) || pending ≥ 1

def allOk (es : List Exp) : Option (List String) :=
  es.mapM fun e => match e.res with | .ok s => some s | _ => none

/-- reasons of lowest priority: recorded genuine defects (so that any other reason shows first) -/
def lowPriority (r : String) : Bool :=
  r = "writer:attr-multi-first-only" || r = "fault-not-error:phase-ge3" || r = "fault-not-error:cols10"
    || r = "rewrite:attr-multi-first-only"

def pickReason (rs : List String) : Option String :=
  match rs.find? (fun r => !lowPriority r) with
  | some r => some r
  | none => rs.head?

def firstOnly (r : GffRead) : GffRead :=
  { r with pairs := (group r.pairs).map fun kv => (kv.1, kv.2.headD []) }

/-- `cut:o1:o2…` → offsets -/
def parseCuts (fault : String) : Option (List Nat) :=
  match fault.splitOn ":" with
  | "cut" :: offs@(_ :: _) => offs.mapM parseNat
  | _ => none

def faultKind (fault : String) : String := (fault.splitOn ":").headD "?"

structure Obs where
  w : List Nat
  r : List String
  /-- `w` with comment / blank lines inserted, and the real reader's results on that -/
  c : List Nat × List String
  rw : Option (List Nat)
  f : String
  /-- (GFF) bytes in the intended format written by the harness, and the real reader's results on them -/
  m : Option (List Nat × List String) := none

def parseObs (out : String) : Option Obs :=
  match out.splitOn " " with
  | [w, r, c, rw, f] => do
    let w ← (fieldVal w "w").bind parseHex
    let r ← fieldVal r "r"
    let c ← fieldVal c "c"
    let rw ← fieldVal rw "rw"
    let f ← fieldVal f "f"
    let rw ← if rw = "x" then some none else (parseHex rw).map some
    let c ← bytesRes c
    pure ⟨w, results r, c, rw, f, none⟩
  | [w, r, c, rw, f, m] => do
    let w ← (fieldVal w "w").bind parseHex
    let r ← fieldVal r "r"
    let c ← fieldVal c "c"
    let rw ← fieldVal rw "rw"
    let f ← fieldVal f "f"
    let m ← fieldVal m "m"
    let rw ← if rw = "x" then some none else (parseHex rw).map some
    let mm ← bytesRes m
    let c ← bytesRes c
    pure ⟨w, results r, c, rw, f, some mm⟩
  | _ => none
where
  bytesRes (m : String) : Option (List Nat × List String) :=
    match m.splitOn "=" with
    | b :: rest@(_ :: _) => (parseHex b).map fun bytes => (bytes, results ("=".intercalate rest))
    | _ => none
  fieldVal (tok key : String) : Option String :=
    match field tok with
    | some (k, v) => if k = key then some v else none
    | none => none

/-- fault part of the observation → list of (bytes, results) -/
def faultRuns (fault : String) (o : Obs) : Option (List (List Nat × List String)) :=
  if fault = "none" then (if o.f = "-" then some [] else none) else
  match parseCuts fault with
  | some offs =>
    let parts := o.f.splitOn "/"
    if parts.length ≠ offs.length then none else
    some ((offs.zip parts).map fun (off, p) => (o.w.take off, results p))
  | none =>
    match o.f.splitOn "=" with
    | b :: rest@(_ :: _) => (parseHex b).map fun bytes => [(bytes, results ("=".intercalate rest))]
    | _ => none

def faultReasons (mk : List Nat → List Exp) (runs : List (List Nat × List String)) : List String :=
  runs.filterMap fun (bytes, res) => matchResults (relax (mk bytes) bytes) res false false

def tagsOf (kind : String) (fault : String) (nrec : Int) (comments : String) (es : List (List Exp)) : String :=
  " " ++ kind ++ " fault-" ++ faultKind fault
    ++ (if comments = "-" then "" else " comments")
    ++ (if (comments.splitOn "eof:").length > 1 then " eof-comment" else "")
    ++ (if nrec = 0 then " empty-file" else "")
    ++ (if es.any (fun l => l.any fun e => match e.res with | .err _ => true | _ => false) then " err-line" else "")
    ++ (if es.any (fun l => l.any fun e => match e.res with | .unspec => true | _ => false) then " unspec-line" else "")
    ++ (if es.any (fun l => l.any fun e => !e.attrsCanon) then " attr-not-of-written-form" else "")
    ++ (if es.any (fun l => l.any fun e => e.openTail) then " lax-tail" else "")
    ++ (if (match parseCuts fault with | some l => decide (l.length ≥ 20) | none => false) then " many-cuts" else "")

/-- tags for the csv-sensitive classes of field contents -/
def quoteTags (fields : List (List Nat)) (firsts : List (List Nat)) (w : List Nat) : String :=
  let has (p : List Nat → Bool) : Bool := fields.any p
  (if has (·.contains QUOTE) then " q-quote" else "")
    ++ (if has (fun f => f.head? == some QUOTE) then " q-quote-first" else "")
    ++ (if has (·.contains TAB) then " q-tab" else "")
    ++ (if has (·.contains LF) then " q-lf" else "")
    ++ (if has (·.contains CR) then " q-cr" else "")
    ++ (if has (fun f => f.contains 92 && f.any needsQuote) then " q-bslash" else "")
    ++ (if has (fun f => f.contains 92 && f.contains QUOTE) then " q-bslash-quote" else "")
    ++ (if has (·.contains HASH) then " q-hash" else "")
    ++ (if firsts.any (fun f => f.head? == some HASH && f.any needsQuote) then " q-hash-first-quoted" else "")
    ++ (if has (fun f => f.head? == some SPACE || f.getLast? == some SPACE) then " q-blank" else "")
    ++ (if has (·.isEmpty) then " q-empty" else "")
    ++ (if has (fun f => f.any fun c => c < 32 && c != TAB && c != LF && c != CR || c == 127) then " q-ctrl" else "")
    ++ (if w.contains QUOTE then " w-quoted" else "")

/-- bytes of an ASCII literal -/
def lit (s : String) : List Nat := s.toList.map (·.toNat)

/-- tags for dictionary words (format keywords, placeholders, number / boolean spellings) in the text columns:
`kw-ucsc-first` = a first column that begins with `track` / `browser` (a UCSC header keyword tested by prefix would
swallow the record), `kw-first` = a first column that is or begins with another format keyword, `kw-field` = some
column is exactly a keyword / placeholder / number spelling -/
def kwTags (fields : List (List Nat)) (firsts : List (List Nat)) : String :=
  let pre (p : String) (f : List Nat) : Bool := (lit p).isPrefixOf f
  let ucsc := firsts.any fun f => pre "track" f || pre "browser" f
  let first := firsts.any fun f =>
    ["chrom", "gff-version", "sequence-region", "FASTA", ">", "@", "fileformat", "CHROM", "seqid", "seqname", "ID", "Parent",
     "gene_id", "header", "comment", "name", "type", "description"].any (pre · f)
  let whole := fields.any fun f =>
    ["*", "NA", "nan", "NaN", "inf", "null", "NULL", "None", "true", "false", "0x1", "1e3", "007", "+5", "1.0",
     "track", "browser", "chrom", "chr", "ID", "Parent", "gene_id", "name", "score", "strand"].any (lit · == f)
  (if ucsc then " kw-ucsc-first" else "") ++ (if first then " kw-first" else "") ++ (if whole then " kw-field" else "")

/-- real reader on the bytes with comment lines: must agree with the model reader on those bytes -/
def commentsReason (expC : List Exp) (real : List String) : List String :=
  match matchResults expC real false false with
  | some x => ["comments:" ++ x]
  | none => []

/-- the comment and blank lines vanish: the model reads the bytes with them as it reads the bytes without -/
def commentsTag (same : Bool) : String := if same then " comments-vanish" else " comments-absorbed"

/-- a file with a `hashStart` record (its written line is a comment line of the format) is outside the domain: the
`n` records before the first such record must round-trip exactly — model reader on the writer's bytes and real
reader — and nothing is demanded of the rest -/
def outsideDomain (kind : String) (n : Nat) (wExp : List Exp) (origPrefix : Option (List String))
    (r : List String) : String :=
  let modelOk := origPrefix.isSome && allOk (wExp.take n) = origPrefix && decide (n ≤ wExp.length)
  let realOk := origPrefix.map (·.map ("ok=" ++ ·)) == some (r.take n)
  if !modelOk then "reject outside-domain:writer-changed-record-before-hash-start"
  else if !realOk then "reject outside-domain:reader-changed-record-before-hash-start"
  else "ok " ++ kind ++ " hash-start hash-start-outside-domain" ++ (if n ≥ 1 then " hash-start-prefix-checked" else "")

/-- number of records before the first one for which `p` holds, if any -/
def firstIdx {α : Type} (p : α → Bool) (l : List α) : Option Nat :=
  if l.any p then some (l.takeWhile (fun x => !p x)).length else none

def bedVerdict (recs : List BedRec) (comments fault : String) (o : Obs) : String :=
  let wExp := bedExp o.w
  let cExp := bedExp o.c.1
  let orig := recs.map showBed
  match firstIdx (fun r => hashStart (bedFields r)) recs with
  | some n => outsideDomain "bed" n wExp (some (orig.take n)) o.r
  | none =>
  let reasons : List String :=
    (if allOk wExp = some orig then []
     else ["writer:lost-or-changed-data"])
    -- the writer's bytes read as the original records: then the real reader has to return exactly those (round
    -- trip); otherwise it is compared with the model on what the bytes determine
    ++ (match matchResults (if allOk wExp = some orig then wExp else relax wExp o.w) o.r false false with
        | some x => ["read:" ++ x] | none => [])
    ++ commentsReason (relax cExp o.c.1) o.c.2
  match faultRuns fault o with
  | none => "bad-op fault-output"
  | some runs =>
    let reasons := reasons ++ faultReasons bedExp runs
    match pickReason reasons with
    | some r => "reject " ++ r
    | none =>
      let k := match recs with | r :: _ => r.aux.length | [] => 0
      "ok" ++ (if k ≥ 1 && !recs.isEmpty then " nt" else "")
        ++ tagsOf "bed" fault recs.length comments (runs.map fun (b, _) => relax (bedExp b) b)
        ++ (if runs.any (fun (b, _) => isLax b) then " lax-fault" else "")
        ++ (if k = 0 then " k0" else if k ≥ 3 then " k>=3" else " k1-2")
        ++ commentsTag (readBed o.c.1 == readBed o.w)
        ++ quoteTags (recs.flatMap fun r => r.chrom :: r.aux) (recs.map (·.chrom)) o.w
        ++ kwTags (recs.flatMap fun r => r.chrom :: r.aux) (recs.map (·.chrom))

def gffVerdict (dn : String) (d : Dialect) (recs : List GffRead) (comments fault style : String) (o : Obs) : String :=
  match o.m with
  | none => "bad-op output-m"
  | some (mBytes, mRes) =>
  let mExp := gffExp d mBytes
  -- the harness' own writer must produce the intended format: the model reads it back to the original
  if !((recs.mapM showGff).isSome && allOk mExp = recs.mapM showGff) then "bad-op harness-writer" else
  let wExp := gffExp d o.w
  let orig := recs.mapM showGff
  let origFirst := (recs.map firstOnly).mapM showGff
  let multi := recs.any fun r => (group r.pairs).any fun kv => kv.2.length ≥ 2
  match firstIdx (fun r => hashStart [r.seqname]) recs with
  | some n => outsideDomain dn n wExp ((recs.take n).mapM showGff) o.r
  | none =>
  let writerReason : List String :=
    if orig.isSome && allOk wExp = orig then []
    else if multi && origFirst.isSome && allOk wExp = origFirst then ["writer:attr-multi-first-only"]
    else ["writer:lost-or-changed-data"]
  let rwReason : List String :=
    match o.rw with
    | none => []
    | some b =>
      let e2 := gffExp d b
      if allOk e2 = allOk wExp then [] else
      let firsts : Option (List String) :=
        ((readGff d o.w).mapM fun (x : Res GffRead) => match x with | Res.ok r => some (firstOnly r) | _ => none).bind
          (·.mapM showGff)
      if multi && (allOk wExp).isSome && allOk e2 = firsts then ["rewrite:attr-multi-first-only"] else ["rewrite:changed-data"]
  let reasons : List String := writerReason
    ++ (match matchResults (if writerReason.isEmpty then wExp else relax wExp o.w) o.r false false with
        | some x => ["read:" ++ x] | none => [])
    ++ commentsReason (relax (gffExp d o.c.1) o.c.1) o.c.2
    ++ (match matchResults mExp mRes false false with | some x => ["read-intended:" ++ x] | none => [])
    ++ rwReason
  match faultRuns fault o with
  | none => "bad-op fault-output"
  | some runs =>
    let reasons := reasons ++ faultReasons (gffExp d) runs
    match pickReason reasons with
    | some r => "reject " ++ r
    | none =>
      let nvals := recs.map fun r => r.pairs.length
      "ok" ++ (if nvals.any (· ≥ 2) then " nt" else "")
        ++ tagsOf dn fault recs.length comments (runs.map fun (b, _) => relax (gffExp d b) b)
        ++ (if runs.any (fun (b, _) => isLax b) then " lax-fault" else "")
        ++ (if multi then " multi-valued" else "") ++ " style-" ++ style
        ++ (if recs.any (fun r => r.pairs.isEmpty) then " no-attrs" else "")
        ++ commentsTag (readGff d o.c.1 == readGff d o.w)
        ++ quoteTags (recs.flatMap fun r => [r.seqname, r.source, r.ftype, r.score, r.strand]) (recs.map (·.seqname)) o.w
        ++ (if recs.any (fun r => r.pairs.any fun kv => (kv.1 ++ kv.2).any fun c => c == QUOTE || c == LF || c == CR || c == 92)
            then " q-attr" else "")
        ++ kwTags (recs.flatMap fun r => [r.seqname, r.source, r.ftype, r.score, r.strand] ++ r.pairs.flatMap fun kv => [kv.1, kv.2])
            (recs.map (·.seqname))

def verdict (toks : List String) (out : String) : String :=
  match toks with
  | ["bed", rs, cm, ft] =>
    match parseList parseBedRec rs '/' with
    | some recs =>
      if failed out then "reject " ++ out else
      match parseObs out with
      | some o => bedVerdict recs cm ft o
      | none => "bad-op output"
    | none => "bad-op parse"
  | ["gff", dn, rs, cm, ft, style] =>
    match parseDialect dn, parseList parseGffRec rs '/' with
    | some d, some recs =>
      if failed out then "reject " ++ out else
      match parseObs out with
      | some o => gffVerdict dn d recs cm ft style o
      | none => "bad-op output"
    | _, _ => "bad-op parse"
  | _ => "bad-op arity"

end RbV.Drv.C13
