import RbV.Basic.Codec
import RbV.Spec.Orf
import RbV.Spec.Alphabet
import RbV.Spec.Gc
import RbV.Ref.Complement
import RbV.Model.OrfScan
/-! Driver for property C20: ORF finder, complements, alphabets / rank transform, GC content.

```
c20 orf <starts> <stops> <min_len> <seq>  => s:e:o,s:e:o,…          accepted by `Orf.acceptOrf` (sandwich)
c20 rc <dna|rna> <seq>                    => <revcomp> <revcomp²>    = model revcomp over the dumped table, = seq
c20 comp <dna|rna>                        => 256 bytes               = the dumped table (Gen/Complement.lean)
c20 alpha <symbols> <t1>/<t2>/…           => len max emp w r t ra    = `Alpha` model
c20 gc <seq>                              => <gc> <gc3>              within 1e-6 of the exact ratios
```
-/
namespace RbV.Drv.C20
open RbV.Codec

def failed (out : String) : Bool :=
  out.startsWith "PANIC" || out.startsWith "HANG" || out.startsWith "CRASH"

def parseCodon (s : String) : Option (List Nat) :=
  match parseHex s with
  | some c => if c.length = 3 then some c else none
  | none => none

def parseTriple (s : String) : Option (Nat × Nat × Nat) :=
  match s.splitOn ":" with
  | [a, b, c] => do
    let a ← parseNat a
    let b ← parseNat b
    let c ← parseNat c
    pure (a, b, c)
  | _ => none

def showTriple (t : Nat × Nat × Nat) : String := s!"{t.1}:{t.2.1}:{t.2.2}"

def orfVerdict (starts stops : List (List Nat)) (minLen : Nat) (seq : List Nat) (out : List (Nat × Nat × Nat)) :
    String :=
  let all := Orf.allOrfs seq starts stops
  if Orf.acceptOrf seq starts stops minLen out then
    let nt := !all.isEmpty
    let frames := (all.map (fun p => p.1 % 3)).eraseDups
    let ends := all.map (·.2)
    let model := Model.OrfScan.findAll starts stops minLen seq
    let tags := (if nt then " nt" else " no-orf")
      ++ (if out.isEmpty then " none-reported" else "")
      ++ (if frames.length ≥ 2 then " multi-frame" else "")
      ++ (if ends.eraseDups.length < ends.length then " nested" else "")
      ++ (if all.any (fun p => minLen ≤ p.2 - p.1 && p.2 - p.1 ≤ minLen + 2) then " boundary" else "")
      ++ (if all.any (fun p => p.2 - p.1 < minLen) then " short-filtered" else "")
      ++ (if out.length ≥ 3 then " out>=3" else "")
      ++ (if model = out then "" else " drift")
    "ok" ++ tags
  else
    match out.find? (fun t => !(Orf.isOrfB seq starts stops t.1 t.2.1)) with
    | some t => "reject not-an-orf " ++ showTriple t
    | none =>
    match out.find? (fun t => !(decide (minLen ≤ t.2.1 - t.1))) with
    | some t => "reject shorter-than-min " ++ showTriple t
    | none =>
    match out.find? (fun t => !(t.2.2 == t.1 % 3)) with
    | some t => "reject wrong-offset " ++ showTriple t
    | none =>
    if !(decide out.Nodup) then "reject reported-twice" else
    match all.find? (fun p => !(decide (p.2 - p.1 ≤ minLen + 2) || out.contains (p.1, p.2, p.1 % 3))) with
    | some p => s!"reject missing {p.1}:{p.2}:{p.1 % 3}"
    | none => "reject orf"

def table (kind : String) : Option (List Nat) :=
  if kind = "dna" then some Gen.Complement.dna
  else if kind = "rna" then some Gen.Complement.rna
  else none

/-- `key:value` token → value, if the key matches -/
def fieldVal (tok key : String) : Option String :=
  match field tok with
  | some (k, v) => if k = key then some v else none
  | none => none

def bits (l : List Bool) : String := String.ofList (l.map fun b => if b then '1' else '0')

def alphaVerdict (syms : List Nat) (texts : List (List Nat)) (out : String) : String :=
  let A := Alpha.mk syms
  let expLen := toString A.length
  let expMax := match Alpha.maxSymbol A with | some m => toString m | none => "n"
  let expEmp := if A.isEmpty then "1" else "0"
  let words := texts.map (Alpha.isWord A)
  let expW := bits words
  let expR := toHex (syms.map (Alpha.rank A))
  let expT := "/".intercalate (texts.map fun t => if Alpha.isWord A t then toHex (Alpha.transform A t) else "nw")
  let exp := s!"len:{expLen} max:{expMax} emp:{expEmp} w:{expW} r:{expR} t:{expT} ra:1"
  if out = exp then
    let nt := A.length ≥ 2 && words.any id && texts.any (fun t => t.length ≥ 2)
    "ok" ++ (if nt then " nt" else "") ++ " alpha"
      ++ (if A.length = 256 then " a256" else "") ++ (if A.isEmpty then " a0" else "")
      ++ (if words.any (!·) then " nonword" else "")
      ++ (if syms.length > A.length then " dup-symbols" else "")
  else "diff " ++ exp

/-- decimal digits → number -/
def digitsVal (s : String) : Option Nat := if s.isEmpty then none else s.toNat?

/-- parse the `{:e}` rendering of a non-negative finite float (`3.3333334e-1`, `0e0`) into a fraction -/
def parseSci (s : String) : Option (Nat × Nat) :=
  match s.splitOn "e" with
  | [m, e] =>
    match e.toInt? with
    | none => none
    | some ex =>
      let parts := m.splitOn "."
      match parts with
      | [ip] => do
        let d ← digitsVal ip
        if ex ≥ 0 then pure (d * 10 ^ ex.toNat, 1) else pure (d, 10 ^ (-ex).toNat)
      | [ip, fp] => do
        let d ← digitsVal (ip ++ fp)
        let sc : Int := ex - fp.length
        if sc ≥ 0 then pure (d * 10 ^ sc.toNat, 1) else pure (d, 10 ^ (-sc).toNat)
      | _ => none
  | _ => none

def gcVerdict (seq : List Nat) (out : String) : String :=
  match out.splitOn " " with
  | [a, b] =>
    match parseSci a, parseSci b with
    | some (p, q), some (p3, q3) =>
      let l := seq.length
      let c := Gc.gcCount seq
      if !Gc.within1e6 p q c l then s!"diff gc {c}/{l}" else
      let first := Gc.every3 seq 0
      let third := Gc.every3 seq 2
      let okFirst := Gc.within1e6 p3 q3 (Gc.gcCount first) first.length
      let okThird := !third.isEmpty && Gc.within1e6 p3 q3 (Gc.gcCount third) third.length
      if okFirst || okThird then
        "ok gc" ++ (if l ≥ 2 && 0 < c && c < l then " nt" else "")
          ++ (if okFirst then "" else " gc3-third-position") ++ (if l ≥ 1000 then " long" else "")
      else s!"diff gc3 {Gc.gcCount first}/{first.length}"
    | _, _ => "reject gc-not-a-finite-number " ++ out
  | _ => "bad-op output"

def verdict (toks : List String) (out : String) : String :=
  match toks with
  | ["orf", st, sp, ml, sq] =>
    match parseList parseCodon st, parseList parseCodon sp, parseNat ml, parseHex sq with
    | some starts, some stops, some minLen, some seq =>
      if starts.any (fun c => stops.contains c) then "bad-op start-and-stop-sets-overlap" else
      if failed out then "reject " ++ out else
      match parseList parseTriple out with
      | some o => orfVerdict starts stops minLen seq o
      | none => "bad-op output"
    | _, _, _, _ => "bad-op parse"
  | ["rc", kind, sq] =>
    match table kind, parseHex sq with
    | some tbl, some seq =>
      if failed out then "reject " ++ out else
      let exp := toHex (Compl.revcomp tbl seq) ++ " " ++ toHex seq
      if out = exp then
        "ok rc" ++ (if seq.length ≥ 2 && seq.any (fun b => Compl.comp tbl b != b) then " nt" else "")
      else "diff " ++ exp
    | _, _ => "bad-op parse"
  | ["comp", kind] =>
    match table kind with
    | some tbl =>
      if failed out then "reject " ++ out else
      if out = toHex tbl then "ok nt table" else "diff " ++ toHex tbl
    | none => "bad-op parse"
  | ["alpha", sy, ts] =>
    match parseHex sy, parseListNE parseHex ts '/' with
    | some syms, some texts => if failed out then "reject " ++ out else alphaVerdict syms texts out
    | _, _ => "bad-op parse"
  | ["gc", sq] =>
    match parseHex sq with
    | some seq =>
      if seq.isEmpty then "bad-op empty-sequence" else
      if failed out then "reject " ++ out else gcVerdict seq out
    | none => "bad-op parse"
  | _ => "bad-op arity"

end RbV.Drv.C20
