import RbV.Basic.Codec
/-! Driver for property C20 (line protocol → verdict). -/
namespace RbV.Drv.C20
open RbV.Codec

def verdict (_toks : List String) (_out : String) : String := "bad-op unimplemented"

end RbV.Drv.C20
