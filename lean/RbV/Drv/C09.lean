import RbV.Basic.Codec
import RbV.Ref.EditDist
import RbV.Model.Ukkonen
import RbV.Model.MyersSimple
import RbV.Model.MyersLong
/-! Driver for property C09: approximate matchers and distance functions.

`c09 my <s|l> <w> <new|bld> <pattern> <amb> <wild> <op>/… => <obs>/…`
      ops `f:<k>:<text>` (find_all_end → `j:d,…`), `d:<text>` (distance), `b:<text>` (find_best_end → `j:d`);
      an operation that panicked is `P`.  Single-word version with |p| > w: the whole line must be `PANIC …`.
`c09 uk <unit|tab:<s>:<digits>> <cap> <k>:<pattern>:<text>/… => <j:d,…>/…`
`c09 dist <ham|lev|sham|slev|blev> <a> <b> <k> => n | none | PANIC …`

Expected values come from `EditDist.lastRow` (proved: entry j = min over all starts of `ed`), `EditDist.edFast`
(proved = `ed`) and `EditDist.hamming`. -/
namespace RbV.Drv.C09
open RbV.Codec RbV.EditDist

/-- `-` or `;`-separated `<sym hex>:<equivalents hex>` -/
def parseAmb (s : String) : Option (List (Nat × List Nat)) :=
  if s = "-" then some [] else
    (s.splitOn ";").mapM fun item =>
      match item.splitOn ":" with
      | [a, b] =>
        match parseHex a, parseHex b with
        | some [x], some e => some (x, e)
        | _, _ => none
      | _ => none

/-- pattern symbol `a` matches text symbol `b`: equal, or `b` listed as an equivalent of `a`, or `b` a text wildcard -/
def mkEqv (amb : List (Nat × List Nat)) (wild : List Nat) (a b : Nat) : Bool :=
  a == b || wild.contains b ||
    (match amb.find? (fun e => e.1 == a) with
     | some e => e.2.contains b
     | none => false)

def showPairs (l : List (Nat × Nat)) : String :=
  if l.isEmpty then "-" else ",".intercalate (l.map fun (j, d) => toString j ++ ":" ++ toString d)

def wordSizes : List Nat := [8, 16, 32, 64]

/-- expected observation of one Myers operation; `none` = unparseable; `some none` = anything is accepted -/
def expectOp (eqv : Nat → Nat → Bool) (p : List Nat) (op : String) : Option (Option String × String) :=
  match op.splitOn ":" with
  | ["f", ks, th] =>
    match parseNat ks, parseHex th with
    | some k, some t =>
      let hs := hits (unitW eqv) p t k
      let tag := (if hs.isEmpty then "" else " hit") ++ (if k ≥ p.length then " k>=m" else "")
        ++ (if hs.length < t.length && !hs.isEmpty && hs.any (fun h => h.2 > 0) then " nt" else "")
      some (some (showPairs hs), tag)
    | _, _ => none
  | ["d", th] =>
    match parseHex th with
    | some t =>
      match firstMin 0 (lastRow (unitW eqv) p t) with
      | some (_, d) => some (some (toString d), " dist" ++ (if p.length ≥ 2 && d > 0 then " nt" else ""))
      | none => some (none, " empty-text")
    | none => none
  | ["b", th] =>
    match parseHex th with
    | some t =>
      match firstMin 0 (lastRow (unitW eqv) p t) with
      | some (j, d) => some (some (toString j ++ ":" ++ toString d), " best" ++ (if p.length ≥ 2 && d > 0 then " nt" else ""))
      | none => some (none, " empty-text")
    | none => none
  | _ => none

/-- the mirror model of the single-word matcher (`Model.MyersSimple`, proved equal to the oracle for 1 ≤ |p| ≤ w) resp. of
the block-based matcher (`Model.MyersLong`: blocks, carries, band-limited activation) on a `f:<k>:<text>` operation;
`none` for the other operations -/
def modelOp (simple : Bool) (w : Nat) (eqv : Nat → Nat → Bool) (p : List Nat) (op : String) : Option String :=
  match op.splitOn ":" with
  | ["f", ks, th] =>
    match parseNat ks, parseHex th with
    | some k, some t =>
      some (showPairs (if simple then RbV.Model.MyersSimple.findAllEnd w eqv p t k
                       else RbV.Model.MyersLong.findAllEnd w eqv p t k))
    | _, _ => none
  | _ => none

def dedupTags (s : String) : String :=
  let ws := (s.splitOn " ").filter (· ≠ "")
  let u := ws.foldl (fun acc x => if acc.contains x then acc else acc ++ [x]) []
  if u.isEmpty then "" else " " ++ " ".intercalate u

def verdictMy (toks : List String) (out : String) : String :=
  match toks with
  | [impl, ws, mode, ph, ambs, wilds, opss] =>
    match parseNat ws, parseHex ph, parseAmb ambs, parseHex wilds with
    | some w, some p, some amb, some wild =>
      if !(impl = "s" || impl = "l") || !wordSizes.contains w || !(mode = "new" || mode = "bld") || p.isEmpty then
        "bad-op my-parameters" else
      if impl = "s" && p.length > w then
        if out.startsWith "PANIC" then "ok refused" else "reject pattern-longer-than-word-not-refused"
      else
      if out.startsWith "PANIC" || out.startsWith "HANG" || out.startsWith "CRASH" then "reject " ++ out else
      let eqv := mkEqv amb wild
      let ops := opss.splitOn "/"
      let obs := out.splitOn "/"
      if ops.length ≠ obs.length then "reject arity" else
      match ops.mapM (expectOp eqv p) with
      | none => "bad-op my-operation"
      | some exps =>
        let ok := (exps.zip obs).all fun (e, o) => match e.1 with
          | some s => s == o
          | none => true
        -- single-word version: run the mirror model too; it is proved equal to the oracle, so a difference between
        -- model and oracle is a drift of the compiled driver, never a violation
        let drift := (ops.zip exps).any fun (op, e) =>
          match modelOp (impl = "s") w eqv p op, e.1 with
          | some ms, some es => ms != es
          | _, _ => false
        let tags := dedupTags (String.join (exps.map (·.2)) ++ " " ++ impl ++ toString w
          ++ (if drift then " drift" else "")
          ++ (if p.length = w then " m=w" else "") ++ (if p.length > w then " blocks>1" else "")
          ++ (if p.length > 2 * w then " blocks>2" else "")
          ++ (if !amb.isEmpty || !wild.isEmpty then " tables" else "") ++ (if ops.length > 1 then " reuse" else ""))
        if ok then "ok" ++ tags
        else
          -- which operations differ (kind=P for a panic, kind=v for a wrong value) and how many blocks the pattern spans
          let mism := ((ops.zip exps).zip obs).filterMap fun ((op, e), o) => match e.1 with
            | some s =>
              if s == o then none else
              let kind := match op.splitOn ":" with
                | ["f", ks, _] => if (parseNat ks).getD 0 + w ≥ 2 ^ 64 then "fbig" else "f"
                | k :: _ => k
                | [] => "?"
              some (kind ++ "=" ++ (if o = "P" then "P" else "v"))
            | none => none
          "diff " ++ "/".intercalate (exps.map fun e => e.1.getD "*") ++ " mism:" ++ ",".intercalate mism
            ++ " blocks:" ++ toString ((p.length + w - 1) / w)
    | _, _, _, _ => "bad-op my-parse"
  | _ => "bad-op my-arity"

/-- cost function of a `uk` line -/
def parseCost (spec : String) : Option (Nat → Nat → Nat) :=
  if spec = "unit" then some (unitW eqSym) else
  match spec.splitOn ":" with
  | ["tab", ss, ds] =>
    match parseNat ss with
    | some s =>
      let tab := ds.toList.map (fun c => c.toNat - '0'.toNat)
      if s = 0 || tab.length ≠ s * s || !ds.toList.all Char.isDigit then none
      else some (fun a b => tab.getD ((a % s) * s + (b % s)) 0)
    | none => none
  | _ => none

def verdictUk (toks : List String) (out : String) : String :=
  match toks with
  | [cs, _cap, ss] =>
    match parseCost cs with
    | none => "bad-op cost"
    | some w =>
      if out.startsWith "PANIC" || out.startsWith "HANG" || out.startsWith "CRASH" then "reject " ++ out else
      let searches := ss.splitOn "/"
      let obs := out.splitOn "/"
      if searches.length ≠ obs.length then "reject arity" else
      let exps := searches.mapM fun s =>
        match s.splitOn ":" with
        | [ks, ph, th] =>
          match parseNat ks, parseHex ph, parseHex th with
          | some k, some p, some t => if p.isEmpty then none else some (hits w p t k, t.length)
          | _, _, _ => none
        | _ => none
      match exps with
      | none => "bad-op uk-search"
      | some es =>
        let strs := es.map (fun e => showPairs e.1)
        -- the mirror model of the Rust code (cut-off column with stale cells) is run on the same searches; it is
        -- proved equal to the oracle (`ukkonen_eq`), so a difference can only mean model and compiled driver drifted
        let modelStrs := searches.map fun s =>
          match s.splitOn ":" with
          | [ks, ph, th] =>
            match parseNat ks, parseHex ph, parseHex th with
            | some k, some p, some t => showPairs (RbV.Model.Ukkonen.findAllEnd w p t k)
            | _, _, _ => "?"
          | _ => "?"
        let drift := if modelStrs = strs then "" else " drift"
        if strs = obs then
          let nt := es.any fun e => !e.1.isEmpty && e.1.length < e.2 && e.1.any (fun h => h.2 > 0)
          "ok uk" ++ (if nt then " nt" else "") ++ (if cs = "unit" then " unit" else " table")
            ++ (if es.length > 1 then " reuse" else "") ++ drift
        else "diff " ++ "/".intercalate strs ++ (if modelStrs = obs then " (mirror model agrees with the implementation)" else "")
  | _ => "bad-op uk-arity"

def verdictDist (toks : List String) (out : String) : String :=
  match toks with
  | [f, ah, bh, ks] =>
    match parseHex ah, parseHex bh, parseNat ks with
    | some a, some b, some k =>
      if out.startsWith "HANG" || out.startsWith "CRASH" then "reject " ++ out else
      if f = "ham" || f = "sham" then
        match hamming a b with
        | none => if out.startsWith "PANIC" then "ok refused " ++ f else "reject unequal-lengths-not-refused"
        | some d => if out = toString d then "ok " ++ f ++ (if d > 0 then " nt" else "") else "diff " ++ toString d
      else if f = "lev" || f = "slev" then
        let d := edFast (unitW eqSym) a b
        if out = toString d then "ok " ++ f ++ (if d > 0 && !a.isEmpty && !b.isEmpty then " nt" else "") else "diff " ++ toString d
      else if f = "blev" then
        let d := edFast (unitW eqSym) a b
        let e := if d ≤ k then toString d else "none"
        if out = e then "ok blev" ++ (if d ≤ k then " within" else " none") ++ (if d > 0 && !a.isEmpty && !b.isEmpty then " nt" else "")
        else "diff " ++ e
      else "bad-op dist-fn"
    | _, _, _ => "bad-op dist-parse"
  | _ => "bad-op dist-arity"

def verdict (toks : List String) (out : String) : String :=
  match toks with
  | "my" :: r => verdictMy r out
  | "uk" :: r => verdictUk r out
  | "dist" :: r => verdictDist r out
  | _ => "bad-op c09-op"

end RbV.Drv.C09
