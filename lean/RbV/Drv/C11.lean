import RbV.Basic.Codec
import RbV.Model.Fasta
import RbV.Model.Fastq
/-! Driver for property C11: FASTA/FASTQ round trip, layout independence, truncation, sniffer.
Line formats: see `harness/src/c11.rs`.

What is decided (property level):
* `w`   : the writer's bytes equal `writeFasta wrap recs` / `writeFastq recs`; every reader configuration
          (buffer capacity, read fragmentation, iterator or reused record) yields exactly the original records,
          each passing `check()` iff it has an id.  (By `fasta_roundtrip` / `fastq_roundtrip` the model parse of these
          bytes is `recs`; the driver evaluates it as well.)
* `lay` : the same for any line layout of the records (re-wrapped, blank lines, CRLF, multi-line FASTQ).
* `fx`  : every sniffing entry point names the writer's format, `get_kind_seek` leaves the position unchanged, and
          the records obtained through the sniffer are the original ones.
* `cut` : no `PANIC`/`HANG`/endless iteration; for FASTQ the records that pass `check()` form a sub-list of the original
          records in the original order.  Differences to the model's parse of the prefix are tagged `drift`.
* `raw` : arbitrary bytes: only `PANIC`/`HANG`/endless iteration are violations; differences to the model are `drift`
          (`drift-nonascii` when the input has bytes ≥ 0x80, where the model does not claim to follow UTF-8 rules). -/
namespace RbV.Drv.C11
open RbV.Codec RbV.Fastx

structure GRec where
  id : Bytes
  desc : Option Bytes
  seq : Bytes
  qual : Option Bytes
deriving DecidableEq, Repr

inductive GItem where
  | r (g : GRec) (chk : Bool)
  | e (cls : String)
deriving DecidableEq, Repr

def parseDesc (s : String) : Option (Option Bytes) :=
  if s = "_" then some none else (parseHex s).map some

def ofFa (r : FaRec) : GRec := ⟨r.id, r.desc, r.seq, none⟩
def ofFq (r : FqRec) : GRec := ⟨r.id, r.desc, r.seq, some r.qual⟩
def toFa (g : GRec) : FaRec := ⟨g.id, g.desc, g.seq⟩
def toFq (g : GRec) : FqRec := ⟨g.id, g.desc, g.seq, g.qual.getD []⟩

def gcheck (g : GRec) : Bool :=
  match g.qual with
  | none => (toFa g).check
  | some _ => (toFq g).check

def parseRec (fq : Bool) (s : String) : Option GRec :=
  match s.splitOn ":", fq with
  | [a, b, c], false => do pure ⟨← parseHex a, ← parseDesc b, ← parseHex c, none⟩
  | [a, b, c, d], true => do pure ⟨← parseHex a, ← parseDesc b, ← parseHex c, some (← parseHex d)⟩
  | _, _ => none

def parseRecs (fq : Bool) (s : String) : Option (List GRec) := parseList (parseRec fq) s '/'

def parseItem (s : String) : Option GItem :=
  match s.splitOn ":" with
  | ["e", c] => some (.e c)
  | ["r", a, b, c, k] => do
    let g : GRec := ⟨← parseHex a, ← parseDesc b, ← parseHex c, none⟩
    if k = "1" then pure (.r g true) else if k = "0" then pure (.r g false) else none
  | ["r", a, b, c, d, k] => do
    let g : GRec := ⟨← parseHex a, ← parseDesc b, ← parseHex c, some (← parseHex d)⟩
    if k = "1" then pure (.r g true) else if k = "0" then pure (.r g false) else none
  | _ => none

def parseItems (s : String) : Option (List GItem) := parseList parseItem s '/'

def modelFa (file : Bytes) : List GItem :=
  (parseFasta file).map fun
    | .ok r => .r (ofFa r) r.check
    | .err => .e "start"

def modelFq (file : Bytes) : List GItem :=
  (parseFastq file).map fun
    | .ok r => .r (ofFq r) r.check
    | .missingAt => .e "at"
    | .incomplete => .e "inc"

def model (fq : Bool) (file : Bytes) : List GItem := if fq then modelFq file else modelFa file

def validRec (fq : Bool) (g : GRec) : Bool :=
  if fq then decide (ValidFq (toFq g)) else decide (ValidFa (toFa g))

def expected (recs : List GRec) : List GItem := recs.map fun g => .r g (gcheck g)

def parseWrap (s : String) : Option (Option Nat) :=
  if s = "none" then some none else match s.toNat? with
    | some w => if w = 0 then none else some (some w)
    | none => none

def writerBytes (fq : Bool) (wrap : Option Nat) (recs : List GRec) : Bytes :=
  if fq then writeFastq (recs.map toFq) else writeFasta wrap (recs.map toFa)

def hasLoop (l : List GItem) : Bool := l.any fun | .e c => c = "LOOP" | _ => false

def isBadRun (out : String) : Bool := out.startsWith "PANIC" || out.startsWith "HANG" || out.startsWith "CRASH"

/-- the tokens of an observation: `F:<hex>` first (optional), then the others -/
def obsToks (out : String) : List String := (out.splitOn " ").filter (· ≠ "")

def stripPrefix (p : String) (s : String) : Option String :=
  if s.startsWith p then some (s.drop p.length).toString else none

def isNonAscii (b : Bytes) : Bool := b.any (· ≥ 128)

/-- every `R:` token equals the expected item list -/
def checkRs (exp : List GItem) (rs : List String) (i : Nat := 0) : Option String :=
  match rs with
  | [] => none
  | r :: rest =>
    match stripPrefix "R:" r with
    | none => some "unparsable-observation"
    | some body =>
      match parseItems body with
      | none => some "unparsable-observation"
      | some items =>
        if hasLoop items then some ("endless-iteration cfg" ++ toString i)
        else if items = exp then checkRs exp rest (i + 1)
        else some ("records-differ cfg" ++ toString i)

def tagsOf (fq : Bool) (recs : List GRec) (multiline : Bool) : String :=
  let q := recs.any fun g => match g.qual with
    | some (c :: _) => c = 64 || c = 43
    | _ => false
  let nt := recs.length ≥ 2 && (multiline || q)
  (if nt then " nt" else "") ++ (if fq then " fq" else " fa") ++ (if multiline then " multiline" else "")
    ++ (if q then " qual@+" else "") ++ (if recs.any (fun g => g.desc.isSome) then " desc" else "")
    ++ (if recs.any (fun g => g.id.isEmpty) then " noid" else "")
    ++ (if recs.any (fun g => isNonAscii g.id || (g.desc.map isNonAscii).getD false) then " utf8" else "")

/-- layout records -/
def parseWidths (s : String) : Option (List Nat) := parseNatList s

def cutPieces : Bytes → List Nat → Option (List Bytes)
  | s, [] => if s.isEmpty then some [] else none
  | s, w :: ws => if w ≤ s.length then (cutPieces (s.drop w) ws).map (s.take w :: ·) else none

def eolOf (s : String) : Option Bytes := if s = "n" then some [10] else if s = "r" then some [13, 10] else none

def parseLayFa (s : String) : Option (GRec × List Bytes × Bytes) :=
  match s.splitOn ":" with
  | [a, b, c, e, w] => do
    let g : GRec := ⟨← parseHex a, ← parseDesc b, ← parseHex c, none⟩
    let ps ← cutPieces g.seq (← parseWidths w)
    pure (g, ps, ← eolOf e)
  | _ => none

def parseLayFq (s : String) : Option (GRec × FqLayout) :=
  match s.splitOn ":" with
  | [a, b, c, d, e, p, sw, qw] => do
    let q ← parseHex d
    let g : GRec := ⟨← parseHex a, ← parseDesc b, ← parseHex c, some q⟩
    let sp ← cutPieces g.seq (← parseWidths sw)
    let qp ← cutPieces q (← parseWidths qw)
    pure (g, { seqPieces := sp, qualPieces := qp, eol := ← eolOf e, plus := ← parseHex p })
  | _ => none

def layoutOkFq (y : FqLayout) : Bool :=
  y.seqPieces.length == y.qualPieces.length && y.seqPieces.all (fun p => p.head? != some 43) && !y.plus.contains 10

def isSublist : List GRec → List GRec → Bool
  | [], _ => true
  | _ :: _, [] => false
  | a :: as, b :: bs => if a = b then isSublist as bs else isSublist (a :: as) bs

def kindName : Option Kind → String
  | some .fasta => "fa" | some .fastq => "fq" | none => "e"

def verdict (toks : List String) (out : String) : String :=
  if isBadRun out then "reject " ++ out else
  match toks with
  | [op, fmt, ws, rs, _cfgs] =>
    if op ≠ "w" ∧ op ≠ "fx" then "bad-op op" else
    let fq := fmt = "fq"
    if fmt ≠ "fa" ∧ fmt ≠ "fq" then "bad-op format" else
    match parseWrap ws, parseRecs fq rs with
    | some wrap, some recs =>
      if !recs.all (validRec fq) then "bad-op invalid-record" else
      let fbytes := writerBytes fq wrap recs
      let exp := expected recs
      if model fq fbytes ≠ exp then "bad-op model-does-not-round-trip" else
      match obsToks out with
      | f :: rest =>
        match (stripPrefix "F:" f).bind parseHex with
        | none => "bad-op observation"
        | some fobs =>
          if fobs ≠ fbytes then "reject writer-bytes expected-" ++ toHex fbytes else
          let multiline := match wrap with
            | some w => recs.any (fun g => g.seq.length > w)
            | none => false
          let tags := tagsOf fq recs multiline
          if op = "w" then
            match checkRs exp rest with
            | some r => "reject " ++ r
            | none => "ok" ++ tags ++ " writer"
          else
            -- fx: groups of `K:a,b,c R:.. R:..`
            let rec goFx (i : Nat) : List String → String
              | [] => "ok" ++ tags ++ " sniffer"
              | k :: r1 :: r2 :: more =>
                let want := if fq then "fq" else "fa"
                if k ≠ "K:" ++ want ++ "," ++ want ++ "," ++ want then "reject sniffer-kind cfg" ++ toString i ++ " " ++ k
                else match checkRs exp [r1, r2] with
                  | some r => "reject sniffer-" ++ r ++ " group" ++ toString i
                  | none => goFx (i + 1) more
              | _ => "reject observation-shape"
            goFx 0 rest
      | [] => "bad-op observation"
    | _, _ => "bad-op parse"
  | ["lay", fmt, ls, _cfgs] =>
    let fq := fmt = "fq"
    if fmt ≠ "fa" ∧ fmt ≠ "fq" then "bad-op format" else
    -- `strict`: the layout is a plain re-wrapping (no blank lines, FASTQ: qualities wrapped like the sequence,
    -- bare `+` line) — what the property text names; the other layouts the theorems cover are compared as `drift`
    let built : Option (List GRec × Bytes × Bool × Bool × Bool) :=
      if fq then do
        let l ← parseList parseLayFq ls '/'
        if !l.all (fun x => layoutOkFq x.2) then none else
        pure (l.map (·.1), layoutFastq (l.map fun x => (toFq x.1, x.2)),
              l.any (fun x => x.2.seqPieces.length > 1), l.any (fun x => x.2.eol.length = 2),
              l.all (fun x => x.2.plus.isEmpty && x.2.seqPieces.all (!·.isEmpty)
                && x.2.seqPieces.map (·.length) == x.2.qualPieces.map (·.length)))
      else do
        let l ← parseList parseLayFa ls '/'
        pure (l.map (·.1), layoutFasta (l.map fun x => (toFa x.1, x.2.1, x.2.2)),
              l.any (fun x => x.2.1.length > 1), l.any (fun x => x.2.2.length = 2),
              l.all (fun x => x.2.1.all (!·.isEmpty)))
    match built with
    | none => "bad-op layout"
    | some (recs, fbytes, multi, crlf, strict) =>
      if !recs.all (validRec fq) then "bad-op invalid-record" else
      let exp := expected recs
      if model fq fbytes ≠ exp then "bad-op model-does-not-parse-layout" else
      match obsToks out with
      | f :: rest =>
        match (stripPrefix "F:" f).bind parseHex with
        | none => "bad-op observation"
        | some fobs =>
          if fobs ≠ fbytes then "bad-op layout-bytes-differ" else
          match checkRs exp rest with
          | some r =>
            if strict || r.startsWith "endless" then "reject " ++ r
            else "ok" ++ tagsOf fq recs multi ++ " layout layout-extended drift"
          | none => "ok" ++ tagsOf fq recs multi ++ " layout" ++ (if crlf then " crlf" else "")
              ++ (if strict then " layout-strict" else " layout-extended")
      | [] => "bad-op observation"
  | ["cut", fmt, ws, rs, os, _cfg] =>
    let fq := fmt = "fq"
    if fmt ≠ "fa" ∧ fmt ≠ "fq" then "bad-op format" else
    match parseWrap ws, parseRecs fq rs with
    | some wrap, some recs =>
      if !recs.all (validRec fq) then "bad-op invalid-record" else
      let fbytes := writerBytes fq wrap recs
      let offs? : Option (List Nat) := if os = "all" then some (List.range (fbytes.length + 1)) else parseNatList os
      match offs?, obsToks out with
      | some offs, f :: rest =>
        match (stripPrefix "F:" f).bind parseHex with
        | none => "bad-op observation"
        | some fobs =>
          if fobs ≠ fbytes then "reject writer-bytes expected-" ++ toHex fbytes else
          if rest.length ≠ offs.length then "reject observation-count" else
          let rec goCut (drift : Bool) (part : Bool) : List Nat → List String → String
            | c :: cs, t :: ts =>
              match t.splitOn "+" with
              | [ks, body] =>
                match ks.toNat?, parseItems body with
                | some k, some tail =>
                  if k > recs.length then "reject more-records-than-written cut" ++ toString c else
                  let items := expected (recs.take k) ++ tail
                  if hasLoop items then "reject endless-iteration cut" ++ toString c else
                  let good := items.filterMap fun | .r g true => some g | _ => none
                  if fq && !isSublist good recs then
                    "reject checked-record-not-original cut" ++ toString c
                  else
                    let d := model fq (fbytes.take c) ≠ items
                    goCut (drift || d) (part || tail.any (fun | .r _ _ => true | _ => false)) cs ts
                | _, _ => "bad-op observation"
              | _ => "bad-op observation"
            | _, _ => "ok" ++ tagsOf fq recs false ++ " cut" ++ (if drift then (if isNonAscii fbytes then " drift-nonascii" else " drift") else "")
                  ++ (if part then " partial-record" else "")
          goCut false false offs rest
      | _, _ => "bad-op parse"
    | _, _ => "bad-op parse"
  | ["raw", fmt, hx, _cfgs] =>
    match parseHex hx with
    | none => "bad-op hex"
    | some file =>
      let na := isNonAscii file
      let dtag := if na then " drift-nonascii" else " drift"
      let base := " raw" ++ (if na then " nonascii" else "")
      if fmt = "fx" then
        let k := kindName (sniff file)
        let m : List GItem := match sniff file with
          | some .fasta => modelFa file
          | some .fastq => modelFq file
          | none => []
        let rec goFxRaw (drift : Bool) : List String → String
          | [] => "ok" ++ base ++ " fx" ++ (if drift then dtag else "") ++ " k-" ++ k
          | kt :: r1 :: r2 :: more =>
            match (stripPrefix "R:" r1).bind parseItems, (stripPrefix "R:" r2).bind parseItems with
            | some i1, some i2 =>
              if hasLoop i1 || hasLoop i2 then "reject endless-iteration" else
              let kexp := if k = "e" then kt.startsWith "K:e" else kt = "K:" ++ k ++ "," ++ k ++ "," ++ k
              -- after a failed sniff `EitherRecords` reports the error as an item (illegal start) or ends (empty)
              let d := !kexp || (if k = "e" then false else i1 ≠ m || i2 ≠ m)
              goFxRaw (drift || d) more
            | _, _ => "bad-op observation"
          | _ => "bad-op observation-shape"
        goFxRaw false (obsToks out)
      else if fmt = "fa" ∨ fmt = "fq" then
        let m := model (fmt = "fq") file
        let rec goRaw (drift : Bool) : List String → String
          | [] => "ok" ++ base ++ " " ++ fmt ++ (if drift then dtag else "")
              ++ (if m.any (fun | .e _ => true | _ => false) then " m-err" else "")
              ++ (if m.any (fun | .r _ _ => true | _ => false) then " m-rec" else "")
          | r :: more =>
            match (stripPrefix "R:" r).bind parseItems with
            | some items =>
              if hasLoop items then "reject endless-iteration" else goRaw (drift || items ≠ m) more
            | none => "bad-op observation"
        goRaw false (obsToks out)
      else "bad-op format"
  | _ => "bad-op arity"

end RbV.Drv.C11
