import RbV.Basic.Codec
import RbV.Model.Fasta
import RbV.Model.Fastq
import RbV.Model.BufLines
import RbV.Model.FastxStream
/-! Driver for property C11: FASTA/FASTQ round trip, layout independence, truncation, sniffer.
Line formats: see `harness/src/c11.rs`.

What is decided (property level):
* `w`   : the writer's bytes equal `writeFasta wrap recs` / `writeFastq recs`; every reader configuration
          (buffer capacity, read fragmentation, iterator or reused record) yields exactly the original records,
          each passing `check()` iff it has an id.  (By `fasta_roundtrip` / `fastq_roundtrip` the model parse of these
          bytes is `recs`; the driver evaluates it as well.)
* `lay` : the same for any line layout of the records (re-wrapped, blank lines, CRLF, multi-line FASTQ).
* `fx`  : every sniffing entry point names the writer's format, `get_kind_seek` leaves the position unchanged, and
          the records obtained through the sniffer are the original ones.
* `cut` : no `PANIC`/`HANG`/endless iteration; for FASTQ the records that pass `check()` form a sub-list of the original
          records in the original order.  Differences to the model's parse of the prefix are tagged `drift`.
* `raw` : arbitrary bytes: only `PANIC`/`HANG`/endless iteration are violations; differences to the model are `drift`
          (`drift-nonascii` when the input has bytes ≥ 0x80).

The model the observations are compared with is the list model **with the UTF-8 check and Unicode white space**
(`parseFastaU Txt.unicode` / `parseFastqU Txt.unicode`, equal to the plain one on valid UTF-8 without non-ASCII
white space by `fasta_utf8_model_eq`).  Besides, for every reader configuration
`<cap>:<mode>:<schedule>` of the case the driver runs the *stateful* mirror (`parseFastaVia`-style: `BufReader` of
that capacity over the cyclic read schedule, `read_until`, `read_line` + UTF-8 check, `Reader::read`, `Records`) and
compares (a) its items with the list model (equal by theorem, else `bad-op`) and hence, through the `drift` comparison,
with the observed `R:` of every configuration, (b) the number of `read` calls it made on the source with the observed
`N:` → `drift-reads`, (c) `readLines` / the read counter with std's own `read_until` loop (`L:`) → `drift-lines`.  These tie the std mirror to std (sampled); they are not property clauses.
A stateful run that differs from the list model would contradict `fasta_read_schedule_independent` → `bad-op`. -/
namespace RbV.Drv.C11
open RbV.Codec RbV.Fastx

structure GRec where
  id : Bytes
  desc : Option Bytes
  seq : Bytes
  qual : Option Bytes
deriving DecidableEq, Repr

inductive GItem where
  | r (g : GRec) (chk : Bool)
  | e (cls : String)
deriving DecidableEq, Repr

def parseDesc (s : String) : Option (Option Bytes) :=
  if s = "_" then some none else (parseHex s).map some

def ofFa (r : FaRec) : GRec := ⟨r.id, r.desc, r.seq, none⟩
def ofFq (r : FqRec) : GRec := ⟨r.id, r.desc, r.seq, some r.qual⟩
def toFa (g : GRec) : FaRec := ⟨g.id, g.desc, g.seq⟩
def toFq (g : GRec) : FqRec := ⟨g.id, g.desc, g.seq, g.qual.getD []⟩

def gcheck (g : GRec) : Bool :=
  match g.qual with
  | none => (toFa g).check
  | some _ => (toFq g).check

def parseRec (fq : Bool) (s : String) : Option GRec :=
  match s.splitOn ":", fq with
  | [a, b, c], false => do pure ⟨← parseHex a, ← parseDesc b, ← parseHex c, none⟩
  | [a, b, c, d], true => do pure ⟨← parseHex a, ← parseDesc b, ← parseHex c, some (← parseHex d)⟩
  | _, _ => none

def parseRecs (fq : Bool) (s : String) : Option (List GRec) := parseList (parseRec fq) s '/'

def parseItem (s : String) : Option GItem :=
  match s.splitOn ":" with
  | ["e", c] => some (.e c)
  | ["r", a, b, c, k] => do
    let g : GRec := ⟨← parseHex a, ← parseDesc b, ← parseHex c, none⟩
    if k = "1" then pure (.r g true) else if k = "0" then pure (.r g false) else none
  | ["r", a, b, c, d, k] => do
    let g : GRec := ⟨← parseHex a, ← parseDesc b, ← parseHex c, some (← parseHex d)⟩
    if k = "1" then pure (.r g true) else if k = "0" then pure (.r g false) else none
  | _ => none

def parseItems (s : String) : Option (List GItem) := parseList parseItem s '/'

def modelFa (file : Bytes) : List GItem :=
  (parseFasta file).map fun
    | .ok r => .r (ofFa r) r.check
    | .err => .e "start"

def modelFq (file : Bytes) : List GItem :=
  (parseFastq file).map fun
    | .ok r => .r (ofFq r) r.check
    | .missingAt => .e "at"
    | .incomplete => .e "inc"

def model (fq : Bool) (file : Bytes) : List GItem := if fq then modelFq file else modelFa file

def ofSFa : SItem FaItem → GItem
  | .item (.ok r) => .r (ofFa r) r.check
  | .item .err => .e "start"
  | .utf8 => .e "utf8"

def ofSFq : SItem FqItem → GItem
  | .item (.ok r) => .r (ofFq r) r.check
  | .item .missingAt => .e "at"
  | .item .incomplete => .e "inc"
  | .utf8 => .e "utf8"

/-- the list model with the UTF-8 check -/
def modelU (fq : Bool) (file : Bytes) : List GItem :=
  if fq then (parseFastqU Txt.unicode file).map ofSFq else (parseFastaU Txt.unicode file).map ofSFa

def validRec (fq : Bool) (g : GRec) : Bool :=
  if fq then decide (ValidFq (toFq g)) else decide (ValidFa (toFa g))

def expected (recs : List GRec) : List GItem := recs.map fun g => .r g (gcheck g)

def parseWrap (s : String) : Option (Option Nat) :=
  if s = "none" then some none else match s.toNat? with
    | some w => if w = 0 then none else some (some w)
    | none => none

def writerBytes (fq : Bool) (wrap : Option Nat) (recs : List GRec) : Bytes :=
  if fq then writeFastq (recs.map toFq) else writeFasta wrap (recs.map toFa)

def hasLoop (l : List GItem) : Bool := l.any fun | .e c => c = "LOOP" | _ => false

def isBadRun (out : String) : Bool := out.startsWith "PANIC" || out.startsWith "HANG" || out.startsWith "CRASH"

/-- the tokens of an observation: `F:<hex>` first (optional), then the others -/
def obsToks (out : String) : List String := (out.splitOn " ").filter (· ≠ "")

def stripPrefix (p : String) (s : String) : Option String :=
  if s.startsWith p then some (s.drop p.length).toString else none

def isNonAscii (b : Bytes) : Bool := b.any (· ≥ 128)

/-- the byte string contains the encoding of a non-ASCII white-space character -/
def hasUws : Bytes → Bool
  | [] => false
  | b :: r => wsLenU (b :: r) ≥ 2 || hasUws r

def onlyR (ts : List String) : List String := ts.filter (·.startsWith "R:")
def findTok (p : String) (ts : List String) : Option String := ts.find? (·.startsWith p)

/-- a reader configuration of the case line: capacity (0 = `BufReader::new`, 8 KiB) and cyclic read schedule -/
structure Cfg where
  cap : Nat
  sched : List Nat
deriving Repr

def parseCfg (s : String) : Option Cfg :=
  match s.splitOn ":" with
  | [c, _m, sc] => do
    let cap ← c.toNat?
    let sched ← parseNatList sc
    if sched.isEmpty || sched.any (· == 0) then none
    else pure { cap := if cap = 0 then 8192 else cap, sched := sched }
  | _ => none

def parseCfgs (s : String) : Option (List Cfg) := parseList parseCfg s '/'

/-- the stateful mirror under one configuration: items and the number of `read` calls on the source -/
def runVia (fq : Bool) (g : Cfg) (file : Bytes) : List GItem × Nat :=
  let sched := RbV.BufLines.cyclic g.sched
  if fq then
    let r := fqDrain Txt.unicode g.cap sched (file.length + 1) (RbV.BufLines.init file)
    (r.1.map ofSFq, r.2.k)
  else
    let r := faDrain Txt.unicode g.cap sched (file.length + 1) { rd := RbV.BufLines.init file, line := [] }
    (r.1.map ofSFa, r.2.rd.k)

/-- `get_kind` on the raw source, then the matching reader on `BufReader(cap, Chain)`: `chainSched` -/
def runViaChain (fq : Bool) (g : Cfg) (file : Bytes) : List GItem × Nat :=
  let sched := RbV.BufLines.chainSched (RbV.BufLines.cyclic g.sched)
  if fq then
    let r := fqDrain Txt.unicode g.cap sched (file.length + 1) (RbV.BufLines.init file)
    (r.1.map ofSFq, r.2.k)
  else
    let r := faDrain Txt.unicode g.cap sched (file.length + 1) { rd := RbV.BufLines.init file, line := [] }
    (r.1.map ofSFa, r.2.rd.k)

/-- std's `read_until` loop against `readLines`: `<reads>:<lens>` -/
def linesObs (g : Cfg) (file : Bytes) : String :=
  let sched := RbV.BufLines.cyclic g.sched
  let ls := RbV.BufLines.readLines g.cap sched (RbV.BufLines.init file)
  let st := RbV.BufLines.readLinesSt g.cap sched (RbV.BufLines.init file)
  toString st.k ++ ":" ++ showNatList (ls.map (·.length))

/-- tags from the mirror runs: observed item lists (one per configuration), `N:` and `L:` tokens.
`none` = the stateful mirror contradicts the list model (cannot happen: theorem). -/
def viaTags (fq : Bool) (cfgs : List Cfg) (file : Bytes) (_rs : List String) (ntok ltok : Option String) :
    Option String :=
  let mU := modelU fq file
  let runs := cfgs.map fun g => runVia fq g file
  if runs.any (fun r => r.1 ≠ mU) then none else
  let ns : Option (List Nat) := (ntok.bind (stripPrefix "N:")).bind parseNatList
  let dreads : Bool := match ns with
    | some ns => ns != runs.map (·.2)
    | none => true
  let dlines : Bool := match cfgs, ltok.bind (stripPrefix "L:") with
    | g :: _, some l => l != linesObs g file
    | _, _ => true
  some ((if dreads then " drift-reads" else "")
    ++ (if dlines then " drift-lines" else "") ++ " via")


/-- every `R:` token equals the expected item list -/
def checkRs (exp : List GItem) (rs : List String) (i : Nat := 0) : Option String :=
  match rs with
  | [] => none
  | r :: rest =>
    match stripPrefix "R:" r with
    | none => some "unparsable-observation"
    | some body =>
      match parseItems body with
      | none => some "unparsable-observation"
      | some items =>
        if hasLoop items then some ("endless-iteration cfg" ++ toString i)
        else if items = exp then checkRs exp rest (i + 1)
        else some ("records-differ cfg" ++ toString i)

/-- the records are in the domain of the `…_records_any_buffering` theorems -/
def textRec (fq : Bool) (g : GRec) : Bool :=
  if fq then decide (TextFq (toFq g)) else decide (TextFa (toFa g))

def tagsOf (fq : Bool) (recs : List GRec) (multiline : Bool) : String :=
  let q := recs.any fun g => match g.qual with
    | some (c :: _) => c = 64 || c = 43
    | _ => false
  let nt := recs.length ≥ 2 && (multiline || q)
  (if nt then " nt" else "") ++ (if fq then " fq" else " fa") ++ (if multiline then " multiline" else "")
    ++ (if q then " qual@+" else "") ++ (if recs.any (fun g => g.desc.isSome) then " desc" else "")
    ++ (if recs.any (fun g => g.id.isEmpty) then " noid" else "")
    ++ (if recs.any (fun g => isNonAscii g.id || (g.desc.map isNonAscii).getD false) then " utf8" else "")
    ++ (if recs.all (textRec fq) then " text" else " nontext")

/-- layout records -/
def parseWidths (s : String) : Option (List Nat) := parseNatList s

def cutPieces : Bytes → List Nat → Option (List Bytes)
  | s, [] => if s.isEmpty then some [] else none
  | s, w :: ws => if w ≤ s.length then (cutPieces (s.drop w) ws).map (s.take w :: ·) else none

def eolOf (s : String) : Option Bytes := if s = "n" then some [10] else if s = "r" then some [13, 10] else none

def parseLayFa (s : String) : Option (GRec × List Bytes × Bytes) :=
  match s.splitOn ":" with
  | [a, b, c, e, w] => do
    let g : GRec := ⟨← parseHex a, ← parseDesc b, ← parseHex c, none⟩
    let ps ← cutPieces g.seq (← parseWidths w)
    pure (g, ps, ← eolOf e)
  | _ => none

def parseLayFq (s : String) : Option (GRec × FqLayout) :=
  match s.splitOn ":" with
  | [a, b, c, d, e, p, sw, qw] => do
    let q ← parseHex d
    let g : GRec := ⟨← parseHex a, ← parseDesc b, ← parseHex c, some q⟩
    let sp ← cutPieces g.seq (← parseWidths sw)
    let qp ← cutPieces q (← parseWidths qw)
    pure (g, { seqPieces := sp, qualPieces := qp, eol := ← eolOf e, plus := ← parseHex p })
  | _ => none

def layoutOkFq (y : FqLayout) : Bool :=
  y.seqPieces.length == y.qualPieces.length && y.seqPieces.all (fun p => p.head? != some 43) && !y.plus.contains 10

def isSublist : List GRec → List GRec → Bool
  | [], _ => true
  | _ :: _, [] => false
  | a :: as, b :: bs => if a = b then isSublist as bs else isSublist (a :: as) bs

def kindName : Option Kind → String
  | some .fasta => "fa" | some .fastq => "fq" | none => "e"

def verdict (toks : List String) (out : String) : String :=
  if isBadRun out then "reject " ++ out else
  match toks with
  | [op, fmt, ws, rs, cfgss] =>
    if op ≠ "w" ∧ op ≠ "fx" then "bad-op op" else
    let fq := fmt = "fq"
    if fmt ≠ "fa" ∧ fmt ≠ "fq" then "bad-op format" else
    match parseWrap ws, parseRecs fq rs with
    | some wrap, some recs =>
      if !recs.all (validRec fq) then "bad-op invalid-record" else
      let fbytes := writerBytes fq wrap recs
      let exp := expected recs
      if model fq fbytes ≠ exp then "bad-op model-does-not-round-trip" else
      match obsToks out with
      | f :: rest =>
        match (stripPrefix "F:" f).bind parseHex with
        | none => "bad-op observation"
        | some fobs =>
          if fobs ≠ fbytes then "reject writer-bytes expected-" ++ toHex fbytes else
          let multiline := match wrap with
            | some w => recs.any (fun g => g.seq.length > w)
            | none => false
          let tags := tagsOf fq recs multiline
          if op = "w" then
            match checkRs exp (onlyR rest) with
            | some r => "reject " ++ r
            | none =>
              match parseCfgs cfgss with
              | none => "bad-op cfgs"
              | some cfgs =>
                match viaTags fq cfgs fbytes (onlyR rest) (findTok "N:" rest) (findTok "L:" rest) with
                | none => "bad-op via-model-not-schedule-independent"
                | some vt => "ok" ++ tags ++ " writer" ++ vt
          else
            -- fx: groups of `K:a,b,c R:.. R:..`
            let rec goFx (i : Nat) (dreads : Bool) : List Cfg → List String → String
              | _, [] => "ok" ++ tags ++ " sniffer" ++ (if dreads then " drift-reads" else "") ++ " via"
              | g :: gs, k :: r1 :: r2 :: n :: more =>
                let want := if fq then "fq" else "fa"
                if k ≠ "K:" ++ want ++ "," ++ want ++ "," ++ want then "reject sniffer-kind cfg" ++ toString i ++ " " ++ k
                else match checkRs exp [r1, r2] with
                  | some r => "reject sniffer-" ++ r ++ " group" ++ toString i
                  | none =>
                    let via := runViaChain fq g fbytes
                    if via.1 ≠ exp then "bad-op via-model-not-schedule-independent"
                    else goFx (i + 1) (dreads || n ≠ "N:" ++ toString via.2) gs more
              | _, _ => "reject observation-shape"
            match parseCfgs cfgss with
            | none => "bad-op cfgs"
            | some cfgs => goFx 0 false cfgs rest
      | [] => "bad-op observation"
    | _, _ => "bad-op parse"
  | ["lay", fmt, ls, cfgss] =>
    let fq := fmt = "fq"
    if fmt ≠ "fa" ∧ fmt ≠ "fq" then "bad-op format" else
    -- `strict`: the layout is a plain re-wrapping (no blank lines, FASTQ: qualities wrapped like the sequence,
    -- bare `+` line) — what the property text names; the other layouts the theorems cover are compared as `drift`
    let built : Option (List GRec × Bytes × Bool × Bool × Bool) :=
      if fq then do
        let l ← parseList parseLayFq ls '/'
        if !l.all (fun x => layoutOkFq x.2) then none else
        pure (l.map (·.1), layoutFastq (l.map fun x => (toFq x.1, x.2)),
              l.any (fun x => x.2.seqPieces.length > 1), l.any (fun x => x.2.eol.length = 2),
              l.all (fun x => x.2.plus.isEmpty && x.2.seqPieces.all (!·.isEmpty)
                && x.2.seqPieces.map (·.length) == x.2.qualPieces.map (·.length)))
      else do
        let l ← parseList parseLayFa ls '/'
        pure (l.map (·.1), layoutFasta (l.map fun x => (toFa x.1, x.2.1, x.2.2)),
              l.any (fun x => x.2.1.length > 1), l.any (fun x => x.2.2.length = 2),
              l.all (fun x => x.2.1.all (!·.isEmpty)))
    match built with
    | none => "bad-op layout"
    | some (recs, fbytes, multi, crlf, strict) =>
      if !recs.all (validRec fq) then "bad-op invalid-record" else
      let exp := expected recs
      if model fq fbytes ≠ exp then "bad-op model-does-not-parse-layout" else
      match obsToks out with
      | f :: rest =>
        match (stripPrefix "F:" f).bind parseHex with
        | none => "bad-op observation"
        | some fobs =>
          if fobs ≠ fbytes then "bad-op layout-bytes-differ" else
          match parseCfgs cfgss with
          | none => "bad-op cfgs"
          | some cfgs =>
          match viaTags fq cfgs fbytes (onlyR rest) (findTok "N:" rest) (findTok "L:" rest) with
          | none => "bad-op via-model-not-schedule-independent"
          | some vt =>
          match checkRs exp (onlyR rest) with
          | some r =>
            if strict || r.startsWith "endless" then "reject " ++ r
            else "ok" ++ tagsOf fq recs multi ++ " layout layout-extended drift" ++ vt
          | none => "ok" ++ tagsOf fq recs multi ++ " layout" ++ (if crlf then " crlf" else "")
              ++ (if strict then " layout-strict" else " layout-extended") ++ vt
      | [] => "bad-op observation"
  | ["cut", fmt, ws, rs, os, cfgss] =>
    let fq := fmt = "fq"
    if fmt ≠ "fa" ∧ fmt ≠ "fq" then "bad-op format" else
    match parseWrap ws, parseRecs fq rs with
    | some wrap, some recs =>
      if !recs.all (validRec fq) then "bad-op invalid-record" else
      let fbytes := writerBytes fq wrap recs
      let offs? : Option (List Nat) := if os = "all" then some (List.range (fbytes.length + 1)) else parseNatList os
      match offs?, obsToks out, parseCfgs cfgss with
      | some offs, f :: rest, some [cfg] =>
        match (stripPrefix "F:" f).bind parseHex with
        | none => "bad-op observation"
        | some fobs =>
          if fobs ≠ fbytes then "reject writer-bytes expected-" ++ toHex fbytes else
          if rest.length ≠ offs.length then "reject observation-count" else
          let rec goCut (drift : Bool) (part : Bool) (dreads : Bool) : List Nat → List String → String
            | c :: cs, t :: ts =>
              match t.splitOn "+" with
              | [ks, body, rd] =>
                match ks.toNat?, parseItems body, rd.toNat? with
                | some k, some tail, some reads =>
                  if k > recs.length then "reject more-records-than-written cut" ++ toString c else
                  let items := expected (recs.take k) ++ tail
                  if hasLoop items then "reject endless-iteration cut" ++ toString c else
                  let good := items.filterMap fun | .r g true => some g | _ => none
                  if fq && !isSublist good recs then
                    "reject checked-record-not-original cut" ++ toString c
                  else
                    let pre := fbytes.take c
                    let mU := modelU fq pre
                    let via := runVia fq cfg pre
                    if via.1 ≠ mU then "bad-op via-model-not-schedule-independent" else
                    let d := mU ≠ items
                    goCut (drift || d) (part || tail.any (fun | .r _ _ => true | _ => false))
                      (dreads || via.2 ≠ reads) cs ts
                | _, _, _ => "bad-op observation"
              | _ => "bad-op observation"
            | _, _ => "ok" ++ tagsOf fq recs false ++ " cut" ++ (if drift then (if isNonAscii fbytes then " drift-nonascii" else " drift") else "")
                  ++ (if part then " partial-record" else "")
                  ++ (if dreads then " drift-reads" else "") ++ " via"
          goCut false false false offs rest
      | _, _, _ => "bad-op parse"
    | _, _ => "bad-op parse"
  | ["raw", fmt, hx, cfgss] =>
    match parseHex hx with
    | none => "bad-op hex"
    | some file =>
      let na := isNonAscii file
      let dtag := if na then " drift-nonascii" else " drift"
      let base := " raw" ++ (if na then " nonascii" else "") ++ (if hasUws file then " uws" else "")
      if fmt = "fx" then
        let k := kindName (sniff file)
        let m : List GItem := match sniff file with
          | some .fasta => modelU false file
          | some .fastq => modelU true file
          | none => []
        let rec goFxRaw (drift : Bool) (dreads : Bool) : List Cfg → List String → String
          | _, [] => "ok" ++ base ++ " fx" ++ (if drift then dtag else "") ++ (if dreads then " drift-reads" else "")
              ++ " k-" ++ k
          | g :: gs, kt :: r1 :: r2 :: n :: more =>
            match (stripPrefix "R:" r1).bind parseItems, (stripPrefix "R:" r2).bind parseItems with
            | some i1, some i2 =>
              if hasLoop i1 || hasLoop i2 then "reject endless-iteration" else
              let kexp := if k = "e" then kt.startsWith "K:e" else kt = "K:" ++ k ++ "," ++ k ++ "," ++ k
              -- after a failed sniff `EitherRecords` reports the error as an item (illegal start) or ends (empty)
              let d := !kexp || (if k = "e" then false else i1 ≠ m || i2 ≠ m)
              let dr := match sniff file with
                | some kd =>
                  let via := runViaChain (kd == .fastq) g file
                  via.1 ≠ m || n ≠ "N:" ++ toString via.2
                | none => false
              goFxRaw (drift || d) (dreads || dr) gs more
            | _, _ => "bad-op observation"
          | _, _ => "bad-op observation-shape"
        match parseCfgs cfgss with
        | none => "bad-op cfgs"
        | some cfgs => goFxRaw false false cfgs (obsToks out)
      else if fmt = "fa" ∨ fmt = "fq" then
        let m := modelU (fmt = "fq") file
        let toksO := obsToks out
        let vt? := (parseCfgs cfgss).map fun cfgs =>
          viaTags (fmt = "fq") cfgs file (onlyR toksO) (findTok "N:" toksO) (findTok "L:" toksO)
        match vt? with
        | none => "bad-op cfgs"
        | some none => "bad-op via-model-not-schedule-independent"
        | some (some vt) =>
        let rec goRaw (drift : Bool) : List String → String
          | [] => "ok" ++ base ++ " " ++ fmt ++ (if drift then dtag else "")
              ++ (if m.any (fun | .e "utf8" => true | _ => false) then " m-utf8" else "")
              ++ (if m.any (fun | .e _ => true | _ => false) then " m-err" else "")
              ++ (if m.any (fun | .r _ _ => true | _ => false) then " m-rec" else "") ++ vt
          | r :: more =>
            match (stripPrefix "R:" r).bind parseItems with
            | some items =>
              if hasLoop items then "reject endless-iteration" else goRaw (drift || items ≠ m) more
            | none => "bad-op observation"
        goRaw false (onlyR toksO)
      else "bad-op format"
  | _ => "bad-op arity"

end RbV.Drv.C11
