import RbV.Basic.Codec
import RbV.Basic.AlignCodec
import RbV.Ref.Gotoh
import RbV.Model.PairwiseCustom
import RbV.Model.PairwiseFill
import RbV.Model.PairwiseFillI32
/-! Driver for property C01: pairwise alignment optimal, path achieves score, history independent.

`c01 const => min:<MIN_SCORE>`
`c01 cap:<m>:<n>|cap:new sc:<go>:<ge>:<xp>:<xs>:<yp>:<ys> w:<alphabet>:<table> <mode>,<x>,<y>;… =>
     s:<score>,x:<xs>:<xe>:<xlen>,y:<ys>:<ye>:<ylen>,o:<ops>,h:same|differs;…`

One line = one history of calls on one `Aligner`.  Every call is decided by `Align.accept` (theorem
`C01_accept_iff`); `h:differs` (the harness compared the whole `Alignment` value with that of a fresh
aligner) is rejected as history dependent. -/
namespace RbV.Drv.C01
open RbV.Codec RbV.Align RbV.AlignCodec

def parseCall (s : String) : Option (String × List Nat × List Nat) :=
  match s.splitOn "," with
  | [m, x, y] => do
    let x ← parseHex x
    let y ← parseHex y
    pure (m, x, y)
  | _ => none

def checkCall (sc : Sc) (cl : Clip) (idx : Nat) (call : String × List Nat × List Nat) (outS : String) :
    Except String (List String) :=
  let (mode, x, y) := call
  match modeClip mode cl with
  | none => .error "bad-op mode"
  | some (cl', filt) =>
    match parseOut outS with
    | none => .error ("bad-op output-call" ++ toString idx)
    | some (o, rest) =>
      let pre := "call" ++ toString idx ++ "-" ++ mode ++ " "
      if !acceptValid sc cl' filt x y o then .error ("reject " ++ pre ++ whyInvalid sc cl' filt x y o)
      else
        let best := opt sc cl' x y
        if o.score ≠ best then .error ("diff " ++ pre ++ "optimum:" ++ toString best ++ "-reported:" ++ toString o.score)
        else if !accept sc cl' filt x y o then .error ("reject " ++ pre ++ "accept-false")
        else if rest.contains "h:differs" then .error ("reject " ++ pre ++ "history-dependent")
        else if !rest.contains "h:same" then .error "bad-op no-history-field"
        else
          let core := coreOps o.ops
          -- mirror model of `Aligner::custom`, run on the same call (tie-breaks included); a difference is
          -- model drift, not a violation
          let mtag := match (Model.Pairwise.custom sc cl' x y).map
              (fun r => if filt then Model.Pairwise.filterClips r else r) with
            | some r => if r == o then "model=impl" else if r.score == o.score then "drift-path" else "drift-score"
            | none => "drift-model-no-termination"
          -- functional mirror of the matrix fill (`Model/PairwiseFill.lean`, the model of theorem `fill_score_eq_opt`),
          -- evaluated on the same call: its score against the implementation's (drift, never a violation)
          let fsc := (Model.PairwiseFill.fill sc cl' x y).score
          let ftag := if fsc == o.score then "fill-model=impl" else "drift-fill-score"
          -- … against the imperative model's score, and whether the call lies inside the hypotheses of the theorem
          let itag := if fsc == (Model.Pairwise.fill sc cl' x.toArray y.toArray).score then "fill-model=imp-model"
            else "drift-fill-imp"
          let htag := if Model.PairwiseFill.thmHyp sc cl' x y then "fill-thm-hyp" else "outside-fill-thm-hyp"
          -- the functional model's whole `Alignment` (its traceback over its own traceback cells, `Lx`, `Ly`)
          let ptag := match (Model.PairwiseFill.custom sc cl' x y).map
              (fun r => if filt then Model.Pairwise.filterClips r else r) with
            | some r => if r == o then "fill-path=impl" else "drift-fill-path"
            | none => "drift-fill-no-termination"
          -- the checked-`i32` mirror (`Model/PairwiseFillI32.lean`, theorem `custom_i32_no_overflow`): its outcome against the
          -- implementation; whether the call lies in the parametric envelope `AlignEnv` of `custom_i32_correct` (the
          -- harness refuses calls outside); how close to the bound `2(m+n+1)·B < −MIN_SCORE` the call is
          let ctag := match Model.PairwiseFill.customC sc cl' x y with
            | .done r => if (if filt then Model.Pairwise.filterClips r else r) == o then "i32-model=impl" else "drift-i32-path"
            | .overflow => "drift-i32-overflow"
            | .noTermination => "drift-i32-no-termination"
          let etag := if Model.PairwiseFill.alignEnv sc cl' x y then "align-env" else "outside-align-env"
          let bm := Model.PairwiseFill.bMax sc x y
          let used := 2 * (((x.length : Int) + y.length + 1) * bm)
          let stags := (if bm > 1024 then ["bigscores"] else []) ++
            (if 2 * used ≥ -minScore then ["env-upper-half"] else []) ++
            (if 100 * used ≥ -(99 * minScore) then ["env-edge-1pct"] else [])
          .ok ([mtag, ftag, itag, htag, ptag, ctag, etag] ++ stags ++ (if !x.isEmpty && !y.isEmpty && !core.isEmpty then ["nt"] else [])
            ++ [mode]
            ++ (if x.isEmpty || y.isEmpty then ["emptyseq"] else [])
            ++ (if hasClip o.ops then ["clipops"] else [])
            ++ (if o.xs > 0 || o.ys > 0 then ["preclip"] else [])
            ++ (if o.xe < x.length || o.ye < y.length then ["sufclip"] else [])
            ++ (if core.contains .ins && core.contains .del then ["insdel"] else [])
            ++ (if core.isEmpty then ["allclipped"] else []))

def dedup (l : List String) : List String := l.foldl (fun acc s => if acc.contains s then acc else acc ++ [s]) []

def verdict (toks : List String) (out : String) : String :=
  match toks with
  -- `minScore` is the constant extracted from the source text (`Gen/Limits.lean`); `out` is the run-time value of the
  -- compiled `pub const MIN_SCORE`: cross-check of the extraction
  | ["const"] => if out = "min:" ++ toString minScore then "ok const gen=rt" else "diff min:" ++ toString minScore
  | [capT, scT, wT, callsT] =>
    if !(capT.startsWith "cap:") then "bad-op cap" else
    match parseScTok scT, parseWTok wT, parseListNE parseCall callsT ';' with
    | some (go, ge, cl), some (alpha, tab), some calls =>
      if out.startsWith "PANIC" || out.startsWith "HANG" || out.startsWith "CRASH" then "reject " ++ out else
      let outs := out.splitOn ";"
      if outs.length ≠ calls.length then "bad-op arity" else
      let sc : Sc := ⟨mkW alpha tab, go, ge⟩
      let rec go' (i : Nat) (cs : List (String × List Nat × List Nat)) (os : List String) (tags : List String) :
          Except String (List String) :=
        match cs, os with
        | c :: cs, o :: os =>
          match checkCall sc cl i c o with
          | .error e => .error e
          | .ok t => go' (i + 1) cs os (tags ++ t)
        | _, _ => .ok tags
      match go' 0 calls outs [] with
      | .error e => e
      | .ok tags =>
        let tags := dedup (tags
          ++ (if calls.length > 1 then ["reuse"] else [])
          ++ (if ge = 0 then ["ge0"] else []) ++ (if go = 0 then ["go0"] else [])
          ++ (if cl.xp ≠ cl.xs || cl.yp ≠ cl.ys then ["asymclip"] else [])
          ++ (if capT = "cap:0:0" then ["cap0"] else []))
        " ".intercalate ("ok" :: tags)
    | _, _, _ => "bad-op parse"
  | _ => "bad-op arity"

end RbV.Drv.C01
