import RbV.Basic.Codec
import RbV.Ref.BS
import RbV.Model.LFMapping
import RbV.Model.LFSortedCheck
import RbV.Model.SampledSA
import RbV.Model.SampleBuild
/-! Driver for property C05: FM-index backward search.

`c05 <s1>/<s2>/… a:<alphabet> k:<occ rate> s:<sa sampling> m:<o|b|a> <p1>/<p2>/… => <sa> <r1>/<r2>/…`
text = every sequence followed by `$`;  `r` = `A` | `C:lo:hi:<occ full>:<occ sampled>` | `P:lo:hi:l:<occ full>:<occ sampled>`.

The mirror model of `backward_search` (`BSModel.backwardSearch`, proved correct on sorted arrays:
`RbV.Thm.C05.backward_search_correct`) is run on `less`/`occ` recomputed from the printed array; a result that differs
from the implementation's is reported as tag `drift` (never a violation: the verdict is the property-level check).

Verdict: every result is accepted by `checkBS` (theorem `RbV.Thm.C05.checkBS_iff`) against the printed suffix array,
and the position lists produced by `Interval::occ` through the full and through the sampled array are, as sets,
exactly the occurrences of the matched string. -/
namespace RbV.Drv.C05
open RbV.Codec RbV

def sentinel : Nat := 36

def textOf (seqs : List (List Nat)) : List Nat := seqs.flatMap (fun s => s ++ [sentinel])

structure Obs where
  res : BSRes
  full : Option (List Nat)
  samp : Option (List Nat)

def parseOcc (s : String) : Option (Option (List Nat)) :=
  if s = "!" then some none else (parseNatList s).map some

def parseRes (s : String) : Option Obs :=
  match s.splitOn ":" with
  | ["A"] => some ⟨.absent, some [], some []⟩
  | ["C", lo, hi, f, g] => do
      let lo ← parseNat lo; let hi ← parseNat hi; let f ← parseOcc f; let g ← parseOcc g
      pure ⟨.complete lo hi, f, g⟩
  | ["P", lo, hi, l, f, g] => do
      let lo ← parseNat lo; let hi ← parseNat hi; let l ← parseNat l; let f ← parseOcc f; let g ← parseOcc g
      pure ⟨.part lo hi l, f, g⟩
  | _ => none

def showExpected (t p : List Nat) : String :=
  let m := longestSuf p t p.length
  if m = 0 then "A"
  else if m = p.length then "C:" ++ showNatList (occurrences p t)
  else "P:" ++ toString m ++ ":" ++ showNatList (occurrences (suffix p m) t)

/-- `none` = fine, `some reason` otherwise -/
def checkOne (t sa p : List Nat) (o : Obs) : Option String :=
  if !checkBS t sa p o.res then some "result" else
  let q := match o.res with
    | .complete _ _ => p
    | .part _ _ l => suffix p l
    | .absent => []
  match o.res with
  | .absent => none
  | _ =>
    match o.full, o.samp with
    | some f, some g =>
      if !sameSet f (occurrences q t) then some "occ-through-full-array"
      else if !sameSet g (occurrences q t) then some "occ-through-sampled-array"
      else none
    | _, _ => some "interval-outside-array"

def firstBad (t sa : List Nat) : List (List Nat) → List Obs → Nat → Option String
  | p :: ps, o :: os, i =>
    match checkOne t sa p o with
    | some r => some ("pattern#" ++ toString i ++ ":" ++ r ++ " expected:" ++ showExpected t p)
    | none => firstBad t sa ps os (i + 1)
  | _, _, _ => none

/-- does the mirror model, run on `less`/`occ` of the BWT of `(t, sa)`, return what the implementation returned? -/
def modelAgrees (t sa : List Nat) (pats : List (List Nat)) (obs : List Obs) : Bool :=
  let bwt := LF.bwtOf t sa
  (pats.zip obs).all (fun (p, o) =>
    BSModel.backwardSearch (LF.lessRef bwt) (LF.occRef bwt) sa.length p == o.res)

/-- mirror model of `SampledSuffixArray::get` on the first rows of every reported interval against the positions
the implementation resolved through its sampled array (`none` = not evaluated: too expensive) -/
def sampledModelAgrees (t sa : List Nat) (s : Nat) (obs : List Obs) : Option Bool :=
  if s > 16 && sa.length > 130 then none else
  let bwt := LF.bwtOf t sa
  let sent := t.getD (t.length - 1) 0
  let built := SampledModel.build sa bwt s sent sa.length
  let get := SampledModel.get s bwt sent (LF.lessRef bwt) (LF.occRef bwt)
    (SampledModel.sampleGet built.1) (SampledModel.extraGet built.2) sa.length
  some (obs.all (fun o =>
    match o.res, o.samp with
    | .complete lo _, some g => ((g.take 6).zipIdx).all (fun (v, i) => get (lo + i) == some v)
    | .part lo _ _, some g => ((g.take 6).zipIdx).all (fun (v, i) => get (lo + i) == some v)
    | _, _ => true))

def kindTag : BSRes → String
  | .complete _ _ => "complete"
  | .part _ _ _ => "partial"
  | .absent => "absent"

def tagIf (b : Bool) (s : String) : String := if b then " " ++ s else ""

def verdict (toks : List String) (out : String) : String :=
  match toks with
  | [ss, a, k, s, m, ps] =>
    match parseListNE parseHex ss '/', parseListNE parseHex ps '/', field a, field k, field s, field m with
    | some seqs, some pats, some ("a", _), some ("k", kv), some ("s", sv), some ("m", mv) =>
      match parseNat kv, parseNat sv with
      | some kN, some sN =>
        if pats.any (·.isEmpty) then "bad-op empty-pattern" else
        if out.startsWith "PANIC" || out.startsWith "HANG" || out.startsWith "CRASH" then "reject " ++ out else
        let t := textOf seqs
        match out.splitOn " " with
        | [sas, rs] =>
          match parseNatList sas, parseListNE parseRes rs '/' with
          | some sa, some obs =>
            if sa.length ≠ t.length then "reject suffix-array-length" else
            if obs.length ≠ pats.length then "reject arity" else
            match firstBad t sa pats obs 0 with
            | some r => "reject " ++ r
            | none =>
              let kinds := obs.map (fun o => kindTag o.res)
              let nt := (pats.zip obs).any (fun (p, o) => p.length ≥ 2 && o.res != .absent)
              "ok" ++ tagIf nt "nt" ++ (if modelAgrees t sa pats obs then " model=impl" else " drift")
                ++ (if LF.sortedAllB t sa then " lf-sorted" else " not-lf-sorted")
                ++ (match sampledModelAgrees t sa sN obs with
                    | some true => " sampled-model=impl" | some false => " sampled-drift" | none => "") ++ tagIf (kinds.contains "complete") "complete"
                ++ tagIf (kinds.contains "partial") "partial" ++ tagIf (kinds.contains "absent") "absent"
                ++ tagIf (seqs.length ≥ 2) "multi-sentinel" ++ tagIf (seqs.any (·.isEmpty)) "empty-seq"
                ++ tagIf (kN > 64) "k>64" ++ tagIf (kN = 64) "k=64" ++ tagIf (kN < 64) "k<64"
                ++ tagIf (kN ≥ t.length) "k>=n" ++ tagIf (sN > 1) "sampled" ++ " m:" ++ mv
                ++ tagIf (pats.any (fun p => p.length > t.length)) "longer-than-text"
                ++ tagIf (obs.any (fun o => match o.full with | some f => f.length ≥ 2 | none => false)) "multi-occ"
                ++ tagIf (t.length > 130) "n>130"
          | _, _ => "bad-op output"
        | _ => "bad-op output-arity"
      | _, _ => "bad-op rates"
    | _, _, _, _, _, _ => "bad-op parse"
  | _ => "bad-op arity"

end RbV.Drv.C05
