import RbV.Basic.Codec
import RbV.Basic.AlignCodec
import RbV.Ref.Gotoh
import RbV.Ref.Banded
import RbV.Model.Band
import RbV.Model.BandedDP
/-! Driver for property C02: banded alignment sound, exact when the band is the whole matrix, budget guard.

`c02 const => min:<MIN_SCORE>`
`c02 cap:… kw:<k>:<w> sc:… w:… <entry>,<x>,<y>[,args];… => <aln>,h:same|differs;…`   (see harness/src/c02.rs)

Every call is decided by `Align.acceptBanded` (theorems `C02_sound`, `C02_exact_fullband`).  `full` (the band is
the whole matrix) is computed here from the reference k-mer match count and the subset selector; `exact` is
demanded when `full` and both sequences are at most 64 long (the `Sane` envelope of C01). -/
namespace RbV.Drv.C02
open RbV.Codec RbV.Align RbV.AlignCodec

structure Call where
  entry : String
  x : List Nat
  y : List Nat
  args : List String

def parseCall (alpha : List Nat) (s : String) : Option Call :=
  match s.splitOn "," with
  | e :: xh :: yh :: args =>
    if e = "big" then
      match args with
      | [lx, ly] => do
        let lx ← parseNat lx
        let ly ← parseNat ly
        let a ← alpha[0]?
        let b ← alpha[1]?
        pure ⟨e, List.replicate lx a, List.replicate ly b, args⟩
      | _ => none
    else do
      let x ← parseHex xh
      let y ← parseHex yh
      pure ⟨e, x, y, args⟩
  | _ => none

/-- the alignment mode an entry point runs in -/
def entryMode (e : String) : Option String :=
  if e ∈ ["custom", "prehash", "tm", "sm", "fm", "exp", "path", "big"] then some "custom"
  else if e = "sgprehash" then some "semiglobal"
  else if e ∈ ["global", "semiglobal", "local"] then some e
  else none

def selected (bits total : Nat) : Nat :=
  (List.range total).countP (fun i => bits.testBit (i % 64))

/-- number of matches handed to the band construction (0 ⇒ the band is the whole matrix) -/
def suppliedMatches (k : Nat) (c : Call) : Option Nat :=
  let total := kmerMatchCount k c.x c.y
  match c.entry, c.args with
  | "sm", [b] => (parseNat b).map (selected · total)
  | "exp", [_, _, b] => (parseNat b).map (selected · total)
  | "path", [b, _] => (parseNat b).map (selected · total)
  | "fm", [l] => if l = "-" then some 0 else some (l.splitOn "+").length
  | "big", [_, _] => some total
  | _, [] => some total
  | _, _ => none

/-- length of the final run of `o` -/
def trailing (o : Op) (l : List Op) : Nat := (l.reverse.takeWhile (· == o)).length

/-- Known defect shape (KNOWN_FINDINGS C02-split-gap): the banded DP lets a suffix clip be followed by further
insertions (deletions) and charges a second gap-open for what is one run in the reported path.  Recognised as:
recomputed − reported = −gap_open > 0, the path ends with a run of ≥ 2 insertions and y has a clipped suffix
(or ≥ 2 deletions and x has a clipped suffix). -/
def splitGapShape (sc : Sc) (cl : Clip) (x y : List Nat) (o : Out) : Bool :=
  match score sc .none (slice x o.xs o.xe) (slice y o.ys o.ye) (coreOps o.ops) with
  | some c =>
    let rec' := c + clipPen cl x.length y.length o.xs o.xe o.ys o.ye
    let core := coreOps o.ops
    sc.go < 0 && rec' - o.score == - sc.go &&
      ((trailing .ins core ≥ 2 && o.ye < y.length) || (trailing .del core ≥ 2 && o.xe < x.length))
  | none => false

/-- Known defect shape (known/C02.json C02-row0-pointer): row 0 of the last column lies outside the band, `Sn[0]` keeps its
preload `yclip_prefix` while the loop over row 0 records "delete all of y" at `(0, n)`; the last column continues from
`Sn[0]` with insertions.  Recognised as: custom mode (clip operations reported), the operations start with exactly `|y|`
deletions followed by `Yclip(0)` and an insertion, all of y is inside the alignment, and
recomputed − reported = (gap_open + |y|·gap_extend) − yclip_prefix > 0. -/
def row0PointerShape (sc : Sc) (cl : Clip) (x y : List Nat) (o : Out) : Bool :=
  match score sc .none (slice x o.xs o.xe) (slice y o.ys o.ye) (coreOps o.ops) with
  | some c =>
    let rec' := c + clipPen cl x.length y.length o.xs o.xe o.ys o.ye
    let n := y.length
    n > 0 && o.ys == 0 && o.ye == n && rec' > o.score &&
      rec' - o.score == sc.go + sc.ge * (n : Int) - cl.yp &&
      o.ops.take n == List.replicate n (.core .del) && (o.ops.drop n).take 2 == [.yclip 0, .core .ins]
  | none => false

/-- `a.b+a.b+…` (`-` = empty) -/
def parsePairs (s : String) : Option (List (Nat × Nat)) :=
  parseList (fun t => match t.splitOn "." with
    | [a, b] => do let a ← parseNat a; let b ← parseNat b; pure (a, b)
    | _ => none) s '+'

def field (pre : String) (rest : List String) : Option String :=
  (rest.find? (·.startsWith pre)).map (fun s => (s.drop pre.length).toString)

/-- Band mirror next to the code: the harness prints the band the aligner holds after the call (`bd:`), the k-mer matches
and the match path the entry point handed to `Band::create_from_match_path` (`mt:`, `pt:`); the model is run on the
latter.  `band=impl` / `drift-band` (a difference between model and code is not a violation of the property, which does
not fix the band); `none` = the fields cannot be parsed. -/
def bandTags (cl : Clip) (k w : Nat) (x y : List Nat) (rest : List String) : Option (List String × Option Model.Band.Band) :=
  match field "bd:" rest with
  | none => none
  | some "skip" => some ([], none)
  | some bd =>
    match bd.splitOn ":", (field "mt:" rest).bind parsePairs, (field "pt:" rest).bind (parseList parseNat · '+') with
    | [rs, cs, rg], some ms, some path =>
      match parseNat rs, parseNat cs, parsePairs rg with
      | some rows, some cols, some ranges =>
        let b := Model.Band.createFromMatchPath x.length y.length k w cl path ms
        let same := b.rows = rows ∧ b.cols = cols ∧ b.ranges = ranges
        let emptyCol := b.ranges.any (fun p => p.1 ≥ p.2)
        some ((if same then ["band=impl"] else ["drift-band"])
          ++ (if ms.isEmpty then [] else if emptyCol then ["band-has-empty-column"] else ["band-all-columns"])
          ++ (if Model.Band.numCells b = (x.length + 1) * (y.length + 1) then ["band=matrix"] else [])
          -- the shape invariant of `Model/Band.lean`, evaluated on the band the *code* holds (coverage, never a violation)
          ++ (if decide (Model.Band.Connected ranges) then ["band-connected"] else ["band-not-connected"]), some b)
      | _, _, _ => none
    | _, _, _ => none

def checkCall (sc : Sc) (cl : Clip) (k w : Nat) (idx : Nat) (c : Call) (outS : String) : Except String (List String) :=
  match entryMode c.entry with
  | none => .error "bad-op entry"
  | some mode =>
  match modeClip mode cl, suppliedMatches k c with
  | some (cl', filt), some nm =>
    match parseOut outS with
    | none => .error ("bad-op output-call" ++ toString idx)
    | some (o, rest) =>
      let (x, y) := (c.x, c.y)
      let pre := "call" ++ toString idx ++ "-" ++ c.entry ++ " "
      let full := nm == 0
      let small := x.length ≤ 64 && y.length ≤ 64
      let exact := full && small
      if isSentinel o then
        if overBudget x y then .ok ["sentinel", "big"]
        else .error ("reject " ++ pre ++ "sentinel-although-the-matrix-is-within-the-cell-budget")
      else if full && overBudget x y then .error ("reject " ++ pre ++ "band-over-budget-but-no-sentinel")
      else if !acceptValid sc cl' filt x y o then
        .error ("reject " ++ pre ++ (if IsAln x y o.toAln ∧ ClipRule filt x y o ∧ splitGapShape sc cl' x y o
          then "split-gap-"
          else if !filt ∧ IsAln x y o.toAln ∧ ClipRule filt x y o ∧ row0PointerShape sc cl' x y o then "row0-pointer-"
          else "") ++ whyInvalid sc cl' filt x y o)
      else if exact && o.score ≠ opt sc cl' x y then
        .error ("diff " ++ pre ++ "fullband-optimum:" ++ toString (opt sc cl' x y) ++ "-reported:" ++ toString o.score)
      else if !acceptBanded sc cl' filt x y full exact o then .error ("reject " ++ pre ++ "acceptBanded-false")
      else if rest.contains "h:differs" then .error ("reject " ++ pre ++ "history-dependent")
      else if !rest.contains "h:same" then .error "bad-op no-history-field"
      else match bandTags cl' k w x y rest with
      | none => .error "bad-op band-fields"
      | some (btags, mb) =>
        -- mirror of `compute_alignment` on the model band, next to the code: whole result (drift, never a violation)
        let mtags := match mb with
          | none => []
          | some b =>
            match Model.BandedDP.computeAlignment sc cl' x y b with
            | none => ["drift-band-model-no-termination"]
            | some r =>
              -- `local`/`semiglobal*` filter the clip operations out of the result
              let r : Out := if filt then { r with ops := r.ops.filter (fun a => match a with | .core _ => true | _ => false) } else r
              if r == o then ["band-model=impl"]
                        else if r.score == o.score then ["drift-band-model-path"] else ["drift-band-model"]
        let core := coreOps o.ops
        -- coverage only: how often the band loses the optimum (never a violation)
        let cmp := if !full && x.length ≤ 12 && y.length ≤ 12 then
            (if o.score = opt sc cl' x y then ["band=opt"] else ["band<opt"]) else []
        .ok ((if !x.isEmpty && !y.isEmpty && !core.isEmpty then ["nt"] else [])
          ++ [c.entry] ++ cmp ++ btags ++ mtags
          ++ (if full then ["fullband"] else ["banded"])
          ++ (if !small then ["big"] else [])
          ++ (if x.isEmpty || y.isEmpty then ["emptyseq"] else [])
          ++ (if hasClip o.ops then ["clipops"] else [])
          ++ (if o.xs > 0 || o.ys > 0 then ["preclip"] else [])
          ++ (if o.xe < x.length || o.ye < y.length then ["sufclip"] else [])
          ++ (if core.contains .ins && core.contains .del then ["insdel"] else []))
  | _, _ => .error "bad-op call-args"

def dedup (l : List String) : List String := l.foldl (fun acc s => if acc.contains s then acc else acc ++ [s]) []

def verdict (toks : List String) (out : String) : String :=
  match toks with
  -- `minScore` is the constant extracted from the source text (`Gen/Limits.lean`); `out` is the run-time value of the
  -- compiled `pub const MIN_SCORE`: cross-check of the extraction
  | ["const"] => if out = "min:" ++ toString minScore then "ok const gen=rt" else "diff min:" ++ toString minScore
  -- `out` = what the harness reads in the compiled source text (`include_str!`): the number the doc comment states for
  -- `MAX_CELLS` and the constant itself; both must equal what tools/gen_tables.py extracted (else `diff`: the two
  -- extractions disagree).  The budget of the model follows the constant; a stated number that differs from the
  -- constant is a defect of the documentation ("the documented cell budget" would be ambiguous): reject.
  | ["docbudget"] =>
    let docS := match RbV.Gen.Limits.maxCellsDocumented with | some d => toString d | none => "none"
    let want := "doc:" ++ docS ++ ",max:" ++ toString maxCells
    if out ≠ want then "diff " ++ want else
    match RbV.Gen.Limits.maxCellsDocumented with
    | none => "ok docbudget gen=src doc-names-constant-only"
    | some d => if d = maxCells then "ok docbudget gen=src doc=const"
                else "reject documented-cell-budget:" ++ toString d ++ "-but-MAX_CELLS:" ++ toString maxCells
  | [capT, kwT, scT, wT, callsT] =>
    if !(capT.startsWith "cap:") then "bad-op cap" else
    match kwT.splitOn ":" with
    | ["kw", ks, ws] =>
      match parseNat ks, parseNat ws, parseScTok scT, parseWTok wT with
      | some k, some w, some (go, ge, cl), some (alpha, tab) =>
        match parseListNE (parseCall alpha) callsT ';' with
        | none => "bad-op calls"
        | some calls =>
        if out.startsWith "PANIC" || out.startsWith "HANG" || out.startsWith "CRASH" then "reject " ++ out else
        let outs := out.splitOn ";"
        if outs.length ≠ calls.length then "bad-op arity" else
        let sc : Sc := ⟨mkW alpha tab, go, ge⟩
        let rec go' (i : Nat) (cs : List Call) (os : List String) (tags : List String) : Except String (List String) :=
          match cs, os with
          | c :: cs, o :: os =>
            match checkCall sc cl k w i c o with
            | .error e => .error e
            | .ok t => go' (i + 1) cs os (tags ++ t)
          | _, _ => .ok tags
        match go' 0 calls outs [] with
        | .error e => e
        | .ok tags =>
          let tags := dedup (tags
            ++ ["k" ++ toString k, "w" ++ toString w]
            ++ (if calls.length > 1 then ["reuse"] else [])
            ++ (if ge = 0 then ["ge0"] else []) ++ (if go = 0 then ["go0"] else []))
          " ".intercalate ("ok" :: tags)
      | _, _, _, _ => "bad-op parse"
    | _ => "bad-op kw"
  | _ => "bad-op arity"

end RbV.Drv.C02
