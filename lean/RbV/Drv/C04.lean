import RbV.Basic.Codec
import RbV.Ref.SA
import RbV.Model.Occ
import RbV.Model.OccTable
import RbV.Model.InvBWT
/-! Driver for property C04 (BWT, less, Occ for all sampling rates, inverse BWT).

`c04 t <text> k:<k> a:<alphabet> q:<query symbols> => <sa>;<bwt>;<less[c], c∈q>;<col(c)>/…;<inverse or ->`

* bwt      = `bwtRef text sa`                               (and the mirror `bwtModel`)
* less[c]  = `lessRef bwt c`                                (and the mirror `lessModel bwt (max a + 2)`)
* col(c)   = `occCol bwt c`  (row r ↦ `occRef bwt r c`)      (and the mirror `occGet (occTable bwt k alpha m)[c] bwt k r c`)
* inverse  = text, for single-sentinel texts            (and the mirror `invertModel bwt (max bwt + 2)`)
A disagreement between a mirror model and the observation where the specification agrees with the observation is
reported as tag `drift` (cannot happen as long as the refinement theorems hold), never as a violation. -/
namespace RbV.Drv.C04
open RbV.Codec RbV RbV.OccM

/-- `d<digits>`: first value and successive differences; `v<a>,<b>,…`: plain values -/
def parseCol (s : String) : Option (List Nat) :=
  match s.toList with
  | 'd' :: ds =>
    let rec go : List Char → Nat → Option (List Nat)
      | [], _ => some []
      | ch :: r, acc =>
        if '0' ≤ ch ∧ ch ≤ '9' then
          let v := acc + (ch.toNat - '0'.toNat)
          (go r v).map (v :: ·)
        else none
    go ds 0
  | 'v' :: _ => parseNatList (s.drop 1).toString
  | _ => none

def parseOptNat (s : String) : Option (Option Nat) :=
  if s = "n" then some none else (s.toNat?).map some

def firstDiff (a b : List Nat) : Nat :=
  ((a.zip b).takeWhile (fun p => p.1 == p.2)).length

def dedupTags (l : List String) : List String :=
  l.foldl (fun acc s => if acc.contains s then acc else acc ++ [s]) []

def verdict (toks : List String) (out : String) : String :=
  match toks with
  | ["t", th, kf, af, qf] =>
    match parseHex th, (field kf).bind (fun p => if p.1 = "k" then p.2.toNat? else none),
          (field af).bind (fun p => if p.1 = "a" then parseHex p.2 else none),
          (field qf).bind (fun p => if p.1 = "q" then parseHex p.2 else none) with
    | some t, some k, some a, some q =>
      if t.isEmpty || k = 0 || a.isEmpty then "bad-op input" else
      match out.splitOn ";" with
      | [saS, bwtS, lessS, colsS, invS] =>
        match parseNatList saS, parseHex bwtS, parseList parseOptNat lessS, parseListNE parseCol colsS '/' with
        | some sa, some bwt, some lessObs, some cols =>
          let n := t.length
          if lessObs.length ≠ q.length || cols.length ≠ q.length then "bad-op arity" else
          -- BWT
          let bwtE := bwtRef t sa
          if bwt ≠ bwtE then "diff bwt " ++ toHex bwtE else
          let driftB := bwtModel t sa ≠ bwt
          -- less
          let lessE := q.map (fun c => some (lessRef bwt c))
          if lessObs ≠ lessE then
            "diff less " ++ ",".intercalate (q.map fun c => toString (lessRef bwt c)) else
          let m := a.foldl max 0 + 2
          let lm := lessModel bwt m
          let driftL := q.map (fun c => lm[c]?) ≠ lessObs
          -- Occ
          let bad := (q.zip cols).find? (fun p => p.2 ≠ occCol bwt p.1)
          match bad with
          | some (c, col) =>
            let e := occCol bwt c
            let r := firstDiff col e
            "diff occ c:" ++ toString c ++ " r:" ++ toString r ++ " expected:" ++ toString (e.getD r 0)
              ++ " got:" ++ (match col[r]? with | some v => toString v | none => "none")
          | none =>
            let rows := List.range n
            -- the mirror of `Occ::new`: table size max+1, tracked symbols = alphabet (+ `$` when below the size)
            let mt := a.foldl max 0 + 1
            let alpha := if 36 < mt && !a.contains 36 then a ++ [36] else a
            let table := occTable bwt k alpha mt
            let cps := q.map (fun c => (c, (table[c]?).getD []))
            let driftO := (cps.zip cols).any (fun p =>
              rows.map (fun r => occGet p.1.2 bwt k r p.1.1) ≠ p.2)
            let branches := dedupTags (cps.flatMap (fun p => dedupTags (rows.map (fun r => occBranch p.2 k r))))
            -- inverse
            let single := t.count (sentinelOf t) = 1
            let invOk := if single then invS = toHex t else invS = "-"
            if !invOk then "diff inv " ++ (if single then toHex t else "-") else
            -- mirror of `invert_bwt` (alphabet = symbols of the BWT, less array of size max + 2)
            let driftI := single && toHex (InvBWT.invertModel bwt (bwt.foldl max 0 + 2)) ≠ invS
            let nt := n ≥ 4 && (dedupTags (bwt.map toString)).length ≥ 2
            "ok" ++ (if nt then " nt" else "")
              ++ (if k > Gen.Occ.hiCheckpointThreshold then s!" k>{Gen.Occ.hiCheckpointThreshold}" else s!" k<={Gen.Occ.hiCheckpointThreshold}")
              ++ (if n > 2 * k then " cp>=3" else "")
              ++ (if k ≥ n then " k>=n" else "")
              ++ (if q.any (fun c => !bwt.contains c) then " absent-sym" else "")
              ++ (if single then " inv" else " multi-sent")
              ++ (if !a.contains (sentinelOf t) then " sent-not-in-alphabet" else "")
              ++ String.join (branches.map (" " ++ ·))
              ++ (if driftB || driftL || driftO || driftI then " drift" else "")
        | _, _, _, _ => "bad-op output"
      | _ =>
        if out.startsWith "PANIC" || out.startsWith "HANG" || out.startsWith "CRASH" then "reject " ++ out
        else "bad-op output"
    | _, _, _, _ => "bad-op parse"
  | _ => "bad-op arity"

end RbV.Drv.C04
