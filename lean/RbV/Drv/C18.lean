import RbV.Basic.Codec
import RbV.Spec.Containers
import RbV.Model.BitEnc
import RbV.Model.SmallInts
import RbV.Model.Fenwick
/-! Driver for property C18 (bit-packed containers behave like plain vectors).

```
c18 bitenc w:<w> c:<cap> <ops> => <obs>,<obs>,… | <len>/<nr_symbols>/<nr_blocks>/<is_empty> <iter> <get(len)>
c18 si <i8|u8|u16|i16> <new|cap:n|fe:v:n> <ops> => <obs>,… | <len>/<is_empty> <values via get> <get(len)>
c18 fw <sum|max> <len> <ops> => <obs>,… | <get(0).get(1).…>
```
The **oracle is the spec** (`RbV.Spec.*`: a plain list).  The mirror models (`RbV.Model.*`) are run next to
it on every line; a disagreement between model and spec would contradict the refinement theorems and is
reported as `bad-op` (a defect of this machinery, never of rust-bio).

A mismatch is reported as `diff <op-kind> at:<k> exp:<…> got:<…>`; when the history contains, at or before
the first mismatching operation, a `push_values` call that meets the trigger condition of one of the two
recorded defects of `BitEnc::push_values`, the verdict carries `trig:pv-overrun` / `trig:pv-unmasked`
(the known-finding entries match on these). -/
namespace RbV.Drv.C18
open RbV.Codec

def dotNat (l : List Nat) : String := if l.isEmpty then "-" else ".".intercalate (l.map toString)
def dotInt (l : List Int) : String := if l.isEmpty then "-" else ".".intercalate (l.map toString)

def kvOf (tok key : String) : Option String :=
  match tok.splitOn ":" with
  | [k, v] => if k = key then some v else none
  | _ => none

/-- index of the first position where the two lists differ (or where one ends) -/
def firstDiff : List String → List String → Nat → Option Nat
  | [], ["-"], 0 => none      -- empty history: the harness prints `-`
  | [], [], _ => none
  | a :: as, b :: bs, k => if a = b then firstDiff as bs (k + 1) else some k
  | _, _, k => some k

def splitObs (out : String) : Option (List String × String) :=
  match out.splitOn " | " with
  | [a, b] => some (a.splitOn ",", b)
  | _ => none

/-! ### BitEnc -/
section bitenc
open RbV.Spec.BitEnc

def parseBeOp (s : String) : Option Op :=
  match s.splitOn ":" with
  | ["p", v] => v.toNat?.map .push
  | ["pv", n, v] => do let n ← n.toNat?; let v ← v.toNat?; pure (.pushValues n v)
  | ["s", i, v] => do let i ← i.toNat?; let v ← v.toNat?; pure (.set i v)
  | ["g", i] => i.toNat?.map .get
  | ["it"] => some .iter
  | ["clr"] => some .clear
  | _ => none

def beKind : Op → String
  | .push _ => "p" | .pushValues _ _ => "pv" | .set _ _ => "s" | .get _ => "g" | .iter => "it" | .clear => "clr"

/-- observation the spec predicts for `op` (state *after* the operation is `l'`) -/
def beSpecObs (w : Nat) (l' : List Nat) : Op → String
  | .get i => match l'[i]? with | some v => toString v | none => "N"
  | .iter => dotNat l'
  | _ => s!"{l'.length}/{specBlocks w l'.length}"

/-- observation the mirror model predicts -/
def beModelObs (w : Nat) (s' : Model.BitEnc.St) : Op → String
  | .get i => match Model.BitEnc.get w s' i with | some v => toString v | none => "N"
  | .iter => dotNat (Model.BitEnc.toList w s')
  | _ => s!"{s'.len}/{Model.BitEnc.nrBlocks s'}"

/-- trigger conditions of the two recorded `push_values` defects, evaluated on the spec state *before* the op -/
def beTrig (w : Nat) (len : Nat) : Op → List String
  | .pushValues n v =>
    let per := perBlock w
    let r := len % per
    let rem := if r = 0 then 0 else per - r
    (if 32 % w ≠ 0 ∧ r ≠ 0 ∧ n = rem + 1 then ["trig:pv-overrun"] else [])
    ++ (if v ≥ 2 ^ w ∧ n > rem then ["trig:pv-unmasked"] else [])
  | _ => []

structure BeRun where
  spec : List String := []       -- expected observations (reversed)
  model : List String := []
  trig : List (List String) := []  -- per op
  tags : List String := []
  maxLen : Nat := 0

def beTagsOf (w : Nat) (len : Nat) : Op → List String
  | .pushValues n v =>
    let per := perBlock w
    let r := len % per
    let rem := if r = 0 then 0 else per - r
    (if r ≠ 0 ∧ n ≥ 1 then ["pv-fill"] else []) ++ (if r ≠ 0 ∧ n = rem then ["pv-exact"] else [])
    ++ (if r ≠ 0 ∧ n = rem + 1 then ["pv-rem+1"] else [])
    ++ (if n ≥ rem + per then ["pv-full"] else []) ++ (if n > rem ∧ (len + n) % per ≠ 0 then ["pv-partial"] else [])
    ++ (if n = 0 then ["pv-0"] else []) ++ (if v ≥ 2 ^ w then ["pv-bigv"] else [])
  | .push v => if v ≥ 2 ^ w then ["p-bigv"] else []
  | .set i v => (if v ≥ 2 ^ w then ["s-bigv"] else []) ++ (if i + 1 = len then ["s-last"] else [])
  | .get i => if i ≥ len then ["g-none"] else []
  | .clear => if len > 0 then ["clr"] else []
  | .iter => []

def beRun (w : Nat) : List Op → List Nat → Model.BitEnc.St → BeRun → BeRun × List Nat × Model.BitEnc.St
  | [], l, s, r => (r, l, s)
  | op :: ops, l, s, r =>
    let l' := specStep w l op
    let s' := Model.BitEnc.step w s op
    beRun w ops l' s'
      { spec := beSpecObs w l' op :: r.spec, model := beModelObs w s' op :: r.model,
        trig := beTrig w l.length op :: r.trig, tags := beTagsOf w l.length op ++ r.tags,
        maxLen := max r.maxLen l'.length }

def dedup (l : List String) : List String := l.foldl (fun acc x => if acc.contains x then acc else acc ++ [x]) []

def verdictBitenc (wt ct opsT out : String) : String :=
  match (kvOf wt "w").bind String.toNat?, (kvOf ct "c").bind String.toNat?, parseList parseBeOp opsT with
  | some w, some _, some ops =>
    if w < 1 ∨ w > 8 then "bad-op width" else
    let (r, l, s) := beRun w ops [] Model.BitEnc.new {}
    let exp := r.spec.reverse
    let trigs := r.trig.reverse
    let fin := s!"{l.length}/{l.length}/{specBlocks w l.length}/{if l.isEmpty then 1 else 0} {dotNat l} N"
    let finM := s!"{s.len}/{s.len}/{Model.BitEnc.nrBlocks s}/{if s.len = 0 then 1 else 0} {dotNat (Model.BitEnc.toList w s)} {match Model.BitEnc.get w s s.len with | some v => toString v | none => "N"}"
    if r.model.reverse ≠ exp ∨ finM ≠ fin then "bad-op model-and-spec-disagree" else
    match splitObs out with
    | none => if out.startsWith "PANIC" || out.startsWith "HANG" || out.startsWith "CRASH" then "reject " ++ out else "bad-op output"
    | some (obs, ofin) =>
      match firstDiff exp obs 0 with
      | some k =>
        let kind := match ops[k]? with | some op => beKind op | none => "extra"
        let tr := dedup ((trigs.take (k + 1)).flatten)
        s!"diff bitenc-{kind} at:{k} exp:{exp.getD k "<none>"} got:{obs.getD k "<none>"}" ++ String.join (tr.map (" " ++ ·))
      | none =>
        if ofin ≠ fin then
          let tr := dedup trigs.flatten
          s!"diff bitenc-final exp:{fin}" ++ String.join (tr.map (" " ++ ·))
        else
          let nmut := (ops.filter (fun o => match o with | .get _ => false | .iter => false | _ => true)).length
          let nt := nmut ≥ 2 ∧ r.maxLen > perBlock w
          "ok" ++ (if nt then " nt" else "") ++ s!" bitenc w{w}" ++ String.join ((dedup r.tags).map (" " ++ ·))
  | _, _, _ => "bad-op parse"

end bitenc

/-! ### SmallInts -/
section smallints
open RbV.Spec.SmallInts

def parseSiOp (s : String) : Option Op :=
  match s.splitOn ":" with
  | ["p", v] => v.toInt?.map .push
  | ["s", i, v] => do let i ← i.toNat?; let v ← v.toInt?; pure (.set i v)
  | ["g", i] => i.toNat?.map .get
  | ["it"] => some .iter
  | ["dc"] => some .decompress
  | _ => none

def siKind : Op → String
  | .push _ => "p" | .set _ _ => "s" | .get _ => "g" | .iter => "it" | .decompress => "dc"

/-- (small min, small max) -/
def siRange (ty : String) : Option (Int × Int) :=
  match ty with
  | "i8" => some (-128, 127) | "u8" => some (0, 255) | "u16" => some (0, 65535) | "i16" => some (-32768, 32767)
  | _ => none

def siSpecObs (l' : List Int) : Op → String
  | .get i => match l'[i]? with | some v => toString v | none => "N"
  | .iter => dotInt l'
  | .decompress => dotInt l'
  | _ => toString l'.length

def siModelObs (hi : Int) (s' : Model.SmallInts.St) : Op → String
  | .get i => match Model.SmallInts.get hi s' i with | some v => toString v | none => "N"
  | .iter => dotInt (Model.SmallInts.toList hi s')
  | .decompress => dotInt (Model.SmallInts.toList hi s')
  | _ => toString s'.small.length

def siRun (lo hi : Int) : List Op → List Int → Model.SmallInts.St → List String → List String →
    List String × List String × List Int × Model.SmallInts.St
  | [], l, s, e, m => (e.reverse, m.reverse, l, s)
  | op :: ops, l, s, e, m =>
    let l' := specStep l op
    let s' := Model.SmallInts.step lo hi s op
    siRun lo hi ops l' s' (siSpecObs l' op :: e) (siModelObs hi s' op :: m)

def optInt : Option Int → String
  | some v => toString v
  | none => "N"

def verdictSi (ty ctor opsT out : String) : String :=
  match siRange ty, parseList parseSiOp opsT with
  | some (lo, hi), some ops =>
    let init : Option (Option (List Int × Model.SmallInts.St)) :=
      match ctor.splitOn ":" with
      | ["new"] => some (some ([], Model.SmallInts.new))
      | ["cap", n] => n.toNat?.map (fun _ => some ([], Model.SmallInts.new))
      | ["fe", v, n] => do
          let v ← v.toInt?; let n ← n.toNat?
          if v < lo ∨ v > hi then none
          else if v > 0 ∧ ¬ v < hi then pure none   -- refused by the assertion of `from_elem`
          else pure (some (specFromElem v n, Model.SmallInts.fromElem v n))
      | _ => none
    match init with
    | none => "bad-op ctor"
    | some none => if out = "P | P" then "ok si refused" else "reject si-from-elem-max-not-refused"
    | some (some (l0, s0)) =>
      let (exp, mod, l, s) := siRun lo hi ops l0 s0 [] []
      let fin := s!"{l.length}/{if l.isEmpty then 1 else 0} {dotInt l} N"
      let finM := s!"{s.small.length}/{if s.small.isEmpty then 1 else 0} {".".intercalate ((List.range s.small.length).map (fun i => optInt (Model.SmallInts.get hi s i)))} {optInt (Model.SmallInts.get hi s s.small.length)}"
      let finM := if s.small.isEmpty then s!"0/1 - {optInt (Model.SmallInts.get hi s 0)}" else finM
      if mod ≠ exp ∨ finM ≠ fin then "bad-op model-and-spec-disagree" else
      match splitObs out with
      | none => if out.startsWith "PANIC" || out.startsWith "HANG" || out.startsWith "CRASH" then "reject " ++ out else "bad-op output"
      | some (obs, ofin) =>
        match firstDiff exp obs 0 with
        | some k =>
          let kind := match ops[k]? with | some op => siKind op | none => "extra"
          s!"diff si-{kind} at:{k} exp:{exp.getD k "<none>"} got:{obs.getD k "<none>"}"
        | none =>
          if ofin ≠ fin then s!"diff si-final exp:{fin}" else
          let bigs := ops.filter (fun o => match o with | .push v => v ≥ hi ∨ v < lo | .set _ v => v ≥ hi ∨ v < lo | _ => false)
          let hasMax := ops.any (fun o => match o with | .push v => v == hi | .set _ v => v == hi | _ => false)
          let hasNeg := ops.any (fun o => match o with | .push v => v < 0 | .set _ v => v < 0 | _ => false)
          let setAfterBig := ops.any (fun o => match o with | .set _ _ => true | _ => false)
          let nt := ops.length ≥ 2 ∧ !bigs.isEmpty
          "ok" ++ (if nt then " nt" else "") ++ s!" si {ty}" ++ (if hasMax then " eq-max" else "")
            ++ (if hasNeg then " neg" else "") ++ (if setAfterBig then " set" else "")
            ++ (if ctor.startsWith "fe" then " from_elem" else "")
  | _, _ => "bad-op parse"

end smallints

/-! ### Fenwick trees -/
section fenwick
open RbV.Spec.Fenwick

inductive FwOp where
  | upd (i : Nat) (v : Int)
  | qry (i : Nat)

def parseFwOp (s : String) : Option FwOp :=
  match s.splitOn ":" with
  | ["u", i, v] => do let i ← i.toNat?; let v ← v.toInt?; pure (.upd i v)
  | ["q", i] => i.toNat?.map .qry
  | _ => none

/-- spec and model side by side; `isSum` selects the operation -/
def fwRun (isSum : Bool) : List FwOp → List (Nat × Int) → List Int → List String → List String →
    List String × List String × List (Nat × Int) × List Int
  | [], ups, tree, e, m => (e.reverse, m.reverse, ups, tree)
  | .upd i v :: ops, ups, tree, e, m =>
    let tree' := if isSum then Model.Fenwick.set (· + ·) 0 tree i v else Model.Fenwick.set max 0 tree i v
    fwRun isSum ops (ups ++ [(i, v)]) tree' ("u" :: e) ("u" :: m)
  | .qry i :: ops, ups, tree, e, m =>
    let ex : Int := if isSum then prefixSum ups i else (prefixMax (ups.map (fun u => (u.1, u.2.toNat))) i : Nat)
    let mo : Int := if isSum then Model.Fenwick.get (· + ·) 0 tree i else Model.Fenwick.get max 0 tree i
    fwRun isSum ops ups tree (toString ex :: e) (toString mo :: m)

def verdictFw (kind nT opsT out : String) : String :=
  match nT.toNat?, parseList parseFwOp opsT with
  | some n, some ops =>
    if kind ≠ "sum" ∧ kind ≠ "max" then "bad-op kind" else
    if n = 0 then "bad-op len" else
    let isSum := kind = "sum"
    if ops.any (fun o => match o with | .upd i v => i ≥ n ∨ (!isSum ∧ v < 0) | .qry i => i ≥ n) then "bad-op index" else
    let (exp, mod, ups, tree) := fwRun isSum ops [] (Model.Fenwick.new (0 : Int) n) [] []
    let finL : List Int := (List.range n).map (fun i =>
      if isSum then prefixSum ups i else ((prefixMax (ups.map (fun u => (u.1, u.2.toNat))) i : Nat) : Int))
    let finML : List Int := (List.range n).map (fun i =>
      if isSum then Model.Fenwick.get (· + ·) 0 tree i else Model.Fenwick.get max 0 tree i)
    if mod ≠ exp ∨ finML ≠ finL then "bad-op model-and-spec-disagree" else
    match splitObs out with
    | none => if out.startsWith "PANIC" || out.startsWith "HANG" || out.startsWith "CRASH" then "reject " ++ out else "bad-op output"
    | some (obs, ofin) =>
      match firstDiff exp obs 0 with
      | some k => s!"diff fw-{kind} at:{k} exp:{exp.getD k "<none>"} got:{obs.getD k "<none>"}"
      | none =>
        if ofin ≠ dotInt finL then s!"diff fw-{kind}-final exp:{dotInt finL}" else
        let nu := (ops.filter (fun o => match o with | .upd _ _ => true | _ => false)).length
        "ok" ++ (if nu ≥ 2 ∧ n ≥ 3 then " nt" else "") ++ s!" fw-{kind}" ++ (if n ≥ 33 then " n>=33" else "")
  | _, _ => "bad-op parse"

end fenwick

def verdict (toks : List String) (out : String) : String :=
  match toks with
  | ["bitenc", w, c, ops] => verdictBitenc w c ops out
  | ["si", ty, ctor, ops] => verdictSi ty ctor ops out
  | ["fw", kind, n, ops] => verdictFw kind n ops out
  | _ => "bad-op arity"

end RbV.Drv.C18
