import RbV.Basic.Codec
/-! Driver for property C18 (line protocol → verdict). -/
namespace RbV.Drv.C18
open RbV.Codec

def verdict (_toks : List String) (_out : String) : String := "bad-op unimplemented"

end RbV.Drv.C18
