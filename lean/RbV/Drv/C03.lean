import RbV.Basic.Codec
import RbV.Ref.SA
import RbV.Model.Kasai
import RbV.Model.Sus
import RbV.Model.SampledGet
import RbV.Model.OccTable
import RbV.Model.Sais
/-! Driver for property C03 (suffix array, LCP, shortest unique substrings, sampled suffix array).

`c03 sa <text>                     => <sa>`                   accepted iff `checkSA text sa`
`c03 lcp <text>                    => <sa>;<lcp>;<sus>`       `checkSA`, `lcp = lcpRef text sa`, `sus = susRef`
`c03 int <v0,…>                    => <sa>`                   accepted iff `checkSorted text sa`
`c03 samp <text> <f|n> <ss> <ks>   => <sa>;<g>/<g>/…`         `checkSA`, every `g = sa`

On every case the mirror model of SA-IS (`Model/Sais.lean`: `suffix_array` / `suffix_array_int`, statement by statement)
is run on the text and compared with the implementation's array: tag `sais-model=impl` or `drift-sais` (a drift is
never a violation: the acceptance function stays the oracle; on a rejected array the same tag is appended to the
reject reason, so a violation report also says whether the model still agrees with the implementation).
-/
namespace RbV.Drv.C03
open RbV.Codec RbV

def parseOptNat (s : String) : Option (Option Nat) :=
  if s = "n" then some none else (s.toNat?).map some

def showOptNatList (l : List (Option Nat)) : String :=
  if l.isEmpty then "-" else ",".intercalate (l.map fun | none => "n" | some v => toString v)

/-- number of LMS positions (S-type position preceded by an L-type one) of a key text -/
def lmsCount (ks : List Nat) : Nat :=
  -- scan from the right: (next symbol, next is S-type, count)
  let step := fun (c : Nat) (st : Option (Nat × Bool) × Nat) =>
    match st with
    | (none, n) => (some (c, true), n)
    | (some (d, sNext), n) =>
      let s := if c = d then sNext else decide (c < d)
      (some (c, s), if !s && sNext then n + 1 else n)
  (ks.foldr step (none, 0)).2

def sentCount (t : List Nat) : Nat := t.count (sentinelOf t)

def saTags (t : List Nat) (sa : List Nat) : String :=
  let ns := sentCount t
  let lms := lmsCount (inducedKeys t sa)
  (if lms ≥ 2 || ns ≥ 2 then " nt" else "")
    ++ (if ns ≥ 2 then " multi-sent" else "")
    ++ (if ns ≥ 256 then " sent>=256" else "")
    ++ (if lms ≥ 256 then " lms>=256" else "")
    ++ (if t.length ≥ 100 then " n>=100" else "")
    ++ (if sentinelOf t ≠ 36 then " sent-not-$" else "")

/-- mirror model of SA-IS next to the implementation -/
def saisTag (model impl : List Nat) : String :=
  if model = impl then " sais-model=impl" else " drift-sais"

def failOut (out : String) : Option String :=
  if out.startsWith "PANIC" || out.startsWith "HANG" || out.startsWith "CRASH" then some ("reject " ++ out)
  else none

def verdict (toks : List String) (out : String) : String :=
  match toks with
  | ["sa", th] =>
    match parseHex th with
    | some t =>
      match parseNatList out with
      | some sa => if checkSA t sa then "ok" ++ saTags t sa ++ saisTag (Sais.suffixArray t) sa
        else "reject not-a-sorted-suffix-permutation" ++ saisTag (Sais.suffixArray t) sa
      | none => (failOut out).getD "bad-op output"
    | none => "bad-op parse"
  | ["int", tl] =>
    match parseNatList tl with
    | some t =>
      match parseNatList out with
      | some sa =>
        if checkSorted t sa then "ok" ++ (if lmsCount t ≥ 2 then " nt" else "") ++ " int"
          ++ saisTag (Sais.suffixArrayInt t) sa
        else "reject not-a-sorted-suffix-permutation" ++ saisTag (Sais.suffixArrayInt t) sa
      | none => (failOut out).getD "bad-op output"
    | none => "bad-op parse"
  | ["lcp", th] =>
    match parseHex th with
    | some t =>
      match out.splitOn ";" with
      | [a, b, c] =>
        match parseNatList a, parseIntList b, parseList parseOptNat c with
        | some sa, some l, some sus =>
          if !checkSA t sa then "reject not-a-sorted-suffix-permutation" ++ saisTag (Sais.suffixArray t) sa else
          let le := lcpRef t sa
          if l ≠ le then "diff lcp " ++ showIntList le else
          let se := (List.range t.length).map (susRef t)
          if sus ≠ se then "diff sus " ++ showOptNatList se else
          "ok" ++ (if t.length ≥ 4 then " nt" else "") ++ " lcp"
            ++ (if le.any (· ≥ 127) then " lcp>=127" else "")
            ++ (if le.any (· ≥ 1) then " lcp>=1" else "")
            ++ (if Kasai.kasai t sa ≠ l || Sus.susModel sa l ≠ sus then " drift" else "")
            ++ saisTag (Sais.suffixArray t) sa
        | _, _, _ => "bad-op output"
      | _ => (failOut out).getD "bad-op output"
    | none => "bad-op parse"
  | ["samp", th, _fl, ssS, ksS] =>
    match parseHex th, parseNatList ssS, parseNatList ksS with
    | some t, some ss, some ks =>
      match out.splitOn ";" with
      | [a, b] =>
        match parseNatList a, parseListNE (parseList parseOptNat) b '/' with
        | some sa, some gs =>
          if !checkSA t sa then "reject not-a-sorted-suffix-permutation" ++ saisTag (Sais.suffixArray t) sa else
          if gs.length ≠ ss.length * ks.length then "bad-op arity" else
          let want := sa.map some
          let combos := ss.flatMap (fun s => ks.map (fun k => (s, k)))
          match (combos.zip gs).find? (fun x => x.2 ≠ want) with
          | some ((s, k), _) => "diff samp s:" ++ toString s ++ " k:" ++ toString k ++ " " ++ showNatList sa
          | none =>
            -- run the mirror model of sample()/get() on the mirror models of less(), Occ::new, Occ::get
            let bwt := bwtRef t sa
            let sent := sentinelOf t
            let mx := t.foldl max 0
            let lessA := OccM.lessModel bwt (mx + 2)
            let alpha := t.eraseDups
            let rows := List.range t.length
            let drift := combos.any (fun (s, k) =>
              let table := OccM.occTable bwt k alpha (mx + 1)
              let occF := fun (r c : Nat) => OccM.occGet ((table[c]?).getD []) bwt k r c
              rows.map (Sampled.sampledGet bwt sa s sent lessA occF) ≠ want)
            "ok" ++ (if t.length ≥ 4 then " nt" else "") ++ " samp" ++ (if drift then " drift" else "")
              ++ (if sentCount t ≥ 2 then " multi-sent" else "")
              ++ (if ks.any (· > 64) then " k>64" else "")
              ++ (if ss.any (· ≥ t.length) then " s>=n" else "")
              ++ saisTag (Sais.suffixArray t) sa
        | _, _ => "bad-op output"
      | _ => (failOut out).getD "bad-op output"
    | _, _, _ => "bad-op parse"
  | _ => "bad-op arity"

end RbV.Drv.C03
