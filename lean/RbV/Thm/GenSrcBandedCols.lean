import RbV.Thm.GenSrcBandedCell
import RbV.Thm.GenSrcBand
/-!
The parts of one column of `compute_alignment` around the cell loop, tied to the source text (`RbV/Gen/SrcBandedFill.lean`):
the two reset loops (`fillColumns_for2`: `for i in i_start.saturating_sub(1)..i_start`, `fillColumns_for4`:
`for i in i_end..min(m + 1, ranges[min(n, j + 1)].end)`) write `MIN_SCORE` into **exactly** the cells `a ≤ i < b` of row `curr` of
`S`, `I`, `D` and nothing else; the column trackers `for1_if2` / `for1_if3`; preservation of the shape `Dims` by every piece.
-/
set_option linter.unusedSimpArgs false
set_option linter.unusedVariables false
namespace RbV.Thm.GenSrcBandedCols
open RbV RbV.Gen RbV.Rs RbV.Rs.Res RbV.Align RbV.Gen.TbCodes RbV.Gen.SrcBandedFill RbV.Thm.GenSrcBandedFill RbV.Thm.GenSrcBandedCell

abbrev MIN : Int := RbV.Gen.Limits.minScorePairwise

/-- shape of one two-row array -/
def Arr (A : List (List Int)) (m : Nat) : Prop := A.length = 2 ∧ ∀ k, k < 2 → (A.getD k []).length = m + 1

theorem arr_wr {A : List (List Int)} {m : Nat} (h : Arr A m) (k i : Nat) (v : Int) (hk : k < 2) : Arr (wr A k i v) m := by
  refine ⟨by rw [wr_len]; exact h.1, fun k' hk' => ?_⟩
  rw [wr_rowlen _ _ _ _ _ (by rw [h.1]; exact hk)]; exact h.2 k' hk'

theorem rd_wr2 (A : List (List Int)) (m k i k' i' : Nat) (v : Int) (h : Arr A m) (hk : k < 2) (hi : i ≤ m) :
    rd (wr A k i v) k' i' = if k = k' ∧ i = i' then v else rd A k' i' := by
  by_cases hkk : k = k'
  · subst hkk
    rw [rd_wr A k i i' v (by rw [h.1]; exact hk) (by rw [h.2 k hk]; omega)]
    by_cases hii : i = i' <;> simp [hii]
  · have : ¬ (k = k' ∧ i = i') := fun c => hkk c.1
    simp only [this, if_false]
    unfold rd; rw [wr_row_ne _ _ _ _ _ hkk]

theorem dims_arr {S I D : List (List Int)} {Lx Ly : List Nat} {Sn : List Int} {m n : Nat} (h : Dims S I D Lx Ly Sn m n) :
    Arr S m ∧ Arr I m ∧ Arr D m := ⟨⟨h.s2, h.srow⟩, ⟨h.i2, h.irow⟩, ⟨h.d2, h.drow⟩⟩

theorem dims_of {S I D : List (List Int)} {Lx Ly : List Nat} {Sn : List Int} {m n : Nat} (hS : Arr S m) (hI : Arr I m)
    (hD : Arr D m) (hlx : Lx.length = n + 1) (hly : Ly.length = m + 1) (hsn : Sn.length = m + 1) : Dims S I D Lx Ly Sn m n :=
  ⟨hS.1, hI.1, hD.1, hS.2, hI.2, hD.2, hlx, hly, hsn⟩

section
variable {Tbm : Type} (matchFn : Nat → Nat → Int) (tbGet : Tbm → Nat → Nat → Cell) (tbSet : Tbm → Nat → Nat → Cell → Tbm)

/-- one iteration of a reset loop: `S[curr][i] = I[curr][i] = D[curr][i] = MIN_SCORE` -/
theorem reset_step (S I D : List (List Int)) (Lx Ly : List Nat) (Sn : List Int) (T : Tbm) (sc : ScT) (bd : BandT) (k w : Nat)
    (m curr i : Nat) (hS : Arr S m) (hI : Arr I m) (hD : Arr D m) (hc : curr < 2) (hi : i ≤ m) :
    fillColumns_for2 matchFn tbGet tbSet curr (S, I, D, Lx, Ly, Sn, T, sc, bd, k, w) i =
      ok (wr S curr i MIN, wr I curr i MIN, wr D curr i MIN, Lx, Ly, Sn, T, sc, bd, k, w) ∧
    fillColumns_for4 matchFn tbGet tbSet curr (S, I, D, Lx, Ly, Sn, T, sc, bd, k, w) i =
      ok (wr S curr i MIN, wr I curr i MIN, wr D curr i MIN, Lx, Ly, Sn, T, sc, bd, k, w) := by
  have cS : curr < S.length := by rw [hS.1]; exact hc
  have cI : curr < I.length := by rw [hI.1]; exact hc
  have cD : curr < D.length := by rw [hD.1]; exact hc
  have iS : i < (S.getD curr []).length := by rw [hS.2 curr hc]; omega
  have iI : i < (I.getD curr []).length := by rw [hI.2 curr hc]; omega
  have iD : i < (D.getD curr []).length := by rw [hD.2 curr hc]; omega
  constructor
  · unfold fillColumns_for2
    simp only [idx_getD S curr [] cS, idx_getD I curr [] cI, idx_getD D curr [] cD, ok_bind, Rs.setIdx_ok iS, Rs.setIdx_ok iI,
      Rs.setIdx_ok iD, Rs.setIdx_ok cS, Rs.setIdx_ok cI, Rs.setIdx_ok cD, pure_eq_ok]
    rfl
  · unfold fillColumns_for4
    simp only [idx_getD S curr [] cS, idx_getD I curr [] cI, idx_getD D curr [] cD, ok_bind, Rs.setIdx_ok iS, Rs.setIdx_ok iI,
      Rs.setIdx_ok iD, Rs.setIdx_ok cS, Rs.setIdx_ok cI, Rs.setIdx_ok cD, pure_eq_ok]
    rfl

/-- `A'` is `A` with exactly the cells `a ≤ i < b` of row `curr` set to `MIN_SCORE` -/
def ResetTo (A A' : List (List Int)) (m curr a b : Nat) : Prop :=
  Arr A' m ∧ ∀ k i, rd A' k i = if k = curr ∧ a ≤ i ∧ i < b then MIN else rd A k i

theorem resetTo_refl {A : List (List Int)} {m : Nat} (h : Arr A m) (curr a : Nat) : ResetTo A A m curr a a :=
  ⟨h, fun k i => by have : ¬ (k = curr ∧ a ≤ i ∧ i < a) := by omega
                    simp [this]⟩

theorem resetTo_step {A A' : List (List Int)} {m curr a t : Nat} (h : ResetTo A A' m curr a t) (hc : curr < 2) (hat : a ≤ t)
    (ht : t ≤ m) : ResetTo A (wr A' curr t MIN) m curr a (t + 1) := by
  refine ⟨arr_wr h.1 curr t MIN hc, fun k i => ?_⟩
  rw [rd_wr2 A' m curr t k i MIN h.1 hc ht, h.2 k i]
  by_cases h1 : curr = k ∧ t = i
  · obtain ⟨rfl, rfl⟩ := h1
    have : curr = curr ∧ a ≤ t ∧ t < t + 1 := ⟨rfl, hat, by omega⟩
    simp [this]
  · simp only [h1, if_false]
    by_cases h2 : k = curr ∧ a ≤ i ∧ i < t
    · have : k = curr ∧ a ≤ i ∧ i < t + 1 := ⟨h2.1, h2.2.1, by omega⟩
      simp [h2, this]
    · have : ¬ (k = curr ∧ a ≤ i ∧ i < t + 1) := by
        intro c; apply h2; refine ⟨c.1, c.2.1, ?_⟩
        have : t ≠ i := fun e => h1 ⟨c.1.symm, e⟩
        omega
      simp [h2, this]

/-- **The reset loops**: `for i in a..b` (with `b ≤ m + 1`) over either reset body sets exactly the cells `a ≤ i < b` of row
`curr` of `S`, `I` and `D` to `MIN_SCORE`; every other cell of the three arrays and everything else of the aligner is unchanged. -/
theorem reset_loop (step : St Tbm → Nat → Res (St Tbm))
    (hstep : step = fillColumns_for2 matchFn tbGet tbSet curr ∨ step = fillColumns_for4 matchFn tbGet tbSet curr)
    (S I D : List (List Int)) (Lx Ly : List Nat) (Sn : List Int) (T : Tbm) (sc : ScT) (bd : BandT) (k w : Nat)
    (m a b : Nat) (hS : Arr S m) (hI : Arr I m) (hD : Arr D m) (hc : curr < 2) (hb : b ≤ m + 1) :
    ∃ S' I' D', List.foldlM step (S, I, D, Lx, Ly, Sn, T, sc, bd, k, w) (List.range' a (b - a)) =
        ok (S', I', D', Lx, Ly, Sn, T, sc, bd, k, w) ∧
      ResetTo S S' m curr a b ∧ ResetTo I I' m curr a b ∧ ResetTo D D' m curr a b := by
  have key := RbV.Thm.GenSrcBand.foldlM_range'_inv step
    (fun t st => ∃ S' I' D', st = (S', I', D', Lx, Ly, Sn, T, sc, bd, k, w) ∧
      ResetTo S S' m curr a t ∧ ResetTo I I' m curr a t ∧ ResetTo D D' m curr a t) (b - a) a
    (S, I, D, Lx, Ly, Sn, T, sc, bd, k, w) ⟨S, I, D, rfl, resetTo_refl hS curr a, resetTo_refl hI curr a, resetTo_refl hD curr a⟩
    (by
      intro t st h1 h2 ⟨S', I', D', e, rS, rI, rD⟩
      subst e
      have ht : t ≤ m := by omega
      have hs := reset_step matchFn tbGet tbSet S' I' D' Lx Ly Sn T sc bd k w m curr t rS.1 rI.1 rD.1 hc ht
      refine ⟨_, ?_, _, _, _, rfl, resetTo_step rS hc h1 ht, resetTo_step rI hc h1 ht, resetTo_step rD hc h1 ht⟩
      rcases hstep with e | e <;> subst e
      · exact hs.1
      · exact hs.2)
  obtain ⟨s', e, S', I', D', es, rS, rI, rD⟩ := key
  subst es
  refine ⟨S', I', D', e, ?_, ?_, ?_⟩
  all_goals
    by_cases hab : a ≤ b
    · rw [show a + (b - a) = b by omega] at rS rI rD; assumption
    · rw [show a + (b - a) = a by omega] at rS rI rD
      first
        | exact ⟨rS.1, fun k i => by rw [rS.2 k i]; have h1 : ¬ (k = curr ∧ a ≤ i ∧ i < a) := by omega
                                     have h2 : ¬ (k = curr ∧ a ≤ i ∧ i < b) := by omega
                                     simp [h1, h2]⟩
        | exact ⟨rI.1, fun k i => by rw [rI.2 k i]; have h1 : ¬ (k = curr ∧ a ≤ i ∧ i < a) := by omega
                                     have h2 : ¬ (k = curr ∧ a ≤ i ∧ i < b) := by omega
                                     simp [h1, h2]⟩
        | exact ⟨rD.1, fun k i => by rw [rD.2 k i]; have h1 : ¬ (k = curr ∧ a ≤ i ∧ i < a) := by omega
                                     have h2 : ¬ (k = curr ∧ a ≤ i ∧ i < b) := by omega
                                     simp [h1, h2]⟩

/-- **the shape is preserved by one cell iteration** (the state `banded_cell_update_source_eq_model` returns) -/
theorem dims_cell {S I D : List (List Int)} {Lx Ly Lx' Ly' : List Nat} {Sn : List Int} {m n : Nat} (h : Dims S I D Lx Ly Sn m n)
    (curr i : Nat) (hc : curr < 2) (cs ci cd v sv : Int) (hLx : Lx'.length = Lx.length) (hLy : Ly'.length = Ly.length) :
    Dims (wr (wr (if i = m then S else wr S curr i MIN) curr i cs) curr m v) (wr I curr i ci) (wr D curr i cd) Lx' Ly'
      (Sn.set i sv) m n := by
  obtain ⟨aS, aI, aD⟩ := dims_arr h
  refine dims_of (arr_wr (arr_wr ?_ curr i cs hc) curr m v hc) (arr_wr aI curr i ci hc) (arr_wr aD curr i cd hc)
    (by rw [hLx]; exact h.lx) (by rw [hLy]; exact h.ly) (by rw [List.length_set]; exact h.sn)
  split
  · exact aS
  · exact arr_wr aS curr i MIN hc

/-- the reset loops preserve the shape -/
theorem dims_reset {S I D S' I' D' : List (List Int)} {Lx Ly : List Nat} {Sn : List Int} {m n curr a b : Nat}
    (h : Dims S I D Lx Ly Sn m n) (rS : ResetTo S S' m curr a b) (rI : ResetTo I I' m curr a b) (rD : ResetTo D D' m curr a b) :
    Dims S' I' D' Lx Ly Sn m n := dims_of rS.1 rI.1 rD.1 h.lx h.ly h.sn

/-- the y-suffix tracker of row `m` after the cell loop: `Sn[m] = max(Sn[m], S[curr][m] + yclip_suffix)` -/
theorem col_if2_eq (S I D : List (List Int)) (Lx Ly : List Nat) (Sn : List Int) (T : Tbm) (sc : ScT) (bd : BandT) (k w : Nat)
    (m n j curr : Nat) (hS : Arr S m) (hc : curr < 2) (hsn : Sn.length = m + 1) (hly : Ly.length = m + 1) (hjn : j ≤ n)
    (o : Rs.InS 32 (rd S curr m + sc.2.2.2.2.2.2)) :
    ∃ Ly' T', fillColumns_for1_if2 matchFn tbGet tbSet m n j curr (S, I, D, Lx, Ly, Sn, T, sc, bd, k, w) =
        ok (S, I, D, Lx, Ly', Sn.set m (max (Sn.getD m 0) (rd S curr m + sc.2.2.2.2.2.2)), T', sc, bd, k, w) ∧
      Ly'.length = Ly.length := by
  have cS : curr < S.length := by rw [hS.1]; exact hc
  have mS : m < (S.getD curr []).length := by rw [hS.2 curr hc]; omega
  have mSn : m < Sn.length := by omega
  have mLy : m < Ly.length := by omega
  unfold fillColumns_for1_if2
  have o' : Rs.InS 32 ((S.getD curr []).getD m 0 + sc.2.2.2.2.2.2) := o
  simp only [Rs.iadd_ok o', idx_getD S curr [] cS, ok_bind, idx_getD (S.getD curr []) m 0 mS, idx_getD Sn m 0 mSn,
    pure_eq_ok, bind_pure_comp]
  split
  · rename_i h
    simp only [decide_eq_true_eq, gt_iff_lt, ge_iff_le] at h
    simp only [Rs.setIdx_ok mSn, ok_bind, Rs.sub_ok hjn, Rs.setIdx_ok mLy, Functor.map, Res.bind]
    have e : max (Sn.getD m 0) (rd S curr m + sc.2.2.2.2.2.2) = rd S curr m + sc.2.2.2.2.2.2 := by unfold rd at *; omega
    rw [e]
    exact ⟨_, _, rfl, List.length_set⟩
  · rename_i h
    simp only [decide_eq_true_eq, gt_iff_lt, ge_iff_le] at h
    refine ⟨Ly, T, ?_, rfl⟩
    have e : max (Sn.getD m 0) (rd S curr m + sc.2.2.2.2.2.2) = Sn.getD m 0 := by unfold rd at *; omega
    rw [e, set_self Sn m 0 mSn]

/-- `if i_end < m + 1 { traceback(m, j).s = TB_XCLIP_SUFFIX; S[curr][m] = MIN_SCORE }`: the x-suffix register is cleared exactly
when row `m` is outside the band of the column -/
theorem col_if3_eq (S I D : List (List Int)) (Lx Ly : List Nat) (Sn : List Int) (T : Tbm) (sc : ScT) (bd : BandT) (k w : Nat)
    (m j curr iEnd : Nat) (hS : Arr S m) (hc : curr < 2) (hm : m + 1 < 2 ^ 64) :
    ∃ T', fillColumns_for1_if3 matchFn tbGet tbSet m j curr iEnd (S, I, D, Lx, Ly, Sn, T, sc, bd, k, w) =
        ok ((if iEnd < m + 1 then wr S curr m MIN else S), I, D, Lx, Ly, Sn, T', sc, bd, k, w) := by
  have cS : curr < S.length := by rw [hS.1]; exact hc
  have mS : m < (S.getD curr []).length := by rw [hS.2 curr hc]; omega
  unfold fillColumns_for1_if3
  simp only [Rs.add_ok hm, ok_bind, pure_eq_ok, bind_pure_comp]
  by_cases h : iEnd < m + 1
  · simp only [h, decide_true, if_true, idx_getD S curr [] cS, ok_bind, Rs.setIdx_ok mS, Rs.setIdx_ok cS, Functor.map, Res.bind]
    exact ⟨_, rfl⟩
  · simp only [h, decide_false, Bool.false_eq_true, if_false]
    exact ⟨T, rfl⟩

/-- **row 0 of a column** (`if i_start == 0 { … }`): `I[curr][0] = MIN_SCORE`; `D[curr][0]` = the deletion run `go + ge` (column 1) resp.
the better of `go + ge·j` and `yclip_prefix + go + ge`; `S[curr][0]` = the better of that and `yclip_prefix`; the y-suffix tracker
`Sn[0]` = the better of itself and `S[curr][0] + yclip_suffix`.  Nothing happens when row 0 is outside the band. -/
theorem row0_eq (S I D : List (List Int)) (Lx Ly : List Nat) (Sn : List Int) (T : Tbm) (go ge : Int) (msc : Option (Int × Int))
    (xp xs yp ys : Int) (bd : BandT) (k w : Nat) (m n j curr iStart : Nat) (hS : Arr S m) (hI : Arr I m) (hD : Arr D m)
    (hc : curr < 2) (hsn : Sn.length = m + 1) (hly : Ly.length = m + 1) (hjn : j ≤ n) (hj31 : j < 2 ^ 31)
    (o1 : Rs.InS 32 (go + ge)) (o2 : Rs.InS 32 (ge * (j : Int))) (o3 : Rs.InS 32 (go + ge * (j : Int))) (o4 : Rs.InS 32 (yp + go))
    (o5 : Rs.InS 32 (yp + go + ge))
    (o6 : Rs.InS 32 (go + ge + ys)) (o7 : Rs.InS 32 (go + ge * (j : Int) + ys)) (o8 : Rs.InS 32 (yp + go + ge + ys))
    (o9 : Rs.InS 32 (yp + ys)) :
    (iStart ≠ 0 → fillColumns_for1_if1 matchFn tbGet tbSet n j curr iStart (S, I, D, Lx, Ly, Sn, T, (go, ge, msc, xp, xs, yp, ys), bd, k, w) =
      ok (S, I, D, Lx, Ly, Sn, T, (go, ge, msc, xp, xs, yp, ys), bd, k, w)) ∧
    (iStart = 0 → ∃ d0 s0 Sn' Ly' T',
      fillColumns_for1_if1 matchFn tbGet tbSet n j curr iStart (S, I, D, Lx, Ly, Sn, T, (go, ge, msc, xp, xs, yp, ys), bd, k, w) =
        ok (wr S curr 0 s0, wr I curr 0 MIN, wr D curr 0 d0, Lx, Ly', Sn', T', (go, ge, msc, xp, xs, yp, ys), bd, k, w) ∧
      d0 = (if j = 1 then go + ge else max (go + ge * (j : Int)) (yp + go + ge)) ∧ s0 = max d0 yp ∧
      Sn'.length = Sn.length ∧ Sn'.getD 0 0 = max (Sn.getD 0 0) (s0 + ys) ∧ (∀ i, i ≠ 0 → Sn'.getD i 0 = Sn.getD i 0) ∧
      Ly'.length = Ly.length) := by
  have cS : curr < S.length := by rw [hS.1]; exact hc
  have cI : curr < I.length := by rw [hI.1]; exact hc
  have cD : curr < D.length := by rw [hD.1]; exact hc
  have zS : 0 < (S.getD curr []).length := by rw [hS.2 curr hc]; omega
  have zI : 0 < (I.getD curr []).length := by rw [hI.2 curr hc]; omega
  have zD : 0 < (D.getD curr []).length := by rw [hD.2 curr hc]; omega
  have zSn : 0 < Sn.length := by omega
  have zLy : 0 < Ly.length := by omega
  have cs31 : Rs.castSigned 32 j = (j : Int) := Rs.castSigned_of_lt (by simpa using hj31)
  constructor
  · intro h
    unfold fillColumns_for1_if1
    simp [h]
  · intro h
    subst h
    -- after a write of `v` to `D[curr][0]` / `S[curr][0]` the code reads it back
    have rbD : ∀ v, Rs.idx (D.set curr ((D.getD curr []).set 0 v)) curr = ok ((D.getD curr []).set 0 v) := fun v => by
      rw [idx_getD _ curr [] (by rw [List.length_set]; exact cD), getD_set_self _ _ _ _ cD]
    have rbD0 : ∀ v, Rs.idx ((D.getD curr []).set 0 v) 0 = ok v := fun v => by
      rw [idx_getD _ 0 0 (by rw [List.length_set]; exact zD), getD_set_self _ _ _ _ zD]
    have rbS : ∀ v, Rs.idx (S.set curr ((S.getD curr []).set 0 v)) curr = ok ((S.getD curr []).set 0 v) := fun v => by
      rw [idx_getD _ curr [] (by rw [List.length_set]; exact cS), getD_set_self _ _ _ _ cS]
    have rbS0 : ∀ v, Rs.idx ((S.getD curr []).set 0 v) 0 = ok v := fun v => by
      rw [idx_getD _ 0 0 (by rw [List.length_set]; exact zS), getD_set_self _ _ _ _ zS]
    have fin : ∀ (F : Int) (d0 s0 : Int) (Sn' : List Int) (Ly' : List Nat) (T' : Tbm), s0 = max d0 yp →
        d0 = F →
        Sn'.length = Sn.length → Sn'.getD 0 0 = max (Sn.getD 0 0) (s0 + ys) → (∀ i, i ≠ 0 → Sn'.getD i 0 = Sn.getD i 0) →
        Ly'.length = Ly.length →
        ∃ d0' s0' Sn'' Ly'' T'',
          (ok (S.set curr ((S.getD curr []).set 0 s0), I.set curr ((I.getD curr []).set 0 MIN), D.set curr ((D.getD curr []).set 0 d0),
            Lx, Ly', Sn', T', (go, ge, msc, xp, xs, yp, ys), bd, k, w) : Res (St Tbm)) =
          ok (wr S curr 0 s0', wr I curr 0 MIN, wr D curr 0 d0', Lx, Ly'', Sn'', T'', (go, ge, msc, xp, xs, yp, ys), bd, k, w) ∧
          d0' = F ∧ s0' = max d0' yp ∧
          Sn''.length = Sn.length ∧ Sn''.getD 0 0 = max (Sn.getD 0 0) (s0' + ys) ∧ (∀ i, i ≠ 0 → Sn''.getD i 0 = Sn.getD i 0) ∧
          Ly''.length = Ly.length :=
      fun F d0 s0 Sn' Ly' T' a b c d e f => ⟨d0, s0, Sn', Ly', T', rfl, b, a, c, d, e, f⟩
    unfold fillColumns_for1_if1
    simp only [beq_self_eq_true, if_true, idx_getD I curr [] cI, ok_bind, Rs.setIdx_ok zI, Rs.setIdx_ok cI, pure_eq_ok,
      bind_pure_comp, Rs.iadd_ok o1, cs31, Rs.imul_ok o2, Rs.iadd_ok o3, Rs.iadd_ok o4, Rs.iadd_ok o5,
      idx_getD D curr [] cD, Rs.setIdx_ok zD, Rs.setIdx_ok cD, idx_getD S curr [] cS, Rs.setIdx_ok zS, Rs.setIdx_ok cS,
      idx_getD Sn 0 0 zSn, Rs.setIdx_ok zSn, Rs.setIdx_ok zLy, Rs.sub_ok hjn, Functor.map, Res.bind]
    have side : ∀ (v : Int), (Sn.set 0 v).length = Sn.length ∧ (Sn.set 0 v).getD 0 0 = v ∧
        ∀ i, i ≠ 0 → (Sn.set 0 v).getD i 0 = Sn.getD i 0 :=
      fun v => ⟨List.length_set, getD_set_self _ _ _ _ zSn, fun i hi => getD_set_ne _ _ _ _ _ (fun e => hi e.symm)⟩
    by_cases hj1 : j = 1
    · simp only [hj1, beq_self_eq_true, if_true, ok_bind, rbD, rbD0]
      split <;> rename_i hS1 <;>
        simp only [decide_eq_true_eq, gt_iff_lt, ge_iff_le] at hS1 <;>
        simp only [ok_bind, rbD, rbD0, idx_getD S curr [] cS, Rs.setIdx_ok zS, Rs.setIdx_ok cS, rbS, rbS0, Rs.iadd_ok o6,
          Rs.iadd_ok o9, idx_getD Sn 0 0 zSn] <;>
        split <;> rename_i hT <;>
        simp only [decide_eq_true_eq, gt_iff_lt, ge_iff_le] at hT <;>
        simp only [ok_bind, rbS, rbS0, Rs.iadd_ok o6, Rs.iadd_ok o9, Rs.setIdx_ok zSn, Rs.sub_ok hjn, Rs.setIdx_ok zLy]
      all_goals (refine fin _ _ _ _ _ _ ?_ ?_ ?_ ?_ ?_ ?_)
      all_goals first
        | omega
        | rfl
        | exact List.length_set
        | exact (side _).1
        | exact (side _).2.2
        | (rw [(side _).2.1]; omega)
        | (intro _ _; rfl)
        | (simp [hj1]; done)
        | (simp [hj1]; omega)
    · have hj1' : (j == 1) = false := by simpa using hj1
      simp only [hj1', Bool.false_eq_true, if_false]
      split <;> rename_i hD1 <;>
        simp only [decide_eq_true_eq, gt_iff_lt, ge_iff_le] at hD1 <;>
        simp only [ok_bind, rbD, rbD0] <;>
        split <;> rename_i hS1 <;>
        simp only [decide_eq_true_eq, gt_iff_lt, ge_iff_le] at hS1 <;>
        simp only [ok_bind, rbD, rbD0, idx_getD S curr [] cS, Rs.setIdx_ok zS, Rs.setIdx_ok cS, rbS, rbS0, Rs.iadd_ok o7,
          Rs.iadd_ok o8, Rs.iadd_ok o9, idx_getD Sn 0 0 zSn] <;>
        split <;> rename_i hT <;>
        simp only [decide_eq_true_eq, gt_iff_lt, ge_iff_le] at hT <;>
        simp only [ok_bind, rbS, rbS0, Rs.iadd_ok o7, Rs.iadd_ok o8, Rs.iadd_ok o9, Rs.setIdx_ok zSn, Rs.sub_ok hjn, Rs.setIdx_ok zLy]
      all_goals (refine fin _ _ _ _ _ _ ?_ ?_ ?_ ?_ ?_ ?_)
      all_goals first
        | omega
        | rfl
        | exact List.length_set
        | exact (side _).1
        | exact (side _).2.2
        | (rw [(side _).2.1]; omega)
        | (intro _ _; rfl)
        | (simp [hj1]; done)
        | (simp [hj1]; omega)

end
end RbV.Thm.GenSrcBandedCols
