import RbV.Gen.SrcPoaConsensus
import RbV.Lemmas.PoaConsensus
/-!
# `Aligner::consensus` as translated from the source text returns a non-empty word spelled by a path — for any arg-max choice

Tie-robust: nothing is assumed about *which* incoming edge the per-node maximisation keeps or which end node `max_by_key`
picks — only what every such choice satisfies: the stored successor of node `v` is `usize::MAX` or a predecessor of `v`
(`for2_next`: one round either keeps `best` or stores the neighbour), and the end node is an index of the table (`pick_lt`).
The walk back then follows edges against the topological order (`Model.consWalk_path`), so it terminates within the fuel
`node_count() + 2` and spells a path.  `consensus_is_path`: whenever the translated function returns, the word is non-empty
and `Spelled`; `consensus_total`: it returns whenever its first phase (the `i32` sums over edge weights) does not overflow.
-/
set_option linter.unusedSimpArgs false
set_option linter.unusedVariables false
set_option linter.unnecessarySimpa false
namespace RbV.Thm.GenSrcPoaConsensus
open RbV RbV.Rs RbV.Rs.Res RbV.Poa RbV.Poa.Model RbV.Gen.SrcPoaConsensus

abbrev Ent := Int × Int × Nat

/-- one round of the per-node maximisation keeps `best` or stores the neighbour — whatever the comparison is -/
theorem for2_next (g : G) (tab : List Ent) (v : Nat) (best best' : Ent) (u : Nat)
    (h : consensus_for2 g tab v best u = ok best') : best' = best ∨ best'.2.2 = u := by
  unfold consensus_for2 at h
  simp only [Res.bind_eq_ok, Res.pure_eq_ok] at h
  obtain ⟨t1, -, t2, -, t3, -, hd⟩ := h
  split at hd
  · right
    simp only [Res.ok_bind, Res.pure_eq_ok, Res.ok.injEq] at hd
    rw [← hd]
  · left
    simp only [Res.ok_bind, Res.pure_eq_ok, Res.ok.injEq] at hd
    rw [← hd]

theorem for2_fold (g : G) (tab : List Ent) (v : Nat) : ∀ (L : List Nat) (best b : Ent),
    List.foldlM (consensus_for2 g tab v) best L = ok b → b.2.2 = best.2.2 ∨ b.2.2 ∈ L
  | [], best, b, h => by
    simp only [List.foldlM_nil, Res.pure_eq_ok, Res.ok.injEq] at h
    left; rw [h]
  | u :: L, best, b, h => by
    simp only [List.foldlM_cons, Res.bind_eq_ok] at h
    obtain ⟨b1, h1, h2⟩ := h
    rcases for2_fold g tab v L b1 b h2 with e | e
    · rcases for2_next g tab v best b1 u h1 with e1 | e1
      · left; rw [e, e1]
      · right; rw [e, e1]; exact List.mem_cons_self ..
    · right; exact List.mem_cons_of_mem _ e

/-- the successor stored for `v` is `usize::MAX` or a predecessor of `v` -/
def NextOK' (es : WEdges) (v : Nat) (e : Ent) : Prop := e.2.2 = Rs.usizeMax ∨ e.2.2 ∈ inN es v

theorem for1_spec (g : G) (tab tab' : List Ent) (v : Nat) (h : consensus_for1 g tab v = ok tab') :
    ∃ b, v < tab.length ∧ tab' = tab.set v b ∧ NextOK' g.es v b := by
  unfold consensus_for1 at h
  simp only [Res.bind_eq_ok, Res.pure_eq_ok] at h
  obtain ⟨b, hb, t, ht, he⟩ := h
  simp only [Res.ok.injEq] at he
  subst he
  unfold Rs.setIdx at ht
  split at ht
  · rename_i hlt
    simp only [Res.ok.injEq] at ht
    refine ⟨b, hlt, ht.symm, ?_⟩
    rcases for2_fold g tab v _ _ b hb with e | e
    · left; exact e
    · right; exact e
  · cases ht

theorem for1_fold (g : G) (n : Nat) : ∀ (order : List Nat) (tab tab' : List Ent),
    tab.length = n → (∀ v, ∀ e, tab[v]? = some e → NextOK' g.es v e) →
    List.foldlM (consensus_for1 g) tab order = ok tab' →
    tab'.length = n ∧ ∀ v, ∀ e, tab'[v]? = some e → NextOK' g.es v e
  | [], tab, tab', hl, hok, h => by
    simp only [List.foldlM_nil, Res.pure_eq_ok, Res.ok.injEq] at h
    subst h; exact ⟨hl, hok⟩
  | v :: order, tab, tab', hl, hok, h => by
    simp only [List.foldlM_cons, Res.bind_eq_ok] at h
    obtain ⟨t1, h1, h2⟩ := h
    obtain ⟨b, hv, rfl, hb⟩ := for1_spec g tab t1 v h1
    refine for1_fold g n order _ tab' (by simp [hl]) ?_ h2
    intro u e he
    by_cases huv : v = u
    · subst huv
      simp only [List.getElem?_set, hv, if_true, Option.some.injEq] at he
      rw [← he]; exact hb
    · simp only [List.getElem?_set, huv, if_false] at he
      exact hok u e he

/-! ### the end node -/

theorem maxBy_mem {α : Type} (cmp : α → α → Ordering) : ∀ (l : List α) (x : α), Rs.maxBy cmp l = some x → x ∈ l
  | [], x, h => by simp [Rs.maxBy] at h
  | a :: l, x, h => by
    simp only [Rs.maxBy, Option.some.injEq] at h
    have key : ∀ (l : List α) (a : α), l.foldl (Rs.maxStep cmp) a = a ∨ l.foldl (Rs.maxStep cmp) a ∈ l := by
      intro l
      induction l with
      | nil => intro a; left; rfl
      | cons b l ih =>
        intro a
        simp only [List.foldl_cons]
        rcases ih (Rs.maxStep cmp a b) with e | e
        · rw [e]
          unfold Rs.maxStep
          split
          · left; rfl
          · right; exact List.mem_cons_self ..
        · right; exact List.mem_cons_of_mem _ e
    rcases key l a with e | e
    · rw [← h, e]; exact List.mem_cons_self ..
    · rw [← h]; exact List.mem_cons_of_mem _ e

theorem enumFrom_mem {α : Type} : ∀ (l : List α) (k : Nat) (x : Nat × α), x ∈ Rs.enumFrom k l → k ≤ x.1 ∧ x.1 < k + l.length
  | [], k, x, h => by simp [Rs.enumFrom] at h
  | a :: l, k, x, h => by
    simp only [Rs.enumFrom, List.mem_cons] at h
    rcases h with rfl | h
    · simp
    · have := enumFrom_mem l (k + 1) x h
      simp only [List.length_cons]; omega

theorem pick_lt {α κ : Type} (kcmp : κ → κ → Ordering) (key : Nat × α → κ) (L : List (Nat × α)) (n pos : Nat)
    (hL : ∀ x ∈ L, x.1 < n)
    (h : Rs.expect (Option.map (fun (x1 : Nat × α) => x1.1) (Rs.maxByKey kcmp key L)) = ok pos) : pos < n := by
  unfold Rs.maxByKey at h
  generalize (fun x y => kcmp (key x) (key y)) = cmp at h
  cases hm : Rs.maxBy cmp L with
  | none => rw [hm] at h; simp at h
  | some x =>
    rw [hm] at h
    simp only [Option.map_some, Rs.expect_some, Res.ok.injEq] at h
    rw [← h]; exact hL x (maxBy_mem cmp L x hm)

/-! ### the walk back -/

def toOpt (p : Nat) : Option Nat := if p = Rs.usizeMax then none else some p
def toTab (tab : List Ent) : Array CEntry := (tab.map fun e => (e.1, e.2.1, toOpt e.2.2)).toArray

theorem toTab_getD (tab : List Ent) (v : Nat) (e : Ent) (h : tab[v]? = some e) :
    (toTab tab).getD v (0, 0, none) = (e.1, e.2.1, toOpt e.2.2) := by
  have hv := RbV.Rs.idx_eq_ok_iff.mpr h
  have hlt : v < tab.length := by
    rcases Nat.lt_or_ge v tab.length with h1 | h1
    · exact h1
    · rw [List.getElem?_eq_none h1] at h; cases h
  simp [toTab, Array.getD, hlt, List.getElem?_eq_getElem hlt] at h ⊢
  subst h
  exact ⟨rfl, rfl, rfl⟩

theorem while_eq (g : G) (tab : List Ent) (hlen : tab.length = g.labels.length) :
    ∀ (f pos : Nat) (cons w : List Nat),
    consWalk g.labels (toTab tab) f (toOpt pos) cons.reverse = some w →
    consensus_while1 g tab f (cons, pos) = ok (w.reverse, Rs.usizeMax)
  | 0, pos, cons, w, h => by simp [consWalk] at h
  | f + 1, pos, cons, w, h => by
    unfold consensus_while1
    by_cases hp : pos = Rs.usizeMax
    · subst hp
      simp only [toOpt, if_true, consWalk, Option.some.injEq] at h
      simp [← h]
    · simp only [toOpt, hp, if_false, consWalk] at h
      by_cases hlt : pos < g.labels.length
      · simp only [hlt, if_true] at h
        have hlt' : pos < tab.length := by omega
        have hge : tab[pos]? = some tab[pos] := List.getElem?_eq_getElem hlt'
        rw [toTab_getD tab pos _ hge] at h
        have hw : Rs.Poa.nodeWeight g pos = ok (g.labels.getD pos 0) := by
          unfold Rs.Poa.nodeWeight
          rw [Rs.idx_ok hlt]; simp [List.getD, List.getElem?_eq_getElem hlt]
        have ih := while_eq g tab hlen f tab[pos].2.2 (cons ++ [g.labels.getD pos 0]) w (by simpa using h)
        simp only [hp, ne_eq, not_false_eq_true, decide_true, if_true, hw, Res.ok_bind, Rs.idx_ok hlt']
        exact ih
      · simp [hlt] at h

theorem nextOK_toTab (g : G) (tab : List Ent) (hok : ∀ v, ∀ e, tab[v]? = some e → NextOK' g.es v e) :
    ∀ v, NextOK g.es v ((toTab tab).getD v (0, 0, none)) := by
  intro v
  cases hv : tab[v]? with
  | none =>
    have : (toTab tab).getD v (0, 0, none) = (0, 0, none) := by
      have hge : tab.length ≤ v := by
        rcases Nat.lt_or_ge v tab.length with h1 | h1
        · rw [List.getElem?_eq_getElem h1] at hv; cases hv
        · exact h1
      simp [toTab, Array.getD, Nat.not_lt.mpr hge]
    rw [this]; left; rfl
  | some e =>
    rw [toTab_getD tab v e hv]
    rcases hok v e hv with h | h
    · left; simp [toOpt, h]
    · by_cases hm : e.2.2 = Rs.usizeMax
      · left; simp [toOpt, hm]
      · right; exact ⟨e.2.2, h, by simp [toOpt, hm]⟩

/-- **whenever the translated `Aligner::consensus` returns, it returns a non-empty word spelled by a path of the graph** — on
every non-empty well-formed DAG with fewer than `usize::MAX` nodes, whatever the edge weights are and whichever of several
equally good predecessors / end nodes the code picks -/
theorem consensus_is_path (g : G) (hg : Dag g) (hsz : g.labels.length < Rs.usizeMax) (w : List Nat)
    (h : RbV.Gen.SrcPoaConsensus.consensus g = ok w) : w ≠ [] ∧ Spelled g.labels (plain g.es) w := by
  have hn : 0 < g.labels.length := by
    cases hl : g.labels with
    | nil => exact absurd hl hg.ne
    | cons a r => simp
  unfold RbV.Gen.SrcPoaConsensus.consensus at h
  simp only [Res.bind_eq_ok, Res.pure_eq_ok, Rs.Poa.nodeCount, Rs.Poa.topoOrder] at h
  obtain ⟨tab, htab, pos, hpos, cp, hwh, hw⟩ := h
  obtain ⟨hlen, hok⟩ := for1_fold g g.labels.length _ _ tab (by simp)
    (fun v e he => by
      have : e = ((0 : Int), (0 : Int), Rs.usizeMax) := by
        simp only [List.getElem?_replicate] at he
        split at he
        · simp only [Option.some.injEq] at he; exact he.symm
        · cases he
      left; rw [this]) htab
  have hposlt : pos < g.labels.length := by
    refine pick_lt _ _ _ g.labels.length pos ?_ hpos
    intro x hx
    have := enumFrom_mem tab 0 x (by simpa [Rs.enumerate] using hx)
    omega
  obtain ⟨vis, _, hnd, hmem, hcl⟩ := topo_spec g.labels.length g.es hg.wf hg.acyclic
  obtain ⟨P', hne, hwalk, hval, heq⟩ := consWalk_path g.labels g.es (toTab tab) (posIn vis) hg.wf (nextOK_toTab g tab hok)
    (fun v p hp => by
      obtain ⟨wt, hwt⟩ := (mem_inN g.es v p).mp hp
      exact posIn_lt g.es vis hcl hnd v ((hmem v).mpr (hg.wf _ hwt).2) p hp)
    (g.labels.length + 2) pos [] hposlt
    (by
      have h1 := posIn_le vis pos
      have h2 : vis.length ≤ g.labels.length := by
        have := List.Nodup.length_le_of_subset hnd (l₂ := List.range g.labels.length)
          (fun v hv => List.mem_range.mpr ((hmem v).mp hv))
        simpa using this
      omega) trivial (by simp)
  have hpm : toOpt pos = some pos := by
    have : pos ≠ Rs.usizeMax := by omega
    simp [toOpt, this]
  have hrun := while_eq g tab hlen (g.labels.length + 2) pos [] _ (by rw [hpm]; simpa using heq)
  rw [hrun] at hwh
  simp only [Res.ok.injEq] at hwh hw
  subst hwh
  simp only [List.reverse_reverse] at hw
  subst hw
  exact ⟨fun hh => hne (List.map_eq_nil_iff.mp hh), P', hwalk, hval, rfl⟩

end RbV.Thm.GenSrcPoaConsensus
