import RbV.Spec.Align
import RbV.Ref.Gotoh
import RbV.Ref.Banded
/-!
# C02 — banded alignment is sound, and exact whenever the band covers the matrix

Property theorems only.  Termination and absence of panics are runtime facts of the Rust code: they are
observed by the watchdog / `catch_unwind` of the correspondence run and are not provable from a hand-written
model (labelled so in the evidence).
-/
namespace RbV.Thm.C02
open RbV.Align

/-- **Soundness.** Whatever the band was, a result accepted by the driver is either the documented sentinel
(and then the matrix really exceeds the cell budget), or a real alignment of the reported sub-ranges whose
recomputed score equals the reported score — and that score never exceeds the unbanded optimum.  The last
clause is a corollary of validity (`best_upper`): it holds for every accepted output without evaluating the
optimum, for all sequences, scoring functions, gap and clip penalties. -/
theorem C02_sound (sc : Sc) (cl : Clip) (filtered : Bool) (x y : List Nat) (full exact : Bool) (o : Out)
    (h : acceptBanded sc cl filtered x y full exact o = true) :
    (isSentinel o = true ∧ overBudget x y = true) ∨
    (isSentinel o = false ∧ ¬ (full = true ∧ overBudget x y = true) ∧
      IsAln x y o.toAln ∧ ClipRule filtered x y o ∧ AlnScore sc cl x y o.toAln o.score ∧
      ∀ s, Optimal sc cl x y s → o.score ≤ s) :=
  acceptBanded_sound sc cl filtered x y full exact o h

/-- **Exactness when the band is the whole matrix** (`exact` demanded): acceptance is equivalent to the full
C01 statement — real alignment, recomputed score = reported score, reported score optimal among all
alignments of all sub-range pairs — or to the sentinel when (and only when) the matrix exceeds the budget;
with `full`, a matrix over budget admits the sentinel only. -/
theorem C02_exact_fullband (sc : Sc) (cl : Clip) (filtered : Bool) (x y : List Nat) (full : Bool) (o : Out) :
    acceptBanded sc cl filtered x y full true o = true ↔
      ((isSentinel o = true ∧ overBudget x y = true) ∨
       (isSentinel o = false ∧ ¬ (full = true ∧ overBudget x y = true) ∧
        IsAln x y o.toAln ∧ ClipRule filtered x y o ∧ AlnScore sc cl x y o.toAln o.score ∧
        Optimal sc cl x y o.score)) :=
  acceptBanded_exact_iff sc cl filtered x y full o

/-- any valid alignment scores at most the reference optimum (the soundness clause in its bare form) -/
theorem valid_alignment_le_opt (sc : Sc) (cl : Clip) (x y : List Nat) (a : Aln) (v : Int)
    (ha : IsAln x y a) (hs : AlnScore sc cl x y a v) : v ≤ opt sc cl x y :=
  valid_le_opt sc cl x y a v ha hs

/-- the sentinel is never mistaken for a real alignment inside the budget: it is refused whenever
`(m+1)(n+1) ≤ MAX_CELLS` -/
theorem sentinel_refused_within_budget (sc : Sc) (cl : Clip) (f : Bool) (x y : List Nat) (full exact : Bool) (o : Out)
    (hs : isSentinel o = true) (hb : overBudget x y = false) :
    acceptBanded sc cl f x y full exact o = false := by
  simp [acceptBanded, hs, hb]

/-! ### Non-vacuity (unit scores: match 1, mismatch −1, go −5, ge −1) -/

def scU : Sc := ⟨fun a b => if a = b then 1 else -1, -5, -1⟩
def clLocal : Clip := ⟨0, 0, 0, 0⟩

-- a banded result below the optimum is accepted by the soundness check (exact not demanded) …
example : acceptBanded scU clLocal true [0, 0] [0, 0] false false ⟨1, 0, 1, 0, 1, 2, 2, [.core .mat]⟩ = true := by
  decide +kernel
-- … and refused when the band is the whole matrix
example : acceptBanded scU clLocal true [0, 0] [0, 0] true true ⟨1, 0, 1, 0, 1, 2, 2, [.core .mat]⟩ = false := by
  decide +kernel
example : acceptBanded scU clLocal true [0, 0] [0, 0] true true ⟨2, 0, 2, 0, 2, 2, 2, [.core .mat, .core .mat]⟩ = true := by
  decide +kernel
-- a path whose recomputed score differs from the reported one is refused (I I is one gap: −5−2 = −7, not −12)
example : acceptBanded scU ⟨minScore, minScore, minScore, minScore⟩ false [0, 0] [] false false
    ⟨-12, 0, 2, 0, 0, 2, 0, [.core .ins, .core .ins]⟩ = false := by decide +kernel
example : acceptBanded scU ⟨minScore, minScore, minScore, minScore⟩ false [0, 0] [] false false
    ⟨-7, 0, 2, 0, 0, 2, 0, [.core .ins, .core .ins]⟩ = true := by decide +kernel
-- the sentinel inside the budget is refused
example : acceptBanded scU clLocal true [0] [0] false false ⟨minScore, 0, 0, 0, 0, 0, 0, []⟩ = false := by
  decide +kernel
example : kmerMatchCount 2 [0, 1, 0, 1] [1, 0, 1] = 3 := by decide +kernel

end RbV.Thm.C02
