import RbV.Gen.SrcBndmNext
import RbV.Model.Bndm
import RbV.Thm.GenSrcShiftAndMasks
/-!
# The translated text of `BNDM::new`, `BNDM::find_all`, `bndm::Matches::next` equals the mirror model `Bndm.findAll`

`RbV/Gen/SrcBndmNext.lean` is regenerated from `src/pattern_matching/bndm.rs` on every `./check C08`.  The mirror model
`Bndm.inner` / `Bndm.outer` already has the panics of the code explicit (`none`); the translated loops are shown to
follow it step by step (`while2_eq`), so the model's "never `none`" theorem (`Bndm.outer_spec`) carries over as "never
panics, fuel suffices".  `G window` is the model's list from a window position (fuel-independent by `outer_spec`).
-/
set_option linter.unusedSimpArgs false

namespace RbV.Thm.GenSrcBndmNext
open RbV RbV.Rs RbV.Gen.SrcBndmNext RbV.Thm.GenSrc
open RbV.ShiftAnd (MState masksLoop W)

/-- the translated inner `while active != 0` loop follows the model's `inner` (one more unit of fuel for the last test) -/
theorem while2_eq (ms : MState) (m : Nat) (t : List Nat) (window : Nat) (hb : ∀ c ∈ t, c < 256)
    (hw : window + 1 < 2 ^ 64) :
    ∀ (fuel j active ls : Nat) (occ0 : Option Nat) (b : Bool) (ls' : Nat),
      Bndm.inner ms m t window fuel j active ls = some (b, ls') →
      ∃ a' j', next_while2 (tab 256 ms.masks) t window ms.accept m (fuel + 1) (active, occ0, ls, j)
        = Res.ok (a', (if b then some (window - m) else occ0), ls', j') := by
  intro fuel
  induction fuel with
  | zero =>
    intro j active ls occ0 b ls' h
    by_cases ha : active = 0
    · simp [Bndm.inner, ha] at h
      obtain ⟨rfl, rfl⟩ := h
      exact ⟨active, j, by simp [next_while2, ha]⟩
    · simp [Bndm.inner, ha] at h
  | succ fuel ih =>
    intro j active ls occ0 b ls' h
    by_cases ha : active = 0
    · simp [Bndm.inner, ha] at h
      obtain ⟨rfl, rfl⟩ := h
      exact ⟨active, j, by rw [next_while2]; simp [ha]⟩
    · by_cases hj : window < j
      · simp [Bndm.inner, ha, hj] at h
      · cases hc : t[window - j]? with
        | none => simp [Bndm.inner, ha, hj, hc] at h
        | some c =>
          have hlt : window - j < t.length := (List.getElem?_eq_some_iff.mp hc).1
          have hc256 : c < 256 := hb c (List.mem_of_getElem? hc)
          have e1 : Rs.sub window j = Res.ok (window - j) := Rs.sub_ok (by omega)
          have e2 : Rs.idx t (window - j) = Res.ok c := Rs.idx_of_getElem? hc
          have e3 : Rs.idx (tab 256 ms.masks) c = Res.ok (ms.masks c) := idx_tab 256 _ c hc256
          have e4 : Rs.add 64 j 1 = Res.ok (j + 1) := Rs.add_ok (by omega)
          have e4' : Rs.add 64 1 j = Res.ok (j + 1) := by rw [Nat.add_comm]; exact Rs.add_ok (by omega)
          have e5 : Rs.shl 64 (active &&& ms.masks c) 1 = Res.ok (((active &&& ms.masks c) <<< 1) % 2 ^ 64) :=
            Rs.shl_ok (by omega)
          by_cases hacc : (active &&& ms.masks c) &&& ms.accept = 0
          · have hacc' : ms.accept &&& (active &&& ms.masks c) = 0 := by rw [Nat.and_comm]; exact hacc
            simp [Bndm.inner, ha, hj, hc, hacc] at h
            obtain ⟨a', j', hr⟩ := ih (j + 1) _ ls occ0 b ls' h
            refine ⟨a', j', ?_⟩
            rw [next_while2]
            simp [ha, e1, e2, e3, e4, e4', e5, hacc, hacc', W] at hr ⊢
            exact hr
          · have hacc' : ¬ ms.accept &&& (active &&& ms.masks c) = 0 := by rw [Nat.and_comm]; exact hacc
            by_cases hjm : j = m
            · subst hjm
              simp [Bndm.inner, ha, hj, hc, hacc] at h
              obtain ⟨hb1, hb2⟩ := h
              subst hb1; subst hb2
              refine ⟨active &&& ms.masks c, j, ?_⟩
              rw [next_while2]
              simp [ha, e1, e2, e3, hacc, hacc']
            · simp [Bndm.inner, ha, hj, hc, hacc, hjm] at h
              obtain ⟨a', j', hr⟩ := ih (j + 1) _ j occ0 b ls' h
              refine ⟨a', j', ?_⟩
              rw [next_while2]
              simp [ha, e1, e2, e3, e4, e4', e5, hacc, hacc', hjm, W] at hr ⊢
              exact hr

/-- the inner loop of the model succeeds from the initial state of a window (as in `Bndm.outer_spec`) -/
theorem inner_ok (p t : List Nat) (hp : 0 < p.length) (hm : p.length ≤ 64) (window : Nat) (hw : p.length ≤ window)
    (hn : window ≤ t.length) :
    ∃ occ ls, Bndm.inner (masksLoop p.reverse) p.length t window (p.length + 1) 1 (Bndm.initActive p.length) 0
      = some (occ, ls) ∧ ls < p.length := by
  have inv0 : Bndm.IInv p t window 1 (Bndm.initActive p.length) 0 := by
    refine ⟨Nat.le_refl _, by omega, ?_, fun _ => by omega, ⟨hp, by omega⟩, fun l h1 h2 => by omega⟩
    intro i hi
    rw [Bndm.initActive_testBit p.length i hm]
    simp only [hi, decide_true, Nat.sub_self, true_iff]
    intro k hk; omega
  obtain ⟨occ, ls, hin, _, hls, _⟩ :=
    Bndm.inner_spec p t window hp hm hw hn (p.length + 1) 1 (Bndm.initActive p.length) 0 (by omega) inv0
  exact ⟨occ, ls, hin, hls⟩

/-- the model's `outer` does not depend on its fuel once it is sufficient -/
theorem outer_irrel (p t : List Nat) (hp : 0 < p.length) (hm : p.length ≤ 64) (f1 f2 window : Nat)
    (hw : p.length ≤ window) (h1 : t.length + 1 ≤ window + f1) (h2 : t.length + 1 ≤ window + f2) :
    Bndm.outer (masksLoop p.reverse) p.length t f1 window = Bndm.outer (masksLoop p.reverse) p.length t f2 window := by
  obtain ⟨L1, hL1, hm1, hs1⟩ := Bndm.outer_spec p t hp hm f1 window hw h1
  obtain ⟨L2, hL2, hm2, hs2⟩ := Bndm.outer_spec p t hp hm f2 window hw h2
  rw [hL1, hL2]
  congr 1
  exact sorted_eq_of_mem_iff _ _ hs1 hs2 (fun s => by rw [hm1, hm2])

/-- the model's list from window position `window` -/
def G (p t : List Nat) (window : Nat) : List Nat :=
  (Bndm.outer (masksLoop p.reverse) p.length t (t.length + 1) window).getD []

theorem G_end (p t : List Nat) (window : Nat) (h : t.length < window) : G p t window = [] := by
  have : ¬ window ≤ t.length := by omega
  simp [G, Bndm.outer, this]

theorem G_step (p t : List Nat) (hp : 0 < p.length) (hm : p.length ≤ 64) (window : Nat) (hw : p.length ≤ window)
    (hn : window ≤ t.length) (occ : Bool) (ls : Nat)
    (hin : Bndm.inner (masksLoop p.reverse) p.length t window (p.length + 1) 1 (Bndm.initActive p.length) 0
      = some (occ, ls)) :
    G p t window = if occ then (window - p.length) :: G p t (window + (p.length - ls))
      else G p t (window + (p.length - ls)) := by
  obtain ⟨L, hL, _, _⟩ := Bndm.outer_spec p t hp hm t.length (window + (p.length - ls)) (by omega) (by omega)
  have hL' := outer_irrel p t hp hm (t.length + 1) t.length (window + (p.length - ls)) (by omega) (by omega) (by omega)
  unfold G
  rw [hL', hL]
  simp only [Bndm.outer, hn, if_true, hin, hL]
  cases occ <;> simp

/-- the start value of `active`: `if m >= 64 { u64::MAX } else { (1 << m) - 1 }` -/
theorem initActive_lt (m : Nat) (hm : m < 64) : (1 <<< m) % 2 ^ 64 = 1 <<< m := by
  rw [Nat.shiftLeft_eq, Nat.one_mul]
  exact Nat.mod_eq_of_lt (Nat.pow_lt_pow_right (by omega) hm)

/-- … and the equivalent `u64::MAX >> (64 - m)` for `1 ≤ m ≤ 64` -/
theorem initActive_shr (m : Nat) (h1 : 1 ≤ m) (hm : m ≤ 64) :
    (18446744073709551615 : Nat) >>> (64 - m) = Bndm.initActive m := by
  apply Nat.eq_of_testBit_eq
  intro i
  rw [Bndm.initActive_testBit m i hm, Nat.testBit_shiftRight]
  have : (18446744073709551615 : Nat) = 2 ^ 64 - 1 := by decide
  rw [this, Nat.testBit_two_pow_sub_one]
  by_cases h : i < m
  · simp [h]; omega
  · simp [h]; omega

/-- the translated outer `while self.window <= self.text.len()` loop: `None` with the model's list empty, or the model's
next match and the model continues from the new window -/
theorem while1_eq (p t : List Nat) (hp : 0 < p.length) (hm : p.length ≤ 64) (hb : ∀ c ∈ t, c < 256)
    (h64 : t.length + p.length < 2 ^ 64) :
    ∀ fuel window, p.length ≤ window → t.length + 1 - window < fuel →
      ∃ w' r, next_while1 t p.length (tab 256 (masksLoop p.reverse).masks) (masksLoop p.reverse).accept fuel window
          = Res.ok (w', r) ∧
        ((r = none ∧ G p t window = []) ∨
         (∃ v, r = some (some v) ∧ window < w' ∧ p.length ≤ w' ∧ G p t window = v :: G p t w')) := by
  intro fuel
  induction fuel with
  | zero => intro window _ h; omega
  | succ fuel ih =>
    intro window hw hf
    by_cases hn : window ≤ t.length
    · obtain ⟨occ, ls, hin, hls⟩ := inner_ok p t hp hm window hw hn
      obtain ⟨a', j', hwh⟩ := while2_eq (masksLoop p.reverse) p.length t window hb (by omega) (p.length + 1) 1
        (Bndm.initActive p.length) 0 none occ ls hin
      have hG := G_step p t hp hm window hw hn occ ls hin
      have e1 : Rs.sub p.length ls = Res.ok (p.length - ls) := Rs.sub_ok (by omega)
      have e2 : Rs.add 64 window (p.length - ls) = Res.ok (window + (p.length - ls)) := Rs.add_ok (by omega)
      -- the start value of `active`, in the shapes `if m >= 64 {..} else {..}` and `u64::MAX >> (64 - m)`
      have e3 : Rs.shl 64 1 p.length = if p.length < 64 then Res.ok (1 <<< p.length) else Res.panic := by
        by_cases h : p.length < 64
        · simp [Rs.shl, h, initActive_lt p.length h]
        · simp [Rs.shl, h]
      have e4 : Rs.sub (1 <<< p.length) 1 = Res.ok ((1 <<< p.length) - 1) :=
        Rs.sub_ok (by rw [Nat.shiftLeft_eq, Nat.one_mul]; exact Nat.one_le_two_pow)
      have e5 : Rs.sub 64 p.length = Res.ok (64 - p.length) := Rs.sub_ok hm
      have e6 : Rs.shr 64 18446744073709551615 (64 - p.length) = Res.ok (Bndm.initActive p.length) := by
        rw [Rs.shr_ok (by omega), initActive_shr p.length hp hm]
      have e7 : Rs.shr 64 18446744073709551615 0 = Res.ok 18446744073709551615 := by simp [Rs.shr]
      have hinit : (if p.length ≥ 64 then (18446744073709551615 : Nat) else (1 <<< p.length) - 1)
          = Bndm.initActive p.length := by
        simp [Bndm.initActive, W]
      cases occ with
      | true =>
        refine ⟨window + (p.length - ls), some (some (window - p.length)), ?_,
          Or.inr ⟨_, rfl, by omega, by omega, by rw [hG]; simp⟩⟩
        rw [next_while1]
        by_cases h : p.length < 64
        · have h' : ¬ p.length ≥ 64 := by omega
          have hi : Bndm.initActive p.length = (1 <<< p.length) - 1 := by simp [Bndm.initActive, h']
          rw [hi] at hwh e6
          simp [hn, e1, e2, e3, e4, e5, e6, h, h', hwh]
        · have h' : p.length ≥ 64 := by omega
          have hi : Bndm.initActive p.length = 18446744073709551615 := by simp [Bndm.initActive, h', W]
          rw [hi] at hwh e6
          simp [hn, e1, e2, e5, e6, e7, h, h', hwh]
      | false =>
        obtain ⟨w', r, h1, h2⟩ := ih (window + (p.length - ls)) (by omega) (by omega)
        have hG' : G p t window = G p t (window + (p.length - ls)) := by rw [hG]; simp
        refine ⟨w', r, ?_, ?_⟩
        · rw [next_while1]
          by_cases h : p.length < 64
          · have h' : ¬ p.length ≥ 64 := by omega
            have hi : Bndm.initActive p.length = (1 <<< p.length) - 1 := by simp [Bndm.initActive, h']
            rw [hi] at hwh e6
            simp [hn, e1, e2, e3, e4, e5, e6, h, h', hwh, h1]
          · have h' : p.length ≥ 64 := by omega
            have hi : Bndm.initActive p.length = 18446744073709551615 := by simp [Bndm.initActive, h', W]
            rw [hi] at hwh e6
            simp [hn, e1, e2, e5, e6, e7, h, h', hwh, h1]
        · rcases h2 with ⟨h2, h3⟩ | ⟨v, h2, h3, h4, h5⟩
          · exact Or.inl ⟨h2, by rw [hG', h3]⟩
          · exact Or.inr ⟨v, h2, by omega, h4, by rw [hG', h5]⟩
    · refine ⟨window, none, ?_, Or.inl ⟨rfl, G_end p t window (by omega)⟩⟩
      rw [next_while1]
      simp [hn]

/-- the translated `next` as a step function on the only mutable field `window`, for the matcher built from `p` on `t` -/
def nextS (p t : List Nat) (window : Nat) : Res (Nat × Option Nat) :=
  next p.length (tab 256 (masksLoop p.reverse).masks) (masksLoop p.reverse).accept window t

/-- **`bndm::Matches::next` as written**: one call from window position `window ≥ m` -/
theorem next_eq_model (p t : List Nat) (hp : 0 < p.length) (hm : p.length ≤ 64) (hb : ∀ c ∈ t, c < 256)
    (h64 : t.length + p.length < 2 ^ 64) (window : Nat) (hw : p.length ≤ window) :
    ∃ w' r, nextS p t window = Res.ok (w', r) ∧
      ((r = none ∧ G p t window = []) ∨
       (∃ v, r = some v ∧ window < w' ∧ p.length ≤ w' ∧ G p t window = v :: G p t w')) := by
  obtain ⟨w', r, h1, h2⟩ := while1_eq p t hp hm hb h64 (t.length - window + 2) window hw (by omega)
  rcases h2 with ⟨h2, h3⟩ | ⟨v, h2, h3, h4, h5⟩
  · subst h2
    exact ⟨w', none, by simp [nextS, next, h1], Or.inl ⟨rfl, h3⟩⟩
  · subst h2
    exact ⟨w', some v, by simp [nextS, next, h1], Or.inr ⟨v, rfl, h3, h4, h5⟩⟩

theorem drain_eq (p t : List Nat) (hp : 0 < p.length) (hm : p.length ≤ 64) (hb : ∀ c ∈ t, c < 256)
    (h64 : t.length + p.length < 2 ^ 64) :
    ∀ fuel window, p.length ≤ window → t.length + 1 - window < fuel →
      Rs.drain (nextS p t) fuel window = Res.ok (G p t window) := by
  intro fuel
  induction fuel with
  | zero => intro window _ h; omega
  | succ fuel ih =>
    intro window hw hf
    obtain ⟨w', r, h1, h2⟩ := next_eq_model p t hp hm hb h64 window hw
    rcases h2 with ⟨h2, h3⟩ | ⟨v, h2, h3, h4, h5⟩
    · subst h2; rw [h3]; exact Rs.drain_none _ _ _ _ h1
    · subst h2; rw [h5]
      by_cases hlt : window ≤ t.length
      · exact Rs.drain_some _ _ _ _ _ _ h1 (ih w' h4 (by omega))
      · rw [G_end p t window (by omega)] at h5; simp at h5

/-- **`BNDM::new` as written**: `(m, masks, accept)` with the tables of the reversed pattern (through the translated
`shift_and::masks`) -/
theorem new_eq_model (p : List Nat) (hp : 0 < p.length) (hm : p.length ≤ 64) (hb : ∀ c ∈ p, c < 256) :
    new p = Res.ok (p.length, tab 256 (masksLoop p.reverse).masks, (masksLoop p.reverse).accept) := by
  have e1 : Rs.assert (decide (p.length ≤ 64)) = Res.ok () := Rs.assert_ok (by simpa using hm)
  -- (a version of the constructor that also asserts `m > 0` is covered)
  have e0 : Rs.assert (decide (p.length > 0)) = Res.ok () := Rs.assert_ok (by simpa using hp)
  have e0b : Rs.assert (decide (0 < p.length)) = Res.ok () := Rs.assert_ok (by simpa using hp)
  have e0c : Rs.assert (decide (p.length ≥ 1)) = Res.ok () := Rs.assert_ok (by simp; omega)
  have e0d : Rs.assert (p.length != 0) = Res.ok () :=
    Rs.assert_ok (by have : p.length ≠ 0 := by omega
                     simpa using this)
  have e2 := GenSrcShiftAndMasks.masks_eq_model p.reverse (fun c hc => hb c (by simpa using hc))
  simp [new, e0, e0b, e0c, e0d, e1, e2]

/-- a pattern of more than 64 symbols is refused (`assert!`) -/
theorem new_long_panics (p : List Nat) (hm : 64 < p.length) : new p = Res.panic := by
  have : ¬ p.length ≤ 64 := by omega
  have h0 : 0 < p.length := by omega
  have h0' : p.length ≠ 0 := by omega
  simp [new, Rs.assert, this, h0, h0']

/-- **`BNDM::find_all` as written**: the first window ends at position `m` -/
theorem findAll_init (m : Nat) (t : List Nat) : findAll m t = Res.ok (m, t) := by
  simp [findAll]

/-- the translated functions put together as a caller does: `BNDM::new(p).find_all(t).collect()` -/
def findAllSrc (p t : List Nat) : Res (List Nat) := do
  let (m, masks, accept) ← new p
  let (window, text) ← findAll m t
  Rs.drain (fun window => next m masks accept window text) (t.length + 2) window

/-- **BNDM end to end, on the translated source text** -/
theorem findAllSrc_eq_model (p t : List Nat) (hp : 0 < p.length) (hm : p.length ≤ 64) (hbp : ∀ c ∈ p, c < 256)
    (hb : ∀ c ∈ t, c < 256) (h64 : t.length + p.length < 2 ^ 64) :
    findAllSrc p t = Res.ok (occurrences p t) := by
  have hd := drain_eq p t hp hm hb h64 (t.length + 2) p.length (Nat.le_refl _) (by omega)
  have hG : G p t p.length = occurrences p t := by
    have := Bndm.findAll_eq_occurrences p t hp hm
    simp [G, Bndm.findAll] at this ⊢
    rw [this]; rfl
  simp only [findAllSrc, new_eq_model p hp hm hbp, findAll_init, Res.ok_bind]
  rw [← hG]
  exact hd

end RbV.Thm.GenSrcBndmNext
