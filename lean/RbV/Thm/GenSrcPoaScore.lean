import RbV.Thm.GenSrcPoaAlign
import RbV.Lemmas.PoaTopo
import RbV.Lemmas.PoaHistory
import RbV.Lemmas.PoaTablesOK
/-!
# `Poa::custom` as translated from the source text reports the score of the checked-`i32` mirror — tie-robust (hard)

Everything here is stated on *scores*: a Rust row represents a model row when the band agrees and the cells have the same
scores position by position (`RowRepS`); which of several equally scored candidates a `max` keeps (its operation) is left
open, so a property-preserving change of a tie-break (seeded C16-H1: arguments of the inner `max` swapped) re-proves.
`custom_score_eq_model`: whenever `Model.customTableC` is `some t` (no `i32` overflow), the translated `custom` returns a
traceback `tb` with `tb.last = t.last`, `tb.cols = t.n` and `get(last + 1, n).score = t.score` — the score
`Traceback::alignment` reports (`alignment_score`).
-/
set_option linter.unusedSimpArgs false
set_option linter.unusedVariables false
set_option linter.unnecessarySimpa false
namespace RbV.Thm.GenSrcPoaScore
open RbV RbV.NW RbV.Rs RbV.Rs.Res RbV.Poa RbV.Poa.Model RbV.Gen.SrcPoaAlign RbV.Thm.GenSrcPoaAlign

theorem cmax_score (a b : Cell) : (cmax a b).score = max a.score b.score := by
  unfold cmax; split <;> omega

/-- the scores of a list of cells -/
def scs (l : List Cell) : List Int := l.map (·.score)

structure RowRepS (rr : Row) (br : BRow) : Prop where
  start : rr.2.1 = br.start
  stop : rr.2.2 = br.stop
  empty : rr.1 = [] ↔ br.cells = []
  len : rr.1 ≠ [] → br.stop - br.start ≤ rr.1.length
  cells : ∀ k, (rr.1.getD k mcell).score = (br.cells.getD k mcell).score

theorem brow_get_score (a b : BRow) (hs : a.start = b.start) (he : a.stop = b.stop) (hem : a.cells = [] ↔ b.cells = [])
    (hc : ∀ k, (a.cells.getD k mcell).score = (b.cells.getD k mcell).score) (j : Nat) : (a.get j).score = (b.get j).score := by
  unfold BRow.get
  have e : a.cells.isEmpty = b.cells.isEmpty := by
    cases ha : a.cells <;> cases hb : b.cells <;> simp_all
  rw [hs, he, e]
  split
  · exact hc _
  · split
    · rfl
    · split <;> rfl

theorem getS (tb : Rs.Poa.Traceback) (i j : Nat) (rr : Row) (br : BRow) (h : tb.matrix[i]? = some rr) (hr : RowRepS rr br) :
    ∃ c, Traceback_get tb i j = ok c ∧ c.score = (br.get j).score := by
  have hr' : RowRep rr { cells := rr.1, start := rr.2.1, stop := rr.2.2 } :=
    ⟨rfl, rfl, Iff.rfl, fun hne => by have := hr.len hne; rw [hr.start, hr.stop]; exact this, fun _ => rfl⟩
  refine ⟨_, get_eq tb i j rr _ h hr', ?_⟩
  exact brow_get_score _ _ hr.start hr.stop hr.empty hr.cells j

theorem cmax3_op (P : POp → Prop) (a x y : Cell) (ha : P a.op) (hx : P x.op) (hy : P y.op) : P (cmax a (cmax x y)).op := by
  rcases cmax_op a (cmax x y) with h | h
  · rw [h]; exact ha
  · rcases cmax_op x y with h2 | h2
    · rw [h, h2]; exact hx
    · rw [h, h2]; exact hy

theorem for3_foldS (sc : Sc) (tb : Rs.Poa.Traceback) (r v j b : Nat) (hj : 1 ≤ j) (rowsM : Nat → BRow) (P : POp → Prop) :
    ∀ (prevs : List Nat) (acc accM resM : Cell), acc.score = accM.score → P acc.op →
    (∀ p ∈ prevs, P (.m (some (p, v))) ∧ P (.d (some (p, v + 1)))) →
    (∀ p ∈ prevs, p + 1 < 2 ^ 64 ∧ ∀ c, ∃ x, Traceback_get tb (p + 1) c = ok x ∧ x.score = ((rowsM p).get c).score) →
    foldlC (predC sc v r b j) accM (prevs.map fun p => (p, rowsM p)) = some resM →
    ∃ res, List.foldlM (custom_for3 sc.w sc.gap tb r (v + 1) b j) acc prevs = ok res ∧ res.score = resM.score ∧ P res.op
  | [], acc, accM, resM, ha, hPa, _, _, h => by
    simp only [List.map_nil, foldlC, Option.some.injEq] at h
    exact ⟨acc, by simp, by rw [ha, h], hPa⟩
  | p :: prevs, acc, accM, resM, ha, hPa, hPp, hp, h => by
    obtain ⟨hPm, hPd⟩ := hPp p (List.mem_cons_self ..)
    simp only [List.map_cons] at h
    obtain ⟨accM', h1, h2⟩ := foldlC_cons_some h
    obtain ⟨hp1, hp2⟩ := hp p (List.mem_cons_self ..)
    obtain ⟨x1, hx1, ex1⟩ := hp2 (j - 1)
    obtain ⟨x2, hx2, ex2⟩ := hp2 j
    unfold predC at h1
    simp only at h1
    cases hm : I32.add ((rowsM p).get (j - 1)).score (sc.w r b) with
    | none => rw [hm] at h1; cases h1
    | some ms =>
      rw [hm] at h1
      cases hd : I32.add ((rowsM p).get j).score sc.gap with
      | none => rw [hd] at h1; cases h1
      | some ds =>
        rw [hd] at h1
        simp only [Option.some.injEq] at h1
        rw [← ex1] at hm
        rw [← ex2] at hd
        have e1 : ∃ acc', custom_for3 sc.w sc.gap tb r (v + 1) b j acc p = ok acc' ∧ acc'.score = accM'.score ∧ P acc'.op := by
          unfold custom_for3
          simp only [Rs.add_ok hp1, Res.ok_bind, Rs.sub_ok hj, hx1, hx2, iadd32_some hm, iadd32_some hd,
            Rs.sub_ok (Nat.le_add_left 1 p), Rs.sub_ok (Nat.le_add_left 1 v), Nat.add_sub_cancel, Res.pure_eq_ok]
          refine ⟨_, rfl, ?_, ?_⟩
          · rw [← h1]
            simp only [cmax_score, ha]
            try omega
          · exact cmax3_op P _ _ _ hPa (by first | exact hPm | exact hPd) (by first | exact hPd | exact hPm)
        obtain ⟨acc', e1, ea, eP⟩ := e1
        obtain ⟨res, e2, er, eo⟩ := for3_foldS sc tb r v j b hj rowsM P prevs acc' accM' resM ea eP
          (fun q hq => hPp q (List.mem_cons_of_mem _ hq)) (fun q hq => hp q (List.mem_cons_of_mem _ hq)) h2
        exact ⟨res, by simp only [List.foldlM_cons, e1, Res.ok_bind]; exact e2, er, eo⟩

/-- operations a DP cell of the row of `v` (columns ≥ 1) may hold -/
def CellOp (prevs : List Nat) (v : Nat) (op : POp) : Prop :=
  op = .m none ∨ op = .x 0 ∨ op = .i (some v) ∨ ∃ p ∈ prevs, op = .m (some (p, v)) ∨ op = .d (some (p, v + 1))

theorem cmax2_op (P : POp → Prop) (a b : Cell) (ha : P a.op) (hb : P b.op) : P (cmax a b).op := by
  rcases cmax_op a b with h | h <;> rw [h] <;> assumption

/-- one column of the row of node `v` in `Poa::custom`, on scores -/
theorem for2_stepS (sc : Sc) (xp : Int) (query : List Nat) (r0 : BRow) (v r n : Nat) (prevs : List Nat) (rowsM : Nat → BRow)
    (tb0 : Rs.Poa.Traceback) (M0 : List Row) (c0 : Cell) (done pad : List Cell) (k b : Nat)
    (pre : List (Int × Nat)) (mc : Int × Nat) (suf : List (Int × Nat)) (left leftM candM : Cell) (s : Int)
    (hv : v + 1 < 2 ^ 64) (hk : k + 1 < 2 ^ 64) (hlen : v + 1 < M0.length)
    (hr0 : ∃ rr, M0[0]? = some rr ∧ RowRepS rr r0)
    (hp : ∀ p ∈ prevs, p ≠ v ∧ p + 1 < 2 ^ 64 ∧ ∃ rr, M0[p + 1]? = some rr ∧ RowRepS rr (rowsM p))
    (hdone : done.length = k) (hkn : k + 1 ≤ n)
    (hleft : (c0 :: done)[k]? = some left) (hlm : left.score = leftM.score) (hb : query.getD k 0 = b) (hpre : pre.length = k + 1)
    (hcand : candC sc (cmax mcell ⟨xp, .x 0⟩) query r0 v r (prevs.map fun p => (p, rowsM p)) (k + 1) = some candM)
    (hs : I32.add leftM.score sc.gap = some s) :
    ∃ cell : Cell, cell.score = (cmax candM ⟨s, .i (some v)⟩).score ∧ CellOp prevs v cell.op ∧
    custom_for2 sc.w sc.gap xp r (v + 1) prevs
        (pre ++ mc :: suf, { tb0 with matrix := M0.set (v + 1) (c0 :: done ++ mcell :: pad, 0, n + 1) }) (k, b) =
      ok (pre ++ (if mc.1 < (cmax candM ⟨s, .i (some v)⟩).score then ((cmax candM ⟨s, .i (some v)⟩).score, v + 1) else mc) :: suf,
          { tb0 with matrix := M0.set (v + 1) (c0 :: done ++ cell :: pad, 0, n + 1) }) := by
  generalize htb : ({ tb0 with matrix := M0.set (v + 1) (c0 :: done ++ mcell :: pad, 0, n + 1) } : Rs.Poa.Traceback) = tb
  have hmat : tb.matrix = M0.set (v + 1) (c0 :: done ++ mcell :: pad, 0, n + 1) := by rw [← htb]
  have hrow : tb.matrix[v + 1]? = some (c0 :: done ++ mcell :: pad, 0, n + 1) := by
    rw [hmat]; simp [List.getElem?_set, hlen]
  have hg0 : ∀ c, ∃ x, Traceback_get tb 0 c = ok x ∧ x.score = (r0.get c).score := by
    intro c
    obtain ⟨rr, h1, h2⟩ := hr0
    exact getS tb 0 c rr r0 (by rw [hmat, getElem?_set_ne' _ _ _ _ (by omega)]; exact h1) h2
  have hgp : ∀ p ∈ prevs, p + 1 < 2 ^ 64 ∧ ∀ c, ∃ x, Traceback_get tb (p + 1) c = ok x ∧ x.score = ((rowsM p).get c).score := by
    intro p hpm
    obtain ⟨h0, h1, rr, h2, h3⟩ := hp p hpm
    exact ⟨h1, fun c => getS tb (p + 1) c rr _ (by rw [hmat, getElem?_set_ne' _ _ _ _ (by omega)]; exact h2) h3⟩
  have hgl : Traceback_get tb (v + 1) k = ok left := by
    rw [get_inband tb (v + 1) k _ 0 (n + 1) hrow (by omega) (by omega) (by simp; omega)]
    have : (c0 :: done ++ mcell :: pad)[k]? = some left := by
      show ((c0 :: done) ++ mcell :: pad)[k]? = some left
      rw [List.getElem?_append_left (by simp; omega)]; exact hleft
    simp only [List.getD_eq_getElem?_getD, Nat.sub_zero]
    rw [this]; rfl
  rw [← hlm] at hs
  have hsetrow : ∀ cell : Cell, (c0 :: done ++ mcell :: pad).set (k + 1) cell = c0 :: done ++ cell :: pad := by
    intro cell
    have := set_append_len (c0 :: done) mcell cell pad
    simp only [List.length_cons, hdone, List.cons_append] at this
    exact this
  have hset : ∀ cell : Cell, Traceback_set tb (v + 1) (k + 1) cell =
      ok { tb0 with matrix := M0.set (v + 1) (c0 :: done ++ cell :: pad, 0, n + 1) } := by
    intro cell
    rw [set_eq tb (v + 1) (k + 1) _ _ 0 (n + 1) hrow (by omega) (by omega) (by simp; omega)]
    simp only [Nat.sub_zero, hsetrow, hmat, List.set_set]
    rw [← htb]
  have hmic : (pre ++ mc :: suf)[k + 1]? = some mc := by rw [← hpre]; exact getElem?_append_len pre mc suf
  have hmiclen : k + 1 < (pre ++ mc :: suf).length := lt_of_getElem? hmic
  have hfin : ∀ (t28 : Rs.Poa.Traceback) (cs : Int), (do
      let t29 ← Rs.idx (pre ++ mc :: suf) (k + 1)
      if decide (t29.fst < cs) = true then do
          let t30 ← Rs.idx (pre ++ mc :: suf) (k + 1)
          let t31 ← Rs.setIdx (pre ++ mc :: suf) (k + 1) (cs, t30.snd)
          let t32 ← Rs.idx t31 (k + 1)
          let t33 ← Rs.setIdx t31 (k + 1) (t32.fst, v + 1)
          let max_in_column ← pure t33
          pure (max_in_column, t28)
        else do
          let max_in_column ← pure (pre ++ mc :: suf)
          pure (max_in_column, t28)) =
      ok (pre ++ (if mc.1 < cs then (cs, v + 1) else mc) :: suf, t28) := by
    intro t28 cs
    simp only [Rs.idx_of_getElem? hmic, Res.ok_bind]
    by_cases hlt : mc.1 < cs
    · have e1 : (pre ++ mc :: suf).set (k + 1) (cs, mc.2) = pre ++ (cs, mc.2) :: suf := by rw [← hpre]; exact set_append_len _ _ _ _
      have e2 : (pre ++ (cs, mc.2) :: suf)[k + 1]? = some (cs, mc.2) := by rw [← hpre]; exact getElem?_append_len _ _ _
      have e3 : (pre ++ (cs, mc.2) :: suf).set (k + 1) (cs, v + 1) = pre ++ (cs, v + 1) :: suf := by
        rw [← hpre]; exact set_append_len _ _ _ _
      simp only [hlt, decide_true, if_true, Res.ok_bind, Rs.setIdx_ok hmiclen, e1, Rs.idx_of_getElem? e2,
        Rs.setIdx_ok (lt_of_getElem? e2), e3, Res.pure_eq_ok]
    · simp only [hlt, decide_false, Bool.false_eq_true, if_false, Res.ok_bind, Res.pure_eq_ok]
  unfold candC at hcand
  simp only [Nat.add_sub_cancel, hb] at hcand
  unfold custom_for2
  cases prevs with
  | nil =>
    simp only [List.map_nil] at hcand
    obtain ⟨x0, hx0, ex0⟩ := hg0 k
    rw [← ex0] at hcand
    cases ha : I32.add x0.score (sc.w r b) with
    | none => rw [ha] at hcand; cases hcand
    | some sv =>
      rw [ha] at hcand
      simp only [Option.some.injEq] at hcand
      subst hcand
      refine ⟨cmax ⟨sv, .m none⟩ ⟨s, .i (some v)⟩, rfl,
        cmax2_op (CellOp [] v) _ _ (Or.inl rfl) (Or.inr (Or.inr (Or.inl rfl))), ?_⟩
      simp only [Rs.add_ok hk, Res.ok_bind, List.isEmpty_nil, if_true, Rs.sub_ok (Nat.le_add_left 1 k), Nat.add_sub_cancel,
        hx0, iadd32_some ha, Res.pure_eq_ok, hgl, iadd32_some hs, Rs.sub_ok (Nat.le_add_left 1 v), hset]
      exact hfin _ _
  | cons p ps =>
    simp only [List.map_cons] at hcand
    obtain ⟨candS, hf3, ecand, eop⟩ := for3_foldS sc tb r v (k + 1) b (by omega) rowsM (CellOp (p :: ps) v) (p :: ps)
      (cmax mcell ⟨xp, .x 0⟩) _ candM rfl
      (cmax2_op (CellOp (p :: ps) v) _ _ (Or.inl rfl) (Or.inr (Or.inl rfl)))
      (fun q hq => ⟨Or.inr (Or.inr (Or.inr ⟨q, hq, Or.inl rfl⟩)), Or.inr (Or.inr (Or.inr ⟨q, hq, Or.inr rfl⟩))⟩) hgp
      (by simpa using hcand)
    simp only [mcell] at hf3
    refine ⟨cmax candS ⟨s, .i (some v)⟩, by simp only [cmax_score, ecand],
      cmax2_op (CellOp (p :: ps) v) _ _ eop (Or.inr (Or.inr (Or.inl rfl))), ?_⟩
    have ecs : (cmax candS ⟨s, .i (some v)⟩).score = (cmax candM ⟨s, .i (some v)⟩).score := by simp only [cmax_score, ecand]
    simp only [Rs.add_ok hk, Res.ok_bind, List.isEmpty_cons, Bool.false_eq_true, if_false, minScore_eq, hf3,
      Rs.sub_ok (Nat.le_add_left 1 k), Nat.add_sub_cancel, Res.pure_eq_ok, hgl, iadd32_some hs,
      Rs.sub_ok (Nat.le_add_left 1 v), hset]
    rw [← ecs]
    exact hfin _ _

theorem for2_foldS (sc : Sc) (xp : Int) (query : List Nat) (r0 : BRow) (v r n : Nat) (prevs : List Nat) (rowsM : Nat → BRow)
    (tb0 : Rs.Poa.Traceback) (M0 : List Row) (c0 : Cell)
    (hv : v + 1 < 2 ^ 64) (hn : n + 1 < 2 ^ 64) (hlen : v + 1 < M0.length)
    (hr0 : ∃ rr, M0[0]? = some rr ∧ RowRepS rr r0)
    (hp : ∀ p ∈ prevs, p ≠ v ∧ p + 1 < 2 ^ 64 ∧ ∃ rr, M0[p + 1]? = some rr ∧ RowRepS rr (rowsM p)) :
    ∀ (qs : List Nat) (k : Nat) (done : List Cell) (pre suf : List (Int × Nat)) (left leftM : Cell) (csM : List Cell),
    done.length = k → k + qs.length = n → (∀ i, i < qs.length → query.getD (k + i) 0 = qs.getD i 0) →
    (c0 :: done)[k]? = some left → left.score = leftM.score → pre.length = k + 1 → suf.length = qs.length →
    colLoopC (candC sc (cmax mcell ⟨xp, .x 0⟩) query r0 v r (prevs.map fun p => (p, rowsM p))) sc.gap (.i (some v)) leftM
      (List.range' (k + 1) qs.length) = some csM →
    ∃ cs : List Cell, scs cs = scs csM ∧ (∀ c ∈ cs, CellOp prevs v c.op) ∧
    List.foldlM (custom_for2 sc.w sc.gap xp r (v + 1) prevs)
        (pre ++ suf, { tb0 with matrix := M0.set (v + 1) (c0 :: done ++ List.replicate (qs.length + 1) mcell, 0, n + 1) })
        (Rs.enumFrom k qs) =
      ok (pre ++ colUpdate (v + 1) suf csM,
          { tb0 with matrix := M0.set (v + 1) (c0 :: done ++ cs ++ [mcell], 0, n + 1) })
  | [], k, done, pre, suf, left, leftM, csM, hd, hkn, hq, hl, hlm, hpre, hsuf, hc => by
    simp only [List.length_nil, List.range'_zero, colLoopC, Option.some.injEq] at hc
    subst hc
    cases suf with
    | nil => exact ⟨[], rfl, by simp, by simp [Rs.enumFrom, colUpdate]⟩
    | cons a l => simp at hsuf
  | q :: qs, k, done, pre, suf, left, leftM, csM, hd, hkn, hq, hl, hlm, hpre, hsuf, hc => by
    cases suf with
    | nil => simp at hsuf
    | cons mc suf =>
      simp only [List.length_cons, List.range'_succ, colLoopC] at hc
      cases hcand : candC sc (cmax mcell ⟨xp, .x 0⟩) query r0 v r (prevs.map fun p => (p, rowsM p)) (k + 1) with
      | none => rw [hcand] at hc; cases hc
      | some cand =>
        rw [hcand] at hc
        simp only at hc
        cases hs : I32.add leftM.score sc.gap with
        | none => rw [hs] at hc; cases hc
        | some s =>
          rw [hs] at hc
          simp only at hc
          cases hrest : colLoopC (candC sc (cmax mcell ⟨xp, .x 0⟩) query r0 v r (prevs.map fun p => (p, rowsM p))) sc.gap
              (.i (some v)) (cmax cand ⟨s, .i (some v)⟩) (List.range' (k + 1 + 1) qs.length) with
          | none => rw [hrest] at hc; cases hc
          | some rest =>
            rw [hrest] at hc
            simp only [Option.some.injEq] at hc
            subst hc
            have hb : query.getD k 0 = q := by simpa using hq 0 (by simp)
            simp only [List.length_cons] at hkn hsuf
            obtain ⟨cell, ecell, eop, step⟩ := for2_stepS sc xp query r0 v r n prevs rowsM tb0 M0 c0 done (List.replicate (qs.length + 1) mcell) k q
              pre mc suf left leftM cand s hv (by omega) hlen hr0 hp hd (by omega) hl hlm hb hpre hcand hs
            obtain ⟨cs, ecs, eops, ih⟩ := for2_foldS sc xp query r0 v r n prevs rowsM tb0 M0 c0 hv hn hlen hr0 hp qs (k + 1)
              (done ++ [cell])
              (pre ++ [if mc.1 < (cmax cand ⟨s, .i (some v)⟩).score then ((cmax cand ⟨s, .i (some v)⟩).score, v + 1) else mc])
              suf cell (cmax cand ⟨s, .i (some v)⟩) rest (by simp [hd]) (by omega)
              (fun i hi => by
                have := hq (i + 1) (by simp; omega)
                simpa [Nat.add_assoc, Nat.add_comm 1 i] using this)
              (by
                show ((c0 :: done) ++ [cell])[k + 1]? = _
                have := getElem?_append_len (c0 :: done) cell []
                simpa [hd] using this)
              ecell (by simp [hpre]) (by omega) hrest
            refine ⟨cell :: cs, by simp only [scs, List.map_cons, ecell] at ecs ⊢; rw [ecs],
              (fun c hc => by rcases List.mem_cons.mp hc with rfl | hc; exact eop; exact eops c hc), ?_⟩
            simp only [Rs.enumFrom, List.foldlM_cons, List.length_cons, List.replicate_succ (n := qs.length + 1)]
            rw [step]
            simp only [Res.ok_bind]
            simp only [List.append_assoc, List.singleton_append, List.cons_append, List.nil_append] at ih ⊢
            rw [ih]
            simp [colUpdate]

/-- operations of the cells `off, off+1, …` of the Rust row of node `v` (band starting at column 0): locally fine (`RowOpX`), and
nothing query-consuming in column 0 -/
def CellOK (es : WEdges) (L v j : Nat) (op : POp) : Prop :=
  RowOpX es L v j op ∧ (j = 0 → op = .d none ∨ ∃ r, op = .x r) ∧ ∀ c d, op = .y c d → c ≤ j ∧ d = j

def OffOK (es : WEdges) (L v off : Nat) (cs : List Cell) : Prop :=
  ∀ k c, cs[k]? = some c → CellOK es L v (off + k) c.op

theorem cellOp_noY (prevs : List Nat) (v : Nat) (op : POp) (h : CellOp prevs v op) (c d : Nat) : op ≠ .y c d := by
  rcases h with h | h | h | ⟨p, _, h | h⟩ <;> rw [h] <;> intro hh <;> cases hh

/-- the operations stored in the Rust matrix are local (tie-independent: whatever a `max` kept) -/
structure OInv (es : WEdges) (L : Nat) (M : List Row) : Prop where
  r0 : ∃ cs e, M[0]? = some (cs, 0, e) ∧ 0 < e ∧ e ≤ cs.length ∧
    ∀ k c, cs[k]? = some c → (c.op = .m none ∧ k = 0) ∨ c.op = .i none ∨ c.op = .y 0 k
  rows : ∀ v cs s e, M[v + 1]? = some (cs, s, e) → s = 0 ∧ OffOK es L v 0 cs

theorem cellOp_rowOpX (es : WEdges) (L v k : Nat) (op : POp) (hk : 0 < k) (h : CellOp (inN es v) v op) : RowOpX es L v k op := by
  rcases h with h | h | h | ⟨p, hp, h⟩
  · exact Or.inl h
  · exact Or.inr (Or.inl h)
  · exact Or.inr (Or.inr (Or.inr (Or.inl ⟨hk, Or.inl h⟩)))
  · exact Or.inr (Or.inr (Or.inr (Or.inl ⟨hk, Or.inr (Or.inr ⟨p, hp, h⟩)⟩)))

/-- state of the main loop, on scores; `seen` = the nodes already visited: their rows are complete (`n + 2` cells, band `[0, n+1)`) -/
structure MInvS (M : List Row) (r0 : BRow) (rows : Array BRow) (n : Nat) (todo seen : List Nat) : Prop where
  len : M.length = rows.size + 1
  r0 : ∃ rr, M[0]? = some rr ∧ RowRepS rr r0
  rws : ∀ v, v < rows.size → ∃ rr, M[v + 1]? = some rr ∧ RowRepS rr (rows.getD v (emptyRow n))
  fresh : ∀ v ∈ todo, M[v + 1]? = some ([], 0, n + 1)
  vis : ∀ v ∈ seen, ∃ cs, M[v + 1]? = some (cs, 0, n + 1) ∧ cs.length = n + 2 ∧
    (rows.getD v (emptyRow n)).cells.length = n + 1

theorem scs_getD {a b : List Cell} (h : scs a = scs b) (k : Nat) : (a.getD k mcell).score = (b.getD k mcell).score := by
  have h1 : (scs a)[k]? = (scs b)[k]? := by rw [h]
  simp only [scs, List.getElem?_map] at h1
  simp only [List.getD_eq_getElem?_getD]
  cases ha : a[k]? <;> cases hb : b[k]? <;> simp_all

theorem for1_stepS (sc : Sc) (xp : Int) (labels : List Nat) (es : WEdges) (query : List Nat) (r0 : BRow)
    (st st' : CState) (v : Nat) (tb : Rs.Poa.Traceback) (todo seen : List Nat)
    (hm : labels.length + 1 < 2 ^ 64) (hn : query.length + 1 < 2 ^ 64)
    (hsz : st.rows.size = labels.length) (hv : v < labels.length)
    (hpreds : ∀ p ∈ inN es v, p < labels.length ∧ p ≠ v)
    (hmic : st.maxcol.length = query.length + 1)
    (hinv : MInvS tb.matrix r0 st.rows query.length (v :: todo) seen) (hnd : v ∉ todo) (hns : v ∉ seen)
    (LL : Nat) (hO : OInv es LL tb.matrix)
    (h : cStepC sc xp labels es query r0 st v = some st') :
    ∃ tb', custom_for1 sc.w ⟨labels, es⟩ sc.gap xp query query.length (st.maxcol, tb) v = ok (st'.maxcol, tb') ∧
      tb'.rows = tb.rows ∧ tb'.cols = tb.cols ∧ tb'.last = v ∧ st'.rows.size = labels.length ∧
      st'.maxcol.length = query.length + 1 ∧ MInvS tb'.matrix r0 st'.rows query.length todo (v :: seen) ∧
      OInv es LL tb'.matrix := by
  unfold cStepC at h
  simp only at h
  cases hrow : cNodeRowC sc xp query r0 v (labels.getD v 0)
      ((inN es v).map fun p => (p, st.rows.getD p (emptyRow query.length))) with
  | none => rw [hrow] at h; cases h
  | some row =>
    rw [hrow] at h
    simp only [Option.some.injEq] at h
    subst h
    unfold cNodeRowC at hrow
    cases hc0 : edgeCellC sc xp v with
    | none => rw [hc0] at hrow; cases hrow
    | some c0 =>
      rw [hc0] at hrow
      simp only at hrow
      cases hcands : mapC (candC sc (cmax mcell ⟨xp, .x 0⟩) query r0 v (labels.getD v 0)
          ((inN es v).map fun p => (p, st.rows.getD p (emptyRow query.length)))) (List.range' 1 query.length) with
      | none => rw [hcands] at hrow; cases hrow
      | some cands =>
        rw [hcands] at hrow
        simp only at hrow
        cases hcells : insScanC sc.gap (.i (some v)) c0 cands with
        | none => rw [hcells] at hrow; cases hrow
        | some cells =>
          rw [hcells] at hrow
          simp only [Option.some.injEq] at hrow
          subst hrow
          have hloop := colLoopC_of _ sc.gap (.i (some v)) _ c0 cands cells hcands hcells
          have hclen : cells.length = query.length := by
            rw [insScanC_length _ _ _ _ _ hcells, mapC_length hcands]; simp
          obtain ⟨m0, rest, hmc⟩ : ∃ m0 rest, st.maxcol = m0 :: rest := by
            cases hq : st.maxcol with
            | nil => rw [hq] at hmic; simp at hmic
            | cons a l => exact ⟨a, l, rfl⟩
          have hrest : rest.length = query.length := by rw [hmc] at hmic; simpa using hmic
          have hfresh := hinv.fresh v (List.mem_cons_self ..)
          have hlen : v + 1 < tb.matrix.length := lt_of_getElem? hfresh
          have hnr := new_row_eq { tb with last := v } (v + 1) (query.length + 1) sc.gap xp 0 (query.length + 1) 0 (query.length + 1)
            hfresh c0 (by
              unfold edgeCellC at hc0
              simp only [if_true]
              cases hg : I32.mul sc.gap (I32.ofUsize (v + 1)) with
              | none => rw [hg] at hc0; cases hc0
              | some g => rw [hg] at hc0; simpa using hc0)
          obtain ⟨cs, ecs, ecops, hfold⟩ := for2_foldS sc xp query r0 v (labels.getD v 0) query.length (inN es v)
            (fun p => st.rows.getD p (emptyRow query.length)) { tb with last := v } tb.matrix c0 (by omega) hn hlen hinv.r0
            (fun p hp => by
              obtain ⟨h1, h2⟩ := hpreds p hp
              exact ⟨h2, by omega, hinv.rws p (by omega)⟩)
            query 0 [] [m0] rest c0 c0 cells rfl (by simp) (fun i _ => by simp) rfl rfl rfl hrest hloop
          have hcslen : cs.length = query.length := by
            have : (scs cs).length = (scs cells).length := by rw [ecs]
            simpa [scs, hclen] using this
          refine ⟨{ tb with last := v, matrix := tb.matrix.set (v + 1) (c0 :: cs ++ [mcell], 0, query.length + 1) }, ?_, rfl, rfl, rfl,
            by simp [hsz], by simp [hmc, colUpdate_length, hrest], ?_, ?_⟩
          · unfold custom_for1
            have hw : Rs.Poa.nodeWeight ⟨labels, es⟩ v = ok (labels.getD v 0) := by
              unfold Rs.Poa.nodeWeight
              rw [Rs.idx_ok hv]; simp [List.getD, List.getElem?_eq_getElem hv]
            simp only [hw, Res.ok_bind, Rs.add_ok (show v + 1 < 2 ^ 64 by omega), Rs.add_ok hn, Rs.Poa.neighborsIn]
            rw [hnr]
            simp only [Res.ok_bind, enumerate_eq, hmc]
            simp only [List.nil_append, List.singleton_append, List.cons_append] at hfold
            rw [hfold]
            simp [List.set_set]
          · have hvs : v < st.rows.size := by omega
            have hnew : (st.rows.setIfInBounds v { cells := c0 :: cells, start := 0, stop := query.length + 1 }).getD v
                (emptyRow query.length) = { cells := c0 :: cells, start := 0, stop := query.length + 1 } := by
              simp [Array.getD, hvs]
            have hold : ∀ u, u ≠ v → (st.rows.setIfInBounds v { cells := c0 :: cells, start := 0, stop := query.length + 1 }).getD u
                (emptyRow query.length) = st.rows.getD u (emptyRow query.length) := by
              intro u huv
              by_cases hu : u < st.rows.size
              · simp [Array.getD, hu, Array.getElem_setIfInBounds, Ne.symm huv]
              · simp [Array.getD, hu]
            refine ⟨by simp [hinv.len], ?_, ?_, ?_, ?_⟩
            · obtain ⟨rr, h1, h2⟩ := hinv.r0
              exact ⟨rr, by simp only; rw [getElem?_set_ne' _ _ _ _ (by omega)]; exact h1, h2⟩
            · intro u hu
              simp only [Array.size_setIfInBounds] at hu
              by_cases huv : u = v
              · subst huv
                refine ⟨_, by simp only; exact set_get_self hfresh, ?_⟩
                rw [hnew]
                refine ⟨rfl, rfl, by simp, fun _ => by simp [hcslen], fun k => ?_⟩
                show (((c0 :: cs) ++ [mcell]).getD k mcell).score = ((c0 :: cells).getD k mcell).score
                rw [getD_append_default]
                exact scs_getD (by simp only [scs, List.map_cons] at ecs ⊢; rw [ecs]) k
              · obtain ⟨rr, h1, h2⟩ := hinv.rws u hu
                refine ⟨rr, by simp only; rw [getElem?_set_ne' _ _ _ _ (by omega)]; exact h1, ?_⟩
                rw [hold u huv]; exact h2
            · intro u hu
              have huv : u ≠ v := fun hh => hnd (hh ▸ hu)
              simp only
              rw [getElem?_set_ne' _ _ _ _ (by omega)]
              exact hinv.fresh u (List.mem_cons_of_mem _ hu)
            · intro u hu
              rcases List.mem_cons.mp hu with rfl | hu
              · refine ⟨_, by simp only; exact set_get_self hfresh, by simp [hcslen], ?_⟩
                rw [hnew]; simp [hclen]
              · have huv : u ≠ v := fun hh => hns (hh ▸ hu)
                obtain ⟨cs', h1, h2, h3⟩ := hinv.vis u hu
                refine ⟨cs', by simp only; rw [getElem?_set_ne' _ _ _ _ (by omega)]; exact h1, h2, ?_⟩
                rw [hold u huv]; exact h3

          · -- the operations of the new row are local
            have hc0op : c0.op = .d none ∨ c0.op = .x 0 := by
              unfold edgeCellC at hc0
              cases hg : I32.mul sc.gap (I32.ofUsize (v + 1)) with
              | none => rw [hg] at hc0; cases hc0
              | some gg =>
                rw [hg] at hc0
                simp only [Option.some.injEq] at hc0
                rw [← hc0]; exact cmax_op _ _
            refine ⟨?_, ?_⟩
            · obtain ⟨cs0, e0, h1, h2, h3, h4⟩ := hO.r0
              exact ⟨cs0, e0, by simp only; rw [getElem?_set_ne' _ _ _ _ (by omega)]; exact h1, h2, h3, h4⟩
            · intro u cu su eu hu
              simp only at hu
              by_cases huv : u = v
              · subst huv
                rw [set_get_self hfresh] at hu
                simp only [Option.some.injEq, Prod.mk.injEq] at hu
                obtain ⟨rfl, rfl, rfl⟩ := hu
                refine ⟨rfl, ?_⟩
                intro k c hkc
                simp only [Nat.zero_add]
                cases k with
                | zero =>
                  simp only [List.cons_append, List.getElem?_cons_zero, Option.some.injEq] at hkc
                  subst hkc
                  refine ⟨?_, fun _ => ?_, fun c d hy => ?_⟩
                  · rcases hc0op with h | h
                    · exact Or.inr (Or.inr (Or.inl ⟨rfl, h⟩))
                    · exact Or.inr (Or.inl h)
                  · rcases hc0op with h | h
                    · exact Or.inl h
                    · exact Or.inr ⟨0, h⟩
                  · rcases hc0op with h | h <;> rw [h] at hy <;> cases hy
                | succ k =>
                  simp only [List.cons_append, List.getElem?_cons_succ] at hkc
                  rcases Nat.lt_or_ge k cs.length with hlt | hge
                  · rw [List.getElem?_append_left hlt] at hkc
                    have hco := ecops c (List.mem_of_getElem? hkc)
                    exact ⟨cellOp_rowOpX es LL u (k + 1) c.op (by omega) hco, fun hh => by omega,
                      fun c' d hy => absurd hy (cellOp_noY _ _ _ hco c' d)⟩
                  · rw [List.getElem?_append_right hge] at hkc
                    cases hk2 : k - cs.length with
                    | zero =>
                      rw [hk2] at hkc; simp only [List.getElem?_cons_zero, Option.some.injEq] at hkc; rw [← hkc]
                      exact ⟨Or.inl rfl, fun hh => by omega, fun c' d hy => by cases hy⟩
                    | succ m => rw [hk2] at hkc; simp at hkc
              · rw [getElem?_set_ne' _ _ _ _ (by omega)] at hu
                exact hO.rows u cu su eu hu

theorem for1_foldS (sc : Sc) (xp : Int) (labels : List Nat) (es : WEdges) (query : List Nat) (r0 : BRow)
    (hm : labels.length + 1 < 2 ^ 64) (hn : query.length + 1 < 2 ^ 64)
    (hpreds : ∀ v, ∀ p ∈ inN es v, p < labels.length ∧ p ≠ v) :
    ∀ (order : List Nat) (st st' : CState) (tb : Rs.Poa.Traceback) (seen : List Nat), order.Nodup →
    (∀ v ∈ order, v < labels.length ∧ v ∉ seen) →
    st.rows.size = labels.length → st.maxcol.length = query.length + 1 → MInvS tb.matrix r0 st.rows query.length order seen →
    ∀ (LL : Nat), OInv es LL tb.matrix →
    foldlC (cStepC sc xp labels es query r0) st order = some st' →
    ∃ tb', List.foldlM (custom_for1 sc.w ⟨labels, es⟩ sc.gap xp query query.length) (st.maxcol, tb) order = ok (st'.maxcol, tb') ∧
      tb'.rows = tb.rows ∧ tb'.cols = tb.cols ∧ tb'.last = order.getLastD tb.last ∧ st'.rows.size = labels.length ∧
      st'.maxcol.length = query.length + 1 ∧ MInvS tb'.matrix r0 st'.rows query.length [] (order.reverse ++ seen) ∧
      OInv es LL tb'.matrix
  | [], st, st', tb, seen, _, _, hsz, hmic, hinv, LL, hO, h => by
    simp only [foldlC, Option.some.injEq] at h
    subst h
    exact ⟨tb, rfl, rfl, rfl, rfl, hsz, hmic, by simpa using hinv, hO⟩
  | v :: order, st, st', tb, seen, hnd, hlt, hsz, hmic, hinv, LL, hO, h => by
    obtain ⟨st1, h1, h2⟩ := foldlC_cons_some h
    rw [List.nodup_cons] at hnd
    obtain ⟨hv1, hv2⟩ := hlt v (List.mem_cons_self ..)
    obtain ⟨tb1, e1, er, ec, el, hsz1, hmic1, hinv1, hO1⟩ := for1_stepS sc xp labels es query r0 st st1 v tb order seen hm hn hsz
      hv1 (hpreds v) hmic hinv hnd.1 hv2 LL hO h1
    obtain ⟨tb', e2, er2, ec2, el2, hsz2, hmic2, hinv2, hO2⟩ := for1_foldS sc xp labels es query r0 hm hn hpreds order st1 st' tb1 (v :: seen) hnd.2
      (fun u hu => ⟨(hlt u (List.mem_cons_of_mem _ hu)).1, by
        intro hh
        rcases List.mem_cons.mp hh with rfl | hh
        · exact hnd.1 hu
        · exact (hlt u (List.mem_cons_of_mem _ hu)).2 hh⟩) hsz1 hmic1 hinv1 LL hO1 h2
    refine ⟨tb', ?_, by rw [er2, er], by rw [ec2, ec], ?_, hsz2, hmic2, by simpa using hinv2, hO2⟩
    · simp only [List.foldlM_cons, e1, Res.ok_bind]; exact e2
    · rw [el2, el]; cases order <;> simp [List.getLastD]

theorem scs_eq_of (a b : List Cell) (hl : a.length = b.length)
    (h : ∀ k, k < a.length → (a.getD k mcell).score = (b.getD k mcell).score) : scs a = scs b := by
  apply List.ext_getElem
  · simp [scs, hl]
  · intro i h1 h2
    simp only [scs, List.length_map] at h1 h2
    have := h i h1
    simp only [List.getD_eq_getElem?_getD, List.getElem?_eq_getElem h1, List.getElem?_eq_getElem h2, Option.getD_some] at this
    simpa [scs] using this

theorem offOK_cons (es : WEdges) (L v off : Nat) (c : Cell) (cs : List Cell)
    (h1 : CellOK es L v off c.op) (h2 : OffOK es L v (off + 1) cs) :
    OffOK es L v off (c :: cs) := by
  intro k x hk
  cases k with
  | zero => simp only [List.getElem?_cons_zero, Option.some.injEq] at hk; subst hk; simpa using h1
  | succ k =>
    simp only [List.getElem?_cons_succ] at hk
    have := h2 k x hk
    simpa [Nat.add_assoc, Nat.add_comm 1 k] using this

theorem offOK_uncons (es : WEdges) (L v off : Nat) (c : Cell) (cs : List Cell) (h : OffOK es L v off (c :: cs)) :
    CellOK es L v off c.op ∧ OffOK es L v (off + 1) cs := by
  refine ⟨by simpa using h 0 c rfl, ?_⟩
  intro k x hk
  have := h (k + 1) x (by simpa using hk)
  simpa [Nat.add_assoc, Nat.add_comm 1 k] using this

/-- X suffix clipping (`custom_for4`) over the columns `col ..`, on scores -/
theorem for4_foldS (w : Nat → Nat → Int) (xs : Int) (L n : Nat) (tb0 : Rs.Poa.Traceback) (M0 : List Row)
    (hL : L + 1 < 2 ^ 64) (hlen : L + 1 < M0.length) (htl : tb0.last = L) (junk : List Cell) (es : WEdges) :
    ∀ (mcs : List (Int × Nat)) (col : Nat) (preS sufS cs : List Cell) (mir : Int × Nat) (rest : List Cell) (mir' : Int × Nat),
    preS.length = col → sufS.length = mcs.length → cs.length = mcs.length → col + mcs.length = n + 1 → scs sufS = scs cs →
    OffOK es L L col sufS →
    xSuffixC xs (L + 1) col mcs cs mir = some (rest, mir') →
    ∃ restS, scs restS = scs rest ∧ restS.length = sufS.length ∧ OffOK es L L col restS ∧
      List.foldlM (custom_for4 w xs) ({ tb0 with matrix := M0.set (L + 1) (preS ++ sufS ++ junk, 0, n + 1) }, mir) (Rs.enumFrom col mcs) =
        ok ({ tb0 with matrix := M0.set (L + 1) (preS ++ restS ++ junk, 0, n + 1) }, mir')
  | [], col, preS, sufS, cs, mir, rest, mir', hpre, hsuf, hcs, hcol, hsc, hoff, h => by
    cases sufS with
    | cons a l => simp at hsuf
    | nil =>
      cases cs with
      | cons a l => simp at hcs
      | nil =>
        simp only [xSuffixC, Option.some.injEq, Prod.mk.injEq] at h
        obtain ⟨rfl, rfl⟩ := h
        exact ⟨[], rfl, rfl, hoff, by simp [Rs.enumFrom]⟩
  | mc :: mcs, col, preS, sufS, cs, mir, rest, mir', hpre, hsuf, hcs, hcol, hsc, hoff, h => by
    cases sufS with
    | nil => simp at hsuf
    | cons a sufS =>
      cases cs with
      | nil => simp at hcs
      | cons c cs =>
        simp only [List.length_cons] at hsuf hcs hcol
        simp only [scs, List.map_cons, List.cons.injEq] at hsc
        obtain ⟨hac, hsc'⟩ := hsc
        obtain ⟨hoffa, hofft⟩ := offOK_uncons es L L col a sufS hoff
        generalize htb : ({ tb0 with matrix := M0.set (L + 1) (preS ++ a :: sufS ++ junk, 0, n + 1) } : Rs.Poa.Traceback) = tb
        have hmat : tb.matrix = M0.set (L + 1) (preS ++ a :: sufS ++ junk, 0, n + 1) := by rw [← htb]
        have hlast : tb.last = L := by rw [← htb]; exact htl
        have hrow : tb.matrix[L + 1]? = some (preS ++ a :: sufS ++ junk, 0, n + 1) := by rw [hmat]; simp [List.getElem?_set, hlen]
        have hcolget : (preS ++ a :: sufS ++ junk)[col]? = some a := by
          rw [← hpre, List.append_assoc]; exact getElem?_append_len preS a (sufS ++ junk)
        have hg : Traceback_get tb (L + 1) col = ok a := by
          rw [get_inband tb (L + 1) col _ 0 (n + 1) hrow (by omega) (by omega) (by simp; omega)]
          simp only [List.getD_eq_getElem?_getD, Nat.sub_zero, hcolget, Option.getD_some]
        simp only [Rs.enumFrom, List.foldlM_cons]
        by_cases hskip : mc.2 = L + 1
        · simp only [xSuffixC, hskip, if_true] at h
          cases hr : xSuffixC xs (L + 1) (col + 1) mcs cs mir with
          | none => rw [hr] at h; cases h
          | some pr =>
            obtain ⟨rest1, mir1⟩ := pr
            rw [hr] at h
            simp only [Option.some.injEq, Prod.mk.injEq] at h
            obtain ⟨rfl, rfl⟩ := h
            obtain ⟨restS, e1, e2, e3, ih⟩ := for4_foldS w xs L n tb0 M0 hL hlen htl junk es mcs (col + 1) (preS ++ [a]) sufS cs mir rest1 mir1
              (by simp [hpre]) (by omega) (by omega) (by omega) (by simpa [scs] using hsc') hofft hr
            refine ⟨a :: restS, by simp only [scs, List.map_cons, hac] at e1 ⊢; rw [e1], by simp [e2],
              offOK_cons es L L col a restS hoffa e3, ?_⟩
            have e : custom_for4 w xs (tb, mir) (col, mc) = ok (tb, mir) := by
              unfold custom_for4
              obtain ⟨m1, m2⟩ := mc
              simp only at hskip
              simp only [hlast, Rs.add_ok hL, Res.ok_bind, hskip, decide_true, if_true, Res.pure_eq_ok]
            rw [e]
            simp only [Res.ok_bind, ← htb]
            simp only [List.append_assoc, List.singleton_append, List.cons_append, List.nil_append] at ih ⊢
            exact ih
        · simp only [xSuffixC, hskip, if_false] at h
          cases ha : I32.add mc.1 xs with
          | none => rw [ha] at h; cases h
          | some s =>
            rw [ha] at h
            simp only at h
            cases hr : xSuffixC xs (L + 1) (col + 1) mcs cs
                (if mir.1 < (cmax c ⟨s, .x mc.2⟩).score then ((cmax c ⟨s, .x mc.2⟩).score, col) else mir) with
            | none => rw [hr] at h; cases h
            | some pr =>
              obtain ⟨rest1, mir1⟩ := pr
              rw [hr] at h
              simp only [Option.some.injEq, Prod.mk.injEq] at h
              obtain ⟨rfl, rfl⟩ := h
              have esc : (cmax a ⟨s, .x mc.2⟩).score = (cmax c ⟨s, .x mc.2⟩).score := by simp only [cmax_score, hac]
              obtain ⟨restS, e1, e2, e3, ih⟩ := for4_foldS w xs L n tb0 M0 hL hlen htl junk es mcs (col + 1) (preS ++ [cmax a ⟨s, .x mc.2⟩]) sufS cs _ rest1 mir1
                (by simp [hpre]) (by omega) (by omega) (by omega) (by simpa [scs] using hsc') hofft hr
              have hnew : CellOK es L L col (cmax a ⟨s, .x mc.2⟩).op := by
                rcases cmax_op a ⟨s, .x mc.2⟩ with hh | hh
                · rw [hh]; exact hoffa
                · rw [hh]; exact ⟨Or.inr (Or.inr (Or.inr (Or.inr ⟨rfl, Or.inl ⟨mc.2, rfl⟩⟩))), fun _ => Or.inr ⟨mc.2, rfl⟩,
                    fun c d hy => by cases hy⟩
              refine ⟨cmax a ⟨s, .x mc.2⟩ :: restS, by simp only [scs, List.map_cons, esc] at e1 ⊢; rw [e1], by simp [e2],
                offOK_cons es L L col _ restS hnew e3, ?_⟩
              have hsetl : (preS ++ a :: sufS ++ junk).set col (cmax a ⟨s, .x mc.2⟩) = preS ++ cmax a ⟨s, .x mc.2⟩ :: sufS ++ junk := by
                rw [← hpre]
                simp only [List.append_assoc, List.cons_append]
                exact set_append_len preS a _ (sufS ++ junk)
              have hset : Traceback_set tb (L + 1) col (cmax a ⟨s, .x mc.2⟩) =
                  ok { tb0 with matrix := M0.set (L + 1) (preS ++ cmax a ⟨s, .x mc.2⟩ :: sufS ++ junk, 0, n + 1) } := by
                rw [set_eq tb (L + 1) col _ _ 0 (n + 1) hrow (by omega) (by omega) (by simp; omega)]
                simp only [Nat.sub_zero, hsetl, hmat, List.set_set]
                rw [← htb]
              have e : custom_for4 w xs (tb, mir) (col, mc) =
                  ok ({ tb0 with matrix := M0.set (L + 1) (preS ++ cmax a ⟨s, .x mc.2⟩ :: sufS ++ junk, 0, n + 1) },
                    if mir.1 < (cmax c ⟨s, .x mc.2⟩).score then ((cmax c ⟨s, .x mc.2⟩).score, col) else mir) := by
                unfold custom_for4
                obtain ⟨m1, m2⟩ := mc
                simp only at hskip ha
                simp only [hlast, Rs.add_ok hL, Res.ok_bind, hskip, decide_false, Bool.false_eq_true, if_false, hg, iadd32_some ha,
                  Res.pure_eq_ok, hset, esc]
                by_cases hlt : mir.1 < (cmax c ⟨s, .x m2⟩).score <;> simp [hlt]
              rw [e]
              simp only [Res.ok_bind]
              simp only [List.append_assoc, List.singleton_append, List.cons_append, List.nil_append] at ih ⊢
              exact ih

theorem getLastD_mem : ∀ (l : List Nat) (d : Nat), l ≠ [] → l.getLastD d ∈ l
  | [], _, h => absurd rfl h
  | [a], _, _ => by simp [List.getLastD]
  | a :: b :: l, d, _ => by
    have := getLastD_mem (b :: l) a (by simp)
    simp only [List.getLastD_cons] at this ⊢
    exact List.mem_cons_of_mem _ this

theorem brow_get_inband (br : BRow) (j : Nat) (h0 : br.start = 0) (h1 : j < br.stop) (hne : br.cells ≠ []) :
    br.get j = br.cells.getD j mcell := by
  unfold BRow.get
  have : (decide (br.start ≤ j) && decide (j < br.stop) && !br.cells.isEmpty) = true := by
    cases hc : br.cells with
    | nil => exact absurd hc hne
    | cons a l => simp [h0, h1]
  rw [if_pos this, h0, Nat.sub_zero]

theorem offOK_append (es : WEdges) (L v off : Nat) (a b : List Cell) (ha : OffOK es L v off a)
    (hb : OffOK es L v (off + a.length) b) : OffOK es L v off (a ++ b) := by
  intro k c hk
  rcases Nat.lt_or_ge k a.length with h | h
  · rw [List.getElem?_append_left h] at hk; exact ha k c hk
  · rw [List.getElem?_append_right h] at hk
    have := hb (k - a.length) c hk
    have e : off + a.length + (k - a.length) = off + k := by omega
    rw [e] at this; exact this

theorem offOK_set (es : WEdges) (L v off : Nat) (l : List Cell) (k : Nat) (c : Cell) (hl : OffOK es L v off l)
    (hc : CellOK es L v (off + k) c.op) : OffOK es L v off (l.set k c) := by
  intro i x hi
  by_cases hik : k = i
  · subst hik
    rcases Nat.lt_or_ge k l.length with h | h
    · simp only [List.getElem?_set, h, if_true, Option.some.injEq] at hi; rw [← hi]; exact hc
    · rw [List.getElem?_eq_none (by simpa using h)] at hi; cases hi
  · simp only [List.getElem?_set, hik, if_false] at hi; exact hl i x hi

theorem offOK_take (es : WEdges) (L v off m : Nat) (l : List Cell) (hl : OffOK es L v off l) : OffOK es L v off (l.take m) := by
  intro k c hk
  rw [List.getElem?_take] at hk
  split at hk
  · exact hl k c hk
  · cases hk

theorem offOK_drop (es : WEdges) (L v off m : Nat) (l : List Cell) (hl : OffOK es L v off l) : OffOK es L v (off + m) (l.drop m) := by
  intro k c hk
  rw [List.getElem?_drop] at hk
  have := hl (m + k) c hk
  rw [Nat.add_assoc]; exact this

theorem xSuffixC_mir_le (xs : Int) (lastI N : Nat) : ∀ (mcs : List (Int × Nat)) (cs : List Cell) (col : Nat) (mir : Int × Nat)
    (rest : List Cell) (mir' : Int × Nat), xSuffixC xs lastI col mcs cs mir = some (rest, mir') → mir.2 ≤ N →
    col + mcs.length ≤ N + 1 → mir'.2 ≤ N
  | [], cs, col, mir, rest, mir', h, hm, _ => by
    simp only [xSuffixC, Option.some.injEq, Prod.mk.injEq] at h; rw [← h.2]; exact hm
  | mc :: mcs, [], col, mir, rest, mir', h, hm, _ => by
    simp only [xSuffixC, Option.some.injEq, Prod.mk.injEq] at h; rw [← h.2]; exact hm
  | mc :: mcs, c :: cs, col, mir, rest, mir', h, hm, hc => by
    simp only [xSuffixC] at h
    simp only [List.length_cons] at hc
    split at h
    · cases hr : xSuffixC xs lastI (col + 1) mcs cs mir with
      | none => rw [hr] at h; cases h
      | some pr =>
        obtain ⟨r1, m1⟩ := pr
        rw [hr] at h
        simp only [Option.some.injEq, Prod.mk.injEq] at h
        rw [← h.2]; exact xSuffixC_mir_le xs lastI N mcs cs _ _ r1 m1 hr hm (by omega)
    · cases ha : I32.add mc.1 xs with
      | none => rw [ha] at h; cases h
      | some s =>
        rw [ha] at h
        simp only at h
        cases hr : xSuffixC xs lastI (col + 1) mcs cs
            (if mir.1 < (cmax c ⟨s, .x mc.2⟩).score then ((cmax c ⟨s, .x mc.2⟩).score, col) else mir) with
        | none => rw [hr] at h; cases h
        | some pr =>
          obtain ⟨r1, m1⟩ := pr
          rw [hr] at h
          simp only [Option.some.injEq, Prod.mk.injEq] at h
          rw [← h.2]
          exact xSuffixC_mir_le xs lastI N mcs cs _ _ r1 m1 hr (by
            split
            · show col ≤ N; omega
            · exact hm) (by omega)

theorem mapC_row0Cell_ops (gap yclip : Int) : ∀ (l : List Nat) (cs : List Cell), mapC (row0Cell gap yclip) l = some cs →
    ∀ (k : Nat) (c : Cell), cs[k]? = some c → ∃ j, l[k]? = some j ∧ (c.op = .i none ∨ c.op = .y 0 j)
  | [], cs, h => by simp only [mapC, Option.some.injEq] at h; subst h; intro k c hc; simp at hc
  | j :: l, cs, h => by
    obtain ⟨b, bs, h1, h2, rfl⟩ := mapC_cons_some h
    intro k c hc
    cases k with
    | zero =>
      simp only [List.getElem?_cons_zero, Option.some.injEq] at hc
      subst hc
      refine ⟨j, rfl, ?_⟩
      unfold row0Cell at h1
      cases hg : I32.mul gap (I32.ofUsize j) with
      | none => rw [hg] at h1; cases h1
      | some g =>
        rw [hg] at h1
        simp only [Option.some.injEq] at h1
        rw [← h1]
        rcases cmax_op (⟨g, .i none⟩ : Cell) ⟨yclip, .y 0 j⟩ with e | e
        · left; rw [e]
        · right; rw [e]
    | succ k =>
      simp only [List.getElem?_cons_succ] at hc ⊢
      exact mapC_row0Cell_ops gap yclip l bs h2 k c hc

theorem bRow0C_ops {gap yclip : Int} {n : Nat} {r0 : BRow} (h : bRow0C gap yclip n = some r0) :
    ∀ k c, r0.cells[k]? = some c → (c.op = .m none ∧ k = 0) ∨ c.op = .i none ∨ c.op = .y 0 k := by
  have hb : bRow0C gap yclip n = (match I32.mul gap (I32.ofUsize 0) with
      | none => none
      | some _ => match mapC (row0Cell gap yclip) (List.range' 1 n) with
        | none => none
        | some cs => some { cells := ⟨0, .m none⟩ :: cs, start := 0, stop := n + 1 }) := rfl
  rw [hb] at h
  cases h0 : I32.mul gap (I32.ofUsize 0) with
  | none => rw [h0] at h; cases h
  | some g0 =>
    rw [h0] at h
    simp only at h
    cases h1 : mapC (row0Cell gap yclip) (List.range' 1 n) with
    | none => rw [h1] at h; cases h
    | some cs =>
      rw [h1] at h
      simp only [Option.some.injEq] at h
      subst h
      intro k c hk
      cases k with
      | zero => simp only [List.getElem?_cons_zero, Option.some.injEq] at hk; left; rw [← hk]; exact ⟨rfl, rfl⟩
      | succ k =>
        simp only [List.getElem?_cons_succ] at hk
        obtain ⟨j, hj, hop⟩ := mapC_row0Cell_ops gap yclip _ cs h1 k c hk
        have hjk : j = k + 1 := by
          have hm := List.mem_of_getElem? hj
          have hlt : k < (List.range' 1 n).length := by
            rcases Nat.lt_or_ge k (List.range' 1 n).length with h' | h'
            · exact h'
            · rw [List.getElem?_eq_none h'] at hj; cases hj
          rw [List.getElem?_eq_getElem hlt, List.getElem_range'] at hj
          simp only [Option.some.injEq] at hj; omega
        right
        rcases hop with e | e
        · left; exact e
        · right; rw [e, hjk]

/-- **the translated `Poa::custom` reports the score of the checked-`i32` mirror** (decomposed form of `customTableC = some t`) -/
theorem custom_score_core (sc : Sc) (xp xs yp ys : Int) (labels : List Nat) (es : WEdges) (query : List Nat) (r0 : BRow)
    (st : CState) (cells1 : List Cell) (mir : Int × Nat) (s : Int)
    (hne : labels ≠ []) (hm : labels.length + 1 < 2 ^ 64) (hn : query.length + 1 < 2 ^ 64)
    (hpreds : ∀ v, ∀ p ∈ inN es v, p < labels.length ∧ p ≠ v)
    (hnd : (topo labels.length es).Nodup) (hlt : ∀ v ∈ topo labels.length es, v < labels.length)
    (htopo : topo labels.length es ≠ [])
    (h0 : bRow0C sc.gap yp query.length = some r0)
    (hst : foldlC (cStepC sc xp labels es query r0)
      { rows := Array.replicate labels.length (emptyRow query.length), maxcol := List.replicate (query.length + 1) ((0 : Int), 0) }
      (topo labels.length es) = some st)
    (hx : xSuffixC xs ((topo labels.length es).getLastD 0 + 1) 0 st.maxcol
      ((List.range (query.length + 1)).map (st.rows.getD ((topo labels.length es).getLastD 0) (emptyRow query.length)).get) (0, 0) =
      some (cells1, mir))
    (hy : I32.add mir.1 ys = some s) :
    ∃ tb, custom sc.w ⟨labels, es⟩ sc.gap xp xs yp ys query = ok tb ∧ tb.last = (topo labels.length es).getLastD 0 ∧
      tb.cols = query.length ∧ tb.rows = labels.length ∧ tb.matrix.length = labels.length + 1 ∧
      (0 < query.length → OInv es ((topo labels.length es).getLastD 0) tb.matrix) ∧
      ∃ c, Traceback_get tb ((topo labels.length es).getLastD 0 + 1) query.length = ok c ∧
        c.score = (if mir.2 ≠ query.length then cmax (cells1.getD query.length mcell) ⟨s, .y mir.2 query.length⟩
          else cells1.getD query.length mcell).score := by
  generalize hL : (topo labels.length es).getLastD 0 = L at *
  generalize hnq : query.length = n at *
  obtain ⟨hs0, hs1, hs2⟩ := bRow0C_shape h0
  -- the table after `with_capacity` and `initialize_scores`
  have hinit := init_eq labels.length n sc.gap yp r0 h0 hn hm
  have hwc : Traceback_with_capacity labels.length n =
      ok { rows := labels.length, cols := n, last := 0, matrix := List.replicate (labels.length + 1) ([], 0, n + 1) } := by
    unfold Traceback_with_capacity
    simp only [Rs.add_ok hn, Rs.add_ok hm, Res.ok_bind, Res.pure_eq_ok]
  rw [hwc] at hinit
  simp only [Res.ok_bind] at hinit
  have hinv : MInvS ((r0.cells, 0, n + 1) :: List.replicate labels.length (([] : List Cell), 0, n + 1)) r0
      (Array.replicate labels.length (emptyRow n)) n (topo labels.length es) [] := by
    refine ⟨by simp, ⟨_, rfl, ⟨hs0.symm, hs1.symm, Iff.rfl, fun _ => by simp only; omega, fun _ => rfl⟩⟩, ?_, ?_, by simp⟩
    · intro v hv
      simp only [Array.size_replicate] at hv
      refine ⟨([], 0, n + 1), by simp [List.getElem?_replicate, hv], ?_⟩
      have : (Array.replicate labels.length (emptyRow n)).getD v (emptyRow n) = emptyRow n := by simp [Array.getD, hv]
      rw [this]
      exact ⟨rfl, rfl, Iff.rfl, fun hh => absurd rfl hh, fun _ => rfl⟩
    · intro v hv
      simp [List.getElem?_replicate, hlt v hv]
  have hq : query.length = n := hnq
  have hO0 : OInv es L ((r0.cells, 0, n + 1) :: List.replicate labels.length (([] : List Cell), 0, n + 1)) := by
    refine ⟨⟨r0.cells, n + 1, rfl, by omega, by omega, bRow0C_ops h0⟩, ?_⟩
    intro u cu su eu hu
    simp only [List.getElem?_cons_succ, List.getElem?_replicate] at hu
    split at hu
    · simp only [Option.some.injEq, Prod.mk.injEq] at hu
      obtain ⟨rfl, rfl, rfl⟩ := hu
      exact ⟨rfl, fun k c hk => by simp at hk⟩
    · cases hu
  obtain ⟨tb1, e1, er1, ec1, el1, hsz1, hmic1, hinv1, hO1⟩ := for1_foldS sc xp labels es query r0 hm (by omega) hpreds (topo labels.length es)
    { rows := Array.replicate labels.length (emptyRow query.length), maxcol := List.replicate (query.length + 1) ((0 : Int), 0) } st
    { rows := labels.length, cols := n, last := 0,
      matrix := (r0.cells, 0, n + 1) :: List.replicate labels.length ([], 0, n + 1) } []
    hnd (fun v hv => ⟨hlt v hv, by simp⟩) (by simp) (by simp [hq]) (by rw [hq]; exact hinv) L hO0 (by rw [hq]; exact hst)
  rw [hq] at e1 hmic1 hinv1
  simp only [List.append_nil] at hinv1
  have hLmem : L ∈ topo labels.length es := by rw [← hL]; exact getLastD_mem _ _ htopo
  have hLlt : L < labels.length := hlt L hLmem
  have htl1 : tb1.last = L := by rw [el1]; cases htp : topo labels.length es with
    | nil => exact absurd htp htopo
    | cons a l => rw [htp] at hL; simpa [List.getLastD] using hL
  obtain ⟨csL, hrowL, hcsLlen, hmodlen⟩ := hinv1.vis L (by simpa using hLmem)
  obtain ⟨rrL, hrr, hrepL⟩ := hinv1.rws L (by omega)
  rw [hrowL] at hrr
  simp only [Option.some.injEq] at hrr
  subst hrr
  have hLlen : L + 1 < tb1.matrix.length := lt_of_getElem? hrowL
  -- the last row as prefix ++ junk
  have hsplit : csL = [] ++ csL.take (n + 1) ++ csL.drop (n + 1) := by simp
  have hmodne : (st.rows.getD L (emptyRow n)).cells ≠ [] := by intro hh; rw [hh] at hmodlen; simp at hmodlen
  have hscs : scs (csL.take (n + 1)) = scs ((List.range (n + 1)).map (st.rows.getD L (emptyRow n)).get) := by
    apply scs_eq_of
    · simp [hcsLlen]
    · intro k hk
      simp only [List.length_take, hcsLlen] at hk
      have hk' : k < n + 1 := by omega
      have e1 : ((List.range (n + 1)).map (st.rows.getD L (emptyRow n)).get).getD k mcell = (st.rows.getD L (emptyRow n)).get k := by
        simp [List.getD, hk']
      rw [e1, brow_get_inband _ k hrepL.start.symm (by rw [← hrepL.stop]; exact hk') hmodne, ← hrepL.cells k]
      simp [List.getD, List.getElem?_take, hk']
  have htb1 : tb1 = { tb1 with matrix := tb1.matrix.set (L + 1) ([] ++ csL.take (n + 1) ++ csL.drop (n + 1), 0, n + 1) } := by
    rw [← hsplit, set_self_of_getElem? hrowL]
  have hcsLok : OffOK es L L 0 csL := (hO1.rows L csL 0 (n + 1) hrowL).2
  obtain ⟨restS, ers, erl, eoff, e4⟩ := for4_foldS sc.w xs L n tb1 tb1.matrix (by omega) hLlen htl1 (csL.drop (n + 1)) es st.maxcol 0 []
    (csL.take (n + 1)) _ (0, 0) cells1 mir rfl (by simp [hcsLlen, hmic1]) (by simp [hmic1]) (by simp [hmic1]) hscs (offOK_take es L L 0 (n + 1) csL hcsLok) hx
  rw [← htb1] at e4
  simp only [List.nil_append] at e4
  have hrl : restS.length = n + 1 := by rw [erl]; simp [hcsLlen]
  generalize htb2 : ({ tb1 with matrix := tb1.matrix.set (L + 1) (restS ++ csL.drop (n + 1), 0, n + 1) } : Rs.Poa.Traceback) = tb2 at e4
  have hmat2 : tb2.matrix = tb1.matrix.set (L + 1) (restS ++ csL.drop (n + 1), 0, n + 1) := by rw [← htb2]
  have hrow2 : tb2.matrix[L + 1]? = some (restS ++ csL.drop (n + 1), 0, n + 1) := by rw [hmat2]; simp [List.getElem?_set, hLlen]
  have hlast2 : tb2.last = L := by rw [← htb2]; exact htl1
  obtain ⟨c41, hc41⟩ : ∃ c41, restS[n]? = some c41 := ⟨restS[n]'(by omega), List.getElem?_eq_getElem (by omega)⟩
  have hc41' : (restS ++ csL.drop (n + 1))[n]? = some c41 := by rw [List.getElem?_append_left (by omega)]; exact hc41
  have hg41 : Traceback_get tb2 (L + 1) n = ok c41 := by
    rw [get_inband tb2 (L + 1) n _ 0 (n + 1) hrow2 (by omega) (by omega) (by simp; omega)]
    simp only [List.getD_eq_getElem?_getD, Nat.sub_zero, hc41', Option.getD_some]
  have hc41s : c41.score = (cells1.getD n mcell).score := by
    have := scs_getD ers n
    simpa [List.getD, hc41] using this
  have hOset : ∀ (rowL : List Cell), OffOK es L L 0 rowL → OInv es L (tb1.matrix.set (L + 1) (rowL, 0, n + 1)) := by
    intro rowL hrowLok
    refine ⟨?_, ?_⟩
    · obtain ⟨cs0, e0, h1, h2, h3, h4⟩ := hO1.r0
      exact ⟨cs0, e0, by rw [getElem?_set_ne' _ _ _ _ (by omega)]; exact h1, h2, h3, h4⟩
    · intro u cu su eu hu
      by_cases huL : u = L
      · subst huL
        rw [set_get_self hrowL] at hu
        simp only [Option.some.injEq, Prod.mk.injEq] at hu
        obtain ⟨rfl, rfl, rfl⟩ := hu
        exact ⟨rfl, hrowLok⟩
      · rw [getElem?_set_ne' _ _ _ _ (by omega)] at hu
        exact hO1.rows u cu su eu hu
  have hdropok : OffOK es L L (0 + restS.length) (csL.drop (n + 1)) := by
    rw [hrl]; exact offOK_drop es L L 0 (n + 1) csL hcsLok
  have hmirle : mir.2 ≤ n := xSuffixC_mir_le xs (L + 1) n st.maxcol _ 0 (0, 0) cells1 mir hx (by simp) (by simp [hmic1])
  -- run the function
  have hassert : Rs.assert (decide (Rs.Poa.nodeCount (⟨labels, es⟩ : G) ≠ 0)) = ok () := by
    apply Rs.assert_ok
    cases labels with
    | nil => exact absurd rfl hne
    | cons a l => simp [Rs.Poa.nodeCount]
  have hfold : List.foldlM (custom_for1 sc.w ⟨labels, es⟩ sc.gap xp query n)
      (List.replicate (n + 1) ((0 : Int), 0), (⟨labels.length, n, 0, (r0.cells, 0, n + 1) :: List.replicate labels.length ([], 0, n + 1)⟩ : Rs.Poa.Traceback))
      (Rs.Poa.topoOrder ⟨labels, es⟩) = ok (st.maxcol, tb1) := e1
  unfold custom
  simp only [hassert, Res.ok_bind, Rs.Poa.nodeCount, hq, Rs.add_ok hn, hwc, hinit, hfold, enumerate_eq, e4, hlast2, Rs.add_ok (show L + 1 < 2 ^ 64 by omega),
    hg41, iadd32_some hy]
  by_cases hmn : mir.2 = n
  · refine ⟨tb2, by simp [hmn, hne, Rs.assert], hlast2, by rw [← htb2, ec1], by rw [← htb2, er1],
      by rw [hmat2]; simp [hinv1.len, hsz1],
      fun _ => by rw [hmat2]; exact hOset _ (offOK_append es L L 0 _ _ eoff hdropok), c41, hg41, ?_⟩
    simp [hmn, hc41s]
  · have hsetl : (restS ++ csL.drop (n + 1)).set n (cmax c41 ⟨s, .y mir.2 n⟩) =
        restS.set n (cmax c41 ⟨s, .y mir.2 n⟩) ++ csL.drop (n + 1) := by
      rw [List.set_append_left _ _ (by omega)]
    have hset : Traceback_set tb2 (L + 1) n (cmax c41 ⟨s, .y mir.2 n⟩) =
        ok { tb2 with matrix := tb2.matrix.set (L + 1) (restS.set n (cmax c41 ⟨s, .y mir.2 n⟩) ++ csL.drop (n + 1), 0, n + 1) } := by
      rw [set_eq tb2 (L + 1) n _ _ 0 (n + 1) hrow2 (by omega) (by omega) (by simp; omega)]
      simp only [Nat.sub_zero, hsetl]
    refine ⟨{ tb2 with matrix := tb2.matrix.set (L + 1) (restS.set n (cmax c41 ⟨s, .y mir.2 n⟩) ++ csL.drop (n + 1), 0, n + 1) },
      by simp [hmn, hset, hne, Rs.assert], hlast2, by rw [← htb2, ec1], by rw [← htb2, er1],
      by simp [hmat2, hinv1.len, hsz1],
      fun hn0 => by
        simp only [hmat2, List.set_set]
        refine hOset _ (offOK_append es L L 0 _ _ (offOK_set es L L 0 restS n _ eoff ?_) (by simpa using hdropok))
        simp only [Nat.zero_add]
        rcases cmax_op c41 ⟨s, .y mir.2 n⟩ with hh | hh
        · rw [hh]; have := eoff n c41 hc41; simpa using this
        · rw [hh]
          exact ⟨Or.inr (Or.inr (Or.inr (Or.inr ⟨rfl, Or.inr ⟨by omega, mir.2, n, rfl⟩⟩))), fun h0 => by omega,
            fun c d hy => by cases hy; exact ⟨hmirle, rfl⟩⟩,
      cmax c41 ⟨s, .y mir.2 n⟩, ?_, ?_⟩
    · rw [get_inband _ (L + 1) n (restS.set n (cmax c41 ⟨s, .y mir.2 n⟩) ++ csL.drop (n + 1)) 0 (n + 1)
        (by simp only; exact set_get_self hrow2) (by omega) (by omega) (by simp; omega)]
      simp [List.getD, List.getElem?_append_left, hrl]
    · simp [hmn, cmax_score, hc41s]

theorem xSuffixC_length (xs : Int) (lastI : Nat) : ∀ (mcs : List (Int × Nat)) (cs : List Cell) (col : Nat) (mir : Int × Nat)
    (rest : List Cell) (mir' : Int × Nat), xSuffixC xs lastI col mcs cs mir = some (rest, mir') → rest.length = cs.length
  | [], cs, col, mir, rest, mir', h => by
    simp only [xSuffixC, Option.some.injEq, Prod.mk.injEq] at h; rw [← h.1]
  | mc :: mcs, [], col, mir, rest, mir', h => by
    simp only [xSuffixC, Option.some.injEq, Prod.mk.injEq] at h; rw [← h.1]
  | mc :: mcs, c :: cs, col, mir, rest, mir', h => by
    simp only [xSuffixC] at h
    split at h
    · cases hr : xSuffixC xs lastI (col + 1) mcs cs mir with
      | none => rw [hr] at h; cases h
      | some pr =>
        obtain ⟨r1, m1⟩ := pr
        rw [hr] at h
        simp only [Option.some.injEq, Prod.mk.injEq] at h
        rw [← h.1]; simp [xSuffixC_length xs lastI mcs cs _ _ r1 m1 hr]
    · cases ha : I32.add mc.1 xs with
      | none => rw [ha] at h; cases h
      | some s =>
        rw [ha] at h
        simp only at h
        cases hr : xSuffixC xs lastI (col + 1) mcs cs
            (if mir.1 < (cmax c ⟨s, .x mc.2⟩).score then ((cmax c ⟨s, .x mc.2⟩).score, col) else mir) with
        | none => rw [hr] at h; cases h
        | some pr =>
          obtain ⟨r1, m1⟩ := pr
          rw [hr] at h
          simp only [Option.some.injEq, Prod.mk.injEq] at h
          rw [← h.1]; simp [xSuffixC_length xs lastI mcs cs _ _ r1 m1 hr]

/-- what the proofs need of the graph — true of every non-empty well-formed DAG (`graphOK_of_dag`) -/
structure GraphOK (labels : List Nat) (es : WEdges) : Prop where
  ne : labels ≠ []
  preds : ∀ v, ∀ p ∈ inN es v, p < labels.length ∧ p ≠ v
  nodup : (topo labels.length es).Nodup
  lt : ∀ v ∈ topo labels.length es, v < labels.length
  topo_ne : topo labels.length es ≠ []

theorem graphOK_of_dag (g : G) (h : Dag g) : GraphOK g.labels g.es := by
  obtain ⟨vis, h1, h2, h3, _⟩ := topo_spec g.labels.length g.es h.wf h.acyclic
  have hn : 0 < g.labels.length := by
    cases hl : g.labels with
    | nil => exact absurd hl h.ne
    | cons a l => simp
  refine ⟨h.ne, ?_, by rw [h1]; exact List.pairwise_reverse.2 (List.Pairwise.imp (fun hh => Ne.symm hh) h2), ?_, ?_⟩
  · intro v p hp
    obtain ⟨w, hw⟩ := (mem_inN g.es v p).mp hp
    refine ⟨(h.wf _ hw).1, ?_⟩
    intro hpv
    subst hpv
    exact h.acyclic p (Reach.step (List.mem_map.mpr ⟨(p, p, w), hw, rfl⟩))
  · intro v hv
    rw [h1, List.mem_reverse] at hv
    exact (h3 v).mp hv
  · intro he
    have : 0 ∈ vis := (h3 0).mpr hn
    rw [h1] at he
    simp only [List.reverse_eq_nil_iff] at he
    rw [he] at this
    cases this

/-- **the translated `Poa::custom` reports the score of the checked-`i32` mirror `customTableC`** — all modes (any clip
penalties), every scoring and query, every graph with `GraphOK`; tie-robust -/
theorem custom_score_eq_model (sc : Sc) (xp xs yp ys : Int) (labels : List Nat) (es : WEdges) (query : List Nat) (t : BTable)
    (hg : GraphOK labels es) (hm : labels.length + 1 < 2 ^ 64) (hn : query.length + 1 < 2 ^ 64)
    (h : customTableC sc xp xs yp ys labels es query = some t) :
    ∃ tb, custom sc.w ⟨labels, es⟩ sc.gap xp xs yp ys query = ok tb ∧ tb.last = t.last ∧ tb.cols = t.n ∧ tb.rows = labels.length ∧
      tb.matrix.length = labels.length + 1 ∧ (0 < query.length → OInv es t.last tb.matrix) ∧
      ∃ c, Traceback_get tb (tb.last + 1) tb.cols = ok c ∧ c.score = t.score := by
  unfold customTableC at h
  simp only at h
  cases h0 : bRow0C sc.gap yp query.length with
  | none => rw [h0] at h; cases h
  | some r0 =>
    rw [h0] at h
    simp only at h
    cases hst : foldlC (cStepC sc xp labels es query r0)
        { rows := Array.replicate labels.length (emptyRow query.length), maxcol := List.replicate (query.length + 1) ((0 : Int), 0) }
        (topo labels.length es) with
    | none => rw [hst] at h; cases h
    | some st =>
      rw [hst] at h
      simp only at h
      cases hx : xSuffixC xs ((topo labels.length es).getLastD 0 + 1) 0 st.maxcol
          ((List.range (query.length + 1)).map (st.rows.getD ((topo labels.length es).getLastD 0) (emptyRow query.length)).get) (0, 0) with
      | none => rw [hx] at h; cases h
      | some pr =>
        obtain ⟨cells1, mir⟩ := pr
        rw [hx] at h
        simp only at h
        cases hy : I32.add mir.1 ys with
        | none => rw [hy] at h; cases h
        | some s =>
          rw [hy] at h
          simp only [Option.some.injEq] at h
          obtain ⟨tb, e, el, ec, er, hml, hO, c, hc, hcs⟩ := custom_score_core sc xp xs yp ys labels es query r0 st cells1 mir s hg.ne hm hn
            hg.preds hg.nodup hg.lt hg.topo_ne h0 hst hx hy
          have hsz : st.rows.size = labels.length := by
            have hfold : ∀ (order : List Nat) (a b : CState), foldlC (cStepC sc xp labels es query r0) a order = some b →
                b.rows.size = a.rows.size := by
              intro order
              induction order with
              | nil => intro a b hh; simp only [foldlC, Option.some.injEq] at hh; rw [hh]
              | cons v l ih =>
                intro a b hh
                obtain ⟨a', h1, h2⟩ := foldlC_cons_some hh
                rw [ih a' b h2]
                unfold cStepC at h1
                simp only at h1
                split at h1
                · cases h1
                · simp only [Option.some.injEq] at h1
                  rw [← h1]; simp
            rw [hfold _ _ _ hst]; simp
          have hL : (topo labels.length es).getLastD 0 < labels.length := hg.lt _ (getLastD_mem _ _ hg.topo_ne)
          subst h
          refine ⟨tb, e, el, ec, er, hml, hO, c, by rw [el, ec]; exact hc, ?_⟩
          rw [hcs]
          simp only [BTable.score, BTable.cell, Nat.add_sub_cancel, Nat.add_one_ne_zero, if_false]
          have hget : (st.rows.setIfInBounds ((topo labels.length es).getLastD 0)
              { cells := if mir.2 ≠ query.length then setAt cells1 query.length (cmax (cells1.getD query.length mcell) ⟨s, .y mir.2 query.length⟩) else cells1,
                start := 0, stop := query.length + 1 }).getD ((topo labels.length es).getLastD 0) (emptyRow query.length) =
              { cells := if mir.2 ≠ query.length then setAt cells1 query.length (cmax (cells1.getD query.length mcell) ⟨s, .y mir.2 query.length⟩) else cells1,
                start := 0, stop := query.length + 1 } := by
            have hL' : (topo labels.length es).getLastD 0 < st.rows.size := by omega
            simp only [Array.getD, Array.size_setIfInBounds, hL', dite_true, Array.getElem_setIfInBounds, if_true]
            simp
          rw [hget]
          have hc1len : cells1.length = query.length + 1 := by
            rw [xSuffixC_length _ _ _ _ _ _ _ _ hx]; simp
          rw [brow_get_inband _ query.length rfl (by simp) (by
            simp only
            split
            · simp [setAt]; intro hh; rw [hh] at hc1len; simp at hc1len
            · intro hh; rw [hh] at hc1len; simp at hc1len)]
          simp only
          split
          · simp [setAt, List.getD, hc1len]
          · rfl

/-- the score `Traceback::alignment` reports is `get(last + 1, cols).score` -/
theorem alignment_score (tb : Rs.Poa.Traceback) (a : Rs.Poa.Alignment) (h : Traceback_alignment tb = ok a) :
    ∃ c, Traceback_get tb (tb.last + 1) tb.cols = ok c ∧ a.score = c.score := by
  unfold Traceback_alignment at h
  simp only [Res.bind_eq_ok, Res.pure_eq_ok] at h
  obtain ⟨t1, h1, st, _, t12, h12, c, hc, ha⟩ := h
  unfold Rs.add at h1 h12
  split at h1
  · rename_i hlt
    simp only [if_pos hlt, Res.ok.injEq] at h1 h12
    subst h1; subst h12
    simp only [Res.ok.injEq] at ha
    exact ⟨c, hc, by rw [← ha]⟩
  · cases h1

end RbV.Thm.GenSrcPoaScore
