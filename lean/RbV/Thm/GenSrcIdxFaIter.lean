import RbV.Gen.SrcIdxFaIter
import RbV.Thm.GenSrcIdxFa
/-! `IndexedReader::read_into_iter` / `read_iter` as written (`RbV/Gen/SrcIdxFaIter.lean`, regenerated from `src/io/fasta.rs`
on every `./check C12`), builder genleft.  What genio's iterator theorems read by hand — the initial iterator state and
`capacity() > 0` — is proved from the text here.  `buf_cap` is the ghost field that records the argument of
`Vec::with_capacity(..)` (std: `capacity() >= n`); the statements say `0 < buf_cap`, not which positive number. -/
set_option linter.unusedSimpArgs false
namespace RbV.Thm.GenSrcIdxFaIter
open RbV RbV.Rs RbV.IdxFa RbV.Fastx RbV.Thm.GenSrcIdxFa
open RbV.Gen.SrcIdxFa (IndexRecord)
open RbV.Gen.SrcIdxFaIter

/-- the initial iterator state the property needs: everything but the exact capacity -/
structure InitOk (file : Bytes) (idx : Idx) (start stop : Nat) (it : IndexedReaderIterator St) : Prop where
  reader : it.reader = (IdxFa.seekTo file idx start).1
  record : it.record = toRec idx
  bases : it.bases_left = stop - start
  lo : it.line_offset = (IdxFa.seekTo file idx start).2
  buf : it.buf = []
  bidx : it.buf_idx = 0
  cap : start < stop → 0 < it.buf_cap

theorem max_pos : 0 < MAX_FASTA_BUFFER_SIZE := by decide

/-- **`read_into_iter`, as written**: the two range errors (in either order of the tests), otherwise the state after the
translated `seek_to` with `bases_left = stop - start`, an empty buffer, and a **positive requested capacity** whenever
there is something to read -/
theorem readIntoIter_spec (file : Bytes) (idx : Idx) (start stop : Nat) (s : St)
    (hlb : 0 < idx.lb) (hfit : pos idx start < 2 ^ 64) :
    (idx.len < stop → ∃ e, readIntoIter (seekOp file) s (toRec idx) start stop = Res.ok (.error e) ∧ (e = oobErr ∨ (stop < start ∧ e = intervalErr))) ∧
    (stop ≤ idx.len → stop < start → readIntoIter (seekOp file) s (toRec idx) start stop = Res.ok (.error intervalErr)) ∧
    (stop ≤ idx.len → start ≤ stop →
      ∃ it, readIntoIter (seekOp file) s (toRec idx) start stop = Res.ok (.ok it) ∧ InitOk file idx start stop it) := by
  have hm := max_pos
  refine ⟨fun h => ?_, fun h1 h2 => ?_, fun h1 h2 => ?_⟩
  · by_cases h2 : stop < start
    · have hd : readIntoIter (seekOp file) s (toRec idx) start stop = Res.ok (.error oobErr) ∨
          readIntoIter (seekOp file) s (toRec idx) start stop = Res.ok (.error intervalErr) := by
        simp [readIntoIter, h, h2, oobErr, intervalErr, Nat.not_le.mpr h, Nat.not_le.mpr h2]
      rcases hd with hd | hd
      · exact ⟨_, hd, Or.inl rfl⟩
      · exact ⟨_, hd, Or.inr ⟨h2, rfl⟩⟩
    · refine ⟨oobErr, ?_, Or.inl rfl⟩
      simp [readIntoIter, h, h2, oobErr, Nat.not_le.mpr h]
  · have h1' : ¬ idx.len < stop := by omega
    simp [readIntoIter, h1', h2, intervalErr, Nat.not_le.mpr h2]
  · have h1' : ¬ idx.len < stop := by omega
    have h2' : ¬ stop < start := by omega
    have es : Rs.sub stop start = Res.ok (stop - start) := Rs.sub_ok h2
    have ek := seekTo_eq_model file idx start s hlb (by omega) hfit
    generalize hr : readIntoIter (seekOp file) s (toRec idx) start stop = r
    simp [readIntoIter, h1', h2', es, ek, Nat.not_le, Nat.not_lt.mp h1', Nat.not_lt.mp h2'] at hr
    subst hr
    refine ⟨_, rfl, ⟨rfl, rfl, rfl, rfl, rfl, rfl, ?_⟩⟩
    intro hlt
    show 0 < _
    first
      | (simp only [Nat.lt_min]; omega)
      | omega

/-- `read_iter`: `read_into_iter` on what was fetched; the "No sequence fetched" error before any fetch -/
theorem readIter_eq {ρ : Type} (sk : ρ → Nat → Except IoErr Nat × ρ) (s : ρ) (r : IndexRecord) (start stop : Nat) :
    Gen.SrcIdxFaIter.readIter sk s (some r) (some start) (some stop) = readIntoIter sk s r start stop := by
  simp [Gen.SrcIdxFaIter.readIter]
  cases readIntoIter sk s r start stop <;> rfl

theorem readIter_nofetch {ρ : Type} (sk : ρ → Nat → Except IoErr Nat × ρ) (s : ρ) :
    Gen.SrcIdxFaIter.readIter sk s none none none = Res.ok (.error (toIo .nofetch)) := by
  simp [Gen.SrcIdxFaIter.readIter, toIo]

/-- an iterator over the empty interval (`bases_left = 0`, empty buffer) ends at the first call of `next`, whatever the
capacity (for `start = stop` the constructor asks for capacity 0) -/
theorem drainIt_empty (sched : Nat → Nat) (cap : Nat) (idx : Idx) (fuel calls : Nat) (hc : 0 < calls) (s : St) (lo : Nat) :
    drainIt sched cap idx fuel calls (s, 0, lo, [], 0) = Res.ok [] := by
  obtain ⟨c, rfl⟩ : ∃ c, calls = c + 1 := ⟨calls - 1, by omega⟩
  simp [drainIt, Gen.SrcIdxFa.next]

end RbV.Thm.GenSrcIdxFaIter
