import RbV.Gen.SrcKmpLps
import RbV.Model.Kmp
import RbV.Thm.GenSrcBasic
/-!
# The translated text of `kmp::lps` equals the mirror model `Kmp.lps`

`RbV/Gen/SrcKmpLps.lean` is regenerated from `src/pattern_matching/kmp.rs` by `tools/rs2lean.py` on every `./check C08`;
the theorems below are re-proved against it by `lake build`.  The generated function works on a pre-allocated vector
(`lps[i] = q`, out-of-bounds = panic, `q += 1` checked in 64 bits, `while` with fuel `q + 1`); the model grows a list and
is total.  The bridge: after the rounds `1 … i-1` the vector is `acc ++ replicate (m - i) 0`, where `acc` is the model's
list, all entries `acc[j] ≤ j`, and the running `q < i`.

Proof style: the generated definitions are unfolded by `simp only [<name>]` and the checked operations are discharged by
the `*_ok` lemmas of `RbV/Basic/RsSem.lean` under arithmetic side conditions — no `rfl`/`decide` on the shape of the
generated term, so that a rewrite of the Rust text inside the subset that keeps the meaning (e.g. `q = q + 1`) is
still proved equal.
-/
-- the simp sets name every fact a harmless rewrite of the Rust text may need; on the pinned text some are unused
set_option linter.unusedSimpArgs false

namespace RbV.Thm.GenSrcKmpLps
open RbV RbV.Rs RbV.Gen.SrcKmpLps

/-- every entry of the partial table is at most its index -/
def Bounded (acc : List Nat) : Prop := ∀ j, j < acc.length → acc.getD j 0 ≤ j

theorem getD_append_left (acc z : List Nat) (j : Nat) (h : j < acc.length) :
    (acc ++ z)[j]? = some (acc.getD j 0) := by
  rw [List.getElem?_append_left h, List.getD_eq_getElem?_getD, List.getElem?_eq_getElem h]
  simp

/-- the translated `while` loop is the model's `fallback` (and never runs out of fuel, never panics) -/
theorem while_eq (p acc z : List Nat) (i a : Nat) (hi : p[i]? = some a) (hb : Bounded acc) (hai : acc.length ≤ i) :
    ∀ fuel q, q < fuel → q ≤ acc.length →
      lps_while1 p i (acc ++ z) fuel q = Res.ok (Kmp.fallback p acc a false fuel q)
        ∧ Kmp.fallback p acc a false fuel q ≤ q := by
  have him : i < p.length := (List.getElem?_eq_some_iff.mp hi).1
  intro fuel
  induction fuel with
  | zero => intro q h; omega
  | succ fuel ih =>
    intro q hf hq
    have hqm : q < p.length := by omega
    have e1 : Rs.idx p q = Res.ok p[q] := Rs.idx_ok hqm
    have e2 : Rs.idx p i = Res.ok a := Rs.idx_of_getElem? hi
    have e3 : p[q]? = some p[q] := List.getElem?_eq_getElem hqm
    by_cases h0 : q > 0
    · by_cases hne : p[q] = a
      · -- the loop stops: symbols agree
        simp [lps_while1, Kmp.fallback, e1, e2, e3, h0, hne]
      · have hq1 : q - 1 < acc.length := by omega
        have e4 : Rs.sub q 1 = Res.ok (q - 1) := Rs.sub_ok (by omega)
        have e5 : Rs.idx (acc ++ z) (q - 1) = Res.ok (acc.getD (q - 1) 0) :=
          Rs.idx_of_getElem? (getD_append_left acc z (q - 1) hq1)
        have hle := hb (q - 1) hq1
        obtain ⟨ih1, ih2⟩ := ih (acc.getD (q - 1) 0) (by omega) (by omega)
        simp only [List.getD_eq_getElem?_getD] at ih1 ih2 hle
        simp [lps_while1, Kmp.fallback, e1, e2, e3, e4, e5, h0, hne]
        exact ⟨ih1, by omega⟩
    · -- q = 0: the loop stops (whichever operand of `&&` the source tests first)
      have hq0 : q = 0 := by omega
      subst hq0
      simp [lps_while1, Kmp.fallback, e1, e2]

theorem bounded_snoc (acc : List Nat) (v : Nat) (hb : Bounded acc) (hv : v ≤ acc.length) : Bounded (acc ++ [v]) := by
  intro j hj
  simp only [List.length_append, List.length_singleton] at hj
  by_cases hlt : j < acc.length
  · have := hb j hlt
    rw [List.getD_eq_getElem?_getD] at this ⊢
    rwa [List.getElem?_append_left hlt]
  · have : j = acc.length := by omega
    subst this
    rw [List.getD_eq_getElem?_getD, List.getElem?_append_right (Nat.le_refl _)]
    simpa using hv

/-- one round of `for i in 1..m`: the vector `acc ++ 0…0` becomes `(acc ++ [q']) ++ 0…0` with the model's `q'` -/
theorem for_body_eq (p acc : List Nat) (n a q : Nat) (ha : p[acc.length]? = some a) (hb : Bounded acc)
    (hq : q < acc.length) (h64 : p.length < 2 ^ 64) :
    lps_for1 p (q, acc ++ List.replicate (n + 1) 0) acc.length
        = Res.ok (Kmp.advance p acc a false q, (acc ++ [Kmp.advance p acc a false q]) ++ List.replicate n 0)
      ∧ Kmp.advance p acc a false q ≤ acc.length := by
  have him : acc.length < p.length := (List.getElem?_eq_some_iff.mp ha).1
  obtain ⟨w1, w2⟩ := while_eq p acc (List.replicate (n + 1) 0) acc.length a ha hb (Nat.le_refl _) (q + 1) q
    (by omega) (by omega)
  generalize hq' : Kmp.fallback p acc a false (q + 1) q = q' at w1 w2
  have hqm : q' < p.length := by omega
  have e1 : Rs.idx p q' = Res.ok p[q'] := Rs.idx_ok hqm
  have e2 : Rs.idx p acc.length = Res.ok a := Rs.idx_of_getElem? ha
  have e3 : p[q']? = some p[q'] := List.getElem?_eq_getElem hqm
  have hset : ∀ v : Nat, Rs.setIdx (acc ++ List.replicate (n + 1) 0) acc.length v
      = Res.ok ((acc ++ [v]) ++ List.replicate n 0) := by
    intro v
    rw [Rs.setIdx_ok (by simp)]
    congr 1
    rw [List.replicate_succ, List.set_append_right _ _ (Nat.le_refl _)]
    simp
  by_cases heq : p[q'] = a
  · have e4 : Rs.add 64 q' 1 = Res.ok (q' + 1) := Rs.add_ok (by omega)
    simp [lps_for1, Kmp.advance, w1, hq', e1, e2, e3, e4, heq, hset]
    omega
  · simp [lps_for1, Kmp.advance, w1, hq', e1, e2, e3, heq, hset]
    omega

/-- the translated `for` loop is the model's `lpsLoop` -/
theorem for_eq (p : List Nat) (h64 : p.length < 2 ^ 64) :
    ∀ (rest acc : List Nat) (q : Nat), rest = p.drop acc.length → acc.length + rest.length = p.length →
      Bounded acc → q < acc.length →
      ∃ qf, (List.range' acc.length rest.length).foldlM (lps_for1 p) (q, acc ++ List.replicate rest.length 0)
        = Res.ok (qf, Kmp.lpsLoop p rest acc q) := by
  intro rest
  induction rest with
  | nil => intro acc q _ _ _ _; exact ⟨q, by simp [Kmp.lpsLoop]⟩
  | cons a rest ih =>
    intro acc q hrest hlen hb hq
    have hi : acc.length < p.length := by simp at hlen; omega
    have ha : p[acc.length]? = some a := by
      have : (p.drop acc.length)[0]? = some a := by rw [← hrest]; simp
      rw [List.getElem?_drop] at this; simpa using this
    obtain ⟨b1, b2⟩ := for_body_eq p acc rest.length a q ha hb hq h64
    have hrest' : rest = p.drop (acc ++ [Kmp.advance p acc a false q]).length := by
      simp only [List.length_append, List.length_singleton]
      have : p.drop acc.length = a :: p.drop (acc.length + 1) := by
        rw [List.drop_eq_getElem_cons hi]; congr 1
        exact (List.getElem?_eq_some_iff.mp ha).2
      rw [← hrest] at this
      exact (List.cons.inj this).2
    obtain ⟨qf, hqf⟩ := ih (acc ++ [Kmp.advance p acc a false q]) (Kmp.advance p acc a false q) hrest'
      (by simp at hlen ⊢; omega) (bounded_snoc acc _ hb b2) (by simp; omega)
    refine ⟨qf, ?_⟩
    simp only [List.length_cons, List.range'_succ, List.foldlM_cons, b1, Res.ok_bind, Kmp.lpsLoop]
    simpa using hqf

/-- **`kmp::lps` as written in the source = `Kmp.lps`**, for every pattern whose length fits `usize`: the translated
function never panics (no index out of bounds, `q += 1` never overflows), its `while` loop never runs out of the
fuel `q + 1`, and it returns the model's table. -/
theorem lps_eq_model (p : List Nat) (h64 : p.length < 2 ^ 64) : lps p = Res.ok (Kmp.lps p) := by
  cases p with
  | nil => simp [lps, Kmp.lps]
  | cons a rest =>
    obtain ⟨qf, hqf⟩ := for_eq (a :: rest) h64 rest [0] 0 (by simp) (by simp; omega)
      (by intro j hj; simp at hj; subst hj; simp) (by simp)
    simp only [List.length_singleton, List.cons_append, List.nil_append] at hqf
    simp [lps, Kmp.lps, List.replicate_succ, hqf]

/-! ### `KMP::delta` -/

/-- the translated `while q == self.m || (self.pattern[q] != a && q > 0)` loop is the model's `fallback` with `withM` -/
theorem delta_while_eq (p tab : List Nat) (a : Nat) (hp : 0 < p.length) (hlen : tab.length = p.length)
    (hb : Bounded tab) :
    ∀ fuel q, q < fuel → q ≤ p.length →
      delta_while1 p.length p a tab fuel q = Res.ok (Kmp.fallback p tab a true fuel q)
        ∧ Kmp.fallback p tab a true fuel q ≤ q ∧ Kmp.fallback p tab a true fuel q < p.length := by
  intro fuel
  induction fuel with
  | zero => intro q h; omega
  | succ fuel ih =>
    intro q hf hq
    by_cases hqm : q = p.length
    · -- q = m: fall back unconditionally
      subst hqm
      have hq1 : p.length - 1 < tab.length := by omega
      have e4 : Rs.sub p.length 1 = Res.ok (p.length - 1) := Rs.sub_ok (by omega)
      have e5 : Rs.idx tab (p.length - 1) = Res.ok (tab.getD (p.length - 1) 0) :=
        GenSrc.idx_getD tab (p.length - 1) 0 hq1
      have hle := hb (p.length - 1) hq1
      obtain ⟨ih1, ih2, ih3⟩ := ih (tab.getD (p.length - 1) 0) (by omega) (by omega)
      simp only [List.getD_eq_getElem?_getD] at ih1 ih2 ih3 hle e5
      rw [delta_while1, Kmp.fallback]
      simp [e4, e5]
      exact ⟨ih1, by omega, ih3⟩
    · have hqlt : q < p.length := by omega
      have e1 : Rs.idx p q = Res.ok p[q] := Rs.idx_ok hqlt
      have e3 : p[q]? = some p[q] := List.getElem?_eq_getElem hqlt
      by_cases hcond : p[q] ≠ a ∧ q > 0
      · have hq1 : q - 1 < tab.length := by omega
        have e4 : Rs.sub q 1 = Res.ok (q - 1) := Rs.sub_ok (by omega)
        have e5 : Rs.idx tab (q - 1) = Res.ok (tab.getD (q - 1) 0) := GenSrc.idx_getD tab (q - 1) 0 hq1
        have hle := hb (q - 1) hq1
        obtain ⟨ih1, ih2, ih3⟩ := ih (tab.getD (q - 1) 0) (by omega) (by omega)
        simp only [List.getD_eq_getElem?_getD] at ih1 ih2 ih3 hle e5
        rw [delta_while1, Kmp.fallback]
        simp [hqm, e1, e3, e4, e5, hcond.1, hcond.2]
        exact ⟨ih1, by omega, ih3⟩
      · rw [delta_while1, Kmp.fallback]
        have hc' : (p[q] != a && decide (q > 0)) = false := by
          by_cases h1 : p[q] = a
          · simp [h1]
          · have : ¬ q > 0 := fun h => hcond ⟨h1, h⟩
            simp [this]
        have hc'' : (decide (q > 0) && p[q] != a) = false := by rw [Bool.and_comm]; exact hc'
        have hcond' : ¬ (¬ p[q] = a ∧ 0 < q) := hcond
        have hcond'' : ¬ (0 < q ∧ ¬ p[q] = a) := fun h => hcond ⟨h.2, h.1⟩
        simp [hqm, e1, e3, hc', hc'', hcond', hcond'', hqlt]

/-- **`KMP::delta` as written in the source = the model's `delta`**, over the failure table computed by the model
(equal to the one computed by the source, `lps_eq_model`), for every state `q ≤ m` and every symbol: no panic (the
read `self.pattern[q]` at `q = m` is guarded by the `||`), the fuel `q + 1` suffices. -/
theorem delta_eq_model (p : List Nat) (hp : 0 < p.length) (h64 : p.length < 2 ^ 64) (q a : Nat) (hq : q ≤ p.length) :
    delta p.length (Kmp.lps p) p q a = Res.ok (Kmp.delta p (Kmp.lps p) q a) := by
  obtain ⟨hspec, hlen⟩ := Kmp.lps_spec p hp
  have hb : Bounded (Kmp.lps p) := fun j hj => by have := (hspec j hj).1; omega
  obtain ⟨w1, _, w3⟩ := delta_while_eq p (Kmp.lps p) a hp hlen hb (q + 1) q (by omega) hq
  generalize hq' : Kmp.fallback p (Kmp.lps p) a true (q + 1) q = q' at w1 w3
  have e1 : Rs.idx p q' = Res.ok p[q'] := Rs.idx_ok w3
  have e3 : p[q']? = some p[q'] := List.getElem?_eq_getElem w3
  by_cases heq : p[q'] = a
  · have e4 : Rs.add 64 q' 1 = Res.ok (q' + 1) := Rs.add_ok (by omega)
    simp [delta, Kmp.delta, Kmp.advance, w1, hq', e1, e3, e4, heq]
  · simp [delta, Kmp.delta, Kmp.advance, w1, hq', e1, e3, heq]

end RbV.Thm.GenSrcKmpLps
