import RbV.Gen.SrcKmpNext
import RbV.Model.Kmp
import RbV.Thm.GenSrcKmpLps
import RbV.Thm.GenSrcScan
/-!
# The translated text of `KMP::new`, `KMP::find_all`, `kmp::Matches::next` equals the mirror model `Kmp.findAll`

`RbV/Gen/SrcKmpNext.lean` is regenerated from `src/pattern_matching/kmp.rs` on every `./check C08`.  `next` calls the
translated `delta` (`Gen/SrcKmpLps.lean`, `delta_eq_model`); the report `1 + i - m` does not underflow because the state
`q` is the longest prefix of the pattern that is a suffix of the text read (`Kmp.MaxPS`), so `q = m` needs `m` symbols.
-/
set_option linter.unusedSimpArgs false

namespace RbV.Thm.GenSrcKmpNext
open RbV RbV.Rs RbV.Gen.SrcKmpNext RbV.Thm.GenSrc

/-- one unfolding of the translated loop under the automaton invariant -/
theorem iter_cons (p : List Nat) (hp : 0 < p.length) (h64 : p.length < 2 ^ 64) (pre : List Nat) (q c : Nat)
    (rest : List Nat) (hmax : Kmp.MaxPS p pre q) (hi : pre.length + 1 + rest.length < 2 ^ 64) :
    next_iter1 p.length (Kmp.lps p) p (c :: rest) pre.length q =
      if (fun q => q == p.length) (Kmp.delta p (Kmp.lps p) q c)
      then Res.ok (Kmp.delta p (Kmp.lps p) q c, (rest, pre.length + 1), some (some (pre.length + 1 - p.length)))
      else next_iter1 p.length (Kmp.lps p) p rest (pre.length + 1) (Kmp.delta p (Kmp.lps p) q c) := by
  have hq : q ≤ p.length := hmax.1.1
  have e1 := GenSrcKmpLps.delta_eq_model p hp h64 q c hq
  obtain ⟨hspec, hlen⟩ := Kmp.lps_spec p hp
  have hmax' : Kmp.MaxPS p (pre ++ [c]) (Kmp.delta p (Kmp.lps p) q c) :=
    Kmp.advance_spec p (Kmp.lps p) pre c true hp hspec q (by omega) (Or.inl rfl) hmax
  rw [next_iter1]
  by_cases hacc : Kmp.delta p (Kmp.lps p) q c = p.length
  · have hle : p.length ≤ pre.length + 1 := by
      have := hmax'.1.2.1
      rw [hacc] at this
      simpa using this
    have e2 : Rs.add 64 1 pre.length = Res.ok (pre.length + 1) := by
      rw [Nat.add_comm]; exact Rs.add_ok (by omega)
    have e2' : Rs.add 64 pre.length 1 = Res.ok (pre.length + 1) := Rs.add_ok (by omega)
    have e3 : Rs.sub (pre.length + 1) p.length = Res.ok (pre.length + 1 - p.length) := Rs.sub_ok hle
    simp [e1, e2, e2', e3, hacc]
  · have hacc' : ¬ p.length = Kmp.delta p (Kmp.lps p) q c := fun h => hacc h.symm
    simp [e1, hacc, hacc']

/-- the translated `next` as a step function on the iterator state `(q, text)`, for the matcher built from `p` -/
def nextS (p : List Nat) : (Nat × (List Nat × Nat)) → Res ((Nat × (List Nat × Nat)) × Option Nat) :=
  GenSrcScan.nextS (fun q tx => next p.length (Kmp.lps p) p q tx)

/-- calling the translated `next` until `None` lists what the model's scanner lists -/
theorem drain_eq_scan (p : List Nat) (hp : 0 < p.length) (h64 : p.length < 2 ^ 64) (fuel : Nat) (rest pre : List Nat)
    (q : Nat) (hmax : Kmp.MaxPS p pre q) (hb : ∀ c ∈ rest, c < 256) (hi : pre.length + rest.length < 2 ^ 64)
    (hf : rest.length < fuel) :
    Rs.drain (nextS p) fuel (q, (rest, pre.length))
      = Res.ok (Scan.scan (Kmp.delta p (Kmp.lps p)) (fun q => q == p.length) p.length rest pre.length q) := by
  obtain ⟨hspec, hlen⟩ := Kmp.lps_spec p hp
  refine GenSrcScan.drain_eq_scan (Kmp.delta p (Kmp.lps p)) (fun q => q == p.length) p.length
    (fun pre q => Kmp.MaxPS p pre q) (next_iter1 p.length (Kmp.lps p) p) _ ?_ ?_ ?_ ?_ fuel rest pre q hmax hb hi hf
  · intro i s; simp [next_iter1]
  · intro pre s c rest hinv _ hbound
    exact iter_cons p hp h64 pre s c rest hinv hbound
  · intro s tx s' tx' r h
    cases r <;> simp [next, h]
  · intro pre s c hinv
    exact Kmp.advance_spec p (Kmp.lps p) pre c true hp hspec s (by have := hinv.1.1; omega) (Or.inl rfl) hinv

/-- **`kmp::Matches::next` as written in the source**, driven until `None` from the initial state of `find_all`,
is the mirror model's `findAll` -/
theorem next_eq_model (p t : List Nat) (hp : 0 < p.length) (h64 : p.length < 2 ^ 64) (hb : ∀ c ∈ t, c < 256)
    (ht : t.length < 2 ^ 64) :
    Rs.drain (nextS p) (t.length + 1) (0, (t, 0)) = Res.ok (Kmp.findAll p t) := by
  have h0 : Kmp.MaxPS p [] 0 := ⟨Kmp.isPS_zero _ _, fun k hk => by have := hk.2.1; simpa using this⟩
  have := drain_eq_scan p hp h64 (t.length + 1) t [] 0 h0 hb (by simpa using ht) (by omega)
  simpa [Kmp.findAll] using this

/-- **`KMP::new` as written**: `(lps, m, pattern)` with the model's failure table (through the translated `lps`) -/
theorem new_eq_model (p : List Nat) (h64 : p.length < 2 ^ 64) : new p = Res.ok (Kmp.lps p, p.length, p) := by
  simp [new, GenSrcKmpLps.lps_eq_model p h64]

/-- **`KMP::find_all` as written**: initial state `q = 0`, all of the text unread, counter 0 -/
theorem findAll_init (t : List Nat) : findAll t = Res.ok (0, (t, 0)) := by
  simp [findAll]

/-- the translated functions put together as a caller does: `KMP::new(p).find_all(t).collect()` -/
def findAllSrc (p t : List Nat) : Res (List Nat) := do
  let (lps, m, pattern) ← new p
  let (q, text) ← findAll t
  Rs.drain (GenSrcScan.nextS (fun q tx => next m lps pattern q tx)) (t.length + 1) (q, text)

/-- **KMP end to end, on the translated source text** -/
theorem findAllSrc_eq_model (p t : List Nat) (hp : 0 < p.length) (h64 : p.length < 2 ^ 64) (hb : ∀ c ∈ t, c < 256)
    (ht : t.length < 2 ^ 64) : findAllSrc p t = Res.ok (Kmp.findAll p t) := by
  have := next_eq_model p t hp h64 hb ht
  simp only [findAllSrc, new_eq_model p h64, findAll_init, Res.ok_bind]
  exact this

end RbV.Thm.GenSrcKmpNext
