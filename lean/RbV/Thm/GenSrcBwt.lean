import RbV.Gen.SrcBwt
import RbV.Model.Occ
import RbV.Thm.GenSrcBasic
/-!
# The translated text of `bwt::bwt` equals the mirror model `OccM.bwtModel`

`RbV/Gen/SrcBwt.lean` is regenerated from `src/data_structures/bwt.rs` by `tools/rs2lean.py` on every `./check C04`.
The generated function asserts `text.len() == pos.len()`, pre-allocates `n` zeros and writes `bwt[r]` for `r` in `0..n`
(`pos[r]`, `text[p - 1]`, `text[n - 1]` are checked reads, `p - 1`, `n - 1` checked subtractions); the model is a `map`
over the suffix array with total reads (`getD`).  Bridge: after `r` rounds the vector is `acc ++ 0…0` with `acc` the
model's first `r` symbols.  Hypotheses: equal lengths (otherwise the assertion panics) and every suffix-array entry is a
text position (otherwise `text[p - 1]` panics) — the hypothesis of the property's `bwt_exact` as well.
-/
-- the simp sets name every fact a harmless rewrite of the Rust text may need; on the pinned text some are unused
set_option linter.unusedSimpArgs false

namespace RbV.Thm.GenSrcBwt
open RbV RbV.Rs RbV.Gen.SrcBwt RbV.Thm.GenSrc

/-- the symbol the model writes for suffix-array entry `p` -/
def sym (t : List Nat) (p : Nat) : Nat := if p > 0 then t.getD (p - 1) 0 else t.getD (t.length - 1) 0

/-- one round of `for r in 0..n` -/
theorem for_body_eq (t sa acc : List Nat) (k p : Nat) (hp : sa[acc.length]? = some p) (hlt : p < t.length) :
    bwt_for1 sa t t.length (acc ++ List.replicate (k + 1) 0) acc.length
      = Res.ok ((acc ++ [sym t p]) ++ List.replicate k 0) := by
  have e1 : Rs.idx sa acc.length = Res.ok p := Rs.idx_of_getElem? hp
  have e2 : ∀ v, Rs.setIdx (acc ++ List.replicate (k + 1) 0) acc.length v
      = Res.ok ((acc ++ [v]) ++ List.replicate k 0) := fun v => setIdx_append_replicate acc k 0 v
  by_cases h0 : p > 0
  · have e3 : Rs.sub p 1 = Res.ok (p - 1) := Rs.sub_ok (by omega)
    have e4 : Rs.idx t (p - 1) = Res.ok (t.getD (p - 1) 0) := idx_getD t (p - 1) 0 (by omega)
    have h0' : p ≠ 0 := by omega
    simp [bwt_for1, sym, h0, h0', e1, e2, e3, e4]
  · have hp0 : p = 0 := by omega
    have e3 : Rs.sub t.length 1 = Res.ok (t.length - 1) := Rs.sub_ok (by omega)
    have e4 : Rs.idx t (t.length - 1) = Res.ok (t.getD (t.length - 1) 0) := idx_getD t (t.length - 1) 0 (by omega)
    simp [bwt_for1, sym, hp0, e1, e2, e3, e4]

/-- the translated `for` loop fills the vector with the model's symbols -/
theorem for_eq (t sa : List Nat) (hsa : ∀ p ∈ sa, p < t.length) :
    ∀ (rest acc : List Nat), rest = sa.drop acc.length →
      (List.range' acc.length rest.length).foldlM (bwt_for1 sa t t.length) (acc ++ List.replicate rest.length 0)
        = Res.ok (acc ++ rest.map (sym t)) := by
  intro rest
  induction rest with
  | nil => intro acc _; simp
  | cons p rest ih =>
    intro acc hrest
    obtain ⟨hp, hrest'⟩ := getElem?_of_drop_eq_cons sa acc.length p rest hrest
    have hmem : p ∈ sa := List.mem_of_getElem? hp
    have hb := for_body_eq t sa acc rest.length p hp (hsa p hmem)
    have := ih (acc ++ [sym t p]) (by simpa using hrest')
    simp only [List.length_append, List.length_singleton] at this
    simp only [List.length_cons, List.range'_succ, List.foldlM_cons, hb, Res.ok_bind, List.map_cons, this]
    simp

/-- **`bwt()` as written in the source = `bwtModel`**: for a suffix array of the text's length whose entries are text
positions the translated function passes its assertion, never panics and returns the model's BWT. -/
theorem bwt_eq_model (t sa : List Nat) (hlen : t.length = sa.length) (hsa : ∀ p ∈ sa, p < t.length) :
    bwt t sa = Res.ok (OccM.bwtModel t sa) := by
  have h := for_eq t sa hsa sa [] (by simp)
  have ha : Rs.assert (t.length == sa.length) = Res.ok () := Rs.assert_ok (by simpa using hlen)
  simp only [List.length_nil, List.nil_append] at h
  rw [← hlen] at h
  have hm : OccM.bwtModel t sa = sa.map (sym t) := rfl
  simp [bwt, ha, h, hm]

/-- lengths differ: the `assert_eq!` fires -/
theorem bwt_length_mismatch_panics (t sa : List Nat) (hlen : t.length ≠ sa.length) : bwt t sa = Res.panic := by
  have ha : Rs.assert (t.length == sa.length) = Res.panic := by simp [Rs.assert, hlen]
  simp [bwt, ha]

end RbV.Thm.GenSrcBwt
