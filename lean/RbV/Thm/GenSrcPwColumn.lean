import RbV.Thm.GenSrcPwCustom
/-!
# Lifting the cell lemma to the inner loop of a column (builder genalign; C01)

`ColInv a m n j i pc cur`: the aligner state `a` holds rows `0 ..= i` of column `j` (`cur`, the rows of the checked-`i32` mirror
with tie-breaks `T`) in the `curr = j % 2` halves of `S/I/D`, the register `S[curr][m]`, `Sn`, `Ly`, `Lx[j]` and the cells
`(k, j)`, and the previous column `pc` in the `prev` halves, in `Sn[k]`, `Ly[k]` for `k > i` and in the S fields of the cells
`(k, j − 1)`.  `cell_step`: one iteration of the translated `for i in 1..m + 1` moves the invariant from `i` to `i + 1` with the
row `stepJS T sCode …` of the mirror (or panics exactly when that row is `none`).  `column_loop`: the whole inner loop = `iterC`.
-/
set_option linter.unusedSimpArgs false
set_option linter.unusedVariables false
namespace RbV.Thm.GenSrcPwColumn
open RbV RbV.Rs RbV.Gen.TbCodes RbV.Gen.Limits RbV.Gen.SrcPwTypes RbV.Gen.SrcPwCustom RbV.Align RbV.Model.PairwiseFill
open RbV.Thm.GenSrcPwTypes RbV.Thm.GenSrcPwCustom

/-- row `i` of column `j` with tie-breaks `T`: `stepJS` on the model's rows (`pc` = previous column, `r` = row `i − 1`) -/
def stepT (T : Ties) (sCode : SCodeFn) (sc : Sc) (cl : Clip) (x : List Nat) (m n j q : Nat) (xc : Int) (pc : List Row) (i : Nat)
    (r : Row) : Option Row :=
  stepJS T sCode sc cl m n j i (x.getD (i - 1) 0) q xc (if i = m then r.xm else minScore) (pc.getD (i - 1) default)
    (pc.getD i default) r

structure ColInv (a : Aligner) (m n j i : Nat) (pc cur : List Row) (oc : Nat → Nat → TracebackCell) (olx : Nat → Nat) :
    Prop where
  dims : Dims a m n
  hS : ∀ k, k ≤ i → k ≠ m → (a.S.getD (j % 2) []).getD k 0 = (cur.getD k default).s
  hXm : (a.S.getD (j % 2) []).getD m 0 = (cur.getD i default).xm
  hReset : ∀ k, i < k → k < m → (a.S.getD (j % 2) []).getD k 0 = minScore
  hI : ∀ k, k ≤ i → (a.I.getD (j % 2) []).getD k 0 = (cur.getD k default).i
  hD : ∀ k, k ≤ i → (a.D.getD (j % 2) []).getD k 0 = (cur.getD k default).d
  hSp : ∀ k, k ≤ m → (a.S.getD (1 - j % 2) []).getD k 0 = (pc.getD k default).s
  hDp : ∀ k, k ≤ m → (a.D.getD (1 - j % 2) []).getD k 0 = (pc.getD k default).d
  hSn : ∀ k, k ≤ m → a.Sn.getD k 0 = if k ≤ i then (cur.getD k default).sn else (pc.getD k default).sn
  hLy : ∀ k, k ≤ m → a.Ly.getD k 0 = if k ≤ i then (cur.getD k default).t.ly else (pc.getD k default).t.ly
  hLx : a.Lx.getD j 0 = (cur.getD i default).t.lx
  hCell : ∀ k, k ≤ i → cellAt a k j =
    cellOf (cur.getD k default).t.ts (cur.getD k default).t.ti (cur.getD k default).t.td
  hCellP : ∀ k, k ≤ m → SIs a k (j - 1) (pc.getD k default).t.ts
  /-- frame: the cells of the other columns and the other entries of `Lx` are what they were (`oc`, `olx`) -/
  hOld : ∀ k j', k ≤ m → j' ≤ n → j' ≠ j → cellAt a k j' = oc k j'
  hOldLx : ∀ j', j' ≤ n → j' ≠ j → a.Lx.getD j' 0 = olx j'

/-- `stepJS` reads only these fields of its three rows -/
theorem stepJS_congr (T : Ties) (sCode : SCodeFn) (sc : Sc) (cl : Clip) (m n j i p q : Nat) (xc b0 : Int)
    (pr1 pr r pr1' pr' r' : Row)
    (h1 : pr1.s = pr1'.s) (h2 : pr.s = pr'.s) (h3 : pr.d = pr'.d) (h4 : pr.sn = pr'.sn) (h5 : pr.t.ts = pr'.t.ts)
    (h6 : pr.t.ly = pr'.t.ly) (h7 : r.s = r'.s) (h8 : r.i = r'.i) (h9 : r.xm = r'.xm) (h10 : r.t.ts = r'.t.ts)
    (h11 : r.t.lx = r'.t.lx) :
    stepJS T sCode sc cl m n j i p q xc b0 pr1 pr r = stepJS T sCode sc cl m n j i p q xc b0 pr1' pr' r' := by
  simp only [stepJS, h1, h2, h3, h4, h5, h6, h7, h8, h9, h10, h11]

theorem idx_inj (c k k' j j' : Nat) (hj : j < c) (hj' : j' < c) (h : k * c + j = k' * c + j') : k = k' ∧ j = j' := by
  have hc : 0 < c := by omega
  have h1 : (k * c + j) / c = k := by rw [Nat.mul_comm, Nat.mul_add_div hc, Nat.div_eq_of_lt hj, Nat.add_zero]
  have h2 : (k' * c + j') / c = k' := by rw [Nat.mul_comm, Nat.mul_add_div hc, Nat.div_eq_of_lt hj', Nat.add_zero]
  have hk : k = k' := by rw [← h1, ← h2, h]
  subst hk
  exact ⟨rfl, by omega⟩

theorem getD_set_self {α : Type} (l : List α) (k : Nat) (v d : α) (h : k < l.length) : (l.set k v).getD k d = v := by
  rw [getD_set']; simp [h]
theorem getD_set_other {α : Type} (l : List α) (k k' : Nat) (v d : α) (h : k ≠ k') : (l.set k v).getD k' d = l.getD k' d := by
  rw [getD_set']; simp [h]

section writeRow
variable (a : Aligner) (m n c i j : Nat) (r' : Row)

theorem wr_S_c (hd : Dims a m n) (hc : c < 2) :
    (writeRow a m c i j r').S.getD c [] = ((a.S.getD c []).set i r'.s).set m r'.xm :=
  getD_set_self _ _ _ _ (by rw [hd.S2]; exact hc)
theorem wr_S_p (p : Nat) (hp : c ≠ p) : (writeRow a m c i j r').S.getD p [] = a.S.getD p [] := getD_set_other _ _ _ _ _ hp
theorem wr_I_c (hd : Dims a m n) (hc : c < 2) : (writeRow a m c i j r').I.getD c [] = (a.I.getD c []).set i r'.i :=
  getD_set_self _ _ _ _ (by rw [hd.I2]; exact hc)
theorem wr_I_p (p : Nat) (hp : c ≠ p) : (writeRow a m c i j r').I.getD p [] = a.I.getD p [] := getD_set_other _ _ _ _ _ hp
theorem wr_D_c (hd : Dims a m n) (hc : c < 2) : (writeRow a m c i j r').D.getD c [] = (a.D.getD c []).set i r'.d :=
  getD_set_self _ _ _ _ (by rw [hd.D2]; exact hc)
theorem wr_D_p (p : Nat) (hp : c ≠ p) : (writeRow a m c i j r').D.getD p [] = a.D.getD p [] := getD_set_other _ _ _ _ _ hp

theorem wr_dims (hd : Dims a m n) (hc : c < 2) : Dims (writeRow a m c i j r') m n := by
  obtain ⟨S2, I2, D2, Srow, Irow, Drow, hSn, hLy, hLx, htb, hrows, hcols⟩ := hd
  have hd : Dims a m n := ⟨S2, I2, D2, Srow, Irow, Drow, hSn, hLy, hLx, htb, hrows, hcols⟩
  refine ⟨by simp [writeRow, S2], by simp [writeRow, I2], by simp [writeRow, D2], ?_, ?_, ?_, by simp [writeRow, hSn],
    by simp [writeRow, hLy], by simp [writeRow, hLx], ?_, hrows, hcols⟩
  · intro k hk
    by_cases h : c = k
    · subst h; rw [wr_S_c a m n c i j r' hd hc, List.length_set, List.length_set]; exact Srow c hc
    · rw [wr_S_p a m c i j r' k h]; exact Srow k hk
  · intro k hk
    by_cases h : c = k
    · subst h; rw [wr_I_c a m n c i j r' hd hc, List.length_set]; exact Irow c hc
    · rw [wr_I_p a m c i j r' k h]; exact Irow k hk
  · intro k hk
    by_cases h : c = k
    · subst h; rw [wr_D_c a m n c i j r' hd hc, List.length_set]; exact Drow c hc
    · rw [wr_D_p a m c i j r' k h]; exact Drow k hk
  · exact shaped_set htb _ _

/-- cells after `writeRow`: cell `(i, j)` is the new one, every other cell (inside the matrix) is untouched -/
theorem wr_cell (hd : Dims a m n) (him : i ≤ m) (hjn : j ≤ n) (k j' : Nat) (hk : k ≤ m) (hj' : j' ≤ n) :
    cellAt (writeRow a m c i j r') k j' =
      if k = i ∧ j' = j then cellOf r'.t.ts r'.t.ti r'.t.td else cellAt a k j' := by
  have hcols := hd.cols
  have hlen : i * a.traceback.cols + j < a.traceback.matrix.length :=
    (shaped_idx hd.tb (by rw [hd.rows]; omega) (by rw [hd.cols]; omega)).1
  unfold cellAt
  simp only [writeRow]
  rw [getD_set']
  by_cases h : k = i ∧ j' = j
  · obtain ⟨h1, h2⟩ := h; subst h1 h2; simp [hlen]
  · have : ¬ (i * a.traceback.cols + j = k * a.traceback.cols + j') := by
      intro e
      have := idx_inj a.traceback.cols i k j j' (by omega) (by omega) e
      exact h ⟨this.1.symm, this.2.symm⟩
    simp [h, this]

end writeRow

theorem getD_snoc_lt {α : Type} (l : List α) (v d : α) (k : Nat) (h : k < l.length) : (l ++ [v]).getD k d = l.getD k d := by
  simp [List.getD_eq_getElem?_getD, List.getElem?_append_left h]
theorem getD_snoc_eq {α : Type} (l : List α) (v d : α) : (l ++ [v]).getD l.length d = v := by
  simp [List.getD_eq_getElem?_getD]

/-- **one iteration of the inner loop moves the column invariant one row down** -/
theorem cell_step (w : Nat → Nat → Int) (T : Ties) (sCode : SCodeFn) (hcell : CellEq w T sCode) (a : Aligner) (x : List Nat) (m n i j q : Nat) (xc : Int)
    (pc cur : List Row) (oc : Nat → Nat → TracebackCell) (olx : Nat → Nat) (hinv : ColInv a m n j i pc cur oc olx)
    (hx : x.length = m) (him : i < m) (hj : 1 ≤ j) (hjn : j ≤ n)
    (hlen : cur.length = i + 1) :
    custom_for5 w T.iT T.dT T.snT T.sn0T x m n j (j % 2) (1 - j % 2) q xc a (i + 1) =
      (ofOpt (stepT T sCode (scOf w a) (clOf a) x m n j q xc pc (i + 1) (cur.getD i default)) >>= fun r' =>
        Res.ok (writeRow a m (j % 2) (i + 1) j r')) ∧
    ∀ r', ColInv (writeRow a m (j % 2) (i + 1) j r') m n j (i + 1) pc (cur ++ [r']) oc olx := by
  obtain ⟨dims, hS, hXm, hReset, hI, hD, hSp, hDp, hSn, hLy, hLx, hCell, hCellP, hOld, hOldLx⟩ := hinv
  have hc : j % 2 < 2 := by omega
  have hcp : j % 2 ≠ 1 - j % 2 := by omega
  constructor
  · have hB0 : (a.S.getD (j % 2) []).getD (i + 1) 0 = if i + 1 = m then (cur.getD i default).xm else minScore := by
      by_cases h : i + 1 = m
      · rw [if_pos h, h]; exact hXm
      · rw [if_neg h]; exact hReset (i + 1) (by omega) (by omega)
    rw [hcell a x m n (i + 1) j (j % 2) (1 - j % 2) q (x.getD (i + 1 - 1) 0) xc _ (cur.getD i default).t.ts
      (pc.getD (i + 1) default).t.ts dims hx rfl (by omega) (by omega) hj hjn hc (by omega) hcp hB0
      (by unfold SIs; rw [Nat.add_sub_cancel, hCell i (Nat.le_refl i)]; exact (cellOf_reads _ _ _).1)
      (hCellP (i + 1) (by omega))]
    unfold stepT
    rw [stepJS_congr T sCode _ _ m n j (i + 1) _ q xc _ _ _ _ (pc.getD (i + 1 - 1) default) (pc.getD (i + 1) default)
      (cur.getD i default)]
    all_goals simp only [rowPrev1, rowPrev, rowCur, Nat.add_sub_cancel]
    · exact hSp i (by omega)
    · exact hSp (i + 1) (by omega)
    · exact hDp (i + 1) (by omega)
    · rw [hSn (i + 1) (by omega), if_neg (by omega)]
    · rw [hLy (i + 1) (by omega), if_neg (by omega)]
    · by_cases h : i = m
      · omega
      · exact hS i (Nat.le_refl i) (by omega)
    · exact hI i (Nat.le_refl i)
    · exact hXm
    · exact hLx
  · intro r'
    have lS : (a.S.getD (j % 2) []).length = m + 1 := dims.Srow _ hc
    have lI : (a.I.getD (j % 2) []).length = m + 1 := dims.Irow _ hc
    have lD : (a.D.getD (j % 2) []).length = m + 1 := dims.Drow _ hc
    have gl : ∀ k, k ≤ i → (cur ++ [r']).getD k default = cur.getD k default := fun k hk =>
      getD_snoc_lt _ _ _ _ (by omega)
    have ge : (cur ++ [r']).getD (i + 1) default = r' := by rw [← hlen]; exact getD_snoc_eq _ _ _
    refine ⟨wr_dims a m n _ _ j r' dims hc, ?_, ?_, ?_, ?_, ?_, ?_, ?_, ?_, ?_, ?_, ?_, ?_, ?_, ?_⟩
    · intro k hk hkm
      rw [wr_S_c a m n _ _ j r' dims hc, getD_set_other _ _ _ _ _ (Ne.symm hkm)]
      by_cases h : k = i + 1
      · subst h; rw [getD_set_self _ _ _ _ (by omega), ge]
      · rw [getD_set_other _ _ _ _ _ (Ne.symm h), gl k (by omega)]; exact hS k (by omega) hkm
    · rw [wr_S_c a m n _ _ j r' dims hc, getD_set_self _ _ _ _ (by rw [List.length_set]; omega), ge]
    · intro k hk hkm
      rw [wr_S_c a m n _ _ j r' dims hc, getD_set_other _ _ _ _ _ (by omega), getD_set_other _ _ _ _ _ (by omega)]
      exact hReset k (by omega) hkm
    · intro k hk
      rw [wr_I_c a m n _ _ j r' dims hc]
      by_cases h : k = i + 1
      · subst h; rw [getD_set_self _ _ _ _ (by omega), ge]
      · rw [getD_set_other _ _ _ _ _ (Ne.symm h), gl k (by omega)]; exact hI k (by omega)
    · intro k hk
      rw [wr_D_c a m n _ _ j r' dims hc]
      by_cases h : k = i + 1
      · subst h; rw [getD_set_self _ _ _ _ (by omega), ge]
      · rw [getD_set_other _ _ _ _ _ (Ne.symm h), gl k (by omega)]; exact hD k (by omega)
    · intro k hk; rw [wr_S_p a m _ _ j r' _ hcp]; exact hSp k hk
    · intro k hk; rw [wr_D_p a m _ _ j r' _ hcp]; exact hDp k hk
    · intro k hk
      show (a.Sn.set (i + 1) r'.sn).getD k 0 = _
      by_cases h : k = i + 1
      · subst h; rw [getD_set_self _ _ _ _ (by rw [dims.Sn]; omega), if_pos (Nat.le_refl _), ge]
      · rw [getD_set_other _ _ _ _ _ (Ne.symm h), hSn k hk]
        by_cases h2 : k ≤ i
        · rw [if_pos h2, if_pos (by omega), gl k h2]
        · rw [if_neg h2, if_neg (by omega)]
    · intro k hk
      show (a.Ly.set (i + 1) r'.t.ly).getD k 0 = _
      by_cases h : k = i + 1
      · subst h; rw [getD_set_self _ _ _ _ (by rw [dims.Ly]; omega), if_pos (Nat.le_refl _), ge]
      · rw [getD_set_other _ _ _ _ _ (Ne.symm h), hLy k hk]
        by_cases h2 : k ≤ i
        · rw [if_pos h2, if_pos (by omega), gl k h2]
        · rw [if_neg h2, if_neg (by omega)]
    · show (a.Lx.set j r'.t.lx).getD j 0 = _
      rw [getD_set_self _ _ _ _ (by rw [dims.Lx]; omega), ge]
    · intro k hk
      rw [wr_cell a m n _ _ j r' dims (by omega) hjn k j (by omega) hjn]
      by_cases h : k = i + 1
      · subst h; rw [if_pos ⟨rfl, rfl⟩, ge]
      · rw [if_neg (fun e => h e.1), gl k (by omega)]; exact hCell k (by omega)
    · intro k hk
      unfold SIs
      rw [wr_cell a m n _ _ j r' dims (by omega) hjn k (j - 1) hk (by omega), if_neg (by omega)]
      exact hCellP k hk
    · intro k j' hk hj' hne
      rw [wr_cell a m n _ _ j r' dims (by omega) hjn k j' hk hj', if_neg (fun e => hne e.2)]
      exact hOld k j' hk hj' hne
    · intro j' hj' hne
      show (a.Lx.set j r'.t.lx).getD j' 0 = _
      rw [getD_set_other _ _ _ _ _ (Ne.symm hne)]; exact hOldLx j' hj' hne

/-- rows `i + 1 ..= i + k` appended to the rows `cur` written so far (`none` = an `i32` overflow in one of them) -/
def colRows (step : Nat → Row → Option Row) : Nat → Nat → List Row → Option (List Row)
  | 0, _, cur => some cur
  | k + 1, i, cur => obind (step (i + 1) (cur.getD i default)) fun r' => colRows step k (i + 1) (cur ++ [r'])

theorem scOf_writeRow (w : Nat → Nat → Int) (a : Aligner) (m c i j : Nat) (r' : Row) :
    scOf w (writeRow a m c i j r') = scOf w a ∧ clOf (writeRow a m c i j r') = clOf a := ⟨rfl, rfl⟩

/-- **the inner loop of a column** (`for i in 1..m + 1`, translated text) from row `i` on **= `colRows (stepT T …)`**: panics iff
a row of the mirror is `none`, otherwise ends in a state that holds the whole column (`ColInv … m`) -/
theorem column_loop (w : Nat → Nat → Int) (T : Ties) (x : List Nat) (m n j q : Nat) (xc : Int) (pc : List Row) (sc : Sc)
    (cl : Clip) (sCode : SCodeFn) (hcell : CellEq w T sCode) (oc : Nat → Nat → TracebackCell) (olx : Nat → Nat) (hx : x.length = m) (hj : 1 ≤ j) (hjn : j ≤ n) :
    ∀ (k i : Nat) (a : Aligner) (cur : List Row), ColInv a m n j i pc cur oc olx → cur.length = i + 1 → i + k = m →
      scOf w a = sc → clOf a = cl →
      match colRows (stepT T sCode sc cl x m n j q xc pc) k i cur with
      | none => List.foldlM (custom_for5 w T.iT T.dT T.snT T.sn0T x m n j (j % 2) (1 - j % 2) q xc) a
          (List.range' (i + 1) k) = Res.panic
      | some col => ∃ a', List.foldlM (custom_for5 w T.iT T.dT T.snT T.sn0T x m n j (j % 2) (1 - j % 2) q xc) a
          (List.range' (i + 1) k) = Res.ok a' ∧ ColInv a' m n j m pc col oc olx ∧ col.length = m + 1 ∧
          a'.scoring = a.scoring := by
  intro k
  induction k with
  | zero =>
    intro i a cur hinv hlen hik hsc hcl
    have : i = m := by omega
    subst this
    simp only [colRows, List.range'_zero, List.foldlM_nil, Res.pure_eq_ok]
    exact ⟨a, rfl, hinv, hlen, rfl⟩
  | succ k ih =>
    intro i a cur hinv hlen hik hsc hcl
    have hstep := cell_step w T sCode hcell a x m n i j q xc pc cur oc olx hinv hx (by omega) hj hjn hlen
    rw [hsc, hcl] at hstep
    simp only [colRows, List.range'_succ, List.foldlM_cons, hstep.1]
    cases hr : stepT T sCode sc cl x m n j q xc pc (i + 1) (cur.getD i default) with
    | none => simp only [obind_none, ofOpt_none, Res.panic_bind]
    | some r' =>
      simp only [obind_some, ofOpt_some, Res.ok_bind]
      have h2 := ih (i + 1) (writeRow a m (j % 2) (i + 1) j r') (cur ++ [r']) (hstep.2 r') (by simp [hlen]) (by omega)
        hsc hcl
      cases hc : colRows (stepT T sCode sc cl x m n j q xc pc) k (i + 1) (cur ++ [r']) with
      | none => rw [hc] at h2; exact h2
      | some col =>
        rw [hc] at h2
        obtain ⟨a', e1, e2, e3, e4⟩ := h2
        exact ⟨a', e1, e2, e3, e4⟩

/-! ### the reset loop of a column: `for i in 1..=m { self.S[curr][i] = MIN_SCORE; }` -/

theorem reset_step (w : Nat → Nat → Int) (iT dT snT sn0T : Int → Int → Bool) (a : Aligner) (c i : Nat) (l : List Int)
    (hS2 : a.S.length = 2) (hc : c < 2) (hl : a.S.getD c [] = l) (hi : i < l.length) :
    custom_for4 w iT dT snT sn0T c a i = .ok { a with S := a.S.set c (l.set i minScore) } := by
  have e1 : Rs.idx a.S c = .ok l := by rw [idxD _ _ (by omega)]; exact congrArg Res.ok hl
  unfold custom_for4
  simp only [e1, setIdx_ok' _ _ _ hi, setIdx_ok' a.S c _ (by omega), Res.pure_eq_ok, Res.ok_bind, minScore_eq]

/-- the translated reset loop over `i .. i + k` overwrites exactly the entries `S[curr][i .. i + k)` with `MIN_SCORE` -/
theorem reset_loop (w : Nat → Nat → Int) (iT dT snT sn0T : Int → Int → Bool) (c : Nat) (hc : c < 2) :
    ∀ (k i : Nat) (a : Aligner) (l : List Int), a.S.length = 2 → a.S.getD c [] = l → i + k ≤ l.length →
      ∃ l', List.foldlM (custom_for4 w iT dT snT sn0T c) a (List.range' i k) = .ok { a with S := a.S.set c l' } ∧
        l'.length = l.length ∧ (∀ t, i ≤ t → t < i + k → l'.getD t 0 = minScore) ∧
        (∀ t, (t < i ∨ i + k ≤ t) → l'.getD t 0 = l.getD t 0) := by
  intro k
  induction k with
  | zero =>
    intro i a l hS2 hl hik
    refine ⟨l, ?_, rfl, fun t h1 h2 => by omega, fun t _ => rfl⟩
    simp only [List.range'_zero, List.foldlM_nil, Res.pure_eq_ok]
    rw [← hl]
    congr 1
    cases a
    simp only [Aligner.mk.injEq, true_and, and_true]
    exact (set_getD_self _ _ _).symm
  | succ k ih =>
    intro i a l hS2 hl hik
    have h1 := reset_step w iT dT snT sn0T a c i l hS2 hc hl (by omega)
    obtain ⟨l', e1, e2, e3, e4⟩ := ih (i + 1) { a with S := a.S.set c (l.set i minScore) } (l.set i minScore)
      (by simp [hS2]) (getD_set_self _ _ _ _ (by omega)) (by rw [List.length_set]; omega)
    refine ⟨l', ?_, by rw [e2, List.length_set], ?_, ?_⟩
    · simp only [List.range'_succ, List.foldlM_cons, h1, Res.ok_bind, e1, List.set_set]
    · intro t ht1 ht2
      by_cases h : t = i
      · subst h; rw [e4 t (Or.inl (by omega)), getD_set_self _ _ _ _ (by omega)]
      · exact e3 t (by omega) (by omega)
    · intro t ht
      rw [e4 t (by omega), getD_set_other _ _ _ _ _ (by omega)]

end RbV.Thm.GenSrcPwColumn
