import RbV.Model.Occ
import RbV.Model.OccTable
import RbV.Model.InvBWT
import RbV.Thm.GenSrcBwt
import RbV.Thm.GenSrcPrescan
import RbV.Thm.GenSrcOcc
import RbV.Thm.GenSrcLess
/-!
# C04 — BWT, less and Occ are exact (mirror models of `bwt.rs` refine the specification)

Specification (`RbV/Ref/BWT.lean`): `bwtRef`, `lessRef bwt c = #{x ∈ bwt | x < c}`,
`occRef bwt r c = #{c in bwt[0..=r]}`.  Mirror models (`RbV/Model/Occ.lean`) follow the Rust code:
`bwtModel`, `occNewLoop` (the loop of `Occ::new`), `occGet` (`Occ::get` with the k > 64 shortcut),
`lessModel` (count array + `utils::prescan`).  Statements only; lemma proofs are in the model file.
-/
namespace RbV.Thm.C04
open RbV RbV.OccM

/-- **`Occ::get` on the table built by `Occ::new` is exact**, for every sampling rate `k ≥ 1` (both sides of the
64 switch), every row and every symbol: forward count from the low checkpoint, early exit on equal checkpoints,
backward count from the high checkpoint. -/
theorem occ_get_exact (bwt : List Nat) (k r c : Nat) (hk : 0 < k) (hr : r < bwt.length) :
    occGet (occNewLoop bwt k c) bwt k r c = occRef bwt r c := by
  rw [occNewLoop_eq bwt k c hk]
  exact occ_get_eq bwt k r c hk hr

example : (List.range 6).map (fun r => occGet (occNewLoop [1, 3, 3, 1, 2, 0] 3 3) [1, 3, 3, 1, 2, 0] 3 r 3)
    = [0, 1, 2, 2, 2, 2] := by decide

/-- **role of the source-extracted threshold** (`Gen.Occ.hiCheckpointThreshold`, the literal of `if self.k > 64` in
`Occ::get`, regenerated from `bwt.rs` on every run): at sampling rates up to the threshold the model — like the code —
answers with the forward count from the low checkpoint alone; only above it the next checkpoint is looked at.
`occ_get_exact` above holds whatever the extracted value is, so a retuned threshold is followed silently. -/
theorem occ_get_forward_up_to_threshold (cp bwt : List Nat) (k r c : Nat) (hk : k ≤ Gen.Occ.hiCheckpointThreshold) :
    occGet cp bwt k r c = cnt bwt (r / k * k + 1) r c + cp.getD (r / k) 0 ∧ occBranch cp k r = "forward" := by
  have h : ¬ (k > Gen.Occ.hiCheckpointThreshold) := Nat.not_lt.mpr hk
  constructor
  · unfold occGet; simp only [h, if_false]
  · unfold occBranch; simp only [h, if_false]

/-- non-vacuity on the other side of the threshold (k = threshold + 1, text of length 2k, two checkpoints; the rows are
chosen relative to k so that the example survives a retuned threshold ≥ 3): backward count from the high checkpoint
(row k−1), early exit on equal checkpoints (absent symbol 3), forward count in the last block (row k+5) -/
example :
    let k := Gen.Occ.hiCheckpointThreshold + 1
    let bwt := List.replicate (k - 2) 1 ++ List.replicate (k + 2) 2
    occBranch (occNewLoop bwt k 2) k (k - 1) = "backward" ∧ occGet (occNewLoop bwt k 2) bwt k (k - 1) 2 = 2 ∧
    occBranch (occNewLoop bwt k 3) k (k - 1) = "early-exit" ∧ occGet (occNewLoop bwt k 3) bwt k (k - 1) 3 = 0 ∧
    occBranch (occNewLoop bwt k 2) k (k + 5) = "forward-last" ∧ occGet (occNewLoop bwt k 2) bwt k (k + 5) 2 = 8 := by
  decide +kernel

/-- the incremental loop of `Occ::new` (running counter, push when `i % k == 0`) produces the checkpoint
table "entry i = occRef bwt (i·k) c for every i with i·k < n" -/
theorem occ_new_loop_table (bwt : List Nat) (k c : Nat) (hk : 0 < k) :
    occNewLoop bwt k c = (List.range ((bwt.length + k - 1) / k)).map (fun i => occRef bwt (i * k) c) :=
  occNewLoop_eq bwt k c hk

example : occNewLoop [1, 3, 3, 1, 2, 0] 3 1 = [1, 2] := by decide

/-- **The real loop of `Occ::new`** (vector of counters, one column per symbol value, columns of the tracked
symbols `alpha` filled) **followed by `Occ::get`** is exact for every tracked symbol, every `k ≥ 1` and every row. -/
theorem occ_table_get_exact (bwt : List Nat) (k : Nat) (alpha : List Nat) (m a r : Nat)
    (hk : 0 < k) (hm : a ∈ alpha) (hnd : alpha.Nodup) (ha : a < m) (hr : r < bwt.length) :
    ((occTable bwt k alpha m)[a]?).map (fun cp => occGet cp bwt k r a) = some (occRef bwt r a) := by
  rw [occTable_col bwt k alpha m a hm hnd ha, Option.map_some, occNewLoop_eq bwt k a hk]
  exact congrArg some (occ_get_eq bwt k r a hk hr)

example : occTable [1, 3, 3, 1, 2, 0] 3 [0, 1, 2, 3] 4 = [[0, 0], [1, 2], [0, 0], [0, 2]] := by decide

/-- `Occ::get` against any checkpoint column that holds the right values (the statement of B.2) -/
theorem occ_get_eq_table (bwt : List Nat) (k r c : Nat) (hk : 0 < k) (hr : r < bwt.length) :
    occGet (occNew bwt k c) bwt k r c = occRef bwt r c :=
  occ_get_eq bwt k r c hk hr

/-- **`less()`**: the array of size `m` (= max symbol + 2) built by counting and `prescan` holds at every index
`c < m` the number of BWT symbols strictly smaller than `c`. -/
theorem less_exact (bwt : List Nat) (m c : Nat) (h : c < m) :
    (lessModel bwt m)[c]? = some (bwt.countP (fun x => decide (x < c))) :=
  less_eq bwt m c h

example : lessModel [1, 3, 3, 1, 2, 0] 5 = [0, 1, 3, 4, 6] := by decide

/-- **`bwt()`**: the branch `if p > 0 { text[p-1] } else { text[n-1] }` is the cyclic predecessor -/
theorem bwt_exact (t sa : List Nat) (h : ∀ p ∈ sa, p < t.length) :
    bwtModel t sa = sa.map (fun p => t.getD ((p + t.length - 1) % t.length) 0) :=
  bwtModel_eq t sa h

example : bwtModel [99, 97, 98, 99, 97, 36] [5, 4, 1, 2, 3, 0] = [97, 99, 99, 97, 98, 36] := by decide

/-- the column the driver compares with is the specification, row by row -/
theorem occCol_exact (bwt : List Nat) (c r : Nat) (h : r < bwt.length) :
    (occCol bwt c)[r]? = some ((bwt.take (r + 1)).count c) :=
  occCol_getElem? bwt c r h


/-- **LF-mapping lemma**: for a text whose last symbol is its unique smallest symbol, a sorted suffix permutation
`sa` (first entry n−1) and `bwt = bwtRef t sa`: `less[c] + Occ(c, r) − 1` with `c = bwt[r]` is the row of the
position that cyclically precedes `sa[r]`. -/
theorem lf_mapping (t sa : List Nat)
    (hperm : sa.Perm (List.range t.length))
    (hsorted : sa.Pairwise (fun i j => lexLt (t.drop i) (t.drop j)))
    (hhead : sa.head? = some (t.length - 1))
    (hpos : 0 < t.length)
    (hmin : ∀ p, p < t.length → t.getD (t.length - 1) 0 ≤ t.getD p 0)
    (huniq : ∀ p, p < t.length → t.getD p 0 = t.getD (t.length - 1) 0 → p = t.length - 1)
    (r : Nat) (hr : r < t.length) :
    lessRef (bwtRef t sa) ((bwtRef t sa).getD r 0) + occRef (bwtRef t sa) r ((bwtRef t sa).getD r 0) - 1 =
      sa.idxOf ((sa.getD r 0 + t.length - 1) % t.length) :=
  LFMap.lf_mapping t sa ⟨hperm, hsorted, hhead⟩ ⟨hpos, hmin, huniq⟩ r hr

/-- **`invert_bwt(bwt(t)) = t`**: the mirror model of `bwtfind` + `invert_bwt` (less array of size `m`, slots
`less[c]++`, `r = bwtfind[r]; push bwt[r]`) reproduces every text whose last symbol is its unique smallest symbol
from the BWT of its sorted suffix permutation. -/
theorem invert_bwt_roundtrip (t sa : List Nat) (m : Nat)
    (hperm : sa.Perm (List.range t.length))
    (hsorted : sa.Pairwise (fun i j => lexLt (t.drop i) (t.drop j)))
    (hhead : sa.head? = some (t.length - 1))
    (hpos : 0 < t.length)
    (hmin : ∀ p, p < t.length → t.getD (t.length - 1) 0 ≤ t.getD p 0)
    (huniq : ∀ p, p < t.length → t.getD p 0 = t.getD (t.length - 1) 0 → p = t.length - 1)
    (hm : ∀ x ∈ t, x < m) :
    InvBWT.invertModel (bwtRef t sa) m = t :=
  InvBWT.invert_bwt_correct t sa ⟨hperm, hsorted, hhead⟩ ⟨hpos, hmin, huniq⟩ m hm

example : InvBWT.invertModel (bwtRef [99, 97, 98, 99, 97, 36] [5, 4, 1, 2, 3, 0]) 101 = [99, 97, 98, 99, 97, 36] := by
  decide

example : InvBWT.bwtfindModel [97, 99, 99, 97, 98, 36] 101 = [5, 0, 3, 4, 1, 2] := by decide

/-! ## Function bodies translated from the source text (docs/notes/GEN.md, "Translated function bodies")

`RbV/Gen/SrcBwt.lean` is regenerated from `src/data_structures/bwt.rs` by `tools/rs2lean.py` on every `./check C04`; the
theorems below are re-proved against the regenerated definition (proofs: `RbV/Thm/GenSrcBwt.lean`). `Rs.Res.ok v` = the
translated function returns `v` without panicking (assertion, index out of bounds, checked `usize` subtraction). -/

/-- **`pub fn bwt`, as written, is the mirror model `bwtModel`** for a suffix array of the text's length whose entries are
text positions (the hypothesis of `bwt_exact`; with any other input the Rust code panics or the property does not apply) -/
theorem bwt_source_eq_model (t sa : List Nat) (hlen : t.length = sa.length) (h : ∀ p ∈ sa, p < t.length) :
    Gen.SrcBwt.bwt t sa = Rs.Res.ok (bwtModel t sa) :=
  GenSrcBwt.bwt_eq_model t sa hlen h

/-- generated code = specification: the translated `bwt()` returns, row by row, the symbol that cyclically precedes the
suffix-array entry -/
theorem bwt_source_exact (t sa : List Nat) (hlen : t.length = sa.length) (h : ∀ p ∈ sa, p < t.length) :
    Gen.SrcBwt.bwt t sa = Rs.Res.ok (bwtRef t sa) := by
  rw [GenSrcBwt.bwt_eq_model t sa hlen h, bwtModel_eq t sa h]

/-- a suffix array of another length is refused: the `assert_eq!` of `bwt()` fires -/
theorem bwt_source_length_mismatch_panics (t sa : List Nat) (hlen : t.length ≠ sa.length) :
    Gen.SrcBwt.bwt t sa = Rs.Res.panic :=
  GenSrcBwt.bwt_length_mismatch_panics t sa hlen

example : Gen.SrcBwt.bwt [99, 97, 98, 99, 97, 36] [5, 4, 1, 2, 3, 0] = Rs.Res.ok [97, 99, 99, 97, 98, 36] := by decide

/-- **`utils::prescan`, as written (in-place rewrite through `iter_mut()`), instantiated with `+`, is the model's
`prescanGo`** — the second half of `less()` -/
theorem prescan_source_eq_model (a : List Nat) (neutral : Nat) :
    Gen.SrcPrescan.prescan (· + ·) a neutral = Rs.Res.ok (prescanGo neutral a) :=
  GenSrcPrescan.prescan_eq_model a neutral

/-- generated code = specification: entry `i` of the slice rewritten by the translated `prescan` is the neutral element
plus the sum of the entries before `i` -/
theorem prescan_source_exact (a : List Nat) (neutral i : Nat) (h : i < a.length) :
    ∃ r, Gen.SrcPrescan.prescan (· + ·) a neutral = Rs.Res.ok r ∧ r[i]? = some (neutral + (a.take i).sum) :=
  ⟨_, GenSrcPrescan.prescan_eq_model a neutral, prescanGo_getElem? neutral a i h⟩

/-- … and applied to the count array of a BWT it yields the `less` array: entry `c` = number of smaller symbols. (The
first half of `less()` — `alphabet.max_symbol()`, the counting loop, the closure `|a, b| a + b` — is outside the translated
subset and stays tied by the mirror model `countArr` and the correspondence run.) -/
theorem less_source_prescan_exact (bwt : List Nat) (m c : Nat) (h : c < m) :
    ∃ r, Gen.SrcPrescan.prescan (· + ·) (countArr bwt m) 0 = Rs.Res.ok r ∧
      r[c]? = some (bwt.countP (fun x => decide (x < c))) :=
  ⟨_, GenSrcPrescan.prescan_eq_model _ 0, less_eq bwt m c h⟩

example : Gen.SrcPrescan.prescan (· + ·) [1, 0, 2, 1] 0 = Rs.Res.ok [0, 1, 1, 3] := by decide

/-! ### `Occ::new`, `Occ::get` translated from the source text (`RbV/Gen/SrcOcc.lean`, proofs `RbV/Thm/GenSrcOcc.lean`)

The alphabet is an opaque value `alphabet : Alph`; what `Occ::new` asks of it are the three abstract functions
`maxSymbol` (`alphabet.max_symbol()`), `symbols` (`alphabet.symbols.iter().collect::<Vec<usize>>()`), `isWordDollar`
(`alphabet.is_word(b"$")`).  `bytecount::count` (external crate) is read as `List.count`. -/

section occ_source
variable {Alph : Type} (maxSymbol : Alph → Option Nat) (symbols : Alph → List Nat) (isWordDollar : Alph → Bool)

/-- **`Occ::new`, as written, is the mirror model `occTable`** (real state: vector of counters, one column per symbol
value below `max_symbol + 1`, the tracked columns pushed at rows `i % k == 0`), returned with `k`.  Hypotheses = what
keeps the Rust code from panicking: non-empty alphabet, `k ≥ 1`, BWT and tracked symbols ≤ the maximal symbol, `n < 2^64`. -/
theorem occ_new_source_eq_model (bwt : List Nat) (k : Nat) (alphabet : Alph) (ms : Nat)
    (hms : maxSymbol alphabet = some ms) (hk : 0 < k) (hn : bwt.length < 2 ^ 64) (hms' : ms + 1 < 2 ^ 64)
    (hsym : ∀ x ∈ bwt, x ≤ ms) (hal : ∀ a ∈ symbols alphabet, a ≤ ms) :
    Gen.SrcOcc.new maxSymbol symbols isWordDollar bwt k alphabet
      = Rs.Res.ok (occTable bwt k (GenSrcOcc.alphaOf (symbols alphabet) (isWordDollar alphabet) (ms + 1)) (ms + 1), k) :=
  GenSrcOcc.new_eq_model maxSymbol symbols isWordDollar bwt k alphabet ms hms hk hn hms' hsym hal

/-- generated code = specification: the column of every tracked symbol in the table returned by the translated
`Occ::new` is the checkpoint table "entry i = occRef bwt (i·k) a for every i with i·k < n" -/
theorem occ_new_source_exact (bwt : List Nat) (k : Nat) (alphabet : Alph) (ms : Nat)
    (hms : maxSymbol alphabet = some ms) (hk : 0 < k) (hn : bwt.length < 2 ^ 64) (hms' : ms + 1 < 2 ^ 64)
    (hsym : ∀ x ∈ bwt, x ≤ ms) (hal : ∀ a ∈ symbols alphabet, a ≤ ms)
    (hnd : (symbols alphabet).Nodup) (hw : isWordDollar alphabet = false → 36 ∉ symbols alphabet)
    (a : Nat) (ha : a ∈ GenSrcOcc.alphaOf (symbols alphabet) (isWordDollar alphabet) (ms + 1)) (ham : a ≤ ms) :
    ∃ tbl, Gen.SrcOcc.new maxSymbol symbols isWordDollar bwt k alphabet = Rs.Res.ok (tbl, k) ∧
      tbl[a]? = some ((List.range ((bwt.length + k - 1) / k)).map (fun i => occRef bwt (i * k) a)) := by
  refine ⟨_, GenSrcOcc.new_eq_model maxSymbol symbols isWordDollar bwt k alphabet ms hms hk hn hms' hsym hal, ?_⟩
  rw [occTable_col bwt k _ (ms + 1) a ha (GenSrcOcc.alphaOf_nodup _ _ _ hnd hw) (Nat.lt_succ_of_le ham),
    occNewLoop_eq bwt k a hk]
  rfl

-- alphabet {0,1,2,3} without `$`: the table of the model example above; alphabet "$ACGT" of the repo's test, k = 3
example : Gen.SrcOcc.new (fun _ => some 3) (fun _ => [0, 1, 2, 3]) (fun _ => false) [1, 3, 3, 1, 2, 0] 3 ()
    = Rs.Res.ok ([[0, 0], [1, 2], [0, 0], [0, 2]], 3) := by decide

/-- **`Occ::get`, as written, on a table whose column `a` is the checkpoint table, is the specification**: for every
`k ≥ 1` (both sides of the look-ahead switch) and every row `r < n` the translated function — with `bytecount::count`
read as `List.count` — passes every checked operation (`occ[a]`, the checkpoint reads, `r / k`, the two inclusive
slices, `hi_occ - count`, `count + lo_occ`) and returns the number of `a` in `bwt[0..=r]`.  The proof walks all paths
of the generated definition with the facts the true table provides and does not depend on the branch structure, so a
property-preserving rewrite of `Occ::get` (other threshold, other rule for the checkpoint to count from) is re-proved. -/
theorem occ_get_source_exact_on_table (occ : List (List Nat)) (k : Nat) (bwt : List Nat) (r a : Nat)
    (hcp : occ[a]? = some (occNew bwt k a)) (hk : 0 < k) (hk32 : k < 2 ^ 32) (hr : r < bwt.length)
    (hn : bwt.length < 2 ^ 64) :
    Gen.SrcOcc.get (fun s c => s.count c) occ k bwt r a = Rs.Res.ok (occRef bwt r a) :=
  GenSrcOcc.get_exact_of_table occ k bwt r a hcp hk hk32 hr hn

/-- **`Occ::get`, as written, agrees with the mirror model `occGet`** (the function the driver runs and `occ_get_exact`
is about) on the checkpoint column built by the loop of `Occ::new`.  (The stronger, shape-dependent statement "equal to
`occGet` on *every* column on which the checked operations cannot panic" is `GenSrcOccModel.get_eq_model`,
`RbV/Thm/GenSrcOccModel.lean`, built by `tools/gen_tables.py` as a soft obligation: it is false for a rewrite that
changes which checkpoint is used although the property still holds.) -/
theorem occ_get_source_eq_model (occ : List (List Nat)) (k : Nat) (bwt : List Nat) (r a : Nat)
    (hcp : occ[a]? = some (occNewLoop bwt k a)) (hk : 0 < k) (hk32 : k < 2 ^ 32) (hr : r < bwt.length)
    (hn : bwt.length < 2 ^ 64) :
    Gen.SrcOcc.get (fun s c => s.count c) occ k bwt r a = Rs.Res.ok (occGet (occNewLoop bwt k a) bwt k r a) := by
  rw [occ_get_exact bwt k r a hk hr]
  rw [occNewLoop_eq bwt k a hk] at hcp
  exact GenSrcOcc.get_exact_of_table occ k bwt r a hcp hk hk32 hr hn

/-- **generated code = specification, end to end**: for every `k ≥ 1`, every row `r < n` and every tracked symbol, the
*translated* `Occ::get` on the table returned by the *translated* `Occ::new` returns `occRef bwt r a` = the number of
`a` in `bwt[0..=r]` (no panic, no hypothesis on the table left) -/
theorem occ_get_source_exact (bwt : List Nat) (k : Nat) (alphabet : Alph) (ms : Nat)
    (hms : maxSymbol alphabet = some ms) (hk : 0 < k) (hk32 : k < 2 ^ 32) (hn : bwt.length < 2 ^ 64) (hms' : ms + 1 < 2 ^ 64)
    (hsym : ∀ x ∈ bwt, x ≤ ms) (hal : ∀ a ∈ symbols alphabet, a ≤ ms)
    (hnd : (symbols alphabet).Nodup) (hw : isWordDollar alphabet = false → 36 ∉ symbols alphabet)
    (a r : Nat) (ha : a ∈ GenSrcOcc.alphaOf (symbols alphabet) (isWordDollar alphabet) (ms + 1)) (hr : r < bwt.length) :
    ∃ tbl k', Gen.SrcOcc.new maxSymbol symbols isWordDollar bwt k alphabet = Rs.Res.ok (tbl, k') ∧
      Gen.SrcOcc.get (fun s c => s.count c) tbl k' bwt r a = Rs.Res.ok (occRef bwt r a) :=
  GenSrcOcc.get_new_exact maxSymbol symbols isWordDollar bwt k alphabet ms hms hk hk32 hn hms' hsym hal hnd hw a r ha hr

end occ_source

-- `Occ::get` on the table of `Occ::new`, k = 3, symbol 3: the column 0,1,2,2,2,2 of the model example above
example : (List.range 6).map (fun r => Gen.SrcOcc.get (fun s c => s.count c) [[0, 0], [1, 2], [0, 0], [0, 2]] 3
    [1, 3, 3, 1, 2, 0] r 3) = [0, 1, 2, 2, 2, 2].map Rs.Res.ok := by decide
-- sampling rate 65 (above the pinned look-ahead threshold), text of length 130, two checkpoints: backward count from the high
-- checkpoint (row 64), early exit on equal checkpoints (absent symbol 3), forward counts (rows 70 and 10); the values are
-- the specification's, so the example survives a retuned threshold
example :
    let bwt := List.replicate 63 1 ++ List.replicate 67 2
    let tbl := occTable bwt 65 [1, 2, 3] 4
    Gen.SrcOcc.get (fun s c => s.count c) tbl 65 bwt 64 2 = Rs.Res.ok 2 ∧
    Gen.SrcOcc.get (fun s c => s.count c) tbl 65 bwt 64 3 = Rs.Res.ok 0 ∧
    Gen.SrcOcc.get (fun s c => s.count c) tbl 65 bwt 70 2 = Rs.Res.ok 8 ∧
    Gen.SrcOcc.get (fun s c => s.count c) tbl 65 bwt 10 1 = Rs.Res.ok 11 := by
  decide +kernel
-- a symbol without a column / a row outside the BWT is refused by the Rust code: the translation panics
example : Gen.SrcOcc.get (fun s c => s.count c) [[0, 0], [1, 2], [0, 0], [0, 2]] 3 [1, 3, 3, 1, 2, 0] 2 4 = Rs.Res.panic := by
  decide
example : Gen.SrcOcc.get (fun s c => s.count c) [[0, 0], [1, 2], [0, 0], [0, 2]] 3 [1, 3, 3, 1, 2, 0] 6 3 = Rs.Res.panic := by
  decide

/-! ### `less()` translated from the source text (`RbV/Gen/SrcLess.lean`, proofs `RbV/Thm/GenSrcLess.lean`) -/

/-- **`pub fn less`, as written, is the mirror model `lessModel`** with table size `max_symbol + 2`: the counting loop
`less[c as usize] += 1` followed by the translated `utils::prescan` (the closure `|a, b| a + b` read as `+`).
Hypotheses = what keeps the Rust code from panicking: non-empty alphabet (`max_symbol()` is `Some`), every BWT symbol
below the table size, `n < 2^64`. -/
theorem less_source_eq_model {Alph : Type} (maxSymbol : Alph → Option Nat) (bwt : List Nat) (alphabet : Alph) (ms : Nat)
    (hms : maxSymbol alphabet = some ms) (hms' : ms + 2 < 2 ^ 64) (hn : bwt.length < 2 ^ 64)
    (hsym : ∀ x ∈ bwt, x < ms + 2) :
    Gen.SrcLess.less maxSymbol bwt alphabet = Rs.Res.ok (lessModel bwt (ms + 2)) :=
  GenSrcLess.less_eq_model maxSymbol bwt alphabet ms hms hms' hn hsym

/-- generated code = specification: entry `c` of the array returned by the translated `less()` is the number of BWT
symbols strictly smaller than `c`, for every `c` up to `max_symbol + 1` -/
theorem less_source_exact {Alph : Type} (maxSymbol : Alph → Option Nat) (bwt : List Nat) (alphabet : Alph) (ms c : Nat)
    (hms : maxSymbol alphabet = some ms) (hms' : ms + 2 < 2 ^ 64) (hn : bwt.length < 2 ^ 64)
    (hsym : ∀ x ∈ bwt, x < ms + 2) (hc : c < ms + 2) :
    ∃ r, Gen.SrcLess.less maxSymbol bwt alphabet = Rs.Res.ok r ∧ r[c]? = some (bwt.countP (fun x => decide (x < c))) :=
  ⟨_, GenSrcLess.less_eq_model maxSymbol bwt alphabet ms hms hms' hn hsym, less_eq bwt (ms + 2) c hc⟩

example : Gen.SrcLess.less (fun _ => some 3) [1, 3, 3, 1, 2, 0] () = Rs.Res.ok [0, 1, 3, 4, 6] := by decide
-- empty alphabet: `.expect("Expecting non-empty alphabet.")` panics; a symbol beyond the table: index out of bounds
example : Gen.SrcLess.less (fun _ => none) [1, 3] () = Rs.Res.panic := by decide
example : Gen.SrcLess.less (fun _ => some 1) [1, 3] () = Rs.Res.panic := by decide

/-! ### `bwtfind`, `invert_bwt` translated from the source text (same generated file; `less(..)`, `bwtfind(..)` are calls
of the translated functions, `Alphabet::new(bwt)` is the abstract `alphNew`) -/

/-- **`pub fn bwtfind`, as written, is the mirror model `bwtfindModel`**: the slots `bwtfind[less[c]] = r; less[c] += 1`
over the array returned by the translated `less()`; every write is in bounds because `less[c]` + the number of earlier
`c`s is a row of the BWT -/
theorem bwtfind_source_eq_model {Alph : Type} (maxSymbol : Alph → Option Nat) (bwt : List Nat) (alphabet : Alph) (ms : Nat)
    (hms : maxSymbol alphabet = some ms) (hms' : ms + 2 < 2 ^ 64) (hn : bwt.length < 2 ^ 64)
    (hsym : ∀ x ∈ bwt, x < ms + 2) :
    Gen.SrcLess.bwtfind maxSymbol bwt alphabet = Rs.Res.ok (InvBWT.bwtfindModel bwt (ms + 2)) :=
  GenSrcLess.bwtfind_eq_model maxSymbol bwt alphabet ms hms hms' hn hsym

/-- **`pub fn invert_bwt`, as written, is the mirror model `invertModel`** for a non-empty BWT (on the empty one
`bwtfind[0]` panics) whose symbols lie below `max_symbol + 2` of the alphabet `Alphabet::new(bwt)` -/
theorem invert_bwt_source_eq_model {Alph : Type} (maxSymbol : Alph → Option Nat) (alphNew : List Nat → Alph)
    (bwt : List Nat) (ms : Nat) (hms : maxSymbol (alphNew bwt) = some ms) (hms' : ms + 2 < 2 ^ 64)
    (hpos : 0 < bwt.length) (hn : bwt.length < 2 ^ 64) (hsym : ∀ x ∈ bwt, x < ms + 2) :
    Gen.SrcLess.invert_bwt maxSymbol alphNew bwt = Rs.Res.ok (InvBWT.invertModel bwt (ms + 2)) :=
  GenSrcLess.invert_bwt_eq_model maxSymbol alphNew bwt ms hms hms' hpos hn hsym

/-- **generated code = specification: `invert_bwt(bwt(t)) = t`** for the translated `invert_bwt` (which calls the
translated `bwtfind`, `less`, `prescan`): every text whose last symbol is its unique smallest symbol is reproduced from
the BWT of its sorted suffix permutation, provided `Alphabet::new` / `max_symbol` give a bound `ms` with every text
symbol `≤ ms + 1` (for the real alphabet: the maximum) -/
theorem invert_bwt_source_roundtrip {Alph : Type} (maxSymbol : Alph → Option Nat) (alphNew : List Nat → Alph)
    (t sa : List Nat) (ms : Nat)
    (hperm : sa.Perm (List.range t.length))
    (hsorted : sa.Pairwise (fun i j => lexLt (t.drop i) (t.drop j)))
    (hhead : sa.head? = some (t.length - 1))
    (hpos : 0 < t.length) (hlen : t.length < 2 ^ 64)
    (hmin : ∀ p, p < t.length → t.getD (t.length - 1) 0 ≤ t.getD p 0)
    (huniq : ∀ p, p < t.length → t.getD p 0 = t.getD (t.length - 1) 0 → p = t.length - 1)
    (hms : maxSymbol (alphNew (bwtRef t sa)) = some ms) (hms' : ms + 2 < 2 ^ 64)
    (hm : ∀ x ∈ t, x < ms + 2) :
    Gen.SrcLess.invert_bwt maxSymbol alphNew (bwtRef t sa) = Rs.Res.ok t := by
  have hl : (bwtRef t sa).length = t.length := by
    unfold bwtRef; rw [List.length_map]; simpa using hperm.length_eq
  have hsym : ∀ x ∈ bwtRef t sa, x < ms + 2 := by
    intro x hx
    unfold bwtRef at hx
    obtain ⟨p, _, rfl⟩ := List.mem_map.mp hx
    have hlt : (p + t.length - 1) % t.length < t.length := Nat.mod_lt _ hpos
    rw [List.getD_eq_getElem?_getD, List.getElem?_eq_getElem hlt]
    exact hm _ (List.getElem_mem hlt)
  rw [GenSrcLess.invert_bwt_eq_model maxSymbol alphNew (bwtRef t sa) ms hms hms' (by rw [hl]; exact hpos)
    (by rw [hl]; exact hlen) hsym]
  exact congrArg Rs.Res.ok (invert_bwt_roundtrip t sa (ms + 2) hperm hsorted hhead hpos hmin huniq hm)

example : Gen.SrcLess.bwtfind (fun _ => some 99) [97, 99, 99, 97, 98, 36] () = Rs.Res.ok [5, 0, 3, 4, 1, 2] := by decide
example : Gen.SrcLess.invert_bwt (fun _ => some 99) (fun _ => ()) [97, 99, 99, 97, 98, 36]
    = Rs.Res.ok [99, 97, 98, 99, 97, 36] := by decide
-- the empty BWT: `bwtfind[0]` is out of bounds, the Rust code panics
example : Gen.SrcLess.invert_bwt (fun _ => some 99) (fun _ => ()) [] = Rs.Res.panic := by decide

end RbV.Thm.C04
