import RbV.Gen.SrcHamming
import RbV.Ref.EditDist
/-!
# The translated text of `alignment::distance::hamming` equals the reference `EditDist.hamming`

`RbV/Gen/SrcHamming.lean` is regenerated from `src/alignment/distance.rs` on every `./check C09`.  The source counts the
differing positions of `alpha.iter().zip(beta)` from the left in a `u64` after `assert_eq!(alpha.len(), beta.len())`; the
reference is the recursion that is `none` for strings of different length.  (`levenshtein` of the same file only calls
the external crate `editdistancek`: there is no body to translate.)
-/
set_option linter.unusedSimpArgs false

namespace RbV.Thm.GenSrcHamming
open RbV RbV.Rs RbV.Gen.SrcHamming

/-- the translated `for (a, b) in alpha.iter().zip(beta)` loop adds the reference's count to the running `dist` -/
theorem for_eq : ∀ (a b : List Nat) (dist : Nat), a.length = b.length → dist + a.length < 2 ^ 64 →
    ∃ d, EditDist.hamming a b = some d ∧ d ≤ a.length ∧
      (List.zip a b).foldlM hamming_for1 dist = Res.ok (dist + d) := by
  intro a
  induction a with
  | nil =>
    intro b dist hl _
    cases b with
    | nil => exact ⟨0, by simp [EditDist.hamming], by simp, by simp⟩
    | cons y b => simp at hl
  | cons x a ih =>
    intro b dist hl h64
    cases b with
    | nil => simp at hl
    | cons y b =>
      simp only [List.length_cons] at hl h64
      by_cases hxy : x = y
      · obtain ⟨d, h1, h2, h3⟩ := ih b dist (by omega) (by omega)
        refine ⟨d, by simp [EditDist.hamming, h1, hxy], by simp; omega, ?_⟩
        simp [hamming_for1, hxy, h3]
      · obtain ⟨d, h1, h2, h3⟩ := ih b (dist + 1) (by omega) (by omega)
        have e1 : Rs.add 64 dist 1 = Res.ok (dist + 1) := Rs.add_ok (by omega)
        have e1' : Rs.add 64 1 dist = Res.ok (dist + 1) := by rw [Nat.add_comm]; exact Rs.add_ok (by omega)
        have hyx : ¬ y = x := fun h => hxy h.symm
        refine ⟨d + 1, by simp [EditDist.hamming, h1, hxy], by simp; omega, ?_⟩
        simp [hamming_for1, hxy, hyx, e1, e1', h3]
        omega

/-- **`distance::hamming` as written in the source = the reference**: for strings of equal length (below 2^64) it returns,
without panic (the `u64` counter cannot overflow), the reference's Hamming distance; for strings of different length the
`assert_eq!` panics — exactly where the reference is undefined. -/
theorem hamming_eq_model (a b : List Nat) (h64 : a.length < 2 ^ 64) :
    hamming a b = match EditDist.hamming a b with
      | some d => Res.ok d
      | none => Res.panic := by
  by_cases hl : a.length = b.length
  · obtain ⟨d, h1, _, h3⟩ := for_eq a b 0 hl (by omega)
    have hl' : b.length = a.length := hl.symm
    have e0 : Rs.assert (a.length == b.length) = Res.ok () := Rs.assert_ok (by simp [hl])
    have e0' : Rs.assert (b.length == a.length) = Res.ok () := Rs.assert_ok (by simp [hl])
    simp [hamming, e0, e0', h1, h3]
  · have hn : EditDist.hamming a b = none := by
      cases h : EditDist.hamming a b with
      | none => rfl
      | some d =>
        have : (EditDist.hamming a b).isSome = true := by simp [h]
        have hiff : ∀ (a b : List Nat), (EditDist.hamming a b).isSome = true → a.length = b.length := by
          intro a
          induction a with
          | nil => intro b; cases b <;> simp [EditDist.hamming]
          | cons x a ih =>
            intro b
            cases b with
            | nil => simp [EditDist.hamming]
            | cons y b =>
              simp only [EditDist.hamming, Option.isSome_map, List.length_cons]
              intro h; have := ih b h; omega
        exact absurd (hiff a b this) hl
    have hl' : ¬ b.length = a.length := fun h => hl h.symm
    simp [hamming, Rs.assert, hl, hl', hn]

end RbV.Thm.GenSrcHamming
