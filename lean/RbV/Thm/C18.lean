import RbV.Spec.Containers
import RbV.Model.BitEnc
/-!
# C18 — bit-packed containers behave like plain vectors
(being filled in)
-/
namespace RbV.Thm.C18
open RbV.Spec.BitEnc

/-- the specified block count is the least number of blocks that hold `len` values -/
theorem specBlocks_least (w len : Nat) (hw : 1 ≤ w ∧ w ≤ 8) :
    len ≤ specBlocks w len * perBlock w ∧ (specBlocks w len - 1) * perBlock w < len ∨ len = 0 := by
  unfold specBlocks perBlock
  have hp : 0 < 32 / w := Nat.div_pos (by omega) (by omega)
  generalize 32 / w = p at *
  by_cases h0 : len = 0
  · right; exact h0
  · left
    have h1 := Nat.div_add_mod (len + p - 1) p
    have h2 := Nat.mod_lt (len + p - 1) hp
    have h3 : p * ((len + p - 1) / p) = (len + p - 1) / p * p := Nat.mul_comm _ _
    constructor
    · omega
    · have hq : 1 ≤ (len + p - 1) / p := Nat.div_pos (by omega) hp
      have : ((len + p - 1) / p - 1) * p = (len + p - 1) / p * p - p := by
        rw [Nat.sub_mul, Nat.one_mul]
      omega

end RbV.Thm.C18
