import RbV.Spec.Containers
import RbV.Model.BitEnc
import RbV.Model.SmallInts
import RbV.Model.Fenwick
import RbV.Lemmas.BitEnc
import RbV.Lemmas.SmallInts
import RbV.Lemmas.Fenwick
import RbV.Thm.GenSrcFenwick
import RbV.Thm.GenSrcBitEnc
import RbV.Thm.GenSrcBitEncOps
import RbV.Thm.GenSrcSmallInts
/-!
# C18 — bit-packed containers behave exactly like plain vectors

Statements only; proofs are in `RbV/Lemmas/{BitEncBits,BitEnc,SmallInts,Fenwick}.lean`.

The oracle of the correspondence run is the *specification* (`RbV.Spec.*`: a plain list).  The theorems below say
that the mirror models in `RbV/Model/` — which follow `bitenc.rs` (with the `push_values` correction of /repo
commit 48b7982), `smallints.rs` and `bit_tree.rs` statement by statement — are observationally that plain list,
for every width, every operation and **every operation history** (no bound on the length or the values).
-/
namespace RbV.Thm.C18
open RbV.Spec

/-! ## BitEnc -/
section bitenc
open RbV.Spec.BitEnc RbV.Model.BitEnc RbV.Lemmas.BitEnc

/-- the specified block count is the least number of blocks that hold `len` values -/
theorem specBlocks_least (w len : Nat) (hw : 1 ≤ w ∧ w ≤ 8) :
    len ≤ specBlocks w len * perBlock w ∧ (specBlocks w len - 1) * perBlock w < len ∨ len = 0 := by
  unfold specBlocks perBlock
  have hp : 0 < 32 / w := Nat.div_pos (by omega) (by omega)
  generalize 32 / w = p at *
  by_cases h0 : len = 0
  · right; exact h0
  · left
    have h1 := Nat.div_add_mod (len + p - 1) p
    have h2 := Nat.mod_lt (len + p - 1) hp
    have h3 : p * ((len + p - 1) / p) = (len + p - 1) / p * p := Nat.mul_comm _ _
    constructor
    · omega
    · have hq : 1 ≤ (len + p - 1) / p := Nat.div_pos (by omega) hp
      have : ((len + p - 1) / p - 1) * p = (len + p - 1) / p * p - p := by
        rw [Nat.sub_mul, Nat.one_mul]
      omega

/-- **one step**: if the model state `s` represents the vector `l` (`Abs`: same length, every in-range read
returns the element, block count = ⌈len / ⌊32/w⌋⌉), then after *any* operation — `push`, `push_values`
(fill-up / whole blocks / partial block), `set` (even out of range), `get`, `iter`, `clear` — the new model state
represents `specStep l op`.  This is `abs (step s op) = specStep (abs s) op`. -/
theorem bitenc_step_commutes (w : Nat) (hw : 1 ≤ w ∧ w ≤ 8) (s : St) (l : List Nat) (op : Op)
    (h : Abs w s l) : Abs w (step w s op) (specStep w l op) :=
  abs_step w s l op hw h

/-- the abstraction is a function of the state: the represented vector is what iteration yields -/
theorem bitenc_abs_is_iter (w : Nat) (hw : 1 ≤ w ∧ w ≤ 8) (s : St) (l : List Nat) (h : Abs w s l) :
    toList w s = l :=
  toList_of_abs w s l hw h

/-- **every history** from `BitEnc::new(w)`: iteration yields the spec vector, the length agrees, every read
(in range or not) agrees — out-of-range reads are `none` — and the block count is ⌈len / ⌊32/w⌋⌉ -/
theorem bitenc_refines (w : Nat) (hw : 1 ≤ w ∧ w ≤ 8) (ops : List Op) :
    toList w (ops.foldl (step w) new) = ops.foldl (specStep w) [] ∧
    (ops.foldl (step w) new).len = (ops.foldl (specStep w) []).length ∧
    (∀ i, get w (ops.foldl (step w) new) i = (ops.foldl (specStep w) [])[i]?) ∧
    nrBlocks (ops.foldl (step w) new)
      = ((ops.foldl (step w) new).len + 32 / w - 1) / (32 / w) := by
  have h := abs_run w hw ops new [] (abs_new w hw)
  refine ⟨toList_of_abs w _ _ hw h, h.1.1, fun i => get_of_abs w _ _ i hw h, ?_⟩
  have := h.2
  simpa [specBlocks, perBlock, nrBlocks] using this

/-- every block of the model stays a 32-bit word in every history (the `u32` storage of the Rust code is modelled
with explicit `% 2^32`; nothing ever needs a 33rd bit) -/
theorem bitenc_blocks_u32 (w : Nat) (hw : 1 ≤ w ∧ w ≤ 8) (ops : List Op) :
    ∀ x ∈ (ops.foldl (step w) new).storage, x < 2 ^ 32 :=
  wf_run w hw ops new (by intro x hx; simp [new] at hx)

/-- the spec vector holds width-masked values only -/
theorem bitenc_spec_masked (w : Nat) (ops : List Op) :
    ∀ x ∈ ops.foldl (specStep w) [], x < 2 ^ w := by
  have hpos : 0 < 2 ^ w := Nat.two_pow_pos w
  suffices H : ∀ (l : List Nat), (∀ x ∈ l, x < 2 ^ w) → ∀ x ∈ ops.foldl (specStep w) l, x < 2 ^ w from
    H [] (by simp)
  induction ops with
  | nil => intro l hl; exact hl
  | cons op ops ih =>
    intro l hl
    apply ih
    cases op with
    | push v =>
      intro x hx
      simp only [specStep, List.mem_append, List.mem_singleton] at hx
      rcases hx with hx | rfl
      · exact hl x hx
      · exact Nat.mod_lt _ hpos
    | pushValues n v =>
      intro x hx
      simp only [specStep, List.mem_append, List.mem_replicate] at hx
      rcases hx with hx | ⟨_, rfl⟩
      · exact hl x hx
      · exact Nat.mod_lt _ hpos
    | set i v =>
      intro x hx
      simp only [specStep] at hx
      rcases List.mem_or_eq_of_mem_set hx with hx | rfl
      · exact hl x hx
      · exact Nat.mod_lt _ hpos
    | get i => exact hl
    | iter => exact hl
    | clear => intro x hx; simp [specStep] at hx

-- non-vacuity: width 3 (10 values per block, 2 unused bits), a history that fills a block with `push_values`,
-- overruns it by one, writes an unmasked value and reads beyond the end
example : toList 3 ([Op.pushValues 9 1, .pushValues 2 13, .push 255, .set 0 8, .pushValues 12 6].foldl (step 3) new)
    = [0, 1, 1, 1, 1, 1, 1, 1, 1, 5, 5, 7, 6, 6, 6, 6, 6, 6, 6, 6, 6, 6, 6, 6] := by decide
example : nrBlocks ([Op.pushValues 9 1, .pushValues 2 13].foldl (step 3) new) = 2 := by decide
example : get 3 ([Op.pushValues 9 1, .pushValues 2 13].foldl (step 3) new) 11 = none := by decide

end bitenc

/-! ## SmallInts -/
section smallints
open RbV.Spec.SmallInts RbV.Model.SmallInts RbV.Lemmas.SmallInts

/-- every history from `SmallInts::new()` (any small range `[lo, hi]`, `hi = S::max_value()`): same length, every
read agrees with the plain `List Int` (reads beyond the end are `none`), iteration / `decompress` yield it -/
theorem smallints_refines (lo hi : Int) (ops : List Op) :
    (ops.foldl (step lo hi) new).small.length = (ops.foldl specStep []).length ∧
    (∀ i, get hi (ops.foldl (step lo hi) new) i = (ops.foldl specStep [])[i]?) ∧
    toList hi (ops.foldl (step lo hi) new) = ops.foldl specStep [] := by
  have h := run_from_new lo hi ops
  exact ⟨h.1, h.2, toList_of_abs hi _ _ h⟩

/-- … and from `SmallInts::from_elem(v, n)` (whose assertion guarantees `v < S::max_value()`) -/
theorem smallints_refines_from_elem (lo hi v : Int) (n : Nat) (hv : v < hi) (ops : List Op) :
    (ops.foldl (step lo hi) (fromElem v n)).small.length = (ops.foldl specStep (specFromElem v n)).length ∧
    (∀ i, get hi (ops.foldl (step lo hi) (fromElem v n)) i = (ops.foldl specStep (specFromElem v n))[i]?) ∧
    toList hi (ops.foldl (step lo hi) (fromElem v n)) = ops.foldl specStep (specFromElem v n) := by
  have h := run_from_elem lo hi v n hv ops
  exact ⟨h.1, h.2, toList_of_abs hi _ _ h⟩

-- non-vacuity: i8 range, values below / at / above the maximum, negative, overwritten big → small → big
example : toList 127 ([Op.push 126, .push 127, .push 128, .push (-129), .set 1 5, .set 0 1000, .set 0 (-7), .set 2 127].foldl
    (step (-128) 127) new) = [-7, 5, 127, -129] := by decide

end smallints

/-! ## Fenwick trees -/
section fenwick
open RbV.Spec.Fenwick RbV.Model.Fenwick RbV.Lemmas.Fenwick

/-- `SumBitTree`: after any sequence of updates, `get(i)` is the sum of all updates at indices `≤ i` -/
theorem fenwick_sum_correct (n : Nat) (ups : List (Nat × Int)) (hups : ∀ u ∈ ups, u.1 < n) (i : Nat) (hi : i < n) :
    get (· + ·) 0 (runSum n ups) i = prefixSum ups i :=
  sum_correct n ups hups i hi

/-- `MaxBitTree` (naturals, default 0): `get(i)` is the maximum of all updates at indices `≤ i` -/
theorem fenwick_max_correct (n : Nat) (ups : List (Nat × Nat)) (hups : ∀ u ∈ ups, u.1 < n) (i : Nat) (hi : i < n) :
    get max 0 (runMax n ups) i = prefixMax ups i :=
  max_correct n ups hups i hi

example : get (· + ·) 0 (runSum 8 [(0, 5), (7, -3), (3, 10)]) 3 = 15 := by
  rw [fenwick_sum_correct 8 _ (by decide) 3 (by decide)]; decide
example : get max 0 (runMax 9 [(8, 5), (0, 2), (4, 9)]) 4 = 9 := by
  rw [fenwick_max_correct 9 _ (by decide) 4 (by decide)]; decide

end fenwick

/-! ## Fenwick tree: function bodies translated from the source text (docs/notes/GEN.md, "Translated function bodies")

`RbV/Gen/SrcFenwick.lean` is regenerated from `src/data_structures/bit_tree.rs` by `tools/rs2lean.py` on every
`./check C18`; the theorems below are re-proved against the regenerated definitions (proofs: `RbV/Thm/GenSrcFenwick.lean`).
`Rs.Res.ok v` = the translated function returns `v` without panicking (index out of bounds, checked `usize` arithmetic,
`-isize::MIN`) and without running out of the fuel given to its `while` loop. -/
section fenwick_source
open RbV.Spec.Fenwick RbV.Model.Fenwick RbV.Lemmas.Fenwick

/-- `(idx as isize & -(idx as isize)) as usize`, computed on 64-bit two's-complement bit patterns as the translation does,
is the model's `lowbit` for every non-zero `idx` -/
theorem fenwick_lowbit_is_and_neg (i : Nat) (h0 : 0 < i) (h : i < 2 ^ 64) : i &&& (2 ^ 64 - i) = lowbit i :=
  GenSrcFenwick.and_neg_eq_lowbit 64 i h0 h

/-- **`FenwickTree::get`, as written, is the mirror model's `get`** for every operation, every tree of at most 2^63 slots
and every in-range index (the precondition under which the Rust code does not panic on `self.tree[idx + 1]`). -/
theorem fenwick_get_source_eq_model {α : Type} (op : α → α → α) (dflt : α) (tree : List α) (idx : Nat)
    (h : idx + 1 < tree.length) (hlen : tree.length ≤ 2 ^ 63) :
    Gen.SrcFenwick.get op dflt tree idx = Rs.Res.ok (Model.Fenwick.get op dflt tree idx) :=
  GenSrcFenwick.get_eq_model op dflt tree idx h hlen

/-- **`FenwickTree::set`, as written, is the mirror model's `set`** (the new content of `self.tree`), for every operation,
every tree of at most 2^63 slots and every index (an index beyond the tree changes nothing, as in the model). -/
theorem fenwick_set_source_eq_model {α : Type} (op : α → α → α) (dflt : α) (tree : List α) (idx : Nat) (val : α)
    (hidx : idx + 1 < 2 ^ 64) (hlen : tree.length ≤ 2 ^ 63) :
    Gen.SrcFenwick.set op dflt tree idx val = Rs.Res.ok (Model.Fenwick.set op dflt tree idx val) :=
  GenSrcFenwick.set_eq_model op dflt tree idx val hidx hlen

/-- generated code = specification (`SumBitTree`): any history of in-range updates run through the translated `set`,
starting from `FenwickTree::new(n)`, succeeds, and the translated `get(i)` on the result returns the prefix sum. -/
theorem fenwick_source_sum_correct (n : Nat) (hn : n + 1 ≤ 2 ^ 63) (ups : List (Nat × Int)) (hups : ∀ u ∈ ups, u.1 < n)
    (i : Nat) (hi : i < n) :
    ∃ t, ups.foldlM (fun t u => Gen.SrcFenwick.set (· + ·) 0 t u.1 u.2) (new (0 : Int) n) = Rs.Res.ok t ∧
      Gen.SrcFenwick.get (· + ·) 0 t i = Rs.Res.ok (prefixSum ups i) := by
  refine ⟨runSum n ups, GenSrcFenwick.run_eq_model (· + ·) 0 n hn ups _ (by simp [new]) hups, ?_⟩
  have hl : (runSum n ups).length = n + 1 := by
    rw [runSum, GenSrcFenwick.run_length]; simp [new]
  rw [GenSrcFenwick.get_eq_model (· + ·) 0 _ i (by omega) (by omega), fenwick_sum_correct n ups hups i hi]

/-- generated code = specification (`MaxBitTree` over naturals) -/
theorem fenwick_source_max_correct (n : Nat) (hn : n + 1 ≤ 2 ^ 63) (ups : List (Nat × Nat)) (hups : ∀ u ∈ ups, u.1 < n)
    (i : Nat) (hi : i < n) :
    ∃ t, ups.foldlM (fun t u => Gen.SrcFenwick.set max 0 t u.1 u.2) (new (0 : Nat) n) = Rs.Res.ok t ∧
      Gen.SrcFenwick.get max 0 t i = Rs.Res.ok (prefixMax ups i) := by
  refine ⟨runMax n ups, GenSrcFenwick.run_eq_model max 0 n hn ups _ (by simp [new]) hups, ?_⟩
  have hl : (runMax n ups).length = n + 1 := by
    rw [runMax, GenSrcFenwick.run_length]; simp [new]
  rw [GenSrcFenwick.get_eq_model max 0 _ i (by omega) (by omega), fenwick_max_correct n ups hups i hi]

example : Gen.SrcFenwick.get (· + ·) (0 : Int) [0, 5, 5, 10, 15, 0, 0, 0, 12] 3 = Rs.Res.ok 15 := by decide
example : Gen.SrcFenwick.set (· + ·) (0 : Int) [0, 0, 0, 0, 0] 0 7 = Rs.Res.ok [0, 7, 7, 0, 7] := by decide
-- out of range: the Rust code panics on `self.tree[idx]`, so does the translation
example : Gen.SrcFenwick.get (· + ·) (0 : Int) [0, 1, 2] 2 = Rs.Res.panic := by decide

end fenwick_source

/-! ## BitEnc: function bodies translated from the source text

`RbV/Gen/SrcBitEnc.lean` (regenerated from `src/data_structures/bitenc.rs` on every `./check C18`): `mask`, `get_by_addr`,
`set_by_addr`, `addr`.  The fields of `self` are parameters of the translated functions; the theorems instantiate them with
what `BitEnc::new(w)` stores (`mask(w)`, `32 - 32 % w`).  Proofs: `RbV/Thm/GenSrcBitEnc.lean`. -/
section bitenc_source

/-- `fn mask`, as written (`(1 << width) - 1` in `u32`), is the model's `mask` for every width below 32 -/
theorem bitenc_mask_source_eq_model (w : Nat) (hw : w < 32) :
    Gen.SrcBitEnc.mask w = Rs.Res.ok (Model.BitEnc.mask w) :=
  GenSrcBitEnc.mask_eq_model w hw

/-- `fn addr`, as written, is the model's `addr` (no overflow of `i * width` assumed, i.e. fewer than 2^64 bits) -/
theorem bitenc_addr_source_eq_model (w i : Nat) (hw : 1 ≤ w ∧ w ≤ 8) (hmul : i * w < 2 ^ 64) :
    Gen.SrcBitEnc.addr w (Model.BitEnc.usable w) i = Rs.Res.ok (Model.BitEnc.addr w i) :=
  GenSrcBitEnc.addr_eq_model w i hw hmul

/-- `fn get_by_addr`, as written, is the model's `getByAddr` for an in-bounds block and a bit position inside the block -/
theorem bitenc_get_by_addr_source_eq_model (w : Nat) (hw : w ≤ 8) (st : List Nat) (block bit : Nat)
    (hb : block < st.length) (hbit : bit < 32) :
    Gen.SrcBitEnc.getByAddr st (Model.BitEnc.mask w) block bit = Rs.Res.ok (Model.BitEnc.getByAddr w st block bit) :=
  GenSrcBitEnc.getByAddr_eq_model w hw st block bit hb hbit

/-- `fn set_by_addr`, as written, is the model's `setByAddr` (new `self.storage`) -/
theorem bitenc_set_by_addr_source_eq_model (w : Nat) (st : List Nat) (block bit value : Nat)
    (hb : block < st.length) (hbit : bit < 32) :
    Gen.SrcBitEnc.setByAddr st (Model.BitEnc.mask w) block bit value
      = Rs.Res.ok (Model.BitEnc.setByAddr w st block bit value) :=
  GenSrcBitEnc.setByAddr_eq_model w st block bit value hb hbit

/-- generated code = specification for one slot: a value written by the translated `set_by_addr` is read back by the
translated `get_by_addr` truncated to the width; neither panics; the number of blocks is unchanged -/
theorem bitenc_source_get_after_set (w : Nat) (hw : 1 ≤ w ∧ w ≤ 8) (st : List Nat) (block s value : Nat)
    (hb : block < st.length) (hs : s < 32 / w) :
    ∃ st', Gen.SrcBitEnc.setByAddr st (Model.BitEnc.mask w) block (s * w) value = Rs.Res.ok st' ∧
      st'.length = st.length ∧
      Gen.SrcBitEnc.getByAddr st' (Model.BitEnc.mask w) block (s * w) = Rs.Res.ok (value % 2 ^ w) :=
  GenSrcBitEnc.get_after_set w hw st block s value hb hs

example : Gen.SrcBitEnc.mask 3 = Rs.Res.ok 7 := by decide
example : Gen.SrcBitEnc.addr 7 28 5 = Rs.Res.ok (1, 7) := by decide
example : Gen.SrcBitEnc.setByAddr [0, 0xFFFFFFFF] 7 1 7 2 = Rs.Res.ok [0, 0xFFFFFD7F] := by decide
example : Gen.SrcBitEnc.getByAddr [0, 0xFFFFFD7F] 7 1 7 = Rs.Res.ok 2 := by decide
-- width 32 would shift the `u32` literal out of range: the Rust code panics (overflow check), so does the translation
example : Gen.SrcBitEnc.mask 32 = Rs.Res.panic := by decide

end bitenc_source

/-! ## BitEnc: the constructor and the public operations translated from the source text (session 4, genbits)

`BitEnc::{new, push, push_values, set, get, clear, nr_blocks, nr_symbols, len}` are translated as well (same generated
file).  A `BitEnc` value is the tuple of its fields; `new` — translated — fixes `mask = mask(width)` and
`usable_bits_per_block = 32 - 32 % width`, so nothing about the fields is "read off" by the model any more.  `Shape`
is the block-count invariant `storage.len() = ⌈len / ⌊32/w⌋⌉` that `bitenc_refines` proves for every history; it is what
keeps `self.storage[block]` in bounds.  Proofs: `RbV/Thm/GenSrcBitEncOps.lean`. -/
section bitenc_ops_source
open RbV.Spec.BitEnc RbV.Thm.GenSrcBitEncOps
open RbV.Model.BitEnc (St usable)

/-- `BitEnc::new(w)`, as written (assertion, `mask(width)`, `32 - 32 % width`), builds the empty model state with the
field values all other theorems assume -/
theorem bitenc_new_source_eq_model (w : Nat) (hw : 1 ≤ w ∧ w ≤ 8) :
    Gen.SrcBitEnc.new w
      = Rs.Res.ok (Model.BitEnc.new.storage, w, Model.BitEnc.mask w, Model.BitEnc.new.len, usable w) :=
  new_eq_model w hw

/-- widths above 8 are refused (`assert!`) -/
theorem bitenc_new_source_wide_panics (w : Nat) (hw : 8 < w) : Gen.SrcBitEnc.new w = Rs.Res.panic :=
  new_wide_panics w hw

/-- **`BitEnc::push`, as written, is the model's `push`** -/
theorem bitenc_push_source_eq_model (w : Nat) (hw : 1 ≤ w ∧ w ≤ 8) (s : St) (hs : Shape w s)
    (hlen : s.len * w < 2 ^ 64) (hlen1 : s.len + 1 < 2 ^ 64) (v : Nat) :
    Gen.SrcBitEnc.push s.storage w (Model.BitEnc.mask w) s.len (usable w) v
      = Rs.Res.ok ((Model.BitEnc.push w s v).storage, (Model.BitEnc.push w s v).len) :=
  push_eq_model w hw s hs hlen hlen1 v

/-- **`BitEnc::push_values`, as written** (fill-up loop over `(bit..usable).step_by(width).take(n)`, value block loop,
`resize`, partial block) **is the model's `pushValues`** -/
theorem bitenc_push_values_source_eq_model (w : Nat) (hw : 1 ≤ w ∧ w ≤ 8) (s : St) (hs : Shape w s) (n v : Nat)
    (hlen : (s.len + n) * w < 2 ^ 64) (hlen1 : s.len + n < 2 ^ 64) :
    Gen.SrcBitEnc.pushValues s.storage w (Model.BitEnc.mask w) s.len (usable w) n v
      = Rs.Res.ok ((Model.BitEnc.pushValues w s n v).storage, (Model.BitEnc.pushValues w s n v).len) :=
  pushValues_eq_model w hw s hs n v hlen hlen1

/-- **`BitEnc::set`, as written, is the model's `set`** when the addressed block exists (e.g. `i < len`) -/
theorem bitenc_set_source_eq_model (w : Nat) (hw : 1 ≤ w ∧ w ≤ 8) (s : St) (i v : Nat) (hmul : i * w < 2 ^ 64)
    (hb : (Model.BitEnc.addr w i).1 < s.storage.length) :
    Gen.SrcBitEnc.set s.storage w (Model.BitEnc.mask w) s.len (usable w) i v
      = Rs.Res.ok (Model.BitEnc.set w s i v).storage :=
  set_eq_model w hw s i v hmul hb

/-- **`BitEnc::get`, as written, is the model's `get`** (every index: beyond the end it returns `None`, no panic) -/
theorem bitenc_get_source_eq_model (w : Nat) (hw : 1 ≤ w ∧ w ≤ 8) (s : St) (hs : Shape w s)
    (hlen : s.len * w < 2 ^ 64) (i : Nat) :
    Gen.SrcBitEnc.get s.storage w (Model.BitEnc.mask w) s.len (usable w) i = Rs.Res.ok (Model.BitEnc.get w s i) :=
  get_eq_model w hw s hs hlen i

/-- `BitEnc::clear`, `nr_blocks`, `nr_symbols` / `len`, as written -/
theorem bitenc_clear_len_source_eq_model (w m u : Nat) (s : St) :
    Gen.SrcBitEnc.clear s.storage w m s.len u
      = Rs.Res.ok ((Model.BitEnc.clear s).storage, (Model.BitEnc.clear s).len) ∧
    Gen.SrcBitEnc.nrBlocks s.storage w m s.len u = Rs.Res.ok (Model.BitEnc.nrBlocks s) ∧
    Gen.SrcBitEnc.nrSymbols s.storage w m s.len u = Rs.Res.ok s.len ∧
    Gen.SrcBitEnc.len s.storage w m s.len u = Rs.Res.ok s.len :=
  ⟨clear_eq_model w m u s, nrBlocks_eq_model w m u s, (nrSymbols_eq_model w m u s).1, (nrSymbols_eq_model w m u s).2⟩

/-- **generated code refines the plain vector**: build the object with the translated `new`, run any history with the
translated operations (`srcStep`; `OpsOk`: every `set` hits an existing element, the length in bits fits `usize`):
nothing panics, the final `len` is the length of the spec vector, the translated `get` returns the spec vector's element
at every index (`None` beyond the end), the translated `nr_blocks` is `⌈len / ⌊32/w⌋⌉`.
(`source_run_eq_model` ∘ `bitenc_refines`.) -/
theorem bitenc_source_refines (w : Nat) (hw : 1 ≤ w ∧ w ≤ 8) (ops : List Op) (hok : OpsOk w [] ops) :
    ∃ st len m u,
      Gen.SrcBitEnc.new w = Rs.Res.ok ([], w, m, 0, u) ∧
      ops.foldlM (srcStep w m u) ([], 0) = Rs.Res.ok (st, len) ∧
      len = (ops.foldl (specStep w) []).length ∧
      (∀ i, Gen.SrcBitEnc.get st w m len u i = Rs.Res.ok ((ops.foldl (specStep w) [])[i]?)) ∧
      Gen.SrcBitEnc.nrBlocks st w m len u = Rs.Res.ok ((len + 32 / w - 1) / (32 / w)) := by
  have habs := Lemmas.BitEnc.abs_run w hw ops Model.BitEnc.new [] (Lemmas.BitEnc.abs_new w hw)
  have hrun := run_eq_model w hw ops Model.BitEnc.new [] (Lemmas.BitEnc.abs_new w hw) hok
  have href := bitenc_refines w hw ops
  have hfin := opsOk_final_len w ops [] (by simp) hok
  refine ⟨_, _, Model.BitEnc.mask w, usable w, new_eq_model w hw, hrun, href.2.1, ?_, ?_⟩
  · intro i
    rw [get_eq_model w hw _ habs.2 (by rw [href.2.1]; exact hfin) i, href.2.2.1 i]
  · rw [nrBlocks_eq_model, href.2.2.2]

-- non-vacuity: width 3; the history of the `bitenc_refines` example (fills a block, overruns it, unmasked value)
example : Gen.SrcBitEnc.new 3 = Rs.Res.ok ([], 3, 7, 0, 30) := by decide
example : Gen.SrcBitEnc.new 9 = Rs.Res.panic := by decide
example : Gen.SrcBitEnc.new 0 = Rs.Res.panic := by decide
example : [Op.pushValues 9 1, .pushValues 2 13, .push 255, .set 0 8, .pushValues 12 6].foldlM (srcStep 3 7 30) ([], 0)
    = Rs.Res.ok ([690262600, 920350141, 3510], 24) := by decide
example : OpsOk 3 [] [Op.pushValues 9 1, .pushValues 2 13, .push 255, .set 0 8, .pushValues 12 6] := by
  simp [OpsOk, specStep]
example : Gen.SrcBitEnc.get [690262600, 920350141, 3510] 3 7 24 30 11 = Rs.Res.ok (some 7) := by decide
example : Gen.SrcBitEnc.get [690262600, 920350141, 3510] 3 7 24 30 24 = Rs.Res.ok none := by decide
-- `set` beyond the allocated blocks: the Rust code panics (index out of bounds), so does the translation
example : Gen.SrcBitEnc.set [5] 3 7 1 30 10 1 = Rs.Res.panic := by decide

/-! ### The iterator (`BitEnc::iter`, `impl Iterator for BitEncIter`), session 5

`next` is `let value = self.bitenc.get(self.i); self.i += 1; value` and `iter()` starts it at `i = 0`.  The two
definitions below are hand-written glue over the *translated* `get` (hence `_partial`: the three statements of `next`
and the `collect` loop of std are read by hand, `self.i += 1` as unbounded — it cannot overflow before `len` does);
everything they call is the regenerated source text. -/

/-- `BitEncIter::next` over the translated `BitEnc::get`: returns the value and the advanced cursor -/
def iterNext (st : List Nat) (w m len u i : Nat) : Rs.Res (Option Nat × Nat) :=
  Gen.SrcBitEnc.get st w m len u i >>= fun v => pure (v, i + 1)

/-- `Iterator::collect::<Vec<u8>>()`: call `next` until it returns `None` (`Rs.Res.fuel` if the loop does not stop
within `fuel` calls) -/
def iterCollect (st : List Nat) (w m len u : Nat) : Nat → Nat → List Nat → Rs.Res (List Nat)
  | 0, _, _ => Rs.Res.fuel
  | fuel + 1, i, acc =>
    match iterNext st w m len u i with
    | Rs.Res.ok (some v, i') => iterCollect st w m len u fuel i' (acc ++ [v])
    | Rs.Res.ok (none, _) => Rs.Res.ok acc
    | Rs.Res.panic => Rs.Res.panic
    | Rs.Res.fuel => Rs.Res.fuel

/-- draining an iterator whose underlying `get` reads the list `l`: from cursor `i` with `l.take i` collected so far,
`l.length - i + 1` calls of `next` suffice and the result is `l` -/
theorem iterCollect_of_get (st : List Nat) (w m len u : Nat) (l : List Nat)
    (hget : ∀ i, Gen.SrcBitEnc.get st w m len u i = Rs.Res.ok l[i]?) :
    ∀ (k i : Nat), i ≤ l.length → l.length - i < k →
      iterCollect st w m len u k i (l.take i) = Rs.Res.ok l := by
  intro k
  induction k with
  | zero => intro i _ h; omega
  | succ k ih =>
    intro i hi hk
    unfold iterCollect iterNext
    rw [hget i]
    by_cases hlt : i < l.length
    · simp only [List.getElem?_eq_getElem hlt, Rs.Res.ok_bind, Rs.Res.pure_eq_ok]
      have : l.take i ++ [l[i]] = l.take (i + 1) := by
        rw [List.take_add_one, List.getElem?_eq_getElem hlt]; rfl
      rw [this]
      exact ih (i + 1) (by omega) (by omega)
    · have hi' : i = l.length := by omega
      subst hi'
      simp [Rs.Res.pure_eq_ok]

/-- **`bitenc.iter().collect()` on the generated code is the plain vector**: build the object with the translated
`new`, run any admissible history with the translated operations, then drain the iterator (`next` = translated `get`
at the cursor, cursor + 1) from a fresh `iter()`: it stops by itself after `len + 1` calls, never panics, and has
yielded exactly the specification's vector — every element, in order, nothing after the end. -/
theorem bitenc_iter_source_collects_partial (w : Nat) (hw : 1 ≤ w ∧ w ≤ 8) (ops : List Op) (hok : OpsOk w [] ops) :
    ∃ st len m u,
      Gen.SrcBitEnc.new w = Rs.Res.ok ([], w, m, 0, u) ∧
      ops.foldlM (srcStep w m u) ([], 0) = Rs.Res.ok (st, len) ∧
      iterCollect st w m len u (len + 1) 0 [] = Rs.Res.ok (ops.foldl (specStep w) []) ∧
      -- an exhausted iterator stays exhausted (`next` after `None` is `None` again, the cursor only grows)
      (∀ i, len ≤ i → iterNext st w m len u i = Rs.Res.ok (none, i + 1)) := by
  obtain ⟨st, len, m, u, hnew, hrun, hlen, hget, _⟩ := bitenc_source_refines w hw ops hok
  refine ⟨st, len, m, u, hnew, hrun, ?_, ?_⟩
  · have h := iterCollect_of_get st w m len u _ hget (len + 1) 0 (by omega) (by omega)
    simpa using h
  · intro i hi
    unfold iterNext
    rw [hget i, List.getElem?_eq_none (by omega)]
    rfl

-- non-vacuity / evaluation: the state of the example above (width 3, 24 symbols in three blocks)
example : iterCollect [690262600, 920350141, 3510] 3 7 24 30 25 0 []
    = Rs.Res.ok [0, 1, 1, 1, 1, 1, 1, 1, 1, 5, 5, 7, 6, 6, 6, 6, 6, 6, 6, 6, 6, 6, 6, 6] := by decide
example : iterCollect [690262600, 920350141, 3510] 3 7 24 30 24 0 [] = Rs.Res.fuel := by decide

end bitenc_ops_source

/-! ## SmallInts: function bodies translated from the source text (session 4, genbits)

`RbV/Gen/SrcSmallInts.lean` (regenerated from `src/data_structures/smallints.rs` on every `./check C18` / `./check C03`):
`real_value`, `get`, `push`, `set`, `from_elem`, `len`.  `S`, `B` are type variables and `cast`, `S::max_value()`, `<`,
`size_of` abstract parameters of the translated functions; the theorems instantiate them as the mirror model reads them
(`cBS lo hi = cast` into the range `[lo, hi]`, `cSB = some`, `S::max_value() = hi`).  The `BTreeMap` is the association
list of `Rs.mapInsert` / `Rs.mapGet`.  Proofs: `RbV/Thm/GenSrcSmallInts.lean`. -/
section smallints_source
open RbV.Spec.SmallInts RbV.Thm.GenSrcSmallInts
open RbV.Model.SmallInts (St)

/-- `fn real_value` and `SmallInts::get`, as written, are the model's (`get`: every index, `None` beyond the end) -/
theorem smallints_get_source_eq_model (lo hi : Int) (sS sB : Nat) (s : St) (i : Nat) :
    (∀ v, Gen.SrcSmallInts.realValue (cBS lo hi) cSB (cZ lo hi) ltI hi sS sB s.small s.big i v
      = Rs.Res.ok (Model.SmallInts.realValue hi s i v)) ∧
    Gen.SrcSmallInts.get (cBS lo hi) cSB (cZ lo hi) ltI hi sS sB s.small s.big i
      = Rs.Res.ok (Model.SmallInts.get hi s i) :=
  ⟨fun v => realValue_eq_model lo hi sS sB s i v, get_eq_model lo hi sS sB s i⟩

/-- **`SmallInts::push`, as written** (`match cast(v) { Some(v) if v < maxv => …, _ => … }`) **is the model's `push`** -/
theorem smallints_push_source_eq_model (lo hi : Int) (sS sB : Nat) (s : St) (v : Int) :
    Gen.SrcSmallInts.push (cBS lo hi) cSB (cZ lo hi) ltI hi sS sB s.small s.big v
      = Rs.Res.ok ((Model.SmallInts.push lo hi s v).small, (Model.SmallInts.push lo hi s v).big) :=
  push_eq_model lo hi sS sB s v

/-- **`SmallInts::set`, as written, is the model's `set`** for an existing index; beyond the end it panics -/
theorem smallints_set_source_eq_model (lo hi : Int) (sS sB : Nat) (s : St) (i : Nat) (v : Int) :
    (i < s.small.length → Gen.SrcSmallInts.set (cBS lo hi) cSB (cZ lo hi) ltI hi sS sB s.small s.big i v
      = Rs.Res.ok ((Model.SmallInts.set lo hi s i v).small, (Model.SmallInts.set lo hi s i v).big)) ∧
    (s.small.length ≤ i → Gen.SrcSmallInts.set (cBS lo hi) cSB (cZ lo hi) ltI hi sS sB s.small s.big i v
      = Rs.Res.panic) :=
  ⟨set_eq_model lo hi sS sB s i v, set_oob_panics lo hi sS sB s i v⟩

/-- `SmallInts::from_elem`, as written: builds the model's state under its assertions, refuses `S::max_value()` -/
theorem smallints_from_elem_source_eq_model (lo hi : Int) (h0 : lo ≤ 0 ∧ 0 < hi) (sS sB : Nat) (hsz : sS < sB) (n : Nat) :
    (∀ v, (0 < v → v < hi) → Gen.SrcSmallInts.fromElem (cBS lo hi) cSB (cZ lo hi) ltI hi sS sB v n
      = Rs.Res.ok ((Model.SmallInts.fromElem v n).small, (Model.SmallInts.fromElem v n).big)) ∧
    Gen.SrcSmallInts.fromElem (cBS lo hi) cSB (cZ lo hi) ltI hi sS sB hi n = Rs.Res.panic :=
  ⟨fun v hv => fromElem_eq_model lo hi ⟨h0.1, by omega⟩ sS sB hsz v n hv, fromElem_max_panics lo hi h0 sS sB hsz n⟩

/-- **generated code refines the plain vector**: any history whose `set`s address existing elements, run with the
translated operations from the empty object, does not panic; its final length is the spec vector's and the translated
`get` returns the spec vector's element at every index (`None` beyond the end).  (`run_eq_model` ∘ `smallints_refines`.) -/
theorem smallints_source_refines (lo hi : Int) (sS sB : Nat) (ops : List Op) (hok : OpsOk [] ops) :
    ∃ small big, ops.foldlM (srcStep lo hi sS sB) ([], []) = Rs.Res.ok (small, big) ∧
      Gen.SrcSmallInts.len (cBS lo hi) cSB (cZ lo hi) ltI hi sS sB small big
        = Rs.Res.ok (ops.foldl specStep []).length ∧
      ∀ i, Gen.SrcSmallInts.get (cBS lo hi) cSB (cZ lo hi) ltI hi sS sB small big i
        = Rs.Res.ok ((ops.foldl specStep [])[i]?) := by
  have hrun := run_eq_model lo hi sS sB ops Model.SmallInts.new [] (Lemmas.SmallInts.abs_new hi) hok
  have href := smallints_refines lo hi ops
  refine ⟨_, _, hrun, ?_, fun i => ?_⟩
  · rw [len_eq_model, href.1]
  · rw [get_eq_model, href.2.1 i]

-- non-vacuity: i8 range; the history of the `smallints_refines` example
example : [Op.push 126, .push 127, .push 128, .push (-129), .set 1 5, .set 0 1000, .set 0 (-7), .set 2 127].foldlM
    (srcStep (-128) 127 1 8) ([], []) = Rs.Res.ok ([-7, 5, 127, 127], [(2, 127), (0, 1000), (3, -129), (2, 128), (1, 127)]) := by
  decide
example : OpsOk [] [Op.push 126, .push 127, .push 128, .push (-129), .set 1 5, .set 0 1000, .set 0 (-7), .set 2 127] := by
  simp [OpsOk, specStep]
example : Gen.SrcSmallInts.get (cBS (-128) 127) cSB (cZ (-128) 127) ltI 127 1 8 [-7, 5, 127, 127]
    [(2, 127), (0, 1000), (3, -129), (2, 128), (1, 127)] 3 = Rs.Res.ok (some (-129)) := by decide
example : Gen.SrcSmallInts.fromElem (β := Int) (cBS (-128) 127) cSB (cZ (-128) 127) ltI 127 1 8 127 3 = Rs.Res.panic := by decide

/-! ### The iterator (`SmallInts::iter`, `decompress`, `impl Iterator for Iter`), session 5

`iter()` builds `Iter { smallints: self, items: self.smallints.iter().enumerate() }`; `next` is
`match self.items.next() { Some((i, &v)) => self.smallints.real_value(i, v), None => None }`; `decompress` is
`self.iter().collect()`.  `Enumerate<slice::Iter>` is read as (counter, remaining slice); the definitions below are
hand-written glue over the *translated* `real_value` (hence `_partial`).  Note what is at stake: `collect` stops at the
first `None`, so a `real_value` that answered `None` inside the vector (missing `bigints` entry, failing `cast`) would
silently truncate `decompress()` — the theorem says this never happens after any admissible history. -/

/-- `Iter::next` over the translated `real_value`: value, advanced counter, rest of the slice -/
def siterNext (lo hi : Int) (sS sB : Nat) (small : List Int) (big : List (Nat × Int)) (i : Nat) (items : List Int) :
    Rs.Res (Option Int × Nat × List Int) :=
  match items with
  | [] => pure (none, i, [])
  | v :: rest =>
    Gen.SrcSmallInts.realValue (cBS lo hi) cSB (cZ lo hi) ltI hi sS sB small big i v >>= fun r => pure (r, i + 1, rest)

/-- `Iterator::collect::<Vec<B>>()`: call `next` until it returns `None` -/
def siterCollect (lo hi : Int) (sS sB : Nat) (small : List Int) (big : List (Nat × Int)) :
    Nat → Nat → List Int → List Int → Rs.Res (List Int)
  | 0, _, _, _ => Rs.Res.fuel
  | fuel + 1, i, items, acc =>
    match siterNext lo hi sS sB small big i items with
    | Rs.Res.ok (some b, i', items') => siterCollect lo hi sS sB small big fuel i' items' (acc ++ [b])
    | Rs.Res.ok (none, _, _) => Rs.Res.ok acc
    | Rs.Res.panic => Rs.Res.panic
    | Rs.Res.fuel => Rs.Res.fuel

/-- inside the vector the translated `get` *is* the translated `real_value` at the stored small value -/
theorem get_eq_realValue_of_lt (lo hi : Int) (sS sB : Nat) (small : List Int) (big : List (Nat × Int)) (i : Nat)
    (h : i < small.length) :
    Gen.SrcSmallInts.get (cBS lo hi) cSB (cZ lo hi) ltI hi sS sB small big i
      = Gen.SrcSmallInts.realValue (cBS lo hi) cSB (cZ lo hi) ltI hi sS sB small big i small[i] := by
  have e1 : Rs.idx small i = Rs.Res.ok small[i] := Rs.idx_ok h
  simp only [Gen.SrcSmallInts.get, h, e1, decide_true, if_true, Rs.Res.ok_bind, Rs.Res.pure_eq_ok,
    Gen.SrcSmallInts.realValue]

theorem siterCollect_of_get (lo hi : Int) (sS sB : Nat) (small : List Int) (big : List (Nat × Int)) (l : List Int)
    (hlen : small.length = l.length)
    (hget : ∀ i, Gen.SrcSmallInts.get (cBS lo hi) cSB (cZ lo hi) ltI hi sS sB small big i = Rs.Res.ok l[i]?) :
    ∀ (k i : Nat), i ≤ l.length → l.length - i < k →
      siterCollect lo hi sS sB small big k i (small.drop i) (l.take i) = Rs.Res.ok l := by
  intro k
  induction k with
  | zero => intro i _ h; omega
  | succ k ih =>
    intro i hile hk
    unfold siterCollect
    by_cases hlt : i < l.length
    · have hs : i < small.length := by omega
      have hr := get_eq_realValue_of_lt lo hi sS sB small big i hs
      rw [hget i, List.getElem?_eq_getElem hlt] at hr
      rw [List.drop_eq_getElem_cons hs]
      simp only [siterNext, ← hr, Rs.Res.ok_bind, Rs.Res.pure_eq_ok]
      have : l.take i ++ [l[i]] = l.take (i + 1) := by
        rw [List.take_add_one, List.getElem?_eq_getElem hlt]; rfl
      rw [this]
      exact ih (i + 1) (by omega) (by omega)
    · have hi' : i = l.length := by omega
      subst hi'
      rw [List.drop_of_length_le (by omega)]
      simp [siterNext, Rs.Res.pure_eq_ok]

/-- **`smallints.iter().collect()` / `decompress()` on the generated code is the plain vector**: run any admissible
history with the translated operations, then drain a fresh `iter()` (`next` = translated `real_value` on the next
enumerated slot): no panic, no early stop, exactly the specification's vector. -/
theorem smallints_iter_source_collects_partial (lo hi : Int) (sS sB : Nat) (ops : List Op) (hok : OpsOk [] ops) :
    ∃ small big, ops.foldlM (srcStep lo hi sS sB) ([], []) = Rs.Res.ok (small, big) ∧
      siterCollect lo hi sS sB small big (small.length + 1) 0 small [] = Rs.Res.ok (ops.foldl specStep []) := by
  obtain ⟨small, big, hrun, hlen, hget⟩ := smallints_source_refines lo hi sS sB ops hok
  refine ⟨small, big, hrun, ?_⟩
  have hl : small.length = (ops.foldl specStep []).length := by
    simpa [Gen.SrcSmallInts.len, Rs.Res.pure_eq_ok] using hlen
  have h := siterCollect_of_get lo hi sS sB small big _ hl hget (small.length + 1) 0 (by omega) (by omega)
  simpa using h

-- evaluation on the state of the example above (i8 range; slots 0..2 small, slot 3 diverted to the map)
example : siterCollect (-128) 127 1 8 [-7, 5, 127, 127] [(2, 127), (0, 1000), (3, -129), (2, 128), (1, 127)] 5 0
    [-7, 5, 127, 127] [] = Rs.Res.ok [-7, 5, 127, -129] := by decide
-- what the theorem excludes: a diverted slot without its map entry ends the drain early (silent truncation)
example : siterCollect (-128) 127 1 8 [-7, 127, 5] [] 4 0 [-7, 127, 5] [] = Rs.Res.ok [-7] := by decide

end smallints_source

end RbV.Thm.C18
