import RbV.Spec.Occ
import RbV.Basic.Sorted
import RbV.Model.ShiftAnd
import RbV.Model.Horspool
import RbV.Model.Kmp
import RbV.Model.Bndm
import RbV.Model.Bom
import RbV.Lemmas.BomOracle
import RbV.Thm.GenSrcKmpLps
import RbV.Thm.GenSrcShiftAndMasks
import RbV.Thm.GenSrcHorspoolNew
import RbV.Thm.GenSrcShiftAndNext
import RbV.Thm.GenSrcKmpNext
import RbV.Thm.GenSrcHorspoolNext
import RbV.Thm.GenSrcBndmNext
import RbV.Thm.GenSrcBomNext
/-!
# C08 — exact matchers return exactly all occurrences

Property theorems (statements only live here; helper lemmas are in `RbV/Spec`, `RbV/Model`, `RbV/Lemmas`).
The oracle used by the driver is `occurrences p t`; the theorems say that it is exactly the ascending,
duplicate-free list of all start positions of `p` in `t`, for every pattern and every text.
-/
namespace RbV.Thm.C08
open RbV

/-- the oracle lists exactly the occurrence positions -/
theorem oracle_exact (p t : List Nat) (i : Nat) :
    i ∈ occurrences p t ↔ (i + p.length ≤ t.length ∧ (t.drop i).take p.length = p) :=
  mem_occurrences p t i

/-- … in strictly increasing order (hence without duplicates) -/
theorem oracle_ascending (p t : List Nat) : (occurrences p t).Pairwise (· < ·) :=
  occurrences_sorted p t

/-- a text shorter than the pattern has no occurrence -/
theorem oracle_short_text (p t : List Nat) (h : t.length < p.length) : occurrences p t = [] := by
  apply List.eq_nil_iff_forall_not_mem.mpr
  intro i hi
  have := (mem_occurrences p t i).mp hi
  unfold OccursAt at this
  omega

/-- any list with these two properties *is* the oracle's answer: the answer is unique, so comparing the
implementation's output with `occurrences p t` for equality is exactly the property. -/
theorem answer_unique (p t l : List Nat) (hs : l.Pairwise (· < ·))
    (hm : ∀ i, i ∈ l ↔ OccursAt p t i) : l = occurrences p t := by
  apply sorted_eq_of_mem_iff l _ hs (occurrences_sorted p t)
  intro i; rw [hm, mem_occurrences]

example : occurrences [1, 2, 1] [1, 2, 1, 2, 1] = [0, 2] := by decide

/-- **ShiftAnd** (mirror model of `shift_and.rs`: the `masks` loop over `u64` with the running bit shifted out
after the 64th symbol, the `((active << 1) | 1) & masks[c]` step with 64-bit truncation, the accept test and the
`i + 1 - m` position arithmetic) yields exactly the oracle's list, for every pattern of 1..64 symbols — in
particular for m = 64, where bit 63 is shifted out — and every text. -/
theorem shiftAnd_exact (p t : List Nat) (hp : 0 < p.length) (hm : p.length ≤ 64) :
    ShiftAnd.findAll p t = occurrences p t :=
  ShiftAnd.findAll_eq_occurrences p t hp hm

example : ShiftAnd.findAll [1, 2, 1] [1, 2, 1, 2, 1] = [0, 2] := by decide

/-- **Horspool** (mirror model of `horspool.rs`: the bad-character table built by the loop over `pattern[..m-1]`,
the skip loop, the `last + 1 - m` arithmetic and the `text[i..j] == pattern[..m-1]` comparison) yields exactly the
oracle's list for every non-empty pattern and every text: no occurrence is skipped by a shift. -/
theorem horspool_exact (p t : List Nat) (hp : 0 < p.length) : Horspool.findAll p t = occurrences p t :=
  Horspool.findAll_eq_occurrences p t hp

example : Horspool.findAll [1, 2, 1] [1, 2, 1, 2, 1] = [0, 2] := by decide

/-- **KMP** (mirror model of `kmp.rs`: the `lps` failure-table loop, `delta` with its
`q == m || (p[q] != a && q > 0)` fall-back loop, and the `1 + i - m` report) yields exactly the oracle's list for
every non-empty pattern and every text. The proof shows that `lps[i]` is the longest proper border of `p[0..=i]`
and that the automaton state is always the longest pattern prefix that is a suffix of the text read so far. -/
theorem kmp_exact (p t : List Nat) (hp : 0 < p.length) : Kmp.findAll p t = occurrences p t :=
  Kmp.findAll_eq_occurrences p t hp

/-- the failure table computed by the model is the table of longest proper borders -/
theorem kmp_lps_is_border_table (p : List Nat) (hp : 0 < p.length) :
    (Kmp.lps p).length = p.length ∧ Kmp.LpsSpec p (Kmp.lps p) :=
  ⟨(Kmp.lps_spec p hp).2, (Kmp.lps_spec p hp).1⟩

example : Kmp.findAll [1, 2, 1] [1, 2, 1, 2, 1] = [0, 2] := by decide
example : Kmp.lps [1, 2, 1, 2, 3] = [0, 0, 1, 2, 0] := by decide

/-- **BNDM** (mirror model of `bndm.rs`: masks of the reversed pattern, the all-ones start state saturated at
m = 64, the right-to-left factor scan with 64-bit truncating shift, `lastsuffix`, the window shift
`m - lastsuffix`) never underflows `window - j`, never indexes out of bounds, and yields exactly the oracle's list
for every pattern of 1..64 symbols and every text: no occurrence is skipped by a window shift. -/
theorem bndm_exact (p t : List Nat) (hp : 0 < p.length) (hm : p.length ≤ 64) :
    Bndm.findAll p t = some (occurrences p t) :=
  Bndm.findAll_eq_occurrences p t hp hm

example : Bndm.findAll [1, 2, 1] [1, 2, 1, 2, 1] = some [0, 2] := by decide

/-- **BOM** (mirror model of `bom.rs`: the online factor-oracle construction of `BOM::new` over the reversed pattern
— inner transition, the `while let Some(k_) = k` climb along the supply links `suff`, `suff[i]` — and the window
loop of `Matches::next`: backward scan through the oracle, the `m + 2 - j` shift, the report) yields exactly the
oracle's list for every non-empty pattern and every text. The proof has two halves: the search loop is exact for
every table that accepts all factors of the pattern and whose transitions go strictly upwards
(`Bom.findAll_eq_occurrences_of_table`), and the construction establishes both conditions for every pattern
(`bom_oracle_accepts_factors`, `bom_table_conditions`, proved in `RbV/Lemmas/BomOracle.lean`). -/
theorem bom_exact (p t : List Nat) (hp : 0 < p.length) : Bom.findAll p t = occurrences p t :=
  Bom.findAll_eq_occurrences p t hp

/-- **Factor-oracle theorem** (Allauzen–Crochemore–Raffinot 1999, "the oracle accepts at least the factors") for
the table built by the mirror model of `BOM::new`: every factor `y` of the reversed pattern is accepted from
state 0. -/
theorem bom_oracle_accepts_factors (p x y z : List Nat) (h : p.reverse = x ++ y ++ z) :
    Bom.runT (Bom.build p) 0 y ≠ none := by
  obtain ⟨suff, hinv⟩ := Bom.build_inv p
  exact hinv.accepts_factor x y z h

/-- every transition `q --a--> q'` of the built oracle goes strictly upwards, at most to state `m`, and a
transition `q → q+1` is labelled with the `q`-th symbol of the reversed pattern. -/
theorem bom_oracle_monotone (p : List Nat) (q a q' : Nat) (h : Bom.delta (Bom.build p) q a = some q') :
    q < q' ∧ q' ≤ p.length ∧ (q' = q + 1 → p.reverse[q]? = some a) := by
  have := Bom.monotoneB_sound _ _ (Bom.build_monotone p) q a q' h
  simpa using this

/-- the two decidable table conditions that the driver evaluates per tested pattern (tag `bom-table-ok`) hold
for **every** pattern; the evaluation in the driver is a cross-check of model and proof, no longer a hypothesis. -/
theorem bom_table_conditions (p : List Nat) :
    Bom.completeB (Bom.build p) p = true ∧ Bom.monotoneB (Bom.build p) p.reverse = true :=
  ⟨Bom.build_complete p, Bom.build_monotone p⟩

/-- `BOM::new` takes no panicking branch: in the variant `buildS` of the model in which an out-of-bounds
`table[k_]`, a read of a `suff` entry that was never written, and `.unwrap()` of an absent transition are failures
(as is running out of the model's loop fuel), the construction succeeds for every pattern and gives the same table —
so `bom_exact` does not rest on the totalised defaults (`getD`, `[_]?`) of the model. (The empty pattern is refused
by `BOM::new` before the loop: `expect("Expecting non-empty pattern.")`; the harness never sends it.) -/
theorem bom_construction_total (p : List Nat) : Bom.buildS p = some (Bom.build p) :=
  Bom.buildS_eq_build p

/-- **BOM, with the panics of the Rust code explicit.** `Bom.findAllS` is the variant of the mirror model in which
the construction fails where `BOM::new` would panic (see `bom_construction_total`) and the search indexes the text
exactly as `Matches::next` does — `text[window - j]`, `window - m`, `m + 2 - j` in `usize`, failing on underflow or
an out-of-bounds index (and on exhausted loop fuel). It never fails and returns exactly the oracle's list, for every
non-empty pattern and every text. -/
theorem bom_exact_no_panic (p t : List Nat) (hp : 0 < p.length) : Bom.findAllS p t = some (occurrences p t) :=
  Bom.findAllS_eq_occurrences p t hp

example : Bom.findAllS [1, 2, 1] [1, 2, 1, 2, 1] = some [0, 2] := by decide
example : Bom.findAll [1, 2, 1] [1, 2, 1, 2, 1] = [0, 2] := by decide
example : Bom.build [1, 2, 1, 1, 2] =
    [[(1, 2), (2, 1)], [(1, 2)], [(2, 4), (1, 3)], [(2, 4)], [(1, 5)]] := by decide
-- the oracle of `abbbaab` (the pattern is its reverse) accepts `aba`, which is not a factor: the converse of
-- `bom_oracle_accepts_factors` is false, which is why the search needs `bom_oracle_monotone` for the full window
example : Bom.runT (Bom.build [2, 1, 1, 2, 2, 2, 1]) 0 [1, 2, 1] = some 5 := by decide

/-! ## Function bodies translated from the source text (docs/notes/GEN.md, "Translated function bodies")

`RbV/Gen/Src*.lean` are regenerated from the Rust text by `tools/rs2lean.py` on every `./check C08`; the theorems below
are re-proved against the regenerated definitions (proofs: `RbV/Thm/GenSrc*.lean`). `Rs.Res.ok v` = the translated
function returns `v` without panicking (index out of bounds, checked `usize` arithmetic) and without running out of the
fuel given to its `while` loops. -/

/-- **`fn lps` of `kmp.rs`, as written, is the mirror model `Kmp.lps`** (for every pattern whose length fits `usize`,
which every Rust slice does): the tie between the model that `kmp_exact` / `kmp_lps_is_border_table` are about and the
code is a theorem for this function, not a sample. -/
theorem kmp_lps_source_eq_model (p : List Nat) (h64 : p.length < 2 ^ 64) :
    Gen.SrcKmpLps.lps p = Rs.Res.ok (Kmp.lps p) :=
  GenSrcKmpLps.lps_eq_model p h64

/-- generated code = specification: the translated `lps` returns, without panic, the table of longest proper borders. -/
theorem kmp_lps_source_is_border_table (p : List Nat) (hp : 0 < p.length) (h64 : p.length < 2 ^ 64) :
    ∃ l, Gen.SrcKmpLps.lps p = Rs.Res.ok l ∧ l.length = p.length ∧ Kmp.LpsSpec p l :=
  ⟨Kmp.lps p, GenSrcKmpLps.lps_eq_model p h64, (Kmp.lps_spec p hp).2, (Kmp.lps_spec p hp).1⟩

example : Gen.SrcKmpLps.lps [1, 2, 1, 2, 3] = Rs.Res.ok [0, 0, 1, 2, 0] := by decide

/-- **`fn delta` of `kmp.rs`, as written, is the mirror model `Kmp.delta`** over the failure table (for every non-empty
pattern, every automaton state `q ≤ m` and every symbol): the `while q == m || (pattern[q] != a && q > 0)` loop with its
guarded read, `lps[q - 1]`, and the checked `q += 1` never panic, the fuel `q + 1` suffices. Together with
`kmp_lps_source_eq_model` the whole automaton of KMP is tied to the source text by theorems; only the iterator glue
`Matches::next` (`q = delta(q, c); if q == m { yield 1 + i - m }`) stays tied by the correspondence run. -/
theorem kmp_delta_source_eq_model (p : List Nat) (hp : 0 < p.length) (h64 : p.length < 2 ^ 64) (q a : Nat)
    (hq : q ≤ p.length) :
    Gen.SrcKmpLps.delta p.length (Kmp.lps p) p q a = Rs.Res.ok (Kmp.delta p (Kmp.lps p) q a) :=
  GenSrcKmpLps.delta_eq_model p hp h64 q a hq

/-- generated code = specification: if `q` is the longest prefix of `p` that is a suffix of the text read so far, the
translated `delta` returns, without panic, the longest such prefix after reading `a`. -/
theorem kmp_delta_source_spec (p pre : List Nat) (hp : 0 < p.length) (h64 : p.length < 2 ^ 64) (q a : Nat)
    (hmax : Kmp.MaxPS p pre q) :
    ∃ q', Gen.SrcKmpLps.delta p.length (Kmp.lps p) p q a = Rs.Res.ok q' ∧ Kmp.MaxPS p (pre ++ [a]) q' := by
  have hq : q ≤ p.length := hmax.1.1
  refine ⟨_, GenSrcKmpLps.delta_eq_model p hp h64 q a hq, ?_⟩
  obtain ⟨hspec, hlen⟩ := Kmp.lps_spec p hp
  exact Kmp.advance_spec p (Kmp.lps p) pre a true hp hspec q (by omega) (Or.inl rfl) hmax

example : Gen.SrcKmpLps.delta 5 [0, 0, 0, 1, 2] [1, 2, 2, 1, 2] 5 2 = Rs.Res.ok 3 := by decide

/-- **`pub fn masks` of `shift_and.rs`, as written, is the mirror model `ShiftAnd.masksLoop`**, for every pattern of
bytes (no length bound: `masks` itself never panics, the running bit is shifted out after the 64th symbol): the returned
array is the model's mask function tabulated over 0..255, the returned accept mask is the model's. -/
theorem shiftAnd_masks_source_eq_model (p : List Nat) (hb : ∀ c ∈ p, c < 256) :
    Gen.SrcShiftAndMasks.masks p
      = Rs.Res.ok ((List.range 256).map (ShiftAnd.masksLoop p).masks, (ShiftAnd.masksLoop p).accept) :=
  GenSrcShiftAndMasks.masks_eq_model p hb

/-- generated code = specification: for a pattern of at most 64 bytes the translated `masks` returns, without panic, a
256-entry table whose entry `c` has bit `j` set exactly when `p[j] = c`, and the accept mask `2^(m-1)`. -/
theorem shiftAnd_masks_source_spec (p : List Nat) (hb : ∀ c ∈ p, c < 256) (hm : p.length ≤ 64) :
    ∃ tab acc, Gen.SrcShiftAndMasks.masks p = Rs.Res.ok (tab, acc) ∧ tab.length = 256
      ∧ (∀ c j, c < 256 → (tab.getD c 0).testBit j = (p[j]? == some c))
      ∧ (0 < p.length → acc = 2 ^ (p.length - 1)) := by
  refine ⟨_, _, GenSrcShiftAndMasks.masks_eq_model p hb, GenSrc.tab_length _ _, ?_, ?_⟩
  · intro c j hc
    rw [List.getD_eq_getElem?_getD, GenSrc.tab_get _ _ _ hc]
    exact ShiftAnd.masks_testBit p hm c j
  · intro hp
    exact ShiftAnd.accept_eq p hm hp

example := shiftAnd_masks_source_spec [1, 2, 1] (by decide) (by decide)
example : (ShiftAnd.masksLoop [1, 2, 1]).masks 1 = 5 ∧ (ShiftAnd.masksLoop [1, 2, 1]).accept = 4 := by decide

/-- **`Horspool::new` of `horspool.rs`, as written, builds the mirror model's shift table**: for every non-empty pattern of
bytes the translated constructor returns, without panic (`m - 1`, `m - 1 - j` never underflow, `pattern[..m - 1]` and
`shift[a as usize]` stay in bounds), the triple `(m, shift, pattern)` with `shift` = `Horspool.shiftTab p` tabulated over
0..255. -/
theorem horspool_new_source_eq_model (p : List Nat) (hp : 0 < p.length) (hb : ∀ c ∈ p, c < 256) :
    Gen.SrcHorspoolNew.new p = Rs.Res.ok (p.length, (List.range 256).map (Horspool.shiftTab p), p) :=
  GenSrcHorspoolNew.new_eq_model p hp hb

/-- generated code = specification: every entry of the table built by the translated constructor is a safe shift — between
1 and m, and no occurrence of the symbol in `p[0..m-1)` lies strictly within that distance of the window end. -/
theorem horspool_new_source_spec (p : List Nat) (hp : 0 < p.length) (hb : ∀ c ∈ p, c < 256) :
    ∃ sh, Gen.SrcHorspoolNew.new p = Rs.Res.ok (p.length, sh, p) ∧ sh.length = 256 ∧
      ∀ c, c < 256 → 1 ≤ sh.getD c 0 ∧ sh.getD c 0 ≤ p.length ∧
        ∀ d, 0 < d → d < sh.getD c 0 → p[p.length - 1 - d]? ≠ some c := by
  refine ⟨_, GenSrcHorspoolNew.new_eq_model p hp hb, GenSrc.tab_length _ _, ?_⟩
  intro c hc
  rw [List.getD_eq_getElem?_getD, GenSrc.tab_get _ _ _ hc]
  exact ⟨(Horspool.shift_bounds p hp c).1, (Horspool.shift_bounds p hp c).2, fun d hd hlt => Horspool.shift_safe p hp c d hd hlt⟩

/-- the empty pattern is refused: `m - 1` underflows and the translated constructor panics (the harness never sends it) -/
theorem horspool_new_source_empty_panics : Gen.SrcHorspoolNew.new [] = Rs.Res.panic :=
  GenSrcHorspoolNew.new_nil_panics

example := horspool_new_source_spec [1, 2, 1] (by decide) (by decide)
example : Horspool.shiftTab [1, 1, 3, 2] 1 = 2 ∧ Horspool.shiftTab [1, 1, 3, 2] 2 = 4 := by decide

/-! ## The search loops translated from the source text (genpm; docs/notes/GEN.md, "Translated function bodies")

`Matches::next` is translated as a function on the explicit iterator state; `Rs.drain next fuel s` calls it until it returns
`None` — what a consumer of `find_all(..)` sees.  The text iterator `text.into_iter().enumerate()` is the pair
(bytes not yet consumed, counter): the trusted reading of `IntoIterator<Item = &u8>` over a slice. -/

/-- **ShiftAnd end to end on the translated source text**: `ShiftAnd::new(p)`, `.find_all(t)` and `Matches::next` called
until `None`, all three as written in `shift_and.rs`, never panic (the `m <= 64` assertion holds, `i + 1 - m` never
underflows, `masks[c]` is in bounds) and list exactly the occurrences of `p` in `t` — for every byte pattern of 1..64
symbols and every byte text. No mirror model is left between the source text and the specification for this matcher. -/
theorem shiftAnd_source_exact (p t : List Nat) (hp : 0 < p.length) (hm : p.length ≤ 64) (hbp : ∀ c ∈ p, c < 256)
    (hb : ∀ c ∈ t, c < 256) (h64 : t.length < 2 ^ 64) :
    GenSrcShiftAndNext.findAllSrc p t = Rs.Res.ok (occurrences p t) := by
  rw [GenSrcShiftAndNext.findAllSrc_eq_model p t hp hm hbp hb h64, shiftAnd_exact p t hp hm]

/-- one call of the translated `next` from a state that satisfies the automaton invariant: no panic; `None` only with the
text exhausted and no further match in the model; `Some(v)` with `v` the model's next match and the invariant restored -/
theorem shiftAnd_next_source_eq_model (p : List Nat) (hp : 0 < p.length) (hm : p.length ≤ 64) (rest pre : List Nat)
    (active : Nat) (hinv : ShiftAnd.Inv p pre active) (hb : ∀ c ∈ rest, c < 256)
    (h64 : pre.length + rest.length < 2 ^ 64) :
    ∃ a' tx' r, GenSrcShiftAndNext.nextS p (active, (rest, pre.length)) = Rs.Res.ok ((a', tx'), r) ∧
      GenSrcShiftAndNext.StepSpec p rest pre active a' tx' (r.map some) :=
  GenSrcShiftAndNext.next_eq_model p hp hm rest pre active hinv hb h64

/-- the translated constructor refuses patterns of more than 64 symbols -/
theorem shiftAnd_new_source_long_panics (p : List Nat) (hm : 64 < p.length) :
    Gen.SrcShiftAndNext.new p = Rs.Res.panic :=
  GenSrcShiftAndNext.new_long_panics p hm

example : GenSrcShiftAndNext.findAllSrc [1, 2, 1] [1, 2, 1, 2, 1] = Rs.Res.ok [0, 2] := by
  rw [shiftAnd_source_exact _ _ (by decide) (by decide) (by decide) (by decide) (by decide)]; decide

/-- **KMP end to end on the translated source text**: `KMP::new(p)` (which calls the translated `lps`), `.find_all(t)`
and `Matches::next` (which calls the translated `delta`) until `None`, as written in `kmp.rs`, never panic (`1 + i - m`
never underflows: the state `m` is only reached after `m` symbols) and list exactly the occurrences of `p` in `t`, for
every non-empty pattern and every byte text. -/
theorem kmp_source_exact (p t : List Nat) (hp : 0 < p.length) (h64 : p.length < 2 ^ 64) (hb : ∀ c ∈ t, c < 256)
    (ht : t.length < 2 ^ 64) : GenSrcKmpNext.findAllSrc p t = Rs.Res.ok (occurrences p t) := by
  rw [GenSrcKmpNext.findAllSrc_eq_model p t hp h64 hb ht, kmp_exact p t hp]

/-- the loop alone: `next` driven until `None` from any state that satisfies the automaton invariant = the scanner of
the mirror model from that state -/
theorem kmp_next_source_eq_model (p : List Nat) (hp : 0 < p.length) (h64 : p.length < 2 ^ 64) (fuel : Nat)
    (rest pre : List Nat) (q : Nat) (hmax : Kmp.MaxPS p pre q) (hb : ∀ c ∈ rest, c < 256)
    (hi : pre.length + rest.length < 2 ^ 64) (hf : rest.length < fuel) :
    Rs.drain (GenSrcKmpNext.nextS p) fuel (q, (rest, pre.length))
      = Rs.Res.ok (Scan.scan (Kmp.delta p (Kmp.lps p)) (fun q => q == p.length) p.length rest pre.length q) :=
  GenSrcKmpNext.drain_eq_scan p hp h64 fuel rest pre q hmax hb hi hf

example : GenSrcKmpNext.findAllSrc [1, 2, 1] [1, 2, 1, 2, 1] = Rs.Res.ok [0, 2] := by decide

/-- **Horspool end to end on the translated source text**: `Horspool::new(p)`, `.find_all(t)` and `Matches::next` until
`None`, as written in `horspool.rs` (the `loop` with the inner skip `while`, the checked `last += shift[..]`,
`last + 1 - m`, the slice comparison `text[i..j] == pattern[..m - 1]`), never panic, never run out of the loop fuel
`n - last + 1` (every table entry is at least 1) and list exactly the occurrences of `p` in `t`, for every non-empty byte
pattern and every byte text with `|t| + |p| < 2^64`. -/
theorem horspool_source_exact (p t : List Nat) (hp : 0 < p.length) (hb : ∀ c ∈ t, c < 256) (hbp : ∀ c ∈ p, c < 256)
    (h64 : t.length + p.length < 2 ^ 64) : GenSrcHorspoolNext.findAllSrc p t = Rs.Res.ok (occurrences p t) := by
  rw [GenSrcHorspoolNext.findAllSrc_eq_model p t hp hb hbp h64, horspool_exact p t hp]

/-- one call of the translated `next` from window end `last ≥ m - 1`: no panic; `None` only if the model's walk from `last`
finds nothing; `Some(i)` with `i` the model's next match, and the model continues from the new `last` (`G` = the mirror
model's `Horspool.go` with sufficient fuel) -/
theorem horspool_next_source_eq_model (p t : List Nat) (hp : 0 < p.length) (hb : ∀ c ∈ t, c < 256)
    (hbp : ∀ c ∈ p, c < 256) (h64 : t.length + p.length < 2 ^ 64) (pl : Nat) (hpl : p[p.length - 1]? = some pl)
    (last : Nat) (hl : p.length - 1 ≤ last) :
    ∃ last' r, GenSrcHorspoolNext.nextS p t pl last = Rs.Res.ok (last', r) ∧
      ((r = none ∧ GenSrcHorspoolNext.G p t last = []) ∨
       (∃ i, r = some i ∧ last < last' ∧ GenSrcHorspoolNext.G p t last = i :: GenSrcHorspoolNext.G p t last')) :=
  GenSrcHorspoolNext.next_eq_model p t hp hb hbp h64 pl hpl last hl

example : GenSrcHorspoolNext.findAllSrc [1, 2, 1] [1, 2, 1, 2, 1] = Rs.Res.ok [0, 2] := by
  rw [horspool_source_exact _ _ (by decide) (by decide) (by decide) (by decide)]; decide

/-- **BNDM end to end on the translated source text**: `BNDM::new(p)` (the translated `shift_and::masks` on the reversed
pattern, the `m <= 64` assertion), `.find_all(t)` and `Matches::next` until `None`, as written in `bndm.rs` (outer window
loop, inner `while active != 0` with its `break`, `text[window - j]`, `window - m`, `m - lastsuffix`, the saturated
start value of `active`), never panic, never run out of the loop fuel and list exactly the occurrences of `p` in `t`, for
every byte pattern of 1..64 symbols and every byte text with `|t| + |p| < 2^64`. -/
theorem bndm_source_exact (p t : List Nat) (hp : 0 < p.length) (hm : p.length ≤ 64) (hbp : ∀ c ∈ p, c < 256)
    (hb : ∀ c ∈ t, c < 256) (h64 : t.length + p.length < 2 ^ 64) :
    GenSrcBndmNext.findAllSrc p t = Rs.Res.ok (occurrences p t) :=
  GenSrcBndmNext.findAllSrc_eq_model p t hp hm hbp hb h64

/-- one call of the translated `next` from window position `window ≥ m`: no panic; `None` only if the model finds nothing
from there; `Some(v)` with `v` the model's next match, and the model continues from the new window (`G` = the mirror model's
`Bndm.outer` with sufficient fuel) -/
theorem bndm_next_source_eq_model (p t : List Nat) (hp : 0 < p.length) (hm : p.length ≤ 64) (hb : ∀ c ∈ t, c < 256)
    (h64 : t.length + p.length < 2 ^ 64) (window : Nat) (hw : p.length ≤ window) :
    ∃ w' r, GenSrcBndmNext.nextS p t window = Rs.Res.ok (w', r) ∧
      ((r = none ∧ GenSrcBndmNext.G p t window = []) ∨
       (∃ v, r = some v ∧ window < w' ∧ p.length ≤ w' ∧
          GenSrcBndmNext.G p t window = v :: GenSrcBndmNext.G p t w')) :=
  GenSrcBndmNext.next_eq_model p t hp hm hb h64 window hw

/-- the translated inner loop follows the mirror model's `Bndm.inner` step by step (whatever the tables) -/
theorem bndm_inner_source_eq_model (ms : ShiftAnd.MState) (m : Nat) (t : List Nat) (window : Nat)
    (hb : ∀ c ∈ t, c < 256) (hw : window + 1 < 2 ^ 64) (fuel j active ls : Nat) (occ0 : Option Nat) (b : Bool)
    (ls' : Nat) (h : Bndm.inner ms m t window fuel j active ls = some (b, ls')) :
    ∃ a' j', Gen.SrcBndmNext.next_while2 (GenSrc.tab 256 ms.masks) t window ms.accept m (fuel + 1) (active, occ0, ls, j)
      = Rs.Res.ok (a', (if b then some (window - m) else occ0), ls', j') :=
  GenSrcBndmNext.while2_eq ms m t window hb hw fuel j active ls occ0 b ls' h

/-- the translated constructor refuses patterns of more than 64 symbols -/
theorem bndm_new_source_long_panics (p : List Nat) (hm : 64 < p.length) : Gen.SrcBndmNext.new p = Rs.Res.panic :=
  GenSrcBndmNext.new_long_panics p hm

example : GenSrcBndmNext.findAllSrc [1, 2, 1] [1, 2, 1, 2, 1] = Rs.Res.ok [0, 2] := by
  rw [bndm_source_exact _ _ (by decide) (by decide) (by decide) (by decide) (by decide)]; decide

/-- **BOM search on the translated source text**: `BOM::find_all(t)` and `Matches::next` until `None` (which calls the
translated `BOM::delta`), as written in `bom.rs` — the backward scan `while j <= m { match q { Some(q_) => …, None =>
break } }`, `text[window - j]`, `window - m`, `m + 2 - j` — run over the oracle table `Bom.build p` of the mirror model,
never panic, never run out of loop fuel and list exactly the occurrences of `p` in `t`, for every non-empty pattern and
every text with `|t| + |p| + 2 < 2^64`.  The constructor `BOM::new` is not translated (`while let`, `VecMap` insertion):
that it builds `Bom.build p` stays tied by the mirror model and the comparison of the real table (tag `bom-table-same`). -/
theorem bom_search_source_exact (p t : List Nat) (hp : 0 < p.length) (h64 : t.length + p.length + 2 < 2 ^ 64) :
    GenSrcBomNext.findAllSrc p t = Rs.Res.ok (occurrences p t) :=
  GenSrcBomNext.findAllSrc_eq_model p t hp h64

/-- `BOM::delta` as written = the model's `delta`, for every table (a `VecMap` given by its entries), state and symbol -/
theorem bom_delta_source_eq_model (T : Bom.Table) (q a : Nat) :
    Gen.SrcBomNext.delta T q a = Rs.Res.ok (Bom.delta T q a) :=
  GenSrcBomNext.delta_eq_model T q a

/-- one call of the translated `next` from window position `window ≥ m` vs. the model's `Bom.search` (`G`) -/
theorem bom_next_source_eq_model (p t : List Nat) (hp : 0 < p.length) (h64 : t.length + p.length + 2 < 2 ^ 64)
    (window : Nat) (hw : p.length ≤ window) :
    ∃ w' r, GenSrcBomNext.nextS p t window = Rs.Res.ok (w', r) ∧
      ((r = none ∧ GenSrcBomNext.G p t window = []) ∨
       (∃ v, r = some v ∧ window < w' ∧ p.length ≤ w' ∧
          GenSrcBomNext.G p t window = v :: GenSrcBomNext.G p t w')) :=
  GenSrcBomNext.next_eq_model p t hp h64 window hw

/-- the translated inner loop follows the model's `scanS` (panics explicit) step by step, for every table -/
theorem bom_scan_source_eq_model (T : Bom.Table) (t : List Nat) (window m : Nat) (hw : window + 1 < 2 ^ 64)
    (fuel j : Nat) (q : Option Nat) (r : Option Nat × Nat) (h : Bom.scanS T t window m fuel j q = some r) :
    Gen.SrcBomNext.next_while2 m T t window (fuel + 1) (q, j) = Rs.Res.ok r :=
  GenSrcBomNext.while2_eq T t window m hw fuel j q r h

example : GenSrcBomNext.findAllSrc [1, 2, 1] [1, 2, 1, 2, 1] = Rs.Res.ok [0, 2] := by decide

end RbV.Thm.C08
