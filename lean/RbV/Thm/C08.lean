import RbV.Spec.Occ
import RbV.Basic.Sorted
import RbV.Model.ShiftAnd
import RbV.Model.Horspool
import RbV.Model.Kmp
import RbV.Model.Bndm
import RbV.Model.Bom
/-!
# C08 — exact matchers return exactly all occurrences

Property theorems (statements only live here; helper lemmas are in `RbV/Spec`, `RbV/Model`, `RbV/Lemmas`).
The oracle used by the driver is `occurrences p t`; the theorems say that it is exactly the ascending,
duplicate-free list of all start positions of `p` in `t`, for every pattern and every text.
-/
namespace RbV.Thm.C08
open RbV

/-- the oracle lists exactly the occurrence positions -/
theorem oracle_exact (p t : List Nat) (i : Nat) :
    i ∈ occurrences p t ↔ (i + p.length ≤ t.length ∧ (t.drop i).take p.length = p) :=
  mem_occurrences p t i

/-- … in strictly increasing order (hence without duplicates) -/
theorem oracle_ascending (p t : List Nat) : (occurrences p t).Pairwise (· < ·) :=
  occurrences_sorted p t

/-- a text shorter than the pattern has no occurrence -/
theorem oracle_short_text (p t : List Nat) (h : t.length < p.length) : occurrences p t = [] := by
  apply List.eq_nil_iff_forall_not_mem.mpr
  intro i hi
  have := (mem_occurrences p t i).mp hi
  unfold OccursAt at this
  omega

/-- any list with these two properties *is* the oracle's answer: the answer is unique, so comparing the
implementation's output with `occurrences p t` for equality is exactly the property. -/
theorem answer_unique (p t l : List Nat) (hs : l.Pairwise (· < ·))
    (hm : ∀ i, i ∈ l ↔ OccursAt p t i) : l = occurrences p t := by
  apply sorted_eq_of_mem_iff l _ hs (occurrences_sorted p t)
  intro i; rw [hm, mem_occurrences]

example : occurrences [1, 2, 1] [1, 2, 1, 2, 1] = [0, 2] := by decide

/-- **ShiftAnd** (mirror model of `shift_and.rs`: the `masks` loop over `u64` with the running bit shifted out
after the 64th symbol, the `((active << 1) | 1) & masks[c]` step with 64-bit truncation, the accept test and the
`i + 1 - m` position arithmetic) yields exactly the oracle's list, for every pattern of 1..64 symbols — in
particular for m = 64, where bit 63 is shifted out — and every text. -/
theorem shiftAnd_exact (p t : List Nat) (hp : 0 < p.length) (hm : p.length ≤ 64) :
    ShiftAnd.findAll p t = occurrences p t :=
  ShiftAnd.findAll_eq_occurrences p t hp hm

example : ShiftAnd.findAll [1, 2, 1] [1, 2, 1, 2, 1] = [0, 2] := by decide

/-- **Horspool** (mirror model of `horspool.rs`: the bad-character table built by the loop over `pattern[..m-1]`,
the skip loop, the `last + 1 - m` arithmetic and the `text[i..j] == pattern[..m-1]` comparison) yields exactly the
oracle's list for every non-empty pattern and every text: no occurrence is skipped by a shift. -/
theorem horspool_exact (p t : List Nat) (hp : 0 < p.length) : Horspool.findAll p t = occurrences p t :=
  Horspool.findAll_eq_occurrences p t hp

example : Horspool.findAll [1, 2, 1] [1, 2, 1, 2, 1] = [0, 2] := by decide

/-- **KMP** (mirror model of `kmp.rs`: the `lps` failure-table loop, `delta` with its
`q == m || (p[q] != a && q > 0)` fall-back loop, and the `1 + i - m` report) yields exactly the oracle's list for
every non-empty pattern and every text. The proof shows that `lps[i]` is the longest proper border of `p[0..=i]`
and that the automaton state is always the longest pattern prefix that is a suffix of the text read so far. -/
theorem kmp_exact (p t : List Nat) (hp : 0 < p.length) : Kmp.findAll p t = occurrences p t :=
  Kmp.findAll_eq_occurrences p t hp

/-- the failure table computed by the model is the table of longest proper borders -/
theorem kmp_lps_is_border_table (p : List Nat) (hp : 0 < p.length) :
    (Kmp.lps p).length = p.length ∧ Kmp.LpsSpec p (Kmp.lps p) :=
  ⟨(Kmp.lps_spec p hp).2, (Kmp.lps_spec p hp).1⟩

example : Kmp.findAll [1, 2, 1] [1, 2, 1, 2, 1] = [0, 2] := by decide
example : Kmp.lps [1, 2, 1, 2, 3] = [0, 0, 1, 2, 0] := by decide

/-- **BNDM** (mirror model of `bndm.rs`: masks of the reversed pattern, the all-ones start state saturated at
m = 64, the right-to-left factor scan with 64-bit truncating shift, `lastsuffix`, the window shift
`m - lastsuffix`) never underflows `window - j`, never indexes out of bounds, and yields exactly the oracle's list
for every pattern of 1..64 symbols and every text: no occurrence is skipped by a window shift. -/
theorem bndm_exact (p t : List Nat) (hp : 0 < p.length) (hm : p.length ≤ 64) :
    Bndm.findAll p t = some (occurrences p t) :=
  Bndm.findAll_eq_occurrences p t hp hm

example : Bndm.findAll [1, 2, 1] [1, 2, 1, 2, 1] = some [0, 2] := by decide

/-- **BOM, partial.** Full statement wanted: `∀ p t, 0 < p.length → Bom.findAll p t = occurrences p t`.
Proved: the *search* (mirror model of the window loop of `bom.rs`: backward scan through the oracle, the
`m + 2 - j` shift, the report) is exact on **every text** for every pattern whose oracle table — as built by the
mirror model of `BOM::new` — satisfies two decidable conditions (`completeB`: every factor of the pattern is accepted
when read backwards; `monotoneB`: transitions go strictly upwards, at most to state `m`, and `q → q+1` only on the
`q`-th symbol of the reversed pattern). Missing: that the construction establishes the two conditions for *every*
pattern (the factor-oracle theorem of Allauzen–Crochemore–Raffinot). The driver evaluates both conditions for each
pattern of the correspondence run (tag `bom-table-ok`), so for every tested pattern the model's search is proved
correct on all texts. -/
theorem bom_exact_partial (p t : List Nat) (hp : 0 < p.length)
    (hC : Bom.completeB (Bom.build p) p = true) (hM : Bom.monotoneB (Bom.build p) p.reverse = true) :
    Bom.findAll p t = occurrences p t :=
  Bom.findAll_eq_occurrences_of_table p t hp hC hM

example : Bom.completeB (Bom.build [1, 2, 1, 1, 2]) [1, 2, 1, 1, 2] = true ∧
    Bom.monotoneB (Bom.build [1, 2, 1, 1, 2]) [1, 2, 1, 1, 2].reverse = true := by decide
example : Bom.findAll [1, 2, 1] [1, 2, 1, 2, 1] = [0, 2] := by decide

end RbV.Thm.C08
