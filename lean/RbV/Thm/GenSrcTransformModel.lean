import RbV.Thm.GenSrcTransform
/-!
**Soft** (shape-dependent) equality: the translated `transform_text` returns exactly the text of the mirror model
`Sais.transformText` (sentinel ranks decreasing from left to right) that the driver runs next to the implementation.
No `Thm/Cxx.lean` imports this file: `tools/gen_tables.py` builds it after regenerating (`soft_modules`) and turns a
failure into a note — another consistent sentinel order (seeded change C03-H1) is property-preserving; the hard
obligation is `RbV.Thm.GenSrcTransform.transform_text_spec` (`Transform.Ok`).
-/
set_option linter.unusedSimpArgs false
set_option linter.unusedVariables false
namespace RbV.Thm.GenSrcTransformModel
open RbV RbV.Rs RbV.Gen RbV.Thm.GenSrc RbV.Transform RbV.Thm.GenSrcAlphabet RbV.Thm.GenSrcTransform

/-- the loop is the mirror model's `transformGo` (same proof as alternative (A) of `transform_text_spec`) -/
theorem for1_down (castT : Nat → Option Nat) (m : VecMap) : ∀ (rk : Nat → Nat) (sent offset B : Nat) (xs : List Nat) (s : Nat) (acc : List Nat),
    Env castT m rk sent offset B xs → xs.count sent ≤ s → s ≤ B →
    SrcTransform.transform_text_for1 castT sent m offset xs (s, acc) =
      Res.ok (s - xs.count sent, acc ++ Sais.transformGo rk sent offset xs s) := by
  intro rk sent offset B xs
  induction xs with
  | nil => intro s acc _ _ _; simp [SrcTransform.transform_text_for1, Sais.transformGo]
  | cons a xs ih =>
    intro s acc he hc hs
    have he' : Env castT m rk sent offset B xs :=
      ⟨fun x hx => he.ranks x (List.mem_cons_of_mem _ hx), fun x hx => he.fits x (List.mem_cons_of_mem _ hx), he.cast,
        he.small⟩
    have hsm := he.small
    by_cases ha : a = sent
    · subst ha
      simp only [List.count_cons_self] at hc
      have e1 : Rs.sub s 1 = Res.ok (s - 1) := Rs.sub_ok (by omega)
      have e2 : castT (s - 1) = some (s - 1) := he.cast _ (by omega)
      have := ih (s - 1) (acc ++ [s - 1]) he' (by omega) (by omega)
      have e3 : s - 1 - xs.count a = s - (xs.count a + 1) := by omega
      simp [SrcTransform.transform_text_for1, Sais.transformGo, e1, e2, this, e3]
    · have ha' : ¬ sent = a := fun e => ha e.symm
      have hcnt : (a :: xs).count sent = xs.count sent := by rw [List.count_cons]; simp [ha]
      rw [hcnt] at hc ⊢
      have e1 : VecMap.get m a = some (rk a) := he.ranks a (by simp) ha
      have hf := he.fits a (by simp) ha
      have e2 : Rs.add 64 (rk a) offset = Res.ok (rk a + offset) := Rs.add_ok (by omega)
      have e2' : Rs.add 64 offset (rk a) = Res.ok (rk a + offset) := by rw [Nat.add_comm]; exact Rs.add_ok (by omega)
      have e3 : castT (rk a + offset) = some (rk a + offset) := he.cast _ hf
      have := ih s (acc ++ [rk a + offset]) he' hc hs
      simp [SrcTransform.transform_text_for1, Sais.transformGo, ha, ha', e1, e2, e2', e3, this]
/-- **translated `transform_text` = mirror model `Sais.transformText`** (the concrete numbers of the pinned text) -/
theorem transform_text_eq_model (castT : Nat → Option Nat) (t : List Nat) (hne : t ≠ []) (hb : ∀ c ∈ t, c < 256)
    (hsz : t.length + 256 < 2 ^ 64)
    (hcast : ∀ x, x < (Alpha.mk t).length + t.count (sentinelOf t) → castT x = some x) :
    SrcTransform.transform_text castT t (Alpha.mk t) (t.count (sentinelOf t)) = Res.ok (Sais.transformText t) := by
  obtain ⟨m, hm1, hm2⟩ := rankNew_eq_model (Alpha.mk t) (Alpha.mk_sorted t) (mk_length_le t)
  have henv := env_of_text castT t hne hb m hm2 hsz hcast
  have hcnt : 0 < t.count (sentinelOf t) := List.count_pos_iff.mpr (Sais.sentinelOf_mem t hne)
  have hcl := List.count_le_length (a := sentinelOf t) (l := t)
  have h1 := sentinel_eq_model t hne
  have e1 : Rs.sub (t.count (sentinelOf t)) 1 = Res.ok (t.count (sentinelOf t) - 1) := Rs.sub_ok hcnt
  have hdown := for1_down castT m (rankOf t) (sentinelOf t) (t.count (sentinelOf t) - 1) _ t (t.count (sentinelOf t)) []
    henv (Nat.le_refl _) (by omega)
  have hgo : Sais.transformGo (rankOf t) (sentinelOf t) (t.count (sentinelOf t) - 1) t (t.count (sentinelOf t)) =
      Sais.transformText t := by
    rw [Sais.transformText_eq]
    unfold Transform.transformText
    exact Sais.transformGo_eq t _ _ _ t _ (fun _ _ => rfl)
  unfold SrcTransform.transform_text
  simp [h1, hm1, e1, hdown, hgo]

-- `A$C$A$` evaluated through the translated code: the numbers of the pinned text
example : (do let alphabet ← Gen.SrcAlphabet.alphabetNew [65, 36, 67, 36, 65, 36]
              let sc ← Gen.SrcTransform.sentinel_count [65, 36, 67, 36, 65, 36]
              Gen.SrcTransform.transform_text (fun x => if x < 256 then some x else none) [65, 36, 67, 36, 65, 36] alphabet sc)
    = Rs.Res.ok [3, 2, 4, 1, 3, 0] := by decide

end RbV.Thm.GenSrcTransformModel
