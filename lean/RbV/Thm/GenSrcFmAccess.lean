import RbV.Gen.SrcFmAccess
import RbV.Thm.GenSrcOcc
import RbV.Thm.GenSrcLess
import RbV.Spec.FMIndex
/-! The accessor chain `FMDIndex::{occ, less}` → `FMIndex::{occ, less}` → translated `Occ::get` / `less[a]`, the views
`BiInterval::{forward, revcomp}` and `Interval::occ`, as written (`RbV/Gen/SrcFmAccess.lean`, regenerated from
`src/data_structures/fmindex.rs` on every `./check C05` / `./check C06`).  Builder genleft. -/
set_option linter.unusedSimpArgs false
namespace RbV.Thm.GenSrcFmAccess
open RbV RbV.Rs RbV.Gen.SrcFmAccess RbV.OccM

/-- a `Res` computation followed by `pure` -/
theorem bind_pure_res {α : Type} (x : Res α) : (x >>= fun t => pure t) = x := by cases x <;> rfl

/-! ### the accessors are the calls they make -/

theorem fmOcc_eq (count : List Nat → Nat → Nat) (F : FMIndex) (r a : Nat) :
    fmOcc count F r a = Gen.SrcOcc.get count F.occ.1 F.occ.2 F.bwt r a := by
  simp [fmOcc, bind_pure_res]

theorem fmLess_eq (F : FMIndex) (a : Nat) : fmLess F a = Rs.idx F.less a := by
  simp [fmLess, bind_pure_res]

theorem fmdOcc_eq (count : List Nat → Nat → Nat) (D : FMDIndex) (r a : Nat) :
    fmdOcc count D r a = Gen.SrcOcc.get count D.fmindex.occ.1 D.fmindex.occ.2 D.fmindex.bwt r a := by
  simp [fmdOcc, bind_pure_res, fmOcc_eq]

theorem fmdLess_eq (D : FMDIndex) (a : Nat) : fmdLess D a = Rs.idx D.fmindex.less a := by
  simp [fmdLess, bind_pure_res, fmLess_eq]

/-- **the accessor chain on the tables the translated constructors build**: `less(bwt, alphabet)` and
`Occ::new(bwt, k, alphabet)` as written (`Gen/SrcLess.lean`, `Gen/SrcOcc.lean`) succeed, and on the index that holds
their results `FMDIndex::less(a)` is the number of BWT symbols below `a` for every `a ≤ max_symbol + 1`,
`FMDIndex::occ(r, a)` the number of `a` in `bwt[0..=r]` for every row and every tracked symbol -/
theorem accessors_exact {Alph : Type} (maxSymbol : Alph → Option Nat) (symbols : Alph → List Nat)
    (isWordDollar : Alph → Bool) (bwt : List Nat) (k : Nat) (alphabet : Alph) (ms : Nat)
    (hms : maxSymbol alphabet = some ms) (hk : 0 < k) (hk32 : k < 2 ^ 32) (hn : bwt.length < 2 ^ 64)
    (hms' : ms + 2 < 2 ^ 64) (hsym : ∀ x ∈ bwt, x ≤ ms) (hal : ∀ a ∈ symbols alphabet, a ≤ ms)
    (hnd : (symbols alphabet).Nodup) (hw : isWordDollar alphabet = false → 36 ∉ symbols alphabet) :
    ∃ lessT occT k', Gen.SrcLess.less maxSymbol bwt alphabet = Res.ok lessT ∧
      Gen.SrcOcc.new maxSymbol symbols isWordDollar bwt k alphabet = Res.ok (occT, k') ∧
      (∀ a, a < ms + 2 →
        fmdLess { fmindex := { bwt := bwt, less := lessT, occ := (occT, k') } } a = Res.ok (lessRef bwt a)) ∧
      (∀ r a, r < bwt.length → a ∈ RbV.Thm.GenSrcOcc.alphaOf (symbols alphabet) (isWordDollar alphabet) (ms + 1) →
        fmdOcc (fun s c => s.count c) { fmindex := { bwt := bwt, less := lessT, occ := (occT, k') } } r a
          = Res.ok (occRef bwt r a)) := by
  have hl := RbV.Thm.GenSrcLess.less_eq_model maxSymbol bwt alphabet ms hms hms' hn (fun x hx => by have := hsym x hx; omega)
  have hnew := RbV.Thm.GenSrcOcc.new_eq_model maxSymbol symbols isWordDollar bwt k alphabet ms hms hk hn (by omega) hsym hal
  refine ⟨_, _, _, hl, hnew, fun a ha => ?_, fun r a hr ha => ?_⟩
  · rw [fmdLess_eq]
    have := less_eq bwt (ms + 2) a ha
    obtain ⟨hlt, hv⟩ := List.getElem?_eq_some_iff.mp this
    show Rs.idx (lessModel bwt (ms + 2)) a = _
    rw [Rs.idx_ok hlt, hv]
  · rw [fmdOcc_eq]
    obtain ⟨tbl, k'', h1, h2⟩ := RbV.Thm.GenSrcOcc.get_new_exact maxSymbol symbols isWordDollar bwt k alphabet ms hms hk hk32 hn
      (by omega) hsym hal hnd hw a r ha hr
    rw [hnew] at h1
    cases h1
    exact h2

/-! ### `BiInterval::forward` / `revcomp`, `Interval::occ` -/

theorem biForward_eq (iv : BiInterval) (h : iv.lower + iv.size < 2 ^ 64) :
    biForward iv = Res.ok { lower := iv.lower, upper := iv.lower + iv.size } := by
  have e1 : Rs.add 64 iv.lower iv.size = Res.ok (iv.lower + iv.size) := Rs.add_ok h
  have e2 : Rs.add 64 iv.size iv.lower = Res.ok (iv.lower + iv.size) := by rw [Nat.add_comm]; exact Rs.add_ok (by omega)
  simp [biForward, e1, e2]

theorem biRevcomp_eq (iv : BiInterval) (h : iv.lower_rev + iv.size < 2 ^ 64) :
    biRevcomp iv = Res.ok { lower := iv.lower_rev, upper := iv.lower_rev + iv.size } := by
  have e1 : Rs.add 64 iv.lower_rev iv.size = Res.ok (iv.lower_rev + iv.size) := Rs.add_ok h
  have e2 : Rs.add 64 iv.size iv.lower_rev = Res.ok (iv.lower_rev + iv.size) := by rw [Nat.add_comm]; exact Rs.add_ok (by omega)
  simp [biRevcomp, e1, e2]

theorem mapM_ok {α β : Type} (f : α → Res β) (g : α → β) : ∀ l : List α, (∀ x ∈ l, f x = Res.ok (g x)) →
    List.mapM f l = Res.ok (l.map g)
  | [], _ => rfl
  | x :: l, h => by
    rw [List.mapM_cons, h x (by simp), mapM_ok f g l (fun y hy => h y (by simp [hy]))]
    rfl

theorem map_range'_getD (sa : List Nat) (lo hi : Nat) (h : hi ≤ sa.length) :
    (List.range' lo (hi - lo)).map (fun i => sa.getD i 0) = ivMap sa lo hi := by
  unfold ivMap
  apply List.ext_getElem
  · simp; omega
  · intro i h1 h2
    simp only [List.length_map, List.length_range'] at h1
    simp only [List.getElem_map, List.getElem_range', Nat.one_mul, List.getElem_take, List.getElem_drop]
    rw [List.getD_eq_getElem?_getD, List.getElem?_eq_getElem (by omega), Option.getD_some]

/-- **`Interval::occ`, as written, returns the suffix-array entries of the rows `lower .. upper`** (`ivMap`, the list the
property's `MapsTo` speaks about), for every `SuffixArray::get` that returns `Some(sa[i])` on the rows of the array -/
theorem intervalOcc_eq_model {σ : Type} (saGet : σ → Nat → Res (Option Nat)) (s : σ) (sa : List Nat)
    (hget : ∀ i, i < sa.length → saGet s i = Res.ok (some (sa.getD i 0)))
    (lo hi : Nat) (h : hi ≤ sa.length) :
    intervalOcc saGet { lower := lo, upper := hi } s = Res.ok (ivMap sa lo hi) := by
  unfold intervalOcc
  have hm := mapM_ok (fun pos => do
      let t1 ← saGet s pos
      let t2 ← Rs.expect t1
      pure t2) (fun i => sa.getD i 0) (List.range' lo (hi - lo)) (by
    intro x hx
    have hx' : x < sa.length := by
      have := List.mem_range'.mp hx
      omega
    simp [hget x hx', Rs.expect])
  simp only [hm, map_range'_getD sa lo hi h]
  all_goals first | rfl | simp

/-- out of range: a row for which `get` returns `None` makes `occ` panic (`.expect("Interval out of range …")`) -/
theorem intervalOcc_out_of_range {σ : Type} (saGet : σ → Nat → Res (Option Nat)) (s : σ) (lo hi : Nat) (h : lo < hi)
    (hnone : saGet s lo = Res.ok none) :
    intervalOcc saGet { lower := lo, upper := hi } s = Res.panic := by
  unfold intervalOcc
  obtain ⟨d, hd⟩ : ∃ d, hi - lo = d + 1 := ⟨hi - lo - 1, by omega⟩
  simp [hd, List.range'_succ, List.mapM_cons, hnone, Rs.expect]

end RbV.Thm.GenSrcFmAccess
