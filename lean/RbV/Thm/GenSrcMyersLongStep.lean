import RbV.Thm.GenSrcMyersLong
/-!
# The translated text of `long.rs: States::add_state`, `States::step` equals the mirror model `MyersLong.stepStates`

`RbV/Gen/SrcMyersLong.lean` (regenerated on every `./check C09`).  The active blocks `states: Vec<State<T, usize>>` are a list
of triples `(pv, mv, dist)`, the per-block pattern data `peq: &[Peq<T>]` a list of pairs `(peq table, bound)`.

* `for1_fold`: the carry chain `for (state, block_peq) in self.states.iter_mut().zip(peq) { carry = advance_block(..) }` =
  `MyersLong.advanceAll` (through `advanceBlock_eq_model`);
* `while1_eq` / `take_cutIdx`: the deactivation loop + `truncate` = `cutRev` on the reversed list;
* `addState_eq_model`: `add_state(-carry)` appends `State::init(prev_dist + delta − carry)`;
* `step_eq_model`: the whole function, including the lazy activation test
  `(last_dist as isize - carry as isize) as usize <= max_dist && last_block < max_block && (peq[..] & 1 == 1 || carry < 0)`.
-/
set_option linter.unusedSimpArgs false
set_option linter.unusedVariables false

namespace RbV.Thm.GenSrcMyersLongStep
open RbV RbV.Rs RbV.Model.MyersSimple RbV.Model.MyersLong RbV.Thm.GenSrcMyersSimple RbV.Thm.GenSrc RbV.Thm.GenSrcMyersLong

/-- the active blocks as the translated code holds them -/
def repS {w : Nat} (sts : List (St w)) : List (Nat × Nat × Nat) := sts.map rep

/-- the per-block pattern data the constructor stores: the `peq` table of the block's symbols and `bound = 1 << (len-1)` -/
def peqL (w : Nat) (eqv : Nat → Nat → Bool) (blks : List (List Nat)) : List (List Nat × Nat) :=
  blks.map (fun blk => (peqTab w eqv blk, 2 ^ (blk.length - 1)))

/-- the side condition of `advanceBlock_eq_model` for block `s` with pattern symbols `blk` -/
def BlockOk {w : Nat} (eqv : Nat → Nat → Bool) (a : Nat) (blk : List Nat) (s : St w) (hin : Int) : Prop :=
  ((s.pv &&& xhOf (if hin < 0 then peq w eqv blk a ||| 1#w else peq w eqv blk a) s.pv).getLsbD (blk.length - 1)).toNat ≤
    s.dist + ((s.mv ||| ~~~(xhOf (if hin < 0 then peq w eqv blk a ||| 1#w else peq w eqv blk a) s.pv ||| s.pv)).getLsbD
      (blk.length - 1)).toNat ∧ s.dist + 1 < 2 ^ 63

/-- … along the carry chain -/
def ChainOk {w : Nat} (eqv : Nat → Nat → Bool) (a : Nat) : List (List Nat) → List (St w) → Int → Prop
  | blk :: blks, s :: ss, hin =>
    BlockOk eqv a blk s hin ∧ ChainOk eqv a blks ss (advanceBlock (blk.length - 1) (peq w eqv blk a) hin s).2
  | _, _, _ => True

theorem hout_range {w : Nat} (bnd : Nat) (eq : BitVec w) (hin : Int) (s : St w) :
    -1 ≤ (advanceBlock bnd eq hin s).2 ∧ (advanceBlock bnd eq hin s).2 ≤ 1 := by
  simp only [advanceBlock]
  cases (s.mv ||| ~~~(xhOf (if hin < 0 then eq ||| 1#w else eq) s.pv ||| s.pv)).getLsbD bnd <;>
    cases (s.pv &&& xhOf (if hin < 0 then eq ||| 1#w else eq) s.pv).getLsbD bnd <;> simp

/-- **the carry chain over the active blocks** = `advanceAll` -/
theorem for1_fold (w : Nat) (eqv : Nat → Nat → Bool) (a : Nat) (hw : 1 < w) (ha : a < 256) :
    ∀ (blks : List (List Nat)) (sts : List (St w)) (hin : Int) (acc : List (Nat × Nat × Nat)),
      (-1 ≤ hin ∧ hin ≤ 1) → ChainOk eqv a blks sts hin →
      (List.zip (repS sts) (peqL w eqv blks)).foldlM (RbV.Gen.SrcMyersLong.step_for1 (w := w) (a := a)) (Rs.ofInt 8 hin, acc) =
        Res.ok (Rs.ofInt 8 (advanceAll eqv a blks sts hin).2, acc ++ repS (advanceAll eqv a blks sts hin).1) := by
  intro blks
  induction blks with
  | nil => intro sts hin acc _ _; cases sts <;> simp [repS, peqL, advanceAll]
  | cons blk blks ih =>
    intro sts hin acc hh hok
    cases sts with
    | nil => simp [repS, peqL, advanceAll]
    | cons s ss =>
      obtain ⟨⟨hlo, hhi⟩, hrest⟩ := hok
      have hpeq : Rs.idx (peqTab w eqv blk) a = Res.ok (peq w eqv blk a).toNat := idx_tab 256 _ a ha
      have hstep := advanceBlock_eq_model w (blk.length - 1) hw (peqTab w eqv blk) a (peq w eqv blk a) s hin hh hpeq hlo (by omega)
      have hr := hout_range (blk.length - 1) (peq w eqv blk a) hin s
      have ih' := ih ss (advanceBlock (blk.length - 1) (peq w eqv blk a) hin s).2
        (acc ++ [rep (advanceBlock (blk.length - 1) (peq w eqv blk a) hin s).1]) hr hrest
      simp only [repS, peqL, List.map_cons, List.zip_cons_cons, List.foldlM_cons, RbV.Gen.SrcMyersLong.step_for1, rep] at ih' ⊢
      simp only [hstep, Res.ok_bind, Res.pure_eq_ok]
      rw [ih']
      simp [advanceAll, rep, repS]

/-! ### the deactivation loop -/

/-- `while last_block > 0 && states[last_block].dist >= max_dist + w { last_block -= 1 }` as a function of the start index -/
def cutIdx {w : Nat} (L : List (St w)) (k ww : Nat) : Nat → Nat
  | 0 => 0
  | lb + 1 =>
    match L[lb + 1]? with
    | some s => if s.dist ≥ k + ww then cutIdx L k ww lb else lb + 1
    | none => lb + 1

theorem idx_repS {w : Nat} (L : List (St w)) (i : Nat) (s : St w) (h : L[i]? = some s) : Rs.idx (repS L) i = Res.ok (rep s) := by
  apply Rs.idx_of_getElem?
  simp [repS, h]

theorem while1_eq (w : Nat) (L : List (St w)) (k ww : Nat) (hd : ∀ s ∈ L, s.dist + 1 < 2 ^ 63) :
    ∀ lb fuel, lb < fuel → lb < L.length →
      RbV.Gen.SrcMyersLong.step_while1 (w := w) (states := repS L) (max_dist := k) (w' := ww) fuel lb =
        Res.ok (cutIdx L k ww lb) := by
  intro lb
  induction lb with
  | zero =>
    intro fuel hf hl
    cases fuel with
    | zero => omega
    | succ fuel => rw [RbV.Gen.SrcMyersLong.step_while1]; simp [cutIdx]
  | succ lb ih =>
    intro fuel hf hl
    cases fuel with
    | zero => omega
    | succ fuel =>
      have hget : L[lb + 1]? = some L[lb + 1] := List.getElem?_eq_getElem hl
      have e1 := idx_repS L (lb + 1) _ hget
      have e2 : Rs.sub (lb + 1) 1 = Res.ok lb := by rw [Rs.sub_ok (by omega)]; rfl
      have hdl := hd L[lb + 1] (List.getElem_mem hl)
      have hsat : (L[lb + 1].dist ≥ Rs.saturatingAdd 64 k ww) = (L[lb + 1].dist ≥ k + ww) := by
        simp only [Rs.saturatingAdd, ge_iff_le, eq_iff_iff]; omega
      rw [RbV.Gen.SrcMyersLong.step_while1]
      by_cases hge : L[lb + 1].dist ≥ k + ww
      · have hge' : k + ww ≤ L[lb + 1].dist := hge
        simp [e1, e2, rep, hsat, hge, hge', cutIdx, hget, ih fuel (by omega) (by omega)]
      · have hge' : ¬ k + ww ≤ L[lb + 1].dist := hge
        have hlt : L[lb + 1].dist < k + ww := by omega
        simp [e1, e2, rep, hsat, hge, hge', hlt, cutIdx, hget]

/-- … followed by `truncate(last_block + 1)` = `cutRev` on the reversed list -/
theorem take_cutIdx {w : Nat} (L : List (St w)) (k ww : Nat) : ∀ lb, lb < L.length →
    L.take (cutIdx L k ww lb + 1) = (cutRev k ww (L.take (lb + 1)).reverse).reverse := by
  intro lb
  induction lb with
  | zero =>
    intro hl
    cases L with
    | nil => simp at hl
    | cons s L => simp [cutIdx, cutRev]
  | succ lb ih =>
    intro hl
    have hget : L[lb + 1]? = some L[lb + 1] := List.getElem?_eq_getElem hl
    have htake : L.take (lb + 1 + 1) = L.take (lb + 1) ++ [L[lb + 1]] := by
      rw [List.take_add_one, hget]; rfl
    have hne : (L.take (lb + 1)).reverse ≠ [] := by
      intro h
      have hlen : ((L.take (lb + 1)).reverse).length = lb + 1 := by
        rw [List.length_reverse, List.length_take]; omega
      rw [h] at hlen
      simp at hlen
    cases hr : (L.take (lb + 1)).reverse with
    | nil => exact absurd hr hne
    | cons s2 ss =>
      rw [htake, List.reverse_append, List.reverse_singleton, List.singleton_append, hr]
      simp only [cutIdx, hget, cutRev]
      by_cases hge : L[lb + 1].dist ≥ k + ww
      · simp only [hge, if_true]
        rw [← hr]
        exact ih (by omega)
      · simp only [hge, if_false]
        rw [← hr, List.reverse_cons, List.reverse_reverse, htake]

theorem cutIdx_le {w : Nat} (L : List (St w)) (k ww : Nat) : ∀ lb, cutIdx L k ww lb ≤ lb := by
  intro lb
  induction lb with
  | zero => simp [cutIdx]
  | succ lb ih =>
    simp only [cutIdx]
    split
    · split <;> omega
    · omega

/-! ### `add_state` -/

theorem init_eq_rep (w wd d : Nat) : RbV.Gen.SrcMyersState.init w wd d = Res.ok (rep (⟨BitVec.allOnes w, 0#w, d⟩ : St w)) := by
  simp [RbV.Gen.SrcMyersState.init, rep, maxVal_toNat]

/-- the distance of the last active block (0 for none) -/
def lastDist {w : Nat} (L : List (St w)) : Nat := (L.getLast?.map (·.dist)).getD 0

/-- **`States::add_state(offset)` as written**: appends `State::init(prev_dist + delta + offset)`, `delta` = the rows of the new
block (`last_m` for a partial last block, else `w`) -/
theorem addState_eq_model (w : Nat) (L : List (St w)) (mb lm : Nat) (o : Int) (ho : -1 ≤ o ∧ o ≤ 1)
    (hnn : 0 ≤ (lastDist L : Int) + (if L.length = mb ∧ lm > 0 then lm else w : Nat) + o)
    (hlt : lastDist L + (if L.length = mb ∧ lm > 0 then lm else w) + 1 < 2 ^ 64) :
    RbV.Gen.SrcMyersLong.addState (w := w) (states := repS L) (max_block := mb) (last_m := lm) (offset := Rs.ofInt 8 o) =
      Res.ok (repS (L ++ [⟨BitVec.allOnes w, 0#w,
        ((lastDist L : Int) + (if L.length = mb ∧ lm > 0 then lm else w : Nat) + o).toNat⟩])) := by
  have i1 : Rs.ofInt 8 (-1) = 255 := by decide
  have i2 : Rs.ofInt 8 0 = 0 := by decide
  have i3 : Rs.ofInt 8 1 = 1 := by decide
  have hprev : (((repS L).getLast?).map (fun s => s.2.2)).getD 0 = lastDist L := by
    simp [repS, lastDist, List.getLast?_map, rep, Option.map_map, Function.comp_def]
  have hdelta : (if ((repS L).length == mb) && decide (lm > 0) then lm else w) = (if L.length = mb ∧ lm > 0 then lm else w) := by
    simp [repS]
  have hdelta' : (if decide (lm > 0) && ((repS L).length == mb) then lm else w) = (if L.length = mb ∧ lm > 0 then lm else w) := by
    rw [Bool.and_comm]; exact hdelta
  generalize hdel : (if L.length = mb ∧ lm > 0 then lm else w) = delta at *
  have key : ∀ d : Nat, d < 2 ^ 64 →
      Rs.wrappingAdd 64 (Rs.wrappingAdd 64 (lastDist L) delta) (Rs.sext 8 64 (Rs.ofInt 8 o)) = d →
      RbV.Gen.SrcMyersLong.addState (w := w) (states := repS L) (max_block := mb) (last_m := lm) (offset := Rs.ofInt 8 o) =
        Res.ok (repS (L ++ [⟨BitVec.allOnes w, 0#w, d⟩])) := by
    intro d hd hwa
    simp only [RbV.Gen.SrcMyersLong.addState, hprev, hdelta, hdelta', hdel, hwa, Rs.cvt_ok hd, init_eq_rep, Res.ok_bind, Res.pure_eq_ok]
    simp [repS]
  rcases (by omega : o = -1 ∨ o = 0 ∨ o = 1) with rfl | rfl | rfl
  · apply key _ (by omega)
    simp only [i1, Rs.sext_8_64_neg_one, Rs.wrappingAdd]; omega
  · apply key _ (by omega)
    simp only [i2, Rs.sext_8_64_zero, Rs.wrappingAdd]; omega
  · apply key _ (by omega)
    simp only [i3, Rs.sext_8_64_one, Rs.wrappingAdd]; omega

/-! ### `States::step` -/

theorem advanceAll_length {w : Nat} (eqv : Nat → Nat → Bool) (a : Nat) : ∀ (blks : List (List Nat)) (sts : List (St w)) (hin : Int),
    sts.length ≤ blks.length → (advanceAll eqv a blks sts hin).1.length = sts.length := by
  intro blks
  induction blks with
  | nil => intro sts hin h; cases sts <;> simp_all [advanceAll]
  | cons blk blks ih =>
    intro sts hin h
    cases sts with
    | nil => simp [advanceAll]
    | cons s ss => simp [advanceAll, ih ss _ (by simpa using h)]

theorem advanceAll_range {w : Nat} (eqv : Nat → Nat → Bool) (a : Nat) : ∀ (blks : List (List Nat)) (sts : List (St w)) (hin : Int),
    (-1 ≤ hin ∧ hin ≤ 1) → -1 ≤ (advanceAll eqv a blks sts hin).2 ∧ (advanceAll eqv a blks sts hin).2 ≤ 1 := by
  intro blks
  induction blks with
  | nil => intro sts hin h; cases sts <;> simpa [advanceAll] using h
  | cons blk blks ih =>
    intro sts hin h
    cases sts with
    | nil => simpa [advanceAll] using h
    | cons s ss =>
      simp only [advanceAll]
      exact ih ss _ (hout_range _ _ _ _)

/-- `x & T::one() == T::one()` tests bit 0 -/
theorem test_bit0 {w : Nat} (x : BitVec w) : ((x.toNat &&& 1) == 1) = x.getLsbD 0 := by
  unfold BitVec.getLsbD
  rw [Nat.and_one_is_mod, Nat.testBit_zero]
  rcases Nat.mod_two_eq_zero_or_one x.toNat with h | h <;> simp [h]

theorem getLast?_eq_getElem? {α : Type} (L : List α) : L.getLast? = L[L.length - 1]? := by
  rw [List.getLast?_eq_getElem?]

/-- the fresh block `add_state(-carry)` appends -/
def freshBlock (w : Nat) {w' : Nat} (R1 : List (St w')) (len : Nat) (c : Int) : St w :=
  ⟨BitVec.allOnes w, 0#w, ((lastDist R1 : Int) + (len : Int) - c).toNat⟩

/-- **`States::step` as written = the model's `stepStates`** (carry chain, lazy activation of the next block, deactivation of
trailing blocks), for every word width.  Side conditions — all of them hold on every state a search reaches (they are
consequences of the `Band` invariant behind `myers_long_eq`): no `dist` update wraps (`ChainOk`, `hfresh`), distances stay
below `2^63` so that the `isize` round trip of the activation test is exact (`hd`), the previous column's value
`last_dist − carry` is not negative (`hnn`), the blocks have the lengths `States::new` assumes (`hblk`). -/
theorem step_eq_model (w : Nat) (eqv : Nat → Nat → Bool) (blks : List (List Nat)) (k a lm : Nat) (sts : List (St w))
    (hw : 1 < w) (hwlt : w < 2 ^ 62) (hlm : lm ≤ w) (ha : a < 256) (hne : sts ≠ []) (hlen : sts.length ≤ blks.length)
    (hbl : blks.length < 2 ^ 63)
    (hblk : ∀ i blk, blks[i]? = some blk → blk.length = (if i = blks.length - 1 ∧ lm > 0 then lm else w))
    (hchain : ChainOk eqv a blks sts 0)
    (hd : ∀ s ∈ (advanceAll eqv a blks sts 0).1, s.dist + 1 < 2 ^ 63)
    (hnn : 0 ≤ (lastDist (advanceAll eqv a blks sts 0).1 : Int) - (advanceAll eqv a blks sts 0).2)
    (hfresh : ∀ blk, blks[sts.length]? = some blk →
      BlockOk eqv a blk (freshBlock w (advanceAll eqv a blks sts 0).1 blk.length (advanceAll eqv a blks sts 0).2)
        (advanceAll eqv a blks sts 0).2) :
    RbV.Gen.SrcMyersLong.step (w := w) (states := repS sts) (max_block := blks.length - 1) (last_m := lm) (a := a)
        (peq := peqL w eqv blks) (max_dist := k) =
      Res.ok (repS (stepStates eqv blks k a sts)) := by
  have i1 : Rs.ofInt 8 (-1) = 255 := by decide
  have i2 : Rs.ofInt 8 0 = 0 := by decide
  have i3 : Rs.ofInt 8 1 = 1 := by decide
  have j1 : Rs.toInt 8 255 = -1 := by decide
  have j2 : Rs.toInt 8 0 = 0 := by decide
  have j3 : Rs.toInt 8 1 = 1 := by decide
  have hslen : 0 < sts.length := by cases sts <;> simp_all
  have hfold := for1_fold w eqv a hw ha blks sts 0 [] (by omega) hchain
  have hrange := advanceAll_range eqv a blks sts 0 (by omega)
  have hRlen := advanceAll_length eqv a blks sts 0 hlen
  rcases hR : advanceAll eqv a blks sts 0 with ⟨R1, c⟩
  rw [hR] at hfold hrange hRlen hd hnn hfresh
  simp only at hfold hrange hRlen hd hnn hfresh
  rw [i2] at hfold
  have e1 : Rs.sub (repS sts).length 1 = Res.ok (sts.length - 1) := by
    rw [Rs.sub_ok (by simp [repS]; omega)]; simp [repS]
  have hdrop : (repS sts).drop (peqL w eqv blks).length = [] := by
    apply List.drop_eq_nil_of_le; simp [repS, peqL]; exact hlen
  -- the last active block
  have hR1ne : R1 ≠ [] := by intro h; rw [h] at hRlen; simp at hRlen; omega
  obtain ⟨last, hlast⟩ : ∃ last, R1.getLast? = some last := by
    cases hl : R1.getLast? with
    | none => exact absurd (List.getLast?_eq_none_iff.mp hl) hR1ne
    | some x => exact ⟨x, rfl⟩
  have hlastIdx : R1[sts.length - 1]? = some last := by rw [← hRlen, ← getLast?_eq_getElem?]; exact hlast
  have hld : lastDist R1 = last.dist := by simp [lastDist, hlast]
  have hlastmem : last ∈ R1 := List.mem_of_getElem? hlastIdx
  have hdl := hd last hlastmem
  have e3 : Rs.idx (repS R1) (sts.length - 1) = Res.ok (rep last) := idx_repS R1 _ last hlastIdx
  rw [hld] at hnn
  -- the activation test `(last_dist as isize - carry as isize) as usize`
  have e4 : Rs.subI 64 last.dist (Rs.sext 8 64 (Rs.ofInt 8 c)) = Res.ok ((last.dist : Int) - c).toNat := by
    have h63 : (2 : Int) ^ (64 - 1) = 9223372036854775808 := by decide
    have hti : Rs.toInt 64 last.dist = (last.dist : Int) := by
      unfold Rs.toInt
      have : last.dist < 2 ^ (64 - 1) := by omega
      simp [this]
    rcases (by omega : c = -1 ∨ c = 0 ∨ c = 1) with rfl | rfl | rfl
    · have hs : Rs.toInt 64 (Rs.sext 8 64 (Rs.ofInt 8 (-1))) = -1 := by decide
      unfold Rs.subI
      rw [hti, hs, h63]
      have hc : -9223372036854775808 ≤ (last.dist : Int) - -1 ∧ (last.dist : Int) - -1 < 9223372036854775808 := by omega
      simp only [hc, and_self, if_true]
      congr 1
      unfold Rs.ofInt
      have : ((last.dist : Int) - -1) % 2 ^ 64 = (last.dist : Int) - -1 := Int.emod_eq_of_lt (by omega) (by omega)
      rw [this]
    · have hs : Rs.toInt 64 (Rs.sext 8 64 (Rs.ofInt 8 0)) = 0 := by decide
      unfold Rs.subI
      rw [hti, hs, h63]
      have hc : -9223372036854775808 ≤ (last.dist : Int) - 0 ∧ (last.dist : Int) - 0 < 9223372036854775808 := by omega
      simp only [hc, and_self, if_true]
      congr 1
      unfold Rs.ofInt
      have : ((last.dist : Int) - 0) % 2 ^ 64 = (last.dist : Int) - 0 := Int.emod_eq_of_lt (by omega) (by omega)
      rw [this]
    · have hs : Rs.toInt 64 (Rs.sext 8 64 (Rs.ofInt 8 1)) = 1 := by decide
      unfold Rs.subI
      rw [hti, hs, h63]
      have hc : -9223372036854775808 ≤ (last.dist : Int) - 1 ∧ (last.dist : Int) - 1 < 9223372036854775808 := by omega
      simp only [hc, and_self, if_true]
      congr 1
      unfold Rs.ofInt
      have : ((last.dist : Int) - 1) % 2 ^ 64 = (last.dist : Int) - 1 := Int.emod_eq_of_lt (by omega) (by omega)
      rw [this]
  have hle : (((last.dist : Int) - c).toNat ≤ k) = ((last.dist : Int) - c ≤ (k : Int)) := by
    simp only [eq_iff_iff]; omega
  have hcneg : decide (Rs.toInt 8 (Rs.ofInt 8 c) < Rs.toInt 8 0) = decide (c < 0) := by
    rcases (by omega : c = -1 ∨ c = 0 ∨ c = 1) with rfl | rfl | rfl <;> decide
  have hlb : (sts.length - 1 < blks.length - 1) = (sts.length < blks.length) := by
    simp only [eq_iff_iff]; omega
  -- the deactivation branch
  have ew := while1_eq w R1 k w hd (sts.length - 1) (sts.length - 1 + 1) (by omega) (by omega)
  have hcle := cutIdx_le R1 k w (sts.length - 1)
  have eadd : Rs.add 64 (cutIdx R1 k w (sts.length - 1)) 1 = Res.ok (cutIdx R1 k w (sts.length - 1) + 1) := Rs.add_ok (by omega)
  have etake : (repS R1).take (cutIdx R1 k w (sts.length - 1) + 1) = repS ((cutRev k w R1.reverse).reverse) := by
    have := take_cutIdx R1 k w (sts.length - 1) (by omega)
    have hfull : R1.take (sts.length - 1 + 1) = R1 := by
      rw [show sts.length - 1 + 1 = R1.length by omega]; exact List.take_length
    rw [hfull] at this
    rw [← this]
    simp [repS, List.map_take]
  -- unfold both sides
  unfold RbV.Gen.SrcMyersLong.step
  simp only [stepStates, hR]
  simp only [e1, hfold, hdrop, Res.ok_bind, Res.pure_eq_ok, List.nil_append, List.append_nil, e3, rep, e4, hle, hcneg, hlb,
    hlast, Option.map_some, Option.getD_some]
  by_cases hin : sts.length < blks.length
  · -- there is a next block
    obtain ⟨blk, hblkget⟩ : ∃ blk, blks[sts.length]? = some blk := ⟨blks[sts.length], List.getElem?_eq_getElem hin⟩
    have hsl : sts.length - 1 + 1 = sts.length := by omega
    have e5 : Rs.add 64 (sts.length - 1) 1 = Res.ok sts.length := by rw [Rs.add_ok (by omega), hsl]
    have e6 : Rs.idx (peqL w eqv blks) sts.length = Res.ok (peqTab w eqv blk, 2 ^ (blk.length - 1)) := by
      apply Rs.idx_of_getElem?; simp [peqL, hblkget]
    have e7 : Rs.idx (peqTab w eqv blk) a = Res.ok (peq w eqv blk a).toNat := idx_tab 256 _ a ha
    have hlen' := hblk sts.length blk hblkget
    by_cases hact : ((last.dist : Int) - c ≤ (k : Int)) ∧ ((peq w eqv blk a).getLsbD 0 = true ∨ c < 0)
    · -- activation
      have hfr := hfresh blk hblkget
      have e8 : Rs.neg 8 (Rs.ofInt 8 c) = Res.ok (Rs.ofInt 8 (-c)) := by
        rcases (by omega : c = -1 ∨ c = 0 ∨ c = 1) with rfl | rfl | rfl <;> decide
      have hdelta : (if R1.length = blks.length - 1 ∧ lm > 0 then lm else w) = blk.length := by rw [hRlen, hlen']
      have e9 := addState_eq_model w R1 (blks.length - 1) lm (-c) (by omega)
        (by rw [hdelta, hld]; have := hrange; omega) (by rw [hdelta, hld]; split at hlen' <;> omega)
      rw [hdelta] at e9
      have hfreshEq : (⟨BitVec.allOnes w, 0#w, ((lastDist R1 : Int) + (blk.length : Nat) + -c).toNat⟩ : St w) =
          freshBlock w R1 blk.length c := by
        simp only [freshBlock]; first | rfl | (congr 1; omega) | congr 1
      rw [hfreshEq] at e9
      have e10 : Rs.idx (repS (R1 ++ [freshBlock w R1 blk.length c])) sts.length = Res.ok (rep (freshBlock w R1 blk.length c)) := by
        apply idx_repS; rw [← hRlen]; simp
      have e11 := advanceBlock_eq_model w (blk.length - 1) hw (peqTab w eqv blk) a (peq w eqv blk a)
        (freshBlock w R1 blk.length c) c hrange e7 hfr.1 (by have := hfr.2; omega)
      have e12 : ∀ v : St w, Rs.setIdx (repS (R1 ++ [freshBlock w R1 blk.length c])) sts.length (rep v) =
          Res.ok (repS (R1 ++ [v])) := by
        intro v
        rw [Rs.setIdx_ok (by simp [repS]; omega)]
        simp [repS, ← hRlen]
      have hc1 : (last.dist : Int) - c ≤ (k : Int) := hact.1
      have hbitN := test_bit0 (peq w eqv blk a)
      have hor : ((peq w eqv blk a).getLsbD 0 || decide (c < 0)) = true := by
        rcases hact.2 with h | h <;> simp [h]
      simp only [rep] at e11 e12
      have hfb : (⟨BitVec.allOnes w, 0#w, ((last.dist : Int) + (blk.length : Int) - c).toNat⟩ : St w) =
          freshBlock w R1 blk.length c := by
        simp only [freshBlock, hld]
      have hset := e12 (advanceBlock (blk.length - 1) (peq w eqv blk a) c (freshBlock w R1 blk.length c)).1
      -- the two disjuncts of the test may be evaluated in either order (`||` short-circuits): decide both
      cases hb : (peq w eqv blk a).getLsbD 0 <;> by_cases hc0 : c < 0 <;>
        simp only [hb, hc0, decide_true, decide_false, Bool.or_false, Bool.false_or, Bool.or_true, Bool.true_or,
          Bool.false_eq_true] at hor
      all_goals
        simp only [hin, hc1, hbitN, hb, hc0, decide_true, decide_false, Bool.true_and, Bool.and_true, Bool.or_false,
          Bool.false_or, Bool.or_true, Bool.true_or, e5, e6, e7, Res.ok_bind, Res.pure_eq_ok, if_true, if_false,
          Bool.false_eq_true, e8, e9, e10, rep, hblkget, hnn]
        rw [e11]
        simp only [Res.ok_bind, hset, hsl, hblkget, hb, hc0, decide_true, decide_false, Bool.or_false, Bool.false_or,
          Bool.or_true, Bool.true_or, if_true, hfb]
    · -- the next block stays switched off
      have hsl' : blks[sts.length - 1 + 1]? = some blk := by rw [hsl]; exact hblkget
      by_cases hc1 : (last.dist : Int) - c ≤ (k : Int)
      · have hbit : (peq w eqv blk a).getLsbD 0 = false := by
          cases hb : (peq w eqv blk a).getLsbD 0 with
          | false => rfl
          | true => exact absurd ⟨hc1, Or.inl hb⟩ hact
        have hcn : ¬ c < 0 := fun h => hact ⟨hc1, Or.inr h⟩
        have hc2 : ((peq w eqv blk a).toNat &&& 1 == 1) = false := by rw [test_bit0]; exact hbit
        simp only [hin, hc1, decide_true, Bool.true_and, Bool.and_true, e5, e6, e7, Res.ok_bind, Res.pure_eq_ok, hc2, hbit, hcn,
          decide_false, Bool.or_false, Bool.false_or, Bool.false_eq_true, if_false, ew, eadd, etake, hsl', hnn, Bool.and_false]
        try (split <;> rfl)
      · simp only [hin, hc1, decide_true, decide_false, Bool.true_and, Bool.and_true, Bool.false_and, Bool.and_false,
          Res.ok_bind, Res.pure_eq_ok, Bool.false_eq_true, if_false, if_true, ite_self, ew, eadd, etake, hnn]
        try (split <;> rfl)
  · -- all blocks are active
    simp only [hin, decide_true, decide_false, Bool.true_and, Bool.and_true, Bool.false_and, Bool.and_false,
      Res.ok_bind, Res.pure_eq_ok, Bool.false_eq_true, if_false, if_true, ite_self, ew, eadd, etake, hnn]
    try (split <;> rfl)

end RbV.Thm.GenSrcMyersLongStep
