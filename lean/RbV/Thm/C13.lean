import RbV.Model.Tsv
import RbV.Lemmas.Tsv
import RbV.Lemmas.CsvPlain
import RbV.Thm.GenSrcBed
import RbV.Thm.GenSrcGff
import RbV.Thm.GenSrcGffRead
/-!
# C13 — BED and GFF/GTF records survive write → read; comments skipped; malformed lines are errors

Property theorems about the model of the format (`RbV/Model/Tsv.lean`: `csv` quoting writer, `csv-core` automaton
reader, attribute regular expression); helper lemmas are in `RbV/Lemmas/Csv.lean` and `RbV/Lemmas/Tsv.lean`.  The
model reader is the oracle of the driver: the real reader is compared with it on the real writer's bytes, on those
bytes with comment lines, and on corrupted / truncated bytes.

A *file* is any interleaving of written records, comment lines (`#…`) and blank lines (`Tsv.Item`), each followed
by LF.  Domain (hypotheses `BedOk`, `GffOk`, `AttrsOk`): the text columns (chrom and every optional BED column;
seqname, source, type, score, strand of GFF) are **arbitrary byte strings** — `"`, TAB, CR, LF, backslash, `#`,
blanks, empty — with one exception: a first column that starts with `#` and contains none of TAB, `"`, CR, LF is
written unquoted, and a line that begins with `#` is a comment line of the format ("comment lines are skipped"), so
such a record has no representation in the format (`hashStart`; domain boundary, also of the real writer/reader).
A first column that starts with `#` but is quoted by the writer is inside the domain.  Coordinates fit `u64`, phase ∈ {`.`,0,1,2}; attribute keys and values are
non-empty, avoid the dialect's delimiters and TAB, carry no quote character at either end, keys do not start with a
blank.
-/
namespace RbV.Thm.C13
open RbV RbV.Tsv

/-- **csv record round trip.**  Every record with at least one field is read back field for field from its written
form, whatever bytes the fields contain (`"`, TAB, CR, LF, backslash, …) — except the records the reader takes for
a comment (`hashStart`: first field starts with `#` and nothing in it forces quotes); a record without fields
cannot be written (the writer emits `""`, which is the record with one empty field). -/
theorem csv_record_roundtrip (fs : List (List Nat)) (hne : fs ≠ []) (hh : hashStart fs = false) :
    rows (recordBody fs ++ [LF]) = [fs] := by
  unfold rows
  rw [List.append_assoc, List.singleton_append, run_record fs hne hh, run_blank]
  rfl

example : rows (recordBody [[34, 92], [], [97, 9, 10, 13, 34, 34]] ++ [LF]) = [[[34, 92], [], [97, 9, 10, 13, 34, 34]]] :=
  csv_record_roundtrip _ (by decide) (by decide)
-- the two exclusions are genuine: `#a` TAB `b` is read as a comment, no fields are read as one empty field
example : rows (recordBody [[35, 97], [98]] ++ [LF]) = [] := by decide
example : rows (recordBody [] ++ [LF]) = [[[]]] := by decide
example : rows (recordBody [[]] ++ [LF]) = [[[]]] := by decide

/-- … for whole files: written records, comment lines and blank lines in any order are read as the records -/
theorem csv_file_roundtrip (items : List Item) (fss : List (List (List Nat)))
    (hitems : items.filterMap Item.rec? = fss.map recordBody)
    (hfss : ∀ fs ∈ fss, fs ≠ [] ∧ hashStart fs = false)
    (hcomments : ∀ t, Item.comment t ∈ items → LF ∉ t) :
    rows (fileOf items) = fss :=
  rows_fileOf items fss hitems hfss hcomments

/-- **Reading quote-free bytes is reading lines**: on bytes without `"` and CR — whatever else they contain,
garbage and truncated lines included — the csv automaton gives the LF-separated lines that are neither empty nor
start with `#`, split at TAB (`rowsPlain`, the format the model consisted of before quoting was added). -/
theorem rows_eq_rowsPlain (bytes : List Nat) (hq : QUOTE ∉ bytes) (hcr : CR ∉ bytes) :
    rows bytes = rowsPlain bytes :=
  rows_plain bytes hq hcr

example : rows [99, 9, 49, 9, 50, 10, 35, 120, 10, 10, 100, 9, 51] = [[[99], [49], [50]], [[100], [51]]] := by
  rw [rows_eq_rowsPlain _ (by decide) (by decide)]; decide

/-- **BED round trip.**  Any file whose record lines are the written forms of records with a common number `k`
of auxiliary columns — with comment and blank lines interleaved at will — is read back as exactly those records,
field for field, every optional column included, whatever bytes the text columns contain. -/
theorem bed_roundtrip (k : Nat) (recs : List BedRec) (items : List Item)
    (hrecs : ∀ r ∈ recs, BedOk k r)
    (hitems : items.filterMap Item.rec? = recs.map bedLine)
    (hcomments : ∀ t, Item.comment t ∈ items → LF ∉ t) :
    readBed (fileOf items) = recs.map Res.ok := by
  have hrows : rows (fileOf items) = recs.map bedFields := by
    apply rows_fileOf items (recs.map bedFields) _ _ hcomments
    · rw [hitems, List.map_map]; rfl
    · intro fs hfs
      obtain ⟨r, hr, rfl⟩ := List.mem_map.mp hfs
      exact ⟨by simp [bedFields], (hrecs r hr).chromHash⟩
  unfold readBed
  rw [hrows, withCount_uniform parseBedFields _ (3 + k) ?_, List.map_map]
  · apply List.map_congr_left
    intro r hr
    exact parseBedFields_bedFields r (hrecs r hr).startRange (hrecs r hr).stopRange
  · intro f hf
    obtain ⟨r, hr, rfl⟩ := List.mem_map.mp hf
    simp [bedFields, (hrecs r hr).cols]; omega

/-- **The attribute column is loss-free**: the reader's (key, value) pairs, in insertion order, are exactly the
pairs of the written key ↦ values list — every key with all of its values, value order per key preserved —
for GFF3 (`k=v1,v2;…`) and for GFF2/GTF2 (`k v1;k v2;…`). -/
theorem attrs_roundtrip (d : Dialect) (hd : d = gff3 ∨ d = gff2) (g : List (List Nat × List (List Nat)))
    (hg : AttrsOk d g) : parseAttrs d (writeAttrs d g) = flatPairs g := by
  rcases hd with rfl | rfl
  · exact parseAttrs_writeAttrs _ gff3_ok g hg
  · exact parseAttrs_writeAttrs _ gff2_ok g hg

/-- … in the multimap view: with distinct keys, looking a key up in what was read gives its written value list -/
theorem attrs_roundtrip_lookup (d : Dialect) (hd : d = gff3 ∨ d = gff2) (g : List (List Nat × List (List Nat)))
    (hg : AttrsOk d g) (hkeys : (g.map (·.1)).Nodup) (k : List Nat) (vs : List (List Nat)) (hmem : (k, vs) ∈ g) :
    valuesOf (parseAttrs d (writeAttrs d g)) k = vs := by
  rw [attrs_roundtrip d hd g hg]
  exact valuesOf_flatPairs g hkeys k vs hmem

/-- **GFF/GTF round trip.**  Any file whose record lines are the written forms of records of the domain — with
comment and blank lines interleaved at will — is read back as exactly those records: seqname, source, type, score,
strand (arbitrary bytes), coordinates, phase including the `.` placeholder, and every attribute key with all of its
values. -/
theorem gff_roundtrip (d : Dialect) (hd : d = gff3 ∨ d = gff2) (recs : List GffRec) (items : List Item)
    (hrecs : ∀ r ∈ recs, GffOk d r)
    (hitems : items.filterMap Item.rec? = recs.map (gffLine d))
    (hcomments : ∀ t, Item.comment t ∈ items → LF ∉ t) :
    readGff d (fileOf items) = recs.map fun r => Res.ok r.asRead := by
  have hdo : DialectOk d := by
    rcases hd with rfl | rfl
    · exact gff3_ok
    · exact gff2_ok
  have hrows : rows (fileOf items) = recs.map (gffFields d) := by
    apply rows_fileOf items (recs.map (gffFields d)) _ _ hcomments
    · rw [hitems, List.map_map]; rfl
    · intro fs hfs
      obtain ⟨r, hr, rfl⟩ := List.mem_map.mp hfs
      exact ⟨by simp [gffFields], (hrecs r hr).seqHash⟩
  unfold readGff
  rw [hrows, withCount_uniform (parseGffFields d) _ 9 ?_, List.map_map]
  · apply List.map_congr_left
    intro r hr
    exact parseGffFields_gffFields hdo (hrecs r hr)
  · intro f hf
    obtain ⟨r, hr, rfl⟩ := List.mem_map.mp hf
    simp [gffFields]

/-- **Malformed lines are errors** (model side): a data line with a column count other than nine, a coordinate
that is not a number, or a numeric phase ≥ 3 is never read as a record. -/
theorem gff_malformed_is_error (d : Dialect) (fs : List (List Nat)) :
    (fs.length ≠ 9 → ∃ w, parseGffFields d fs = .err w) ∧
    (∀ a b c s e sc st ph at', fs = [a, b, c, s, e, sc, st, ph, at'] →
      (readU64 s = .err ∨ readU64 e = .err ∨ (∃ w, readPhase ph = .err w)) →
      ∃ w, parseGffFields d fs = .err w) := by
  constructor
  · intro h
    match fs, h with
    | [], _ => exact ⟨_, rfl⟩
    | [_], _ => exact ⟨_, rfl⟩
    | [_, _], _ => exact ⟨_, rfl⟩
    | [_, _, _], _ => exact ⟨_, rfl⟩
    | [_, _, _, _], _ => exact ⟨_, rfl⟩
    | [_, _, _, _, _], _ => exact ⟨_, rfl⟩
    | [_, _, _, _, _, _], _ => exact ⟨_, rfl⟩
    | [_, _, _, _, _, _, _], _ => exact ⟨_, rfl⟩
    | [_, _, _, _, _, _, _, _], _ => exact ⟨_, rfl⟩
    | [_, _, _, _, _, _, _, _, _], h => exact absurd rfl h
    | _ :: _ :: _ :: _ :: _ :: _ :: _ :: _ :: _ :: _ :: _, _ => exact ⟨_, rfl⟩
  · intro a b c s e sc st ph at' hfs hbad
    subst hfs
    rcases hbad with h | h | ⟨w, h⟩
    · simp only [parseGffFields, h]; exact ⟨_, rfl⟩
    · simp only [parseGffFields, h]
      cases readU64 s <;> exact ⟨_, rfl⟩
    · simp only [parseGffFields, h]
      cases readU64 s <;> cases readU64 e <;> exact ⟨_, rfl⟩

/-- a numeric phase of three or more is an error, not the `.` placeholder -/
theorem phase_ge3_is_error (n : Nat) (h : 3 ≤ n) : readPhase (toDec n) = .err "phase-ge3" := by
  unfold readPhase
  have hne : toDec n ≠ [46] := by
    intro e
    have := toDec_digits n 46 (by rw [e]; simp)
    omega
  have hlt : ¬ n < 3 := by omega
  simp only [hne, if_false, parseDec_toDec, if_true, hlt]

/-- negative and non-numeric coordinates are errors (strings starting with `+` or `0x` are left open) -/
theorem bad_coordinate_is_error (s : List Nat) (c : Nat) (hc : c ∈ s) (hnd : isDigit c = false)
    (hplus : s.head? ≠ some 43) (hzero : s.head? ≠ some 48) : readU64 s = .err := by
  unfold readU64
  have hp : parseDec s = none := by
    unfold parseDec
    have : s.all isDigit = false := by
      rw [List.all_eq_false]
      exact ⟨c, hc, by simp [hnd]⟩
    simp [this]
  simp only [hp]
  split
  · simp at hplus
  · simp at hzero
  · rfl

example : readU64 [45, 49] = .err := by decide        -- "-1"
example : readU64 [49, 50, 97] = .err := by decide    -- "12a"
example : readU64 [] = .err := by decide              -- ""

/-- **Records before the damage are unchanged** (BED): whatever follows a line break that is not inside an open
quoted field (`openQuote a = false`) — further records, garbage, a truncated line — never changes what is read from
the bytes before it. -/
theorem earlier_records_unchanged_bed (a b : List Nat) (h : openQuote a = false) :
    (readBed (a ++ LF :: b)).take (readBed a).length = readBed a := by
  unfold readBed
  rw [rows_append a b h]
  exact withCount_prefix parseBedFields (rows a) (rows b)

/-- **Records before the damage are unchanged** (GFF/GTF). -/
theorem earlier_records_unchanged_gff (d : Dialect) (a b : List Nat) (h : openQuote a = false) :
    (readGff d (a ++ LF :: b)).take (readGff d a).length = readGff d a := by
  unfold readGff
  rw [rows_append a b h]
  exact withCount_prefix (parseGffFields d) (rows a) (rows b)

example : openQuote [99, 9, 49, 9, 50] = false := by decide           -- c TAB 1 TAB 2
example : openQuote [99, 9, 34, 49, 10] = true := by decide           -- c TAB "1 LF : the quote is still open

-- non-vacuity of the hypotheses: a GFF3 record with a multi-valued attribute, `.` placeholders, and quote / TAB /
-- LF / backslash / `#` in the free-text columns is in the domain
example : GffOk gff3 ⟨[34, 97], [35, 9], [92, 10, 13], 1, 20, [46], [43], none,
    [([84], [[120], [121]]), ([73], [[122]])]⟩ := by
  refine ⟨by decide, by decide, by decide, by decide, ?_⟩
  intro kv hkv
  simp only [List.mem_cons, List.not_mem_nil, or_false] at hkv
  have tok : ∀ t : List Nat, t ≠ [] → (∀ c ∈ t, isKV gff3 c = true) → TokOk gff3 t := fun t a b => ⟨a, b⟩
  have nq : ∀ a : Nat, a ≠ 39 → a ≠ 34 → NoQuoteEnds [a] := by
    intro a h1 h2
    constructor <;> (intro c hc; simp at hc; subst hc; exact ⟨h1, h2⟩)
  rcases hkv with rfl | rfl
  · refine ⟨⟨tok _ (by decide) (by decide), by decide, nq _ (by decide) (by decide)⟩, by decide, ?_⟩
    intro v hv
    simp only [List.mem_cons, List.not_mem_nil, or_false] at hv
    rcases hv with rfl | rfl
    · exact ⟨tok _ (by decide) (by decide), by decide, nq _ (by decide) (by decide)⟩
    · exact ⟨tok _ (by decide) (by decide), by decide, nq _ (by decide) (by decide)⟩
  · refine ⟨⟨tok _ (by decide) (by decide), by decide, nq _ (by decide) (by decide)⟩, by decide, ?_⟩
    intro v hv
    simp only [List.mem_cons, List.not_mem_nil, or_false] at hv
    subst hv
    exact ⟨tok _ (by decide) (by decide), by decide, nq _ (by decide) (by decide)⟩

-- chrom `"\` (quote, backslash), name with TAB and LF, an empty column, a column that is one quote
example : BedOk 3 ⟨[34, 92], 5, 5000, [[110, 9, 10], [], [34]]⟩ := by
  refine ⟨by decide, by decide, by decide, by decide⟩

/-! ## The writers and the BED record accessors as written in the source (builder gengff)

`RbV/Gen/SrcBed.lean`, `RbV/Gen/SrcGff.lean` are translated from the text of `src/io/bed.rs` / `src/io/gff.rs` on every
`./check C13` (`tools/rs2lean_gengff.py`; proofs in `Thm/GenSrcBed.lean`, `Thm/GenSrcGff.lean`).  `csv::Writer::serialize` is an
abstract operation whose contract is the csv writer model (`csvSerialize`: append `recordBody fields ++ [LF]`; trusted, sampled by
the tie); serde's flattening of the tuple into fields and the decimal form of integers (`toDec`) are part of the trusted reading.
A `MultiMap` is the list of its key groups in its own — arbitrary — iteration order. -/
section Source
open RbV.Thm.GenSrcBed (csvSerialize)

/-- **`bed::Writer::write` as written** appends `bedLine` of the record + LF: chrom, start, end, then the auxiliary columns, in
both branches (with / without auxiliary columns) -/
theorem bed_write_source_eq_model (w : List Nat) (self : Gen.SrcBed.Writer) (r : Gen.SrcBed.Record) :
    Gen.SrcBed.write csvSerialize toDec w self r = (.ok (), w ++ (bedLine (GenSrcBed.toModel r) ++ [LF])) :=
  GenSrcBed.write_eq_model w self r

/-- **`bed::Record` accessors as written**: `name` / `score` / `strand` are the auxiliary columns 0 / 1 / 2 (`aux(i)` = column
`i` of the line, panics for `i < 3`), `strand` reads `+` / `-`; the setters change their field, `push_aux` appends a column -/
theorem bed_record_accessors_source_eq_model (r : Gen.SrcBed.Record) (c : List Nat) (n : Nat) :
    (Gen.SrcBed.name r = .ok ((GenSrcBed.toModel r).aux[0]?) ∧ Gen.SrcBed.score r = .ok ((GenSrcBed.toModel r).aux[1]?) ∧
      Gen.SrcBed.strand r = .ok (GenSrcBed.strandOf ((GenSrcBed.toModel r).aux[2]?)) ∧
      Gen.SrcBed.chrom r = (GenSrcBed.toModel r).chrom ∧ Gen.SrcBed.start r = (GenSrcBed.toModel r).start ∧
      Gen.SrcBed.end' r = (GenSrcBed.toModel r).stop) ∧
    (GenSrcBed.toModel (Gen.SrcBed.setChrom r c) = { GenSrcBed.toModel r with chrom := c } ∧
      GenSrcBed.toModel (Gen.SrcBed.setStart r n) = { GenSrcBed.toModel r with start := n } ∧
      GenSrcBed.toModel (Gen.SrcBed.setEnd r n) = { GenSrcBed.toModel r with stop := n } ∧
      GenSrcBed.toModel (Gen.SrcBed.pushAux r c) = { GenSrcBed.toModel r with aux := (GenSrcBed.toModel r).aux ++ [c] }) :=
  ⟨GenSrcBed.accessors_eq_model r, GenSrcBed.setters_eq_model r c n⟩

/-- the records written one after the other through the translated BED writer, starting from the sink `w` -/
def bedWriteAll (self : Gen.SrcBed.Writer) : List Gen.SrcBed.Record → List Nat → List Nat
  | [], w => w
  | r :: rs, w => bedWriteAll self rs (Gen.SrcBed.write csvSerialize toDec w self r).2

theorem bedWriteAll_eq (self : Gen.SrcBed.Writer) (recs : List Gen.SrcBed.Record) (w : List Nat) :
    bedWriteAll self recs w = w ++ render (recs.map fun r => bedLine (GenSrcBed.toModel r)) := by
  induction recs generalizing w with
  | nil => simp [bedWriteAll, render]
  | cons r rs ih => simp [bedWriteAll, ih, GenSrcBed.write_eq_model, render]

/-- **BED round trip through the writer as written**: the model reader on the bytes of the translated writer returns the records -/
theorem bed_roundtrip_source (k : Nat) (self : Gen.SrcBed.Writer) (recs : List Gen.SrcBed.Record)
    (hrecs : ∀ r ∈ recs, BedOk k (GenSrcBed.toModel r)) :
    readBed (bedWriteAll self recs []) = recs.map fun r => Res.ok (GenSrcBed.toModel r) := by
  have h := bed_roundtrip k (recs.map GenSrcBed.toModel) ((recs.map GenSrcBed.toModel).map fun r => Item.record (bedLine r))
    (by intro r hr; obtain ⟨s, hs, rfl⟩ := List.mem_map.mp hr; exact hrecs s hs)
    (by simp [List.filterMap_map, Function.comp_def, Item.rec?])
    (by intro t ht; simp at ht)
  rw [bedWriteAll_eq, List.nil_append]
  simpa [fileOf, List.map_map, Function.comp_def, Item.line] using h

/-- what `sort…` on a list of key groups is read as: some permutation of it (whatever the comparison) -/
abbrev PermOp := List (List Nat × List (List Nat)) → List (List Nat × List (List Nat))

/-- the model records a source record may be written as: the same columns, the attribute key groups in some order -/
def GffWrittenAs (r : Gen.SrcGff.Record) (m : GffRec) : Prop :=
  ∃ g', g'.Perm r.attributes ∧ m = { GenSrcGff.toModel r with attrs := g' }

/-- record by record -/
inductive AllWrittenAs : List Gen.SrcGff.Record → List GffRec → Prop
  | nil : AllWrittenAs [] []
  | cons {r m rs ms} : GffWrittenAs r m → AllWrittenAs rs ms → AllWrittenAs (r :: rs) (m :: ms)

/-- **`gff::Writer::write` as written** (hard: what the property determines).  For a writer configured for dialect `d` the bytes
appended are `gffLine d` of the record — the nine columns, the attribute column assembled with the dialect's delimiters (values
of a key joined by the value delimiter for GFF3, the key repeated for GFF2/GTF2) — **up to the order of the key groups**: the
attribute list of the model record is a permutation of the map's groups (the map's own iteration order when the text does not
sort, `GenSrcGffExact.write_eq_model`, a soft module; the sorted order when it does — `perm` is what a `sort…` call of the text is read as, any
permuting function); per-key value order is fixed. -/
theorem gff_write_source_eq_model (perm : PermOp) (hperm : ∀ l, (perm l).Perm l) (w : List Nat) (d : Dialect)
    (self : Gen.SrcGff.Writer) (r : Gen.SrcGff.Record)
    (hw : GenSrcGff.WriterFor d self) (hg : ∀ kv ∈ r.attributes, kv.2 ≠ []) :
    ∃ m, GffWrittenAs r m ∧
      Gen.SrcGff.write csvSerialize toDec perm w self r = (.ok (), w ++ (gffLine d m ++ [LF])) := by
  obtain ⟨g', hp, h⟩ := GenSrcGff.write_fields_perm csvSerialize perm hperm w d self r hw hg
  exact ⟨_, ⟨g', hp, rfl⟩, by rw [h]; rfl⟩

/-- **`GffType::separator` as written** gives the dialects of the model, and the writers built from it are configured for them -/
theorem gff_type_separator_source_eq_model :
    (GenSrcGff.dialectOf .GFF3 = gff3 ∧ GenSrcGff.dialectOf .GFF2 = gff2 ∧ GenSrcGff.dialectOf .GTF2 = gff2 ∧
      ∀ x y z, Gen.SrcGff.separator (.Any x y z) = (x, y, z)) ∧
    GenSrcGff.WriterFor gff3 (GenSrcGff.writerOf .GFF3) ∧ GenSrcGff.WriterFor gff2 (GenSrcGff.writerOf .GFF2) ∧
    GenSrcGff.WriterFor gff2 (GenSrcGff.writerOf .GTF2) :=
  ⟨GenSrcGff.separator_eq_model, GenSrcGff.writerFor_gff3, GenSrcGff.writerFor_gff2, GenSrcGff.writerFor_gtf2⟩

/-- the records written one after the other through the translated GFF writer, starting from the sink `w` -/
def gffWriteAll (perm : PermOp) (self : Gen.SrcGff.Writer) : List Gen.SrcGff.Record → List Nat → List Nat
  | [], w => w
  | r :: rs, w => gffWriteAll perm self rs (Gen.SrcGff.write csvSerialize toDec perm w self r).2

theorem gffWriteAll_eq (perm : PermOp) (hperm : ∀ l, (perm l).Perm l) (d : Dialect) (self : Gen.SrcGff.Writer)
    (hw : GenSrcGff.WriterFor d self)
    (recs : List Gen.SrcGff.Record) (hg : ∀ r ∈ recs, ∀ kv ∈ r.attributes, kv.2 ≠ []) (w : List Nat) :
    ∃ ms, AllWrittenAs recs ms ∧ gffWriteAll perm self recs w = w ++ render (ms.map (gffLine d)) := by
  induction recs generalizing w with
  | nil => exact ⟨[], .nil, by simp [gffWriteAll, render]⟩
  | cons r rs ih =>
    obtain ⟨m, hm, h1⟩ := gff_write_source_eq_model perm hperm w d self r hw (hg r (by simp))
    obtain ⟨ms, hms, h2⟩ := ih (fun s hs => hg s (List.mem_cons_of_mem _ hs)) (w ++ (gffLine d m ++ [LF]))
    refine ⟨m :: ms, .cons hm hms, ?_⟩
    simp [gffWriteAll, h1, h2, render]

theorem GffWrittenAs.ok {d : Dialect} {r : Gen.SrcGff.Record} {m : GffRec} (h : GffWrittenAs r m)
    (hr : GffOk d (GenSrcGff.toModel r)) : GffOk d m := by
  obtain ⟨g', hp, rfl⟩ := h
  obtain ⟨h1, h2, h3, h4, h5⟩ := hr
  refine ⟨?_, h2, h3, h4, fun kv hkv => h5 kv (hp.mem_iff.mp hkv)⟩
  simpa [gffFields, hashStart] using h1

/-- **GFF/GTF round trip through the writer as written**: the model reader on the bytes the translated writer produces for any
list of records of the domain returns every record — all columns, and every attribute key with all of its values in order; the
key groups come in the order the writer emitted them (some permutation of the map's groups, `GffWrittenAs`), which carries no
information — `gff_roundtrip_source_lookup` -/
theorem gff_roundtrip_source (perm : PermOp) (hperm : ∀ l, (perm l).Perm l) (d : Dialect) (hd : d = gff3 ∨ d = gff2)
    (self : Gen.SrcGff.Writer) (hw : GenSrcGff.WriterFor d self) (recs : List Gen.SrcGff.Record)
    (hrecs : ∀ r ∈ recs, GffOk d (GenSrcGff.toModel r)) :
    ∃ ms, AllWrittenAs recs ms ∧
      readGff d (gffWriteAll perm self recs []) = ms.map fun m => Res.ok m.asRead := by
  have hg : ∀ r ∈ recs, ∀ kv ∈ r.attributes, kv.2 ≠ [] := fun r hr kv hkv => ((hrecs r hr).attrsOk kv hkv).2.1
  obtain ⟨ms, hms, hb⟩ := gffWriteAll_eq perm hperm d self hw recs hg []
  refine ⟨ms, hms, ?_⟩
  have hok : ∀ m ∈ ms, GffOk d m := by
    clear hb hg
    induction hms with
    | nil => intro m hm; simp at hm
    | cons h _ ih =>
      intro m hm
      rcases List.mem_cons.mp hm with rfl | hm
      · exact h.ok (hrecs _ (by simp))
      · exact ih (fun r hr => hrecs r (List.mem_cons_of_mem _ hr)) m hm
  have h := gff_roundtrip d hd ms (ms.map fun r => Item.record (gffLine d r)) hok
    (by simp [List.filterMap_map, Function.comp_def, Item.rec?])
    (by intro t ht; simp at ht)
  rw [hb, List.nil_append]
  simpa [fileOf, List.map_map, Function.comp_def, Item.line] using h

/-- … in the multimap view, which does not depend on the order of the key groups: looking a key of the record up in what was read
back (whatever order the writer chose) gives its value list -/
theorem gff_roundtrip_source_lookup (r : Gen.SrcGff.Record) (m : GffRec) (hm : GffWrittenAs r m)
    (hkeys : (r.attributes.map (·.1)).Nodup)
    (k : List Nat) (vs : List (List Nat)) (hmem : (k, vs) ∈ r.attributes) :
    valuesOf m.asRead.pairs k = vs := by
  obtain ⟨g', hp, rfl⟩ := hm
  exact valuesOf_flatPairs g' ((hp.map (·.1)).nodup_iff.mpr hkeys) k vs (hp.mem_iff.mpr hmem)

/-- **`bed::Record::set_name` / `set_score` as written**: name and score are the auxiliary columns 0 and 1 (pushed when missing — a
missing name is filled with the empty string —, overwritten otherwise; no panic), and `name()` / `score()` read them back -/
theorem bed_record_name_score_setters_source_eq_model (r : Gen.SrcBed.Record) (x : List Nat) :
    (Gen.SrcBed.setName r x = .ok { r with aux := if r.aux.isEmpty then [x] else r.aux.set 0 x } ∧
      ∀ r', Gen.SrcBed.setName r x = .ok r' → Gen.SrcBed.name r' = .ok (some x)) ∧
    (Gen.SrcBed.setScore r x = .ok { r with aux := match r.aux with
        | [] => [[], x]
        | [a] => [a, x]
        | a :: _ :: rest => a :: x :: rest } ∧
      ∀ r', Gen.SrcBed.setScore r x = .ok r' → Gen.SrcBed.score r' = .ok (some x)) :=
  ⟨⟨GenSrcBed.setName_eq_model r x, fun r' h => GenSrcBed.name_setName r r' x h⟩,
   ⟨GenSrcBed.setScore_eq_model r x, fun r' h => GenSrcBed.score_setScore r r' x h⟩⟩

/-- **`gff::Writer::new` as written** (the csv builder chain `delimiter(b'\t').flexible(true).from_writer(..)` is pinned by the
translation spec): for GFF3, GFF2 and GTF2 the constructor does not panic and the writer it returns is configured for the model's
dialect (`WriterFor`) — the hypothesis of `gff_write_source_eq_model` / `gff_roundtrip_source` discharged from the text; for
`Any(x, y, z)` it panics exactly when the terminator `y` is not ASCII -/
theorem gff_writer_new_source_eq_model :
    (∃ w, Gen.SrcGff.writerNew .GFF3 = .ok w ∧ GenSrcGff.WriterFor gff3 w) ∧
    (∃ w, Gen.SrcGff.writerNew .GFF2 = .ok w ∧ GenSrcGff.WriterFor gff2 w) ∧
    (∃ w, Gen.SrcGff.writerNew .GTF2 = .ok w ∧ GenSrcGff.WriterFor gff2 w) ∧
    (∀ x y z, Gen.SrcGff.writerNew (.Any x y z) = if y < 128 then .ok ⟨x, [y], z⟩ else .panic) := by
  refine ⟨⟨_, ?_, GenSrcGff.writerFor_gff3⟩, ⟨_, ?_, GenSrcGff.writerFor_gff2⟩, ⟨_, ?_, GenSrcGff.writerFor_gtf2⟩, ?_⟩
  · rw [GenSrcGff.writerNew_eq_model]; rfl
  · rw [GenSrcGff.writerNew_eq_model]; rfl
  · rw [GenSrcGff.writerNew_eq_model]; rfl
  · intro x y z; rw [GenSrcGff.writerNew_eq_model]; rfl

/-- **`impl Deserialize for Phase` as written refines the model reader's `readPhase`** (the column as a string; `u8::from_str` =
`Rs.parseU8`): `ok p` of the model is `Ok(Phase(p))` of the code, an error of the model is `Err` of the code; spellings the property
leaves open (`+1`, `01`) are not constrained -/
theorem gff_phase_source_refines_model (s : List Nat) :
    (∀ p, readPhase s = .ok p → Gen.SrcGffRead.phaseDeserialize s = .ok p) ∧
    (∀ w, readPhase s = .err w → Gen.SrcGffRead.phaseDeserialize s = .error ()) :=
  GenSrcGffRead.phaseDeserialize_refines_model s

/-- **a numeric phase of three or more is an error — of the code as written** (`phase_ge3_is_error` is the model side; the old
finding `C13-gff-phase-ge3` cannot come back unnoticed), and the written phase column (`.`, 0, 1, 2) is read back -/
theorem phase_ge3_is_error_source (n : Nat) (h : 3 ≤ n) : Gen.SrcGffRead.phaseDeserialize (toDec n) = .error () :=
  GenSrcGffRead.phaseDeserialize_ge3 n h

theorem phase_roundtrip_source (p : Option Nat) (h : ∀ n, p = some n → n < 3) :
    Gen.SrcGffRead.phaseDeserialize (phaseStr p) = .ok p :=
  GenSrcGffRead.phaseDeserialize_phaseStr p h

/-- **the record closure of `gff::Records::next` as written = the record of the model reader**: given the nine deserialised
columns, the code builds exactly the record `parseGffFields d` builds in its `ok` branch — the attribute column is split and trimmed
as `parseAttrs d` does (every capture split on the value delimiter, `'` then `"` trimmed from key and values, pairs inserted in
order).  The captures of the regular expression are abstract, instantiated with the model's scanner `scan` (trusted reading of
the expression); the reader's `MultiMap` is read as its insertion sequence. -/
theorem gff_record_closure_source_eq_model (d : Dialect) (hv : d.vdelim < 128) (self : Gen.SrcGffRead.Records)
    (hs : self.value_delim = d.vdelim) (a b c : List Nat) (x y : Nat) (sc st : List Nat) (p : Option Nat) (att : List Nat) :
    GenSrcGffRead.toRead (Gen.SrcGffRead.recordOfColumns (fun s => scan d (s.length + 1) s) self a b c x y sc st p att)
      = ⟨a, b, c, x, y, sc, st, p, parseAttrs d att⟩ :=
  GenSrcGffRead.recordOfColumns_eq_model d hv self hs a b c x y sc st p att

/-- … hence on a line the model reads as `ok R`, the translated phase deserialiser and record closure produce `R` -/
theorem gff_read_line_source_eq_model (d : Dialect) (hv : d.vdelim < 128) (self : Gen.SrcGffRead.Records)
    (hs : self.value_delim = d.vdelim) (a b c s e sc st ph att : List Nat) (R : GffRead)
    (h : parseGffFields d [a, b, c, s, e, sc, st, ph, att] = .ok R) :
    ∃ x y p, readU64 s = .ok x ∧ readU64 e = .ok y ∧ Gen.SrcGffRead.phaseDeserialize ph = .ok p ∧
      GenSrcGffRead.toRead (Gen.SrcGffRead.recordOfColumns (fun t => scan d (t.length + 1) t) self a b c x y sc st p att) = R := by
  unfold parseGffFields at h
  cases hs' : readU64 s <;> cases he : readU64 e <;> cases hp : readPhase ph <;> simp [hs', he, hp] at h
  next x y p =>
    exact ⟨x, y, p, rfl, rfl, (GenSrcGffRead.phaseDeserialize_refines_model ph).1 p hp,
      by rw [GenSrcGffRead.recordOfColumns_eq_model d hv self hs]; exact h⟩

-- non-vacuity: a GFF3 writer, a record with a two-valued key
example : GenSrcGff.WriterFor gff3 (GenSrcGff.writerOf .GFF3) := GenSrcGff.writerFor_gff3
example : ∀ kv ∈ ([([84], [[120], [121]]), ([73], [[122]])] : List (List Nat × List (List Nat))), kv.2 ≠ [] := by decide

end Source

end RbV.Thm.C13
