import RbV.Thm.GenSrcPwColStep
/-!
# From one finished column to the next (builder genalign; C01): `ColDone`, the glue `startCol_inv`, `column_step`
-/
set_option linter.unusedSimpArgs false
set_option linter.unusedVariables false
namespace RbV.Thm.GenSrcPwColGlue
open RbV RbV.Rs RbV.Gen.TbCodes RbV.Gen.Limits RbV.Gen.SrcPwTypes RbV.Gen.SrcPwCustom RbV.Align RbV.Model.PairwiseFill
open RbV.Thm.GenSrcPwTypes RbV.Thm.GenSrcPwCustom RbV.Thm.GenSrcPwColumn RbV.Thm.GenSrcPwColStep

/-- the state holds the finished column `j` (`col`), frame `oc`, `olx` for the other columns -/
structure ColDone (a : Aligner) (m n j : Nat) (col : List Row) (oc : Nat → Nat → TracebackCell) (olx : Nat → Nat) : Prop where
  dims : Dims a m n
  hS : ∀ k, k ≤ m → (a.S.getD (j % 2) []).getD k 0 = (col.getD k default).s
  hI : ∀ k, k ≤ m → (a.I.getD (j % 2) []).getD k 0 = (col.getD k default).i
  hD : ∀ k, k ≤ m → (a.D.getD (j % 2) []).getD k 0 = (col.getD k default).d
  hSn : ∀ k, k ≤ m → a.Sn.getD k 0 = (col.getD k default).sn
  hLy : ∀ k, k ≤ m → a.Ly.getD k 0 = (col.getD k default).t.ly
  hLx : a.Lx.getD j 0 = (col.getD m default).t.lx
  hCell : ∀ k, k ≤ m → cellAt a k j =
    cellOf (col.getD k default).t.ts (col.getD k default).t.ti (col.getD k default).t.td
  hOld : ∀ k j', k ≤ m → j' ≤ n → j' ≠ j → cellAt a k j' = oc k j'
  hOldLx : ∀ j', j' ≤ n → j' ≠ j → a.Lx.getD j' 0 = olx j'

theorem colDone_of_inv (a : Aligner) (m n j : Nat) (pc col : List Row) (oc : Nat → Nat → TracebackCell) (olx : Nat → Nat)
    (h : ColInv a m n j m pc col oc olx) (hlast : (col.getD m default).s = (col.getD m default).xm) :
    ColDone a m n j col oc olx := by
  obtain ⟨dims, hS, hXm, hReset, hI, hD, hSp, hDp, hSn, hLy, hLx, hCell, hCellP, hOld, hOldLx⟩ := h
  refine ⟨dims, ?_, fun k hk => hI k hk, fun k hk => hD k hk, ?_, ?_, hLx, fun k hk => hCell k hk, hOld, hOldLx⟩
  · intro k hk
    by_cases h : k = m
    · subst h; rw [hXm, hlast]
    · exact hS k hk h
  · intro k hk; rw [hSn k hk, if_pos hk]
  · intro k hk; rw [hLy k hk, if_pos hk]

theorem obind_eq_some {α β : Type} {o : Option α} {f : α → Option β} {b : β} (h : obind o f = some b) :
    ∃ a, o = some a ∧ f a = some b := by
  cases o with
  | none => cases h
  | some a => exact ⟨a, rfl, h⟩

/-- row `m` of a column: the cell *is* the register -/
theorem stepJS_last (T : Ties) (f : SCodeFn) (sc : Sc) (cl : Clip) (m n j p q : Nat) (xc b0 : Int) (pr1 pr r r' : Row)
    (h : stepJS T f sc cl m n j m p q xc b0 pr1 pr r = some r') : r'.s = r'.xm := by
  unfold stepJS at h
  iterate 12 (obtain ⟨_, _, h⟩ := obind_eq_some h)
  simp only [Option.some.injEq] at h
  subst h
  simp only [if_true]

/-- what `rowJ0T` returns besides the values: `I = MIN_SCORE`, the register, `Lx[j] = 0`, I code `START` -/
theorem rowJ0T_shape (T : Ties) (sc : Sc) (cl : Clip) (m n j : Nat) (prev0 r0 : Row) (h : rowJ0T T sc cl m n j prev0 = some r0) :
    r0.i = minScore ∧ r0.xm = (if m = 0 then r0.s else minScore) ∧ r0.t.lx = 0 ∧ r0.t.ti = .start := by
  unfold rowJ0T at h
  obtain ⟨e, _, h⟩ := obind_eq_some h
  dsimp only at h
  split at h
  · simp only [Option.some.injEq] at h; subst h; exact ⟨rfl, rfl, rfl, rfl⟩
  · obtain ⟨c, _, h⟩ := obind_eq_some h
    simp only [Option.some.injEq] at h; subst h; exact ⟨rfl, rfl, rfl, rfl⟩

theorem rowJ0T_congr (T : Ties) (sc : Sc) (cl : Clip) (m n j : Nat) (p p' : Row) (h1 : p.sn = p'.sn) (h2 : p.t.ly = p'.t.ly) :
    rowJ0T T sc cl m n j p = rowJ0T T sc cl m n j p' := by
  simp only [rowJ0T, h1, h2]

theorem sc_cell (a : Aligner) (m n c j : Nat) (r0 : Row) (hd : Dims a m n) (hjn : j ≤ n) (k j' : Nat) (hk : k ≤ m) (hj' : j' ≤ n) :
    cellAt (startCol a m c j r0) k j' = if k = 0 ∧ j' = j then cellOf r0.t.ts .start r0.t.td else cellAt a k j' := by
  have hcols := hd.cols
  have hlen : 0 * a.traceback.cols + j < a.traceback.matrix.length :=
    (shaped_idx hd.tb (by rw [hd.rows]; omega) (by rw [hd.cols]; omega)).1
  unfold cellAt
  simp only [startCol]
  rw [getD_set']
  by_cases h : k = 0 ∧ j' = j
  · obtain ⟨h1, h2⟩ := h; subst h1 h2; rw [if_pos ⟨rfl, hlen⟩, if_pos ⟨rfl, rfl⟩]
  · have : ¬ (0 * a.traceback.cols + j = k * a.traceback.cols + j') := by
      intro e
      have := idx_inj a.traceback.cols 0 k j j' (by omega) (by omega) e
      exact h ⟨this.1.symm, this.2.symm⟩
    rw [if_neg h, if_neg (fun e => this e.1)]

/-- **the glue**: after the `i = 0` block and the reset loop, the state holds row 0 of column `j` and the finished column
`j − 1` as previous column (`ColInv … 0 pc [r0]`), frame = the state before the column -/
theorem startCol_inv (T : Ties) (a : Aligner) (m n j : Nat) (pc : List Row) (oc : Nat → Nat → TracebackCell) (olx : Nat → Nat)
    (sc : Sc) (cl : Clip) (r0 : Row) (hdone : ColDone a m n (j - 1) pc oc olx) (hj : 1 ≤ j) (hjn : j ≤ n)
    (hLx0 : a.Lx.getD j 0 = 0) (hr0 : rowJ0T T sc cl m n j (pc.getD 0 default) = some r0) :
    ColInv (startCol a m (j % 2) j r0) m n j 0 pc [r0] (fun k j' => cellAt a k j') (fun j' => a.Lx.getD j' 0) := by
  obtain ⟨dims, hS, hI, hD, hSn, hLy, hLx, hCell, hOld, hOldLx⟩ := hdone
  obtain ⟨ri, rxm, rlx, rti⟩ := rowJ0T_shape T sc cl m n j _ r0 hr0
  have hc : j % 2 < 2 := by omega
  have hp : (j - 1) % 2 = 1 - j % 2 := by omega
  have hcp : j % 2 ≠ 1 - j % 2 := by omega
  rw [hp] at hS hD hI
  have lS : (a.S.getD (j % 2) []).length = m + 1 := dims.Srow _ hc
  have lI : (a.I.getD (j % 2) []).length = m + 1 := dims.Irow _ hc
  have lD : (a.D.getD (j % 2) []).length = m + 1 := dims.Drow _ hc
  have eS : (startCol a m (j % 2) j r0).S.getD (j % 2) [] = resetL ((a.S.getD (j % 2) []).set 0 r0.s) 1 m :=
    getD_set_self _ _ _ _ (by rw [dims.S2]; exact hc)
  have eI : (startCol a m (j % 2) j r0).I.getD (j % 2) [] = (a.I.getD (j % 2) []).set 0 minScore :=
    getD_set_self _ _ _ _ (by rw [dims.I2]; exact hc)
  have eD : (startCol a m (j % 2) j r0).D.getD (j % 2) [] = (a.D.getD (j % 2) []).set 0 r0.d :=
    getD_set_self _ _ _ _ (by rw [dims.D2]; exact hc)
  have eSp : (startCol a m (j % 2) j r0).S.getD (1 - j % 2) [] = a.S.getD (1 - j % 2) [] := getD_set_other _ _ _ _ _ hcp
  have eDp : (startCol a m (j % 2) j r0).D.getD (1 - j % 2) [] = a.D.getD (1 - j % 2) [] := getD_set_other _ _ _ _ _ hcp
  have g0 : ([r0] : List Row).getD 0 default = r0 := rfl
  refine ⟨?_, ?_, ?_, ?_, ?_, ?_, ?_, ?_, ?_, ?_, ?_, ?_, ?_, ?_, ?_⟩
  · obtain ⟨S2, I2, D2, Srow, Irow, Drow, hSnl, hLyl, hLxl, htb, hrows, hcols⟩ := dims
    refine ⟨by simp [startCol, S2], by simp [startCol, I2], by simp [startCol, D2], ?_, ?_, ?_, by simp [startCol, hSnl],
      by simp [startCol, hLyl], by simp [startCol, hLxl], shaped_set htb _ _, hrows, hcols⟩
    · intro k hk
      by_cases h : j % 2 = k
      · subst h; rw [eS, resetL_length, List.length_set]; exact lS
      · show ((a.S.set (j % 2) _).getD k []).length = _
        rw [getD_set_other _ _ _ _ _ h]; exact Srow k hk
    · intro k hk
      by_cases h : j % 2 = k
      · subst h; rw [eI, List.length_set]; exact lI
      · show ((a.I.set (j % 2) _).getD k []).length = _
        rw [getD_set_other _ _ _ _ _ h]; exact Irow k hk
    · intro k hk
      by_cases h : j % 2 = k
      · subst h; rw [eD, List.length_set]; exact lD
      · show ((a.D.set (j % 2) _).getD k []).length = _
        rw [getD_set_other _ _ _ _ _ h]; exact Drow k hk
  · intro k hk hkm
    have : k = 0 := by omega
    subst this
    rw [eS, resetL_getD _ _ _ _ (by rw [List.length_set]; omega), if_neg (by omega), getD_set_self _ _ _ _ (by omega), g0]
  · rw [eS, resetL_getD _ _ _ _ (by rw [List.length_set]; omega), g0, rxm]
    by_cases hm : m = 0
    · subst hm; rw [if_neg (by omega), getD_set_self _ _ _ _ (by omega), if_pos rfl]
    · rw [if_pos (by omega), if_neg hm]
  · intro k hk hkm
    rw [eS, resetL_getD _ _ _ _ (by rw [List.length_set]; omega), if_pos (by omega)]
  · intro k hk
    have : k = 0 := by omega
    subst this
    rw [eI, getD_set_self _ _ _ _ (by omega), g0, ri]
  · intro k hk
    have : k = 0 := by omega
    subst this
    rw [eD, getD_set_self _ _ _ _ (by omega), g0]
  · intro k hk; rw [eSp]; exact hS k hk
  · intro k hk; rw [eDp]; exact hD k hk
  · intro k hk
    show (a.Sn.set 0 r0.sn).getD k 0 = _
    by_cases h : k = 0
    · subst h; rw [getD_set_self _ _ _ _ (by rw [dims.Sn]; omega), if_pos (Nat.le_refl 0), g0]
    · rw [getD_set_other _ _ _ _ _ (Ne.symm h), if_neg (by omega)]; exact hSn k hk
  · intro k hk
    show (a.Ly.set 0 r0.t.ly).getD k 0 = _
    by_cases h : k = 0
    · subst h; rw [getD_set_self _ _ _ _ (by rw [dims.Ly]; omega), if_pos (Nat.le_refl 0), g0]
    · rw [getD_set_other _ _ _ _ _ (Ne.symm h), if_neg (by omega)]; exact hLy k hk
  · show a.Lx.getD j 0 = _
    rw [hLx0, g0, rlx]
  · intro k hk
    have : k = 0 := by omega
    subst this
    rw [sc_cell a m n _ j r0 dims hjn 0 j (by omega) hjn, if_pos ⟨rfl, rfl⟩, g0, rti]
  · intro k hk
    unfold SIs
    rw [sc_cell a m n _ j r0 dims hjn k (j - 1) hk (by omega), if_neg (by omega), hCell k hk]
    exact (cellOf_reads _ _ _).1
  · intro k j' hk hj' hne
    rw [sc_cell a m n _ j r0 dims hjn k j' hk hj', if_neg (fun e => hne e.2)]
  · intro j' hj' hne; rfl

theorem colRows_last (step : Nat → Row → Option Row) (Q : Row → Prop) :
    ∀ (k i : Nat) (cur col : List Row), colRows step k i cur = some col → cur.length = i + 1 →
      (k = 0 → Q (cur.getD i default)) → (∀ r r', 0 < k → step (i + k) r = some r' → Q r') → Q (col.getD (i + k) default) := by
  intro k
  induction k with
  | zero =>
    intro i cur col h hlen h0 _
    simp only [colRows, Option.some.injEq] at h
    subst h; exact h0 rfl
  | succ k ih =>
    intro i cur col h hlen _ hstep
    simp only [colRows] at h
    obtain ⟨r', hr, h⟩ := obind_eq_some h
    have := ih (i + 1) (cur ++ [r']) col h (by simp [hlen])
      (fun hk => by
        subst hk
        have e : (cur ++ [r']).getD (i + 1) default = r' := by rw [← hlen]; exact getD_snoc_eq _ _ _
        rw [e]; exact hstep _ _ (by omega) hr)
      (fun r r'' hk hs => hstep r r'' (by omega) (by rw [show i + (k + 1) = i + 1 + k by omega]; exact hs))
    rw [show i + (k + 1) = i + 1 + k by omega]; exact this

/-- column `j` of the mirror with tie-breaks `T` and code chooser `sCode`, from the previous column `pc` -/
def colStepT (T : Ties) (sCode : SCodeFn) (sc : Sc) (cl : Clip) (x : List Nat) (m n j q : Nat) (pc : List Row) :
    Option (List Row) :=
  obind (rowJ0T T sc cl m n j (pc.getD 0 default)) fun r0 =>
  obind (xclipO sc cl j) fun xc => colRows (stepT T sCode sc cl x m n j q xc pc) m 0 [r0]

/-- **one iteration of the outer loop** (`for j in 1..=n`, translated `custom_for3`) **moves the state from the finished column
`j − 1` to the finished column `j`** (`colStepT`), or panics exactly when the mirror's column is `none` -/
theorem column_step (w : Nat → Nat → Int) (T : Ties) (sCode : SCodeFn) (hcell : CellEq w T sCode) (a : Aligner)
    (x y : List Nat) (m n j : Nat) (pc : List Row) (oc : Nat → Nat → TracebackCell) (olx : Nat → Nat)
    (hdone : ColDone a m n (j - 1) pc oc olx) (hx : x.length = m) (hy : y.length = n) (hj : 1 ≤ j) (hjn : j ≤ n)
    (hLx0 : a.Lx.getD j 0 = 0) :
    match colStepT T sCode (scOf w a) (clOf a) x m n j (y.getD (j - 1) 0) pc with
    | none => custom_for3 w T.iT T.dT T.snT T.sn0T x y m n a j = Res.panic
    | some col => ∃ a', custom_for3 w T.iT T.dT T.snT T.sn0T x y m n a j = Res.ok a' ∧
        ColDone a' m n j col (fun k j' => cellAt a k j') (fun j' => a.Lx.getD j' 0) ∧ col.length = m + 1 ∧
        a'.scoring = a.scoring := by
  rw [block_eq w T a x y m n j hdone.dims hx hy hj hjn,
    rowJ0T_congr T _ _ m n j (row0P a) (pc.getD 0 default) (hdone.hSn 0 (by omega)) (hdone.hLy 0 (by omega))]
  unfold colStepT
  cases hr0 : rowJ0T T (scOf w a) (clOf a) m n j (pc.getD 0 default) with
  | none => simp only [obind_none, ofOpt_none, Res.panic_bind]
  | some r0 =>
    simp only [obind_some, ofOpt_some, Res.ok_bind]
    cases hxc : xclipO (scOf w a) (clOf a) j with
    | none => simp only [obind_none, ofOpt_none, Res.panic_bind]
    | some xc =>
      simp only [obind_some, ofOpt_some, Res.ok_bind]
      have hinv := startCol_inv T a m n j pc oc olx _ _ r0 hdone hj hjn hLx0 hr0
      have hloop := column_loop w T x m n j (y.getD (j - 1) 0) xc pc (scOf w a) (clOf a) sCode hcell _ _ hx hj hjn m 0
        (startCol a m (j % 2) j r0) [r0] hinv rfl (by omega) rfl rfl
      simp only [Nat.zero_add] at hloop
      cases hc : colRows (stepT T sCode (scOf w a) (clOf a) x m n j (y.getD (j - 1) 0) xc pc) m 0 [r0] with
      | none => rw [hc] at hloop; exact hloop
      | some col =>
        rw [hc] at hloop
        obtain ⟨a', e1, e2, e3, e4⟩ := hloop
        refine ⟨a', e1, colDone_of_inv a' m n j pc col _ _ e2 ?_, e3, e4⟩
        have := colRows_last _ (fun r => r.s = r.xm) m 0 [r0] col hc rfl
          (fun hm => by
            show r0.s = r0.xm
            rw [(rowJ0T_shape T _ _ m n j _ r0 hr0).2.1, if_pos hm])
          (fun r r' hk hs => by
            simp only [Nat.zero_add, stepT] at hs
            exact stepJS_last T sCode _ _ m n j _ _ _ _ _ _ r r' hs)
        simpa using this

/-! ### the outer loop `for j in 1..=n` -/

/-- the state after column `j`: the last column's values, **every** column's cells and `Lx` entry, `Lx[j'] = 0` for the columns not
yet started -/
structure Outer (a : Aligner) (m n j : Nat) (cols : List (List Row)) : Prop where
  len : cols.length = j + 1
  done : ColDone a m n j (cols.getD j []) (fun k j' => cellAt a k j') (fun j' => a.Lx.getD j' 0)
  cells : ∀ j' k, j' ≤ j → k ≤ m → cellAt a k j' =
    cellOf ((cols.getD j' []).getD k default).t.ts ((cols.getD j' []).getD k default).t.ti
      ((cols.getD j' []).getD k default).t.td
  lx : ∀ j', j' ≤ j → a.Lx.getD j' 0 = ((cols.getD j' []).getD m default).t.lx
  lx0 : ∀ j', j < j' → j' ≤ n → a.Lx.getD j' 0 = 0

/-- columns `j + 1 ..= j + k` appended to the columns computed so far -/
def colsT (stepCol : Nat → List Row → Option (List Row)) : Nat → Nat → List (List Row) → Option (List (List Row))
  | 0, _, cols => some cols
  | k + 1, j, cols => obind (stepCol (j + 1) (cols.getD j [])) fun c => colsT stepCol k (j + 1) (cols ++ [c])

/-- **the outer loop of the main fill** (`for j in 1..=n`, translated text) from the finished column `j` on **= `colsT (colStepT …)`**:
panics iff a column of the mirror is `none`, otherwise ends holding the last column and the cells / `Lx` entries of all columns -/
theorem outer_loop (w : Nat → Nat → Int) (T : Ties) (sCode : SCodeFn) (hcell : CellEq w T sCode) (x y : List Nat) (m n : Nat)
    (sc : Sc) (cl : Clip) (hx : x.length = m) (hy : y.length = n) :
    ∀ (k j : Nat) (a : Aligner) (cols : List (List Row)), Outer a m n j cols → j + k = n → scOf w a = sc → clOf a = cl →
      match colsT (fun j pc => colStepT T sCode sc cl x m n j (y.getD (j - 1) 0) pc) k j cols with
      | none => List.foldlM (custom_for3 w T.iT T.dT T.snT T.sn0T x y m n) a (List.range' (j + 1) k) = Res.panic
      | some all => ∃ a', List.foldlM (custom_for3 w T.iT T.dT T.snT T.sn0T x y m n) a (List.range' (j + 1) k) = Res.ok a' ∧
          Outer a' m n n all ∧ a'.scoring = a.scoring := by
  intro k
  induction k with
  | zero =>
    intro j a cols ho hjk hsc hcl
    have : j = n := by omega
    subst this
    simp only [colsT, List.range'_zero, List.foldlM_nil, Res.pure_eq_ok]
    exact ⟨a, rfl, ho, rfl⟩
  | succ k ih =>
    intro j a cols ho hjk hsc hcl
    obtain ⟨len, done, cells, lx, lx0⟩ := ho
    have hstep := column_step w T sCode hcell a x y m n (j + 1) (cols.getD j []) _ _
      (by rw [Nat.add_sub_cancel]; exact done) hx hy (by omega) (by omega) (lx0 (j + 1) (by omega) (by omega))
    rw [hsc, hcl, Nat.add_sub_cancel] at hstep
    simp only [colsT, List.range'_succ, List.foldlM_cons, Nat.add_sub_cancel]
    cases hc : colStepT T sCode sc cl x m n (j + 1) (y.getD j 0) (cols.getD j []) with
    | none => rw [hc] at hstep; simp only [hstep, obind_none, Res.panic_bind]
    | some col =>
      rw [hc] at hstep
      obtain ⟨a1, e1, d1, l1, s1⟩ := hstep
      simp only [e1, obind_some, Res.ok_bind]
      have gl : ∀ j', j' ≤ j → (cols ++ [col]).getD j' [] = cols.getD j' [] := fun j' h => getD_snoc_lt _ _ _ _ (by omega)
      have ge : (cols ++ [col]).getD (j + 1) [] = col := by rw [← len]; exact getD_snoc_eq _ _ _
      obtain ⟨ddims, dS, dI, dD, dSn, dLy, dLx, dCell, dOld, dOldLx⟩ := d1
      have ho1 : Outer a1 m n (j + 1) (cols ++ [col]) := by
        refine ⟨by simp [len], ⟨ddims, ?_, ?_, ?_, ?_, ?_, ?_, ?_, fun _ _ _ _ _ => rfl, fun _ _ _ => rfl⟩, ?_, ?_, ?_⟩
        · rw [ge]; exact dS
        · rw [ge]; exact dI
        · rw [ge]; exact dD
        · rw [ge]; exact dSn
        · rw [ge]; exact dLy
        · rw [ge]; exact dLx
        · rw [ge]; exact dCell
        · intro j' k' hj' hk'
          by_cases h : j' = j + 1
          · subst h; rw [ge]; exact dCell k' hk'
          · rw [gl j' (by omega), dOld k' j' hk' (by omega) h]; exact cells j' k' (by omega) hk'
        · intro j' hj'
          by_cases h : j' = j + 1
          · subst h; rw [ge]; exact dLx
          · rw [gl j' (by omega), dOldLx j' (by omega) h]; exact lx j' (by omega)
        · intro j' h1 h2
          rw [dOldLx j' h2 (by omega)]; exact lx0 j' (by omega) h2
      have hsc1 : scOf w a1 = sc := by rw [← hsc]; unfold scOf; rw [s1]
      have hcl1 : clOf a1 = cl := by rw [← hcl]; unfold clOf; rw [s1]
      have h2 := ih (j + 1) a1 (cols ++ [col]) ho1 (by omega) hsc1 hcl1
      cases hcs : colsT (fun j pc => colStepT T sCode sc cl x m n j (y.getD (j - 1) 0) pc) k (j + 1) (cols ++ [col]) with
      | none => rw [hcs] at h2; exact h2
      | some all =>
        rw [hcs] at h2
        obtain ⟨a', f1, f2, f3⟩ := h2
        exact ⟨a', f1, f2, by rw [f3, s1]⟩

end RbV.Thm.GenSrcPwColGlue
