import RbV.Gen.SrcShiftAndNext
import RbV.Model.ShiftAnd
import RbV.Thm.GenSrcBasic
import RbV.Thm.GenSrcShiftAndMasks
/-!
# The translated text of `shift_and::Matches::next` equals the mirror model `ShiftAnd.run`

`RbV/Gen/SrcShiftAndNext.lean` is regenerated from `src/pattern_matching/shift_and.rs` by `tools/rs2lean.py` on every
`./check C08`.  The translated `next` works on the explicit iterator state `(active, text)`, `text` = (bytes not yet
consumed, counter of the `enumerate()`); it consumes bytes until the accept test succeeds and then returns
`Some(i + 1 - m)`, or `None` when the text is exhausted.  `Rs.drain` (RsSem.lean) calls `next` until `None`: that is
what a consumer of `find_all` sees.  Theorem: `drain next` from the initial state of `find_all` = `ShiftAnd.findAll`.

The checked subtraction `i + 1 - m` is the reason the proof needs the automaton invariant `ShiftAnd.Inv`: the accept bit
can only be set after at least `m` symbols.
-/
set_option linter.unusedSimpArgs false

namespace RbV.Thm.GenSrcShiftAndNext
open RbV RbV.Rs RbV.Gen.SrcShiftAndNext RbV.Thm.GenSrc

/-- the tables the constructor stores (`shiftAnd_masks_source_eq_model`: what the translated `masks` returns) -/
def mtab (p : List Nat) : List Nat := tab 256 (ShiftAnd.masksLoop p).masks

/-- outcome of one call of the loop: either the text is exhausted without a further match, or a match was reported and the
rest of the model's list is what the model yields from the new state -/
def StepSpec (p rest pre : List Nat) (active : Nat) (a' : Nat) (tx' : List Nat × Nat) (r : Option (Option Nat)) : Prop :=
  (r = none ∧ tx'.1 = [] ∧ ShiftAnd.run (ShiftAnd.masksLoop p) p.length rest pre.length active = []) ∨
  (∃ v pre', r = some (some v) ∧ ShiftAnd.Inv p pre' a' ∧ pre'.length = tx'.2 ∧ pre' ++ tx'.1 = pre ++ rest ∧
      tx'.1.length < rest.length ∧ tx'.1 <:+ rest ∧
      ShiftAnd.run (ShiftAnd.masksLoop p) p.length rest pre.length active
        = v :: ShiftAnd.run (ShiftAnd.masksLoop p) p.length tx'.1 tx'.2 a')

/-- the translated `for (i, c) in self.text.by_ref()` loop -/
theorem iter_eq (p : List Nat) (hp : 0 < p.length) (hm : p.length ≤ 64) :
    ∀ (rest pre : List Nat) (active : Nat), ShiftAnd.Inv p pre active → (∀ c ∈ rest, c < 256) →
      pre.length + rest.length < 2 ^ 64 →
      ∃ a' tx' r, next_iter1 (mtab p) (ShiftAnd.masksLoop p).accept p.length rest pre.length active
          = Res.ok (a', tx', r) ∧ StepSpec p rest pre active a' tx' r := by
  intro rest
  induction rest with
  | nil =>
    intro pre active _ _ _
    exact ⟨active, ([], pre.length), none, by simp [next_iter1], Or.inl ⟨rfl, rfl, by simp [ShiftAnd.run]⟩⟩
  | cons c rest ih =>
    intro pre active hinv hb h64
    have hc : c < 256 := hb c (by simp)
    have hinv' := ShiftAnd.step_inv p pre active c hm hinv
    have e1 : Rs.shl 64 active 1 = Res.ok ((active <<< 1) % 2 ^ 64) := Rs.shl_ok (by omega)
    have e2 : Rs.idx (mtab p) c = Res.ok ((ShiftAnd.masksLoop p).masks c) := idx_tab 256 _ c hc
    have hstep : ((active <<< 1) % 2 ^ 64 ||| 1) &&& (ShiftAnd.masksLoop p).masks c
        = ShiftAnd.step (ShiftAnd.masksLoop p) active c := by simp [ShiftAnd.step, ShiftAnd.W]
    have hlen : (pre ++ [c]).length = pre.length + 1 := by simp
    by_cases hacc : ShiftAnd.step (ShiftAnd.masksLoop p) active c &&& (ShiftAnd.masksLoop p).accept > 0
    · -- a match ends here: `i + 1 - m` does not underflow because the accept bit needs `m` symbols
      have hfull := (ShiftAnd.sufMatch_full_iff p (pre ++ [c]) hp).mp
        ((ShiftAnd.accept_test p (pre ++ [c]) _ hm hp hinv').mp hacc)
      have hmle : p.length ≤ pre.length + 1 := by simpa using hfull.1
      have e3 : Rs.add 64 pre.length 1 = Res.ok (pre.length + 1) := Rs.add_ok (by simp at h64; omega)
      have e3' : Rs.add 64 1 pre.length = Res.ok (pre.length + 1) := by
        rw [Nat.add_comm]; exact Rs.add_ok (by simp at h64; omega)
      have e4 : Rs.sub (pre.length + 1) p.length = Res.ok (pre.length + 1 - p.length) := Rs.sub_ok hmle
      have hne : ShiftAnd.step (ShiftAnd.masksLoop p) active c &&& (ShiftAnd.masksLoop p).accept ≠ 0 := by omega
      refine ⟨ShiftAnd.step (ShiftAnd.masksLoop p) active c, (rest, pre.length + 1),
        some (some (pre.length + 1 - p.length)), ?_, Or.inr ⟨_, pre ++ [c], rfl, hinv', by simp, by simp, by simp, List.suffix_cons c rest, ?_⟩⟩
      · rw [next_iter1]
        simp [e1, e2, e3, e3', e4, hstep, hacc, hne]
      · simp [ShiftAnd.run, hacc]
    · obtain ⟨a', tx', r, hrun, hspec⟩ := ih (pre ++ [c]) _ hinv' (fun x hx => hb x (by simp [hx]))
        (by simp at h64 ⊢; omega)
      rw [hlen] at hrun
      have hne : ¬ ShiftAnd.step (ShiftAnd.masksLoop p) active c &&& (ShiftAnd.masksLoop p).accept ≠ 0 := by omega
      have hz : ShiftAnd.step (ShiftAnd.masksLoop p) active c &&& (ShiftAnd.masksLoop p).accept = 0 := by omega
      refine ⟨a', tx', r, ?_, ?_⟩
      · rw [next_iter1]
        simp [e1, e2, hstep, hacc, hne, hz, hrun]
      · rcases hspec with ⟨h1, h2, h3⟩ | ⟨v, pre', h1, h2, h3, h4, h5, hs, h6⟩
        · left
          refine ⟨h1, h2, ?_⟩
          rw [hlen] at h3
          simp [ShiftAnd.run, hacc, hz, h3]
        · right
          refine ⟨v, pre', h1, h2, h3, by simpa using h4, by simp; omega, hs.trans (List.suffix_cons c rest), ?_⟩
          rw [hlen] at h6
          simp [ShiftAnd.run, hacc, hz, h6]

/-- the iterator state of `shift_and::Matches`: `(active, text)` -/
abbrev State := Nat × (List Nat × Nat)

/-- the translated `next` as a step function on the iterator state, for the matcher built from `p` -/
def nextS (p : List Nat) (s : State) : Res (State × Option Nat) := do
  let (a, tx, r) ← next p.length (mtab p) (ShiftAnd.masksLoop p).accept s.1 s.2
  pure ((a, tx), r)

/-- **`shift_and::Matches::next` as written in the source**, called on a state that satisfies the automaton invariant:
no panic, and either `None` with the text exhausted (the model has no further match) or `Some(v)` where `v` is the next
match of the model and the new state satisfies the invariant again. -/
theorem next_eq_model (p : List Nat) (hp : 0 < p.length) (hm : p.length ≤ 64) (rest pre : List Nat) (active : Nat)
    (hinv : ShiftAnd.Inv p pre active) (hb : ∀ c ∈ rest, c < 256) (h64 : pre.length + rest.length < 2 ^ 64) :
    ∃ a' tx' r, nextS p (active, (rest, pre.length)) = Res.ok ((a', tx'), r) ∧
      StepSpec p rest pre active a' tx' (r.map some) := by
  obtain ⟨a', tx', r, hrun, hspec⟩ := iter_eq p hp hm rest pre active hinv hb h64
  rcases hspec with ⟨h1, h2, h3⟩ | ⟨v, pre', h1, h2, h3, h4, h5, hs, h6⟩
  · subst h1
    exact ⟨a', tx', none, by simp [nextS, next, hrun], Or.inl ⟨rfl, h2, h3⟩⟩
  · subst h1
    exact ⟨a', tx', some v, by simp [nextS, next, hrun], Or.inr ⟨v, pre', rfl, h2, h3, h4, h5, hs, h6⟩⟩

/-- calling the translated `next` until `None` lists what the model's `run` lists -/
theorem drain_eq_run (p : List Nat) (hp : 0 < p.length) (hm : p.length ≤ 64) :
    ∀ (fuel : Nat) (rest pre : List Nat) (active : Nat), ShiftAnd.Inv p pre active → (∀ c ∈ rest, c < 256) →
      pre.length + rest.length < 2 ^ 64 → rest.length < fuel →
      Rs.drain (nextS p) fuel (active, (rest, pre.length))
        = Res.ok (ShiftAnd.run (ShiftAnd.masksLoop p) p.length rest pre.length active) := by
  intro fuel
  induction fuel with
  | zero => intro rest pre active _ _ _ h; omega
  | succ fuel ih =>
    intro rest pre active hinv hb h64 hf
    obtain ⟨a', tx', r, hrun, hspec⟩ := next_eq_model p hp hm rest pre active hinv hb h64
    rcases hspec with ⟨h1, _, h3⟩ | ⟨v, pre', h1, h2, h3, h4, h5, hs, h6⟩
    · have : r = none := by cases r <;> simp_all
      subst this
      rw [h3]
      exact Rs.drain_none _ _ _ _ hrun
    · have : r = some v := by cases r <;> simp_all
      subst this
      obtain ⟨rest', i'⟩ := tx'
      simp only at h3 h4 h5 h6 hs
      subst h3
      have hmem : ∀ c ∈ rest', c < 256 := fun c hc => hb c (hs.subset hc)
      have hlen := congrArg List.length h4
      simp only [List.length_append] at hlen
      rw [h6]
      exact Rs.drain_some _ _ _ _ _ _ hrun (ih rest' pre' a' h2 hmem (by omega) (by omega))

/-- **the whole `find_all` of ShiftAnd, run through the translated `next`, is the mirror model's `findAll`** (hence, by
`shiftAnd_exact`, exactly the occurrences): from the initial state `active = 0`, `text.into_iter().enumerate()` that
`ShiftAnd::find_all` builds, calling `next` until it returns `None` never panics and yields `ShiftAnd.findAll p t`. -/
theorem findAll_eq_model (p t : List Nat) (hp : 0 < p.length) (hm : p.length ≤ 64) (hb : ∀ c ∈ t, c < 256)
    (h64 : t.length < 2 ^ 64) :
    Rs.drain (nextS p) (t.length + 1) (0, (t, 0)) = Res.ok (ShiftAnd.findAll p t) := by
  have := drain_eq_run p hp hm (t.length + 1) t [] 0 (ShiftAnd.inv_nil p) hb (by simpa using h64) (by omega)
  simpa [ShiftAnd.findAll] using this

/-! ### the constructor and `find_all` -/

/-- **`ShiftAnd::new` as written**: for a byte pattern of at most 64 symbols it returns `(m, masks, accept)` with the
tables of the mirror model (through the translated `masks`, `masks_eq_model`) -/
theorem new_eq_model (p : List Nat) (hm : p.length ≤ 64) (hb : ∀ c ∈ p, c < 256) :
    new p = Res.ok (p.length, mtab p, (ShiftAnd.masksLoop p).accept) := by
  have e1 : Rs.assert (decide (p.length ≤ 64)) = Res.ok () := Rs.assert_ok (by simpa using hm)
  simp [new, e1, GenSrcShiftAndMasks.masks_eq_model p hb, mtab]

/-- a pattern of more than 64 symbols is refused (`assert!`) -/
theorem new_long_panics (p : List Nat) (hm : 64 < p.length) : new p = Res.panic := by
  have : ¬ p.length ≤ 64 := by omega
  simp [new, Rs.assert, this]

/-- **`ShiftAnd::find_all` as written**: the initial iterator state is `active = 0`, all of the text unread, counter 0 -/
theorem findAll_init (t : List Nat) : findAll t = Res.ok (0, (t, 0)) := by
  simp [findAll]

/-- the three translated functions put together as a caller does: `ShiftAnd::new(p).find_all(t).collect()` -/
def findAllSrc (p t : List Nat) : Res (List Nat) := do
  let (m, masks, accept) ← new p
  let (active, text) ← findAll t
  Rs.drain (fun (s : State) => do
    let (a, tx, r) ← next m masks accept s.1 s.2
    pure ((a, tx), r)) (t.length + 1) (active, text)

/-- **ShiftAnd end to end, on the translated source text**: `new`, `find_all` and `next` (until `None`) as written in
`shift_and.rs` never panic and return the mirror model's list, for every byte pattern of 1..64 symbols and every byte
text (whose length fits `usize`). -/
theorem findAllSrc_eq_model (p t : List Nat) (hp : 0 < p.length) (hm : p.length ≤ 64) (hbp : ∀ c ∈ p, c < 256)
    (hb : ∀ c ∈ t, c < 256) (h64 : t.length < 2 ^ 64) :
    findAllSrc p t = Res.ok (ShiftAnd.findAll p t) := by
  have := findAll_eq_model p t hp hm hb h64
  simp only [findAllSrc, new_eq_model p hm hbp, findAll_init, Res.ok_bind]
  exact this

end RbV.Thm.GenSrcShiftAndNext
