import RbV.Gen.SrcIit
import RbV.Model.IitIndex
import RbV.Thm.GenSrcBasic
/-!
# The translated text of `ArrayBackedIntervalTree::index_core` equals the mirror model `Iit.indexCore`

`RbV/Gen/SrcIit.lean` is regenerated from `array_backed_interval_tree.rs` on every `./check C07` (dialect "cf").  The
generic bound type `N: Ord + Clone` is read at `Int`, the payload type `D` at `Int` in the theorems; an
`InternalEntry { data, interval: Interval { start, end }, max }` is the tuple `(data, (start, end), max)`, `toCell` maps
it to the model's `Cell`.  `max3` is an abstract parameter, instantiated by the model's `Iit.max3`.

The model is total (`getC`, `setMx` ignore indices out of range) and its loops are folds over `stepIdx` / `range'`; the
translated code indexes with panics, shifts with panics for amounts `≥ 64`, adds and subtracts with overflow checks, and its
`while (1 << k) <= n` runs on fuel.  The equality therefore also says: for fewer than `2^62` entries no index is out of
range (`i - x`, `i + x`, `last_i`), no shift or addition overflows (`last_i < n + 2^(k-1)` is the loop invariant), and 65
rounds of fuel suffice.
-/
set_option linter.unusedSimpArgs false
set_option linter.unusedVariables false
namespace RbV.Thm.GenSrcIit
open RbV RbV.Rs RbV.Gen.SrcIit RbV.Iit RbV.Ivl

/-- `InternalEntry<Int, Int>` as the translation represents it: `(data, (start, end), max)` -/
abbrev RCell := Int × (Int × Int) × Int

def toCell (c : RCell) : Cell := ⟨⟨c.2.1.1, c.2.1.2, c.1⟩, c.2.2⟩
def cells (l : List RCell) : List Cell := l.map toCell

theorem getC_cells (l : List RCell) (i : Nat) (h : i < l.length) : getC (cells l) i = toCell l[i] := by
  unfold getC cells; simp [h]

theorem setMx_cells (l : List RCell) (i : Nat) (m : Int) (h : i < l.length) :
    setMx (cells l) i m = cells (l.set i (l[i].1, l[i].2.1, m)) := by
  unfold setMx cells
  simp [h, List.map_set, toCell]

theorem length_cells (l : List RCell) : (cells l).length = l.length := by simp [cells]

/-! ## the first loop -/

theorem for1_spec (mx3 : Int → Int → Int → Int) : ∀ (idxs : List Nat) (li : Nat) (es : List RCell) (lv : Int),
    (∀ i ∈ idxs, i < es.length) →
    ∃ li' es' lv', indexCore_for1 mx3 idxs (li, es, lv) = Res.ok (li', es', lv') ∧ es'.length = es.length ∧
      (cells es', li', lv') = idxs.foldl l0F (cells es, li, lv) := by
  intro idxs
  induction idxs with
  | nil => intro li es lv _; exact ⟨li, es, lv, by simp [indexCore_for1], rfl, rfl⟩
  | cons i rest ih =>
    intro li es lv h
    have hi : i < es.length := h i List.mem_cons_self
    have e1 : Rs.idx es i = Res.ok es[i] := Rs.idx_ok hi
    have e2 : ∀ v, Rs.setIdx es i v = Res.ok (es.set i v) := fun v => Rs.setIdx_ok hi
    have e3 : ∀ v, Rs.idx (es.set i v) i = Res.ok v := fun v => GenSrc.idx_set_self es i v hi
    obtain ⟨li', es', lv', h1, h2, h3⟩ := ih i (es.set i (es[i].1, es[i].2.1, es[i].2.1.2)) es[i].2.1.2
      (by intro j hj; rw [List.length_set]; exact h j (List.mem_cons_of_mem _ hj))
    refine ⟨li', es', lv', ?_, by rw [h2, List.length_set], ?_⟩
    · simp [indexCore_for1, e1, e2, e3, h1]
    · rw [h3, List.foldl_cons]
      congr 1
      unfold l0F
      simp only
      rw [getC_cells es i hi, setMx_cells es i _ hi, getC_cells _ i (by rw [List.length_set]; exact hi)]
      simp [toCell]

/-! ## one level -/

theorem for2_spec (x n : Nat) (lv : Int) : ∀ (idxs : List Nat) (es : List RCell),
    (∀ i ∈ idxs, x ≤ i ∧ i < es.length) → n = es.length → n + x < 2 ^ 64 →
    ∃ es', indexCore_for2 Iit.max3 x n lv idxs es = Res.ok es' ∧ es'.length = es.length ∧
      cells es' = idxs.foldl (fun a i => setMx a i (hL n x lv a i)) (cells es) := by
  intro idxs
  induction idxs with
  | nil => intro es _ _ _; exact ⟨es, by simp [indexCore_for2], rfl, rfl⟩
  | cons i rest ih =>
    intro es h hn hb
    obtain ⟨hxi, hi⟩ := h i List.mem_cons_self
    have e1 : Rs.sub i x = Res.ok (i - x) := Rs.sub_ok hxi
    have e2 : Rs.idx es (i - x) = Res.ok es[i - x] := Rs.idx_ok (by omega)
    have e3 : Rs.add 64 i x = Res.ok (i + x) := Rs.add_ok (by omega)
    have e4 : Rs.idx es i = Res.ok es[i] := Rs.idx_ok hi
    have e5 : ∀ v, Rs.setIdx es i v = Res.ok (es.set i v) := fun v => Rs.setIdx_ok hi
    have hstep : ∀ (r : Int), (if i + x < n then (getC (cells es) (i + x)).mx else lv) = r →
        setMx (cells es) i (hL n x lv (cells es) i) = cells (es.set i (es[i].1, es[i].2.1, Iit.max3 es[i].2.1.2 es[i - x].2.2 r)) := by
      intro r hr
      rw [setMx_cells es i _ hi]
      unfold hL
      rw [getC_cells es i hi, getC_cells es (i - x) (by omega), hr]
      rfl
    by_cases hlt : i + x < n
    · have e6 : Rs.idx es (i + x) = Res.ok es[i + x] := Rs.idx_ok (by omega)
      have hr := hstep es[i + x].2.2 (by rw [if_pos hlt, getC_cells es (i + x) (by omega)]; rfl)
      obtain ⟨es', h1, h2, h3⟩ := ih (es.set i (es[i].1, es[i].2.1, Iit.max3 es[i].2.1.2 es[i - x].2.2 es[i + x].2.2))
        (by intro j hj; rw [List.length_set]; exact h j (List.mem_cons_of_mem _ hj)) (by rw [List.length_set]; exact hn) hb
      refine ⟨es', ?_, by rw [h2, List.length_set], ?_⟩
      · simp [indexCore_for2, e1, e2, e3, e4, e5, e6, hlt, h1]
      · rw [h3, List.foldl_cons, hr]
    · have hr := hstep lv (by rw [if_neg hlt])
      obtain ⟨es', h1, h2, h3⟩ := ih (es.set i (es[i].1, es[i].2.1, Iit.max3 es[i].2.1.2 es[i - x].2.2 lv))
        (by intro j hj; rw [List.length_set]; exact h j (List.mem_cons_of_mem _ hj)) (by rw [List.length_set]; exact hn) hb
      refine ⟨es', ?_, by rw [h2, List.length_set], ?_⟩
      · simp [indexCore_for2, e1, e2, e3, e4, e5, hlt, h1]
      · rw [h3, List.foldl_cons, hr]

theorem shl_one (j : Nat) (h : j < 64) : Rs.shl 64 1 j = Res.ok (2 ^ j) := by
  rw [Rs.shl_ok h, Nat.shiftLeft_eq, Nat.one_mul, Nat.mod_eq_of_lt (Nat.pow_lt_pow_right (by omega) h)]

theorem shl_pow (j s : Nat) (h : j + s < 64) : Rs.shl 64 (2 ^ j) s = Res.ok (2 ^ (j + s)) := by
  rw [Rs.shl_ok (by omega), Nat.shiftLeft_eq, ← Nat.pow_add, Nat.mod_eq_of_lt (Nat.pow_lt_pow_right (by omega) h)]

/-- the `while (1 << k) <= n` loop: `d` rounds are left -/
theorem while_spec (n : Nat) (hn0 : 0 < n) (hn : n < 2 ^ 62) : ∀ (d k : Nat) (es : List RCell) (li : Nat) (lv : Int) (fuel : Nat),
    1 ≤ k → k + d = Nat.log2 n + 1 → d < fuel → es.length = n → li < n + 2 ^ (k - 1) →
    ∃ es' li' lv', indexCore_while1 Iit.max3 n fuel (es, li, lv, k) = Res.ok (es', li', lv', Nat.log2 n + 1) ∧
      es'.length = n ∧ (cells es', li', lv') = (List.range' k d).foldl (levelStep n) (cells es, li, lv) := by
  have hlog : Nat.log2 n < 62 := by
    rw [Nat.log2_lt (by omega)]; exact hn
  intro d
  induction d with
  | zero =>
    intro k es li lv fuel hk hkd hf hl hli
    obtain ⟨f, rfl⟩ : ∃ f, fuel = f + 1 := ⟨fuel - 1, by omega⟩
    have hk' : k = Nat.log2 n + 1 := by omega
    subst hk'
    have e1 : Rs.shl 64 1 (Nat.log2 n + 1) = Res.ok (2 ^ (Nat.log2 n + 1)) := shl_one _ (by omega)
    have hgt : ¬ 2 ^ (Nat.log2 n + 1) ≤ n := Nat.not_le.mpr Nat.lt_log2_self
    refine ⟨es, li, lv, ?_, hl, by simp⟩
    rw [indexCore_while1]
    simp [e1, hgt]
  | succ d ih =>
    intro k es li lv fuel hk hkd hf hl hli
    obtain ⟨f, rfl⟩ : ∃ f, fuel = f + 1 := ⟨fuel - 1, by omega⟩
    obtain ⟨j, rfl⟩ : ∃ j, k = j + 1 := ⟨k - 1, by omega⟩
    have hkle : j + 1 ≤ Nat.log2 n := by omega
    have hle : 2 ^ (j + 1) ≤ n := (Nat.le_log2 (by omega)).mp hkle
    have hj : 2 ^ j < 2 ^ (j + 1) := Nat.pow_lt_pow_right (by omega) (by omega)
    have e2j : 2 ^ (j + 1) = 2 * 2 ^ j := by rw [Nat.pow_succ]; omega
    have e4j : 2 ^ (j + 2) = 4 * 2 ^ j := by rw [Nat.pow_succ, Nat.pow_succ]; omega
    have hp := Iit.two_pow_pos j
    have hli' : li < n + 2 ^ j := by simpa using hli
    have e1 : Rs.shl 64 1 (j + 1) = Res.ok (2 ^ (j + 1)) := shl_one _ (by omega)
    have e2 : Rs.sub (j + 1) 1 = Res.ok j := by rw [Rs.sub_ok (by omega)]; rfl
    have e3 : Rs.shl 64 1 j = Res.ok (2 ^ j) := shl_one _ (by omega)
    have e4 : Rs.shl 64 (2 ^ j) 1 = Res.ok (2 ^ (j + 1)) := shl_pow j 1 (by omega)
    have e5 : Rs.sub (2 ^ (j + 1)) 1 = Res.ok (2 ^ (j + 1) - 1) := Rs.sub_ok (by omega)
    have e6 : Rs.shl 64 (2 ^ j) 2 = Res.ok (2 ^ (j + 2)) := shl_pow j 2 (by omega)
    have e7 : Rs.rangeStepBy (2 ^ (j + 1) - 1) n (2 ^ (j + 2))
        = Res.ok (stepIdx (2 ^ (j + 1) - 1) n (2 ^ (j + 2))) := Rs.rangeStepBy_ok (by omega)
    obtain ⟨es1, g1, g2, g3⟩ := for2_spec (2 ^ j) n lv (stepIdx (2 ^ (j + 1) - 1) n (2 ^ (j + 2))) es
      (by
        intro i hi
        obtain ⟨t, rfl, hlt⟩ := (mem_stepIdx _ _ _ i (by omega)).mp hi
        exact ⟨by omega, by omega⟩)
      hl.symm (by omega)
    have e8 : Rs.shr 64 li (j + 1) = Res.ok (li >>> (j + 1)) := Rs.shr_ok (by omega)
    have hbit : li >>> (j + 1) % 2 = (li / 2 ^ (j + 1)) % 2 := by rw [Nat.shiftRight_eq_div_pow]
    -- the new `last_i`
    obtain ⟨li1, hli1, esub, eadd, hli1b⟩ : ∃ li1, li1 = (if (li / 2 ^ (j + 1)) % 2 > 0 then li - 2 ^ j else li + 2 ^ j) ∧
        (0 < li >>> (j + 1) % 2 → Rs.sub li (2 ^ j) = Res.ok li1) ∧
        (¬ 0 < li >>> (j + 1) % 2 → Rs.add 64 li (2 ^ j) = Res.ok li1) ∧
        li1 < n + 2 ^ (j + 1) := by
      refine ⟨_, rfl, ?_, ?_, ?_⟩
      · intro hb
        rw [hbit] at hb
        have h2 : 2 ^ (j + 1) ≤ li := by
          apply Nat.le_of_not_lt
          intro hlt
          rw [Nat.div_eq_of_lt hlt] at hb
          simp at hb
        have hb2 : (li / 2 ^ (j + 1)) % 2 > 0 := hb
        simp only [hb2, if_true]
        exact Rs.sub_ok (by omega)
      · intro hb
        rw [hbit] at hb
        have hb2 : ¬ (li / 2 ^ (j + 1)) % 2 > 0 := hb
        simp only [hb2, if_false]
        exact Rs.add_ok (by omega)
      · split <;> omega
    -- the new `last_value`
    have hlv : ∃ lv1, lv1 = (if li1 < n ∧ (getC (cells es1) li1).mx > lv then (getC (cells es1) li1).mx else lv) := ⟨_, rfl⟩
    obtain ⟨lv1, hlv1⟩ := hlv
    obtain ⟨es', li', lv', r1, r2, r3⟩ := ih (j + 2) es1 li1 lv1 f (by omega) (by omega) (by omega) (by rw [g2, hl])
      (by simpa using hli1b)
    refine ⟨es', li', lv', ?_, r2, ?_⟩
    · rw [indexCore_while1]
      simp only [e1, Res.ok_bind, hle, decide_true, if_true, e2, e3, e4, e5, e6, e7, g1, e8]
      have e10 : Rs.add 64 (j + 1) 1 = Res.ok (j + 2) := Rs.add_ok (by omega)
      have tail_in : li1 < n → (do
            let t25 ← Rs.idx es1 li1
            if lv < t25.2.2 then do
                let t27 ← Rs.idx es1 li1
                indexCore_while1 Iit.max3 n f (es1, li1, t27.2.2, j + 2)
              else indexCore_while1 Iit.max3 n f (es1, li1, lv, j + 2)) = Res.ok (es', li', lv', Nat.log2 n + 1) := by
        intro hin
        have e9 : Rs.idx es1 li1 = Res.ok es1[li1] := Rs.idx_ok (by rw [g2, hl]; exact hin)
        have hg : (getC (cells es1) li1).mx = es1[li1].2.2 := by
          rw [getC_cells es1 li1 (by rw [g2, hl]; exact hin)]; rfl
        by_cases hgt : es1[li1].2.2 > lv
        · have : lv1 = es1[li1].2.2 := by rw [hlv1, hg]; simp [hin, hgt]
          have hgt' : lv < es1[li1].2.2 := hgt
          simp only [e9, Res.ok_bind, hgt', if_true]
          rw [← this]; exact r1
        · have : lv1 = lv := by rw [hlv1, hg]; simp [hin, hgt]
          have hgt' : ¬ lv < es1[li1].2.2 := hgt
          simp only [e9, Res.ok_bind, hgt', if_false]
          rw [← this]; exact r1
      have tail_out : ¬ li1 < n → indexCore_while1 Iit.max3 n f (es1, li1, lv, j + 2)
          = Res.ok (es', li', lv', Nat.log2 n + 1) := by
        intro hin
        have : lv1 = lv := by rw [hlv1]; simp [hin]
        rw [← this, r1]
      by_cases hb : 0 < li >>> (j + 1) % 2 <;> by_cases hin : li1 < n
      · simp [Res.pure_eq_ok, hb, esub hb, hin, e10, tail_in hin]
      · simp [Res.pure_eq_ok, hb, esub hb, hin, e10, tail_out hin]
      · simp [Res.pure_eq_ok, hb, eadd hb, hin, e10, tail_in hin]
      · simp [Res.pure_eq_ok, hb, eadd hb, hin, e10, tail_out hin]
    · rw [r3, List.range'_succ, List.foldl_cons, levelStep_eq, ← g3, ← hli1]
      simp only [← hlv1]

/-- **`index_core` as written in the source = the mirror model** (fewer than `2^62` entries) -/
theorem indexCore_eq_model (es : List RCell) (ml : Nat) (hn : es.length < 2 ^ 62) :
    ∃ es', Gen.SrcIit.indexCore Iit.max3 es ml = Res.ok (es', (Iit.indexCore (cells es) ml).2) ∧
      cells es' = (Iit.indexCore (cells es) ml).1 := by
  cases hes : es with
  | nil => exact ⟨[], by simp [Gen.SrcIit.indexCore]; rfl, rfl⟩
  | cons c t =>
    rw [← hes]
    have hn0 : 0 < es.length := by rw [hes]; simp
    have hne : es.isEmpty = false := by rw [hes]; rfl
    have hne' : (cells es).isEmpty = false := by rw [hes]; rfl
    have e0 : Rs.idx es 0 = Res.ok es[0] := Rs.idx_ok hn0
    have e1 : Rs.rangeStepBy 0 es.length 2 = Res.ok (stepIdx 0 es.length 2) := Rs.rangeStepBy_ok (by omega)
    obtain ⟨li1, es1, lv1, f1, f2, f3⟩ := for1_spec Iit.max3 (stepIdx 0 es.length 2) 0 es es[0].2.2
      (by intro i hi; obtain ⟨t, rfl, h⟩ := (mem_stepIdx _ _ _ i (by omega)).mp hi; exact h)
    have hli1 : li1 < es.length + 2 ^ (1 - 1) := by
      -- `last_i` is one of the even indices (or 0)
      have : li1 = ((stepIdx 0 es.length 2).foldl l0F (cells es, 0, es[0].2.2)).2.1 := by rw [← f3]
      have hgen : ∀ (idxs : List Nat) (st : List Cell × Nat × Int), (∀ i ∈ idxs, i < es.length) → st.2.1 < es.length →
          (idxs.foldl l0F st).2.1 < es.length := by
        intro idxs
        induction idxs with
        | nil => intro st _ h; exact h
        | cons i rest ih =>
          intro st h1 h2
          rw [List.foldl_cons]
          exact ih _ (fun j hj => h1 j (List.mem_cons_of_mem _ hj)) (h1 i List.mem_cons_self)
      have := hgen (stepIdx 0 es.length 2) (cells es, 0, es[0].2.2)
        (by intro i hi; obtain ⟨t, rfl, h⟩ := (mem_stepIdx _ _ _ i (by omega)).mp hi; exact h) hn0
      omega
    have hlog : Nat.log2 es.length < 62 := by rw [Nat.log2_lt (by omega)]; exact hn
    obtain ⟨es2, li2, lv2, w1, w2, w3⟩ := while_spec es.length hn0 hn (Nat.log2 es.length) 1 es1 li1 lv1 65
      (by omega) (by omega) (by omega) f2 hli1
    have e2 : Rs.sub (Nat.log2 es.length + 1) 1 = Res.ok (Nat.log2 es.length) := by rw [Rs.sub_ok (by omega)]; rfl
    have hmodel : Iit.indexCore (cells es) ml
        = (((List.range' 1 (Nat.log2 es.length)).foldl (levelStep es.length) (level0 (cells es) es.length)).1,
            Nat.log2 es.length) := by
      unfold Iit.indexCore
      simp only [hne', Bool.false_eq_true, if_false, length_cells]
    have hl0 : level0 (cells es) es.length = (cells es1, li1, lv1) := by
      rw [level0_eq, f3, getC_cells es 0 hn0]; rfl
    refine ⟨es2, ?_, ?_⟩
    · rw [hmodel]
      simp [Gen.SrcIit.indexCore, hne, e0, e1, f1, w1, e2]
    · rw [hmodel, hl0, ← w3]

end RbV.Thm.GenSrcIit
