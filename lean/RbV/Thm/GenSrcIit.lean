import RbV.Gen.SrcIit
import RbV.Model.IitIndex
import RbV.Thm.GenSrcBasic
/-!
# The translated text of `ArrayBackedIntervalTree::index_core` equals the mirror model `Iit.indexCore`

`RbV/Gen/SrcIit.lean` is regenerated from `array_backed_interval_tree.rs` on every `./check C07` (dialect "cf").  The
generic bound type `N: Ord + Clone` is read at `Int`, the payload type `D` at `Int` in the theorems; an
`InternalEntry { data, interval: Interval { start, end }, max }` is the tuple `(data, (start, end), max)`, `toCell` maps
it to the model's `Cell`.  `max3` is an abstract parameter, instantiated by the model's `Iit.max3`.

The model is total (`getC`, `setMx` ignore indices out of range) and its loops are folds over `stepIdx` / `range'`; the
translated code indexes with panics, shifts with panics for amounts `≥ 64`, adds and subtracts with overflow checks, and its
`while (1 << k) <= n` runs on fuel.  The equality therefore also says: for fewer than `2^62` entries no index is out of
range (`i - x`, `i + x`, `last_i`), no shift or addition overflows (`last_i < n + 2^(k-1)` is the loop invariant), and 65
rounds of fuel suffice.
-/
set_option linter.unusedSimpArgs false
set_option linter.unusedVariables false
namespace RbV.Thm.GenSrcIit
open RbV RbV.Rs RbV.Gen.SrcIit RbV.Iit RbV.Ivl

/-- `InternalEntry<Int, Int>` as the translation represents it: `(data, (start, end), max)` -/
abbrev RCell := Int × (Int × Int) × Int

def toCell (c : RCell) : Cell := ⟨⟨c.2.1.1, c.2.1.2, c.1⟩, c.2.2⟩
def cells (l : List RCell) : List Cell := l.map toCell

theorem getC_cells (l : List RCell) (i : Nat) (h : i < l.length) : getC (cells l) i = toCell l[i] := by
  unfold getC cells; simp [h]

theorem setMx_cells (l : List RCell) (i : Nat) (m : Int) (h : i < l.length) :
    setMx (cells l) i m = cells (l.set i (l[i].1, l[i].2.1, m)) := by
  unfold setMx cells
  simp [h, List.map_set, toCell]

theorem length_cells (l : List RCell) : (cells l).length = l.length := by simp [cells]

/-! ## the first loop -/

theorem for1_spec (mx3 : Int → Int → Int → Int) : ∀ (idxs : List Nat) (li : Nat) (es : List RCell) (lv : Int),
    (∀ i ∈ idxs, i < es.length) →
    ∃ li' es' lv', indexCore_for1 mx3 idxs (li, es, lv) = Res.ok (li', es', lv') ∧ es'.length = es.length ∧
      (cells es', li', lv') = idxs.foldl l0F (cells es, li, lv) := by
  intro idxs
  induction idxs with
  | nil => intro li es lv _; exact ⟨li, es, lv, by simp [indexCore_for1], rfl, rfl⟩
  | cons i rest ih =>
    intro li es lv h
    have hi : i < es.length := h i List.mem_cons_self
    have e1 : Rs.idx es i = Res.ok es[i] := Rs.idx_ok hi
    have e2 : ∀ v, Rs.setIdx es i v = Res.ok (es.set i v) := fun v => Rs.setIdx_ok hi
    have e3 : ∀ v, Rs.idx (es.set i v) i = Res.ok v := fun v => GenSrc.idx_set_self es i v hi
    obtain ⟨li', es', lv', h1, h2, h3⟩ := ih i (es.set i (es[i].1, es[i].2.1, es[i].2.1.2)) es[i].2.1.2
      (by intro j hj; rw [List.length_set]; exact h j (List.mem_cons_of_mem _ hj))
    refine ⟨li', es', lv', ?_, by rw [h2, List.length_set], ?_⟩
    · simp [indexCore_for1, e1, e2, e3, h1]
    · rw [h3, List.foldl_cons]
      congr 1
      unfold l0F
      simp only
      rw [getC_cells es i hi, setMx_cells es i _ hi, getC_cells _ i (by rw [List.length_set]; exact hi)]
      simp [toCell]

/-! ## one level -/

theorem for2_spec (x n : Nat) (lv : Int) : ∀ (idxs : List Nat) (es : List RCell),
    (∀ i ∈ idxs, x ≤ i ∧ i < es.length) → n = es.length → n + x < 2 ^ 64 →
    ∃ es', indexCore_for2 Iit.max3 x n lv idxs es = Res.ok es' ∧ es'.length = es.length ∧
      cells es' = idxs.foldl (fun a i => setMx a i (hL n x lv a i)) (cells es) := by
  intro idxs
  induction idxs with
  | nil => intro es _ _ _; exact ⟨es, by simp [indexCore_for2], rfl, rfl⟩
  | cons i rest ih =>
    intro es h hn hb
    obtain ⟨hxi, hi⟩ := h i List.mem_cons_self
    have e1 : Rs.sub i x = Res.ok (i - x) := Rs.sub_ok hxi
    have e2 : Rs.idx es (i - x) = Res.ok es[i - x] := Rs.idx_ok (by omega)
    have e3 : Rs.add 64 i x = Res.ok (i + x) := Rs.add_ok (by omega)
    have e4 : Rs.idx es i = Res.ok es[i] := Rs.idx_ok hi
    have e5 : ∀ v, Rs.setIdx es i v = Res.ok (es.set i v) := fun v => Rs.setIdx_ok hi
    have hstep : ∀ (r : Int), (if i + x < n then (getC (cells es) (i + x)).mx else lv) = r →
        setMx (cells es) i (hL n x lv (cells es) i) = cells (es.set i (es[i].1, es[i].2.1, Iit.max3 es[i].2.1.2 es[i - x].2.2 r)) := by
      intro r hr
      rw [setMx_cells es i _ hi]
      unfold hL
      rw [getC_cells es i hi, getC_cells es (i - x) (by omega), hr]
      rfl
    by_cases hlt : i + x < n
    · have e6 : Rs.idx es (i + x) = Res.ok es[i + x] := Rs.idx_ok (by omega)
      have hr := hstep es[i + x].2.2 (by rw [if_pos hlt, getC_cells es (i + x) (by omega)]; rfl)
      obtain ⟨es', h1, h2, h3⟩ := ih (es.set i (es[i].1, es[i].2.1, Iit.max3 es[i].2.1.2 es[i - x].2.2 es[i + x].2.2))
        (by intro j hj; rw [List.length_set]; exact h j (List.mem_cons_of_mem _ hj)) (by rw [List.length_set]; exact hn) hb
      refine ⟨es', ?_, by rw [h2, List.length_set], ?_⟩
      · simp [indexCore_for2, e1, e2, e3, e4, e5, e6, hlt, h1]
      · rw [h3, List.foldl_cons, hr]
    · have hr := hstep lv (by rw [if_neg hlt])
      obtain ⟨es', h1, h2, h3⟩ := ih (es.set i (es[i].1, es[i].2.1, Iit.max3 es[i].2.1.2 es[i - x].2.2 lv))
        (by intro j hj; rw [List.length_set]; exact h j (List.mem_cons_of_mem _ hj)) (by rw [List.length_set]; exact hn) hb
      refine ⟨es', ?_, by rw [h2, List.length_set], ?_⟩
      · simp [indexCore_for2, e1, e2, e3, e4, e5, hlt, h1]
      · rw [h3, List.foldl_cons, hr]

theorem shl_one (j : Nat) (h : j < 64) : Rs.shl 64 1 j = Res.ok (2 ^ j) := by
  rw [Rs.shl_ok h, Nat.shiftLeft_eq, Nat.one_mul, Nat.mod_eq_of_lt (Nat.pow_lt_pow_right (by omega) h)]

theorem shl_pow (j s : Nat) (h : j + s < 64) : Rs.shl 64 (2 ^ j) s = Res.ok (2 ^ (j + s)) := by
  rw [Rs.shl_ok (by omega), Nat.shiftLeft_eq, ← Nat.pow_add, Nat.mod_eq_of_lt (Nat.pow_lt_pow_right (by omega) h)]

/-- the `while (1 << k) <= n` loop: `d` rounds are left -/
theorem while_spec (n : Nat) (hn0 : 0 < n) (hn : n < 2 ^ 62) : ∀ (d k : Nat) (es : List RCell) (li : Nat) (lv : Int) (fuel : Nat),
    1 ≤ k → k + d = Nat.log2 n + 1 → d < fuel → es.length = n → li < n + 2 ^ (k - 1) →
    ∃ es' li' lv', indexCore_while1 Iit.max3 n fuel (es, li, lv, k) = Res.ok (es', li', lv', Nat.log2 n + 1) ∧
      es'.length = n ∧ (cells es', li', lv') = (List.range' k d).foldl (levelStep n) (cells es, li, lv) := by
  have hlog : Nat.log2 n < 62 := by
    rw [Nat.log2_lt (by omega)]; exact hn
  intro d
  induction d with
  | zero =>
    intro k es li lv fuel hk hkd hf hl hli
    obtain ⟨f, rfl⟩ : ∃ f, fuel = f + 1 := ⟨fuel - 1, by omega⟩
    have hk' : k = Nat.log2 n + 1 := by omega
    subst hk'
    have e1 : Rs.shl 64 1 (Nat.log2 n + 1) = Res.ok (2 ^ (Nat.log2 n + 1)) := shl_one _ (by omega)
    have hgt : ¬ 2 ^ (Nat.log2 n + 1) ≤ n := Nat.not_le.mpr Nat.lt_log2_self
    refine ⟨es, li, lv, ?_, hl, by simp⟩
    rw [indexCore_while1]
    simp [e1, hgt]
  | succ d ih =>
    intro k es li lv fuel hk hkd hf hl hli
    obtain ⟨f, rfl⟩ : ∃ f, fuel = f + 1 := ⟨fuel - 1, by omega⟩
    obtain ⟨j, rfl⟩ : ∃ j, k = j + 1 := ⟨k - 1, by omega⟩
    have hkle : j + 1 ≤ Nat.log2 n := by omega
    have hle : 2 ^ (j + 1) ≤ n := (Nat.le_log2 (by omega)).mp hkle
    have hj : 2 ^ j < 2 ^ (j + 1) := Nat.pow_lt_pow_right (by omega) (by omega)
    have e2j : 2 ^ (j + 1) = 2 * 2 ^ j := by rw [Nat.pow_succ]; omega
    have e4j : 2 ^ (j + 2) = 4 * 2 ^ j := by rw [Nat.pow_succ, Nat.pow_succ]; omega
    have hp := Iit.two_pow_pos j
    have hli' : li < n + 2 ^ j := by simpa using hli
    have e1 : Rs.shl 64 1 (j + 1) = Res.ok (2 ^ (j + 1)) := shl_one _ (by omega)
    have e2 : Rs.sub (j + 1) 1 = Res.ok j := by rw [Rs.sub_ok (by omega)]; rfl
    have e3 : Rs.shl 64 1 j = Res.ok (2 ^ j) := shl_one _ (by omega)
    have e4 : Rs.shl 64 (2 ^ j) 1 = Res.ok (2 ^ (j + 1)) := shl_pow j 1 (by omega)
    have e5 : Rs.sub (2 ^ (j + 1)) 1 = Res.ok (2 ^ (j + 1) - 1) := Rs.sub_ok (by omega)
    have e6 : Rs.shl 64 (2 ^ j) 2 = Res.ok (2 ^ (j + 2)) := shl_pow j 2 (by omega)
    have e7 : Rs.rangeStepBy (2 ^ (j + 1) - 1) n (2 ^ (j + 2))
        = Res.ok (stepIdx (2 ^ (j + 1) - 1) n (2 ^ (j + 2))) := Rs.rangeStepBy_ok (by omega)
    obtain ⟨es1, g1, g2, g3⟩ := for2_spec (2 ^ j) n lv (stepIdx (2 ^ (j + 1) - 1) n (2 ^ (j + 2))) es
      (by
        intro i hi
        obtain ⟨t, rfl, hlt⟩ := (mem_stepIdx _ _ _ i (by omega)).mp hi
        exact ⟨by omega, by omega⟩)
      hl.symm (by omega)
    have e8 : Rs.shr 64 li (j + 1) = Res.ok (li >>> (j + 1)) := Rs.shr_ok (by omega)
    have hbit : li >>> (j + 1) % 2 = (li / 2 ^ (j + 1)) % 2 := by rw [Nat.shiftRight_eq_div_pow]
    -- the new `last_i`
    obtain ⟨li1, hli1, esub, eadd, hli1b⟩ : ∃ li1, li1 = (if (li / 2 ^ (j + 1)) % 2 > 0 then li - 2 ^ j else li + 2 ^ j) ∧
        (0 < li >>> (j + 1) % 2 → Rs.sub li (2 ^ j) = Res.ok li1) ∧
        (¬ 0 < li >>> (j + 1) % 2 → Rs.add 64 li (2 ^ j) = Res.ok li1) ∧
        li1 < n + 2 ^ (j + 1) := by
      refine ⟨_, rfl, ?_, ?_, ?_⟩
      · intro hb
        rw [hbit] at hb
        have h2 : 2 ^ (j + 1) ≤ li := by
          apply Nat.le_of_not_lt
          intro hlt
          rw [Nat.div_eq_of_lt hlt] at hb
          simp at hb
        have hb2 : (li / 2 ^ (j + 1)) % 2 > 0 := hb
        simp only [hb2, if_true]
        exact Rs.sub_ok (by omega)
      · intro hb
        rw [hbit] at hb
        have hb2 : ¬ (li / 2 ^ (j + 1)) % 2 > 0 := hb
        simp only [hb2, if_false]
        exact Rs.add_ok (by omega)
      · split <;> omega
    -- the new `last_value`
    have hlv : ∃ lv1, lv1 = (if li1 < n ∧ (getC (cells es1) li1).mx > lv then (getC (cells es1) li1).mx else lv) := ⟨_, rfl⟩
    obtain ⟨lv1, hlv1⟩ := hlv
    obtain ⟨es', li', lv', r1, r2, r3⟩ := ih (j + 2) es1 li1 lv1 f (by omega) (by omega) (by omega) (by rw [g2, hl])
      (by simpa using hli1b)
    refine ⟨es', li', lv', ?_, r2, ?_⟩
    · rw [indexCore_while1]
      simp only [e1, Res.ok_bind, hle, decide_true, if_true, e2, e3, e4, e5, e6, e7, g1, e8]
      have e10 : Rs.add 64 (j + 1) 1 = Res.ok (j + 2) := Rs.add_ok (by omega)
      have tail_in : li1 < n → (do
            let t25 ← Rs.idx es1 li1
            if lv < t25.2.2 then do
                let t27 ← Rs.idx es1 li1
                indexCore_while1 Iit.max3 n f (es1, li1, t27.2.2, j + 2)
              else indexCore_while1 Iit.max3 n f (es1, li1, lv, j + 2)) = Res.ok (es', li', lv', Nat.log2 n + 1) := by
        intro hin
        have e9 : Rs.idx es1 li1 = Res.ok es1[li1] := Rs.idx_ok (by rw [g2, hl]; exact hin)
        have hg : (getC (cells es1) li1).mx = es1[li1].2.2 := by
          rw [getC_cells es1 li1 (by rw [g2, hl]; exact hin)]; rfl
        by_cases hgt : es1[li1].2.2 > lv
        · have : lv1 = es1[li1].2.2 := by rw [hlv1, hg]; simp [hin, hgt]
          have hgt' : lv < es1[li1].2.2 := hgt
          simp only [e9, Res.ok_bind, hgt', if_true]
          rw [← this]; exact r1
        · have : lv1 = lv := by rw [hlv1, hg]; simp [hin, hgt]
          have hgt' : ¬ lv < es1[li1].2.2 := hgt
          simp only [e9, Res.ok_bind, hgt', if_false]
          rw [← this]; exact r1
      have tail_out : ¬ li1 < n → indexCore_while1 Iit.max3 n f (es1, li1, lv, j + 2)
          = Res.ok (es', li', lv', Nat.log2 n + 1) := by
        intro hin
        have : lv1 = lv := by rw [hlv1]; simp [hin]
        rw [← this, r1]
      by_cases hb : 0 < li >>> (j + 1) % 2 <;> by_cases hin : li1 < n
      · simp [Res.pure_eq_ok, hb, esub hb, hin, e10, tail_in hin]
      · simp [Res.pure_eq_ok, hb, esub hb, hin, e10, tail_out hin]
      · simp [Res.pure_eq_ok, hb, eadd hb, hin, e10, tail_in hin]
      · simp [Res.pure_eq_ok, hb, eadd hb, hin, e10, tail_out hin]
    · rw [r3, List.range'_succ, List.foldl_cons, levelStep_eq, ← g3, ← hli1]
      simp only [← hlv1]

/-- **`index_core` as written in the source = the mirror model** (fewer than `2^62` entries) -/
theorem indexCore_eq_model (es : List RCell) (ml : Nat) (hn : es.length < 2 ^ 62) :
    ∃ es', Gen.SrcIit.indexCore Iit.max3 es ml = Res.ok (es', (Iit.indexCore (cells es) ml).2) ∧
      cells es' = (Iit.indexCore (cells es) ml).1 := by
  cases hes : es with
  | nil => exact ⟨[], by simp [Gen.SrcIit.indexCore]; rfl, rfl⟩
  | cons c t =>
    rw [← hes]
    have hn0 : 0 < es.length := by rw [hes]; simp
    have hne : es.isEmpty = false := by rw [hes]; rfl
    have hne' : (cells es).isEmpty = false := by rw [hes]; rfl
    have e0 : Rs.idx es 0 = Res.ok es[0] := Rs.idx_ok hn0
    have e1 : Rs.rangeStepBy 0 es.length 2 = Res.ok (stepIdx 0 es.length 2) := Rs.rangeStepBy_ok (by omega)
    obtain ⟨li1, es1, lv1, f1, f2, f3⟩ := for1_spec Iit.max3 (stepIdx 0 es.length 2) 0 es es[0].2.2
      (by intro i hi; obtain ⟨t, rfl, h⟩ := (mem_stepIdx _ _ _ i (by omega)).mp hi; exact h)
    have hli1 : li1 < es.length + 2 ^ (1 - 1) := by
      -- `last_i` is one of the even indices (or 0)
      have : li1 = ((stepIdx 0 es.length 2).foldl l0F (cells es, 0, es[0].2.2)).2.1 := by rw [← f3]
      have hgen : ∀ (idxs : List Nat) (st : List Cell × Nat × Int), (∀ i ∈ idxs, i < es.length) → st.2.1 < es.length →
          (idxs.foldl l0F st).2.1 < es.length := by
        intro idxs
        induction idxs with
        | nil => intro st _ h; exact h
        | cons i rest ih =>
          intro st h1 h2
          rw [List.foldl_cons]
          exact ih _ (fun j hj => h1 j (List.mem_cons_of_mem _ hj)) (h1 i List.mem_cons_self)
      have := hgen (stepIdx 0 es.length 2) (cells es, 0, es[0].2.2)
        (by intro i hi; obtain ⟨t, rfl, h⟩ := (mem_stepIdx _ _ _ i (by omega)).mp hi; exact h) hn0
      omega
    have hlog : Nat.log2 es.length < 62 := by rw [Nat.log2_lt (by omega)]; exact hn
    obtain ⟨es2, li2, lv2, w1, w2, w3⟩ := while_spec es.length hn0 hn (Nat.log2 es.length) 1 es1 li1 lv1 65
      (by omega) (by omega) (by omega) f2 hli1
    have e2 : Rs.sub (Nat.log2 es.length + 1) 1 = Res.ok (Nat.log2 es.length) := by rw [Rs.sub_ok (by omega)]; rfl
    have hmodel : Iit.indexCore (cells es) ml
        = (((List.range' 1 (Nat.log2 es.length)).foldl (levelStep es.length) (level0 (cells es) es.length)).1,
            Nat.log2 es.length) := by
      unfold Iit.indexCore
      simp only [hne', Bool.false_eq_true, if_false, length_cells]
    have hl0 : level0 (cells es) es.length = (cells es1, li1, lv1) := by
      rw [level0_eq, f3, getC_cells es 0 hn0]; rfl
    refine ⟨es2, ?_, ?_⟩
    · rw [hmodel]
      simp [Gen.SrcIit.indexCore, hne, e0, e1, f1, w1, e2]
    · rw [hmodel, hl0, ← w3]


/-! # `find_into`

The translated `find_into` keeps its stack in a 64-slot vector with a top pointer `t`; the model `findLoop` recurses on a
list (head = top).  `find_while_spec`: if the first `t` slots, read backwards, are the model's stack `S`, running the
translated `while t > 0` loop appends to `results` exactly what `findLoop … S` returns — by functional induction on
`findLoop`, one case per branch of the loop body.  Side conditions discharged on the way: the stack never overflows (the
levels on it increase strictly from the top and are at most `max_level ≤ 61`, `length_le_of_increasing`), `x - 2^(k-1)` does
not underflow and `x + 2^(k-1)`, `i0 + 2^(k+1)` do not overflow (every cell is a node inside the tree of height `K`,
`OkC`), every index into `entries` is guarded, and `3^(max_level+2)` rounds of fuel suffice (`stackWeight`).
`results.clear()` makes the answer independent of what the buffer held before. -/

abbrev RSC := Nat × Nat × Bool
def toSC (c : RSC) : SC := ⟨c.1, c.2.1, c.2.2⟩
abbrev REntry := (Int × Int) × Int
def toEntry (r : REntry) : Entry := ⟨r.1.1, r.1.2, r.2⟩

def rscan (q : Query) : List RCell → List REntry
  | [] => []
  | c :: cs => if c.2.1.1 ≥ q.hi then [] else if q.lo < c.2.1.2 then (c.2.1, c.1) :: rscan q cs else rscan q cs

theorem rscan_map (q : Query) : ∀ l : List RCell, (rscan q l).map toEntry = scan q (cells l) := by
  intro l
  induction l with
  | nil => rfl
  | cons c cs ih =>
    simp only [rscan, cells, List.map_cons, scan]
    have h1 : (toCell c).e.lo = c.2.1.1 := rfl
    have h2 : (toCell c).e.hi = c.2.1.2 := rfl
    rw [h1, h2]
    by_cases ha : c.2.1.1 ≥ q.hi
    · simp [ha]
    · by_cases hb : q.lo < c.2.1.2
      · simp only [ha, hb, if_true, if_false, List.map_cons]
        congr 1
      · simp only [ha, hb, if_false]
        exact ih

theorem for1_scan (es : List RCell) (q : Query) : ∀ (l : List (RCell × Nat)) (res : List REntry),
    (∀ p ∈ l, es[p.2]? = some p.1) →
    findInto_for1 Iit.max3 q.hi q.lo es l res = Res.ok (res ++ rscan q (l.map Prod.fst)) := by
  intro l
  induction l with
  | nil => intro res _; simp [findInto_for1, rscan]
  | cons p rest ih =>
    intro res h
    obtain ⟨node, i⟩ := p
    have e1 : Rs.idx es i = Res.ok node := Rs.idx_of_getElem? (h (node, i) List.mem_cons_self)
    have hr := fun r => ih r (fun p hp => h p (List.mem_cons_of_mem _ hp))
    rw [findInto_for1]
    by_cases ha : node.2.1.1 ≥ q.hi
    · simp [ha, rscan]
    · by_cases hb : q.lo < node.2.1.2
      · simp [ha, hb, e1, hr, rscan]
      · simp [ha, hb, hr, rscan]

theorem idx_mid {α : Type} (A B : List α) (c : α) : Rs.idx (A ++ c :: B) A.length = Res.ok c :=
  Rs.idx_of_getElem? (by simp)

theorem setIdx_mid {α : Type} (A B : List α) (c v : α) : Rs.setIdx (A ++ c :: B) A.length v = Res.ok (A ++ v :: B) := by
  rw [Rs.setIdx_ok (by simp)]; simp

/-- what the proof needs of a stack cell: it is a node of its level inside the tree of height `K` -/
def OkC (K : Nat) (c : SC) : Prop := Node c.k c.x ∧ c.x + 2 ^ c.k ≤ 2 ^ (K + 1) ∧ c.k ≤ K

theorem length_le_of_increasing (K : Nat) : ∀ (S : List SC) (k0 : Nat), S.Pairwise (fun c d => c.k < d.k) →
    (∀ c ∈ S, k0 ≤ c.k ∧ c.k ≤ K) → S.length ≤ K + 1 - k0 := by
  intro S
  induction S with
  | nil => intro k0 _ _; simp
  | cons c rest ih =>
    intro k0 hp hb
    rw [List.pairwise_cons] at hp
    have hc := hb c List.mem_cons_self
    have := ih (c.k + 1) hp.2 (fun d hd => ⟨hp.1 d hd, (hb d (List.mem_cons_of_mem _ hd)).2⟩)
    simp only [List.length_cons]
    omega

theorem weight_pos (c : SC) : 0 < c.weight := by
  unfold SC.weight; split
  · exact Nat.succ_pos _
  · exact pow3_pos _

theorem find_while_spec (es : List RCell) (q : Query) (K : Nat) (hK : K ≤ 61) :
    ∀ (S : List SC), (∀ c ∈ S, OkC K c) → S.Pairwise (fun c d => c.k < d.k) →
    ∀ (A junk : List RSC) (res : List REntry) (fuel : Nat),
      (A.map toSC).reverse = S → (A ++ junk).length = 64 → stackWeight S < fuel →
      ∃ stack' R, findInto_while1 Iit.max3 es.length es q.hi q.lo fuel (A.length, res, A ++ junk)
          = Res.ok (0, res ++ R, stack') ∧ R.map toEntry = findLoop (cells es) es.length q S := by
  intro S
  fun_induction findLoop (cells es) es.length q S with
  | case1 =>
    intro _ _ A junk res fuel hA hlen hf
    have : A = [] := by simpa using hA
    subst this
    obtain ⟨f, rfl⟩ : ∃ f, fuel = f + 1 := ⟨fuel - 1, by omega⟩
    exact ⟨junk, [], by simp [findInto_while1], by simp [findLoop]⟩
  | case2 k x w st hk i0 i1 ih =>
    intro hok hpw A junk res fuel hA hlen hf
    obtain ⟨f, rfl⟩ : ∃ f, fuel = f + 1 := ⟨fuel - 1, by omega⟩
    -- the array: `A = A0 ++ [(k, x, w)]`
    obtain ⟨A0, rfl, hA0⟩ : ∃ A0, A = A0 ++ [(k, x, w)] ∧ (A0.map toSC).reverse = st := by
      have h1 : A.map toSC = (⟨k, x, w⟩ :: st).reverse := by rw [← hA, List.reverse_reverse]
      rcases List.eq_nil_or_concat A with rfl | ⟨A0, c, rfl⟩
      · simp at h1
      · simp only [List.concat_eq_append, List.map_append, List.map_cons, List.map_nil, List.reverse_cons] at h1
        have h2 := List.append_inj' h1 rfl
        obtain ⟨ck, cx, cw⟩ := c
        have h3 : toSC (ck, cx, cw) = ⟨k, x, w⟩ := by simpa using h2.2
        simp only [toSC, SC.mk.injEq] at h3
        obtain ⟨rfl, rfl, rfl⟩ := h3
        exact ⟨A0, List.concat_eq_append, by rw [h2.1, List.reverse_reverse]⟩
    have hst : (A0 ++ [(k, x, w)]) ++ junk = A0 ++ (k, x, w) :: junk := by simp
    have hlen' : A0.length + 1 + junk.length = 64 := by
      simp only [List.length_append, List.length_singleton] at hlen; omega
    have hokc := hok ⟨k, x, w⟩ List.mem_cons_self
    obtain ⟨hnode, hxb, hkK⟩ := hokc
    simp only at hnode hxb hkK
    have hok' : ∀ c ∈ st, OkC K c := fun c hc => hok c (List.mem_cons_of_mem _ hc)
    rw [List.pairwise_cons] at hpw
    have hwt : stackWeight (⟨k, x, w⟩ :: st) = (⟨k, x, w⟩ : SC).weight + stackWeight st := by
      simp [stackWeight]
    have e_t : Rs.sub (A0.length + 1) 1 = Res.ok A0.length := by rw [Rs.sub_ok (by omega)]; rfl
    have e_top : Rs.idx (A0 ++ (k, x, w) :: junk) A0.length = Res.ok (k, x, w) := idx_mid A0 junk _
    rw [findInto_while1, List.length_append, List.length_singleton, hst]
    simp only [Nat.succ_pos, gt_iff_lt, decide_true, if_true, e_t, Res.ok_bind, e_top]
    have hx62 : x < 2 ^ 62 := by
      have : 2 ^ (K + 1) ≤ 2 ^ 62 := Nat.pow_le_pow_right (by omega) (by omega)
      have := Iit.two_pow_pos k
      omega
    have e1 : Rs.shr 64 x k = Res.ok (x >>> k) := Rs.shr_ok (by omega)
    have hi0le : x >>> k <<< k ≤ x := by
      rw [Nat.shiftRight_eq_div_pow, Nat.shiftLeft_eq]; exact Nat.div_mul_le_self x (2 ^ k)
    have e2 : Rs.shl 64 (x >>> k) k = Res.ok (x >>> k <<< k) := by
      rw [Rs.shl_ok (by omega), Nat.mod_eq_of_lt (Nat.lt_of_le_of_lt hi0le (by omega))]
    have e3 : Rs.add 64 k 1 = Res.ok (k + 1) := Rs.add_ok (by omega)
    have hp16 : 2 ^ (k + 1) ≤ 16 := by
      have : 2 ^ (k + 1) ≤ 2 ^ 4 := Nat.pow_le_pow_right (by omega) (by omega)
      omega
    have e4 : Rs.shl 64 1 (k + 1) = Res.ok (1 <<< (k + 1)) := by
      rw [Rs.shl_ok (by omega), Nat.mod_eq_of_lt (by rw [Nat.one_shiftLeft]; omega)]
    have hpp : 0 < 1 <<< (k + 1) := by rw [Nat.one_shiftLeft]; exact Iit.two_pow_pos _
    have e5 : Rs.add 64 (x >>> k <<< k) (1 <<< (k + 1)) = Res.ok (x >>> k <<< k + 1 <<< (k + 1)) :=
      Rs.add_ok (by rw [Nat.one_shiftLeft]; exact Nat.lt_of_le_of_lt (Nat.add_le_add hi0le hp16) (by omega))
    have e6 : Rs.sub (x >>> k <<< k + 1 <<< (k + 1)) 1 = Res.ok (x >>> k <<< k + 1 <<< (k + 1) - 1) :=
      Rs.sub_ok (Nat.le_trans hpp (Nat.le_add_left _ _))
    have hmem : ∀ p ∈ List.drop i0 (List.take i1 es.zipIdx), es[p.2]? = some p.1 := by
      intro p hp
      have := List.mem_of_mem_take (List.mem_of_mem_drop hp)
      obtain ⟨c, i⟩ := p
      exact (List.mem_zipIdx_iff_getElem?).mp this
    have e7 := for1_scan es q (List.drop i0 (List.take i1 es.zipIdx)) res hmem
    have hfst : (List.drop i0 (List.take i1 es.zipIdx)).map Prod.fst = List.drop i0 (List.take i1 es) := by
      rw [List.map_drop, List.map_take, List.zipIdx_map_fst]
    rw [hfst] at e7
    obtain ⟨stack', R, r1, r2⟩ := ih hok' hpw.2 A0 ((k, x, w) :: junk) (res ++ rscan q (List.drop i0 (List.take i1 es))) f hA0
      (by simp only [List.length_append, List.length_cons]; omega)
      (by have := weight_pos ⟨k, x, w⟩; omega)
    refine ⟨stack', rscan q (List.drop i0 (List.take i1 es)) ++ R, ?_, ?_⟩
    · simp only [hk, decide_true, if_true, e1, e2, e3, e4, e5, e6, Res.ok_bind, Res.pure_eq_ok]
      show (do
          let results ← findInto_for1 Iit.max3 q.hi q.lo es (List.drop i0 (List.take i1 es.zipIdx)) res
          findInto_while1 Iit.max3 es.length es q.hi q.lo f (A0.length, results, A0 ++ (k, x, w) :: junk)) = _
      rw [e7, Res.ok_bind, r1, List.append_assoc]
    · rw [List.map_append, r2, rscan_map]
      simp only [cells, List.map_drop, List.map_take]
  | case3 k x w st hk hw y hc ih =>
    intro hok hpw A junk res fuel hA hlen hf
    obtain ⟨f, rfl⟩ : ∃ f, fuel = f + 1 := ⟨fuel - 1, by omega⟩
    -- the array: `A = A0 ++ [(k, x, w)]`
    obtain ⟨A0, rfl, hA0⟩ : ∃ A0, A = A0 ++ [(k, x, w)] ∧ (A0.map toSC).reverse = st := by
      have h1 : A.map toSC = (⟨k, x, w⟩ :: st).reverse := by rw [← hA, List.reverse_reverse]
      rcases List.eq_nil_or_concat A with rfl | ⟨A0, c, rfl⟩
      · simp at h1
      · simp only [List.concat_eq_append, List.map_append, List.map_cons, List.map_nil, List.reverse_cons] at h1
        have h2 := List.append_inj' h1 rfl
        obtain ⟨ck, cx, cw⟩ := c
        have h3 : toSC (ck, cx, cw) = ⟨k, x, w⟩ := by simpa using h2.2
        simp only [toSC, SC.mk.injEq] at h3
        obtain ⟨rfl, rfl, rfl⟩ := h3
        exact ⟨A0, List.concat_eq_append, by rw [h2.1, List.reverse_reverse]⟩
    have hst : (A0 ++ [(k, x, w)]) ++ junk = A0 ++ (k, x, w) :: junk := by simp
    have hlen' : A0.length + 1 + junk.length = 64 := by
      simp only [List.length_append, List.length_singleton] at hlen; omega
    have hokc := hok ⟨k, x, w⟩ List.mem_cons_self
    obtain ⟨hnode, hxb, hkK⟩ := hokc
    simp only at hnode hxb hkK
    have hok' : ∀ c ∈ st, OkC K c := fun c hc => hok c (List.mem_cons_of_mem _ hc)
    rw [List.pairwise_cons] at hpw
    have hwt : stackWeight (⟨k, x, w⟩ :: st) = (⟨k, x, w⟩ : SC).weight + stackWeight st := by
      simp [stackWeight]
    have e_t : Rs.sub (A0.length + 1) 1 = Res.ok A0.length := by rw [Rs.sub_ok (by omega)]; rfl
    have e_top : Rs.idx (A0 ++ (k, x, w) :: junk) A0.length = Res.ok (k, x, w) := idx_mid A0 junk _
    rw [findInto_while1, List.length_append, List.length_singleton, hst]
    simp only [Nat.succ_pos, gt_iff_lt, decide_true, if_true, e_t, Res.ok_bind, e_top]
    obtain ⟨j, rfl⟩ : ∃ j, k = j + 1 := ⟨k - 1, by omega⟩
    have hp := Iit.two_pow_pos j
    have e2j : 2 ^ (j + 1) = 2 * 2 ^ j := by rw [Nat.pow_succ]; omega
    have hge := node_ge hnode
    have hK2 : 2 ^ (K + 1) ≤ 2 ^ 62 := Nat.pow_le_pow_right (by omega) (by omega)
    have e16 : Rs.sub (j + 1) 1 = Res.ok j := by rw [Rs.sub_ok (by omega)]; rfl
    have e17 : Rs.shl 64 1 j = Res.ok (2 ^ j) := shl_one j (by omega)
    have e18 : Rs.sub x (2 ^ j) = Res.ok (x - 2 ^ j) := Rs.sub_ok (by omega)
    have e18' : Rs.add 64 x (2 ^ j) = Res.ok (x + 2 ^ j) := Rs.add_ok (by omega)
    have eset : ∀ (c v : RSC) (B : List RSC), Rs.setIdx (A0 ++ c :: B) A0.length v = Res.ok (A0 ++ v :: B) :=
      fun c v B => setIdx_mid A0 B c v
    have eidx : ∀ (c : RSC) (B : List RSC), Rs.idx (A0 ++ c :: B) A0.length = Res.ok c := fun c B => idx_mid A0 B c
    -- the stack is never full: the levels on it increase strictly from the top and are at most `K ≤ 61`
    have hSlen : (⟨j + 1, x, w⟩ :: st : List SC).length ≤ K + 1 - (j + 1) :=
      length_le_of_increasing K _ (j + 1) (List.pairwise_cons.mpr hpw) (by
        intro c hc
        rcases List.mem_cons.mp hc with rfl | hc
        · exact ⟨Nat.le_refl _, hkK⟩
        · exact ⟨Nat.le_of_lt (hpw.1 c hc), (hok' c hc).2.2⟩)
    have hAlen : A0.length = st.length := by rw [← hA0]; simp
    obtain ⟨j0, junk', rfl⟩ : ∃ j0 junk', junk = j0 :: junk' := by
      cases junk with
      | nil => simp only [List.length_cons, List.length_nil] at hSlen hlen'; omega
      | cons a b => exact ⟨a, b, rfl⟩
    have eset1 : ∀ (c d v : RSC) (B : List RSC), Rs.setIdx (A0 ++ c :: d :: B) (A0.length + 1) v
        = Res.ok (A0 ++ c :: v :: B) := by
      intro c d v B
      have := setIdx_mid (A0 ++ [c]) B d v
      simpa using this
    have eidx1 : ∀ (c d : RSC) (B : List RSC), Rs.idx (A0 ++ c :: d :: B) (A0.length + 1) = Res.ok d := by
      intro c d B
      have := idx_mid (A0 ++ [c]) B d
      simpa using this
    have e22 : Rs.add 64 A0.length 1 = Res.ok (A0.length + 1) := Rs.add_ok (by omega)
    have e29 : Rs.add 64 (A0.length + 1) 1 = Res.ok (A0.length + 2) := Rs.add_ok (by omega)
    have hy : x - 1 <<< (j + 1 - 1) = x - 2 ^ j := by rw [Nat.add_sub_cancel, Nat.one_shiftLeft]
    have hwf : w = false := by simpa using hw
    subst hwf
    have hyv : y = x - 2 ^ j := hy
    have hokn : ∀ c ∈ (⟨j + 1 - 1, y, false⟩ : SC) :: ⟨j + 1, x, true⟩ :: st, OkC K c := by
      intro c hc
      simp only [List.mem_cons] at hc
      rcases hc with rfl | rfl | hc
      · refine ⟨by simp only [Nat.add_sub_cancel]; rw [hyv]; exact node_left hnode, ?_, ?_⟩
        · simp only [Nat.add_sub_cancel]; rw [hyv]; omega
        · simp only [Nat.add_sub_cancel]; omega
      · exact ⟨hnode, hxb, hkK⟩
      · exact hok' c hc
    have hpwn : List.Pairwise (fun c d : SC => c.k < d.k) (⟨j + 1 - 1, y, false⟩ :: ⟨j + 1, x, true⟩ :: st) := by
      refine List.pairwise_cons.mpr ⟨?_, List.pairwise_cons.mpr hpw⟩
      intro d hd
      rcases List.mem_cons.mp hd with rfl | hd
      · simp
      · have := hpw.1 d hd; simp only [Nat.add_sub_cancel] at *; omega
    obtain ⟨stack', R, r1, r2⟩ := ih hokn hpwn (A0 ++ [(j + 1, x, true), (j, x - 2 ^ j, false)]) junk' res f
      (by simp [toSC, hA0, hyv])
      (by simp only [List.length_append, List.length_cons, List.length_nil] at hlen' ⊢; omega)
      (by
        rw [hwt] at hf
        simp only [stackWeight, List.map_cons, List.sum_cons, SC.weight, Nat.add_sub_cancel] at hf ⊢
        have := pow3_pos j
        simp only [Bool.false_eq_true, if_false, if_true, Nat.pow_succ] at hf ⊢
        omega)
    have r1' : findInto_while1 Iit.max3 es.length es q.hi q.lo f
        (A0.length + 2, res, A0 ++ (j + 1, x, true) :: (j, x - 2 ^ j, false) :: junk') = Res.ok (0, res ++ R, stack') := by
      simpa using r1
    refine ⟨stack', R, ?_, r2⟩
    have hkf : ¬ j + 1 ≤ 3 := hk
    by_cases hyn : x - 2 ^ j ≥ es.length
    · simp [hkf, e16, e17, e18, eset, eidx, eset1, eidx1, e22, e29, hyn, r1']
    · have hylt : x - 2 ^ j < es.length := by omega
      have e23 : Rs.idx es (x - 2 ^ j) = Res.ok es[x - 2 ^ j] := Rs.idx_ok hylt
      have hmx : es[x - 2 ^ j].2.2 > q.lo := by
        rcases hc with h | h
        · rw [hyv] at h; omega
        · rw [hyv, getC_cells es _ hylt] at h; exact h
      simp [hkf, e16, e17, e18, eset, eidx, eset1, eidx1, e22, e29, hyn, e23, hmx, r1']
  | case4 k x w st hk hw y hc ih =>
    intro hok hpw A junk res fuel hA hlen hf
    obtain ⟨f, rfl⟩ : ∃ f, fuel = f + 1 := ⟨fuel - 1, by omega⟩
    -- the array: `A = A0 ++ [(k, x, w)]`
    obtain ⟨A0, rfl, hA0⟩ : ∃ A0, A = A0 ++ [(k, x, w)] ∧ (A0.map toSC).reverse = st := by
      have h1 : A.map toSC = (⟨k, x, w⟩ :: st).reverse := by rw [← hA, List.reverse_reverse]
      rcases List.eq_nil_or_concat A with rfl | ⟨A0, c, rfl⟩
      · simp at h1
      · simp only [List.concat_eq_append, List.map_append, List.map_cons, List.map_nil, List.reverse_cons] at h1
        have h2 := List.append_inj' h1 rfl
        obtain ⟨ck, cx, cw⟩ := c
        have h3 : toSC (ck, cx, cw) = ⟨k, x, w⟩ := by simpa using h2.2
        simp only [toSC, SC.mk.injEq] at h3
        obtain ⟨rfl, rfl, rfl⟩ := h3
        exact ⟨A0, List.concat_eq_append, by rw [h2.1, List.reverse_reverse]⟩
    have hst : (A0 ++ [(k, x, w)]) ++ junk = A0 ++ (k, x, w) :: junk := by simp
    have hlen' : A0.length + 1 + junk.length = 64 := by
      simp only [List.length_append, List.length_singleton] at hlen; omega
    have hokc := hok ⟨k, x, w⟩ List.mem_cons_self
    obtain ⟨hnode, hxb, hkK⟩ := hokc
    simp only at hnode hxb hkK
    have hok' : ∀ c ∈ st, OkC K c := fun c hc => hok c (List.mem_cons_of_mem _ hc)
    rw [List.pairwise_cons] at hpw
    have hwt : stackWeight (⟨k, x, w⟩ :: st) = (⟨k, x, w⟩ : SC).weight + stackWeight st := by
      simp [stackWeight]
    have e_t : Rs.sub (A0.length + 1) 1 = Res.ok A0.length := by rw [Rs.sub_ok (by omega)]; rfl
    have e_top : Rs.idx (A0 ++ (k, x, w) :: junk) A0.length = Res.ok (k, x, w) := idx_mid A0 junk _
    rw [findInto_while1, List.length_append, List.length_singleton, hst]
    simp only [Nat.succ_pos, gt_iff_lt, decide_true, if_true, e_t, Res.ok_bind, e_top]
    obtain ⟨j, rfl⟩ : ∃ j, k = j + 1 := ⟨k - 1, by omega⟩
    have hp := Iit.two_pow_pos j
    have e2j : 2 ^ (j + 1) = 2 * 2 ^ j := by rw [Nat.pow_succ]; omega
    have hge := node_ge hnode
    have hK2 : 2 ^ (K + 1) ≤ 2 ^ 62 := Nat.pow_le_pow_right (by omega) (by omega)
    have e16 : Rs.sub (j + 1) 1 = Res.ok j := by rw [Rs.sub_ok (by omega)]; rfl
    have e17 : Rs.shl 64 1 j = Res.ok (2 ^ j) := shl_one j (by omega)
    have e18 : Rs.sub x (2 ^ j) = Res.ok (x - 2 ^ j) := Rs.sub_ok (by omega)
    have e18' : Rs.add 64 x (2 ^ j) = Res.ok (x + 2 ^ j) := Rs.add_ok (by omega)
    have eset : ∀ (c v : RSC) (B : List RSC), Rs.setIdx (A0 ++ c :: B) A0.length v = Res.ok (A0 ++ v :: B) :=
      fun c v B => setIdx_mid A0 B c v
    have eidx : ∀ (c : RSC) (B : List RSC), Rs.idx (A0 ++ c :: B) A0.length = Res.ok c := fun c B => idx_mid A0 B c
    -- the stack is never full: the levels on it increase strictly from the top and are at most `K ≤ 61`
    have hSlen : (⟨j + 1, x, w⟩ :: st : List SC).length ≤ K + 1 - (j + 1) :=
      length_le_of_increasing K _ (j + 1) (List.pairwise_cons.mpr hpw) (by
        intro c hc
        rcases List.mem_cons.mp hc with rfl | hc
        · exact ⟨Nat.le_refl _, hkK⟩
        · exact ⟨Nat.le_of_lt (hpw.1 c hc), (hok' c hc).2.2⟩)
    have hAlen : A0.length = st.length := by rw [← hA0]; simp
    obtain ⟨j0, junk', rfl⟩ : ∃ j0 junk', junk = j0 :: junk' := by
      cases junk with
      | nil => simp only [List.length_cons, List.length_nil] at hSlen hlen'; omega
      | cons a b => exact ⟨a, b, rfl⟩
    have eset1 : ∀ (c d v : RSC) (B : List RSC), Rs.setIdx (A0 ++ c :: d :: B) (A0.length + 1) v
        = Res.ok (A0 ++ c :: v :: B) := by
      intro c d v B
      have := setIdx_mid (A0 ++ [c]) B d v
      simpa using this
    have eidx1 : ∀ (c d : RSC) (B : List RSC), Rs.idx (A0 ++ c :: d :: B) (A0.length + 1) = Res.ok d := by
      intro c d B
      have := idx_mid (A0 ++ [c]) B d
      simpa using this
    have e22 : Rs.add 64 A0.length 1 = Res.ok (A0.length + 1) := Rs.add_ok (by omega)
    have e29 : Rs.add 64 (A0.length + 1) 1 = Res.ok (A0.length + 2) := Rs.add_ok (by omega)
    have hy : x - 1 <<< (j + 1 - 1) = x - 2 ^ j := by rw [Nat.add_sub_cancel, Nat.one_shiftLeft]
    have hwf : w = false := by simpa using hw
    subst hwf
    have hyv : y = x - 2 ^ j := hy
    have hokn : ∀ c ∈ (⟨j + 1, x, true⟩ : SC) :: st, OkC K c := by
      intro c hc
      rcases List.mem_cons.mp hc with rfl | hc
      · exact ⟨hnode, hxb, hkK⟩
      · exact hok' c hc
    obtain ⟨stack', R, r1, r2⟩ := ih hokn (List.pairwise_cons.mpr hpw) (A0 ++ [(j + 1, x, true)]) (j0 :: junk') res f
      (by simp [toSC, hA0])
      (by simp only [List.length_append, List.length_cons, List.length_nil] at hlen' ⊢; omega)
      (by
        rw [hwt] at hf
        simp only [stackWeight, List.map_cons, List.sum_cons, SC.weight] at hf ⊢
        have := pow3_pos (j + 1)
        simp only [Bool.false_eq_true, if_false, if_true, Nat.pow_succ] at hf ⊢
        omega)
    have r1' : findInto_while1 Iit.max3 es.length es q.hi q.lo f
        (A0.length + 1, res, A0 ++ (j + 1, x, true) :: j0 :: junk') = Res.ok (0, res ++ R, stack') := by
      simpa using r1
    refine ⟨stack', R, ?_, r2⟩
    have hkf : ¬ j + 1 ≤ 3 := hk
    have hyn : ¬ x - 2 ^ j ≥ es.length := by
      intro h; exact hc (Or.inl (by rw [hyv]; exact h))
    have hylt : x - 2 ^ j < es.length := by omega
    have e23 : Rs.idx es (x - 2 ^ j) = Res.ok es[x - 2 ^ j] := Rs.idx_ok hylt
    have hmx : ¬ es[x - 2 ^ j].2.2 > q.lo := by
      intro h; exact hc (Or.inr (by rw [hyv, getC_cells es _ hylt]; exact h))
    simp [hkf, e16, e17, e18, eset, eidx, eset1, eidx1, e22, e29, hyn, e23, hmx, r1']
  | case5 k x w st hk hw hc ih =>
    intro hok hpw A junk res fuel hA hlen hf
    obtain ⟨f, rfl⟩ : ∃ f, fuel = f + 1 := ⟨fuel - 1, by omega⟩
    -- the array: `A = A0 ++ [(k, x, w)]`
    obtain ⟨A0, rfl, hA0⟩ : ∃ A0, A = A0 ++ [(k, x, w)] ∧ (A0.map toSC).reverse = st := by
      have h1 : A.map toSC = (⟨k, x, w⟩ :: st).reverse := by rw [← hA, List.reverse_reverse]
      rcases List.eq_nil_or_concat A with rfl | ⟨A0, c, rfl⟩
      · simp at h1
      · simp only [List.concat_eq_append, List.map_append, List.map_cons, List.map_nil, List.reverse_cons] at h1
        have h2 := List.append_inj' h1 rfl
        obtain ⟨ck, cx, cw⟩ := c
        have h3 : toSC (ck, cx, cw) = ⟨k, x, w⟩ := by simpa using h2.2
        simp only [toSC, SC.mk.injEq] at h3
        obtain ⟨rfl, rfl, rfl⟩ := h3
        exact ⟨A0, List.concat_eq_append, by rw [h2.1, List.reverse_reverse]⟩
    have hst : (A0 ++ [(k, x, w)]) ++ junk = A0 ++ (k, x, w) :: junk := by simp
    have hlen' : A0.length + 1 + junk.length = 64 := by
      simp only [List.length_append, List.length_singleton] at hlen; omega
    have hokc := hok ⟨k, x, w⟩ List.mem_cons_self
    obtain ⟨hnode, hxb, hkK⟩ := hokc
    simp only at hnode hxb hkK
    have hok' : ∀ c ∈ st, OkC K c := fun c hc => hok c (List.mem_cons_of_mem _ hc)
    rw [List.pairwise_cons] at hpw
    have hwt : stackWeight (⟨k, x, w⟩ :: st) = (⟨k, x, w⟩ : SC).weight + stackWeight st := by
      simp [stackWeight]
    have e_t : Rs.sub (A0.length + 1) 1 = Res.ok A0.length := by rw [Rs.sub_ok (by omega)]; rfl
    have e_top : Rs.idx (A0 ++ (k, x, w) :: junk) A0.length = Res.ok (k, x, w) := idx_mid A0 junk _
    rw [findInto_while1, List.length_append, List.length_singleton, hst]
    simp only [Nat.succ_pos, gt_iff_lt, decide_true, if_true, e_t, Res.ok_bind, e_top]
    obtain ⟨j, rfl⟩ : ∃ j, k = j + 1 := ⟨k - 1, by omega⟩
    have hp := Iit.two_pow_pos j
    have e2j : 2 ^ (j + 1) = 2 * 2 ^ j := by rw [Nat.pow_succ]; omega
    have hge := node_ge hnode
    have hK2 : 2 ^ (K + 1) ≤ 2 ^ 62 := Nat.pow_le_pow_right (by omega) (by omega)
    have e16 : Rs.sub (j + 1) 1 = Res.ok j := by rw [Rs.sub_ok (by omega)]; rfl
    have e17 : Rs.shl 64 1 j = Res.ok (2 ^ j) := shl_one j (by omega)
    have e18 : Rs.sub x (2 ^ j) = Res.ok (x - 2 ^ j) := Rs.sub_ok (by omega)
    have e18' : Rs.add 64 x (2 ^ j) = Res.ok (x + 2 ^ j) := Rs.add_ok (by omega)
    have eset : ∀ (c v : RSC) (B : List RSC), Rs.setIdx (A0 ++ c :: B) A0.length v = Res.ok (A0 ++ v :: B) :=
      fun c v B => setIdx_mid A0 B c v
    have eidx : ∀ (c : RSC) (B : List RSC), Rs.idx (A0 ++ c :: B) A0.length = Res.ok c := fun c B => idx_mid A0 B c
    -- the stack is never full: the levels on it increase strictly from the top and are at most `K ≤ 61`
    have hSlen : (⟨j + 1, x, w⟩ :: st : List SC).length ≤ K + 1 - (j + 1) :=
      length_le_of_increasing K _ (j + 1) (List.pairwise_cons.mpr hpw) (by
        intro c hc
        rcases List.mem_cons.mp hc with rfl | hc
        · exact ⟨Nat.le_refl _, hkK⟩
        · exact ⟨Nat.le_of_lt (hpw.1 c hc), (hok' c hc).2.2⟩)
    have hAlen : A0.length = st.length := by rw [← hA0]; simp
    obtain ⟨j0, junk', rfl⟩ : ∃ j0 junk', junk = j0 :: junk' := by
      cases junk with
      | nil => simp only [List.length_cons, List.length_nil] at hSlen hlen'; omega
      | cons a b => exact ⟨a, b, rfl⟩
    have eset1 : ∀ (c d v : RSC) (B : List RSC), Rs.setIdx (A0 ++ c :: d :: B) (A0.length + 1) v
        = Res.ok (A0 ++ c :: v :: B) := by
      intro c d v B
      have := setIdx_mid (A0 ++ [c]) B d v
      simpa using this
    have eidx1 : ∀ (c d : RSC) (B : List RSC), Rs.idx (A0 ++ c :: d :: B) (A0.length + 1) = Res.ok d := by
      intro c d B
      have := idx_mid (A0 ++ [c]) B d
      simpa using this
    have e22 : Rs.add 64 A0.length 1 = Res.ok (A0.length + 1) := Rs.add_ok (by omega)
    have e29 : Rs.add 64 (A0.length + 1) 1 = Res.ok (A0.length + 2) := Rs.add_ok (by omega)
    have hy : x - 1 <<< (j + 1 - 1) = x - 2 ^ j := by rw [Nat.add_sub_cancel, Nat.one_shiftLeft]
    have hwt' : w = true := by simpa using hw
    subst hwt'
    have hxn : x < es.length := hc.1
    have e30 : Rs.idx es x = Res.ok es[x] := Rs.idx_ok hxn
    have hgx : getC (cells es) x = toCell es[x] := getC_cells es x hxn
    have hlo : es[x].2.1.1 < q.hi := by have := hc.2; rw [hgx] at this; exact this
    have hokn : ∀ c ∈ (⟨j + 1 - 1, x + 1 <<< (j + 1 - 1), false⟩ : SC) :: st, OkC K c := by
      intro c hc'
      rcases List.mem_cons.mp hc' with rfl | hc'
      · simp only [Nat.add_sub_cancel, Nat.one_shiftLeft]
        refine ⟨node_right hnode, ?_, ?_⟩
        · show x + 2 ^ j + 2 ^ j ≤ 2 ^ (K + 1); omega
        · show j ≤ K; omega
      · exact hok' c hc'
    have hpwn : List.Pairwise (fun c d : SC => c.k < d.k) (⟨j + 1 - 1, x + 1 <<< (j + 1 - 1), false⟩ :: st) := by
      refine List.pairwise_cons.mpr ⟨?_, hpw.2⟩
      intro d hd
      have := hpw.1 d hd; simp only [Nat.add_sub_cancel] at *; omega
    have hfuel : stackWeight ((⟨j + 1 - 1, x + 1 <<< (j + 1 - 1), false⟩ : SC) :: st) < f := by
      rw [hwt] at hf
      simp only [stackWeight, List.map_cons, List.sum_cons, SC.weight, Nat.add_sub_cancel] at hf ⊢
      simp only [Bool.false_eq_true, if_false, if_true] at hf ⊢
      omega
    have hkf : ¬ j + 1 ≤ 3 := hk
    by_cases hov : q.lo < es[x].2.1.2
    · obtain ⟨stack', R, r1, r2⟩ := ih hokn hpwn (A0 ++ [(j, x + 2 ^ j, false)]) (j0 :: junk')
        (res ++ [(es[x].2.1, es[x].1)]) f
        (by simp [toSC, hA0, Nat.one_shiftLeft])
        (by simp only [List.length_append, List.length_cons, List.length_nil] at hlen' ⊢; omega) hfuel
      have r1' : findInto_while1 Iit.max3 es.length es q.hi q.lo f
          (A0.length + 1, res ++ [(es[x].2.1, es[x].1)], A0 ++ (j, x + 2 ^ j, false) :: j0 :: junk')
            = Res.ok (0, res ++ [(es[x].2.1, es[x].1)] ++ R, stack') := by
        simpa using r1
      refine ⟨stack', (es[x].2.1, es[x].1) :: R, ?_, ?_⟩
      · simp [hkf, e16, e17, e18', eset, eidx, e22, hxn, e30, hlo, hov, r1']
      · have hhi : q.lo < (toCell es[x]).e.hi := hov
        simp only [List.map_cons, r2, hgx, hhi, if_true, List.cons_append, List.nil_append]
        rfl
    · obtain ⟨stack', R, r1, r2⟩ := ih hokn hpwn (A0 ++ [(j, x + 2 ^ j, false)]) (j0 :: junk') res f
        (by simp [toSC, hA0, Nat.one_shiftLeft])
        (by simp only [List.length_append, List.length_cons, List.length_nil] at hlen' ⊢; omega) hfuel
      have r1' : findInto_while1 Iit.max3 es.length es q.hi q.lo f
          (A0.length + 1, res, A0 ++ (j, x + 2 ^ j, false) :: j0 :: junk') = Res.ok (0, res ++ R, stack') := by
        simpa using r1
      refine ⟨stack', R, ?_, ?_⟩
      · simp [hkf, e16, e17, e18', eset, eidx, e22, hxn, e30, hlo, hov, r1']
      · have hhi : ¬ q.lo < (toCell es[x]).e.hi := hov
        simp only [r2, hgx, hhi, if_false, List.nil_append]
  | case6 k x w st hk hw hc ih =>
    intro hok hpw A junk res fuel hA hlen hf
    obtain ⟨f, rfl⟩ : ∃ f, fuel = f + 1 := ⟨fuel - 1, by omega⟩
    -- the array: `A = A0 ++ [(k, x, w)]`
    obtain ⟨A0, rfl, hA0⟩ : ∃ A0, A = A0 ++ [(k, x, w)] ∧ (A0.map toSC).reverse = st := by
      have h1 : A.map toSC = (⟨k, x, w⟩ :: st).reverse := by rw [← hA, List.reverse_reverse]
      rcases List.eq_nil_or_concat A with rfl | ⟨A0, c, rfl⟩
      · simp at h1
      · simp only [List.concat_eq_append, List.map_append, List.map_cons, List.map_nil, List.reverse_cons] at h1
        have h2 := List.append_inj' h1 rfl
        obtain ⟨ck, cx, cw⟩ := c
        have h3 : toSC (ck, cx, cw) = ⟨k, x, w⟩ := by simpa using h2.2
        simp only [toSC, SC.mk.injEq] at h3
        obtain ⟨rfl, rfl, rfl⟩ := h3
        exact ⟨A0, List.concat_eq_append, by rw [h2.1, List.reverse_reverse]⟩
    have hst : (A0 ++ [(k, x, w)]) ++ junk = A0 ++ (k, x, w) :: junk := by simp
    have hlen' : A0.length + 1 + junk.length = 64 := by
      simp only [List.length_append, List.length_singleton] at hlen; omega
    have hokc := hok ⟨k, x, w⟩ List.mem_cons_self
    obtain ⟨hnode, hxb, hkK⟩ := hokc
    simp only at hnode hxb hkK
    have hok' : ∀ c ∈ st, OkC K c := fun c hc => hok c (List.mem_cons_of_mem _ hc)
    rw [List.pairwise_cons] at hpw
    have hwt : stackWeight (⟨k, x, w⟩ :: st) = (⟨k, x, w⟩ : SC).weight + stackWeight st := by
      simp [stackWeight]
    have e_t : Rs.sub (A0.length + 1) 1 = Res.ok A0.length := by rw [Rs.sub_ok (by omega)]; rfl
    have e_top : Rs.idx (A0 ++ (k, x, w) :: junk) A0.length = Res.ok (k, x, w) := idx_mid A0 junk _
    rw [findInto_while1, List.length_append, List.length_singleton, hst]
    simp only [Nat.succ_pos, gt_iff_lt, decide_true, if_true, e_t, Res.ok_bind, e_top]
    obtain ⟨j, rfl⟩ : ∃ j, k = j + 1 := ⟨k - 1, by omega⟩
    have hp := Iit.two_pow_pos j
    have e2j : 2 ^ (j + 1) = 2 * 2 ^ j := by rw [Nat.pow_succ]; omega
    have hge := node_ge hnode
    have hK2 : 2 ^ (K + 1) ≤ 2 ^ 62 := Nat.pow_le_pow_right (by omega) (by omega)
    have e16 : Rs.sub (j + 1) 1 = Res.ok j := by rw [Rs.sub_ok (by omega)]; rfl
    have e17 : Rs.shl 64 1 j = Res.ok (2 ^ j) := shl_one j (by omega)
    have e18 : Rs.sub x (2 ^ j) = Res.ok (x - 2 ^ j) := Rs.sub_ok (by omega)
    have e18' : Rs.add 64 x (2 ^ j) = Res.ok (x + 2 ^ j) := Rs.add_ok (by omega)
    have eset : ∀ (c v : RSC) (B : List RSC), Rs.setIdx (A0 ++ c :: B) A0.length v = Res.ok (A0 ++ v :: B) :=
      fun c v B => setIdx_mid A0 B c v
    have eidx : ∀ (c : RSC) (B : List RSC), Rs.idx (A0 ++ c :: B) A0.length = Res.ok c := fun c B => idx_mid A0 B c
    -- the stack is never full: the levels on it increase strictly from the top and are at most `K ≤ 61`
    have hSlen : (⟨j + 1, x, w⟩ :: st : List SC).length ≤ K + 1 - (j + 1) :=
      length_le_of_increasing K _ (j + 1) (List.pairwise_cons.mpr hpw) (by
        intro c hc
        rcases List.mem_cons.mp hc with rfl | hc
        · exact ⟨Nat.le_refl _, hkK⟩
        · exact ⟨Nat.le_of_lt (hpw.1 c hc), (hok' c hc).2.2⟩)
    have hAlen : A0.length = st.length := by rw [← hA0]; simp
    obtain ⟨j0, junk', rfl⟩ : ∃ j0 junk', junk = j0 :: junk' := by
      cases junk with
      | nil => simp only [List.length_cons, List.length_nil] at hSlen hlen'; omega
      | cons a b => exact ⟨a, b, rfl⟩
    have eset1 : ∀ (c d v : RSC) (B : List RSC), Rs.setIdx (A0 ++ c :: d :: B) (A0.length + 1) v
        = Res.ok (A0 ++ c :: v :: B) := by
      intro c d v B
      have := setIdx_mid (A0 ++ [c]) B d v
      simpa using this
    have eidx1 : ∀ (c d : RSC) (B : List RSC), Rs.idx (A0 ++ c :: d :: B) (A0.length + 1) = Res.ok d := by
      intro c d B
      have := idx_mid (A0 ++ [c]) B d
      simpa using this
    have e22 : Rs.add 64 A0.length 1 = Res.ok (A0.length + 1) := Rs.add_ok (by omega)
    have e29 : Rs.add 64 (A0.length + 1) 1 = Res.ok (A0.length + 2) := Rs.add_ok (by omega)
    have hy : x - 1 <<< (j + 1 - 1) = x - 2 ^ j := by rw [Nat.add_sub_cancel, Nat.one_shiftLeft]
    have hwt' : w = true := by simpa using hw
    subst hwt'
    obtain ⟨stack', R, r1, r2⟩ := ih hok' hpw.2 A0 ((j + 1, x, true) :: j0 :: junk') res f hA0
      (by simp only [List.length_append, List.length_cons] at hlen' ⊢; omega)
      (by have := weight_pos ⟨j + 1, x, true⟩; omega)
    refine ⟨stack', R, ?_, r2⟩
    have hkf : ¬ j + 1 ≤ 3 := hk
    by_cases hxn : x < es.length
    · have e30 : Rs.idx es x = Res.ok es[x] := Rs.idx_ok hxn
      have hlo : ¬ es[x].2.1.1 < q.hi := by
        intro h; exact hc ⟨hxn, by rw [getC_cells es x hxn]; exact h⟩
      simp [hkf, hxn, e30, hlo, r1]
    · simp [hkf, hxn, r1]


/-- **`find_into` as written in the source = the mirror model's search**, for an indexed tree with `max_level ≤ 61`,
whatever the result buffer held before -/
theorem findInto_eq_model (es : List RCell) (K : Nat) (hK : K ≤ 61) (q : Query) (res0 : List REntry) :
    ∃ R, findInto Iit.max3 es K true (q.lo, q.hi) res0 = Res.ok R ∧
      R.map toEntry = findLoop (cells es) es.length q [⟨K, (1 <<< K) - 1, false⟩] := by
  have hp := Iit.two_pow_pos K
  have e2K : 2 ^ (K + 1) = 2 * 2 ^ K := by rw [Nat.pow_succ]; omega
  have hok : ∀ c ∈ [(⟨K, 2 ^ K - 1, false⟩ : SC)], OkC K c := by
    intro c hc
    have : c = ⟨K, 2 ^ K - 1, false⟩ := by simpa using hc
    subst this
    exact ⟨node_root K, by show 2 ^ K - 1 + 2 ^ K ≤ 2 ^ (K + 1); omega, Nat.le_refl _⟩
  obtain ⟨stack', R, r1, r2⟩ := find_while_spec es q K hK [⟨K, 2 ^ K - 1, false⟩] hok (by simp)
    [(K, 2 ^ K - 1, false)] (List.replicate 63 (0, 0, false)) [] (3 ^ (K + 2)) (by simp [toSC]) (by simp)
    (by
      simp only [stackWeight, List.map_cons, List.map_nil, List.sum_cons, List.sum_nil, SC.weight,
        Bool.false_eq_true, if_false, Nat.add_zero]
      have := pow3_pos (K + 1)
      rw [Nat.pow_succ 3 (K + 1)]; omega)
  refine ⟨R, ?_, by rw [r2, Nat.one_shiftLeft]⟩
  have hrep : List.replicate 64 ((0, 0, false) : RSC) = (0, 0, false) :: List.replicate 63 (0, 0, false) := rfl
  have ei : ∀ (c : RSC) (B : List RSC), Rs.idx (c :: B) 0 = Res.ok c := fun c B => idx_mid [] B c
  have esx : ∀ (c v : RSC) (B : List RSC), Rs.setIdx (c :: B) 0 v = Res.ok (v :: B) := fun c v B => setIdx_mid [] B c v
  have e1 : Rs.shl 64 1 K = Res.ok (2 ^ K) := shl_one K (by omega)
  have e2 : Rs.sub (2 ^ K) 1 = Res.ok (2 ^ K - 1) := Rs.sub_ok (by omega)
  have r1' : findInto_while1 Iit.max3 es.length es q.hi q.lo (3 ^ (K + 2))
      (1, [], (K, 2 ^ K - 1, false) :: List.replicate 63 (0, 0, false)) = Res.ok (0, R, stack') := by
    simpa using r1
  unfold findInto
  simp only [Bool.not_true, Bool.false_eq_true, if_false, hrep, ei, esx, e1, e2, Res.ok_bind, r1', Res.pure_eq_ok]

/-- an un-indexed tree refuses the query -/
theorem findInto_not_indexed (es : List RCell) (K : Nat) (iv : Int × Int) (res0 : List REntry) :
    findInto Iit.max3 es K false iv res0 = Res.panic := by
  simp [findInto]

/-- the level `index_core` leaves behind is at most 61 for fewer than `2^62` entries (and unchanged on the empty tree) -/
theorem indexCore_level_le (a : List Cell) (ml : Nat) (hml : ml ≤ 61) (hn : a.length < 2 ^ 62) :
    (Iit.indexCore a ml).2 ≤ 61 := by
  unfold Iit.indexCore
  split
  · exact hml
  · rename_i he
    have hpos : a.length ≠ 0 := by
      intro h0; apply he; simpa using List.eq_nil_of_length_eq_zero h0
    show Nat.log2 a.length ≤ 61
    have : Nat.log2 a.length < 62 := (Nat.log2_lt hpos).mpr hn
    omega

/-! # `index`

`self.entries.sort_by_key(|e| e.interval.start)` is the abstract function `sortByStart` of the translated definition (the
closure text is pinned by the translation spec); its contract — the trusted meaning of the standard library's sort, as far
as the property needs it — is `SortContract`: a permutation that is sorted by start.  (Stability is not needed: the answer
is compared as a multiset.) -/

def SortContract (srt : List RCell → List RCell) : Prop := ∀ l, (srt l).Perm l ∧ SortedC (cells (srt l))

/-- **`index` as written in the source**: on an un-indexed tree it sorts, runs the translated `index_core` and sets the
flag; the cells are the model's `indexCore` of the sorted entries -/
theorem index_eq_model (srt : List RCell → List RCell) (hs : SortContract srt) (es : List RCell) (ml : Nat)
    (hn : es.length < 2 ^ 62) :
    ∃ es', Gen.SrcIit.index Iit.max3 srt es ml false
        = Res.ok (es', (Iit.indexCore (cells (srt es)) ml).2, true) ∧
      cells es' = (Iit.indexCore (cells (srt es)) ml).1 := by
  have hl : (srt es).length < 2 ^ 62 := by rw [(hs es).1.length_eq]; exact hn
  obtain ⟨es', h1, h2⟩ := indexCore_eq_model (srt es) ml hl
  exact ⟨es', by simp [Gen.SrcIit.index, h1], h2⟩

/-- an indexed tree is left alone -/
theorem index_indexed (srt : List RCell → List RCell) (es : List RCell) (ml : Nat) :
    Gen.SrcIit.index Iit.max3 srt es ml true = Res.ok (es, ml, true) := by
  simp [Gen.SrcIit.index]

end RbV.Thm.GenSrcIit
