import RbV.Gen.SrcAlphabet
import RbV.Spec.Alphabet
import RbV.Thm.GenSrcBasic
/-!
# The translated text of `Alphabet::{new, insert, is_word, max_symbol, len}` and `RankTransform::{new, get, transform}`
equals the alphabet model (`Spec/Alphabet.lean`)

`RbV/Gen/SrcAlphabet.lean` is regenerated from `src/alphabets/mod.rs` on every `./check C20` (dialect "cf": closures of
`map` / `all` / `Option::map` as named helpers, `bit_set::BitSet` and `vec_map::VecMap<u8>` as the containers `Rs.BitSet`,
`Rs.VecMap` of `RsSem.lean`).  The model represents an alphabet by the ascending list of its members (`Alpha.mk syms` =
filter over 0…255); `Rs.BitSet` is an ascending duplicate-free list as well, so "the bit set built by the code" and "the
model's alphabet" are compared as lists (`sorted_ext`: two strictly ascending lists with the same members are equal).
`RanksOf A m`: the map `m` sends every member of `A` to its position in `A` and nothing else.
-/
set_option linter.unusedSimpArgs false
namespace RbV.Thm.GenSrcAlphabet
open RbV RbV.Rs RbV.Gen.SrcAlphabet

/-! ## lists -/

theorem sorted_ext : ∀ (l1 l2 : List Nat), l1.Pairwise (· < ·) → l2.Pairwise (· < ·) →
    (∀ x, x ∈ l1 ↔ x ∈ l2) → l1 = l2 := by
  intro l1
  induction l1 with
  | nil =>
    intro l2 _ _ h
    cases l2 with
    | nil => rfl
    | cons b u => exact absurd ((h b).mpr List.mem_cons_self) (by simp)
  | cons a t ih =>
    intro l2 h1 h2 h
    cases l2 with
    | nil => exact absurd ((h a).mp List.mem_cons_self) (by simp)
    | cons b u =>
      rw [List.pairwise_cons] at h1 h2
      have hab : a = b := by
        rcases List.mem_cons.mp ((h a).mp List.mem_cons_self) with e | ha
        · exact e
        · rcases List.mem_cons.mp ((h b).mpr List.mem_cons_self) with e | hb
          · exact e.symm
          · have := h2.1 a ha; have := h1.1 b hb; omega
      subst hab
      congr 1
      refine ih u h1.2 h2.2 ?_
      intro x
      constructor
      · intro hx
        rcases List.mem_cons.mp ((h x).mp (List.mem_cons_of_mem _ hx)) with e | hx'
        · have := h1.1 x hx; omega
        · exact hx'
      · intro hx
        rcases List.mem_cons.mp ((h x).mpr (List.mem_cons_of_mem _ hx)) with e | hx'
        · have := h2.1 x hx; omega
        · exact hx'

theorem mapM_ok {α β : Type} (f : α → Res β) (g : α → β) : ∀ (l : List α), (∀ x ∈ l, f x = Res.ok (g x)) →
    l.mapM f = Res.ok (l.map g) := by
  intro l
  induction l with
  | nil => intro _; simp
  | cons a t ih =>
    intro h
    simp [List.mapM_cons, h a List.mem_cons_self, ih (fun x hx => h x (List.mem_cons_of_mem _ hx))]

theorem allM_ok {α : Type} (f : α → Res Bool) (g : α → Bool) : ∀ (l : List α), (∀ x ∈ l, f x = Res.ok (g x)) →
    l.allM f = Res.ok (l.all g) := by
  intro l
  induction l with
  | nil => intro _; simp [List.allM]
  | cons a t ih =>
    intro h
    have ha := h a List.mem_cons_self
    have := ih (fun x hx => h x (List.mem_cons_of_mem _ hx))
    cases hg : g a <;> simp [List.allM, ha, hg, this]

theorem foldl_max_sorted : ∀ (t : List Nat) (a : Nat), (a :: t).Pairwise (· < ·) →
    t.foldl max a = (a :: t).getLast (by simp) := by
  intro t
  induction t with
  | nil => intro a _; rfl
  | cons b t ih =>
    intro a h
    rw [List.pairwise_cons] at h
    have hab : a < b := h.1 b List.mem_cons_self
    have : max a b = b := by omega
    simp only [List.foldl_cons, this]
    rw [ih b h.2]
    simp

theorem max?_sorted (l : List Nat) (h : l.Pairwise (· < ·)) : l.max? = l.getLast? := by
  cases l with
  | nil => rfl
  | cons a t =>
    rw [List.max?_cons', foldl_max_sorted t a h, List.getLast?_eq_some_getLast (by simp)]

/-! ## the bit set -/

theorem extend_mem (xs : List Nat) : ∀ (s : List Nat) (y : Nat),
    y ∈ (xs.foldl BitSet.insert s : List Nat) ↔ y ∈ xs ∨ y ∈ s := by
  induction xs with
  | nil => intro s y; simp
  | cons x xs ih =>
    intro s y
    simp only [List.foldl_cons]
    rw [ih]
    have := BitSet.mem_insertL s x y
    unfold BitSet.insert
    simp only [List.mem_cons]
    constructor
    · rintro (h | h)
      · exact Or.inl (Or.inr h)
      · rcases this.mp h with h | h
        · exact Or.inl (Or.inl h)
        · exact Or.inr h
    · rintro ((h | h) | h)
      · exact Or.inr (this.mpr (Or.inl h))
      · exact Or.inl h
      · exact Or.inr (this.mpr (Or.inr h))

theorem extend_sorted (xs : List Nat) : ∀ (s : List Nat), s.Pairwise (· < ·) →
    (xs.foldl BitSet.insert s : List Nat).Pairwise (· < ·) := by
  induction xs with
  | nil => intro s h; exact h
  | cons x xs ih => intro s h; exact ih _ (BitSet.insertL_sorted s x h)

/-- **`Alphabet::new` as written in the source** builds the model's alphabet (symbols are bytes) -/
theorem alphabetNew_eq_model (syms : List Nat) (hb : ∀ c ∈ syms, c < 256) :
    alphabetNew syms = Res.ok (Alpha.mk syms) := by
  have h1 : syms.mapM alphabetNew_map1 = Res.ok (syms.map id) := mapM_ok _ _ syms (fun _ _ => rfl)
  have h2 : (BitSet.extend BitSet.empty syms : List Nat) = Alpha.mk syms := by
    refine sorted_ext _ _ (extend_sorted syms [] List.Pairwise.nil) (Alpha.mk_sorted syms) ?_
    intro x
    unfold BitSet.extend BitSet.empty
    rw [extend_mem, Alpha.mem_mk]
    constructor
    · rintro (h | h)
      · exact ⟨h, hb x h⟩
      · simp at h
    · intro h; exact Or.inl h.1
  simp only [alphabetNew, h1, Res.ok_bind, List.map_id, Res.pure_eq_ok]
  exact congrArg Res.ok h2

/-- **`Alphabet::insert`**: inserting a byte into the alphabet of `syms` gives the alphabet of `a :: syms` -/
theorem alphabetInsert_eq_model (syms : List Nat) (a : Nat) (ha : a < 256) :
    alphabetInsert (Alpha.mk syms) a = Res.ok (Alpha.mk (a :: syms)) := by
  have h2 : (BitSet.insert (Alpha.mk syms) a : List Nat) = Alpha.mk (a :: syms) := by
    refine sorted_ext _ _ (BitSet.insertL_sorted _ a (Alpha.mk_sorted syms)) (Alpha.mk_sorted _) ?_
    intro x
    unfold BitSet.insert
    rw [BitSet.mem_insertL, Alpha.mem_mk, Alpha.mem_mk]
    simp only [List.mem_cons]
    constructor
    · rintro (rfl | h)
      · exact ⟨Or.inl rfl, ha⟩
      · exact ⟨Or.inr h.1, h.2⟩
    · rintro ⟨rfl | h, h'⟩
      · exact Or.inl rfl
      · exact Or.inr ⟨h, h'⟩
  simp only [alphabetInsert, Res.pure_eq_ok]
  exact congrArg Res.ok h2

/-- **`Alphabet::is_word`** = the model's `isWord`, for every bit set and every text -/
theorem isWord_eq_model (A t : List Nat) : isWord A t = Res.ok (Alpha.isWord A t) := by
  have h := allM_ok (isWord_all1 A) (fun c => List.contains A c) t (fun _ _ => rfl)
  simp only [isWord, h, Res.ok_bind, Res.pure_eq_ok]
  rfl

/-- **`Alphabet::max_symbol`** = the last member of the ascending enumeration (members are bytes) -/
theorem maxSymbol_eq_model (A : List Nat) (hs : A.Pairwise (· < ·)) (hb : ∀ a ∈ A, a < 256) :
    maxSymbol A = Res.ok (Alpha.maxSymbol A) := by
  have hm : (BitSet.toList A).max? = A.getLast? := max?_sorted A hs
  unfold maxSymbol Alpha.maxSymbol
  rw [hm]
  cases hl : A.getLast? with
  | none => simp [Rs.optMapM]
  | some a =>
    have : a ∈ A := List.mem_of_getLast? hl
    have hc : Rs.cast 8 a = a := by unfold Rs.cast; have := hb a this; omega
    simp [Rs.optMapM, maxSymbol_map1, hc]

/-- **`Alphabet::len`** -/
theorem len_eq_model (A : List Nat) : len A = Res.ok A.length := rfl

/-! ## the rank map -/

/-- `m` maps every member of `A` to its position in `A`, and nothing else -/
def RanksOf (A : List Nat) (m : VecMap) : Prop :=
  ∀ a, VecMap.get m a = if a ∈ A then some (Alpha.rank A a) else none

theorem for1_spec : ∀ (l : List Nat) (k : Nat) (m : VecMap), l.Nodup → k + l.length ≤ 256 →
    ∃ m', rankNew_for1 (l.zipIdx k) m = Res.ok m' ∧
      ∀ a, VecMap.get m' a = if a ∈ l then some (k + l.idxOf a) else VecMap.get m a := by
  intro l
  induction l with
  | nil => intro k m _ _; exact ⟨m, by simp [rankNew_for1], fun a => by simp⟩
  | cons c t ih =>
    intro k m hn hk
    rw [List.nodup_cons] at hn
    simp only [List.length_cons] at hk
    have hc : Rs.cast 8 k = k := by unfold Rs.cast; omega
    obtain ⟨m', h1, h2⟩ := ih (k + 1) (VecMap.insert m c k) hn.2 (by omega)
    refine ⟨m', by simp [List.zipIdx_cons, rankNew_for1, hc, h1], ?_⟩
    intro a
    rw [h2 a, VecMap.get_insert]
    by_cases hat : a ∈ t
    · have hne : c ≠ a := fun e => hn.1 (e ▸ hat)
      have hb : (c == a) = false := by simpa using hne
      simp only [hat, List.mem_cons, or_true, if_true, List.idxOf_cons, hb, cond_false]
      congr 1; omega
    · by_cases hac : a = c
      · subst hac; simp [hat, List.idxOf_cons]
      · have hne : c ≠ a := fun e => hac e.symm
        simp [hat, hac, hne]

/-- **`RankTransform::new` as written in the source**: for an alphabet (ascending, at most 256 members) the loop
`for (r, c) in symbols.iter().enumerate() { ranks.insert(c, r as u8) }` builds the rank map of the model -/
theorem rankNew_eq_model (A : List Nat) (hs : A.Pairwise (· < ·)) (hl : A.length ≤ 256) :
    ∃ m, rankNew A = Res.ok m ∧ RanksOf A m := by
  have hn : A.Nodup := hs.imp (fun h => Nat.ne_of_lt h)
  obtain ⟨m', h1, h2⟩ := for1_spec A 0 VecMap.empty hn (by omega)
  refine ⟨m', ?_, ?_⟩
  · have : (BitSet.toList A).zipIdx = A.zipIdx 0 := rfl
    simp [rankNew, this, h1]
  · intro a
    rw [h2 a]
    by_cases ha : a ∈ A
    · simp [ha, Alpha.rank]
    · simp [ha, VecMap.get, VecMap.empty]

/-- **`RankTransform::get`**: the rank of a member; a symbol outside the alphabet panics (`expect`) -/
theorem rankGet_eq_model (A : List Nat) (m : VecMap) (hm : RanksOf A m) (a : Nat) :
    rankGet m a = if a ∈ A then Res.ok (Alpha.rank A a) else Res.panic := by
  unfold rankGet
  rw [hm a]
  by_cases ha : a ∈ A <;> simp [ha, Rs.expect]

/-- **`RankTransform::transform`** = the model's `transform` on words over the alphabet -/
theorem transform_eq_model (A : List Nat) (m : VecMap) (hm : RanksOf A m) (t : List Nat) (ht : ∀ c ∈ t, c ∈ A) :
    transform m t = Res.ok (Alpha.transform A t) := by
  have h := mapM_ok (transform_map1 m) (Alpha.rank A) t (by
    intro c hc
    simp [transform_map1, hm c, ht c hc, Rs.expect])
  simp [transform, h, Alpha.transform]

end RbV.Thm.GenSrcAlphabet
