import RbV.Gen.SrcFmdAllSmems
import RbV.Thm.GenSrcFmdSmems
/-!
# The translated text of `FMDIndex::all_smems` equals the mirror model `SmemModel.allSmems`

`RbV/Gen/SrcFmdAllSmems.lean` is regenerated from `src/data_structures/fmindex.rs` on every `./check C06`; the translated
`all_smems` calls the translated `smems` (`RbV/Gen/SrcFmdSmems.lean`).  The equality uses of `smems` only what
`smems_eq_model` states — it returns the model's matches **in some order** — and is itself stated up to order: the
position `next_i0` the loop continues at is a maximum over the matches, the result a concatenation.
-/
set_option linter.unusedSimpArgs false
set_option linter.unusedVariables false

namespace RbV.Thm.GenSrcFmdAllSmems
open RbV RbV.Rs RbV.Gen RbV.Thm.GenSrc RbV.FMDModel RbV.SmemModel RbV.Thm.GenSrcFmdExt RbV.Thm.GenSrcFmdSmems

abbrev HitT := BiT × Nat × Nat

/-- the `next_i0` fold on translated matches -/
def nextT (cs : List HitT) (n : Nat) : Nat :=
  cs.foldl (fun nx h => if h.2.1 + h.2.2 > nx then h.2.1 + h.2.2 else nx) n

theorem nextT_perm {l1 l2 : List HitT} (h : l1.Perm l2) : ∀ n, nextT l1 n = nextT l2 n := by
  induction h with
  | nil => intro n; rfl
  | cons x _ ih => intro n; simp only [nextT, List.foldl_cons]; exact ih _
  | swap x y l =>
    intro n
    simp only [nextT, List.foldl_cons]
    congr 1
    repeat' split
    all_goals omega
  | trans _ _ ih1 ih2 => intro n; rw [ih1, ih2]

theorem nextT_map (cs : List (Hit Bi)) : ∀ n, nextT (cs.map hitT) n =
    cs.foldl (fun nx h => if h.pos + h.len > nx then h.pos + h.len else nx) n := by
  induction cs with
  | nil => intro n; rfl
  | cons h rest ih => intro n; simp only [List.map_cons, nextT, List.foldl_cons, hitT]; exact ih _

theorem nextT_ge (cs : List HitT) : ∀ n, n ≤ nextT cs n := by
  induction cs with
  | nil => intro n; exact Nat.le_refl _
  | cons h rest ih =>
    intro n
    simp only [nextT, List.foldl_cons]
    have := ih (if h.2.1 + h.2.2 > n then h.2.1 + h.2.2 else n)
    simp only [nextT] at this
    have h2 : n ≤ (if h.2.1 + h.2.2 > n then h.2.1 + h.2.2 else n) := by split <;> omega
    omega

variable (lessF : Nat → Nat) (occF : Nat → Nat → Nat)

/-- the `for (_, p, l) in curr_smems.iter()` loop -/
theorem for1_eq : ∀ (cs : List HitT) (n : Nat), (∀ h ∈ cs, h.2.1 + h.2.2 < 2 ^ 64) →
    SrcFmdAllSmems.all_smems_for1 lessF occF dnaCompl cs n = Res.ok (nextT cs n) := by
  intro cs
  induction cs with
  | nil => intro n _; simp [SrcFmdAllSmems.all_smems_for1, nextT]
  | cons h rest ih =>
    intro n hb
    obtain ⟨iv, p, l⟩ := h
    have hh := hb (iv, p, l) (by simp)
    simp only at hh
    have e1 : Rs.add 64 p l = Res.ok (p + l) := Rs.add_ok hh
    have e1' : Rs.add 64 l p = Res.ok (p + l) := by rw [Nat.add_comm p]; exact Rs.add_ok (by omega)
    have hrec := ih (if p + l > n then p + l else n) (fun x hx => hb x (List.mem_cons_of_mem _ hx))
    by_cases hgt : p + l > n
    · simp only [hgt, if_true] at hrec
      simp [SrcFmdAllSmems.all_smems_for1, nextT, e1, e1', hgt, hrec]
    · simp only [hgt, if_false] at hrec
      simp [SrcFmdAllSmems.all_smems_for1, nextT, e1, e1', hgt, hrec]

/-- what the loop needs of the translated `smems`: the model's matches in some order, ends below `2^64` -/
def SmemsOk (ops : Ops Bi) (pat : List Nat) (l : Nat) : Prop :=
  ∀ i, i < pat.length → ∃ res, SrcFmdSmems.smems lessF occF dnaCompl pat i l = Res.ok res ∧
    res.Perm ((SmemModel.smems ops pat i l).map hitT) ∧ ∀ h ∈ SmemModel.smems ops pat i l, h.pos + h.len < 2 ^ 64

theorem while1_eq (ops : Ops Bi) (pat : List Nat) (l : Nat) (hsm : SmemsOk lessF occF ops pat l)
    (hL : pat.length + 1 < 2 ^ 63) :
    ∀ (f i0 : Nat) (accT : List HitT) (acc : List (Hit Bi)), accT.Perm (acc.map hitT) → pat.length ≤ i0 + f →
      ∃ r, SrcFmdAllSmems.all_smems_while1 lessF occF dnaCompl pat l (f + 1) (i0, accT) = Res.ok r ∧
        r.2.Perm ((allLoop ops pat l f i0 acc).map hitT) := by
  intro f
  induction f with
  | zero =>
    intro i0 accT acc hp hf
    have : ¬ i0 < pat.length := by omega
    exact ⟨(i0, accT), by simp [SrcFmdAllSmems.all_smems_while1, this], by simpa [allLoop] using hp⟩
  | succ f ih =>
    intro i0 accT acc hp hf
    by_cases hlt : i0 < pat.length
    · obtain ⟨res, hres, hperm, hbnd⟩ := hsm i0 hlt
      have e1 : Rs.add 64 i0 1 = Res.ok (i0 + 1) := Rs.add_ok (by have := two63_lt; omega)
      have e1' : Rs.add 64 1 i0 = Res.ok (i0 + 1) := by rw [Nat.add_comm i0]; exact Rs.add_ok (by have := two63_lt; omega)
      have hb' : ∀ h ∈ res, h.2.1 + h.2.2 < 2 ^ 64 := by
        intro h hh
        have := (hperm.mem_iff).mp hh
        obtain ⟨k, hk, rfl⟩ := List.mem_map.mp this
        exact hbnd k hk
      have e2 := for1_eq lessF occF res (i0 + 1) hb'
      have hnext : nextT res (i0 + 1) = nextI0 (SmemModel.smems ops pat i0 l) i0 := by
        rw [nextT_perm hperm, nextT_map]; rfl
      have hge := nextT_ge res (i0 + 1)
      obtain ⟨r, hr, hrp⟩ := ih (nextT res (i0 + 1)) (accT ++ res) (acc ++ SmemModel.smems ops pat i0 l)
        (by rw [List.map_append]; exact List.Perm.append hp hperm) (by omega)
      refine ⟨r, ?_, ?_⟩
      · rw [SrcFmdAllSmems.all_smems_while1]
        simp only [hlt, decide_true, if_true, hres, Res.ok_bind, e1, e1', e2, hr, Res.pure_eq_ok, bind_pure_comp,
          pure_bind, map_pure]
      · rw [hnext] at hrp
        simpa [allLoop, hlt] using hrp
    · exact ⟨(i0, accT), by simp [SrcFmdAllSmems.all_smems_while1, hlt], by simpa [allLoop, hlt] using hp⟩

/-- **the translated `all_smems` returns the mirror model's matches, up to their order** -/
theorem all_smems_eq_model (ops : Ops Bi) (pat : List Nat) (l : Nat) (hsm : SmemsOk lessF occF ops pat l)
    (hL : pat.length + 1 < 2 ^ 63) :
    ∃ res, SrcFmdAllSmems.all_smems lessF occF dnaCompl pat l = Res.ok res ∧
      res.Perm ((allSmems ops pat l).map hitT) := by
  obtain ⟨r, hr, hp⟩ := while1_eq lessF occF ops pat l hsm hL pat.length 0 [] [] (by simp) (by omega)
  refine ⟨r.2, ?_, by simpa [allSmems] using hp⟩
  simp [SrcFmdAllSmems.all_smems, hr]

end RbV.Thm.GenSrcFmdAllSmems
