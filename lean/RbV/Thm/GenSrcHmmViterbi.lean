import RbV.Gen.SrcHmmViterbi
import RbV.Lemmas.HmmSrc
/-!
# The translated text of `hmm::viterbi` (`viterbi_matrices`, the end-term loop, `viterbi_traceback`) is optimal

`RbV/Gen/SrcHmmViterbi.lean` is regenerated from `src/stats/hmm/mod.rs` on every `./check C14`.  Instantiated at exact
numerators (`Rs.natOps`) and a specification-level model (`Rs.hmmOps m`, well-formed, at least one state), the translated
`viterbi` returns — without panic — a state path whose joint weight is the returned value, and no state path has a larger
joint weight; hence the value is the one the mirror model `Hmm.viterbi` reports.

The statement is **modulo tie-breaking**, as the property is: which of several optimal paths is returned is not fixed.  The
proof therefore never says *which* predecessor `max_by` selects, only that the selected one maximises `previous value ·
transition` (`cmp1_spec`: the zero-aware comparator refines that score; `maxBy_spec`: then `max_by` returns a maximal element
for every scan order).  The matrices are characterised cell-wise by the Bellman conditions (`GoodStep`), the traceback is
followed over any such matrices (`tbK_spec`).
-/
set_option linter.unusedSimpArgs false
set_option linter.unusedVariables false

namespace RbV.Thm.GenSrcHmmViterbi
open RbV RbV.Rs RbV.Hmm RbV.Gen.SrcHmmViterbi

/-! ### the closures of `viterbi_matrices` -/

theorem map1_eq (z : Nat) (m : Hmm) (x : Nat × Nat) : viterbi_matrices_map1 (natOps z) (hmmOps m) x = x := by
  cases x; rfl

theorem map1_id (z : Nat) (m : Hmm) (l : List (Nat × Nat)) : List.map (viterbi_matrices_map1 (natOps z) (hmmOps m)) l = l := by
  rw [List.map_congr_left (fun x _ => map1_eq z m x)]; simp

theorem map2_eq (z : Nat) (m : Hmm) (x : Nat × Nat) : viterbi_matrices_map2 (natOps z) (hmmOps m) x = x := by
  cases x; rfl

/-- the zero-aware comparator refines the score `previous value · transition into c` -/
theorem cmp1_spec (z : Nat) (m : Hmm) (i c : Nat) : ∀ x y : Nat × Nat,
    (viterbi_matrices_cmp1 (natOps z) (hmmOps m) i c x y = .gt → y.2 * m.trans y.1 c ≤ x.2 * m.trans x.1 c) ∧
    (viterbi_matrices_cmp1 (natOps z) (hmmOps m) i c x y ≠ .gt → x.2 * m.trans x.1 c ≤ y.2 * m.trans y.1 c) := by
  rintro ⟨a, v⟩ ⟨b, w⟩
  simp only [viterbi_matrices_cmp1, natOps_isZero, natOps_cmp, natOps_mul, hmmOps_trans]
  by_cases hv : v = 0
  · by_cases hw : w = 0
    · simp [hv, hw]
    · simp [hv, hw]
  · by_cases hw : w = 0
    · simp [hv, hw]
    · have hvb : (v == 0) = false := by simp [hv]
      have hwb : (w == 0) = false := by simp [hw]
      simp only [hvb, hwb, Bool.and_self, Bool.false_eq_true, if_false]
      constructor
      · intro hgt
        exact Nat.le_of_lt (Nat.compare_eq_gt.mp hgt)
      · intro hngt
        rcases hc : compare (v * m.trans a c) (w * m.trans b c) with _ | _ | _
        · exact Nat.le_of_lt (Nat.compare_eq_lt.mp hc)
        · exact Nat.le_of_eq (Nat.compare_eq_eq.mp hc)
        · exact absurd hc hngt

/-- `max_by` with the comparator of the code over the enumerated previous column, **in any order**, selects a predecessor
that maximises `previous value · transition` -/
theorem pick_spec (z : Nat) (m : Hmm) (i c : Nat) (prev : List Nat) (hS : 0 < m.S) (hl : prev.length = m.S)
    (lst : List (Nat × Nat)) (hlst : ∀ x, x ∈ lst ↔ x ∈ Rs.enumerate prev) :
    ∃ a, a < m.S ∧ Rs.maxBy (viterbi_matrices_cmp1 (natOps z) (hmmOps m) i c) lst = some (a, ix prev a) ∧
      ∀ k, k < m.S → ix prev k * m.trans k c ≤ ix prev a * m.trans a c := by
  have hne : lst ≠ [] := by
    intro h
    have : (0, prev[0]'(by omega)) ∈ lst := (hlst _).mpr (mem_enumerate.mpr (by simp))
    rw [h] at this; cases this
  obtain ⟨⟨a, v⟩, hx, hmem, hub⟩ := maxBy_spec _ (fun x : Nat × Nat => x.2 * m.trans x.1 c) (cmp1_spec z m i c) lst hne
  have hav := mem_enumerate.mp ((hlst _).mp hmem)
  have ha : a < m.S := by
    rcases Nat.lt_or_ge a prev.length with h | h
    · omega
    · rw [List.getElem?_eq_none h] at hav; cases hav
  have hv : v = ix prev a := by simp [ix, List.getD, hav]
  subst hv
  refine ⟨a, ha, hx, ?_⟩
  intro k hk
  have hkm : (k, ix prev k) ∈ lst := (hlst _).mpr (mem_enumerate.mpr (by
    rw [ix_eq_getElem (by omega)]; exact List.getElem?_eq_getElem (by omega)))
  exact hub _ hkm

/-! ### one column of `viterbi_matrices` -/

/-- the Bellman conditions of the cells `< c` of row `i` (values `vr`, pointers `fr`) over the previous row `prev` -/
def CellsOk (m : Hmm) (prev : List Nat) (o : Nat) (c : Nat) (vr fr : List Nat) : Prop :=
  ∀ j, j < c → ix fr j < m.S ∧ ix vr j = ix prev (ix fr j) * m.trans (ix fr j) j * m.emit j o ∧
    ∀ k, k < m.S → ix prev k * m.trans k j * m.emit j o ≤ ix vr j

structure CellInv (m : Hmm) (i : Nat) (vals0 from0 : List (List Nat)) (prev : List Nat) (o c : Nat)
    (s : List (List Nat) × List (List Nat)) : Prop where
  lv : s.1.length = vals0.length
  lf : s.2.length = from0.length
  ov : ∀ t, t ≠ i → s.1[t]? = vals0[t]?
  of : ∀ t, t ≠ i → s.2[t]? = from0[t]?
  row : ∃ vr fr, s.1[i]? = some vr ∧ s.2[i]? = some fr ∧ vr.length = m.S ∧ fr.length = m.S ∧ CellsOk m prev o c vr fr

theorem lt_of_getElem?_eq_some {α : Type} {l : List α} {i : Nat} {a : α} (h : l[i]? = some a) : i < l.length := by
  rcases Nat.lt_or_ge i l.length with h' | h'
  · exact h'
  · rw [List.getElem?_eq_none h'] at h; cases h

/-- a column `i ≥ 1`: every cell gets a maximising predecessor and its value -/
theorem for3_spec (z : Nat) (m : Hmm) (hS : 0 < m.S) (i o : Nat) (hi : 0 < i) (vals0 from0 : List (List Nat))
    (prev r0 q0 : List Nat) (hp : vals0[i - 1]? = some prev) (hpl : prev.length = m.S) (hr0 : vals0[i]? = some r0)
    (hrl : r0.length = m.S) (hq0 : from0[i]? = some q0) (hql : q0.length = m.S) :
    ∃ s', List.foldlM (viterbi_matrices_for3 (natOps z) (hmmOps m) i o) (vals0, from0) (List.range m.S) = Res.ok s' ∧
      CellInv m i vals0 from0 prev o m.S s' := by
  apply foldlM_range_inv _ (fun c s => CellInv m i vals0 from0 prev o c s) m.S (vals0, from0)
  · exact ⟨rfl, rfl, fun _ _ => rfl, fun _ _ => rfl, r0, q0, hr0, hq0, hrl, hql, fun j hj => absurd hj (by omega)⟩
  · rintro c ⟨v, f⟩ hc ⟨lv, lf, ov, of, vr, fr, hvr, hfr, hvl, hfl, hcells⟩
    simp only at lv lf ov of hvr hfr
    have e1 : Rs.sub i 1 = Res.ok (i - 1) := sub_one_ok hi
    have hne : i - 1 ≠ i := by omega
    have hrow : Rs.row2 v (i - 1) = Res.ok prev := row2_ok (by rw [ov _ hne]; exact hp)
    have hfwd := pick_spec z m i c prev hS hpl (List.map (viterbi_matrices_map1 (natOps z) (hmmOps m)) (Rs.enumerate prev))
      (by intro x; rw [map1_id])
    have hrev := pick_spec z m i c prev hS hpl (List.map (viterbi_matrices_map1 (natOps z) (hmmOps m)) (Rs.enumerate prev).reverse)
      (by intro x; rw [map1_id]; simp)
    have hrev' := pick_spec z m i c prev hS hpl (List.map (viterbi_matrices_map1 (natOps z) (hmmOps m)) (Rs.enumerate prev)).reverse
      (by intro x; rw [map1_id]; simp)
    have hs1 : ∀ x : Nat, Rs.set2 v i c x = Res.ok (v.set i (vr.set c x)) := fun x => set2_ok hvr (by omega)
    have hs2 : ∀ x : Nat, Rs.set2 f i c x = Res.ok (f.set i (fr.set c x)) := fun x => set2_ok hfr (by omega)
    have hx : ∃ a, a < m.S ∧ (∀ k, k < m.S → ix prev k * m.trans k c ≤ ix prev a * m.trans a c) ∧
        viterbi_matrices_for3 (natOps z) (hmmOps m) i o (v, f) c
          = Res.ok (v.set i (vr.set c (ix prev a * m.trans a c * m.emit c o)), f.set i (fr.set c a)) := by
      first
        | (obtain ⟨a, ha, hmx, hub⟩ := hfwd
           refine ⟨a, ha, hub, ?_⟩
           simp [viterbi_matrices_for3, e1, hrow, hmx, map2_eq, hs1, hs2]
           done)
        | (obtain ⟨a, ha, hmx, hub⟩ := hrev
           refine ⟨a, ha, hub, ?_⟩
           simp [viterbi_matrices_for3, e1, hrow, hmx, map2_eq, hs1, hs2]
           done)
        | (obtain ⟨a, ha, hmx, hub⟩ := hrev'
           refine ⟨a, ha, hub, ?_⟩
           simp [viterbi_matrices_for3, e1, hrow, hmx, map2_eq, hs1, hs2]
           done)
    obtain ⟨a, ha, hub, hx⟩ := hx
    have hiv : i < v.length := lt_of_getElem?_eq_some hvr
    have hif : i < f.length := lt_of_getElem?_eq_some hfr
    refine ⟨_, hx, by simp [lv], by simp [lf], ?_, ?_, vr.set c (ix prev a * m.trans a c * m.emit c o), fr.set c a,
      by simp [hiv], by simp [hif], by simp [hvl], by simp [hfl], ?_⟩
    · intro t ht; simp only; rw [List.getElem?_set_ne (by omega)]; exact ov t ht
    · intro t ht; simp only; rw [List.getElem?_set_ne (by omega)]; exact of t ht
    · intro j hj
      by_cases hjc : j = c
      · subst hjc
        rw [ix_set_self (by omega), ix_set_self (by omega)]
        refine ⟨ha, rfl, ?_⟩
        intro k hk
        exact Nat.mul_le_mul_right _ (hub k hk)
      · rw [ix_set_ne hjc, ix_set_ne hjc]
        exact hcells j (by omega)

/-- the first column: values `initial · emission`, pointers irrelevant -/
theorem for2_spec (z : Nat) (m : Hmm) (o : Nat) (vals0 from0 : List (List Nat)) (r0 q0 : List Nat)
    (hr0 : vals0[0]? = some r0) (hrl : r0.length = m.S) (hq0 : from0[0]? = some q0) (hql : q0.length = m.S) :
    ∃ s', List.foldlM (viterbi_matrices_for2 (natOps z) (hmmOps m) o) (vals0, from0) (List.range m.S) = Res.ok s' ∧
      s'.1 = vals0.set 0 (col0 m o) ∧ s'.2 = from0.set 0 ((List.range m.S).map fun s => s) := by
  obtain ⟨s', h1, h2, h3⟩ := fill_row (fun s => s.1) (viterbi_matrices_for2 (natOps z) (hmmOps m) o)
    (fun s => m.init s * m.emit s o) 0 m.S (fun j s => RowFilled from0 s.2 0 j (fun s => s) m.S) (vals0, from0) r0 hr0 hrl
    (RowFilled.zero _ hq0 hql) (by
      rintro j ⟨v, f⟩ hj hf hq
      obtain ⟨a', ha', hf'⟩ := hf.step hj
      obtain ⟨b', hb', hq'⟩ := hq.step hj
      have ha' : Rs.set2 v 0 j (m.init j * m.emit j o) = Res.ok a' := ha'
      have hb' : Rs.set2 f 0 j j = Res.ok b' := hb'
      exact ⟨(a', b'), by simp [viterbi_matrices_for2, ha', hb'], hf', hq'⟩)
  exact ⟨s', h1, h2, h3.done⟩

/-! ### `viterbi_matrices` -/

/-- invariant of the loop over the observations, `j` columns done -/
structure VMInv (m : Hmm) (obs : List Nat) (j : Nat) (s : List (List Nat) × List (List Nat)) : Prop where
  lv : s.1.length = obs.length
  lf : s.2.length = obs.length
  rv : ∀ t, t < obs.length → ∃ r, s.1[t]? = some r ∧ r.length = m.S
  rf : ∀ t, t < obs.length → ∃ r, s.2[t]? = some r ∧ r.length = m.S
  c0 : 0 < j → s.1[0]? = some (col0 m (obs[0]?.getD 0))
  good : ∀ t, 0 < t → t < j → GoodStep m (s.1[t - 1]?.getD []) (obs[t]?.getD 0) (s.1[t]?.getD [], s.2[t]?.getD [])

theorem for1_spec (z : Nat) (m : Hmm) (hS : 0 < m.S) (obs : List Nat) (s0 : List (List Nat) × List (List Nat))
    (h : VMInv m obs 0 s0) :
    ∃ s', List.foldlM (viterbi_matrices_for1 (natOps z) (hmmOps m)) s0 (Rs.enumerate obs) = Res.ok s' ∧
      VMInv m obs obs.length s' := by
  have := foldlM_enumFrom_inv (viterbi_matrices_for1 (natOps z) (hmmOps m)) (VMInv m obs) obs 0 s0 h (by
    rintro j b ⟨v, f⟩ _ hb ⟨lv, lf, rv, rf, c0, good⟩
    simp only [Nat.sub_zero] at hb
    simp only at lv lf rv rf c0 good
    have hjn : j < obs.length := lt_of_getElem?_eq_some hb
    have hbd : obs[j]?.getD 0 = b := by simp [hb]
    obtain ⟨r0, hr0, hrl⟩ := rv j hjn
    obtain ⟨q0, hq0, hql⟩ := rf j hjn
    by_cases hj0 : j = 0
    · subst hj0
      obtain ⟨⟨v', f'⟩, hf, hv', hf'⟩ := for2_spec z m b v f r0 q0 hr0 hrl hq0 hql
      simp only at hv' hf'
      subst hv' hf'
      refine ⟨(v.set 0 (col0 m b), f.set 0 ((List.range m.S).map fun s => s)), by simp [viterbi_matrices_for1, hf],
        by simp [lv], by simp [lf], ?_, ?_, ?_, ?_⟩
      · intro t ht
        by_cases ht0 : t = 0
        · subst ht0; exact ⟨col0 m b, by simp [lv, hjn], by simp [col0, tab]⟩
        · simp only; rw [List.getElem?_set_ne (by omega)]; exact rv t ht
      · intro t ht
        by_cases ht0 : t = 0
        · subst ht0; exact ⟨(List.range m.S).map fun s => s, by simp [lf, hjn], by simp⟩
        · simp only; rw [List.getElem?_set_ne (by omega)]; exact rf t ht
      · intro _; simp only; rw [hbd]; simp [lv, hjn]
      · intro t h1 h2; omega
    · obtain ⟨prev, hp, hpl⟩ := rv (j - 1) (by omega)
      obtain ⟨⟨v', f'⟩, hf, lv', lf', ov, of, vr, fr, hvr, hfr, hvl, hfl, hcells⟩ :=
        for3_spec z m hS j b (by omega) v f prev r0 q0 hp hpl hr0 hrl hq0 hql
      simp only at lv' lf' ov of hvr hfr
      have hjb : (j == 0) = false := by simp [hj0]
      refine ⟨(v', f'), by simp [viterbi_matrices_for1, hf, hjb, hj0], by simp [lv', lv], by simp [lf', lf], ?_, ?_, ?_, ?_⟩
      · intro t ht
        by_cases htj : t = j
        · subst htj; exact ⟨vr, hvr, hvl⟩
        · simp only; rw [ov t htj]; exact rv t ht
      · intro t ht
        by_cases htj : t = j
        · subst htj; exact ⟨fr, hfr, hfl⟩
        · simp only; rw [of t htj]; exact rf t ht
      · intro _; simp only; rw [ov 0 (by omega)]; exact c0 (by omega)
      · intro t h1 h2
        simp only
        by_cases htj : t = j
        · subst htj
          rw [ov (t - 1) (by omega), hp, hvr, hfr, hbd]
          exact hcells
        · rw [ov (t - 1) (by omega), ov t htj, of t htj]
          exact good t h1 (by omega))
  simpa [Rs.enumerate] using this

/-! ### the end-term loop of `hmm::viterbi` -/

/-- `for s in hmm.states() { vals[[last, *s]] = vals[[last, *s]] + hmm.end_prob(s) }` -/
theorem endloop_eq (z : Nat) (m : Hmm) (last : Nat) (vals : List (List Nat)) (row : List Nat) (hr : vals[last]? = some row)
    (hl : row.length = m.S) :
    List.foldlM (viterbi_for1 (natOps z) (hmmOps m) last) vals (List.range m.S) = Res.ok (vals.set last (endCol m row)) := by
  obtain ⟨s', h1, h2, _⟩ := fill_row (fun s => s) (viterbi_for1 (natOps z) (hmmOps m) last)
    (fun s => ix row s * m.fin s) last m.S (fun _ _ => True) vals row hr hl trivial (by
      intro j s hj hf _
      obtain ⟨a', ha', hf'⟩ := hf.step hj
      have ha' : Rs.set2 s last j (ix row j * m.fin j) = Res.ok a' := ha'
      have hg : Rs.get2 s last j = Res.ok (ix row j) := by
        rw [hf.get_pending (Nat.le_refl _), get2_ok hr (by omega), ix_eq_getElem (by omega)]
      have ha'' : Rs.set2 s last j (m.fin j * ix row j) = Res.ok a' := by rw [Nat.mul_comm]; exact ha'
      exact ⟨a', by simp [viterbi_for1, hg, ha', ha''], hf', trivial⟩)
  rw [h1, h2]; rfl

/-! ### `viterbi_traceback` -/

theorem key1_eq (z : Nat) (m : Hmm) (x : Nat × Nat) : viterbi_traceback_key1 (natOps z) (hmmOps m) x = x.2 := by
  cases x; rfl

/-- `max_by_key` over the enumerated last column, in any order, selects a state with a maximal entry -/
theorem pickLast_spec (z : Nat) (m : Hmm) (row : List Nat) (hS : 0 < m.S) (hl : row.length = m.S) (lst : List (Nat × Nat))
    (hlst : ∀ x, x ∈ lst ↔ x ∈ Rs.enumerate row) :
    ∃ kL, kL < m.S ∧ Rs.maxByKey (natOps z).cmp (viterbi_traceback_key1 (natOps z) (hmmOps m)) lst = some (kL, ix row kL) ∧
      ∀ k, k < m.S → ix row k ≤ ix row kL := by
  have hne : lst ≠ [] := by
    intro h
    have : (0, row[0]'(by omega)) ∈ lst := (hlst _).mpr (mem_enumerate.mpr (by simp))
    rw [h] at this; cases this
  obtain ⟨⟨a, v⟩, hx, hmem, hub⟩ := maxBy_spec
    (fun x y : Nat × Nat => (natOps z).cmp (viterbi_traceback_key1 (natOps z) (hmmOps m) x) (viterbi_traceback_key1 (natOps z) (hmmOps m) y))
    (fun x : Nat × Nat => x.2) (by
      intro x y
      simp only [key1_eq, natOps_cmp]
      constructor
      · intro hgt; exact Nat.le_of_lt (Nat.compare_eq_gt.mp hgt)
      · intro hngt
        rcases hc : compare x.2 y.2 with _ | _ | _
        · exact Nat.le_of_lt (Nat.compare_eq_lt.mp hc)
        · exact Nat.le_of_eq (Nat.compare_eq_eq.mp hc)
        · exact absurd hc hngt) lst hne
  have hav := mem_enumerate.mp ((hlst _).mp hmem)
  have ha : a < m.S := by have := lt_of_getElem?_eq_some hav; omega
  have hv : v = ix row a := by simp [ix, List.getD, hav]
  subst hv
  refine ⟨a, ha, hx, ?_⟩
  intro k hk
  have hkm : (k, ix row k) ∈ lst := (hlst _).mpr (mem_enumerate.mpr (by
    rw [ix_eq_getElem (by omega)]; exact List.getElem?_eq_getElem (by omega)))
  exact hub _ hkm

/-- state of the traceback loop after `i ≥ 1` iterations: the path from time `n - i` on, its first state, the value -/
def TbInv (m : Hmm) (n : Nat) (lrow : List Nat) (mats : List (List Nat × List Nat)) (i : Nat) (s : List Nat × Nat × Nat) : Prop :=
  (i = 0 → s = ([], 0, 0)) ∧
  (0 < i → ∃ kL, kL < m.S ∧ (∀ k, k < m.S → ix lrow k ≤ ix lrow kL) ∧ s.2.2 = ix lrow kL ∧ s.2.1 < m.S ∧
    s.1.reverse = tbP kL (mats.drop (n - i)) ∧ s.2.1 = (tbP kL (mats.drop (n - i))).headD 0)

theorem traceback_spec_src (z : Nat) (m : Hmm) (hS : 0 < m.S) (vals from_ : List (List Nat)) (mats : List (List Nat × List Nat))
    (hn : 0 < vals.length) (hm : mats.length + 1 = vals.length) (lrow : List Nat) (hlr : vals[vals.length - 1]? = some lrow)
    (hll : lrow.length = m.S)
    (hfrom : ∀ t, t < mats.length → ∃ cf, mats[t]? = some cf ∧ from_[t + 1]? = some cf.2 ∧ cf.2.length = m.S ∧
      ∀ j, j < m.S → ix cf.2 j < m.S) :
    ∃ kL, kL < m.S ∧ (∀ k, k < m.S → ix lrow k ≤ ix lrow kL) ∧
      viterbi_traceback (natOps z) (hmmOps m) vals from_ = Res.ok (tbP kL mats, ix lrow kL) := by
  have := foldlM_enumFrom_inv (viterbi_traceback_for1 (natOps z) (hmmOps m) from_ vals.length)
    (TbInv m vals.length lrow mats) vals.reverse 0 ([], 0, 0) ⟨fun _ => rfl, fun h => absurd h (by omega)⟩ (by
    rintro i b ⟨result, curr, rp⟩ _ hb ⟨h0, hpos⟩
    simp only [Nat.sub_zero] at hb
    have hin : i < vals.length := by have := lt_of_getElem?_eq_some hb; simpa using this
    by_cases hi0 : i = 0
    · subst hi0
      have hs := h0 rfl
      simp only [Prod.mk.injEq] at hs
      obtain ⟨hr, hc, hp⟩ := hs
      subst hr hc hp
      have hbl : b = lrow := by
        rw [List.getElem?_reverse (by omega)] at hb
        simp only [Nat.sub_zero] at hb
        rw [hlr] at hb; exact (Option.some.inj hb).symm
      subst hbl
      have hfwd := pickLast_spec z m b hS hll (Rs.enumerate b) (fun _ => Iff.rfl)
      have hrev := pickLast_spec z m b hS hll (Rs.enumerate b).reverse (by intro x; simp)
      have hx : ∃ kL, kL < m.S ∧ (∀ k, k < m.S → ix b k ≤ ix b kL) ∧
          viterbi_traceback_for1 (natOps z) (hmmOps m) from_ vals.length ([], 0, 0) (0, b) = Res.ok ([kL], kL, ix b kL) := by
        first
          | (obtain ⟨kL, hk, hmx, hub⟩ := hfwd
             refine ⟨kL, hk, hub, ?_⟩
             simp [viterbi_traceback_for1, hmx]
             done)
          | (obtain ⟨kL, hk, hmx, hub⟩ := hrev
             refine ⟨kL, hk, hub, ?_⟩
             simp [viterbi_traceback_for1, hmx]
             done)
      obtain ⟨kL, hk, hub, hx⟩ := hx
      refine ⟨_, hx, fun h => absurd h (by omega), fun _ => ⟨kL, hk, hub, rfl, hk, ?_, ?_⟩⟩
      · have : mats.drop (vals.length - (0 + 1)) = [] := List.drop_eq_nil_of_le (by omega)
        simp [this, tbP]
      · have : mats.drop (vals.length - (0 + 1)) = [] := List.drop_eq_nil_of_le (by omega)
        simp [this, tbP]
    · obtain ⟨kL, hk, hub, hrp, hcur, hpath, hhead⟩ := hpos (by omega)
      simp only at hrp hcur hpath hhead
      have ht : vals.length - i - 1 < mats.length := by omega
      obtain ⟨cf, hcf, hfr, hcl, hptr⟩ := hfrom _ ht
      have e1 : Rs.sub vals.length i = Res.ok (vals.length - i) := sub_ok (by omega)
      have hfr' : from_[vals.length - i]? = some cf.2 := by
        have e : vals.length - i - 1 + 1 = vals.length - i := by omega
        rw [← e]; exact hfr
      have e2 : Rs.get2 from_ (vals.length - i) curr = Res.ok (ix cf.2 curr) := by
        rw [get2_ok hfr' (by omega), ix_eq_getElem (by omega)]
      have hib : (i == 0) = false := by simp [hi0]
      have hdrop : mats.drop (vals.length - (i + 1)) = cf :: mats.drop (vals.length - i) := by
        have e : vals.length - (i + 1) = vals.length - i - 1 := by omega
        rw [e, List.drop_eq_getElem_cons ht]
        have e' : vals.length - i - 1 + 1 = vals.length - i := by omega
        rw [e']
        congr 1
        rw [List.getElem?_eq_getElem ht] at hcf
        exact Option.some.inj hcf
      refine ⟨(result ++ [ix cf.2 curr], ix cf.2 curr, rp), by simp [viterbi_traceback_for1, hib, hi0, e1, e2],
        fun h => absurd h (by omega), fun _ => ⟨kL, hk, hub, hrp, hptr curr hcur, ?_, ?_⟩⟩
      · simp only [List.reverse_append, List.reverse_cons, List.reverse_nil, List.nil_append, List.singleton_append, hdrop, tbP,
          hpath, ← hhead]
      · simp only [hdrop, tbP, List.headD_cons, ← hhead])
  obtain ⟨⟨result, curr, rp⟩, hf, _, hpos⟩ := this
  simp only [Nat.zero_add, List.length_reverse] at hpos
  obtain ⟨kL, hk, hub, hrp, _, hpath, _⟩ := hpos hn
  simp only [Nat.sub_self, List.drop_zero] at hpath hrp
  refine ⟨kL, hk, hub, ?_⟩
  have hf' : List.foldlM (viterbi_traceback_for1 (natOps z) (hmmOps m) from_ vals.length) ([], 0, 0) (Rs.enumerate vals.reverse)
      = Res.ok (result, curr, rp) := by simpa [Rs.enumerate] using hf
  simp [viterbi_traceback, hf', hpath, hrp]

/-! ### `viterbi` -/

theorem zeros_inv (z : Nat) (m : Hmm) (obs : List Nat) :
    VMInv m obs 0 (Rs.zeros2 z obs.length m.S, Rs.zeros2 0 obs.length m.S) :=
  ⟨zeros2_length _ _ _, zeros2_length _ _ _, fun t ht => ⟨_, zeros2_getElem? z _ _ t ht, by simp⟩,
    fun t ht => ⟨_, zeros2_getElem? 0 _ _ t ht, by simp⟩, fun h => absurd h (by omega), fun t _ h => absurd h (by omega)⟩

/-- **`hmm::viterbi` as written in the source is optimal**, at exact weights, for every well-formed model with at least one
state and every non-empty observation sequence: no panic, the returned path is a state path, its joint weight is the
returned value, and no state path has a larger joint weight (whatever the tie-breaks) -/
theorem viterbi_optimal (z : Nat) (m : Hmm) (hS : 0 < m.S) (hwf : m.WF) (obs : List Nat) (h : obs ≠ []) :
    ∃ π v, Gen.SrcHmmViterbi.viterbi (natOps z) (hmmOps m) obs = Res.ok (π, v) ∧ π ∈ paths m.S obs.length ∧
      joint m obs π = v ∧ ∀ ρ ∈ paths m.S obs.length, joint m obs ρ ≤ v := by
  obtain ⟨⟨v, f⟩, hmat, lv, lf, rv, rf, c0, good⟩ := for1_spec z m hS obs _ (zeros_inv z m obs)
  simp only at lv lf rv rf c0 good
  have hmat' : viterbi_matrices (natOps z) (hmmOps m) obs = Res.ok (v, f) := by
    simp [viterbi_matrices, hmat]
  cases obs with
  | nil => exact absurd rfl h
  | cons o0 os =>
    cases v with
    | nil => simp at lv
    | cons col vs =>
      cases f with
      | nil => simp at lf
      | cons f0 fs =>
        simp only [List.length_cons, Nat.add_right_cancel_iff] at lv lf
        have hcol : col = col0 m o0 := by simpa using c0 (by simp)
        subst hcol
        -- the matrices are good
        have hgood : GoodMats m (col0 m o0) os (vs.zip fs) := by
          apply goodMats_of_index m os vs fs _ lv lf
          intro t ht
          have := good (t + 1) (by omega) (by simp; omega)
          simpa using this
        have hlc : lastCol (col0 m o0) (vs.zip fs) = ((col0 m o0) :: vs)[vs.length]?.getD [] := lastCol_zip vs fs _ (by omega)
        obtain ⟨lrow, hlrow, hlrl⟩ := rv os.length (by simp)
        have hlrow' : (col0 m o0 :: vs)[(col0 m o0 :: vs).length - 1]? = some lrow := by
          simpa [lv] using hlrow
        have hlc' : lastCol (col0 m o0) (vs.zip fs) = lrow := by rw [hlc, lv, hlrow]; rfl
        have hfrom : ∀ t, t < (vs.zip fs).length → ∃ cf, (vs.zip fs)[t]? = some cf ∧ (f0 :: fs)[t + 1]? = some cf.2 ∧
            cf.2.length = m.S ∧ ∀ j, j < m.S → ix cf.2 j < m.S := by
          intro t ht
          have ht' : t < os.length := by simp [List.length_zip, lv, lf] at ht; exact ht
          have hvt : t < vs.length := by omega
          have hft : t < fs.length := by omega
          obtain ⟨fr, hfr, hfl⟩ := rf (t + 1) (by simp; omega)
          have hfr' : fs[t]? = some fr := by simpa using hfr
          have hg := good (t + 1) (by omega) (by simp; omega)
          have hft' : fs[t] = fr := by rw [List.getElem?_eq_getElem hft] at hfr'; exact Option.some.inj hfr'
          refine ⟨(vs[t], fs[t]), by simp [List.getElem?_zip_eq_some, hvt, hft], ?_, ?_, ?_⟩
          · simp [hft]
          · simp [hft', hfl]
          · intro j hj
            have := (hg j hj).1
            simp only [hft']
            simpa [hfr'] using this
        -- the end-term loop and the traceback, with or without `has_end_state()`
        by_cases he : m.hasEnd = true
        · have hcs : Rs.checkedSub (os.length + 1) 1 = some os.length := by simp [Rs.checkedSub]
          have hend := endloop_eq z m os.length (col0 m o0 :: vs) lrow hlrow hlrl
          have hlen' : ((col0 m o0 :: vs).set os.length (endCol m lrow)).length = (col0 m o0 :: vs).length := by simp
          obtain ⟨kL, hk, hub, htb⟩ := traceback_spec_src z m hS ((col0 m o0 :: vs).set os.length (endCol m lrow)) (f0 :: fs)
            (vs.zip fs) (by simp) (by simp [List.length_zip, lv, lf]) (endCol m lrow)
            (by rw [hlen']; simp [lv]) (by simp [endCol, tab]) hfrom
          have hub' : ∀ k, k < m.S → ix (lastCol (col0 m o0) (vs.zip fs)) k * m.fin k
              ≤ ix (lastCol (col0 m o0) (vs.zip fs)) kL * m.fin kL := by
            intro k hk'
            have := hub k hk'
            simpa [hlc', endCol, ix_tab _ hk', ix_tab _ hk] using this
          obtain ⟨k0, π, hp, hk0, hπ, hval, hmx⟩ := tbK_spec m m.fin (fun _ _ => rfl) hgood kL hk hub'
          rw [tbK_path] at hp
          rw [tbK_val, hlc'] at hval hmx
          refine ⟨tbP kL (vs.zip fs), ix (endCol m lrow) kL,
            by simp [Gen.SrcHmmViterbi.viterbi, hmat', he, hcs, hend, htb], ?_, ?_, ?_⟩
          · rw [hp]; exact cons_mem_paths hk0 hπ
          · rw [hp]
            simp only [joint, endCol, ix_tab _ hk, ← hval, col0, ix_tab _ hk0]
          · intro ρ hρ
            obtain ⟨k, ρ', rfl, hk', hρ'⟩ := mem_paths_succ hρ
            have := hmx k hk' ρ' hρ'
            simpa only [joint, col0, ix_tab _ hk', endCol, ix_tab _ hk] using this
        · have he' : m.hasEnd = false := by simpa using he
          have hfin : ∀ k, k < m.S → (1 : Nat) = m.fin k := fun k hk => (hwf he' k hk).symm
          obtain ⟨kL, hk, hub, htb⟩ := traceback_spec_src z m hS (col0 m o0 :: vs) (f0 :: fs)
            (vs.zip fs) (by simp) (by simp [List.length_zip, lv, lf]) lrow hlrow' hlrl hfrom
          have hub' : ∀ k, k < m.S → ix (lastCol (col0 m o0) (vs.zip fs)) k * (fun _ => 1) k
              ≤ ix (lastCol (col0 m o0) (vs.zip fs)) kL * (fun _ => 1) kL := by
            intro k hk'
            simpa [hlc'] using hub k hk'
          obtain ⟨k0, π, hp, hk0, hπ, hval, hmx⟩ := tbK_spec m (fun _ => 1) hfin hgood kL hk hub'
          rw [tbK_path] at hp
          rw [tbK_val, hlc'] at hval hmx
          simp only [Nat.mul_one] at hval hmx
          refine ⟨tbP kL (vs.zip fs), ix lrow kL, by simp [Gen.SrcHmmViterbi.viterbi, hmat', he', htb], ?_, ?_, ?_⟩
          · rw [hp]; exact cons_mem_paths hk0 hπ
          · rw [hp]
            simp only [joint, ← hval, col0, ix_tab _ hk0]
          · intro ρ hρ
            obtain ⟨k, ρ', rfl, hk', hρ'⟩ := mem_paths_succ hρ
            have := hmx k hk' ρ' hρ'
            simpa only [joint, col0, ix_tab _ hk'] using this

/-- … hence the returned value is the value of the mirror model `Hmm.viterbi` (= the maximum over all state paths), and the
returned path attains it -/
theorem viterbi_eq_model (z : Nat) (m : Hmm) (hS : 0 < m.S) (hwf : m.WF) (obs : List Nat) (h : obs ≠ []) :
    ∃ π, Gen.SrcHmmViterbi.viterbi (natOps z) (hmmOps m) obs = Res.ok (π, (Hmm.viterbi m obs).2) ∧
      π ∈ paths m.S obs.length ∧ joint m obs π = (Hmm.viterbi m obs).2 := by
  obtain ⟨π, v, hv, hp, hj, hub⟩ := viterbi_optimal z m hS hwf obs h
  obtain ⟨hp', hj', hub'⟩ := viterbi_spec m hS hwf obs h
  have h1 := hub' π hp
  have h2 := hub _ hp'
  have : v = (Hmm.viterbi m obs).2 := by omega
  subst this
  exact ⟨π, hv, hp, hj⟩

end RbV.Thm.GenSrcHmmViterbi
