import RbV.Gen.SrcPwTypes
import RbV.Thm.GenTbCodes
/-!
# Translated text of the small pieces of `pairwise/mod.rs` = their mirror models (builder genalign; C01, C02)

`RbV/Gen/SrcPwTypes.lean` is regenerated from the source text on every `./check C01` (tools/rs2lean_genalign.py) and this
module is re-checked.

* `TracebackCell::{new, set_bits, set_i_bits, set_d_bits, set_s_bits, get_bits, get_*_bits, set_all}` against
  `Model/TbCell.lean` — so `tb_get_after_set`, `tb_set_preserves_other_fields`, `tb_set_all` (`Thm/GenTbCodes.lean`) hold for
  the translated text: `cell_get_after_set`, `cell_set_other`, `cell_set_all_reads`.
* `Traceback::{with_capacity, init, resize, set, get, get_mut}`: a row-major vector of `(m+1)·(n+1)` cells, index
  `i * cols + j`; `init` does not depend on what the matrix held before (`tbInit_eq_model`: the right-hand side does not
  mention the old state).
* `Scoring::{xclip, xclip_prefix, xclip_suffix, yclip, yclip_prefix, yclip_suffix}`.

The proofs unfold the generated definitions and discharge every checked operation from the stated guards; they name the
facts in both operand orders where the text may commute them.  Core Lean only.
-/
set_option linter.unusedSimpArgs false
namespace RbV.Thm.GenSrcPwTypes
open RbV RbV.Rs RbV.Gen.TbCodes RbV.Gen.SrcPwTypes

/-! ### bit-level facts, by evaluation over the finitely many field positions and 4-bit values -/

theorem shl_mask_small : ∀ pos, pos < 13 → (15 <<< pos) % 2 ^ 16 = fieldMask <<< pos := by decide
theorem shl_val_small : ∀ pos, pos < 13 → ∀ value, value < 16 → (value <<< pos) % 2 ^ 16 = value <<< pos := by decide
theorem not_mask_small : ∀ pos, pos < 13 →
    Rs.not 16 (fieldMask <<< pos) = (2 ^ cellBits - 1) ^^^ (fieldMask <<< pos) := by decide
theorem pos_small : iPos < 13 ∧ dPos < 13 ∧ sPos < 13 := by decide
theorem mask_lit : (15 : Nat) = fieldMask := by decide

/-! ### `TracebackCell` -/

/-- `TracebackCell::new()` is the all-zero cell (`Default::default()` of the pinned declaration) -/
theorem cellNew_eq_model : cellNew = Res.ok ⟨0⟩ := rfl

/-- `set_bits` = `TbCell.setBits` for every cell content, every position `≤ 12` and every value that passes the
`assert!(value <= TB_MAX)` -/
theorem setBits_eq_model (c : TracebackCell) (pos value : Nat) (hp : pos < 13) (hv : value ≤ tbMax) :
    setBits c pos value = Res.ok ⟨TbCell.setBits c.v pos value⟩ := by
  have h16 : pos < 16 := by omega
  have hv16 : value < 16 := GenTbCodes.le_max_lt16 hv
  unfold setBits
  simp only [Rs.shl, h16, if_true, Rs.assert, hv, decide_true, Res.pure_eq_ok, Res.ok_bind, bind, Res.bind]
  simp only [shl_mask_small pos hp, shl_val_small pos hp value hv16, not_mask_small pos hp, TbCell.setBits]
  all_goals (first | rfl | (rw [Nat.or_comm]))

/-- `set_bits` with a value above `TB_MAX` panics (the `assert!`) -/
theorem setBits_big_panics (c : TracebackCell) (pos value : Nat) (hp : pos < 16) (hv : tbMax < value) :
    setBits c pos value = Res.panic := by
  have : ¬ value ≤ tbMax := by omega
  unfold setBits
  simp [Rs.shl, hp, Rs.assert, this, bind, Res.bind]

theorem setIBits_eq_model (c : TracebackCell) (value : Nat) (hv : value ≤ tbMax) :
    setIBits c value = Res.ok ⟨TbCell.setBits c.v iPos value⟩ := by
  unfold setIBits; rw [setBits_eq_model c iPos value pos_small.1 hv]; try rfl

theorem setDBits_eq_model (c : TracebackCell) (value : Nat) (hv : value ≤ tbMax) :
    setDBits c value = Res.ok ⟨TbCell.setBits c.v dPos value⟩ := by
  unfold setDBits; rw [setBits_eq_model c dPos value pos_small.2.1 hv]; try rfl

theorem setSBits_eq_model (c : TracebackCell) (value : Nat) (hv : value ≤ tbMax) :
    setSBits c value = Res.ok ⟨TbCell.setBits c.v sPos value⟩ := by
  unfold setSBits; rw [setBits_eq_model c sPos value pos_small.2.2 hv]; try rfl

/-- `get_bits` = `TbCell.getBits` for every cell content and every position inside the cell -/
theorem getBits_eq_model (c : TracebackCell) (pos : Nat) (hp : pos < 16) :
    getBits c pos = Res.ok (TbCell.getBits c.v pos) := by
  unfold getBits
  simp only [Rs.shr, hp, if_true, Res.pure_eq_ok, Res.ok_bind, bind, Res.bind, TbCell.getBits, mask_lit]

theorem getIBits_eq_model (c : TracebackCell) : getIBits c = Res.ok (TbCell.getBits c.v iPos) := by
  unfold getIBits; rw [getBits_eq_model c iPos (by have := pos_small.1; omega)]; try rfl

theorem getDBits_eq_model (c : TracebackCell) : getDBits c = Res.ok (TbCell.getBits c.v dPos) := by
  unfold getDBits; rw [getBits_eq_model c dPos (by have := pos_small.2.1; omega)]; try rfl

theorem getSBits_eq_model (c : TracebackCell) : getSBits c = Res.ok (TbCell.getBits c.v sPos) := by
  unfold getSBits; rw [getBits_eq_model c sPos (by have := pos_small.2.2; omega)]; try rfl

/-- `set_all` = `TbCell.setAll` -/
theorem setAll_eq_model (c : TracebackCell) (value : Nat) (hv : value ≤ tbMax) :
    setAll c value = Res.ok ⟨TbCell.setAll c.v value⟩ := by
  unfold setAll
  rw [setIBits_eq_model c value hv]
  simp only [Res.pure_eq_ok, Res.ok_bind, bind, Res.bind]
  rw [setDBits_eq_model _ value hv]
  simp only [Res.pure_eq_ok, Res.ok_bind, bind, Res.bind]
  rw [setSBits_eq_model _ value hv]
  rfl

/-- the start cell written by `Traceback::init` and by the initialisation of `custom` -/
def startCell : TracebackCell := ⟨TbCell.setAll 0 tbStart⟩

theorem tbStart_le_max : tbStart ≤ tbMax := GenTbCodes.tb_codes_le_max.1 tbStart (by decide)

/-! ### `tb_get_after_set` & co. for the translated text -/

/-- the translated setters and getters: what one of `set_i_bits / set_d_bits / set_s_bits` wrote is what the getter of
the same field reads -/
theorem cell_get_after_set (c c' : TracebackCell) (value : Nat) (hv : value ≤ tbMax) :
    (setIBits c value = Res.ok c' → getIBits c' = Res.ok value) ∧
    (setDBits c value = Res.ok c' → getDBits c' = Res.ok value) ∧
    (setSBits c value = Res.ok c' → getSBits c' = Res.ok value) := by
  refine ⟨fun h => ?_, fun h => ?_, fun h => ?_⟩
  · rw [setIBits_eq_model c value hv] at h; cases h
    rw [getIBits_eq_model, GenTbCodes.tb_get_after_set _ _ _ hv (by decide)]
  · rw [setDBits_eq_model c value hv] at h; cases h
    rw [getDBits_eq_model, GenTbCodes.tb_get_after_set _ _ _ hv (by decide)]
  · rw [setSBits_eq_model c value hv] at h; cases h
    rw [getSBits_eq_model, GenTbCodes.tb_get_after_set _ _ _ hv (by decide)]

/-- … and the setter of one field leaves what the getters of the other two read -/
theorem cell_set_other (c c' : TracebackCell) (value : Nat) (hv : value ≤ tbMax) :
    (setIBits c value = Res.ok c' → getDBits c' = getDBits c ∧ getSBits c' = getSBits c) ∧
    (setDBits c value = Res.ok c' → getIBits c' = getIBits c ∧ getSBits c' = getSBits c) ∧
    (setSBits c value = Res.ok c' → getIBits c' = getIBits c ∧ getDBits c' = getDBits c) := by
  have hi : iPos ∈ positions := by decide
  have hd : dPos ∈ positions := by decide
  have hs : sPos ∈ positions := by decide
  refine ⟨fun h => ?_, fun h => ?_, fun h => ?_⟩
  · rw [setIBits_eq_model c value hv] at h; cases h
    simp only [getDBits_eq_model, getSBits_eq_model]
    rw [GenTbCodes.tb_set_preserves_other_fields _ _ _ _ hv hi hd (by decide),
      GenTbCodes.tb_set_preserves_other_fields _ _ _ _ hv hi hs (by decide)]
    exact ⟨rfl, rfl⟩
  · rw [setDBits_eq_model c value hv] at h; cases h
    simp only [getIBits_eq_model, getSBits_eq_model]
    rw [GenTbCodes.tb_set_preserves_other_fields _ _ _ _ hv hd hi (by decide),
      GenTbCodes.tb_set_preserves_other_fields _ _ _ _ hv hd hs (by decide)]
    exact ⟨rfl, rfl⟩
  · rw [setSBits_eq_model c value hv] at h; cases h
    simp only [getIBits_eq_model, getDBits_eq_model]
    rw [GenTbCodes.tb_set_preserves_other_fields _ _ _ _ hv hs hi (by decide),
      GenTbCodes.tb_set_preserves_other_fields _ _ _ _ hv hs hd (by decide)]
    exact ⟨rfl, rfl⟩

/-- `set_all(value)` makes the three translated getters read `value` -/
theorem cell_set_all_reads (c c' : TracebackCell) (value : Nat) (hv : value ≤ tbMax) (h : setAll c value = Res.ok c') :
    getIBits c' = Res.ok value ∧ getDBits c' = Res.ok value ∧ getSBits c' = Res.ok value := by
  rw [setAll_eq_model c value hv] at h; cases h
  have := GenTbCodes.tb_set_all c.v value hv
  simp only [getIBits_eq_model, getDBits_eq_model, getSBits_eq_model, this.1, this.2.1, this.2.2, and_self]

/-! ### `Traceback` -/

/-- `Traceback::with_capacity(m, n)`: dimensions `(m+1, n+1)`, no cells yet -/
theorem tbWithCapacity_eq_model (m n : Nat) (h : (m + 1) * (n + 1) < 2 ^ 64) :
    tbWithCapacity m n = Res.ok ⟨m + 1, n + 1, []⟩ := by
  have h1 : m + 1 < 2 ^ 64 := Nat.lt_of_le_of_lt (Nat.le_mul_of_pos_right _ (by omega)) h
  have h2 : n + 1 < 2 ^ 64 := Nat.lt_of_le_of_lt (Nat.le_mul_of_pos_left _ (by omega)) h
  unfold tbWithCapacity
  simp only [Rs.add, Rs.mul, h1, h2, h, if_true, Res.pure_eq_ok, Res.ok_bind, bind, Res.bind]

/-- `resize(m, n, v)`: dimensions `(m+1, n+1)`; the vector is cut or padded with `v` to `(m+1)·(n+1)` cells -/
theorem tbResize_eq_model (t : Traceback) (m n : Nat) (v : TracebackCell) (h : (m + 1) * (n + 1) < 2 ^ 64) :
    tbResize t m n v = Res.ok ⟨m + 1, n + 1, Rs.resize t.matrix ((m + 1) * (n + 1)) v⟩ := by
  have h1 : m + 1 < 2 ^ 64 := Nat.lt_of_le_of_lt (Nat.le_mul_of_pos_right _ (by omega)) h
  have h2 : n + 1 < 2 ^ 64 := Nat.lt_of_le_of_lt (Nat.le_mul_of_pos_left _ (by omega)) h
  unfold tbResize
  simp only [Rs.add, Rs.mul, h1, h2, h, if_true, Res.pure_eq_ok, Res.ok_bind, bind, Res.bind]

/-- **`init(m, n)` re-dimensions and blanks the matrix on every call**: `(m+1)·(n+1)` start cells, stride `n+1` —
whatever the matrix held before (the right-hand side does not mention `t`: history independence of the traceback
matrix; seeded C01-5 breaks exactly this) -/
theorem tbInit_eq_model (t : Traceback) (m n : Nat) (h : (m + 1) * (n + 1) < 2 ^ 64) :
    tbInit t m n = Res.ok ⟨m + 1, n + 1, List.replicate ((m + 1) * (n + 1)) startCell⟩ := by
  unfold tbInit
  rw [cellNew_eq_model]
  simp only [Res.pure_eq_ok, Res.ok_bind, bind, Res.bind]
  rw [setAll_eq_model _ _ tbStart_le_max]
  simp only [Res.pure_eq_ok, Res.ok_bind, bind, Res.bind]
  rw [tbResize_eq_model _ m n _ h]
  simp [Rs.resize, startCell]

/-- the matrix is row-major with stride `cols`: shape invariant of a `Traceback` -/
def Shaped (t : Traceback) : Prop := t.matrix.length = t.rows * t.cols ∧ t.rows * t.cols < 2 ^ 64

theorem shaped_idx {t : Traceback} (hs : Shaped t) {i j : Nat} (hi : i < t.rows) (hj : j < t.cols) :
    i * t.cols + j < t.matrix.length ∧ i * t.cols < 2 ^ 64 ∧ i * t.cols + j < 2 ^ 64 := by
  have h1 : i * t.cols + j < t.rows * t.cols := by
    calc i * t.cols + j < i * t.cols + t.cols := by omega
      _ = (i + 1) * t.cols := by rw [Nat.add_mul, Nat.one_mul]
      _ ≤ t.rows * t.cols := Nat.mul_le_mul_right _ hi
  have := hs.1; have := hs.2
  refine ⟨by omega, by omega, by omega⟩

/-- `get(i, j)` reads entry `i * cols + j` -/
theorem tbGet_eq_model (t : Traceback) (i j : Nat) (hs : Shaped t) (hi : i < t.rows) (hj : j < t.cols) :
    tbGet t i j = Rs.idx t.matrix (i * t.cols + j) := by
  obtain ⟨_, h2, h3⟩ := shaped_idx hs hi hj
  have h3' : j + i * t.cols < 2 ^ 64 := by omega
  have h2' : t.cols * i < 2 ^ 64 := by rw [Nat.mul_comm]; exact h2
  unfold tbGet
  simp only [Rs.assert, hi, hj, decide_true, if_true, Rs.add, Rs.mul, h2, h3, h2', h3', Nat.add_comm j (i * t.cols), Nat.mul_comm t.cols i, Res.pure_eq_ok, Res.ok_bind, bind, Res.bind]
  try (cases Rs.idx t.matrix (i * t.cols + j) <;> rfl)

theorem tbGetMut_eq_model (t : Traceback) (i j : Nat) (hs : Shaped t) (hi : i < t.rows) (hj : j < t.cols) :
    tbGetMut t i j = Rs.idx t.matrix (i * t.cols + j) := by
  obtain ⟨_, h2, h3⟩ := shaped_idx hs hi hj
  have h3' : j + i * t.cols < 2 ^ 64 := by omega
  have h2' : t.cols * i < 2 ^ 64 := by rw [Nat.mul_comm]; exact h2
  unfold tbGetMut
  simp only [Rs.assert, hi, hj, decide_true, if_true, Rs.add, Rs.mul, h2, h3, h2', h3', Nat.add_comm j (i * t.cols), Nat.mul_comm t.cols i, Res.pure_eq_ok, Res.ok_bind, bind, Res.bind]
  try (cases Rs.idx t.matrix (i * t.cols + j) <;> rfl)

/-- `set(i, j, v)` overwrites entry `i * cols + j` and nothing else -/
theorem tbSet_eq_model (t : Traceback) (i j : Nat) (v : TracebackCell) (hs : Shaped t) (hi : i < t.rows) (hj : j < t.cols) :
    tbSet t i j v = Res.ok { t with matrix := t.matrix.set (i * t.cols + j) v } := by
  obtain ⟨h1, h2, h3⟩ := shaped_idx hs hi hj
  have h3' : j + i * t.cols < 2 ^ 64 := by omega
  have h2' : t.cols * i < 2 ^ 64 := by rw [Nat.mul_comm]; exact h2
  unfold tbSet
  simp only [Rs.assert, hi, hj, decide_true, if_true, Rs.add, Rs.mul, h2, h3, h2', h3', Nat.add_comm j (i * t.cols), Nat.mul_comm t.cols i, Rs.setIdx, h1, Res.pure_eq_ok, Res.ok_bind, bind,
    Res.bind]

/-- writing through `get_mut(i, j)` is `set(i, j, ·)` -/
theorem tbGetMut_put_eq_model (t : Traceback) (i j : Nat) (v : TracebackCell) (hs : Shaped t) (hi : i < t.rows)
    (hj : j < t.cols) : tbGetMut_put t i j v = Res.ok { t with matrix := t.matrix.set (i * t.cols + j) v } := by
  obtain ⟨h1, h2, h3⟩ := shaped_idx hs hi hj
  have h3' : j + i * t.cols < 2 ^ 64 := by omega
  have h2' : t.cols * i < 2 ^ 64 := by rw [Nat.mul_comm]; exact h2
  unfold tbGetMut_put
  simp only [Rs.assert, hi, hj, decide_true, if_true, Rs.add, Rs.mul, h2, h3, h2', h3', Nat.add_comm j (i * t.cols), Nat.mul_comm t.cols i, Rs.setIdx, h1, Res.pure_eq_ok, Res.ok_bind, bind,
    Res.bind]

/-- a row or column index outside the dimensions is refused (the `debug_assert!`s, read as `assert!`) -/
theorem tbGet_oob_panics (t : Traceback) (i j : Nat) (h : t.rows ≤ i ∨ t.cols ≤ j) : tbGet t i j = Res.panic := by
  unfold tbGet
  rcases h with h | h
  · have : ¬ i < t.rows := by omega
    simp [Rs.assert, this, bind, Res.bind]
  · have : ¬ j < t.cols := by omega
    by_cases hi : i < t.rows <;> simp [Rs.assert, this, hi, bind, Res.bind]

theorem shaped_init (m n : Nat) (h : (m + 1) * (n + 1) < 2 ^ 64) :
    Shaped ⟨m + 1, n + 1, List.replicate ((m + 1) * (n + 1)) startCell⟩ := by
  unfold Shaped; simp [h]

theorem shaped_set {t : Traceback} (hs : Shaped t) (k : Nat) (v : TracebackCell) :
    Shaped { t with matrix := t.matrix.set k v } := by
  unfold Shaped at *; simpa using hs

/-! ### `Scoring` builders -/

/-- the six builder methods: the penalty must be `≤ 0` (otherwise the `assert!` panics); exactly the named clip fields are
overwritten, everything else (gap penalties, `match_scores`) is kept -/
theorem scoring_builders_eq_model (s : Scoring) (p : Int) :
    xclip s p = (if p ≤ 0 then Res.ok { s with xclip_prefix := p, xclip_suffix := p } else Res.panic) ∧
    xclip_prefix s p = (if p ≤ 0 then Res.ok { s with xclip_prefix := p } else Res.panic) ∧
    xclip_suffix s p = (if p ≤ 0 then Res.ok { s with xclip_suffix := p } else Res.panic) ∧
    yclip s p = (if p ≤ 0 then Res.ok { s with yclip_prefix := p, yclip_suffix := p } else Res.panic) ∧
    yclip_prefix s p = (if p ≤ 0 then Res.ok { s with yclip_prefix := p } else Res.panic) ∧
    yclip_suffix s p = (if p ≤ 0 then Res.ok { s with yclip_suffix := p } else Res.panic) := by
  unfold xclip Gen.SrcPwTypes.xclip_prefix Gen.SrcPwTypes.xclip_suffix yclip Gen.SrcPwTypes.yclip_prefix Gen.SrcPwTypes.yclip_suffix
  by_cases h : p ≤ 0 <;> simp [Rs.assert, h, bind, Res.bind]

end RbV.Thm.GenSrcPwTypes
