import RbV.Gen.SrcOrfNew
import RbV.Thm.GenSrcOrf
/-! `Finder::new`, `State::new`, `Finder::find_all` as written (`RbV/Gen/SrcOrfNew.lean`, regenerated from
`src/seq_analysis/orf.rs` on every `./check C20`): the constructor chain in front of the translated `Matches::next`
(`RbV/Gen/SrcOrf.lean`).  Builder genleft. -/
namespace RbV.Thm.GenSrcOrfNew
open RbV RbV.Rs RbV.Gen.SrcOrfNew

theorem enumFromL_eq (n : Nat) (l : List Nat) : Rs.enumFromL n l = GenSrcOrf.enumFrom n l := by
  induction l generalizing n with
  | nil => rfl
  | cons a l ih => simp [Rs.enumFromL, GenSrcOrf.enumFrom, ih]

/-- `Finder::new` stores the codons (each `[u8; 3]` copied into a `VecDeque`, i.e. the same symbols) and `min_len` -/
theorem finderNew_eq (starts stops : List (List Nat)) (minLen : Nat) :
    finderNew starts stops minLen = { start_codons := starts, stop_codons := stops, min_len := minLen } := by
  simp [finderNew]

/-- `State::new`: three empty start-position lists, empty codon window, nothing found -/
theorem stateNew_eq : stateNew = { start_pos := [[], [], []], codon := [], found := [] } := by
  simp [stateNew]

/-- `find_all` starts the iterator in the initial state over the enumerated sequence -/
theorem findAll_eq (F : Finder) (seq : List Nat) :
    findAll F seq = { finder := F, state := { start_pos := [[], [], []], codon := [], found := [] },
                      seq := GenSrcOrf.enumFrom 0 seq } := by
  simp [findAll, stateNew, Rs.enumFrom0, enumFromL_eq]

/-- what a consumer of `Finder::new(starts, stops, min_len).find_all(seq)` sees: the translated constructors, then the
translated `next` (with the length test `T`) called until `None` -/
def findAllSrc (T : Nat → Nat → Nat → Res Bool) (starts stops : List (List Nat)) (minLen fuel : Nat) (seq : List Nat) :
    Res (List (Nat × Nat × Nat)) :=
  let M := findAll (finderNew starts stops minLen) seq
  GenSrcOrf.collect T M.finder.start_codons M.finder.stop_codons M.finder.min_len fuel
    M.state.start_pos M.state.codon M.state.found M.seq

theorem findAllSrc_eq (T : Nat → Nat → Nat → Res Bool) (starts stops : List (List Nat)) (minLen fuel : Nat) (seq : List Nat) :
    findAllSrc T starts stops minLen fuel seq
      = GenSrcOrf.collect T starts stops minLen fuel [[], [], []] [] [] (GenSrcOrf.enumFrom 0 seq) := by
  simp only [findAllSrc, findAll_eq, finderNew_eq]

end RbV.Thm.GenSrcOrfNew
