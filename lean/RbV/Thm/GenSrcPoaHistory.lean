import RbV.Thm.GenSrcPoaScore
import RbV.Thm.GenSrcPoaAdd
import RbV.Lemmas.PoaGrowAll
/-!
# Histories of translated alignments and additions: the graph stays a growing DAG

`getP` = `Traceback::get` as a total function on the matrix; `get_partial`: whenever the translated `get` returns, it returns
`getP`.  `opsOK_of_oinv` / `colsOK_of_oinv`: the operation table of a matrix with `OInv` is local (`Model.OpsOK`) and
column-monotone (`Model.ColsOK`) — for whatever the `max`es kept.  `alignment_partial`: whenever the translated
`Traceback::alignment` returns, its operation list is `Model.traceF` over that table (its `j -= 1` / `i -= 1` would panic
exactly where `traceF` truncates; the statement is about runs that return).  `step_dag`: one translated
`custom` → `alignment` → `add_alignment`.
-/
set_option linter.unusedSimpArgs false
set_option linter.unusedVariables false
set_option linter.unnecessarySimpa false
namespace RbV.Thm.GenSrcPoaHistory
open RbV RbV.NW RbV.Rs RbV.Rs.Res RbV.Poa RbV.Poa.Model RbV.Gen.SrcPoaAlign RbV.Thm.GenSrcPoaAlign RbV.Thm.GenSrcPoaScore

/-- `Traceback::get` on the matrix, totalised (a missing row reads like an empty one) -/
def getP (M : List Row) (i j : Nat) : Cell :=
  let r := (M[i]?).getD ([], 0, 0)
  if (!(decide (r.2.1 > j) || decide (r.2.2 ≤ j) || r.1.isEmpty)) = true then r.1.getD (j - r.2.1) mcell
  else if j = 0 then ⟨minScore, .d none⟩
  else if j ≥ r.2.2 then ⟨minScore, .i none⟩
  else mcell

def opAtS (M : List Row) (i j : Nat) : POp := (getP M i j).op

theorem get_partial (tb : Rs.Poa.Traceback) (i j : Nat) (c : Cell) (h : Traceback_get tb i j = ok c) : c = getP tb.matrix i j := by
  unfold Traceback_get at h
  cases hM : tb.matrix[i]? with
  | none =>
    have : Rs.idx tb.matrix i = panic := by unfold Rs.idx; rw [hM]
    rw [this] at h; cases h
  | some r =>
    obtain ⟨cs, s, e⟩ := r
    simp only [Rs.idx_of_getElem? hM, Res.ok_bind] at h
    unfold getP
    simp only [hM, Option.getD_some, minScore_eq]
    by_cases hc : (!(decide (s > j) || decide (e ≤ j) || cs.isEmpty)) = true
    · rw [if_pos hc] at h ⊢
      have hsj : s ≤ j := by
        simp only [Bool.not_eq_true', Bool.or_eq_false_iff, decide_eq_false_iff_not] at hc
        omega
      simp only [Rs.sub_ok hsj, Res.ok_bind, Res.pure_eq_ok, Res.bind_eq_ok] at h
      obtain ⟨x, hx, hxc⟩ := h
      simp only [Res.ok.injEq] at hxc
      subst hxc
      have := Rs.idx_eq_ok_iff.mp hx
      simp [List.getD, this]
    · rw [if_neg hc] at h ⊢
      simp only [Res.pure_eq_ok, Res.ok_bind, Res.ok.injEq] at h
      rw [← h]
      by_cases hj : j = 0
      · simp [hj, minScore_eq]
      · by_cases hje : j ≥ e
        · simp [hj, hje, minScore_eq]
        · simp [hj, hje, mcell, minScore_eq]

theorem opsOK_of_oinv (es : WEdges) (L : Nat) (M : List Row) (h : OInv es L M) : OpsOK es L (opAtS M) := by
  refine ⟨?_, ?_⟩
  · intro j
    obtain ⟨cs, e, h1, h2, h3, h4⟩ := h.r0
    unfold opAtS getP
    simp only [h1, Option.getD_some]
    by_cases hje : j < e
    · have hne : cs ≠ [] := by intro hh; subst hh; simp at h3; omega
      have hc : (!(decide (0 > j) || decide (e ≤ j) || cs.isEmpty)) = true := by
        cases cs with
        | nil => exact absurd rfl hne
        | cons a l => simp; omega
      rw [if_pos hc]
      have hjl : j < cs.length := by omega
      have := h4 j cs[j] (List.getElem?_eq_getElem hjl)
      simp only [Nat.sub_zero, List.getD, List.getElem?_eq_getElem hjl, Option.getD_some]
      rcases this with ⟨h5, _⟩ | h5 | h5
      · exact Or.inl h5
      · exact Or.inr (Or.inl h5)
      · exact Or.inr (Or.inr ⟨j, h5⟩)
    · have hc : (!(decide (0 > j) || decide (e ≤ j) || cs.isEmpty)) = false := by
        simp; intro _; omega
      rw [hc]
      simp only [Bool.false_eq_true, if_false]
      have hj0 : j ≠ 0 := by omega
      have hje' : j ≥ e := by omega
      simp [hj0, hje']
  · intro v j
    unfold opAtS getP
    cases hM : M[v + 1]? with
    | none =>
      simp only [Option.getD_none, List.isEmpty_nil, Bool.or_true, Bool.not_true, Bool.false_eq_true, if_false]
      by_cases hj : j = 0
      · simp only [hj, if_true]; exact Or.inr (Or.inr (Or.inl ⟨rfl, rfl⟩))
      · simp only [hj, if_false, ge_iff_le, Nat.zero_le, if_true]
        exact Or.inr (Or.inr (Or.inr (Or.inl ⟨by omega, Or.inr (Or.inl rfl)⟩)))
    | some r =>
      obtain ⟨cs, s, e⟩ := r
      obtain ⟨hs, hok⟩ := h.rows v cs s e hM
      subst hs
      simp only [Option.getD_some]
      split
      · simp only [Nat.sub_zero]
        rcases Nat.lt_or_ge j cs.length with hjl | hjl
        · have := hok j cs[j] (List.getElem?_eq_getElem hjl)
          simp only [Nat.zero_add] at this
          simp only [List.getD, List.getElem?_eq_getElem hjl, Option.getD_some]
          exact this.1
        · simp only [List.getD, List.getElem?_eq_none hjl, Option.getD_none]
          exact Or.inl rfl
      · by_cases hj : j = 0
        · simp only [hj, if_true]; exact Or.inr (Or.inr (Or.inl ⟨rfl, rfl⟩))
        · simp only [hj, if_false]
          split
          · exact Or.inr (Or.inr (Or.inr (Or.inl ⟨by omega, Or.inr (Or.inl rfl)⟩)))
          · exact Or.inl rfl

theorem colsOK_of_oinv (es : WEdges) (L : Nat) (M : List Row) (h : OInv es L M) : ColsOK (opAtS M) := by
  refine ⟨?_, ?_⟩
  · intro i hi
    obtain ⟨v, rfl⟩ : ∃ v, i = v + 1 := ⟨i - 1, by omega⟩
    unfold opAtS getP
    cases hM : M[v + 1]? with
    | none => simp [opCost]
    | some r =>
      obtain ⟨cs, s, e⟩ := r
      obtain ⟨hs, hok⟩ := h.rows v cs s e hM
      subst hs
      simp only [Option.getD_some]
      split
      · rename_i hc
        cases cs with
        | nil => simp at hc
        | cons a l =>
          have := (hok 0 a rfl).2.1 rfl
          simp only [Nat.sub_zero, List.getD, List.getElem?_cons_zero, Option.getD_some]
          rcases this with e1 | ⟨r, e1⟩ <;> rw [e1] <;> rfl
      · simp [opCost]
  · intro i j c d hy
    unfold opAtS getP at hy
    cases i with
    | zero =>
      obtain ⟨cs, e, h1, h2, h3, h4⟩ := h.r0
      simp only [h1, Option.getD_some] at hy
      split at hy
      · simp only [Nat.sub_zero] at hy
        rcases Nat.lt_or_ge j cs.length with hjl | hjl
        · simp only [List.getD, List.getElem?_eq_getElem hjl, Option.getD_some] at hy
          rcases h4 j cs[j] (List.getElem?_eq_getElem hjl) with ⟨h5, _⟩ | h5 | h5
          · rw [h5] at hy; cases hy
          · rw [h5] at hy; cases hy
          · rw [h5] at hy; cases hy; omega
        · simp only [List.getD, List.getElem?_eq_none hjl, Option.getD_none, mcell] at hy; cases hy
      · split at hy
        · cases hy
        · split at hy <;> simp only [mcell] at hy <;> cases hy
    | succ v =>
      cases hM : M[v + 1]? with
      | none =>
        simp only [hM, Option.getD_none, List.isEmpty_nil, Bool.or_true, Bool.not_true, Bool.false_eq_true, if_false] at hy
        split at hy
        · cases hy
        · split at hy <;> simp only [mcell] at hy <;> cases hy
      | some r =>
        obtain ⟨cs, s, e⟩ := r
        obtain ⟨hs, hok⟩ := h.rows v cs s e hM
        subst hs
        simp only [hM, Option.getD_some] at hy
        split at hy
        · simp only [Nat.sub_zero] at hy
          rcases Nat.lt_or_ge j cs.length with hjl | hjl
          · simp only [List.getD, List.getElem?_eq_getElem hjl, Option.getD_some] at hy
            have := ((hok j cs[j] (List.getElem?_eq_getElem hjl)).2.2 c d hy).1
            omega
          · simp only [List.getD, List.getElem?_eq_none hjl, Option.getD_none, mcell] at hy; cases hy
        · split at hy
          · cases hy
          · split at hy <;> simp only [mcell] at hy <;> cases hy

theorem add64_val {a b t : Nat} (h : Rs.add 64 a b = ok t) : t = a + b := by
  unfold Rs.add at h; split at h
  · simp only [Res.ok.injEq] at h; exact h.symm
  · cases h

theorem sub_val {a b t : Nat} (h : Rs.sub a b = ok t) : t = a - b := by
  unfold Rs.sub at h; split at h
  · simp only [Res.ok.injEq] at h; exact h.symm
  · cases h

/-- whenever the loop of the translated `Traceback::alignment` returns, it has computed `Model.traceF` over the table `getP` -/
theorem while_partial (tb : Rs.Poa.Traceback) : ∀ (f : Nat) (ops : List POp) (i j : Nat) (r : List POp × Nat × Nat),
    Traceback_alignment_while1 tb f (ops, i, j) = ok r → r.1.reverse = traceF (opAtS tb.matrix) f i j ops.reverse
  | 0, ops, i, j, r, h => by simp [Traceback_alignment_while1] at h
  | f + 1, ops, i, j, r, h => by
    unfold Traceback_alignment_while1 at h
    by_cases hij : i = 0 ∧ j = 0
    · obtain ⟨rfl, rfl⟩ := hij
      simp only [Nat.lt_irrefl, decide_false, Bool.or_self, Bool.false_eq_true, if_false, Res.pure_eq_ok, Res.ok.injEq,
        gt_iff_lt] at h
      rw [← h]; simp [traceF]
    · have hc : (decide (i > 0) || decide (j > 0)) = true := by simp; omega
      simp only [hc, if_true, Res.bind_eq_ok] at h
      obtain ⟨t2, h2, t3, h3, hm⟩ := h
      have e2 := get_partial tb i j t2 h2
      have e3 := get_partial tb i j t3 h3
      have eop : t2.op = opAtS tb.matrix i j := by rw [e2]; rfl
      have eop3 : t3.op = opAtS tb.matrix i j := by rw [e3]; rfl
      rw [traceF_succ _ f i j _ hij]
      rw [eop3, eop] at hm
      generalize opAtS tb.matrix i j = op at hm ⊢
      have fin : ∀ (i' j' : Nat), Traceback_alignment_while1 tb f (ops ++ [op], i', j') = ok r →
          r.1.reverse = traceF (opAtS tb.matrix) f i' j' (op :: ops.reverse) := by
        intro i' j' hrec
        have := while_partial tb f (ops ++ [op]) i' j' r hrec
        simpa using this
      cases op with
      | m pq =>
        cases pq with
        | none =>
          simp only [Res.bind_eq_ok, Res.pure_eq_ok] at hm
          obtain ⟨t, ht, _, hx, hrec⟩ := hm
          simp only [Res.ok.injEq] at hx; subst hx
          rw [sub_val ht] at hrec; exact fin _ _ hrec
        | some pq =>
          obtain ⟨p, q⟩ := pq
          simp only [Res.bind_eq_ok, Res.pure_eq_ok] at hm
          obtain ⟨t, ht, t', ht', _, hx, hrec⟩ := hm
          simp only [Res.ok.injEq] at hx; subst hx
          rw [add64_val ht, sub_val ht'] at hrec; exact fin _ _ hrec
      | d pq =>
        cases pq with
        | none =>
          simp only [Res.bind_eq_ok, Res.pure_eq_ok] at hm
          obtain ⟨t, ht, _, hx, hrec⟩ := hm
          simp only [Res.ok.injEq] at hx; subst hx
          rw [sub_val ht] at hrec; exact fin _ _ hrec
        | some pq =>
          obtain ⟨p, q⟩ := pq
          simp only [Res.bind_eq_ok, Res.pure_eq_ok] at hm
          obtain ⟨t, ht, _, hx, hrec⟩ := hm
          simp only [Res.ok.injEq] at hx; subst hx
          rw [add64_val ht] at hrec; exact fin _ _ hrec
      | i p =>
        cases p with
        | none =>
          simp only [Res.bind_eq_ok, Res.pure_eq_ok] at hm
          obtain ⟨t, ht, _, hx, hrec⟩ := hm
          simp only [Res.ok.injEq] at hx; subst hx
          rw [sub_val ht] at hrec; exact fin _ _ hrec
        | some p =>
          simp only [Res.bind_eq_ok, Res.pure_eq_ok] at hm
          obtain ⟨t, ht, t', ht', _, hx, hrec⟩ := hm
          simp only [Res.ok.injEq] at hx; subst hx
          rw [add64_val ht, sub_val ht'] at hrec; exact fin _ _ hrec
      | x r' =>
        simp only [Res.bind_eq_ok, Res.pure_eq_ok] at hm
        obtain ⟨_, hx, hrec⟩ := hm
        simp only [Res.ok.injEq] at hx; subst hx
        exact fin _ _ hrec
      | y a b =>
        simp only [Res.bind_eq_ok, Res.pure_eq_ok] at hm
        obtain ⟨_, hx, hrec⟩ := hm
        simp only [Res.ok.injEq] at hx; subst hx
        exact fin _ _ hrec

theorem alignment_partial (tb : Rs.Poa.Traceback) (a : Rs.Poa.Alignment) (h : Traceback_alignment tb = ok a) :
    a.operations = traceF (opAtS tb.matrix) ((tb.rows + 3) * (tb.cols + 3)) (tb.last + 1) tb.cols [] := by
  unfold Traceback_alignment at h
  simp only [Res.bind_eq_ok, Res.pure_eq_ok] at h
  obtain ⟨t1, h1, st, hst, t12, _, c, _, ha⟩ := h
  simp only [Res.ok.injEq] at ha
  rw [← ha]
  have := while_partial tb _ [] t1 tb.cols st hst
  rw [add64_val h1] at this
  simpa using this

/-- one translated step: `custom` (any clip penalties = any of the four `custom`-based modes) → `alignment` → `add_alignment` -/
def srcStep (sc : Sc) (xp xs yp ys : Int) (g : G) (q : List Nat) : Res G := do
  let tb ← custom sc.w g sc.gap xp xs yp ys q
  let aln ← Traceback_alignment tb
  RbV.Gen.SrcPoaAdd.add_alignment g aln q

theorem step_dag (sc : Sc) (xp xs yp ys : Int) (g g' : G) (q : List Nat) (t : BTable) (hg : Dag g)
    (hm : g.labels.length + 1 < 2 ^ 64) (hn : q.length + 1 < 2 ^ 64) (hq : 0 < q.length)
    (hC : customTableC sc xp xs yp ys g.labels g.es q = some t)
    (h : srcStep sc xp xs yp ys g q = ok g') :
    Dag g' ∧ Grows g g' ∧ g'.labels.length ≤ g.labels.length + q.length := by
  obtain ⟨tb, e, el, ec, er, hml, hO, _⟩ := custom_score_eq_model sc xp xs yp ys g.labels g.es q t (graphOK_of_dag g hg) hm hn hC
  unfold srcStep at h
  have hgg : (⟨g.labels, g.es⟩ : G) = g := rfl
  rw [hgg] at e
  simp only [e, Res.ok_bind, Res.bind_eq_ok] at h
  obtain ⟨aln, ha, hadd⟩ := h
  have hops := alignment_partial tb aln ha
  have heq := RbV.Thm.GenSrcPoaAdd.add_alignment_eq_model g aln q g' hadd
  have hL : t.last = (topo g.labels.length g.es).getLastD 0 := by
    unfold customTableC at hC
    simp only at hC
    split at hC
    · cases hC
    · split at hC
      · cases hC
      · split at hC
        · cases hC
        · split at hC
          · cases hC
          · simp only [Option.some.injEq] at hC; rw [← hC]
  have hN : t.n = q.length := by
    unfold customTableC at hC
    simp only at hC
    split at hC
    · cases hC
    · split at hC
      · cases hC
      · split at hC
        · cases hC
        · split at hC
          · cases hC
          · simp only [Option.some.injEq] at hC; rw [← hC]
  have hcols := colsOK_of_oinv g.es t.last tb.matrix (hO hq)
  have hok := opsOK_of_oinv g.es t.last tb.matrix (hO hq)
  rw [hL] at hok
  rw [heq, hops]
  refine ⟨traceF_add_dag g q hg _ hok _ _ _, ?_, ?_⟩
  · unfold addAlignment
    exact (foldl_addStep_grows _ q _ { g := g, prev := (topo g.labels.length g.es).headD 0 }).1
  · have h1 := (addAlignment_grows g (traceF (opAtS tb.matrix) ((tb.rows + 3) * (tb.cols + 3)) (tb.last + 1) tb.cols []) q).2
    have h2 := traceF_consuming _ hcols ((tb.rows + 3) * (tb.cols + 3)) (tb.last + 1) tb.cols []
    have hcq : tb.cols = q.length := by rw [ec, hN]
    have h3 : consuming ([] : List POp) = 0 := rfl
    rw [h3] at h2
    generalize consuming (traceF (opAtS tb.matrix) ((tb.rows + 3) * (tb.cols + 3)) (tb.last + 1) tb.cols []) = k at h1 h2
    generalize (addAlignment g (traceF (opAtS tb.matrix) ((tb.rows + 3) * (tb.cols + 3)) (tb.last + 1) tb.cols []) q).labels.length = k2 at h1 ⊢
    omega

/-- one step of a history: scoring, the four clip penalties (`global`: all `MIN_SCORE`; `semiglobal`: y clips 0; `local`: all 0;
`custom`: as configured), query -/
abbrev HS := Sc × (Int × Int × Int × Int) × List Nat

def stepOf (s : HS) (g : G) : Res G := srcStep s.1 s.2.1.1 s.2.1.2.1 s.2.1.2.2.1 s.2.1.2.2.2 g s.2.2

/-- the graph after a series of translated align-and-add steps -/
def srcHistory (g0 : G) (steps : List HS) : Res G := steps.foldlM (fun g s => stepOf s g) g0

/-- side conditions on exactly the graphs that occur: non-empty query, sizes below `2^64 − 1`, no `i32` overflow in `custom`
(`poa_i32_no_overflow` inside `PoaEnv`) -/
def HistOK : G → List HS → Prop
  | _, [] => True
  | g, s :: rest => 0 < s.2.2.length ∧ s.2.2.length + 1 < 2 ^ 64 ∧ g.labels.length + 1 < 2 ^ 64 ∧
      (customTableC s.1 s.2.1.1 s.2.1.2.1 s.2.1.2.2.1 s.2.1.2.2.2 g.labels g.es s.2.2).isSome ∧
      ∀ g', stepOf s g = ok g' → HistOK g' rest

theorem history_dag : ∀ (steps : List HS) (g0 g : G), Dag g0 → HistOK g0 steps → srcHistory g0 steps = ok g →
    Dag g ∧ Grows g0 g ∧ g.labels.length ≤ g0.labels.length + (steps.map fun s => s.2.2.length).sum
  | [], g0, g, hd, _, h => by
    simp only [srcHistory, List.foldlM_nil, Res.pure_eq_ok, Res.ok.injEq] at h
    subst h; exact ⟨hd, Grows.refl _, by simp⟩
  | s :: rest, g0, g, hd, hok, h => by
    simp only [srcHistory, List.foldlM_cons, Res.bind_eq_ok] at h
    obtain ⟨g1, h1, h2⟩ := h
    obtain ⟨hq, hn, hm, hC, hnext⟩ := hok
    obtain ⟨t, ht⟩ := Option.isSome_iff_exists.mp hC
    obtain ⟨hd1, hg1, hn1⟩ := step_dag s.1 _ _ _ _ g0 g1 s.2.2 t hd hm hn hq ht h1
    obtain ⟨hd2, hg2, hn2⟩ := history_dag rest g1 g hd1 (hnext g1 h1) h2
    refine ⟨hd2, hg1.trans hg2, ?_⟩
    simp only [List.map_cons, List.sum_cons]
    omega

end RbV.Thm.GenSrcPoaHistory
