import RbV.Thm.GenSrcPoaScore
import RbV.Thm.GenSrcPoaAdd
import RbV.Lemmas.PoaGrowAll
/-!
# Histories of translated alignments and additions: the graph stays a growing DAG

`getP` = `Traceback::get` as a total function on the matrix; `get_partial`: whenever the translated `get` returns, it returns
`getP`.  `opsOK_of_oinv` / `colsOK_of_oinv`: the operation table of a matrix with `OInv` is local (`Model.OpsOK`) and
column-monotone (`Model.ColsOK`) — for whatever the `max`es kept.  `alignment_partial`: whenever the translated
`Traceback::alignment` returns, its operation list is `Model.traceF` over that table (its `j -= 1` / `i -= 1` would panic
exactly where `traceF` truncates; the statement is about runs that return).  `step_dag`: one translated
`custom` → `alignment` → `add_alignment`.
-/
set_option linter.unusedSimpArgs false
set_option linter.unusedVariables false
set_option linter.unnecessarySimpa false
namespace RbV.Thm.GenSrcPoaHistory
open RbV RbV.NW RbV.Rs RbV.Rs.Res RbV.Poa RbV.Poa.Model RbV.Gen.SrcPoaAlign RbV.Thm.GenSrcPoaAlign RbV.Thm.GenSrcPoaScore

/-- `Traceback::get` on the matrix, totalised (a missing row reads like an empty one) -/
def getP (M : List Row) (i j : Nat) : Cell :=
  let r := (M[i]?).getD ([], 0, 0)
  if (!(decide (r.2.1 > j) || decide (r.2.2 ≤ j) || r.1.isEmpty)) = true then r.1.getD (j - r.2.1) mcell
  else if j = 0 then ⟨minScore, .d none⟩
  else if j ≥ r.2.2 then ⟨minScore, .i none⟩
  else mcell

def opAtS (M : List Row) (i j : Nat) : POp := (getP M i j).op

theorem get_partial (tb : Rs.Poa.Traceback) (i j : Nat) (c : Cell) (h : Traceback_get tb i j = ok c) : c = getP tb.matrix i j := by
  unfold Traceback_get at h
  cases hM : tb.matrix[i]? with
  | none =>
    have : Rs.idx tb.matrix i = panic := by unfold Rs.idx; rw [hM]
    rw [this] at h; cases h
  | some r =>
    obtain ⟨cs, s, e⟩ := r
    simp only [Rs.idx_of_getElem? hM, Res.ok_bind] at h
    unfold getP
    simp only [hM, Option.getD_some, minScore_eq]
    by_cases hc : (!(decide (s > j) || decide (e ≤ j) || cs.isEmpty)) = true
    · rw [if_pos hc] at h ⊢
      have hsj : s ≤ j := by
        simp only [Bool.not_eq_true', Bool.or_eq_false_iff, decide_eq_false_iff_not] at hc
        omega
      simp only [Rs.sub_ok hsj, Res.ok_bind, Res.pure_eq_ok, Res.bind_eq_ok] at h
      obtain ⟨x, hx, hxc⟩ := h
      simp only [Res.ok.injEq] at hxc
      subst hxc
      have := Rs.idx_eq_ok_iff.mp hx
      simp [List.getD, this]
    · rw [if_neg hc] at h ⊢
      simp only [Res.pure_eq_ok, Res.ok_bind, Res.ok.injEq] at h
      rw [← h]
      by_cases hj : j = 0
      · simp [hj, minScore_eq]
      · by_cases hje : j ≥ e
        · simp [hj, hje, minScore_eq]
        · simp [hj, hje, mcell, minScore_eq]

theorem opsOK_of_oinv (es : WEdges) (L : Nat) (M : List Row) (h : OInv es L M) : OpsOK es L (opAtS M) := by
  refine ⟨?_, ?_⟩
  · intro j
    obtain ⟨cs, e, h1, h2, h3, h4⟩ := h.r0
    unfold opAtS getP
    simp only [h1, Option.getD_some]
    by_cases hje : j < e
    · have hne : cs ≠ [] := by intro hh; subst hh; simp at h3; omega
      have hc : (!(decide (0 > j) || decide (e ≤ j) || cs.isEmpty)) = true := by
        cases cs with
        | nil => exact absurd rfl hne
        | cons a l => simp; omega
      rw [if_pos hc]
      have hjl : j < cs.length := by omega
      have := h4 j cs[j] (List.getElem?_eq_getElem hjl)
      simp only [Nat.sub_zero, List.getD, List.getElem?_eq_getElem hjl, Option.getD_some]
      rcases this with ⟨h5, _⟩ | h5 | h5
      · exact Or.inl h5
      · exact Or.inr (Or.inl h5)
      · exact Or.inr (Or.inr ⟨j, h5⟩)
    · have hc : (!(decide (0 > j) || decide (e ≤ j) || cs.isEmpty)) = false := by
        simp; intro _; omega
      rw [hc]
      simp only [Bool.false_eq_true, if_false]
      have hj0 : j ≠ 0 := by omega
      have hje' : j ≥ e := by omega
      simp [hj0, hje']
  · intro v j
    unfold opAtS getP
    cases hM : M[v + 1]? with
    | none =>
      simp only [Option.getD_none, List.isEmpty_nil, Bool.or_true, Bool.not_true, Bool.false_eq_true, if_false]
      by_cases hj : j = 0
      · simp only [hj, if_true]; exact Or.inr (Or.inr (Or.inl ⟨rfl, rfl⟩))
      · simp only [hj, if_false, ge_iff_le, Nat.zero_le, if_true]
        exact Or.inr (Or.inr (Or.inr (Or.inl ⟨by omega, Or.inr (Or.inl rfl)⟩)))
    | some r =>
      obtain ⟨cs, s, e⟩ := r
      obtain ⟨hs, hok⟩ := h.rows v cs s e hM
      subst hs
      simp only [Option.getD_some]
      split
      · simp only [Nat.sub_zero]
        rcases Nat.lt_or_ge j cs.length with hjl | hjl
        · have := hok j cs[j] (List.getElem?_eq_getElem hjl)
          simp only [Nat.zero_add] at this
          simp only [List.getD, List.getElem?_eq_getElem hjl, Option.getD_some]
          exact this.1
        · simp only [List.getD, List.getElem?_eq_none hjl, Option.getD_none]
          exact Or.inl rfl
      · by_cases hj : j = 0
        · simp only [hj, if_true]; exact Or.inr (Or.inr (Or.inl ⟨rfl, rfl⟩))
        · simp only [hj, if_false]
          split
          · exact Or.inr (Or.inr (Or.inr (Or.inl ⟨by omega, Or.inr (Or.inl rfl)⟩)))
          · exact Or.inl rfl

theorem colsOK_of_oinv (es : WEdges) (L : Nat) (M : List Row) (h : OInv es L M) : ColsOK (opAtS M) := by
  refine ⟨?_, ?_⟩
  · intro i hi
    obtain ⟨v, rfl⟩ : ∃ v, i = v + 1 := ⟨i - 1, by omega⟩
    unfold opAtS getP
    cases hM : M[v + 1]? with
    | none => simp [opCost]
    | some r =>
      obtain ⟨cs, s, e⟩ := r
      obtain ⟨hs, hok⟩ := h.rows v cs s e hM
      subst hs
      simp only [Option.getD_some]
      split
      · rename_i hc
        cases cs with
        | nil => simp at hc
        | cons a l =>
          have := (hok 0 a rfl).2.1 rfl
          simp only [Nat.sub_zero, List.getD, List.getElem?_cons_zero, Option.getD_some]
          rcases this with e1 | ⟨r, e1⟩ <;> rw [e1] <;> rfl
      · simp [opCost]
  · intro i j c d hy
    unfold opAtS getP at hy
    cases i with
    | zero =>
      obtain ⟨cs, e, h1, h2, h3, h4⟩ := h.r0
      simp only [h1, Option.getD_some] at hy
      split at hy
      · simp only [Nat.sub_zero] at hy
        rcases Nat.lt_or_ge j cs.length with hjl | hjl
        · simp only [List.getD, List.getElem?_eq_getElem hjl, Option.getD_some] at hy
          rcases h4 j cs[j] (List.getElem?_eq_getElem hjl) with ⟨h5, _⟩ | h5 | h5
          · rw [h5] at hy; cases hy
          · rw [h5] at hy; cases hy
          · rw [h5] at hy; cases hy; omega
        · simp only [List.getD, List.getElem?_eq_none hjl, Option.getD_none, mcell] at hy; cases hy
      · split at hy
        · cases hy
        · split at hy <;> simp only [mcell] at hy <;> cases hy
    | succ v =>
      cases hM : M[v + 1]? with
      | none =>
        simp only [hM, Option.getD_none, List.isEmpty_nil, Bool.or_true, Bool.not_true, Bool.false_eq_true, if_false] at hy
        split at hy
        · cases hy
        · split at hy <;> simp only [mcell] at hy <;> cases hy
      | some r =>
        obtain ⟨cs, s, e⟩ := r
        obtain ⟨hs, hok⟩ := h.rows v cs s e hM
        subst hs
        simp only [hM, Option.getD_some] at hy
        split at hy
        · simp only [Nat.sub_zero] at hy
          rcases Nat.lt_or_ge j cs.length with hjl | hjl
          · simp only [List.getD, List.getElem?_eq_getElem hjl, Option.getD_some] at hy
            have := ((hok j cs[j] (List.getElem?_eq_getElem hjl)).2.2 c d hy).1
            omega
          · simp only [List.getD, List.getElem?_eq_none hjl, Option.getD_none, mcell] at hy; cases hy
        · split at hy
          · cases hy
          · split at hy <;> simp only [mcell] at hy <;> cases hy

/-- every operation of the table of a matrix with `OInv`: an out-of-band answer / padding, a row-0 operation, or a cell of an
existing node row with `CellOK` -/
theorem opAtS_spec (es : WEdges) (L : Nat) (M : List Row) (h : OInv es L M) (i j : Nat) :
    opAtS M i j = .d none ∨ opAtS M i j = .i none ∨ opAtS M i j = .m none ∨ (i = 0 ∧ opAtS M i j = .y 0 j) ∨
    ∃ v, i = v + 1 ∧ v + 1 < M.length ∧ CellOK es L v j (opAtS M i j) := by
  unfold opAtS getP
  cases i with
  | zero =>
    obtain ⟨cs, e, h1, h2, h3, h4⟩ := h.r0
    simp only [h1, Option.getD_some]
    split
    · simp only [Nat.sub_zero]
      rcases Nat.lt_or_ge j cs.length with hjl | hjl
      · simp only [List.getD, List.getElem?_eq_getElem hjl, Option.getD_some]
        rcases h4 j cs[j] (List.getElem?_eq_getElem hjl) with ⟨h5, _⟩ | h5 | h5
        · exact Or.inr (Or.inr (Or.inl h5))
        · exact Or.inr (Or.inl h5)
        · first | exact Or.inr (Or.inr (Or.inr (Or.inl ⟨rfl, h5⟩))) | exact Or.inr (Or.inr (Or.inr (Or.inl ⟨trivial, h5⟩)))
      · simp only [List.getD, List.getElem?_eq_none hjl, Option.getD_none, mcell]
        first | exact Or.inr (Or.inr (Or.inl rfl)) | simp
    · split
      · first | exact Or.inl rfl | simp
      · split
        · first | exact Or.inr (Or.inl rfl) | simp
        · first | exact Or.inr (Or.inr (Or.inl rfl)) | simp
  | succ v =>
    cases hM : M[v + 1]? with
    | none =>
      simp only [Option.getD_none, List.isEmpty_nil, Bool.or_true, Bool.not_true, Bool.false_eq_true, if_false]
      split
      · first | exact Or.inl rfl | simp
      · split
        · first | exact Or.inr (Or.inl rfl) | simp
        · first | exact Or.inr (Or.inr (Or.inl rfl)) | simp
    | some r =>
      obtain ⟨cs, s, e⟩ := r
      obtain ⟨hs, hok⟩ := h.rows v cs s e hM
      subst hs
      simp only [Option.getD_some]
      split
      · simp only [Nat.sub_zero]
        rcases Nat.lt_or_ge j cs.length with hjl | hjl
        · simp only [List.getD, List.getElem?_eq_getElem hjl, Option.getD_some]
          have := hok j cs[j] (List.getElem?_eq_getElem hjl)
          simp only [Nat.zero_add] at this
          exact Or.inr (Or.inr (Or.inr (Or.inr ⟨v, rfl, lt_of_getElem? hM, this⟩)))
        · simp only [List.getD, List.getElem?_eq_none hjl, Option.getD_none, mcell]
          first | exact Or.inr (Or.inr (Or.inl rfl)) | simp
      · split
        · first | exact Or.inl rfl | simp
        · split
          · first | exact Or.inr (Or.inl rfl) | simp
          · first | exact Or.inr (Or.inr (Or.inl rfl)) | simp

theorem opAtS_y (es : WEdges) (L : Nat) (M : List Row) (h : OInv es L M) (i j c d : Nat) (hy : opAtS M i j = .y c d) : d = j := by
  rcases opAtS_spec es L M h i j with e | e | e | ⟨_, e⟩ | ⟨v, _, _, e⟩
  · rw [e] at hy; cases hy
  · rw [e] at hy; cases hy
  · rw [e] at hy; cases hy
  · rw [e] at hy; cases hy; rfl
  · exact (e.2.2 c d hy).2

theorem opAtS_m_lt (es : WEdges) (L m : Nat) (M : List Row) (h : OInv es L M) (hlen : M.length = m + 1) (i j a p : Nat)
    (hm : opAtS M i j = .m (some (a, p))) : p < m := by
  rcases opAtS_spec es L M h i j with e | e | e | ⟨_, e⟩ | ⟨v, _, hv, e⟩
  · rw [e] at hm; cases hm
  · rw [e] at hm; cases hm
  · rw [e] at hm; cases hm
  · rw [e] at hm; cases hm
  · rcases e.1 with e1 | e1 | ⟨_, e1⟩ | ⟨_, e1 | e1 | ⟨p', _, e1 | e1⟩⟩ | ⟨_, ⟨r, e1⟩ | ⟨_, c', d', e1⟩⟩ <;> rw [e1] at hm <;>
      first
        | (cases hm; omega)
        | cases hm

theorem add64_val {a b t : Nat} (h : Rs.add 64 a b = ok t) : t = a + b := by
  unfold Rs.add at h; split at h
  · simp only [Res.ok.injEq] at h; exact h.symm
  · cases h

theorem sub_val {a b t : Nat} (h : Rs.sub a b = ok t) : t = a - b := by
  unfold Rs.sub at h; split at h
  · simp only [Res.ok.injEq] at h; exact h.symm
  · cases h

/-- whenever the loop of the translated `Traceback::alignment` returns, it has computed `Model.traceF` over the table `getP` -/
theorem while_partial (tb : Rs.Poa.Traceback) : ∀ (f : Nat) (ops : List POp) (i j : Nat) (r : List POp × Nat × Nat),
    Traceback_alignment_while1 tb f (ops, i, j) = ok r → r.1.reverse = traceF (opAtS tb.matrix) f i j ops.reverse
  | 0, ops, i, j, r, h => by simp [Traceback_alignment_while1] at h
  | f + 1, ops, i, j, r, h => by
    unfold Traceback_alignment_while1 at h
    by_cases hij : i = 0 ∧ j = 0
    · obtain ⟨rfl, rfl⟩ := hij
      simp only [Nat.lt_irrefl, decide_false, Bool.or_self, Bool.false_eq_true, if_false, Res.pure_eq_ok, Res.ok.injEq,
        gt_iff_lt] at h
      rw [← h]; simp [traceF]
    · have hc : (decide (i > 0) || decide (j > 0)) = true := by simp; omega
      simp only [hc, if_true, Res.bind_eq_ok] at h
      obtain ⟨t2, h2, t3, h3, hm⟩ := h
      have e2 := get_partial tb i j t2 h2
      have e3 := get_partial tb i j t3 h3
      have eop : t2.op = opAtS tb.matrix i j := by rw [e2]; rfl
      have eop3 : t3.op = opAtS tb.matrix i j := by rw [e3]; rfl
      rw [traceF_succ _ f i j _ hij]
      rw [eop3, eop] at hm
      generalize opAtS tb.matrix i j = op at hm ⊢
      have fin : ∀ (i' j' : Nat), Traceback_alignment_while1 tb f (ops ++ [op], i', j') = ok r →
          r.1.reverse = traceF (opAtS tb.matrix) f i' j' (op :: ops.reverse) := by
        intro i' j' hrec
        have := while_partial tb f (ops ++ [op]) i' j' r hrec
        simpa using this
      cases op with
      | m pq =>
        cases pq with
        | none =>
          simp only [Res.bind_eq_ok, Res.pure_eq_ok] at hm
          obtain ⟨t, ht, _, hx, hrec⟩ := hm
          simp only [Res.ok.injEq] at hx; subst hx
          rw [sub_val ht] at hrec; exact fin _ _ hrec
        | some pq =>
          obtain ⟨p, q⟩ := pq
          simp only [Res.bind_eq_ok, Res.pure_eq_ok] at hm
          obtain ⟨t, ht, t', ht', _, hx, hrec⟩ := hm
          simp only [Res.ok.injEq] at hx; subst hx
          rw [add64_val ht, sub_val ht'] at hrec; exact fin _ _ hrec
      | d pq =>
        cases pq with
        | none =>
          simp only [Res.bind_eq_ok, Res.pure_eq_ok] at hm
          obtain ⟨t, ht, _, hx, hrec⟩ := hm
          simp only [Res.ok.injEq] at hx; subst hx
          rw [sub_val ht] at hrec; exact fin _ _ hrec
        | some pq =>
          obtain ⟨p, q⟩ := pq
          simp only [Res.bind_eq_ok, Res.pure_eq_ok] at hm
          obtain ⟨t, ht, _, hx, hrec⟩ := hm
          simp only [Res.ok.injEq] at hx; subst hx
          rw [add64_val ht] at hrec; exact fin _ _ hrec
      | i p =>
        cases p with
        | none =>
          simp only [Res.bind_eq_ok, Res.pure_eq_ok] at hm
          obtain ⟨t, ht, _, hx, hrec⟩ := hm
          simp only [Res.ok.injEq] at hx; subst hx
          rw [sub_val ht] at hrec; exact fin _ _ hrec
        | some p =>
          simp only [Res.bind_eq_ok, Res.pure_eq_ok] at hm
          obtain ⟨t, ht, t', ht', _, hx, hrec⟩ := hm
          simp only [Res.ok.injEq] at hx; subst hx
          rw [add64_val ht, sub_val ht'] at hrec; exact fin _ _ hrec
      | x r' =>
        simp only [Res.bind_eq_ok, Res.pure_eq_ok] at hm
        obtain ⟨_, hx, hrec⟩ := hm
        simp only [Res.ok.injEq] at hx; subst hx
        exact fin _ _ hrec
      | y a b =>
        simp only [Res.bind_eq_ok, Res.pure_eq_ok] at hm
        obtain ⟨_, hx, hrec⟩ := hm
        simp only [Res.ok.injEq] at hx; subst hx
        exact fin _ _ hrec

theorem alignment_partial (tb : Rs.Poa.Traceback) (a : Rs.Poa.Alignment) (h : Traceback_alignment tb = ok a) :
    a.operations = traceF (opAtS tb.matrix) ((tb.rows + 3) * (tb.cols + 3)) (tb.last + 1) tb.cols [] := by
  unfold Traceback_alignment at h
  simp only [Res.bind_eq_ok, Res.pure_eq_ok] at h
  obtain ⟨t1, h1, st, hst, t12, _, c, _, ha⟩ := h
  simp only [Res.ok.injEq] at ha
  rw [← ha]
  have := while_partial tb _ [] t1 tb.cols st hst
  rw [add64_val h1] at this
  simpa using this

/-- one translated step: `custom` (any clip penalties = any of the four `custom`-based modes) → `alignment` → `add_alignment` -/
def srcStep (sc : Sc) (xp xs yp ys : Int) (g : G) (q : List Nat) : Res G := do
  let tb ← custom sc.w g sc.gap xp xs yp ys q
  let aln ← Traceback_alignment tb
  RbV.Gen.SrcPoaAdd.add_alignment g aln q

theorem step_dag (sc : Sc) (xp xs yp ys : Int) (g g' : G) (q : List Nat) (t : BTable) (hg : Dag g)
    (hm : g.labels.length + 1 < 2 ^ 64) (hn : q.length + 1 < 2 ^ 64) (hq : 0 < q.length)
    (hC : customTableC sc xp xs yp ys g.labels g.es q = some t)
    (h : srcStep sc xp xs yp ys g q = ok g') :
    Dag g' ∧ Grows g g' ∧ g'.labels.length ≤ g.labels.length + q.length := by
  obtain ⟨tb, e, el, ec, er, hml, hO, _⟩ := custom_score_eq_model sc xp xs yp ys g.labels g.es q t (graphOK_of_dag g hg) hm hn hC
  unfold srcStep at h
  have hgg : (⟨g.labels, g.es⟩ : G) = g := rfl
  rw [hgg] at e
  simp only [e, Res.ok_bind, Res.bind_eq_ok] at h
  obtain ⟨aln, ha, hadd⟩ := h
  have hops := alignment_partial tb aln ha
  have heq := RbV.Thm.GenSrcPoaAdd.add_alignment_eq_model g aln q g' hadd
  have hL : t.last = (topo g.labels.length g.es).getLastD 0 := by
    unfold customTableC at hC
    simp only at hC
    split at hC
    · cases hC
    · split at hC
      · cases hC
      · split at hC
        · cases hC
        · split at hC
          · cases hC
          · simp only [Option.some.injEq] at hC; rw [← hC]
  have hN : t.n = q.length := by
    unfold customTableC at hC
    simp only at hC
    split at hC
    · cases hC
    · split at hC
      · cases hC
      · split at hC
        · cases hC
        · split at hC
          · cases hC
          · simp only [Option.some.injEq] at hC; rw [← hC]
  have hcols := colsOK_of_oinv g.es t.last tb.matrix (hO hq)
  have hok := opsOK_of_oinv g.es t.last tb.matrix (hO hq)
  rw [hL] at hok
  rw [heq, hops]
  refine ⟨traceF_add_dag g q hg _ hok _ _ _, ?_, ?_⟩
  · unfold addAlignment
    exact (foldl_addStep_grows _ q _ { g := g, prev := (topo g.labels.length g.es).headD 0 }).1
  · have h1 := (addAlignment_grows g (traceF (opAtS tb.matrix) ((tb.rows + 3) * (tb.cols + 3)) (tb.last + 1) tb.cols []) q).2
    have h2 := traceF_consuming _ hcols ((tb.rows + 3) * (tb.cols + 3)) (tb.last + 1) tb.cols []
    have hcq : tb.cols = q.length := by rw [ec, hN]
    have h3 : consuming ([] : List POp) = 0 := rfl
    rw [h3] at h2
    generalize consuming (traceF (opAtS tb.matrix) ((tb.rows + 3) * (tb.cols + 3)) (tb.last + 1) tb.cols []) = k at h1 h2
    generalize (addAlignment g (traceF (opAtS tb.matrix) ((tb.rows + 3) * (tb.cols + 3)) (tb.last + 1) tb.cols []) q).labels.length = k2 at h1 ⊢
    omega

open RbV.Thm.GenSrcPoaAdd in
theorem seqOK_mono (n m : Nat) : ∀ (ops : List POp) (i i' : Nat), i ≤ i' → SeqOK n m i' ops → SeqOK n m i ops
  | [], _, _, _, _ => trivial
  | op :: r, i, i', hi, h => by
    cases op with
    | m pq =>
      cases pq with
      | none => simp only [SeqOK] at h ⊢; exact ⟨by omega, seqOK_mono n m r _ _ (by omega) h.2⟩
      | some pq => obtain ⟨a, p⟩ := pq; simp only [SeqOK] at h ⊢; exact ⟨by omega, h.2.1, seqOK_mono n m r _ _ (by omega) h.2.2⟩
    | d pq => simp only [SeqOK] at h ⊢; exact seqOK_mono n m r _ _ hi h
    | i p => simp only [SeqOK] at h ⊢; exact ⟨by omega, seqOK_mono n m r _ _ (by omega) h.2⟩
    | x r' => simp only [SeqOK] at h ⊢; exact seqOK_mono n m r _ _ hi h
    | y a b => simp only [SeqOK] at h ⊢; exact h

open RbV.Thm.GenSrcPoaAdd in
/-- **column tracking**: the traceback over a column-monotone table whose `Yclip(_, d)` in column `j` has `d = j` and whose
`Match(Some((_, p)))` name nodes `< m` emits an operation list that is valid for a query of length `n` (`SeqOK`): a consuming
operation emitted in column `j` consumes position `j - 1` -/
theorem traceF_seqOK (opAt : Nat → Nat → POp) (n m : Nat) (hcols : ColsOK opAt)
    (hy : ∀ i j c d, opAt i j = .y c d → d = j) (hm : ∀ i j a p, opAt i j = .m (some (a, p)) → p < m) :
    ∀ (f i j : Nat) (acc : List POp), j ≤ n → SeqOK n m j acc → SeqOK n m 0 (traceF opAt f i j acc) := by
  intro f
  induction f with
  | zero => intro i j acc _ hs; simp only [traceF]; exact seqOK_mono n m acc 0 j (Nat.zero_le _) hs
  | succ f ih =>
    intro i j acc hj hs
    by_cases hij : i = 0 ∧ j = 0
    · obtain ⟨rfl, rfl⟩ := hij
      simp only [traceF, Bool.and_self, decide_true, if_true]; exact hs
    · rw [traceF_succ opAt f i j acc hij]
      have hpos : ∀ op, opAt i j = op → opCost op = 1 → 0 < j := by
        intro op hop hc
        rcases Nat.eq_zero_or_pos j with h0 | h0
        · subst h0
          have := hcols.col0 i (by omega)
          rw [hop] at this; omega
        · exact h0
      generalize hop : opAt i j = op
      cases op with
      | m pq =>
        have hj0 := hpos _ hop rfl
        cases pq with
        | none =>
          simp only [traceNextF]
          exact ih 0 (j - 1) _ (by omega) (by simp only [SeqOK]; exact ⟨by omega, by rw [Nat.sub_add_cancel hj0]; exact hs⟩)
        | some pq =>
          obtain ⟨a, p⟩ := pq
          simp only [traceNextF]
          exact ih (a + 1) (j - 1) _ (by omega)
            (by simp only [SeqOK]; exact ⟨by omega, hm i j a p hop, by rw [Nat.sub_add_cancel hj0]; exact hs⟩)
      | d pq =>
        cases pq with
        | none => simp only [traceNextF]; exact ih (i - 1) j _ hj (by simp only [SeqOK]; exact hs)
        | some pq => obtain ⟨a, p⟩ := pq; simp only [traceNextF]; exact ih (a + 1) j _ hj (by simp only [SeqOK]; exact hs)
      | i p =>
        have hj0 := hpos _ hop rfl
        cases p with
        | none =>
          simp only [traceNextF]
          exact ih i (j - 1) _ (by omega) (by simp only [SeqOK]; exact ⟨by omega, by rw [Nat.sub_add_cancel hj0]; exact hs⟩)
        | some p =>
          simp only [traceNextF]
          exact ih (p + 1) (j - 1) _ (by omega) (by simp only [SeqOK]; exact ⟨by omega, by rw [Nat.sub_add_cancel hj0]; exact hs⟩)
      | x r => simp only [traceNextF]; exact ih r j _ hj (by simp only [SeqOK]; exact hs)
      | y c d =>
        simp only [traceNextF]
        have hc := hcols.yclip i j c d hop
        have hd := hy i j c d hop
        exact ih i c _ (by omega) (by simp only [SeqOK]; rw [hd]; exact hs)

open RbV.Thm.GenSrcPoaAdd in
/-- **no panic of the translated `add_alignment` on traceback-produced lists**: whatever table the translated `custom` returned and
whatever list the translated `alignment` returned from it, the translated addition returns (the model's graph) — given room
for the weight increments -/
theorem step_add_total (sc : Sc) (xp xs yp ys : Int) (g : G) (q : List Nat) (t : BTable) (tb : Rs.Poa.Traceback)
    (aln : Rs.Poa.Alignment) (hg : Dag g)
    (hm : g.labels.length + 1 < 2 ^ 64) (hn : q.length + 1 < 2 ^ 64) (hq : 0 < q.length)
    (hC : customTableC sc xp xs yp ys g.labels g.es q = some t)
    (hcu : custom sc.w g sc.gap xp xs yp ys q = ok tb) (hal : Traceback_alignment tb = ok aln)
    (hK : (aln.operations.length : Int) < 2147483647)
    (hw : ∀ e ∈ g.es, -2147483648 ≤ e.2.2 ∧ e.2.2 + (aln.operations.length : Int) ≤ 2147483647) :
    RbV.Gen.SrcPoaAdd.add_alignment g aln q = ok (addAlignment g aln.operations q) := by
  have hG := graphOK_of_dag g hg
  obtain ⟨tb', e, el, ec, er, hml, hO, _⟩ := custom_score_eq_model sc xp xs yp ys g.labels g.es q t hG hm hn hC
  have hgg : (⟨g.labels, g.es⟩ : G) = g := rfl
  rw [hgg, hcu] at e
  simp only [Res.ok.injEq] at e
  subst e
  have hN : t.n = q.length := by
    unfold customTableC at hC
    simp only at hC
    split at hC
    · cases hC
    · split at hC
      · cases hC
      · split at hC
        · cases hC
        · split at hC
          · cases hC
          · simp only [Option.some.injEq] at hC; rw [← hC]
  have hOI := hO hq
  have hops := alignment_partial tb aln hal
  have hseq : SeqOK q.length g.labels.length 0 aln.operations := by
    rw [hops]
    exact traceF_seqOK _ q.length g.labels.length (colsOK_of_oinv g.es t.last tb.matrix hOI)
      (opAtS_y g.es t.last tb.matrix hOI) (opAtS_m_lt g.es t.last g.labels.length tb.matrix hOI hml)
      _ _ _ [] (by rw [ec, hN]; exact Nat.le_refl _) trivial
  refine add_alignment_total g aln q ?_ (by omega) hK hw hseq
  cases htp : topo g.labels.length g.es with
  | nil => exact absurd htp hG.topo_ne
  | cons a l => exact ⟨a, rfl, hG.lt a (by rw [htp]; exact List.mem_cons_self ..)⟩

/-- one step of a history: scoring, the four clip penalties (`global`: all `MIN_SCORE`; `semiglobal`: y clips 0; `local`: all 0;
`custom`: as configured), query -/
abbrev HS := Sc × (Int × Int × Int × Int) × List Nat

def stepOf (s : HS) (g : G) : Res G := srcStep s.1 s.2.1.1 s.2.1.2.1 s.2.1.2.2.1 s.2.1.2.2.2 g s.2.2

/-- the graph after a series of translated align-and-add steps -/
def srcHistory (g0 : G) (steps : List HS) : Res G := steps.foldlM (fun g s => stepOf s g) g0

/-- side conditions on exactly the graphs that occur: non-empty query, sizes below `2^64 − 1`, no `i32` overflow in `custom`
(`poa_i32_no_overflow` inside `PoaEnv`) -/
def HistOK : G → List HS → Prop
  | _, [] => True
  | g, s :: rest => 0 < s.2.2.length ∧ s.2.2.length + 1 < 2 ^ 64 ∧ g.labels.length + 1 < 2 ^ 64 ∧
      (customTableC s.1 s.2.1.1 s.2.1.2.1 s.2.1.2.2.1 s.2.1.2.2.2 g.labels g.es s.2.2).isSome ∧
      ∀ g', stepOf s g = ok g' → HistOK g' rest

theorem history_dag : ∀ (steps : List HS) (g0 g : G), Dag g0 → HistOK g0 steps → srcHistory g0 steps = ok g →
    Dag g ∧ Grows g0 g ∧ g.labels.length ≤ g0.labels.length + (steps.map fun s => s.2.2.length).sum
  | [], g0, g, hd, _, h => by
    simp only [srcHistory, List.foldlM_nil, Res.pure_eq_ok, Res.ok.injEq] at h
    subst h; exact ⟨hd, Grows.refl _, by simp⟩
  | s :: rest, g0, g, hd, hok, h => by
    simp only [srcHistory, List.foldlM_cons, Res.bind_eq_ok] at h
    obtain ⟨g1, h1, h2⟩ := h
    obtain ⟨hq, hn, hm, hC, hnext⟩ := hok
    obtain ⟨t, ht⟩ := Option.isSome_iff_exists.mp hC
    obtain ⟨hd1, hg1, hn1⟩ := step_dag s.1 _ _ _ _ g0 g1 s.2.2 t hd hm hn hq ht h1
    obtain ⟨hd2, hg2, hn2⟩ := history_dag rest g1 g hd1 (hnext g1 h1) h2
    refine ⟨hd2, hg1.trans hg2, ?_⟩
    simp only [List.map_cons, List.sum_cons]
    omega

end RbV.Thm.GenSrcPoaHistory
