import RbV.Gen.SrcFenwick
import RbV.Model.Fenwick
import RbV.Lemmas.Fenwick
/-!
# The translated text of `FenwickTree::{get, set}` equals the mirror model `RbV.Model.Fenwick`

`RbV/Gen/SrcFenwick.lean` is regenerated from `src/data_structures/bit_tree.rs` by `tools/rs2lean.py` on every
`./check C18`.  What the translation makes explicit and the model leaves implicit:

* `(idx as isize & -(idx as isize)) as usize` is translated on two's-complement bit patterns: `Rs.neg 64 idx` (panics for
  `isize::MIN`), `&&&`; the model has the recursive function `lowbit`.  `and_neg_eq_lowbit` proves
  `i &&& (2^w - i) = lowbit i` for every `0 < i < 2^w`.
* `idx + 1`, `idx += …` are checked 64-bit additions, `idx -= …` a checked subtraction, `self.tree[idx]` panics out of
  bounds (the model reads `getD`), the `while` loops have fuel (one unit more than the model's: the translated loop
  spends a unit on the final test of its condition).

Hypotheses of the equalities: the vector has at most `2^63` slots (a Rust `Vec` has at most `isize::MAX` bytes), and for
`get` the index is in range (`idx + 1 < tree.len()`, otherwise `self.tree[idx + 1]` panics — this is the precondition of
the property's theorems as well).
-/
-- the simp sets name every fact a harmless rewrite of the Rust text may need; on the pinned text some are unused
set_option linter.unusedSimpArgs false

namespace RbV.Thm.GenSrcFenwick
open RbV RbV.Rs RbV.Gen.SrcFenwick
open RbV.Model.Fenwick (lowbit getLoop setLoop)
open RbV.Lemmas.Fenwick (lowbit_odd lowbit_even lowbit_pos lowbit_le)

/-! ### `idx & -idx` is the lowest set bit -/

/-- a number and its complement in `n` bits have no common bit -/
theorem and_compl (n k : Nat) (h : k < 2 ^ n) : k &&& (2 ^ n - (k + 1)) = 0 := by
  apply Nat.eq_of_testBit_eq
  intro i
  rw [Nat.testBit_and, Nat.testBit_two_pow_sub_succ h]
  cases k.testBit i <;> simp

/-- two's complement: `i & -i` (in `w` bits) is the lowest set bit of `i` -/
theorem and_neg_eq_lowbit : ∀ (w i : Nat), 0 < i → i < 2 ^ w → i &&& (2 ^ w - i) = lowbit i := by
  intro w
  induction w with
  | zero => intro i h0 h1; simp at h1; omega
  | succ w ih =>
    intro i h0 h1
    have hp : 2 ^ (w + 1) = 2 * 2 ^ w := by rw [Nat.pow_succ]; omega
    have hpos : 0 < 2 ^ w := Nat.two_pow_pos w
    generalize hX : i &&& (2 ^ (w + 1) - i) = X
    have hdiv : X / 2 = i / 2 &&& (2 ^ (w + 1) - i) / 2 := by rw [← hX, Nat.and_div_two]
    have hmod : X % 2 = 1 ↔ i % 2 = 1 ∧ (2 ^ (w + 1) - i) % 2 = 1 := by rw [← hX]; exact Nat.and_mod_two_eq_one
    by_cases hodd : i % 2 = 1
    · rw [lowbit_odd i hodd]
      have e : (2 ^ (w + 1) - i) / 2 = 2 ^ w - (i / 2 + 1) := by omega
      rw [e, and_compl w (i / 2) (by omega)] at hdiv
      have : X % 2 = 1 := hmod.mpr ⟨hodd, by omega⟩
      omega
    · have heven : i % 2 = 0 := by omega
      rw [lowbit_even i h0 heven]
      have e : (2 ^ (w + 1) - i) / 2 = 2 ^ w - i / 2 := by omega
      rw [e, ih (i / 2) (by omega) (by omega)] at hdiv
      have : X % 2 ≠ 1 := fun h => by have := (hmod.mp h).1; omega
      omega

/-- the bit pattern of `-(idx as isize)` -/
def negPat (i : Nat) : Nat := 2 ^ 64 - i

theorem neg_ok (i : Nat) (h0 : 0 < i) (h : i < 2 ^ 63) : Rs.neg 64 i = Res.ok (negPat i) := by
  have hne : ¬ i = 2 ^ (64 - 1) := by
    intro e
    rw [e] at h
    exact absurd h (by decide)
  rw [Rs.neg, if_neg hne, negPat, Nat.mod_eq_of_lt (by omega)]

/-- `idx.wrapping_neg()` is the same bit pattern (robustness: the source may compute `-idx` on `usize` instead of `isize`) -/
theorem wrappingNeg_eq (i : Nat) (h0 : 0 < i) (h : i < 2 ^ 63) : Rs.wrappingNeg 64 i = negPat i := by
  rw [Rs.wrappingNeg, negPat, Nat.mod_eq_of_lt (by omega), Nat.mod_eq_of_lt (by omega)]

theorem and_negPat (i : Nat) (h0 : 0 < i) (h : i < 2 ^ 63) : i &&& negPat i = lowbit i :=
  and_neg_eq_lowbit 64 i h0 (by omega)

/-- `idx & (idx - 1)` clears the lowest set bit (robustness: the other common way to write the `get` step) -/
theorem and_pred : ∀ (n i : Nat), i < n → 0 < i → i &&& (i - 1) = i - lowbit i := by
  intro n
  induction n with
  | zero => intro i h; omega
  | succ n ih =>
    intro i hn h0
    generalize hX : i &&& (i - 1) = X
    have hdiv : X / 2 = i / 2 &&& (i - 1) / 2 := by rw [← hX, Nat.and_div_two]
    have hmod : X % 2 = 1 ↔ i % 2 = 1 ∧ (i - 1) % 2 = 1 := by rw [← hX]; exact Nat.and_mod_two_eq_one
    have hm0 : X % 2 ≠ 1 := fun h => by have := hmod.mp h; omega
    by_cases hodd : i % 2 = 1
    · rw [lowbit_odd i hodd]
      have e : (i - 1) / 2 = i / 2 := by omega
      rw [e, Nat.and_self] at hdiv
      omega
    · have heven : i % 2 = 0 := by omega
      rw [lowbit_even i h0 heven]
      have e : (i - 1) / 2 = i / 2 - 1 := by omega
      rw [e, ih (i / 2) (by omega) (by omega)] at hdiv
      have := lowbit_le (i / 2)
      omega

/-! ### `get` -/

variable {α : Type}

theorem getD_of_lt (l : List α) (i : Nat) (d : α) (h : i < l.length) : l.getD i d = l[i] := by
  rw [List.getD_eq_getElem?_getD, List.getElem?_eq_getElem h]; rfl

/-- the translated `while idx > 0` loop is the model's `getLoop` (with one unit of fuel less) -/
theorem get_while_eq (op : α → α → α) (dflt : α) (tree : List α) (hlen : tree.length ≤ 2 ^ 63) :
    ∀ (fuel idx : Nat) (sum : α), idx < fuel → idx < tree.length →
      ∃ i', get_while1 op dflt tree fuel (sum, idx) = Res.ok (getLoop op dflt tree (fuel - 1) idx sum, i') := by
  intro fuel
  induction fuel with
  | zero => intro idx sum h; omega
  | succ f ih =>
    intro idx sum hf hidx
    by_cases hpos : idx > 0
    · have hlp := lowbit_pos idx hpos
      have hll := lowbit_le idx
      have e1 : Rs.idx tree idx = Res.ok (tree.getD idx dflt) := by
        rw [getD_of_lt tree idx dflt hidx]; exact Rs.idx_ok hidx
      have e2 : Rs.neg 64 idx = Res.ok (negPat idx) := neg_ok idx hpos (by omega)
      have e2' : Rs.wrappingNeg 64 idx = negPat idx := wrappingNeg_eq idx hpos (by omega)
      have e3 : Rs.sub idx (idx &&& negPat idx) = Res.ok (idx - lowbit idx) := by
        rw [and_negPat idx hpos (by omega)]; exact Rs.sub_ok hll
      have e4 : Rs.sub idx 1 = Res.ok (idx - 1) := Rs.sub_ok (by omega)
      have e5 : idx &&& (idx - 1) = idx - lowbit idx := and_pred (idx + 1) idx (by omega) hpos
      obtain ⟨i', hi'⟩ := ih (idx - lowbit idx) (op sum (tree.getD idx dflt)) (by omega) (by omega)
      refine ⟨i', ?_⟩
      cases f with
      | zero => omega
      | succ f' =>
        simp only [Nat.add_sub_cancel, List.getD_eq_getElem?_getD] at hi' e1 ⊢
        rw [get_while1]
        simp [getLoop, hpos, e1, e2, e2', e3, e4, e5, hi']
    · have h0 : idx = 0 := by omega
      subst h0
      refine ⟨0, ?_⟩
      cases f with
      | zero => simp [get_while1, getLoop]
      | succ f' => simp [get_while1, getLoop]

/-- **`FenwickTree::get` as written in the source = the model's `get`**, for every in-range index: no panic (no
out-of-bounds read, `idx + 1` does not overflow, `-(idx as isize)` is never `-isize::MIN`, `idx -= …` does not underflow)
and the fuel suffices. -/
theorem get_eq_model (op : α → α → α) (dflt : α) (tree : List α) (idx : Nat) (h : idx + 1 < tree.length)
    (hlen : tree.length ≤ 2 ^ 63) :
    get op dflt tree idx = Res.ok (Model.Fenwick.get op dflt tree idx) := by
  have e1 : Rs.add 64 idx 1 = Res.ok (idx + 1) := Rs.add_ok (by omega)
  obtain ⟨i', hi'⟩ := get_while_eq op dflt tree hlen (idx + 1 + 1) (idx + 1) dflt (by omega) h
  simp only [Nat.add_sub_cancel] at hi'
  simp [Gen.SrcFenwick.get, Model.Fenwick.get, e1, hi']

/-! ### `set` -/

theorem setLoop_length (op : α → α → α) (dflt val : α) :
    ∀ (fuel idx : Nat) (tree : List α), (setLoop op dflt val fuel idx tree).length = tree.length := by
  intro fuel
  induction fuel with
  | zero => intro idx tree; simp [setLoop]
  | succ f ih =>
    intro idx tree
    rw [setLoop]
    split
    · rw [ih]; simp
    · rfl

/-- the translated `while idx < self.tree.len()` loop is the model's `setLoop` (with one unit of fuel less) -/
theorem set_while_eq (op : α → α → α) (dflt val : α) :
    ∀ (fuel idx : Nat) (tree : List α), 0 < idx → tree.length ≤ 2 ^ 63 → tree.length < fuel + idx → 0 < fuel →
      ∃ i', set_while1 op dflt val fuel (tree, idx) = Res.ok (setLoop op dflt val (fuel - 1) idx tree, i') := by
  intro fuel
  induction fuel with
  | zero => intro idx tree h0 hlen hf hfuel; omega
  | succ f ih =>
    intro idx tree hpos hlen hf _
    by_cases hidx : idx < tree.length
    · have hlp := lowbit_pos idx hpos
      have hll := lowbit_le idx
      have e1 : Rs.idx tree idx = Res.ok tree[idx] := Rs.idx_ok hidx
      have e0 : tree.getD idx dflt = tree[idx] := getD_of_lt tree idx dflt hidx
      have e1' : ∀ v : α, Rs.setIdx tree idx v = Res.ok (tree.set idx v) := fun v => Rs.setIdx_ok hidx
      have e2 : Rs.neg 64 idx = Res.ok (negPat idx) := neg_ok idx hpos (by omega)
      have e2' : Rs.wrappingNeg 64 idx = negPat idx := wrappingNeg_eq idx hpos (by omega)
      have e3 : Rs.add 64 idx (idx &&& negPat idx) = Res.ok (idx + lowbit idx) := by
        rw [and_negPat idx hpos (by omega)]; exact Rs.add_ok (by omega)
      obtain ⟨i', hi'⟩ := ih (idx + lowbit idx) (tree.set idx (op tree[idx] val)) (by omega)
        (by simpa using hlen) (by simp; omega) (by omega)
      refine ⟨i', ?_⟩
      cases f with
      | zero => omega
      | succ f' =>
        simp only [Nat.add_sub_cancel] at hi' ⊢
        rw [set_while1, setLoop, e0]
        simp [hidx, e1, e1', e2, e2', e3, hi']
    · refine ⟨idx, ?_⟩
      cases f with
      | zero => simp [set_while1, setLoop, hidx]
      | succ f' => simp [set_while1, setLoop, hidx]

/-- **`FenwickTree::set` as written in the source = the model's `set`** (the new content of `self.tree`): no panic, the
fuel suffices. -/
theorem set_eq_model (op : α → α → α) (dflt : α) (tree : List α) (idx : Nat) (val : α) (hidx : idx + 1 < 2 ^ 64)
    (hlen : tree.length ≤ 2 ^ 63) :
    set op dflt tree idx val = Res.ok (Model.Fenwick.set op dflt tree idx val) := by
  have e1 : Rs.add 64 idx 1 = Res.ok (idx + 1) := Rs.add_ok hidx
  obtain ⟨i', hi'⟩ := set_while_eq op dflt val (tree.length + 1) (idx + 1) tree (by omega) hlen (by omega)
    (by omega)
  simp only [Nat.add_sub_cancel] at hi'
  simp [Gen.SrcFenwick.set, Model.Fenwick.set, e1, hi']

/-- a history of updates through the translated `set`, starting from `FenwickTree::new(n)`, builds the model's tree -/
theorem run_eq_model (op : α → α → α) (dflt : α) (n : Nat) (hn : n + 1 ≤ 2 ^ 63) (ups : List (Nat × α)) :
    ∀ (tree : List α), tree.length = n + 1 → (∀ u ∈ ups, u.1 < n) →
      ups.foldlM (fun t u => set op dflt t u.1 u.2) tree
        = Res.ok (ups.foldl (fun t u => Model.Fenwick.set op dflt t u.1 u.2) tree) := by
  induction ups with
  | nil => intro tree _ _; simp
  | cons u us ih =>
    intro tree hlen hu
    have h1 : u.1 < n := hu u (by simp)
    rw [List.foldlM_cons, List.foldl_cons, set_eq_model op dflt tree u.1 u.2 (by omega) (by omega), Res.ok_bind]
    exact ih _ (by rw [Model.Fenwick.set, setLoop_length]; exact hlen) (fun u' hu' => hu u' (by simp [hu']))

theorem run_length (op : α → α → α) (dflt : α) (ups : List (Nat × α)) :
    ∀ (tree : List α), (ups.foldl (fun t u => Model.Fenwick.set op dflt t u.1 u.2) tree).length = tree.length := by
  induction ups with
  | nil => intro tree; rfl
  | cons u us ih => intro tree; rw [List.foldl_cons, ih, Model.Fenwick.set, setLoop_length]

end RbV.Thm.GenSrcFenwick
