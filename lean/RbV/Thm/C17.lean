import RbV.Spec.RankSelect
import RbV.Lemmas.RankSelect
import RbV.Lemmas.RankSelectModel
import RbV.Lemmas.Wavelet
import RbV.Lemmas.Bytes8
import RbV.Gen.Dna2Int
import RbV.Thm.GenSrcRankSelect
import RbV.Thm.GenSrcWavelet
import RbV.Thm.GenSrcWaveletCompose
import RbV.Thm.GenSrcSelect
import RbV.Thm.GenSrcWaveletNew
import RbV.Thm.GenSrcSbRankOrd
/-!
# C17 — rank/select and wavelet-matrix queries equal naive counting

Statements only; helper lemmas are in `RbV/Lemmas/RankSelect.lean`, the mirror models in `RbV/Model/RankSelect.lean`.
Bit vectors are `List Bool`; `rank b bits i` counts the `b`-bits at positions `0..=i`; `IsSelect b bits j p` says
position `p` holds the `j`-th `b`-bit.  The driver's expected values are `prefixCounts` / `positions` look-ups.
-/
namespace RbV.Thm.C17
open RbV.Spec.RankSelect RbV.Lemmas.RankSelect

/-- the one-pass table the driver evaluates is `rank_1`/`rank_0` of the property, `None` exactly beyond the end -/
theorem rank_oracle (b : Bool) (bits : List Bool) (i : Nat) :
    (prefixCounts b bits 0)[i]? = rankRef b bits i := by
  rw [prefixCounts_getElem?]; unfold rankRef; simp

/-- `rank_0(i) = (i + 1) - rank_1(i)` -/
theorem rank0_add_rank1 (bits : List Bool) (i : Nat) (hi : i < bits.length) :
    rank true bits i + rank false bits i = i + 1 := by
  unfold rank
  have h := List.length_take (i := i + 1) (l := bits)
  have : ∀ l : List Bool, l.count true + l.count false = l.length := by
    intro l; induction l with
    | nil => rfl
    | cons x xs ih => cases x <;> simp <;> omega
  rw [this, h]; omega

/-- the driver's `select` answer is the position of the `j`-th `b`-bit, for every `j` (so `j = 0` has none) -/
theorem select_oracle_iff (b : Bool) (bits : List Bool) (j p : Nat) :
    selectRef b bits j = some p ↔ IsSelect b bits j p := by
  unfold selectRef IsSelect
  by_cases hj : j = 0
  · subst hj
    simp only [if_true]
    constructor
    · intro h; cases h
    · rintro ⟨h1, h2⟩
      have := rank_pos_of_getElem? b bits p h1
      omega
  · simp only [hj, if_false, positions_getElem?]
    constructor
    · rintro ⟨q, rfl, h1, h2⟩
      simp only [Nat.zero_add]
      exact ⟨h1, by omega⟩
    · rintro ⟨h1, h2⟩
      exact ⟨p, by omega, h1, by omega⟩

/-- `None` exactly for `j = 0` or `j` larger than the number of `b`-bits -/
theorem select_none_iff (b : Bool) (bits : List Bool) (j : Nat) :
    selectRef b bits j = none ↔ j = 0 ∨ bits.count b < j := by
  unfold selectRef
  by_cases hj : j = 0
  · simp [hj]
  · simp only [hj, if_false, false_or, List.getElem?_eq_none_iff, positions_length]
    omega

/-- the position of the `j`-th `b`-bit is unique -/
theorem select_unique (b : Bool) (bits : List Bool) (j p p' : Nat)
    (h : IsSelect b bits j p) (h' : IsSelect b bits j p') : p = p' := by
  have h1 := (select_oracle_iff b bits j p).mpr h
  have h2 := (select_oracle_iff b bits j p').mpr h'
  rw [h1] at h2; exact Option.some.inj h2

/-- rank and select are mutually inverse: `rank(select(j)) = j` … -/
theorem rank_select_inverse (b : Bool) (bits : List Bool) (j p : Nat)
    (h : selectRef b bits j = some p) : rankRef b bits p = some j := by
  have ⟨h1, h2⟩ := (select_oracle_iff b bits j p).mp h
  unfold rankRef
  have : p < bits.length := by
    have := List.getElem?_eq_some_iff.mp h1; exact this.1
  simp [this, h2]

/-- … and `select(rank(p)) = p` at every position holding a `b`-bit -/
theorem select_rank_inverse (b : Bool) (bits : List Bool) (p : Nat) (h : bits[p]? = some b) :
    selectRef b bits (rank b bits p) = some p :=
  (select_oracle_iff b bits _ p).mpr ⟨h, rfl⟩

/-- wavelet matrix: the driver's expected `rank(c, p)` is the number of occurrences of `c` in `text[0..=p]` -/
theorem occ_oracle (text : List Nat) (c p : Nat) (hp : p < text.length) :
    (prefixCounts true (text.map (· == c)) 0)[p]? = some (occ text c p) := by
  rw [prefixCounts_getElem?]
  simp only [List.length_map, hp, if_true, Nat.zero_add, Option.some.injEq]
  unfold rank occ
  rw [← List.map_take]
  generalize text.take (p + 1) = l
  induction l with
  | nil => rfl
  | cons x xs ih =>
    simp only [List.map_cons, List.count_cons, ih]
    by_cases hx : x = c <;> simp [hx]

/-- the symbol-code table of the pinned tree passes the check the driver applies to the printed table … -/
theorem dna2int_literal_ok : tableOk dna2intLit = true := by decide +kernel

/-- **source-extracted obligation** (DESIGN §8): the `DNA2INT` table extracted from `wavelet_matrix.rs` on *this* run
(`RbV/Gen/Dna2Int.lean`, rewritten by tools/gen_tables.py before `lake build`) passes the same check — the codes of
A, C, G, T, N, $ are pairwise distinct and below 8.  The driver runs the mirror model over this table. -/
theorem dna2int_generated_ok : tableOk Gen.Dna2Int.table = true := by decide +kernel

/-- the extracted number of levels (`let height: usize = 3` in `WaveletMatrix::new`) is the 3 the mirror model
`Model.Wavelet.build` is written for, and every code of the six symbols fits into that many bits -/
theorem dna2int_codes_fit_height :
    Gen.Dna2Int.height = 3 ∧ ∀ a ∈ dnaSyms, Gen.Dna2Int.table.getD a 0 < 2 ^ Gen.Dna2Int.height := by decide +kernel

/-- … and that check means: the codes of A, C, G, T, N, $ are below 8 (three bit levels) and pairwise distinct -/
theorem tableOk_sound (t : List Nat) (h : tableOk t = true) :
    t.length = 128 ∧ (∀ a ∈ dnaSyms, t.getD a 0 < 8) ∧
    (∀ a ∈ dnaSyms, ∀ b ∈ dnaSyms, t.getD a 0 = t.getD b 0 → a = b) := by
  unfold tableOk at h
  simp only [Bool.and_eq_true, List.all_eq_true, beq_iff_eq, decide_eq_true_eq, Bool.or_eq_true,
    bne_iff_ne, ne_eq] at h
  refine ⟨h.1.1, h.1.2, ?_⟩
  intro a ha b hb hab
  rcases h.2 a ha b hb with h' | h'
  · exact h'
  · exact absurd hab h'

/-! ## Mirror models of the Rust algorithms (`RbV/Model/RankSelect.lean`, `RbV/Model/Wavelet.lean`) -/
section models
open RbV.Model.RankSelect

/-- the driver reads blocks from the array `chunks bits`; that is `get_block` at every index -/
theorem chunks_getD (bits : List Bool) (b : Nat) : (chunks bits).getD b [] = getBlock bits b := by
  unfold chunks
  rw [List.getD_eq_getElem?_getD, List.getElem?_map]
  by_cases hb : b < (bits.length + 7) / 8
  · simp [List.getElem?_range hb]
  · have : (List.range ((bits.length + 7) / 8))[b]? = none := by
      rw [List.getElem?_eq_none_iff]; simp; omega
    simp only [this, Option.map_none, Option.getD_none]
    unfold getBlock
    rw [List.drop_eq_nil_of_le (by omega)]; rfl

/-- the model's blocks are lists of at most 8 bits; these are exactly the `u8` operations of the code on the byte
`get_block` returns: `count_ones`, `count_zeros` (padding counted), `(b & ((2u16 << j) - 1) as u8).count_ones()`
and the bit test `b & (1 << i) != 0` -/
theorem block_ops_are_byte_ops (blk : List Bool) (h : blk.length ≤ 8) :
    RbV.Lemmas.Bytes8.popcount8 (RbV.Lemmas.Bytes8.byteOf blk) = countOnes blk ∧
    8 - RbV.Lemmas.Bytes8.popcount8 (RbV.Lemmas.Bytes8.byteOf blk) = countZeros blk ∧
    (∀ j, j < 8 → RbV.Lemmas.Bytes8.popcount8 (RbV.Lemmas.Bytes8.byteOf blk &&& RbV.Lemmas.Bytes8.rankMask j)
      = countOnes (blk.take (j + 1))) ∧
    (∀ i, i < 8 → ((RbV.Lemmas.Bytes8.byteOf blk &&& (1 <<< i)) != 0) = blk.getD i false) :=
  ⟨RbV.Lemmas.Bytes8.popcount8_byteOf blk h, RbV.Lemmas.Bytes8.countZeros_byteOf blk h,
   fun j hj => RbV.Lemmas.Bytes8.popcount8_masked blk j h hj, fun i hi => RbV.Lemmas.Bytes8.bit_test blk i hi⟩

/-- [A] `superblocks`: entry `m` is the number of `t`-bits before bit `m·32k` (for the 0-table the zero padding of
the last byte never enters an entry) -/
theorem superblocks_correct (t : Bool) (bits : List Bool) (k : Nat) (hk : 1 ≤ k) (m : Nat)
    (hm : m * (k * 32) < bits.length) :
    ((superblocks t bits.length (k * 32) (getBlock bits)).getD m (.first 0)).val
      = (bits.take (m * (k * 32))).count t :=
  RbV.Lemmas.RankSelectModel.superblocks_val t bits k hk m hm

/-- [A] `rank_correct`: the model of `rank_1` (superblock + whole bytes + masked byte) equals the reference for every
bit vector, every superblock factor `k ≥ 1` and every `i` (`None` exactly for `i ≥ n`) -/
theorem rank_correct (bits : List Bool) (k : Nat) (hk : 1 ≤ k) (i : Nat) :
    rank1 bits.length (k * 32) (getBlock bits) (superblocks true bits.length (k * 32) (getBlock bits)) i
      = rankRef true bits i ∧
    rank0 bits.length (k * 32) (getBlock bits) (superblocks true bits.length (k * 32) (getBlock bits)) i
      = rankRef false bits i :=
  ⟨RbV.Lemmas.RankSelectModel.rank1_correct bits k hk i, RbV.Lemmas.RankSelectModel.rank0_correct bits k hk i⟩

/-- [B] `select_correct`: the model of `select_x` (search over the superblocks, byte scan, bit scan that ignores the
padding) equals the reference for both polarities, every non-empty bit vector, every `k ≥ 1`, every `j` -/
theorem select_correct (b : Bool) (bits : List Bool) (k : Nat) (hk : 1 ≤ k) (hn : bits ≠ []) (j : Nat) :
    selectX bits.length (k * 32) (getBlock bits) (superblocks b bits.length (k * 32) (getBlock bits)) b j
      = selectRef b bits j :=
  RbV.Lemmas.RankSelectModel.select_correct b bits k hk hn j

/-- [B] rank and select of the *model* are mutually inverse -/
theorem model_rank_select_inverse (bits : List Bool) (k : Nat) (hk : 1 ≤ k) (hn : bits ≠ []) (j p : Nat)
    (h : selectX bits.length (k * 32) (getBlock bits) (superblocks true bits.length (k * 32) (getBlock bits)) true j
      = some p) :
    rank1 bits.length (k * 32) (getBlock bits) (superblocks true bits.length (k * 32) (getBlock bits)) p = some j := by
  rw [select_correct true bits k hk hn j] at h
  rw [(rank_correct bits k hk p).1]
  exact rank_select_inverse true bits j p h

/-- [C] wavelet matrix: for any code table that passes the driver's check (`tableOk`: codes of A,C,G,T,N,$ below 8 and
pairwise distinct — `dna2int_literal_ok` for the pinned table), any text over these six symbols, any such symbol `c`
and any `p < |text|`, the three-level model returns the number of occurrences of `c` in `text[0..=p]` -/
theorem wavelet_rank_correct (t : List Nat) (ht : tableOk t = true) (text : List Nat) (c p : Nat)
    (hp : p < text.length) (hc : c ∈ dnaSyms) (htext : ∀ x ∈ text, x ∈ dnaSyms) :
    RbV.Model.Wavelet.rank (fun v => t.getD v 0)
        (RbV.Model.Wavelet.rkSpec (RbV.Model.Wavelet.build (fun v => t.getD v 0) text))
        (RbV.Model.Wavelet.build (fun v => t.getD v 0) text) c p
      = occ text c p := by
  obtain ⟨_, hlt, hinj⟩ := tableOk_sound t ht
  exact RbV.Lemmas.Wavelet.rank_eq_occ _ text c p hp (hlt c hc) (fun x hx => hlt x (htext x hx))
    (fun x hx hxc => hinj x (htext x hx) c hc hxc)

/-- [C] instantiated with the table extracted from the source on this run: no hypothesis about the table is left -/
theorem wavelet_rank_correct_generated (text : List Nat) (c p : Nat)
    (hp : p < text.length) (hc : c ∈ dnaSyms) (htext : ∀ x ∈ text, x ∈ dnaSyms) :
    RbV.Model.Wavelet.rank (fun v => Gen.Dna2Int.table.getD v 0)
        (RbV.Model.Wavelet.rkSpec (RbV.Model.Wavelet.build (fun v => Gen.Dna2Int.table.getD v 0) text))
        (RbV.Model.Wavelet.build (fun v => Gen.Dna2Int.table.getD v 0) text) c p
      = occ text c p :=
  wavelet_rank_correct Gen.Dna2Int.table dna2int_generated_ok text c p hp hc htext

-- non-vacuity: a 40-bit vector (two superblocks for k = 1, a one at bit 33, a zero run in front)
def exBits : List Bool := List.replicate 33 false ++ [true, false, true, true, false, false, true]
example : rank1 40 32 (getBlock exBits) (superblocks true 40 32 (getBlock exBits)) 36 = some 3 := by decide
example : selectX 40 32 (getBlock exBits) (superblocks true 40 32 (getBlock exBits)) true 4 = some 39 := by decide
example : selectX 40 32 (getBlock exBits) (superblocks false 40 32 (getBlock exBits)) false 37 = none := by decide
example : RbV.Model.Wavelet.rank (fun v => Gen.Dna2Int.table.getD v 0)
    (RbV.Model.Wavelet.rkSpec (RbV.Model.Wavelet.build (fun v => Gen.Dna2Int.table.getD v 0) [65, 67, 78, 36, 78, 65]))
    (RbV.Model.Wavelet.build (fun v => Gen.Dna2Int.table.getD v 0) [65, 67, 78, 36, 78, 65]) 78 4 = 2 := by decide

end models

/-! ## rank/select: function bodies translated from the source text (session 4, genbits; docs/notes/GEN.md)

`RbV/Gen/SrcRankSelect.lean` is regenerated from `src/data_structures/rank_select.rs` on every `./check C17`:
`fn superblocks`, `RankSelect::rank_1`, `RankSelect::rank_0`.  External to rust-bio and therefore *assumed*: the `bv` crate
(`bits.len()` = number of bits, `bits.get_block(b)` = the byte `blockByte bits b` whose bit `k` is bit `8b+k` of the vector,
zero beyond the end), `u8::count_ones/count_zeros` (`Rs.countOnes`, `Rs.countZeros 8`) and the `f64` ceiling
`(len as f64 / 8.0).ceil()` (`CeilOk cd8 len`: it is `⌈len / 8⌉`).  Proofs: `RbV/Thm/GenSrcRankSelect.lean`. -/
section rankselect_source
open RbV.Model.RankSelect RbV.Thm.GenSrcRankSelect

/-- **`fn superblocks`, as written, is the model's `superblocks`** (both polarities, every `s > 0`) -/
theorem superblocks_source_eq_model (bl : List Bool → Nat) (cd8 : Nat → Nat) (t : Bool) (bits : List Bool) (s : Nat)
    (hs : 0 < s) (hn : bits.length < 2 ^ 60) (hcd : CeilOk cd8 bits.length) :
    Gen.SrcRankSelect.superblocks (σ := SbRank) blockByte List.length bl cd8 SbRank.first SbRank.some SbRank.val
        t bits.length s bits
      = Rs.Res.ok (superblocks t bits.length s (getBlock bits)) :=
  superblocks_eq_model bl cd8 t bits s hs hn hcd

/-- **`RankSelect::rank_1`, as written, is the model's `rank1`** for every table `sbs1` that covers `i` (`hsb`) and whose
entry cannot overflow the running `u64` rank (`hbound`) -/
theorem rank1_source_eq_model (bl : List Bool → Nat) (cd8 : Nat → Nat) (bits : List Bool) (n s k : Nat)
    (sbs1 sbs0 : List SbRank) (i : Nat) (hs : 0 < s) (hsb : i < n → i / s < sbs1.length)
    (hbound : i < n → (sbs1.getD (i / s) (.first 0)).val + i + 8 < 2 ^ 64) :
    Gen.SrcRankSelect.rank1 (σ := SbRank) blockByte List.length bl cd8 SbRank.first SbRank.some SbRank.val
        n bits sbs1 sbs0 s k i
      = Rs.Res.ok (rank1 n s (getBlock bits) sbs1 i) :=
  rank1_eq_model bl cd8 bits n s k sbs1 sbs0 i hs hsb hbound

/-- **`RankSelect::rank_0`, as written** (`self.rank_1(i).map(|r| (i + 1) - r)`) **is the model's `rank0`** -/
theorem rank0_source_eq_model (bl : List Bool → Nat) (cd8 : Nat → Nat) (bits : List Bool) (n s k : Nat)
    (sbs1 sbs0 : List SbRank) (i : Nat) (hs : 0 < s) (hsb : i < n → i / s < sbs1.length)
    (hbound : i < n → (sbs1.getD (i / s) (.first 0)).val + i + 8 < 2 ^ 64)
    (hle : ∀ r, rank1 n s (getBlock bits) sbs1 i = some r → r ≤ i + 1) :
    Gen.SrcRankSelect.rank0 (σ := SbRank) blockByte List.length bl cd8 SbRank.first SbRank.some SbRank.val
        n bits sbs1 sbs0 s k i
      = Rs.Res.ok (rank0 n s (getBlock bits) sbs1 i) :=
  rank0_eq_model bl cd8 bits n s k sbs1 sbs0 i hs hsb hbound hle

/-- **generated code = specification**: the translated `superblocks` followed by the translated `rank_1` / `rank_0` return
the number of 1-bits / 0-bits among positions `0..=i` (`None` exactly for `i ≥ n`), for every bit vector of fewer than 2^60
bits, every `k ≥ 1`, every `i`; no operation panics -/
theorem rank_source_exact_on_superblocks (bl : List Bool → Nat) (cd8 : Nat → Nat) (bits : List Bool) (k : Nat) (hk : 1 ≤ k)
    (hn : bits.length < 2 ^ 60) (hcd : CeilOk cd8 bits.length) (sbs0 : List SbRank) (i : Nat) :
    ∃ sbs1, Gen.SrcRankSelect.superblocks (σ := SbRank) blockByte List.length bl cd8
          SbRank.first SbRank.some SbRank.val true bits.length (k * 32) bits = Rs.Res.ok sbs1 ∧
      Gen.SrcRankSelect.rank1 (σ := SbRank) blockByte List.length bl cd8 SbRank.first SbRank.some SbRank.val
          bits.length bits sbs1 sbs0 (k * 32) k i = Rs.Res.ok (rankRef true bits i) ∧
      Gen.SrcRankSelect.rank0 (σ := SbRank) blockByte List.length bl cd8 SbRank.first SbRank.some SbRank.val
          bits.length bits sbs1 sbs0 (k * 32) k i = Rs.Res.ok (rankRef false bits i) :=
  GenSrcRankSelect.rank_source_exact bl cd8 bits k hk hn hcd sbs0 i

-- non-vacuity on the 40-bit vector `exBits` (two superblocks for k = 1): the translated functions, evaluated
example : Gen.SrcRankSelect.superblocks (σ := SbRank) blockByte List.length (fun _ => 5) (fun x => (x + 7) / 8)
    SbRank.first SbRank.some SbRank.val true 40 32 exBits = Rs.Res.ok [SbRank.first 0, SbRank.some 0] := by decide
example : Gen.SrcRankSelect.rank1 (σ := SbRank) blockByte List.length (fun _ => 5) (fun x => (x + 7) / 8)
    SbRank.first SbRank.some SbRank.val 40 exBits [SbRank.first 0, SbRank.some 0] [] 32 1 36 = Rs.Res.ok (some 3) := by
  decide
example : Gen.SrcRankSelect.rank0 (σ := SbRank) blockByte List.length (fun _ => 5) (fun x => (x + 7) / 8)
    SbRank.first SbRank.some SbRank.val 40 exBits [SbRank.first 0, SbRank.some 0] [] 32 1 40 = Rs.Res.ok none := by
  decide
-- superblock size 0: `n / s` in the capacity computation panics (division by zero)
example : Gen.SrcRankSelect.superblocks (σ := SbRank) blockByte List.length (fun _ => 5) (fun x => (x + 7) / 8)
    SbRank.first SbRank.some SbRank.val true 40 0 exBits = Rs.Res.panic := by decide

end rankselect_source

/-! ## the constructor and select, translated from the source text (session 5, gensel; docs/notes/GEN.md, C17.md)

`RankSelect::new`, `select_x`, `select_1`, `select_0` are part of `RbV/Gen/SrcRankSelect.lean` now.  Additionally *assumed*
(external to rust-bio): `self.bits.block_len()` = `⌈len / 8⌉` (bv crate; hypothesis `hbl`), and the documented contract of
`<[T]>::binary_search` (`BSearchOk`: on a slice sorted by `Ord`, `Ok(i)` is the index of a matching element, `Err(i)` the
insertion point) for the order `SbRank.lt` — the mirror of `impl Ord for SuperblockRank`, which is not translated.
Proofs: `RbV/Thm/GenSrcSelect.lean`, `RbV/Lemmas/RankSelectSorted.lean`. -/
section select_source
open RbV.Model.RankSelect RbV.Thm.GenSrcRankSelect RbV.Thm.GenSrcSelect RbV.Lemmas.RankSelectSorted

/-- **`RankSelect::new`, as written, builds the model's structure** (`n`, the bits, both tables of `fn superblocks`, `s = 32k`, `k`) -/
theorem rankselect_new_source_eq_model (bl : List Bool → Nat) (cd8 : Nat → Nat) (bits : List Bool) (k : Nat) (hk : 1 ≤ k)
    (hks : k * 32 < 2 ^ 64) (hlen : bits.length < 2 ^ 60) (hcd : CeilOk cd8 bits.length) :
    Gen.SrcRankSelect.new (σ := SbRank) blockByte List.length bl cd8 SbRank.first SbRank.some SbRank.val bits k
      = Rs.Res.ok (bits.length, bits, superblocks true bits.length (k * 32) (getBlock bits),
          superblocks false bits.length (k * 32) (getBlock bits), k * 32, k) :=
  new_eq_model bl cd8 bits k hk hks hlen hcd

/-- **the table `fn superblocks` builds is sorted** w.r.t. the order of `SuperblockRank`, so the precondition of
`binary_search` holds at the call in `select_x` -/
theorem superblocks_table_sorted (t : Bool) (bits : List Bool) (k : Nat) (hk : 1 ≤ k) (a b : Nat) (hab : a < b)
    (hb : b < (superblocks t bits.length (k * 32) (getBlock bits)).length) :
    SbRank.lt ((superblocks t bits.length (k * 32) (getBlock bits))[b])
      ((superblocks t bits.length (k * 32) (getBlock bits))[a]'(by omega)) = false :=
  superblocks_sorted t bits k hk a b hab hb

/-- the assumed contract of `binary_search` is satisfiable: the linear search of the mirror model (`searchIdx`) has it -/
theorem binary_search_contract_satisfiable : BSearchOk SbRank.lt searchIdx := searchIdx_ok

/-- **`RankSelect::select_x`, as written, is the model's `selectX`** for both polarities: binary search (any function with
the documented contract), block scan, bit scan with the early `return`, padding bits skipped -/
theorem select_source_eq_model (bl : List Bool → Nat) (cd8 : Nat → Nat) (bs : List SbRank → SbRank → Nat)
    (isMatch : Nat → Bool) (countAll : Nat → Nat) (b : Bool) (bits : List Bool) (k : Nat) (hk : 1 ≤ k)
    (hks : k * 32 < 2 ^ 64) (hn : bits ≠ []) (hlen : bits.length < 2 ^ 60) (hbl : bl bits = (bits.length + 7) / 8)
    (hbs : BSearchOk SbRank.lt bs) (hcl : ClosuresOk b bits isMatch countAll) (sbs1 sbs0 : List SbRank) (j : Nat) :
    Gen.SrcRankSelect.selectX (σ := SbRank) blockByte List.length bl cd8 SbRank.first SbRank.some SbRank.val bs isMatch
        countAll bits.length bits sbs1 sbs0 (k * 32) k j (superblocks b bits.length (k * 32) (getBlock bits))
      = Rs.Res.ok (selectX bits.length (k * 32) (getBlock bits) (superblocks b bits.length (k * 32) (getBlock bits)) b j) :=
  selectX_eq_model bl cd8 bs isMatch countAll b bits k hk hks hn hlen hbl hbs hcl sbs1 sbs0 j

/-- **`select_1` / `select_0`, as written** (the closures they pass and the table they pick) **are the model's `selectX`**
with polarity 1 on the 1-table resp. polarity 0 on the 0-table -/
theorem select_wrappers_source_eq_model (bl : List Bool → Nat) (cd8 : Nat → Nat) (bs : List SbRank → SbRank → Nat)
    (bits : List Bool) (k : Nat) (hk : 1 ≤ k) (hks : k * 32 < 2 ^ 64) (hn : bits ≠ []) (hlen : bits.length < 2 ^ 60)
    (hbl : bl bits = (bits.length + 7) / 8) (hbs : BSearchOk SbRank.lt bs) (j : Nat) :
    Gen.SrcRankSelect.select1 (σ := SbRank) blockByte List.length bl cd8 SbRank.first SbRank.some SbRank.val bs
        bits.length bits (superblocks true bits.length (k * 32) (getBlock bits))
        (superblocks false bits.length (k * 32) (getBlock bits)) (k * 32) k j
      = Rs.Res.ok (selectX bits.length (k * 32) (getBlock bits) (superblocks true bits.length (k * 32) (getBlock bits)) true j) ∧
    Gen.SrcRankSelect.select0 (σ := SbRank) blockByte List.length bl cd8 SbRank.first SbRank.some SbRank.val bs
        bits.length bits (superblocks true bits.length (k * 32) (getBlock bits))
        (superblocks false bits.length (k * 32) (getBlock bits)) (k * 32) k j
      = Rs.Res.ok (selectX bits.length (k * 32) (getBlock bits) (superblocks false bits.length (k * 32) (getBlock bits)) false j) :=
  ⟨select1_eq_model bl cd8 bs bits k hk hks hn hlen hbl hbs _ j, select0_eq_model bl cd8 bs bits k hk hks hn hlen hbl hbs _ j⟩

/-- **`select` exact, from the translated constructor**: `RankSelect::new(bits, k)` as written, then `select_1(j)` /
`select_0(j)` as written on the struct it returns, give `selectRef` — the position of the `j`-th 1-bit / 0-bit, `None` for
`j = 0` and beyond the count — for every non-empty bit vector of fewer than 2^60 bits, every `k ≥ 1`, every `j`; nothing
panics.  No model-side constructor in the statement. -/
theorem select_source_exact (bl : List Bool → Nat) (cd8 : Nat → Nat) (bs : List SbRank → SbRank → Nat)
    (bits : List Bool) (k : Nat) (hk : 1 ≤ k) (hks : k * 32 < 2 ^ 64) (hn : bits ≠ []) (hlen : bits.length < 2 ^ 60)
    (hcd : CeilOk cd8 bits.length) (hbl : bl bits = (bits.length + 7) / 8) (hbs : BSearchOk SbRank.lt bs) (j : Nat) :
    ∃ n bits' sbs1 sbs0 s k',
      Gen.SrcRankSelect.new (σ := SbRank) blockByte List.length bl cd8 SbRank.first SbRank.some SbRank.val bits k
        = Rs.Res.ok (n, bits', sbs1, sbs0, s, k') ∧
      Gen.SrcRankSelect.select1 (σ := SbRank) blockByte List.length bl cd8 SbRank.first SbRank.some SbRank.val bs
        n bits' sbs1 sbs0 s k' j = Rs.Res.ok (selectRef true bits j) ∧
      Gen.SrcRankSelect.select0 (σ := SbRank) blockByte List.length bl cd8 SbRank.first SbRank.some SbRank.val bs
        n bits' sbs1 sbs0 s k' j = Rs.Res.ok (selectRef false bits j) := by
  obtain ⟨h1, h0⟩ := select_wrappers_source_eq_model bl cd8 bs bits k hk hks hn hlen hbl hbs j
  rw [RbV.Lemmas.RankSelectModel.select_correct true bits k hk hn j] at h1
  rw [RbV.Lemmas.RankSelectModel.select_correct false bits k hk hn j] at h0
  exact ⟨_, _, _, _, _, _, new_eq_model bl cd8 bits k hk hks hlen hcd, h1, h0⟩

/-- **`rank` exact, from the translated constructor** (replaces the former statement that started from the translated
`fn superblocks`, kept as `rank_source_exact_on_superblocks`): `RankSelect::new(bits, k)` as written, then `rank_1(i)` /
`rank_0(i)` as written on the struct it returns = the number of 1-bits / 0-bits among positions `0..=i`, `None` beyond the end -/
theorem rank_source_exact (bl : List Bool → Nat) (cd8 : Nat → Nat) (bits : List Bool) (k : Nat) (hk : 1 ≤ k)
    (hks : k * 32 < 2 ^ 64) (hlen : bits.length < 2 ^ 60) (hcd : CeilOk cd8 bits.length) (i : Nat) :
    ∃ n bits' sbs1 sbs0 s k',
      Gen.SrcRankSelect.new (σ := SbRank) blockByte List.length bl cd8 SbRank.first SbRank.some SbRank.val bits k
        = Rs.Res.ok (n, bits', sbs1, sbs0, s, k') ∧
      Gen.SrcRankSelect.rank1 (σ := SbRank) blockByte List.length bl cd8 SbRank.first SbRank.some SbRank.val
        n bits' sbs1 sbs0 s k' i = Rs.Res.ok (rankRef true bits i) ∧
      Gen.SrcRankSelect.rank0 (σ := SbRank) blockByte List.length bl cd8 SbRank.first SbRank.some SbRank.val
        n bits' sbs1 sbs0 s k' i = Rs.Res.ok (rankRef false bits i) :=
  ⟨_, _, _, _, _, _, new_eq_model bl cd8 bits k hk hks hlen hcd, rank_on_superblocks bl cd8 bits k hk hlen _ i⟩

/-- **rank and select of the translated code are mutually inverse**: on the struct the translated `new` returns, whenever the
translated `select_b(j)` answers `Some(p)` the translated `rank_b(p)` answers `Some(j)` (both polarities) -/
theorem rank_select_source_inverse (bl : List Bool → Nat) (cd8 : Nat → Nat) (bs : List SbRank → SbRank → Nat)
    (bits : List Bool) (k : Nat) (hk : 1 ≤ k) (hks : k * 32 < 2 ^ 64) (hn : bits ≠ []) (hlen : bits.length < 2 ^ 60)
    (hcd : CeilOk cd8 bits.length) (hbl : bl bits = (bits.length + 7) / 8) (hbs : BSearchOk SbRank.lt bs) (j p : Nat) :
    ∃ n bits' sbs1 sbs0 s k',
      Gen.SrcRankSelect.new (σ := SbRank) blockByte List.length bl cd8 SbRank.first SbRank.some SbRank.val bits k
        = Rs.Res.ok (n, bits', sbs1, sbs0, s, k') ∧
      (Gen.SrcRankSelect.select1 (σ := SbRank) blockByte List.length bl cd8 SbRank.first SbRank.some SbRank.val bs
          n bits' sbs1 sbs0 s k' j = Rs.Res.ok (some p) →
        Gen.SrcRankSelect.rank1 (σ := SbRank) blockByte List.length bl cd8 SbRank.first SbRank.some SbRank.val
          n bits' sbs1 sbs0 s k' p = Rs.Res.ok (some j)) ∧
      (Gen.SrcRankSelect.select0 (σ := SbRank) blockByte List.length bl cd8 SbRank.first SbRank.some SbRank.val bs
          n bits' sbs1 sbs0 s k' j = Rs.Res.ok (some p) →
        Gen.SrcRankSelect.rank0 (σ := SbRank) blockByte List.length bl cd8 SbRank.first SbRank.some SbRank.val
          n bits' sbs1 sbs0 s k' p = Rs.Res.ok (some j)) := by
  obtain ⟨h1, h0⟩ := select_wrappers_source_eq_model bl cd8 bs bits k hk hks hn hlen hbl hbs j
  rw [RbV.Lemmas.RankSelectModel.select_correct true bits k hk hn j] at h1
  rw [RbV.Lemmas.RankSelectModel.select_correct false bits k hk hn j] at h0
  obtain ⟨r1, r0⟩ := rank_on_superblocks bl cd8 bits k hk hlen (superblocks false bits.length (k * 32) (getBlock bits)) p
  refine ⟨_, _, _, _, _, _, new_eq_model bl cd8 bits k hk hks hlen hcd, ?_, ?_⟩
  · intro h
    rw [h1] at h
    rw [r1, rank_select_inverse true bits j p (Rs.Res.ok.inj h)]
  · intro h
    rw [h0] at h
    rw [r0, rank_select_inverse false bits j p (Rs.Res.ok.inj h)]

-- non-vacuity on the 40-bit vector `exBits` (k = 1): the translated functions, evaluated; `searchIdx` plays `binary_search`
example : Gen.SrcRankSelect.new (σ := SbRank) blockByte List.length (fun b => (b.length + 7) / 8) (fun x => (x + 7) / 8)
    SbRank.first SbRank.some SbRank.val exBits 1
    = Rs.Res.ok (40, exBits, [SbRank.first 0, SbRank.some 0], [SbRank.first 0, SbRank.first 32], 32, 1) := by decide
example : Gen.SrcRankSelect.select1 (σ := SbRank) blockByte List.length (fun b => (b.length + 7) / 8) (fun x => (x + 7) / 8)
    SbRank.first SbRank.some SbRank.val searchIdx 40 exBits [SbRank.first 0, SbRank.some 0]
    [SbRank.first 0, SbRank.first 32] 32 1 4 = Rs.Res.ok (some 39) := by decide
example : Gen.SrcRankSelect.select0 (σ := SbRank) blockByte List.length (fun b => (b.length + 7) / 8) (fun x => (x + 7) / 8)
    SbRank.first SbRank.some SbRank.val searchIdx 40 exBits [SbRank.first 0, SbRank.some 0]
    [SbRank.first 0, SbRank.first 32] 32 1 37 = Rs.Res.ok none := by decide
example : Gen.SrcRankSelect.select0 (σ := SbRank) blockByte List.length (fun b => (b.length + 7) / 8) (fun x => (x + 7) / 8)
    SbRank.first SbRank.some SbRank.val searchIdx 40 exBits [SbRank.first 0, SbRank.some 0]
    [SbRank.first 0, SbRank.first 32] 32 1 34 = Rs.Res.ok (some 34) := by decide

end select_source

/-! ## the order of `SuperblockRank`, translated from the source text (session 6, genleft; docs/notes/GEN.md, C17.md)

`impl Deref / Ord / PartialOrd for SuperblockRank` are `RbV/Gen/SrcSbRankOrd.lean` (the enum is generated from its
declaration).  `binary_search` sorts / searches by `Ord::cmp`; with the equality below the order in the assumed contract
`BSearchOk` is the order of the *source text*, no longer the mirror `SbRank.lt`.  Proofs: `RbV/Thm/GenSrcSbRankOrd.lean`. -/
section sbrank_order_source
open RbV.Model.RankSelect RbV.Thm.GenSrcRankSelect RbV.Thm.GenSrcSelect RbV.Lemmas.RankSelectSorted
open RbV.Thm.GenSrcSbRankOrd

/-- **`impl Ord for SuperblockRank`, as written, is the mirror order**: `cmp` returns `Less` exactly when `SbRank.lt` holds,
`Greater` exactly when it holds the other way round, `Equal` otherwise; `deref` is `SbRank.val`; `partial_cmp` is
`Some(cmp)`.  `toSb` renames the constructors of the generated enum (`First`, `Some`) to those of the mirror. -/
theorem superblock_rank_ord_source_eq_model (a b : Gen.SrcSbRankOrd.SuperblockRank) :
    Gen.SrcSbRankOrd.deref a = (toSb a).val ∧
    Gen.SrcSbRankOrd.cmp a b = (if (toSb a).lt (toSb b) then .lt else if (toSb b).lt (toSb a) then .gt else .eq) ∧
    Gen.SrcSbRankOrd.partialCmp a b = some (Gen.SrcSbRankOrd.cmp a b) ∧
    (Gen.SrcSbRankOrd.cmp a b).swap = Gen.SrcSbRankOrd.cmp b a :=
  ⟨deref_eq_model a, cmp_eq_model a b, partialCmp_eq a b, cmp_swap a b⟩

/-- **`select` exact, with the order read from the source**: as `select_source_exact`, but the assumed contract of
`binary_search` is stated for the order `srcLt a b := (cmp a b == Less)` of the *translated* `Ord::cmp` — the mirror order
no longer occurs among the assumptions. -/
theorem select_source_exact_src_order (bl : List Bool → Nat) (cd8 : Nat → Nat) (bs : List SbRank → SbRank → Nat)
    (bits : List Bool) (k : Nat) (hk : 1 ≤ k) (hks : k * 32 < 2 ^ 64) (hn : bits ≠ []) (hlen : bits.length < 2 ^ 60)
    (hcd : CeilOk cd8 bits.length) (hbl : bl bits = (bits.length + 7) / 8)
    (hbs : BSearchOk (fun a b => Gen.SrcSbRankOrd.cmp (ofSb a) (ofSb b) == Ordering.lt) bs) (j : Nat) :
    ∃ n bits' sbs1 sbs0 s k',
      Gen.SrcRankSelect.new (σ := SbRank) blockByte List.length bl cd8 SbRank.first SbRank.some SbRank.val bits k
        = Rs.Res.ok (n, bits', sbs1, sbs0, s, k') ∧
      Gen.SrcRankSelect.select1 (σ := SbRank) blockByte List.length bl cd8 SbRank.first SbRank.some SbRank.val bs
        n bits' sbs1 sbs0 s k' j = Rs.Res.ok (selectRef true bits j) ∧
      Gen.SrcRankSelect.select0 (σ := SbRank) blockByte List.length bl cd8 SbRank.first SbRank.some SbRank.val bs
        n bits' sbs1 sbs0 s k' j = Rs.Res.ok (selectRef false bits j) := by
  have hbs' : BSearchOk SbRank.lt bs := by
    have h := srcLt_eq_model
    unfold srcLt at h
    rw [← h]; exact hbs
  exact select_source_exact bl cd8 bs bits k hk hks hn hlen hcd hbl hbs' j

-- non-vacuity: the translated `cmp` evaluated (equal ranks: `First < Some`), and the contract is satisfiable for the source order
example : Gen.SrcSbRankOrd.cmp (.First 3) (.Some 3) = .lt ∧ Gen.SrcSbRankOrd.cmp (.Some 3) (.First 3) = .gt ∧
    Gen.SrcSbRankOrd.cmp (.Some 3) (.Some 3) = .eq ∧ Gen.SrcSbRankOrd.cmp (.Some 2) (.First 3) = .lt ∧
    Gen.SrcSbRankOrd.cmp (.First 4) (.First 3) = .gt := by decide
example : BSearchOk (fun a b => Gen.SrcSbRankOrd.cmp (ofSb a) (ofSb b) == Ordering.lt) searchIdx := by
  have h := srcLt_eq_model
  unfold srcLt at h
  rw [h]; exact searchIdx_ok

end sbrank_order_source

/-! ## wavelet matrix: function bodies translated from the source text, and the composition wavelet ∘ rank/select

`RbV/Gen/SrcWavelet.lean` (regenerated from `src/data_structures/wavelet_matrix.rs` on every `./check C17`):
`WaveletMatrix::check_overflow`, `prank`, `rank`.  The levels' `RankSelect::rank_0/1` are abstract (possibly panicking)
functions there; `LevelsOk` is what the wavelet code assumes about them.  Proofs: `RbV/Thm/GenSrcWavelet.lean`,
`RbV/Thm/GenSrcWaveletCompose.lean`. -/
section wavelet_source
open RbV.Model.RankSelect RbV.Model.Wavelet RbV.Thm.GenSrcWavelet RbV.Thm.GenSrcWaveletCompose

/-- **`WaveletMatrix::prank`, as written, is the model's `prank`** (existing level, `p ≤ width`, `val` ∈ {0, 1}) -/
theorem wavelet_prank_source_eq_model {ρ : Type} (rank0 rank1 : ρ → Nat → Rs.Res (Option Nat)) (W H : Nat)
    (zeros : List Nat) (levels : List ρ) (lvs : List Level) (hok : LevelsOk rank0 rank1 W zeros levels lvs)
    (level : Nat) (lv : Level) (hl : lvs[level]? = some lv) (b : Bool) (p : Nat) (hp : p ≤ W) :
    Gen.SrcWavelet.prank rank0 rank1 W H zeros levels level p (if b then 1 else 0)
      = Rs.Res.ok (Model.Wavelet.prank (rkSpec lvs level) p b) :=
  prank_eq_model rank0 rank1 W H zeros levels lvs hok level lv hl b p hp

/-- **`WaveletMatrix::rank`, as written, is the model's `rank`** on every structure satisfying `LevelsOk`, for every
in-range `p`; out-of-range `p` is refused (`check_overflow`, translated too) -/
theorem wavelet_rank_source_eq_model {ρ : Type} (rank0 rank1 : ρ → Nat → Rs.Res (Option Nat)) (W : Nat)
    (hW : W < 2 ^ 63) (zeros : List Nat) (levels : List ρ) (lvs : List Level)
    (hok : LevelsOk rank0 rank1 W zeros levels lvs) (hH : lvs.length ≤ 8) (table : List Nat) (c : Nat)
    (hc : c < table.length) (p : Nat) :
    (p < W → Gen.SrcWavelet.rank rank0 rank1 W lvs.length zeros levels table c p
      = Rs.Res.ok (Model.Wavelet.rank (fun v => table.getD v 0) (rkSpec lvs) lvs c p)) ∧
    (W ≤ p → Gen.SrcWavelet.rank rank0 rank1 W lvs.length zeros levels table c p = Rs.Res.panic) :=
  ⟨rank_eq_model rank0 rank1 W hW zeros levels lvs hok hH table c hc p,
   rank_oob_panics rank0 rank1 W lvs.length zeros levels table c p⟩

/-- **composition (mirror models)**: the wavelet mirror model run over the *RankSelect mirror model* of every level
(`rank1` / `rank0` with the `superblocks` table of `RankSelect::new(bits, 1)`) — instead of the declarative rank — returns
`occ`.  One statement for `WaveletMatrix::rank` ∘ `RankSelect::rank_0/1` at model level (DESIGN §13 row C17). -/
theorem wavelet_rank_over_rankselect_model (text : List Nat) (c p : Nat)
    (hp : p < text.length) (hc : c ∈ dnaSyms) (htext : ∀ x ∈ text, x ∈ dnaSyms) :
    Model.Wavelet.rank (fun v => Gen.Dna2Int.table.getD v 0)
        (fun level b i => match (build (fun v => Gen.Dna2Int.table.getD v 0) text)[level]? with
          | some lv => if b then rank1 lv.bits.length (1 * 32) (getBlock lv.bits)
                                  (superblocks true lv.bits.length (1 * 32) (getBlock lv.bits)) i
                       else rank0 lv.bits.length (1 * 32) (getBlock lv.bits)
                                  (superblocks true lv.bits.length (1 * 32) (getBlock lv.bits)) i
          | none => none)
        (build (fun v => Gen.Dna2Int.table.getD v 0) text) c p
      = occ text c p := by
  have hrk : (fun level b i => match (build (fun v => Gen.Dna2Int.table.getD v 0) text)[level]? with
          | some lv => if b then rank1 lv.bits.length (1 * 32) (getBlock lv.bits)
                                  (superblocks true lv.bits.length (1 * 32) (getBlock lv.bits)) i
                       else rank0 lv.bits.length (1 * 32) (getBlock lv.bits)
                                  (superblocks true lv.bits.length (1 * 32) (getBlock lv.bits)) i
          | none => none)
      = rkSpec (build (fun v => Gen.Dna2Int.table.getD v 0) text) := by
    funext level b i
    unfold rkSpec
    cases (build (fun v => Gen.Dna2Int.table.getD v 0) text)[level]? with
    | none => rfl
    | some lv =>
      cases b with
      | true => simpa using (rank_correct lv.bits 1 (by omega) i).1
      | false => simpa using (rank_correct lv.bits 1 (by omega) i).2
  rw [hrk]
  exact wavelet_rank_correct_generated text c p hp hc htext

/-- **composition (translated code)**: `WaveletMatrix::rank` *as written*, over levels whose `rank_0` / `rank_1` are
`RankSelect::rank_0` / `rank_1` *as written* (on the bit vectors and 1-superblock tables of the levels the mirror model of
`WaveletMatrix::new` builds, with the `DNA2INT` table extracted on this run) returns the number of occurrences of `c` in
`text[0..=p]` — for every text over A,C,G,T,N,$ of fewer than 2^60 symbols, every such `c`, every `p < |text|`; no
`unwrap`, index, shift or arithmetic operation of either function panics. -/
theorem wavelet_rank_source_composed (bl : List Bool → Nat) (cd8 : Nat → Nat) (text : List Nat)
    (hn : text.length < 2 ^ 60) (c p : Nat) (hp : p < text.length) (hc : c ∈ dnaSyms)
    (htext : ∀ x ∈ text, x ∈ dnaSyms) :
    Gen.SrcWavelet.rank (srcRank0 bl cd8) (srcRank1 bl cd8) text.length 3
        ((build (fun v => Gen.Dna2Int.table.getD v 0) text).map (·.zeros))
        ((build (fun v => Gen.Dna2Int.table.getD v 0) text).map mkRS) Gen.Dna2Int.table c p
      = Rs.Res.ok (occ text c p) := by
  have hok := levels_ok bl cd8 (fun v => Gen.Dna2Int.table.getD v 0) 3 text hn
  have hlen : (buildLevels (fun v => Gen.Dna2Int.table.getD v 0) 3 text).length = 3 :=
    RbV.Lemmas.Wavelet.length_buildLevels _ 3 text
  have htab : Gen.Dna2Int.table.length = 128 := (tableOk_sound _ dna2int_generated_ok).1
  have hc128 : c < Gen.Dna2Int.table.length := by
    rw [htab]
    have : ∀ a ∈ dnaSyms, a < 128 := by decide
    exact this c hc
  have h := rank_eq_model (srcRank0 bl cd8) (srcRank1 bl cd8) text.length (by omega) _ _ _ hok (by rw [hlen]; omega)
    Gen.Dna2Int.table c hc128 p hp
  rw [hlen] at h
  show Gen.SrcWavelet.rank (srcRank0 bl cd8) (srcRank1 bl cd8) text.length 3
    ((buildLevels (fun v => Gen.Dna2Int.table.getD v 0) 3 text).map (·.zeros))
    ((buildLevels (fun v => Gen.Dna2Int.table.getD v 0) 3 text).map mkRS) Gen.Dna2Int.table c p = _
  rw [h]
  exact congrArg Rs.Res.ok (wavelet_rank_correct_generated text c p hp hc htext)

-- non-vacuity: the text "ACN$NA"; translated `rank('N', 4)` over translated `rank_0/1` = 2
example : Gen.SrcWavelet.rank (srcRank0 (fun _ => 0) (fun x => (x + 7) / 8)) (srcRank1 (fun _ => 0) (fun x => (x + 7) / 8)) 6 3
    ((build (fun v => Gen.Dna2Int.table.getD v 0) [65, 67, 78, 36, 78, 65]).map (·.zeros))
    ((build (fun v => Gen.Dna2Int.table.getD v 0) [65, 67, 78, 36, 78, 65]).map mkRS) Gen.Dna2Int.table 78 4
    = Rs.Res.ok 2 := by decide
example : Gen.SrcWavelet.rank (srcRank0 (fun _ => 0) (fun x => (x + 7) / 8)) (srcRank1 (fun _ => 0) (fun x => (x + 7) / 8)) 6 3
    ((build (fun v => Gen.Dna2Int.table.getD v 0) [65, 67, 78, 36, 78, 65]).map (·.zeros))
    ((build (fun v => Gen.Dna2Int.table.getD v 0) [65, 67, 78, 36, 78, 65]).map mkRS) Gen.Dna2Int.table 78 6
    = Rs.Res.panic := by decide

/-- **`WaveletMatrix::new`, as written, builds the levels of the mirror model** (`build_partlevel`, translated too, is called
twice per level): `(width, 3, zeros, levels)`; `rsNew` stands for `RankSelect::new(_, 1)`, `mk` for what it returns -/
theorem wavelet_new_source_eq_model {ρ : Type} (rank0 rank1 : ρ → Nat → Rs.Res (Option Nat))
    (rsNew : List Bool → Nat → Rs.Res ρ) (mk : List Bool → ρ) (table : List Nat) (text : List Nat)
    (hW : text.length < 2 ^ 63) (hrs : ∀ bits : List Bool, bits.length = text.length → rsNew bits 1 = Rs.Res.ok (mk bits))
    (hv : ∀ v ∈ text, v < table.length) :
    Gen.SrcWavelet.new rank0 rank1 RbV.Thm.GenSrcWaveletNew.bvSetBit RbV.Thm.GenSrcWaveletNew.bvNewFill rsNew table text
      = Rs.Res.ok (text.length, 3, (build (fun v => table.getD v 0) text).map (·.zeros),
          (build (fun v => table.getD v 0) text).map (fun lv => mk lv.bits)) :=
  RbV.Thm.GenSrcWaveletNew.new_eq_model rank0 rank1 rsNew mk table text hW hrs hv

/-- **end to end, no model-side constructor**: `WaveletMatrix::new(text)` *as written* (with `build_partlevel` as written
and `RankSelect::new(_, 1)` as written for every level), followed by `WaveletMatrix::rank(c, p)` *as written* over
`RankSelect::rank_0` / `rank_1` *as written*, returns the number of occurrences of `c` in `text[0..=p]` — for every text
over A,C,G,T,N,$ of fewer than 2^60 symbols, every such `c`, every `p < |text|`; no operation of any of the functions
panics.  `(W, H, zs, lvs)` is whatever the translated constructor returns. -/
theorem wavelet_source_rank_exact (bl : List Bool → Nat) (cd8 : Nat → Nat) (text : List Nat)
    (hn : text.length < 2 ^ 60) (hcd : RbV.Thm.GenSrcRankSelect.CeilOk cd8 text.length) (c p : Nat)
    (hp : p < text.length) (hc : c ∈ dnaSyms) (htext : ∀ x ∈ text, x ∈ dnaSyms) :
    ∃ W H zs lvs,
      Gen.SrcWavelet.new (srcRank0F bl cd8) (srcRank1F bl cd8) RbV.Thm.GenSrcWaveletNew.bvSetBit
        RbV.Thm.GenSrcWaveletNew.bvNewFill (srcRsNew bl cd8) Gen.Dna2Int.table text = Rs.Res.ok (W, H, zs, lvs) ∧
      Gen.SrcWavelet.rank (srcRank0F bl cd8) (srcRank1F bl cd8) W H zs lvs Gen.Dna2Int.table c p
        = Rs.Res.ok (occ text c p) := by
  have htab : Gen.Dna2Int.table.length = 128 := (tableOk_sound _ dna2int_generated_ok).1
  have h128 : ∀ a ∈ dnaSyms, a < 128 := by decide
  have hnew := RbV.Thm.GenSrcWaveletNew.new_eq_model (srcRank0F bl cd8) (srcRank1F bl cd8) (srcRsNew bl cd8) mkRSF
    Gen.Dna2Int.table text (by omega)
    (fun bits hb => srcRsNew_one bl cd8 bits (by omega) (by rw [hb]; exact hcd))
    (fun v hv => by rw [htab]; exact h128 v (htext v hv))
  refine ⟨_, _, _, _, hnew, ?_⟩
  have hok := levels_ok_full bl cd8 (fun v => Gen.Dna2Int.table.getD v 0) 3 text hn
  have hlen : (buildLevels (fun v => Gen.Dna2Int.table.getD v 0) 3 text).length = 3 :=
    RbV.Lemmas.Wavelet.length_buildLevels _ 3 text
  have hc128 : c < Gen.Dna2Int.table.length := by rw [htab]; exact h128 c hc
  have h := rank_eq_model (srcRank0F bl cd8) (srcRank1F bl cd8) text.length (by omega) _ _ _ hok (by rw [hlen]; omega)
    Gen.Dna2Int.table c hc128 p hp
  rw [hlen] at h
  show Gen.SrcWavelet.rank (srcRank0F bl cd8) (srcRank1F bl cd8) text.length 3
    ((buildLevels (fun v => Gen.Dna2Int.table.getD v 0) 3 text).map (·.zeros))
    ((buildLevels (fun v => Gen.Dna2Int.table.getD v 0) 3 text).map (fun lv => mkRSF lv.bits)) Gen.Dna2Int.table c p = _
  rw [h]
  exact congrArg Rs.Res.ok (wavelet_rank_correct_generated text c p hp hc htext)

-- non-vacuity: "ACN$NA" — translated `new`, then translated `rank('N', 4)` on what it returned
example : (Gen.SrcWavelet.new (srcRank0F (fun _ => 0) (fun x => (x + 7) / 8)) (srcRank1F (fun _ => 0) (fun x => (x + 7) / 8))
      RbV.Thm.GenSrcWaveletNew.bvSetBit RbV.Thm.GenSrcWaveletNew.bvNewFill (srcRsNew (fun _ => 0) (fun x => (x + 7) / 8))
      Gen.Dna2Int.table [65, 67, 78, 36, 78, 65] >>= fun r =>
    Gen.SrcWavelet.rank (srcRank0F (fun _ => 0) (fun x => (x + 7) / 8)) (srcRank1F (fun _ => 0) (fun x => (x + 7) / 8))
      r.1 r.2.1 r.2.2.1 r.2.2.2 Gen.Dna2Int.table 78 4) = Rs.Res.ok 2 := by decide

end wavelet_source

example : selectRef true [false, true, true, false, true] 3 = some 4 := by decide
example : rankRef false [false, true, true, false, true] 3 = some 2 := by decide
example : rankRef false [false, true] 2 = none := by decide
example : IsSelect true [false, true, true] 2 2 := ⟨rfl, rfl⟩
example : occ [65, 67, 65, 36] 65 2 = 2 := by decide

end RbV.Thm.C17
