import RbV.Spec.RankSelect
import RbV.Lemmas.RankSelect
/-!
# C17 — rank/select and wavelet-matrix queries equal naive counting

Statements only; helper lemmas are in `RbV/Lemmas/RankSelect.lean`, the mirror models in `RbV/Model/RankSelect.lean`.
Bit vectors are `List Bool`; `rank b bits i` counts the `b`-bits at positions `0..=i`; `IsSelect b bits j p` says
position `p` holds the `j`-th `b`-bit.  The driver's expected values are `prefixCounts` / `positions` look-ups.
-/
namespace RbV.Thm.C17
open RbV.Spec.RankSelect RbV.Lemmas.RankSelect

/-- the one-pass table the driver evaluates is `rank_1`/`rank_0` of the property, `None` exactly beyond the end -/
theorem rank_oracle (b : Bool) (bits : List Bool) (i : Nat) :
    (prefixCounts b bits 0)[i]? = rankRef b bits i := by
  rw [prefixCounts_getElem?]; unfold rankRef; simp

/-- `rank_0(i) = (i + 1) - rank_1(i)` -/
theorem rank0_add_rank1 (bits : List Bool) (i : Nat) (hi : i < bits.length) :
    rank true bits i + rank false bits i = i + 1 := by
  unfold rank
  have h := List.length_take (i := i + 1) (l := bits)
  have : ∀ l : List Bool, l.count true + l.count false = l.length := by
    intro l; induction l with
    | nil => rfl
    | cons x xs ih => cases x <;> simp <;> omega
  rw [this, h]; omega

/-- the driver's `select` answer is the position of the `j`-th `b`-bit, for every `j` (so `j = 0` has none) -/
theorem select_oracle_iff (b : Bool) (bits : List Bool) (j p : Nat) :
    selectRef b bits j = some p ↔ IsSelect b bits j p := by
  unfold selectRef IsSelect
  by_cases hj : j = 0
  · subst hj
    simp only [if_true]
    constructor
    · intro h; cases h
    · rintro ⟨h1, h2⟩
      have := rank_pos_of_getElem? b bits p h1
      omega
  · simp only [hj, if_false, positions_getElem?]
    constructor
    · rintro ⟨q, rfl, h1, h2⟩
      simp only [Nat.zero_add]
      exact ⟨h1, by omega⟩
    · rintro ⟨h1, h2⟩
      exact ⟨p, by omega, h1, by omega⟩

/-- `None` exactly for `j = 0` or `j` larger than the number of `b`-bits -/
theorem select_none_iff (b : Bool) (bits : List Bool) (j : Nat) :
    selectRef b bits j = none ↔ j = 0 ∨ bits.count b < j := by
  unfold selectRef
  by_cases hj : j = 0
  · simp [hj]
  · simp only [hj, if_false, false_or, List.getElem?_eq_none_iff, positions_length]
    omega

/-- the position of the `j`-th `b`-bit is unique -/
theorem select_unique (b : Bool) (bits : List Bool) (j p p' : Nat)
    (h : IsSelect b bits j p) (h' : IsSelect b bits j p') : p = p' := by
  have h1 := (select_oracle_iff b bits j p).mpr h
  have h2 := (select_oracle_iff b bits j p').mpr h'
  rw [h1] at h2; exact Option.some.inj h2

/-- rank and select are mutually inverse: `rank(select(j)) = j` … -/
theorem rank_select_inverse (b : Bool) (bits : List Bool) (j p : Nat)
    (h : selectRef b bits j = some p) : rankRef b bits p = some j := by
  have ⟨h1, h2⟩ := (select_oracle_iff b bits j p).mp h
  unfold rankRef
  have : p < bits.length := by
    have := List.getElem?_eq_some_iff.mp h1; exact this.1
  simp [this, h2]

/-- … and `select(rank(p)) = p` at every position holding a `b`-bit -/
theorem select_rank_inverse (b : Bool) (bits : List Bool) (p : Nat) (h : bits[p]? = some b) :
    selectRef b bits (rank b bits p) = some p :=
  (select_oracle_iff b bits _ p).mpr ⟨h, rfl⟩

/-- wavelet matrix: the driver's expected `rank(c, p)` is the number of occurrences of `c` in `text[0..=p]` -/
theorem occ_oracle (text : List Nat) (c p : Nat) (hp : p < text.length) :
    (prefixCounts true (text.map (· == c)) 0)[p]? = some (occ text c p) := by
  rw [prefixCounts_getElem?]
  simp only [List.length_map, hp, if_true, Nat.zero_add, Option.some.injEq]
  unfold rank occ
  rw [← List.map_take]
  generalize text.take (p + 1) = l
  induction l with
  | nil => rfl
  | cons x xs ih =>
    simp only [List.map_cons, List.count_cons, ih]
    by_cases hx : x = c <;> simp [hx]

/-- the symbol-code table of the pinned tree passes the check the driver applies to the printed table … -/
theorem dna2int_literal_ok : tableOk dna2intLit = true := by decide +kernel

/-- … and that check means: the codes of A, C, G, T, N, $ are below 8 (three bit levels) and pairwise distinct -/
theorem tableOk_sound (t : List Nat) (h : tableOk t = true) :
    t.length = 128 ∧ (∀ a ∈ dnaSyms, t.getD a 0 < 8) ∧
    (∀ a ∈ dnaSyms, ∀ b ∈ dnaSyms, t.getD a 0 = t.getD b 0 → a = b) := by
  unfold tableOk at h
  simp only [Bool.and_eq_true, List.all_eq_true, beq_iff_eq, decide_eq_true_eq, Bool.or_eq_true,
    bne_iff_ne, ne_eq] at h
  refine ⟨h.1.1, h.1.2, ?_⟩
  intro a ha b hb hab
  rcases h.2 a ha b hb with h' | h'
  · exact h'
  · exact absurd hab h'

example : selectRef true [false, true, true, false, true] 3 = some 4 := by decide
example : rankRef false [false, true, true, false, true] 3 = some 2 := by decide
example : rankRef false [false, true] 2 = none := by decide
example : IsSelect true [false, true, true] 2 2 := ⟨rfl, rfl⟩
example : occ [65, 67, 65, 36] 65 2 = 2 := by decide

end RbV.Thm.C17
