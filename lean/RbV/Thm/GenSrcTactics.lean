import RbV.Basic.RsSem
/-!
Tactics for *branch-agnostic* proofs about translated function bodies (`RbV/Gen/Src*.lean`, docs/notes/GEN.md, "Proof
style"): instead of following the `if`/`match` structure of the generated term, a proof states the facts that hold on
the inputs of interest (named reads `Rs.idx … = ok …`, slices, linear relations between the values as hypotheses) and
`rs_paths [facts]` walks every path of the body:

* at the head of the goal, a checked arithmetic operation is discharged when `omega` proves its side condition from the
  context (`Rs.add_ok`, `Rs.sub_ok`, `Rs.mul_ok`, `Rs.div_ok`, `Rs.rem_ok`) — only the head operation is looked at, so
  no time is lost under binders;
* the named facts and the monad laws rewrite (`simp only`);
* an undecided `if`/`match` is `split`; the leaves `ok x = ok y` (and the unreachable ones) are closed by `omega`.

A rewrite of the Rust text that keeps the property (another branch order, an extra early exit, a different but
equivalent index expression) is re-proved as long as the facts cover the operations it performs; a wrong bound leaves
a goal open (an operation whose side condition fails, or a leaf with different values).
-/
namespace RbV.Thm.GenSrc
open RbV RbV.Rs

/-- one step at the head of a translated body -/
macro "rs_head" "[" ts:Lean.Parser.Tactic.simpLemma,* "]" : tactic =>
  `(tactic| first
      | (rw [Rs.add_ok]; rotate_left; omega)
      | (rw [Rs.sub_ok]; rotate_left; omega)
      | (rw [Rs.mul_ok]; rotate_left; omega)
      | (rw [Rs.div_ok]; rotate_left; omega)
      | (rw [Rs.rem_ok]; rotate_left; omega)
      | simp only [$ts,*, Res.ok_bind, Res.panic_bind, Res.pure_eq_ok, pure_bind, decide_eq_true_eq,
          Bool.and_eq_true, Bool.or_eq_true, Bool.not_eq_true', decide_eq_false_iff_not, beq_iff_eq, bne_iff_ne,
          ite_true, ite_false, Res.ok.injEq, gt_iff_lt, ge_iff_le])

/-- all paths of a translated body -/
macro "rs_paths" "[" ts:Lean.Parser.Tactic.simpLemma,* "]" : tactic =>
  `(tactic| (
      repeat' (first | rs_head [$ts,*] | split)
      all_goals (try omega)))

end RbV.Thm.GenSrc
